// ssvgen: the translator half of the tie between /repo and the Lean model.
//
// It type-checks packages of the CURRENT /repo working tree from source (go/parser +
// go/types with the source importer) and regenerates lean/SSV/Gen/<ID>.lean: numeric
// constants (also unexported ones), small tables, and "step programs"/facts extracted from
// function bodies. An extractor that meets a shape it does not recognise aborts (exit 4,
// message `GEN-BROKEN <ID> <item>: ...`): the tie is broken, the check then searches for a
// failing input. Files are rewritten only when their content changes (keeps lake's cache warm).
//
// One small binary per property (cmd/gen_cXX) calls gen.Main(id, f):
// usage: gen_cXX --repo /repo --out /verif/lean/SSV/Gen
package gen

import (
	"flag"
	"fmt"
	"go/ast"
	"go/constant"
	"go/importer"
	"go/parser"
	"go/printer"
	"go/token"
	"go/types"
	"os"
	"path/filepath"
	"strings"
)

type Pkg struct {
	Dir   string
	Files []*ast.File
	Types *types.Package
	Info  *types.Info
	ctx   *Ctx
}

type Ctx struct {
	Repo string
	Fset *token.FileSet
	imp  types.Importer
	pkgs map[string]*Pkg
}

func NewCtx(repo string) *Ctx {
	fset := token.NewFileSet()
	return &Ctx{Repo: repo, Fset: fset, imp: importer.ForCompiler(fset, "source", nil), pkgs: map[string]*Pkg{}}
}

// Load parses and type-checks the package in directory dir (relative to the repo root),
// non-test files for linux/amd64 only.
func (c *Ctx) Load(dir string) (*Pkg, error) {
	if p, ok := c.pkgs[dir]; ok {
		return p, nil
	}
	full := filepath.Join(c.Repo, dir)
	ents, err := os.ReadDir(full)
	if err != nil {
		return nil, err
	}
	var files []*ast.File
	for _, e := range ents {
		n := e.Name()
		if !strings.HasSuffix(n, ".go") || strings.HasSuffix(n, "_test.go") {
			continue
		}
		if skipForLinux(n) {
			continue
		}
		f, err := parser.ParseFile(c.Fset, filepath.Join(full, n), nil, parser.ParseComments|parser.SkipObjectResolution)
		if err != nil {
			return nil, err
		}
		if !buildTagOK(f) {
			continue
		}
		files = append(files, f)
	}
	info := &types.Info{Types: map[ast.Expr]types.TypeAndValue{}, Defs: map[*ast.Ident]types.Object{}, Uses: map[*ast.Ident]types.Object{}, Selections: map[*ast.SelectorExpr]*types.Selection{}}
	conf := types.Config{Importer: c.imp, Error: func(error) {}}
	tp, _ := conf.Check("github.com/database64128/shadowsocks-go/"+dir, c.Fset, files, info)
	if tp == nil {
		return nil, fmt.Errorf("type-check of %s failed", dir)
	}
	p := &Pkg{Dir: dir, Files: files, Types: tp, Info: info, ctx: c}
	c.pkgs[dir] = p
	return p, nil
}

func skipForLinux(name string) bool {
	base := strings.TrimSuffix(name, ".go")
	for _, os := range []string{"windows", "darwin", "freebsd", "openbsd", "netbsd", "dragonfly", "solaris", "plan9", "js", "wasip1", "aix", "android", "ios", "illumos"} {
		if strings.HasSuffix(base, "_"+os) || strings.Contains(base, "_"+os+"_") {
			return true
		}
	}
	for _, arch := range []string{"386", "arm", "arm64", "riscv64", "mips", "mips64", "ppc64", "ppc64le", "s390x", "wasm", "loong64"} {
		if strings.HasSuffix(base, "_"+arch) {
			return true
		}
	}
	return false
}

// buildTagOK evaluates a //go:build line for linux/amd64 without the verif tag (best effort:
// the tags this repository uses are GOOS names, their negations and simple || / &&).
func buildTagOK(f *ast.File) bool {
	for _, cg := range f.Comments {
		if cg.Pos() > f.Package {
			break
		}
		for _, cm := range cg.List {
			if strings.HasPrefix(cm.Text, "//go:build ") {
				return evalBuild(strings.TrimPrefix(cm.Text, "//go:build "))
			}
		}
	}
	return true
}

func evalBuild(expr string) bool {
	// tiny recursive-descent evaluator: || lowest, && next, ! and parens, identifiers.
	toks := tokenizeBuild(expr)
	pos := 0
	var parseOr func() bool
	parseAtom := func() bool {
		if pos >= len(toks) {
			return false
		}
		t := toks[pos]
		pos++
		switch t {
		case "(":
			v := parseOr()
			pos++ // ")"
			return v
		default:
			return t == "linux" || t == "amd64" || t == "unix" || t == "gc" || t == "cgo" || strings.HasPrefix(t, "go1.")
		}
	}
	var parseNot func() bool
	parseNot = func() bool {
		if pos < len(toks) && toks[pos] == "!" {
			pos++
			return !parseNot()
		}
		return parseAtom()
	}
	parseAnd := func() bool {
		v := parseNot()
		for pos < len(toks) && toks[pos] == "&&" {
			pos++
			w := parseNot()
			v = v && w
		}
		return v
	}
	parseOr = func() bool {
		v := parseAnd()
		for pos < len(toks) && toks[pos] == "||" {
			pos++
			w := parseAnd()
			v = v || w
		}
		return v
	}
	return parseOr()
}

func tokenizeBuild(s string) []string {
	var toks []string
	for i := 0; i < len(s); {
		switch {
		case s[i] == ' ':
			i++
		case s[i] == '(' || s[i] == ')' || s[i] == '!':
			toks = append(toks, s[i:i+1])
			i++
		case strings.HasPrefix(s[i:], "&&") || strings.HasPrefix(s[i:], "||"):
			toks = append(toks, s[i:i+2])
			i += 2
		default:
			j := i
			for j < len(s) && !strings.ContainsRune(" ()!&|", rune(s[j])) {
				j++
			}
			toks = append(toks, s[i:j])
			i = j
		}
	}
	return toks
}

// ConstInt returns the exact decimal value of a package-level integer constant.
func (p *Pkg) ConstInt(name string) (string, error) {
	obj := p.Types.Scope().Lookup(name)
	c, ok := obj.(*types.Const)
	if !ok {
		return "", fmt.Errorf("%s.%s: no such constant", p.Dir, name)
	}
	v := constant.ToInt(c.Val())
	if v.Kind() != constant.Int {
		return "", fmt.Errorf("%s.%s: not an integer constant (%s)", p.Dir, name, c.Val())
	}
	return v.ExactString(), nil
}

// ConstString returns the value of a package-level string constant.
func (p *Pkg) ConstString(name string) (string, error) {
	obj := p.Types.Scope().Lookup(name)
	c, ok := obj.(*types.Const)
	if !ok || c.Val().Kind() != constant.String {
		return "", fmt.Errorf("%s.%s: no such string constant", p.Dir, name)
	}
	return constant.StringVal(c.Val()), nil
}

// Func finds a function or method declaration: Func("", "NewX") or Func("*T", "M") / Func("T", "M").
func (p *Pkg) Func(recv, name string) (*ast.FuncDecl, error) {
	for _, f := range p.Files {
		for _, d := range f.Decls {
			fd, ok := d.(*ast.FuncDecl)
			if !ok || fd.Name.Name != name {
				continue
			}
			if recv == "" && fd.Recv == nil {
				return fd, nil
			}
			if recv != "" && fd.Recv != nil && len(fd.Recv.List) == 1 {
				if strings.TrimPrefix(p.Src(fd.Recv.List[0].Type), "*") == strings.TrimPrefix(recv, "*") {
					return fd, nil
				}
			}
		}
	}
	return nil, fmt.Errorf("%s: function %s.%s not found", p.Dir, recv, name)
}

// Src prints an AST node as source text on one line (canonical gofmt form).
func (p *Pkg) Src(n ast.Node) string {
	var sb strings.Builder
	printer.Fprint(&sb, p.ctx.Fset, n)
	return strings.Join(strings.Fields(sb.String()), " ")
}

// EvalInt evaluates a constant integer expression that appears in the package's source.
func (p *Pkg) EvalInt(e ast.Expr) (string, bool) {
	tv, ok := p.Info.Types[e]
	if !ok || tv.Value == nil {
		return "", false
	}
	v := constant.ToInt(tv.Value)
	if v.Kind() != constant.Int {
		return "", false
	}
	return v.ExactString(), true
}

// ---------- Lean output ----------

type Lean struct {
	id string
	sb strings.Builder
}

func (l *Lean) Comment(format string, a ...any) {
	fmt.Fprintf(&l.sb, "-- "+format+"\n", a...)
}
func (l *Lean) NatDef(name, val, origin string) {
	fmt.Fprintf(&l.sb, "/-- %s -/\ndef %s : Nat := %s\n", origin, name, val)
}
func (l *Lean) IntDef(name, val, origin string) {
	fmt.Fprintf(&l.sb, "/-- %s -/\ndef %s : Int := %s\n", origin, name, val)
}
func (l *Lean) BoolDef(name string, val bool, origin string) {
	fmt.Fprintf(&l.sb, "/-- %s -/\ndef %s : Bool := %v\n", origin, name, val)
}
func (l *Lean) StrDef(name, val, origin string) {
	fmt.Fprintf(&l.sb, "/-- %s -/\ndef %s : String := %s\n", origin, name, leanString(val))
}
func (l *Lean) Raw(s string) { l.sb.WriteString(s) }

func leanString(s string) string {
	var sb strings.Builder
	sb.WriteByte('"')
	for _, r := range s {
		switch {
		case r == '"':
			sb.WriteString("\\\"")
		case r == '\\':
			sb.WriteString("\\\\")
		case r == '\n':
			sb.WriteString("\\n")
		case r == '\r':
			sb.WriteString("\\r")
		case r == '\t':
			sb.WriteString("\\t")
		case r < 0x20 || r == 0x7f:
			fmt.Fprintf(&sb, "\\x%02x", r)
		default:
			sb.WriteRune(r)
		}
	}
	sb.WriteByte('"')
	return sb.String()
}

func leanStrList(xs []string) string {
	q := make([]string, len(xs))
	for i, x := range xs {
		q[i] = leanString(x)
	}
	return "[" + strings.Join(q, ", ") + "]"
}

// Consts emits one Nat definition per (lean name <- package constant).
func (l *Lean) Consts(p *Pkg, names ...string) error {
	for _, n := range names {
		lean, goName, _ := strings.Cut(n, "=")
		if goName == "" {
			goName = lean
		}
		v, err := p.ConstInt(goName)
		if err != nil {
			return err
		}
		if strings.HasPrefix(v, "-") {
			l.IntDef(lean, "("+v+")", p.Dir+"."+goName)
		} else {
			l.NatDef(lean, v, p.Dir+"."+goName)
		}
	}
	return nil
}

// Func is a per-property generator: it loads packages through c and writes Lean through l.
type Func func(c *Ctx, l *Lean) error

// Main is the body of every cmd/gen_cXX binary.
func Main(id string, g Func) {
	repo := flag.String("repo", "/repo", "repository root")
	out := flag.String("out", "/verif/lean/SSV/Gen", "output directory")
	flag.Parse()
	if err := os.Chdir(*repo); err != nil { // the source importer resolves the module from the cwd
		fmt.Fprintln(os.Stderr, err)
		os.Exit(3)
	}
	ctx := NewCtx(*repo)
	l := &Lean{id: id}
	fmt.Fprintf(&l.sb, "-- REGENERATED by /verif/harness/cmd/gen_%s from the /repo working tree on every run. Do not edit.\nnamespace SSV.Gen.%s\n", strings.ToLower(id), id)
	path := filepath.Join(*out, id+".lean")
	if err := g(ctx, l); err != nil {
		fmt.Printf("GEN-BROKEN %s: %v\n", id, strings.ReplaceAll(err.Error(), "\n", " "))
		// leave a file that does not elaborate, so that no theorem is checked against stale facts
		os.WriteFile(path, []byte(fmt.Sprintf("-- generation failed: %s\n#exit_gen_broken\n", strings.ReplaceAll(err.Error(), "\n", " "))), 0o644)
		os.Exit(4)
	}
	fmt.Fprintf(&l.sb, "end SSV.Gen.%s\n", id)
	old, _ := os.ReadFile(path)
	if string(old) != l.sb.String() {
		if err := os.WriteFile(path, []byte(l.sb.String()), 0o644); err != nil {
			fmt.Fprintln(os.Stderr, err)
			os.Exit(3)
		}
		fmt.Printf("GEN-UPDATED %s\n", id)
	}
}

// LeanStrList renders a Lean `List String` literal.
func LeanStrList(xs []string) string { return leanStrList(xs) }

// LeanString renders a Lean string literal.
func LeanString(s string) string { return leanString(s) }
