// Package common holds the plumbing shared by every correspondence engine:
// the seeded PRNG, the line-protocol client of the Lean drivers, and the
// report each engine hands back to /verif/check.
package common

import (
	"bufio"
	"bytes"
	"encoding/json"
	"flag"
	"fmt"
	"os"
	"os/exec"
	"sort"
	"strings"
	"time"
)

// ---------- PRNG (splitmix64): every random choice derives from VERIF_SEED ----------

type Rng struct{ s uint64 }

func NewRng(seed uint64) *Rng { return &Rng{s: seed} }

func (r *Rng) U64() uint64 {
	r.s += 0x9e3779b97f4a7c15
	z := r.s
	z = (z ^ (z >> 30)) * 0xbf58476d1ce4e5b9
	z = (z ^ (z >> 27)) * 0x94d049bb133111eb
	return z ^ (z >> 31)
}

// Intn returns a value in [0,n). n must be > 0.
func (r *Rng) Intn(n int) int { return int(r.U64() % uint64(n)) }

// Range returns a value in [lo,hi].
func (r *Rng) Range(lo, hi int) int { return lo + r.Intn(hi-lo+1) }

func (r *Rng) Bool() bool { return r.U64()&1 == 1 }

// Chance returns true with probability num/den.
func (r *Rng) Chance(num, den int) bool { return r.Intn(den) < num }

func (r *Rng) Bytes(n int) []byte {
	b := make([]byte, n)
	for i := range b {
		b[i] = byte(r.U64())
	}
	return b
}

// Fork derives an independent generator (for a case index) without disturbing r's own sequence.
func (r *Rng) Fork(i uint64) *Rng { return &Rng{s: r.s ^ (i+1)*0xd1342543de82ef95} }

func Pick[T any](r *Rng, xs []T) T { return xs[r.Intn(len(xs))] }

// ---------- Lean driver client ----------

// Driver talks to a compiled Lean driver (`ssv_cXX`): one line in, one line out.
type Driver struct {
	cmd *exec.Cmd
	in  *bufio.Writer
	out *bufio.Reader
	pth string
}

func StartDriver(path string, args ...string) (*Driver, error) {
	cmd := exec.Command(path, args...)
	stdin, err := cmd.StdinPipe()
	if err != nil {
		return nil, err
	}
	stdout, err := cmd.StdoutPipe()
	if err != nil {
		return nil, err
	}
	cmd.Stderr = os.Stderr
	if err := cmd.Start(); err != nil {
		return nil, err
	}
	return &Driver{cmd: cmd, in: bufio.NewWriterSize(stdin, 1<<16), out: bufio.NewReaderSize(stdout, 1<<16), pth: path}, nil
}

// Ask sends one line and waits for the one-line answer.
func (d *Driver) Ask(line string) (string, error) {
	if strings.ContainsAny(line, "\n\r") {
		return "", fmt.Errorf("driver line contains a newline: %q", line)
	}
	if _, err := d.in.WriteString(line + "\n"); err != nil {
		return "", err
	}
	if err := d.in.Flush(); err != nil {
		return "", err
	}
	s, err := d.out.ReadString('\n')
	if err != nil {
		return "", fmt.Errorf("driver %s: %w (after %q)", d.pth, err, line)
	}
	return strings.TrimRight(s, "\r\n"), nil
}

// Batch sends all lines, then reads all answers (much faster than Ask for long scripts).
func (d *Driver) Batch(lines []string) ([]string, error) {
	res := make([]string, 0, len(lines))
	errc := make(chan error, 1)
	go func() {
		for _, l := range lines {
			if _, err := d.in.WriteString(l + "\n"); err != nil {
				errc <- err
				return
			}
		}
		errc <- d.in.Flush()
	}()
	for range lines {
		s, err := d.out.ReadString('\n')
		if err != nil {
			return res, fmt.Errorf("driver %s: %w", d.pth, err)
		}
		res = append(res, strings.TrimRight(s, "\r\n"))
	}
	if err := <-errc; err != nil {
		return res, err
	}
	return res, nil
}

func (d *Driver) Close() {
	d.in.Flush()
	if c, ok := d.cmd.Stdin.(interface{ Close() error }); ok {
		c.Close()
	}
	done := make(chan struct{})
	go func() { d.cmd.Wait(); close(done) }()
	select {
	case <-done:
	case <-time.After(5 * time.Second):
		d.cmd.Process.Kill()
	}
}

// RunDriverOnce starts the driver, runs the script in batch mode and closes it.
func RunDriverOnce(path string, lines []string) ([]string, error) {
	cmd := exec.Command(path)
	cmd.Stdin = strings.NewReader(strings.Join(lines, "\n") + "\n")
	var out bytes.Buffer
	cmd.Stdout = &out
	cmd.Stderr = os.Stderr
	if err := cmd.Run(); err != nil {
		return nil, err
	}
	res := strings.Split(strings.TrimRight(out.String(), "\n"), "\n")
	if len(res) != len(lines) {
		return res, fmt.Errorf("driver %s answered %d lines for %d operations", path, len(res), len(lines))
	}
	return res, nil
}

// ---------- report ----------

// Divergence: the executable model and the implementation disagreed on a concrete case.
type Divergence struct {
	Engine string `json:"engine"`
	Case   any    `json:"case"`
	Impl   any    `json:"impl"`
	Model  any    `json:"model"`
	Note   string `json:"note,omitempty"`
}

// OracleFailure: the implementation-side property oracle failed on a concrete case:
// this is a violation of the property itself (independent of the model).
type OracleFailure struct {
	Engine string `json:"engine"`
	// Key classifies the failing input (call site / history shape) so that it can be
	// matched against /verif/known_findings.json; a failure with a key that is not listed
	// there is reported as a VIOLATION.
	Key    string `json:"key"`
	Case   any    `json:"case"`
	Detail string `json:"detail"`
}

type Report struct {
	Property           string          `json:"property"`
	Tier               string          `json:"tier"`
	Seed               uint64          `json:"seed"`
	Evaluations        int             `json:"evaluations"`
	DistinctNontrivial int             `json:"distinct_nontrivial"`
	Rule               string          `json:"rule"`
	Samples            []any           `json:"samples"`
	Distribution       map[string]int  `json:"distribution"`
	Engines            []string        `json:"engines"`
	Exhaustive         bool            `json:"exhaustive,omitempty"`
	Divergences        []Divergence    `json:"divergences"`
	OracleFailures     []OracleFailure `json:"oracle_failures"`
	// FindingsProbed: for every probe of a known-finding witness, whether the defect reproduced.
	FindingsProbed  map[string]bool `json:"findings_probed,omitempty"`
	Notes           []string        `json:"notes,omitempty"`
	TracesValidated int             `json:"traces_validated_against_impl"`

	distinct map[string]struct{}
}

func NewReport(prop string, o *Options) *Report {
	return &Report{Property: prop, Tier: o.Tier, Seed: o.Seed, Distribution: map[string]int{},
		distinct: map[string]struct{}{}, FindingsProbed: map[string]bool{}}
}

func (r *Report) Count(key string) { r.Distribution[key]++ }

// Case records one evaluated case; `sig` is its canonical signature (for the distinct count),
// `nontrivial` says whether it is non-trivial by the engine's stated rule.
func (r *Report) Case(sig string, nontrivial bool) {
	r.Evaluations++
	if nontrivial {
		if _, ok := r.distinct[sig]; !ok {
			r.distinct[sig] = struct{}{}
			r.DistinctNontrivial = len(r.distinct)
		}
	}
}

func (r *Report) Sample(x any) {
	if len(r.Samples) < 6 {
		r.Samples = append(r.Samples, x)
	}
}

func (r *Report) Diverge(d Divergence) {
	if len(r.Divergences) < 20 {
		r.Divergences = append(r.Divergences, d)
	}
	r.Count("DIVERGENCE:" + d.Engine)
}

func (r *Report) Fail(f OracleFailure) {
	if len(r.OracleFailures) < 50 {
		r.OracleFailures = append(r.OracleFailures, f)
	}
	r.Count("ORACLE-FAIL:" + f.Key)
}

func (r *Report) Note(format string, a ...any) { r.Notes = append(r.Notes, fmt.Sprintf(format, a...)) }

func (r *Report) Write(path string) error {
	if r.Samples == nil {
		r.Samples = []any{}
	}
	if r.Divergences == nil {
		r.Divergences = []Divergence{}
	}
	if r.OracleFailures == nil {
		r.OracleFailures = []OracleFailure{}
	}
	sort.Strings(r.Engines)
	b, err := json.MarshalIndent(r, "", " ")
	if err != nil {
		return err
	}
	if path == "" || path == "-" {
		_, err = os.Stdout.Write(append(b, '\n'))
		return err
	}
	return os.WriteFile(path, append(b, '\n'), 0o644)
}

// ---------- options ----------

type Options struct {
	Tier   string
	Seed   uint64
	Driver string
	Out    string
	Replay string
	Search bool // a proof obligation or the correspondence is broken: spend the search budget
}

func ParseFlags() *Options {
	o := &Options{}
	flag.StringVar(&o.Tier, "tier", "quick", "quick|thorough")
	flag.Uint64Var(&o.Seed, "seed", 1, "PRNG seed (VERIF_SEED)")
	flag.StringVar(&o.Driver, "driver", "", "path of the compiled Lean driver")
	flag.StringVar(&o.Out, "out", "-", "report file")
	flag.StringVar(&o.Replay, "replay", "", "replay file to re-run instead of generating")
	flag.BoolVar(&o.Search, "search", false, "violation search mode (larger, boundary-biased budget)")
	flag.Parse()
	return o
}

func (o *Options) Thorough() bool { return o.Tier == "thorough" }

// Budget picks the per-tier case count; search mode multiplies the quick budget by 10.
func (o *Options) Budget(quick, thorough int) int {
	switch {
	case o.Thorough():
		return thorough
	case o.Search:
		return quick * 10
	default:
		return quick
	}
}

// LoadReplay reads the "case" of a replay file written by /verif/check.
func LoadReplay(path string, into any) error {
	b, err := os.ReadFile(path)
	if err != nil {
		return err
	}
	var w struct {
		Case json.RawMessage `json:"case"`
	}
	if err := json.Unmarshal(b, &w); err != nil {
		return err
	}
	if w.Case == nil {
		return fmt.Errorf("%s: no \"case\" member", path)
	}
	return json.Unmarshal(w.Case, into)
}

// Safely runs f and converts a panic into an error string (models are total; a panic of
// the implementation is always a divergence and, for several properties, the oracle).
func Safely(f func()) (panicked any) {
	defer func() {
		if p := recover(); p != nil {
			panicked = p
		}
	}()
	f()
	return nil
}
