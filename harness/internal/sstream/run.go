package sstream

import (
	"bytes"
	"context"
	"encoding/binary"
	"fmt"
	"io"
	"sort"
	"strings"
	"time"

	"ssvharness/internal/common"

	"github.com/database64128/shadowsocks-go/netio"
	"github.com/database64128/shadowsocks-go/socks5"
)

// WOp is one call on the writing side of a tunnel end.
type WOp struct {
	Kind  string `json:"kind"` // write | readfrom
	Data  Data   `json:"data"`
	Sizes []int  `json:"sizes,omitempty"` // readfrom (old form): sizes of the results the source returns, no errors
	// readfrom: the results the scripted source returns, cut from Data in order (what is left of Data is a
	// last result without error): Len bytes and, together with them, Err ("" | "eof" | "err")
	Items []SrcIt `json:"items,omitempty"`
}

type SrcIt struct {
	Len int    `json:"len"`
	Err string `json:"err,omitempty"`
}

// script returns the source script of a readfrom op and its rendering for the driver.
func (o WOp) script() ([]SrcItem, string) {
	its := o.Items
	if len(its) == 0 {
		for _, n := range o.Sizes {
			its = append(its, SrcIt{Len: n})
		}
	}
	d := o.Data.Bytes()
	var items []SrcItem
	var spec []string
	for _, it := range its {
		n := min(it.Len, len(d))
		si := SrcItem{Data: d[:n]}
		t := fmt.Sprint(it.Len)
		switch it.Err {
		case "eof":
			si.Err, t = io.EOF, t+"e"
		case "err":
			si.Err, t = ErrSource, t+"x"
		}
		items = append(items, si)
		spec = append(spec, t)
		d = d[n:]
	}
	if len(d) > 0 {
		items = append(items, SrcItem{Data: d})
	}
	if len(spec) == 0 {
		return items, "-"
	}
	return items, strings.Join(spec, ",")
}

// WObs is what one writer call did: the error class it returned and the bytes the caller / the source
// handed to the conn.
type WObs struct {
	Err    string
	Handed []byte
}

// ROp is one call on the reading side of a tunnel end.
type ROp struct {
	Kind string `json:"kind"` // read | writeto | tunnel | writeto-sink | writeto-badsink | tunnel-fail
	N    int    `json:"n,omitempty"`
	// writeto-sink: the results of the sink's Write calls (then it takes everything);
	// writeto-badsink: the sink's first Write takes half of what is offered and returns nil (outside the
	// io.Writer contract: run against the code, reported in the evidence, no verdict, schedule ends)
	Sink []SinkIt `json:"sink,omitempty"`
	// tunnel-fail: tunnel copy into a conn whose transport fails at its FailAt-th write of the copy, after
	// FailKeep bytes of that write
	FailAt   int `json:"fail_at,omitempty"`
	FailKeep int `json:"fail_keep,omitempty"`
	// tunnel: entered through the reader's WriteTo (false) or the destination's ReadFrom (true)
	ViaReadFrom bool `json:"via_readfrom,omitempty"`
}

// Seg describes how the transport cuts a wire into segments.
type Seg struct {
	Mode string `json:"mode"` // atomic | one | bytes | cuts | random
	Seed uint64 `json:"seed,omitempty"`
	// ShortFirst: do not extend the first segment to the length of the fixed-length part
	ShortFirst bool `json:"short_first,omitempty"`
}

type Case struct {
	Cfg     Cfg    `json:"cfg"`
	Target  Target `json:"target"`
	Payload Data   `json:"payload"`
	CWrites []WOp  `json:"cwrites"`
	C2S     Seg    `json:"c2s"`
	SReads  []ROp  `json:"sreads"`
	SWrites []WOp  `json:"swrites"`
	S2C     Seg    `json:"s2c"`
	CReads  []ROp  `json:"creads"`
	// SinkStarted: the server conn a client reader is tunnelled into has already written
	SinkStarted bool `json:"sink_started,omitempty"`
	// WriteFirst: the server writes its data before it reads the client's
	WriteFirst bool `json:"write_first,omitempty"`
	// read deadlines reported by the transport of the server (C2STout) / of the client (S2CTout)
	// DialCtx: the context given to DialStream: "" background | "cancel" cancelled right after DialStream
	// returned | "deadline" its deadline expires right after DialStream returned. Either way the session goes on.
	DialCtx string `json:"dial_ctx,omitempty"`
	C2STout Tout `json:"c2s_tout,omitempty"`
	S2CTout Tout `json:"s2c_tout,omitempty"`
}

// Tout scripts read deadlines of a transport: Mode "boundary": Count deadlines at chunk boundaries
// (nothing of the next chunk consumed; repetitions allowed); Mode "mid": one deadline strictly inside a
// chunk (after k > 0 of its bytes).
type Tout struct {
	Mode  string `json:"mode,omitempty"`
	Seed  uint64 `json:"seed,omitempty"`
	Count int    `json:"count,omitempty"`
}

// Offsets expands a deadline script: bounds = the offsets at which a data chunk (length chunk +
// payload chunk) starts or the stream ends, ascending.
func (t Tout) Offsets(bounds []int) []int {
	if t.Mode == "" || len(bounds) == 0 {
		return nil
	}
	r := common.NewRng(t.Seed)
	var out []int
	if t.Mode == "mid" {
		if len(bounds) < 2 {
			return nil
		}
		i := r.Intn(len(bounds) - 1)
		span := bounds[i+1] - bounds[i]
		if span < 2 {
			return nil
		}
		k := common.Pick(r, []int{1, 17, 18, 19, span - 1, r.Range(1, span-1)})
		k = min(max(k, 1), span-1)
		return []int{bounds[i] + k}
	}
	for i := 0; i < max(t.Count, 1); i++ {
		out = append(out, common.Pick(r, bounds))
	}
	sort.Ints(out)
	return out
}

// OpObs is what one reader call did on the implementation.
type OpObs struct {
	Op     ROp
	Bytes  []byte   // bytes delivered to the application by this call
	Pieces [][]byte // copy calls: the individual writes / re-encrypted chunks
	Err    string   // ok | eof | <class> | panic:<msg>
	N      int64    // the count the call returned
}

// Obs is everything the implementation did in one session.
type Obs struct {
	DialErr     string
	C2SWrites   [][]byte
	ReqFrames   ReqFrames
	StripOK     bool
	HandleKind  string // request | fallback | error
	HandleErr   string
	ReqAddr     []byte
	ReqUser     string
	ReqPayload  []byte
	FallbackPay []byte
	ServerWire  []byte // what the server's transport delivered (after relays)
	FirstSeg    int
	SOps        []OpObs
	S2CWrites   [][]byte
	RespFrames  RespFrames
	SWriteErr   string
	COps        []OpObs
	CFirstSeg   int
	Panic       string
	C2STouts, S2CTouts []int
	// functions still registered on the dial context when it ended after DialStream had returned
	DialCtxArmed int
	// errors returned by the writer calls (class per call)
	CWriteErrs, SWriteErrs []string
	// the bytes each side handed to its conn, in order (initial payload, Write data, what the ReadFrom
	// sources handed over): the streams the other side must receive
	C2SHanded, S2CHanded []byte
	// the request looked at again: after the server wrote (if it wrote) and at the end of the session
	ReqLater []ReqSeen
	// live objects of the session (for the tamper engine)
	CC netio.Conn `json:"-"` // the client's tunnel conn
	CT *Conn      `json:"-"` // its transport
	ST *Conn      `json:"-"` // the server's transport
}

// ReqSeen is what the holder of the ConnRequest reads out of it at a later point of the session.
type ReqSeen struct {
	When    string
	Addr    []byte
	User    string
	Payload []byte // informational: the payload slice is a borrowed buffer
	Panic   string
}

// Script is the driver script of a session and, per line, the answer the implementation's
// behaviour corresponds to.
type Script struct {
	Lines  []string
	Expect []string
}

func (s *Script) Add(line, expect string) {
	s.Lines = append(s.Lines, line)
	s.Expect = append(s.Expect, expect)
}

// Match compares a driver answer with the expectation (fallback payloads are ciphertext: only
// their length can agree between the real and the toy wire; `copied` lines of a tunnel into a conn
// that has not written yet agree on the flattened bytes only).
func Match(expect, got string) bool {
	if expect == got {
		return true
	}
	if strings.HasPrefix(expect, "fallback ") && strings.HasPrefix(got, "fallback ") {
		e, _, _ := strings.Cut(expect, ":")
		g, _, _ := strings.Cut(got, ":")
		return e == g
	}
	if strings.Contains(expect, " armed=* ") {
		return strings.Replace(expect, " armed=* ", " armed=0 ", 1) == got || strings.Replace(expect, " armed=* ", " armed=1 ", 1) == got
	}
	if strings.HasPrefix(expect, "ok-len ") {
		return strings.HasPrefix(got, "ok "+strings.TrimPrefix(expect, "ok-len ")+":")
	}
	if strings.HasPrefix(expect, "copied* ") {
		ef := strings.Fields(expect)
		gf := strings.Fields(got)
		return len(ef) >= 3 && len(gf) >= 3 && gf[0] == "copied" && ef[1] == gf[1] && ef[2] == gf[2]
	}
	return false
}

// structural boundaries of a wire, for the "cuts" segmentation
func ReqBoundaries(c Cfg, f ReqFrames, stripped bool) []int {
	var b []int
	off := c.ReqPrefix.Len
	b = append(b, off)
	off += c.KeyLen
	b = append(b, off)
	n := c.NIPSK
	if stripped && n > 1 {
		n = 1
	}
	for i := 0; i < n; i++ {
		off += 16
		b = append(b, off)
	}
	off += 11 + TagSize
	b = append(b, off)
	off += len(f.Var) + TagSize
	b = append(b, off)
	for _, ch := range f.Chunks {
		off += 2 + TagSize
		b = append(b, off)
		off += len(ch) + TagSize
		b = append(b, off)
	}
	return b
}

func RespBoundaries(c Cfg, f RespFrames) []int {
	if f.Salt == nil {
		return nil
	}
	var b []int
	off := c.RespPrefix.Len
	b = append(b, off)
	off += c.KeyLen
	b = append(b, off)
	off += 11 + c.KeyLen + TagSize
	b = append(b, off)
	off += len(f.First) + TagSize
	b = append(b, off)
	for _, ch := range f.Chunks {
		off += 2 + TagSize
		b = append(b, off)
		off += len(ch) + TagSize
		b = append(b, off)
	}
	return b
}

// Sizes expands a segmentation for a concrete wire.
func (s Seg) Sizes(wireLen int, writes [][]byte, bounds []int, fixedLen int, allowSeg bool) []int {
	r := common.NewRng(s.Seed)
	var sizes []int
	switch s.Mode {
	case "one":
		sizes = []int{wireLen}
	case "bytes":
		n := min(wireLen, 200000)
		sizes = make([]int, n)
		for i := range sizes {
			sizes[i] = 1
		}
	case "cuts":
		cut := map[int]bool{}
		for i, b := range bounds {
			if i > 60 {
				break
			}
			for _, d := range []int{-9, -1, 1} {
				if p := b + d; p > 0 && p < wireLen {
					cut[p] = true
				}
			}
		}
		prev := 0
		for p := 1; p < wireLen; p++ {
			if cut[p] {
				sizes = append(sizes, p-prev)
				prev = p
			}
		}
	case "random":
		left := wireLen
		for left > 0 && len(sizes) < 100000 {
			var n int
			switch r.Intn(4) {
			case 0:
				n = r.Range(1, 5)
			case 1:
				n = r.Range(6, 120)
			case 2:
				n = r.Range(121, 5000)
			default:
				n = r.Range(5001, 140000)
			}
			n = min(n, left)
			sizes = append(sizes, n)
			left -= n
		}
	default: // atomic: as written
		for _, w := range writes {
			sizes = append(sizes, len(w))
		}
	}
	if !allowSeg && !s.ShortFirst && s.Mode != "atomic" && s.Mode != "one" {
		// the fixed-length part arrives in one segment
		acc := 0
		i := 0
		for i < len(sizes) && acc < fixedLen {
			acc += sizes[i]
			i++
		}
		if acc < fixedLen {
			acc = fixedLen
		}
		sizes = append([]int{acc}, sizes[i:]...)
	}
	return sizes
}

func pattern(ops []WOp) []byte {
	var b []byte
	for _, o := range ops {
		b = append(b, o.Data.Bytes()...)
	}
	return b
}

// Expected streams of a case (what each side writes, in order).
func (c Case) C2SStream() []byte { return append(c.Payload.Bytes(), pattern(c.CWrites)...) }
func (c Case) S2CStream() []byte { return pattern(c.SWrites) }

func doWrite(w netio.Conn, o WOp) (res WObs) {
	d := o.Data.Bytes()
	switch o.Kind {
	case "readfrom":
		items, _ := o.script()
		src := &Source{Items: items}
		_, err := w.(io.ReaderFrom).ReadFrom(src)
		res.Err, res.Handed = ErrClass(err), src.Handed
	default:
		n, err := w.Write(d)
		res.Err, res.Handed = ErrClass(err), d
		if err == nil && n != len(d) {
			res.Err = fmt.Sprintf("other:Write returned %d for %d bytes", n, len(d))
		}
	}
	return
}

// Tunnel sinks: a second, auxiliary session of the same configuration.
type auxSink struct {
	cfg      Cfg
	client   netio.Conn // aux client conn (sink for a server-side reader)
	cdial    *Dialer
	server   netio.Conn // aux server conn (sink for a client-side reader)
	sconn    *Conn
	preWrite int // number of transport writes before the copy
}

func newAux(cfg Cfg, target Target, forClientReader, started bool) (*auxSink, error) {
	a := &auxSink{cfg: cfg}
	cl, d, err := cfg.NewClient()
	if err != nil {
		return nil, err
	}
	cc, err := cl.DialStream(Ctx(), target.Addr(), nil)
	if err != nil {
		return nil, err
	}
	a.client, a.cdial = cc, d
	if !forClientReader {
		a.preWrite = len(d.Last.Writes)
		return a, nil
	}
	sv, err := cfg.NewServer()
	if err != nil {
		return nil, err
	}
	w, ok := cfg.RelayStrip(d.Last.Wire())
	if !ok {
		return nil, fmt.Errorf("aux relay strip failed")
	}
	a.sconn = &Conn{}
	a.sconn.SetScript(w, []int{len(w)})
	req, _, err := Handle(sv, a.sconn)
	if err != nil {
		return nil, fmt.Errorf("aux handle: %w", err)
	}
	sc, err := req.Proceed()
	if err != nil {
		return nil, err
	}
	a.server = sc
	if started {
		if _, err := sc.Write([]byte("started")); err != nil {
			return nil, err
		}
	}
	a.preWrite = len(a.sconn.Writes)
	return a, nil
}

// pieces decodes what the copy put on the aux transport.
func (a *auxSink) pieces(forClientReader, started bool) ([][]byte, string) {
	if !forClientReader {
		f := a.cfg.DecodeRequest(a.cdial.Last.Wire())
		return f.Chunks, f.Err
	}
	f := a.cfg.DecodeResponse(a.sconn.Wire())
	if started {
		return f.Chunks, f.Err
	}
	if f.Salt == nil {
		return nil, f.Err
	}
	return append([][]byte{f.First}, f.Chunks...), f.Err
}

// badSink breaks the io.Writer contract once: its first non-empty Write takes half and returns nil.
type badSink struct {
	done bool
	got  []byte
	Lost int
}

func (b *badSink) Write(p []byte) (int, error) {
	if !b.done && len(p) > 1 {
		b.done = true
		b.got = append(b.got, p[:len(p)/2]...)
		b.Lost = len(p) - len(p)/2
		return len(p) / 2, nil
	}
	b.got = append(b.got, p...)
	return len(p), nil
}

// RunOps runs a reader schedule; cont: go on after a call failed (a caller that reads again after an error).
func RunOps(rd netio.Conn, ops []ROp, cfg Cfg, target Target, clientReader, sinkStarted, cont bool) (out []OpObs) {
	for _, op := range ops {
		o := OpObs{Op: op}
		pan := common.Safely(func() {
			switch op.Kind {
			case "read":
				buf := make([]byte, op.N)
				n, err := rd.Read(buf)
				o.N, o.Err = int64(n), ErrClass(err)
				o.Bytes = bytes.Clone(buf[:max(n, 0)])
			case "writeto":
				sink := &Sink{}
				n, err := rd.(io.WriterTo).WriteTo(sink)
				o.N, o.Err = n, ErrClass(err)
				o.Pieces = sink.Writes
				o.Bytes = bytes.Join(sink.Writes, nil)
			case "writeto-sink":
				sink := &ScriptSink{Script: append([]SinkIt{}, op.Sink...)}
				n, err := rd.(io.WriterTo).WriteTo(sink)
				o.N, o.Err = n, ErrClass(err)
				o.Pieces = sink.Writes
				o.Bytes = bytes.Join(sink.Writes, nil)
			case "writeto-badsink":
				sink := &badSink{}
				n, err := rd.(io.WriterTo).WriteTo(sink)
				o.N, o.Err = n, "badsink:"+ErrClass(err)
				o.Bytes = sink.got
			case "tunnel-fail":
				aux, err := newAux(cfg, target, clientReader, true)
				if err != nil {
					o.Err = "harness:" + err.Error()
					return
				}
				var dst netio.Conn = aux.client
				tr := aux.cdial.Last
				if clientReader {
					dst, tr = aux.server, aux.sconn
				}
				tr.FailWrite, tr.FailKeep = max(op.FailAt, 1), op.FailKeep
				var n int64
				if op.ViaReadFrom {
					n, err = dst.(io.ReaderFrom).ReadFrom(rd)
				} else {
					n, err = rd.(io.WriterTo).WriteTo(dst)
				}
				o.N, o.Err = n, ErrClass(err)
				ps, _ := aux.pieces(clientReader, true) // the wire ends in the cut write: undecodable tail expected
				o.Pieces = ps
				o.Bytes = bytes.Join(ps, nil)
			case "tunnel":
				aux, err := newAux(cfg, target, clientReader, sinkStarted)
				if err != nil {
					o.Err = "harness:" + err.Error()
					return
				}
				var dst netio.Conn = aux.client
				if clientReader {
					dst = aux.server
				}
				var n int64
				if op.ViaReadFrom {
					n, err = dst.(io.ReaderFrom).ReadFrom(rd)
				} else {
					n, err = rd.(io.WriterTo).WriteTo(dst)
				}
				o.N, o.Err = n, ErrClass(err)
				ps, derr := aux.pieces(clientReader, sinkStarted)
				if derr != "" {
					o.Err = "sink-wire-undecodable:" + derr
				}
				o.Pieces = ps
				o.Bytes = bytes.Join(ps, nil)
			}
		})
		if pan != nil {
			o.Err = fmt.Sprintf("panic:%v", pan)
		}
		out = append(out, o)
		if o.Err != "ok" && o.Err != "eof" && ((!cont && o.Err != "timeout" && o.Err != "sink-error") || pan != nil || strings.HasPrefix(o.Err, "harness:") || strings.HasPrefix(o.Err, "badsink:")) {
			break
		}
	}
	return
}

func OpLine(sid int, side string, op ROp, now int64, started bool) string {
	switch {
	case side == "s" && op.Kind == "read":
		return fmt.Sprintf("%d sread %d", sid, op.N)
	case side == "s" && op.Kind == "writeto-sink":
		return fmt.Sprintf("%d swritetosink %s", sid, sinkSpec(op.Sink))
	case op.Kind == "writeto-sink":
		return fmt.Sprintf("%d cwritetosink %d %s", sid, now, sinkSpec(op.Sink))
	case side == "s" && op.Kind == "tunnel-fail":
		return fmt.Sprintf("%d stunnelsink %d", sid, max(op.FailAt, 1))
	case op.Kind == "tunnel-fail":
		return fmt.Sprintf("%d ctunnelsink %d %d", sid, now, max(op.FailAt, 1))
	case side == "s" && op.Kind == "writeto":
		return fmt.Sprintf("%d swriteto", sid)
	case side == "s":
		return fmt.Sprintf("%d stunnel", sid)
	case op.Kind == "read":
		return fmt.Sprintf("%d cread %d %d", sid, now, op.N)
	case op.Kind == "writeto":
		return fmt.Sprintf("%d cwriteto %d", sid, now)
	}
	return fmt.Sprintf("%d ctunnel %d %s", sid, now, B(started))
}

// armedField: what the harness can say about interruptors left on the dial context: with a scripted context it
// counts them when the context ends; with context.Background() nothing is observable ("*": any answer matches).
func armedField(mode string, armed, excess int) string {
	if mode == "" {
		return "*"
	}
	if armed > 0 {
		return "1"
	}
	return "0"
}

func sinkSpec(sk []SinkIt) string {
	if len(sk) == 0 {
		return "-"
	}
	var t []string
	for _, it := range sk {
		x := fmt.Sprint(it.Accept)
		if it.Err {
			x += "e"
		}
		t = append(t, x)
	}
	return strings.Join(t, ",")
}

func OpExpect(o OpObs, flatOnly bool) string {
	if strings.HasPrefix(o.Err, "panic:") && strings.Contains(o.Err, "nil pointer") {
		return "copied panic-nil-deref 0:cbf29ce484222325 -"
	}
	switch o.Op.Kind {
	case "read":
		if o.Err != "ok" {
			if o.N != 0 {
				return "fail-with-data " + o.Err
			}
			return "fail " + o.Err
		}
		return "data " + Sum(o.Bytes)
	default:
		tag := "copied"
		if flatOnly {
			tag = "copied*"
		}
		return fmt.Sprintf("%s %s %s %s", tag, o.Err, Sum(o.Bytes), Sums(o.Pieces))
	}
}

// Run executes the case on the implementation and builds the driver script (session slot sid).
func Run(c Case, sid int) (obs Obs, sc Script) {
	cfg := c.Cfg
	keys := cfg.Keys()
	sc.Add(cfg.CfgLine(sid), "ok")
	pan := common.Safely(func() { run(c, sid, cfg, keys, &obs, &sc) })
	if pan != nil {
		obs.Panic = fmt.Sprint(pan)
	}
	return
}

func run(c Case, sid int, cfg Cfg, keys Keys, obs *Obs, sc *Script) {
	// ---- client: dial + writes ----
	cl, d, err := cfg.NewClient()
	if err != nil {
		obs.DialErr = err.Error()
		return
	}
	payload := c.Payload.Bytes()
	dctx := context.Background()
	var sctx *ScriptCtx
	if c.DialCtx != "" {
		sctx = NewScriptCtx(c.DialCtx == "deadline")
		dctx = sctx
	}
	cc, err := cl.DialStream(dctx, c.Target.Addr(), payload)
	if err != nil {
		obs.DialErr = err.Error()
		return
	}
	if sctx != nil {
		// the dial is over: whatever happens to its context now must not touch the session
		if c.DialCtx == "deadline" {
			obs.DialCtxArmed = sctx.Cancel(context.DeadlineExceeded)
		} else {
			obs.DialCtxArmed = sctx.Cancel(context.Canceled)
		}
	}
	ct := d.Last
	obs.CC, obs.CT = cc, ct
	marks := []int{len(ct.Writes)}
	obs.C2SHanded = append(obs.C2SHanded, payload...)
	var cres []WObs
	for _, o := range c.CWrites {
		wr := doWrite(cc, o)
		if strings.HasPrefix(wr.Err, "other:") {
			obs.DialErr = "client write: " + wr.Err
			return
		}
		cres = append(cres, wr)
		obs.CWriteErrs = append(obs.CWriteErrs, wr.Err)
		obs.C2SHanded = append(obs.C2SHanded, wr.Handed...)
		marks = append(marks, len(ct.Writes))
	}
	obs.C2SWrites = ct.Writes
	wire := ct.Wire()
	f := cfg.DecodeRequest(wire)
	obs.ReqFrames = f
	if f.Err != "" {
		return
	}
	toy := cfg.ToyRequest(f)
	// dial line
	addrLen := socks5.LengthOfAddrFromConnAddr(c.Target.Addr())
	padLen := 0
	if len(f.Var) >= addrLen+2 {
		padLen = int(binary.BigEndian.Uint16(f.Var[addrLen:]))
	}
	inReq := len(f.Var) - addrLen - 2 - padLen
	rnd := 0
	switch {
	case c.Payload.Len >= 900:
	case c.Payload.Len > 0:
		rnd = padLen
	default:
		rnd = padLen - 1
	}
	ts := binary.BigEndian.Uint64(f.Fixed[1:9])
	toySeg := func(from, to int) string {
		if from == to {
			return "-"
		}
		off, end := 0, 0
		for i, w := range ct.Writes {
			if i < from {
				off += len(w)
			}
			if i < to {
				end += len(w)
			}
		}
		return SegSums(toy[off:end], ct.Writes[from:to])
	}
	if rnd < 0 {
		sc.Add(fmt.Sprintf("%d dial %s %s %s 0 %d", sid, c.Target.ModelArgs(), c.Payload.Field(), HexField(f.Salt), ts), "padding-length-zero-for-empty-payload")
	} else {
		sc.Add(fmt.Sprintf("%d dial %s %s %s %d %d", sid, c.Target.ModelArgs(), c.Payload.Field(), HexField(f.Salt), rnd, ts),
			fmt.Sprintf("ok inreq=%d armed=%s segs %s", inReq, armedField(c.DialCtx, obs.DialCtxArmed, len(payload)-inReq), toySeg(0, marks[0])))
	}
	for i, o := range c.CWrites {
		if o.Kind == "readfrom" {
			_, spec := o.script()
			sc.Add(fmt.Sprintf("%d creadfrom %s %s", sid, o.Data.Field(), spec), "segs "+toySeg(marks[i], marks[i+1])+" ret="+cres[i].Err)
		} else {
			sc.Add(fmt.Sprintf("%d cwrite %s", sid, o.Data.Field()), "segs "+toySeg(marks[i], marks[i+1]))
		}
	}
	// ---- relays ----
	swire, ok := cfg.RelayStrip(wire)
	obs.StripOK = ok
	toyS := toy
	for _, l := range cfg.StripLines(sid) {
		pl := cfg.ReqPrefix.Len + cfg.KeyLen
		toyS = append(bytes.Clone(toyS[:pl]), toyS[pl+16:]...)
		if ok {
			sc.Add(l, "ok "+Sum(toyS))
		} else {
			sc.Add(l, "fail")
		}
	}
	if !ok {
		return
	}
	obs.ServerWire = swire
	// ---- server: handle ----
	sv, err := cfg.NewServer()
	if err != nil {
		obs.DialErr = err.Error()
		return
	}
	idLen := 0
	if cfg.NIPSK > 0 {
		idLen = 16
	}
	fixedLen := cfg.ReqPrefix.Len + cfg.KeyLen + idLen + 11 + TagSize
	writes := ct.Writes
	if cfg.NIPSK > 1 {
		writes = [][]byte{swire}
	}
	sizes := c.C2S.Sizes(len(swire), writes, ReqBoundaries(cfg, f, true), fixedLen, cfg.AllowSeg)
	st := &Conn{}
	obs.ST = st
	{
		// data chunk boundaries of the client->server stream: end of the handshake, end of every data chunk
		rb := ReqBoundaries(cfg, f, true)
		idx := 3
		if cfg.NIPSK > 0 {
			idx = 4
		}
		var db []int
		for i := idx; i < len(rb); i += 2 {
			db = append(db, rb[i])
		}
		obs.C2STouts = c.C2STout.Offsets(db)
	}
	st.SetScriptT(swire, sizes, obs.C2STouts)
	obs.FirstSeg = len(swire)
	if len(sizes) > 0 {
		obs.FirstSeg = min(sizes[0], len(swire))
	}
	now := time.Now().Unix()
	req, pay, herr := Handle(sv, st)
	var sconn netio.Conn
	switch {
	case herr != nil:
		obs.HandleKind, obs.HandleErr = "error", ErrClass(herr)
		sc.Add(fmt.Sprintf("%d handle %d %d %s", sid, now, obs.FirstSeg, Csv(obs.C2STouts)), "error "+obs.HandleErr)
	case req.Addr.Equals(FallbackAddr):
		obs.HandleKind, obs.FallbackPay = "fallback", pay
		sc.Add(fmt.Sprintf("%d handle %d %d %s", sid, now, obs.FirstSeg, Csv(obs.C2STouts)), "fallback "+Sum(pay))
	default:
		obs.HandleKind = "request"
		obs.ReqAddr, obs.ReqUser, obs.ReqPayload = AddrBytes(req.Addr), req.Username, pay
		u := req.Username
		if u == "" {
			u = "-"
		}
		sc.Add(fmt.Sprintf("%d handle %d %d %s", sid, now, obs.FirstSeg, Csv(obs.C2STouts)), fmt.Sprintf("request %s %s %s", HexField(obs.ReqAddr)[1:], u, Sum(pay)))
		sconn, err = req.Proceed()
		if err != nil {
			obs.HandleErr = "proceed: " + err.Error()
			return
		}
	}
	if sconn == nil {
		return
	}
	recheck := func(when string) {
		seen := ReqSeen{When: when}
		if pan := common.Safely(func() {
			seen.Addr, seen.User, seen.Payload = AddrBytes(req.Addr), req.Username, bytes.Clone(req.Payload)
		}); pan != nil {
			seen.Panic = fmt.Sprint(pan)
		}
		obs.ReqLater = append(obs.ReqLater, seen)
		u := seen.User
		if u == "" {
			u = "-"
		}
		sc.Add(fmt.Sprintf("%d reqcheck", sid), fmt.Sprintf("request %s %s", HexField(seen.Addr)[min(1, len(HexField(seen.Addr))):], u))
	}
	defer recheck("session-end")
	serverReads := func() {
		obs.SOps = RunOps(sconn, c.SReads, cfg, c.Target, false, true, false)
		for _, o := range obs.SOps {
			if o.Op.Kind == "writeto-badsink" {
				continue // outside the io.Writer contract: not modelled
			}
			sc.Add(OpLine(sid, "s", o.Op, now, true), OpExpect(o, false))
		}
	}
	serverWrites := func() {
		capW := GrowCap(ss2022StreamWriteBufferSize)
		start := cfg.RespPrefix.Len + cfg.KeyLen + 11 + cfg.KeyLen + TagSize
		capBig := GrowCap(start + 4096 + TagSize)
		m := []int{len(st.Writes)}
		var sres []WObs
		for _, o := range c.SWrites {
			wr := doWrite(sconn, o)
			if strings.HasPrefix(wr.Err, "other:") {
				obs.SWriteErr = wr.Err
				return
			}
			sres = append(sres, wr)
			obs.SWriteErrs = append(obs.SWriteErrs, wr.Err)
			obs.S2CHanded = append(obs.S2CHanded, wr.Handed...)
			m = append(m, len(st.Writes))
		}
		obs.S2CWrites = st.Writes
		rf := cfg.DecodeResponse(st.Wire())
		obs.RespFrames = rf
		if rf.Err != "" {
			return
		}
		rtoy := cfg.ToyResponse(rf)
		rseg := func(from, to int) string {
			if from == to {
				return "-"
			}
			off, end := 0, 0
			for i, w := range st.Writes {
				if i < from {
					off += len(w)
				}
				if i < to {
					end += len(w)
				}
			}
			return SegSums(rtoy[off:end], st.Writes[from:to])
		}
		var rts uint64
		if rf.Header != nil {
			rts = binary.BigEndian.Uint64(rf.Header[1:9])
		}
		for i, o := range c.SWrites {
			choice := fmt.Sprintf("%s %d %d %d", HexField(rf.Salt), rts, capW, capBig)
			if o.Kind == "readfrom" {
				_, spec := o.script()
				sc.Add(fmt.Sprintf("%d sreadfrom %s %s %s", sid, o.Data.Field(), spec, choice), "ok segs "+rseg(m[i], m[i+1])+" ret="+sres[i].Err)
			} else {
				sc.Add(fmt.Sprintf("%d swrite %s %s", sid, o.Data.Field(), choice), "ok segs "+rseg(m[i], m[i+1]))
			}
		}
	}
	if c.WriteFirst {
		serverWrites()
		recheck("after-server-write")
		serverReads()
	} else {
		serverReads()
		serverWrites()
		recheck("after-server-write")
	}
	if obs.SWriteErr != "" || obs.RespFrames.Err != "" {
		return
	}
	// ---- client: reads ----
	rwire := st.Wire()
	rfixed := cfg.RespPrefix.Len + cfg.KeyLen + 11 + cfg.KeyLen + TagSize
	rsizes := c.S2C.Sizes(len(rwire), st.Writes, RespBoundaries(cfg, obs.RespFrames), rfixed, cfg.AllowSeg)
	{
		// offset 0, end of the first payload chunk, end of every data chunk
		rb := RespBoundaries(cfg, obs.RespFrames)
		var db []int
		if len(rb) >= 4 {
			db = append(db, 0)
			for i := 3; i < len(rb); i += 2 {
				db = append(db, rb[i])
			}
			if c.S2CTout.Mode == "mid" {
				db = db[1:] // not inside the response header / first payload chunk
			}
		}
		obs.S2CTouts = c.S2CTout.Offsets(db)
	}
	ct.SetScriptT(rwire, rsizes, obs.S2CTouts)
	obs.CFirstSeg = len(rwire)
	if len(rsizes) > 0 {
		obs.CFirstSeg = min(rsizes[0], len(rwire))
	}
	sc.Add(fmt.Sprintf("%d cseg %d 0 %s", sid, obs.CFirstSeg, Csv(obs.S2CTouts)), "ok")
	now = time.Now().Unix()
	obs.COps = RunOps(cc, c.CReads, cfg, c.Target, true, c.SinkStarted, false)
	for _, o := range obs.COps {
		if o.Op.Kind == "writeto-badsink" {
			continue
		}
		flatOnly := o.Op.Kind == "tunnel" && !c.SinkStarted
		sc.Add(OpLine(sid, "c", o.Op, now, c.SinkStarted), OpExpect(o, flatOnly))
	}
}

const ss2022StreamWriteBufferSize = 2 + 16 + 0xFFFF + 16

// HandleObs is the outcome of presenting a wire to a fresh server.
type HandleObs struct {
	Kind, Err   string
	Addr        []byte
	User        string
	Payload     []byte
	FallbackPay []byte
	// what the fallback destination reads from the conn after the payload (FallbackConn: Proceed worked)
	FallbackRest []byte
	FallbackConn bool
	FirstSeg     int
}

// Present hands `wire` (cut by sizes) to a fresh real server of cfg, records the driver's `handle`
// line with the answer that corresponds to the implementation's result, and returns the accepted conn.
func Present(cfg Cfg, wire []byte, sizes []int, sid int, sc *Script) (h HandleObs, sconn netio.Conn, st *Conn) {
	sv, err := cfg.NewServer()
	if err != nil {
		h.Kind, h.Err = "error", "harness:"+err.Error()
		return
	}
	st = &Conn{}
	st.SetScript(wire, sizes)
	h.FirstSeg = len(wire)
	if len(sizes) > 0 {
		h.FirstSeg = min(sizes[0], len(wire))
	}
	now := time.Now().Unix()
	var req netio.ConnRequest
	var pay []byte
	var herr error
	if pan := common.Safely(func() { req, pay, herr = Handle(sv, st) }); pan != nil {
		h.Kind, h.Err = "error", fmt.Sprintf("panic:%v", pan)
		sc.Add(fmt.Sprintf("%d handle %d %d -", sid, now, h.FirstSeg), "error "+h.Err)
		return
	}
	line := fmt.Sprintf("%d handle %d %d -", sid, now, h.FirstSeg)
	switch {
	case herr != nil:
		h.Kind, h.Err = "error", ErrClass(herr)
		sc.Add(line, "error "+h.Err)
	case req.Addr.Equals(FallbackAddr):
		h.Kind, h.FallbackPay = "fallback", pay
		// end to end: the fallback destination gets the payload and then reads the raw conn
		if fc, perr := req.Proceed(); perr == nil {
			h.FallbackRest, _ = io.ReadAll(fc)
			h.FallbackConn = true
		}
		sc.Add(line, "fallback "+Sum(pay))
	default:
		h.Kind = "request"
		h.Addr, h.User, h.Payload = AddrBytes(req.Addr), req.Username, pay
		u := req.Username
		if u == "" {
			u = "-"
		}
		sc.Add(line, fmt.Sprintf("request %s %s %s", HexField(h.Addr)[1:], u, Sum(pay)))
		sconn, err = req.Proceed()
		if err != nil {
			h.Err = "proceed: " + err.Error()
			sconn = nil
		}
	}
	return
}
