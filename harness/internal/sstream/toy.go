// Package sstream is the shared part of the C01/C02 correspondence engines: scripted transports,
// real ss2022 client/server construction, an independent decoder of the real wire (it holds the
// keys), the toy re-encoding that maps the real wire to the model wire byte offset by byte offset,
// and the line protocol of the Lean stream driver (lean/SSV/Model/StreamDriver.lean).
package sstream

import (
	"encoding/binary"
	"encoding/hex"
	"fmt"
	"strconv"
	"strings"
)

// ---- pattern data (same generator as Drv.patAcc) ----

type Data struct {
	Seed uint64 `json:"seed"`
	Len  int    `json:"len"`
	// Raw, when set, is the data itself (Len = len(Raw)); otherwise pattern bytes from Seed.
	Raw []byte `json:"raw,omitempty"`
}

// RawData makes explicit data.
func RawData(b []byte) Data { return Data{Len: len(b), Raw: b} }

func (d Data) Bytes() []byte {
	if d.Raw != nil {
		return append([]byte{}, d.Raw...)
	}
	b := make([]byte, d.Len)
	x := d.Seed
	for i := range b {
		x = x*6364136223846793005 + 1442695040888963407
		b[i] = byte(x >> 56)
	}
	return b
}

func (d Data) Field() string {
	if d.Raw != nil {
		return HexField(d.Raw)
	}
	if d.Len == 0 {
		return "-"
	}
	return "p" + strconv.FormatUint(d.Seed, 10) + "." + strconv.Itoa(d.Len)
}

func HexField(b []byte) string {
	if len(b) == 0 {
		return "-"
	}
	return "h" + hex.EncodeToString(b)
}

func Csv(xs []int) string {
	if len(xs) == 0 {
		return "-"
	}
	s := make([]string, len(xs))
	for i, x := range xs {
		s[i] = strconv.Itoa(x)
	}
	return strings.Join(s, ",")
}

// ---- toy crypto (same functions as SSV.Stream.Toy) ----

const (
	fnvOff1  = 14695981039346656037
	fnvOff2  = 11160318154034397263
	fnvPrime = 1099511628211
)

func Fnv(h uint64, b []byte) uint64 {
	for _, c := range b {
		h ^= uint64(c)
		h *= fnvPrime
	}
	return h
}

func ToyTag(k []byte, n uint64, p []byte) []byte {
	pre := binary.BigEndian.AppendUint64(append([]byte{}, k...), n)
	out := binary.BigEndian.AppendUint64(nil, Fnv(Fnv(fnvOff1, pre), p))
	return binary.BigEndian.AppendUint64(out, Fnv(Fnv(fnvOff2, pre), p))
}

func ToyEnc(k []byte, n uint64, p []byte) []byte {
	return append(append([]byte{}, p...), ToyTag(k, n, p)...)
}

func ToyKdf(psk, salt []byte) []byte { return append(append([]byte{}, psk...), salt...) }

func ToyPskHash(psk []byte) []byte { return ToyTag(nil, 1, psk) }

func ToyEih(ipsk, salt, block []byte) []byte {
	m := ToyTag(ipsk, 0, salt)
	out := make([]byte, len(block))
	for i := range block {
		out[i] = block[i] ^ m[i]
	}
	return out
}

// Sum renders a byte string the way the driver does: <len>:<fnv64 hex>.
func Sum(b []byte) string {
	return fmt.Sprintf("%d:%x", len(b), Fnv(fnvOff1, b))
}

func Sums(l [][]byte) string {
	if len(l) == 0 {
		return "-"
	}
	s := make([]string, len(l))
	for i, b := range l {
		s[i] = Sum(b)
	}
	return strings.Join(s, ",")
}
