package sstream

import (
	"bytes"
	"context"
	"errors"
	"io"
	"net"
	"os"
	"sync"
	"sync/atomic"
	"time"

	"github.com/database64128/shadowsocks-go/conn"
	"github.com/database64128/shadowsocks-go/netio"
)

// Conn is a scripted transport end: writes are recorded (one segment per Write call), reads
// deliver the scripted segments one (or a part of one) per Read call, then io.EOF.
type Conn struct {
	Writes [][]byte
	segs   [][]byte
	Reads  int
	// FailWrite > 0: the FailWrite-th Write from now on takes only FailKeep bytes and returns ErrSink
	// (a transport that fails after k bytes); every later Write fails too.
	FailWrite int
	FailKeep  int
	failed    bool
	// write deadline (net.Conn semantics: a deadline in the past makes writes fail)
	wdl atomic.Pointer[time.Time]
}

var _ netio.Conn = (*Conn)(nil)

// SetScript sets what the peer "sends": wire cut into segments of the given sizes (the last
// segment takes the rest; empty segments are dropped).
func (c *Conn) SetScript(wire []byte, sizes []int) {
	c.segs = nil
	for _, n := range sizes {
		if len(wire) == 0 {
			break
		}
		n = min(n, len(wire))
		if n > 0 {
			c.segs = append(c.segs, wire[:n])
			wire = wire[n:]
		}
	}
	if len(wire) > 0 {
		c.segs = append(c.segs, wire)
	}
}

// SetScriptT is SetScript plus read deadlines: when the reader has consumed touts[i] bytes of wire
// (offsets ascending, repetitions allowed) the next Read returns (0, os.ErrDeadlineExceeded) once.
func (c *Conn) SetScriptT(wire []byte, sizes []int, touts []int) {
	c.SetScript(wire, sizes)
	if len(touts) == 0 {
		return
	}
	var segs [][]byte
	pos, ti := 0, 0
	mark := func() {
		for ti < len(touts) && touts[ti] <= pos {
			segs = append(segs, nil) // nil = deadline marker
			ti++
		}
	}
	mark()
	for _, sg := range c.segs {
		for len(sg) > 0 {
			n := len(sg)
			if ti < len(touts) && touts[ti]-pos < n {
				n = touts[ti] - pos
			}
			segs = append(segs, sg[:n])
			sg = sg[n:]
			pos += n
			mark()
		}
	}
	c.segs = segs
}

func (c *Conn) Read(b []byte) (int, error) {
	c.Reads++
	if len(c.segs) == 0 {
		return 0, io.EOF
	}
	if c.segs[0] == nil {
		c.segs = c.segs[1:]
		return 0, os.ErrDeadlineExceeded
	}
	n := copy(b, c.segs[0])
	if n == len(c.segs[0]) {
		c.segs = c.segs[1:]
	} else {
		c.segs[0] = c.segs[0][n:]
	}
	return n, nil
}

func (c *Conn) Write(b []byte) (int, error) {
	if d := c.wdl.Load(); d != nil && !d.IsZero() && d.Before(time.Now()) {
		return 0, os.ErrDeadlineExceeded
	}
	if c.failed {
		return 0, ErrSink
	}
	if c.FailWrite > 0 {
		c.FailWrite--
		if c.FailWrite == 0 {
			c.failed = true
			n := max(min(c.FailKeep, len(b)-1), 0) // the write is cut: never the whole of b
			c.Writes = append(c.Writes, bytes.Clone(b[:n]))
			return n, ErrSink
		}
	}
	c.Writes = append(c.Writes, bytes.Clone(b))
	return len(b), nil
}

func (c *Conn) Wire() []byte                       { return bytes.Join(c.Writes, nil) }
func (c *Conn) Close() error                       { return nil }
func (c *Conn) CloseWrite() error                  { return nil }
func (c *Conn) LocalAddr() net.Addr                { return nil }
func (c *Conn) RemoteAddr() net.Addr               { return nil }
func (c *Conn) SetDeadline(t time.Time) error      { c.wdl.Store(&t); return nil }
func (c *Conn) SetReadDeadline(t time.Time) error  { return nil }
func (c *Conn) SetWriteDeadline(t time.Time) error { c.wdl.Store(&t); return nil }

// Dialer is the inner stream client handed to ss2022.StreamClient: it returns a fresh scripted Conn
// whose first recorded write is the request.
type Dialer struct{ Last *Conn }

func (d *Dialer) DialStream(ctx context.Context, addr conn.Addr, payload []byte) (netio.Conn, error) {
	d.Last = &Conn{}
	d.Last.Write(payload)
	return d.Last, nil
}

func (d *Dialer) NewStreamDialer() (netio.StreamDialer, netio.StreamDialerInfo) {
	return d, netio.StreamDialerInfo{Name: "script", NativeInitialPayload: true}
}

// ErrSource is the "other error" a scripted source returns.
var ErrSource = errors.New("scripted source error")

// SrcItem is one result a scripted source wants to return: Data and, together with the last of it, Err
// (nil, io.EOF — the iotest.DataErrReader style — or ErrSource).
type SrcItem struct {
	Data []byte
	Err  error
}

// Source is the io.Reader given to ReadFrom (same semantics as Src.read of the model): a result longer
// than the buffer is returned in several reads, the error comes with the last part; an item without data
// and without error is a (0, nil) read; an exhausted script returns (0, io.EOF). Handed collects every
// byte the source has handed over.
type Source struct {
	Items  []SrcItem
	Handed []byte
}

func (s *Source) Read(b []byte) (int, error) {
	if len(s.Items) == 0 {
		return 0, io.EOF
	}
	it := &s.Items[0]
	if len(it.Data) <= len(b) {
		n := copy(b, it.Data)
		err := it.Err
		s.Handed = append(s.Handed, it.Data...)
		s.Items = s.Items[1:]
		return n, err
	}
	n := copy(b, it.Data[:len(b)])
	s.Handed = append(s.Handed, it.Data[:n]...)
	it.Data = it.Data[n:]
	return n, nil
}

// Sink is the io.Writer given to WriteTo: it records every Write.
type Sink struct{ Writes [][]byte }

func (s *Sink) Write(b []byte) (int, error) {
	s.Writes = append(s.Writes, bytes.Clone(b))
	return len(b), nil
}

// ErrSink is the error a scripted sink returns.
var ErrSink = errors.New("scripted sink error")

// SinkIt is one result of a scripted sink's Write: it takes min(Accept, len(p)) bytes; Err: together with
// ErrSink. BadNil: it takes fewer bytes than offered and returns nil (breaks the io.Writer contract).
type SinkIt struct {
	Accept int  `json:"accept"`
	Err    bool `json:"err,omitempty"`
}

// ScriptSink is the io.Writer given to WriteTo: scripted results, then it takes everything.
type ScriptSink struct {
	Script []SinkIt
	Writes [][]byte
}

func (s *ScriptSink) Write(b []byte) (int, error) {
	if len(s.Script) == 0 {
		s.Writes = append(s.Writes, bytes.Clone(b))
		return len(b), nil
	}
	it := s.Script[0]
	s.Script = s.Script[1:]
	n := min(it.Accept, len(b))
	s.Writes = append(s.Writes, bytes.Clone(b[:n]))
	if it.Err {
		return n, ErrSink
	}
	return n, nil
}

// CutBy cuts d into pieces of the given sizes; the last piece takes the rest (same as Drv.cutBy).
func CutBy(sizes []int, d []byte) [][]byte {
	var out [][]byte
	for _, n := range sizes {
		n = min(n, len(d))
		out = append(out, d[:n])
		d = d[n:]
	}
	if len(d) > 0 {
		out = append(out, d)
	}
	return out
}

// ScriptCtx is a cancelable context whose cancellation is an explicit, synchronous step of the harness
// (no timers): it implements the AfterFunc hook of package context, so functions registered with
// context.AfterFunc run inside Cancel, in the calling goroutine, unless they were stopped before.
type ScriptCtx struct {
	mu     sync.Mutex
	done   chan struct{}
	err    error
	funcs  map[int]func()
	next   int
	dl     bool
}

// NewScriptCtx: withDeadline makes Deadline() report a (far) deadline; Cancel(context.DeadlineExceeded) is its expiry.
func NewScriptCtx(withDeadline bool) *ScriptCtx {
	return &ScriptCtx{done: make(chan struct{}), funcs: map[int]func(){}, dl: withDeadline}
}

func (c *ScriptCtx) Deadline() (time.Time, bool) {
	if c.dl {
		return time.Now().Add(24 * time.Hour), true
	}
	return time.Time{}, false
}
func (c *ScriptCtx) Done() <-chan struct{} { return c.done }
func (c *ScriptCtx) Err() error {
	c.mu.Lock()
	defer c.mu.Unlock()
	return c.err
}
func (c *ScriptCtx) Value(any) any { return nil }

// AfterFunc is the hook context.AfterFunc looks for.
func (c *ScriptCtx) AfterFunc(f func()) func() bool {
	c.mu.Lock()
	defer c.mu.Unlock()
	if c.err != nil {
		go f()
		return func() bool { return false }
	}
	id := c.next
	c.next++
	c.funcs[id] = f
	return func() bool {
		c.mu.Lock()
		defer c.mu.Unlock()
		_, ok := c.funcs[id]
		delete(c.funcs, id)
		return ok
	}
}

// Cancel ends the context with err and runs the registered functions; it reports how many ran.
func (c *ScriptCtx) Cancel(err error) int {
	c.mu.Lock()
	if c.err != nil {
		c.mu.Unlock()
		return 0
	}
	c.err = err
	close(c.done)
	fs := c.funcs
	c.funcs = map[int]func(){}
	c.mu.Unlock()
	for _, f := range fs {
		f()
	}
	return len(fs)
}
