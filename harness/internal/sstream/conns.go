package sstream

import (
	"bytes"
	"context"
	"io"
	"net"
	"os"
	"time"

	"github.com/database64128/shadowsocks-go/conn"
	"github.com/database64128/shadowsocks-go/netio"
)

// Conn is a scripted transport end: writes are recorded (one segment per Write call), reads
// deliver the scripted segments one (or a part of one) per Read call, then io.EOF.
type Conn struct {
	Writes [][]byte
	segs   [][]byte
	Reads  int
}

var _ netio.Conn = (*Conn)(nil)

// SetScript sets what the peer "sends": wire cut into segments of the given sizes (the last
// segment takes the rest; empty segments are dropped).
func (c *Conn) SetScript(wire []byte, sizes []int) {
	c.segs = nil
	for _, n := range sizes {
		if len(wire) == 0 {
			break
		}
		n = min(n, len(wire))
		if n > 0 {
			c.segs = append(c.segs, wire[:n])
			wire = wire[n:]
		}
	}
	if len(wire) > 0 {
		c.segs = append(c.segs, wire)
	}
}

// SetScriptT is SetScript plus read deadlines: when the reader has consumed touts[i] bytes of wire
// (offsets ascending, repetitions allowed) the next Read returns (0, os.ErrDeadlineExceeded) once.
func (c *Conn) SetScriptT(wire []byte, sizes []int, touts []int) {
	c.SetScript(wire, sizes)
	if len(touts) == 0 {
		return
	}
	var segs [][]byte
	pos, ti := 0, 0
	mark := func() {
		for ti < len(touts) && touts[ti] <= pos {
			segs = append(segs, nil) // nil = deadline marker
			ti++
		}
	}
	mark()
	for _, sg := range c.segs {
		for len(sg) > 0 {
			n := len(sg)
			if ti < len(touts) && touts[ti]-pos < n {
				n = touts[ti] - pos
			}
			segs = append(segs, sg[:n])
			sg = sg[n:]
			pos += n
			mark()
		}
	}
	c.segs = segs
}

func (c *Conn) Read(b []byte) (int, error) {
	c.Reads++
	if len(c.segs) == 0 {
		return 0, io.EOF
	}
	if c.segs[0] == nil {
		c.segs = c.segs[1:]
		return 0, os.ErrDeadlineExceeded
	}
	n := copy(b, c.segs[0])
	if n == len(c.segs[0]) {
		c.segs = c.segs[1:]
	} else {
		c.segs[0] = c.segs[0][n:]
	}
	return n, nil
}

func (c *Conn) Write(b []byte) (int, error) {
	c.Writes = append(c.Writes, bytes.Clone(b))
	return len(b), nil
}

func (c *Conn) Wire() []byte                       { return bytes.Join(c.Writes, nil) }
func (c *Conn) Close() error                       { return nil }
func (c *Conn) CloseWrite() error                  { return nil }
func (c *Conn) LocalAddr() net.Addr                { return nil }
func (c *Conn) RemoteAddr() net.Addr               { return nil }
func (c *Conn) SetDeadline(t time.Time) error      { return nil }
func (c *Conn) SetReadDeadline(t time.Time) error  { return nil }
func (c *Conn) SetWriteDeadline(t time.Time) error { return nil }

// Dialer is the inner stream client handed to ss2022.StreamClient: it returns a fresh scripted Conn
// whose first recorded write is the request.
type Dialer struct{ Last *Conn }

func (d *Dialer) DialStream(ctx context.Context, addr conn.Addr, payload []byte) (netio.Conn, error) {
	d.Last = &Conn{}
	d.Last.Write(payload)
	return d.Last, nil
}

func (d *Dialer) NewStreamDialer() (netio.StreamDialer, netio.StreamDialerInfo) {
	return d, netio.StreamDialerInfo{Name: "script", NativeInitialPayload: true}
}

// Source is the io.Reader given to ReadFrom: Read(b) returns min(len(b), rest of the current piece)
// bytes, (0, nil) for an empty piece and (0, io.EOF) at the end.
type Source struct{ Pieces [][]byte }

func (s *Source) Read(b []byte) (int, error) {
	if len(s.Pieces) == 0 {
		return 0, io.EOF
	}
	n := copy(b, s.Pieces[0])
	if n == len(s.Pieces[0]) {
		s.Pieces = s.Pieces[1:]
	} else {
		s.Pieces[0] = s.Pieces[0][n:]
	}
	return n, nil
}

// Sink is the io.Writer given to WriteTo: it records every Write.
type Sink struct{ Writes [][]byte }

func (s *Sink) Write(b []byte) (int, error) {
	s.Writes = append(s.Writes, bytes.Clone(b))
	return len(b), nil
}

// CutBy cuts d into pieces of the given sizes; the last piece takes the rest (same as Drv.cutBy).
func CutBy(sizes []int, d []byte) [][]byte {
	var out [][]byte
	for _, n := range sizes {
		n = min(n, len(d))
		out = append(out, d[:n])
		d = d[n:]
	}
	if len(d) > 0 {
		out = append(out, d)
	}
	return out
}
