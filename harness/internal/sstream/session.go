package sstream

import (
	"bytes"
	"context"
	"encoding/binary"
	"errors"
	"fmt"
	"io"
	"net/netip"
	"os"
	"slices"
	"strconv"
	"strings"

	"github.com/database64128/shadowsocks-go/conn"
	"github.com/database64128/shadowsocks-go/netio"
	"github.com/database64128/shadowsocks-go/socks5"
	"github.com/database64128/shadowsocks-go/ss2022"
	"go.uber.org/zap"
)

const TagSize = 16

// Cfg is one point of the configuration matrix.
type Cfg struct {
	KeyLen     int    `json:"keylen"` // 16 (aes-128) | 32 (aes-256)
	KeySeed    uint64 `json:"keyseed"`
	NIPSK      int    `json:"nipsk"`      // 0..3 identity PSKs on the client
	ReqPrefix  Data   `json:"reqprefix"`  // unsafe request stream prefix
	RespPrefix Data   `json:"respprefix"` // unsafe response stream prefix
	AllowSeg   bool   `json:"allowseg"`
	Fallback   bool   `json:"fallback"`
}

type Target struct {
	Kind string `json:"kind"` // 4 | 6 | 4in6 | d
	IP   string `json:"ip,omitempty"`
	Dom  Data   `json:"dom,omitempty"` // domain name = lower-case letters derived from the pattern
	Port uint16 `json:"port"`
}

func (t Target) Domain() []byte {
	b := t.Dom.Bytes()
	for i := range b {
		b[i] = 'a' + b[i]%26
	}
	return b
}

func (t Target) Addr() conn.Addr {
	if t.Kind == "d" {
		return conn.MustAddrFromDomainPort(string(t.Domain()), t.Port)
	}
	return conn.AddrFromIPAndPort(netip.MustParseAddr(t.IP), t.Port)
}

// ModelArgs renders the target for the driver's `dial` (kind, address bytes, port).
func (t Target) ModelArgs() string {
	if t.Kind == "d" {
		return "d " + HexField(t.Domain()) + " " + strconv.Itoa(int(t.Port))
	}
	a := netip.MustParseAddr(t.IP)
	if a.Is4() {
		b := a.As4()
		return "4 " + HexField(b[:]) + " " + strconv.Itoa(int(t.Port))
	}
	b := a.As16()
	return "6 " + HexField(b[:]) + " " + strconv.Itoa(int(t.Port))
}

// Keys of a configuration (derived from KeySeed).
type Keys struct {
	PSK   []byte   // the client's own key (uPSK in EIH mode)
	IPSKs [][]byte // client identity keys; the last one is the server's iPSK
	Users []User   // EIH mode: the server's users (the client is Users[Me])
	Me    int
}

type User struct {
	Name string
	PSK  []byte
}

func (c Cfg) Keys() Keys {
	k := Keys{}
	mk := func(i uint64) []byte { return Data{Seed: c.KeySeed*64 + i, Len: c.KeyLen}.Bytes() }
	for i := 0; i < c.NIPSK; i++ {
		k.IPSKs = append(k.IPSKs, mk(uint64(10+i)))
	}
	if c.NIPSK == 0 {
		k.PSK = mk(1)
		return k
	}
	for i := 0; i < 3; i++ {
		k.Users = append(k.Users, User{Name: "user" + strconv.Itoa(i), PSK: mk(uint64(20 + i))})
	}
	k.Me = int(c.KeySeed % 3)
	k.PSK = k.Users[k.Me].PSK
	return k
}

func (c Cfg) ExpectedUser() string {
	if c.NIPSK == 0 {
		return ""
	}
	k := c.Keys()
	return k.Users[k.Me].Name
}

// CfgLine is the driver's `cfg` command for session slot sid.
func (c Cfg) CfgLine(sid int) string {
	k := c.Keys()
	ipsks, users, spsk, sipsk := "-", "-", "-", "-"
	if c.NIPSK > 0 {
		var xs, us []string
		for _, i := range k.IPSKs {
			xs = append(xs, HexField(i))
		}
		ipsks = strings.Join(xs, ",")
		for _, u := range k.Users {
			us = append(us, u.Name+":"+HexField(u.PSK))
		}
		users = strings.Join(us, ",")
		sipsk = HexField(k.IPSKs[len(k.IPSKs)-1])
	} else {
		spsk = HexField(k.PSK)
	}
	return fmt.Sprintf("%d cfg %s %s %s %s %s %s %s %s %s", sid, HexField(k.PSK), ipsks, spsk, sipsk, users,
		c.ReqPrefix.Field(), c.RespPrefix.Field(), B(c.AllowSeg), B(c.Fallback))
}

func B(b bool) string {
	if b {
		return "1"
	}
	return "0"
}

var FallbackAddr = conn.AddrFromIPAndPort(netip.MustParseAddr("192.0.2.1"), 9)

// NewClient builds the real client of the configuration over a scripted dialer.
func (c Cfg) NewClient() (*ss2022.StreamClient, *Dialer, error) {
	k := c.Keys()
	cc, err := ss2022.NewClientCipherConfig(k.PSK, k.IPSKs, false)
	if err != nil {
		return nil, nil, err
	}
	d := &Dialer{}
	cfg := ss2022.StreamClientConfig{
		Name:                            "c",
		InnerClient:                     d,
		Addr:                            conn.AddrFromIPAndPort(netip.IPv6Loopback(), 1),
		AllowSegmentedFixedLengthHeader: c.AllowSeg,
		CipherConfig:                    cc,
		UnsafeRequestStreamPrefix:       c.ReqPrefix.Bytes(),
		UnsafeResponseStreamPrefix:      c.RespPrefix.Bytes(),
	}
	return cfg.NewStreamClient(), d, nil
}

// NewServer builds a fresh real server (fresh salt pool) of the configuration.
func (c Cfg) NewServer() (*ss2022.StreamServer, error) {
	k := c.Keys()
	cfg := ss2022.StreamServerConfig{
		AllowSegmentedFixedLengthHeader: c.AllowSeg,
		UnsafeRequestStreamPrefix:       c.ReqPrefix.Bytes(),
		UnsafeResponseStreamPrefix:      c.RespPrefix.Bytes(),
	}
	if c.Fallback {
		cfg.UnsafeFallbackAddr = FallbackAddr
	}
	var ulm ss2022.UserLookupMap
	if c.NIPSK == 0 {
		uc, err := ss2022.NewUserCipherConfig(k.PSK, false)
		if err != nil {
			return nil, err
		}
		cfg.UserCipherConfig = uc
	} else {
		ic, err := ss2022.NewServerIdentityCipherConfig(k.IPSKs[len(k.IPSKs)-1], false)
		if err != nil {
			return nil, err
		}
		cfg.IdentityCipherConfig = ic
		ulm = ss2022.UserLookupMap{}
		for _, u := range k.Users {
			sc, err := ss2022.NewServerUserCipherConfig(u.Name, u.PSK, false)
			if err != nil {
				return nil, err
			}
			ulm[ss2022.PSKHash(u.PSK)] = sc
		}
	}
	s := cfg.NewStreamServer()
	if ulm != nil {
		s.ReplaceUserLookupMap(ulm)
	}
	return s, nil
}

// ErrClass maps an implementation error to the model's error names.
func ErrClass(err error) string {
	switch {
	case err == nil:
		return "ok"
	case err == io.EOF:
		return "eof"
	case err == io.ErrUnexpectedEOF:
		return "unexpected-eof"
	case errors.Is(err, os.ErrDeadlineExceeded):
		return "timeout"
	case errors.Is(err, ErrSource):
		return "source-error"
	case errors.Is(err, ErrSink):
		return "sink-error"
	case errors.Is(err, ss2022.ErrZeroLengthChunk):
		return "zero-length-chunk"
	case errors.Is(err, ss2022.ErrFirstRead):
		return "first-read"
	case errors.Is(err, ss2022.ErrUnsafeStreamPrefixMismatch):
		return "prefix-mismatch"
	case errors.Is(err, ss2022.ErrTypeMismatch):
		return "type-mismatch"
	case errors.Is(err, ss2022.ErrBadTimestamp):
		return "bad-timestamp"
	case errors.Is(err, ss2022.ErrClientSaltMismatch):
		return "salt-mismatch"
	case errors.Is(err, ss2022.ErrZeroResponsePayloadLength):
		return "zero-response-length"
	case errors.Is(err, ss2022.ErrIdentityHeaderUserPSKNotFound):
		return "user-not-found"
	case errors.Is(err, ss2022.ErrIncompleteHeaderInFirstChunk):
		return "incomplete-header"
	case errors.Is(err, ss2022.ErrPaddingExceedChunkBorder):
		return "padding-exceeds"
	case errors.Is(err, ss2022.ErrRepeatedSalt):
		return "repeated-salt"
	case strings.Contains(err.Error(), "message authentication failed"):
		return "auth"
	case strings.Contains(err.Error(), "addr length") || strings.Contains(err.Error(), "invalid ATYP") || strings.Contains(err.Error(), "length of domain"):
		return "addr"
	}
	return "other:" + err.Error()
}

// ---------- independent decoder of the real wire ----------

// ReqFrames is the plaintext structure of a client->server wire.
type ReqFrames struct {
	Prefix, Salt []byte
	EIH          [][]byte // decrypted identity headers (PSK hashes)
	Fixed, Var   []byte
	Chunks       [][]byte
	// Seg[i] = number of wire bytes of the i-th transport write
	Rest []byte // undecodable tail, if any
	Err  string
}

func streamCipher(psk, salt []byte) (*ss2022.ShadowStreamCipher, error) {
	uc, err := ss2022.NewUserCipherConfig(psk, false)
	if err != nil {
		return nil, err
	}
	return uc.ShadowStreamCipher(salt)
}

func decodeChunks(sc *ss2022.ShadowStreamCipher, w []byte) (chunks [][]byte, rest []byte, errs string) {
	for len(w) > 0 {
		if len(w) < 2+TagSize {
			return chunks, w, "short length chunk"
		}
		lp, err := sc.DecryptAppend(nil, w[:2+TagSize])
		if err != nil {
			return chunks, w, "length chunk: " + err.Error()
		}
		n := int(binary.BigEndian.Uint16(lp))
		w = w[2+TagSize:]
		if len(w) < n+TagSize {
			return chunks, w, "short payload chunk"
		}
		p, err := sc.DecryptAppend(nil, w[:n+TagSize])
		if err != nil {
			return chunks, w, "payload chunk: " + err.Error()
		}
		chunks = append(chunks, p)
		w = w[n+TagSize:]
	}
	return chunks, nil, ""
}

// DecodeRequest decodes a genuine client->server wire with the configuration's keys.
func (c Cfg) DecodeRequest(w []byte) (f ReqFrames) {
	k := c.Keys()
	pl := c.ReqPrefix.Len
	need := pl + c.KeyLen + 16*c.NIPSK + 11 + TagSize
	if len(w) < need {
		f.Err = "short request"
		return
	}
	f.Prefix, f.Salt = w[:pl], w[pl:pl+c.KeyLen]
	off := pl + c.KeyLen
	for i := 0; i < c.NIPSK; i++ {
		ic, err := ss2022.NewServerIdentityCipherConfig(k.IPSKs[i], false)
		if err != nil {
			f.Err = err.Error()
			return
		}
		blk, err := ic.TCP(f.Salt)
		if err != nil {
			f.Err = err.Error()
			return
		}
		out := make([]byte, 16)
		blk.Decrypt(out, w[off:off+16])
		f.EIH = append(f.EIH, out)
		off += 16
	}
	sc, err := streamCipher(k.PSK, f.Salt)
	if err != nil {
		f.Err = err.Error()
		return
	}
	if f.Fixed, err = sc.DecryptAppend(nil, w[off:off+11+TagSize]); err != nil {
		f.Err = "fixed header: " + err.Error()
		return
	}
	off += 11 + TagSize
	vl := int(binary.BigEndian.Uint16(f.Fixed[9:]))
	if len(w) < off+vl+TagSize {
		f.Err = "short variable header"
		return
	}
	if f.Var, err = sc.DecryptAppend(nil, w[off:off+vl+TagSize]); err != nil {
		f.Err = "variable header: " + err.Error()
		return
	}
	off += vl + TagSize
	f.Chunks, f.Rest, f.Err = decodeChunks(sc, w[off:])
	return
}

// ToyRequest re-encodes decoded frames with the toy crypto: the model wire, same offsets.
func (c Cfg) ToyRequest(f ReqFrames) []byte {
	k := c.Keys()
	key := ToyKdf(k.PSK, f.Salt)
	w := append(append([]byte{}, f.Prefix...), f.Salt...)
	for i, h := range f.EIH {
		// the decrypted header must be the real hash of the next key; translate it to the toy hash of that key
		next := k.PSK
		if i+1 < len(k.IPSKs) {
			next = k.IPSKs[i+1]
		}
		real := ss2022.PSKHash(next)
		th := ToyPskHash(next)
		if !bytes.Equal(h, real[:]) {
			th = h // not the expected hash: keep the bytes (the model wire will differ, which is the point)
		}
		w = append(w, ToyEih(k.IPSKs[i], f.Salt, th)...)
	}
	w = append(w, ToyEnc(key, 0, f.Fixed)...)
	w = append(w, ToyEnc(key, 1, f.Var)...)
	return append(w, ToyChunks(key, 2, f.Chunks)...)
}

func ToyChunks(key []byte, n uint64, chunks [][]byte) []byte {
	var w []byte
	for _, p := range chunks {
		w = append(w, ToyEnc(key, n, binary.BigEndian.AppendUint16(nil, uint16(len(p))))...)
		w = append(w, ToyEnc(key, n+1, p)...)
		n += 2
	}
	return w
}

// RespFrames is the plaintext structure of a server->client wire.
type RespFrames struct {
	Prefix, Salt, Header, First []byte
	Chunks                      [][]byte
	Rest                        []byte
	Err                         string
}

// DecodeResponse decodes a genuine server->client wire (user key psk).
func (c Cfg) DecodeResponse(w []byte) (f RespFrames) {
	k := c.Keys()
	pl := c.RespPrefix.Len
	hl := 11 + c.KeyLen
	if len(w) == 0 {
		return
	}
	if len(w) < pl+c.KeyLen+hl+TagSize {
		f.Err = "short response"
		return
	}
	f.Prefix, f.Salt = w[:pl], w[pl:pl+c.KeyLen]
	off := pl + c.KeyLen
	sc, err := streamCipher(k.PSK, f.Salt)
	if err != nil {
		f.Err = err.Error()
		return
	}
	if f.Header, err = sc.DecryptAppend(nil, w[off:off+hl+TagSize]); err != nil {
		f.Err = "response header: " + err.Error()
		return
	}
	off += hl + TagSize
	n := int(binary.BigEndian.Uint16(f.Header[9+c.KeyLen:]))
	if len(w) < off+n+TagSize {
		f.Err = "short first payload"
		return
	}
	if f.First, err = sc.DecryptAppend(nil, w[off:off+n+TagSize]); err != nil {
		f.Err = "first payload: " + err.Error()
		return
	}
	off += n + TagSize
	f.Chunks, f.Rest, f.Err = decodeChunks(sc, w[off:])
	return
}

func (c Cfg) ToyResponse(f RespFrames) []byte {
	if f.Salt == nil {
		return nil
	}
	key := ToyKdf(c.Keys().PSK, f.Salt)
	w := append(append([]byte{}, f.Prefix...), f.Salt...)
	w = append(w, ToyEnc(key, 0, f.Header)...)
	w = append(w, ToyEnc(key, 1, f.First)...)
	return append(w, ToyChunks(key, 2, f.Chunks)...)
}

// SegSums cuts the (toy) wire at the boundaries of the recorded real writes and renders it like the driver.
func SegSums(toy []byte, writes [][]byte) string {
	var segs [][]byte
	for _, w := range writes {
		n := min(len(w), len(toy))
		segs = append(segs, toy[:n])
		toy = toy[n:]
	}
	if len(toy) > 0 {
		segs = append(segs, toy)
	}
	return Sums(segs)
}

// RelayStrip emulates SIP023 relays on the real wire: checks that identity header j names the next
// key and removes it, for every client iPSK but the last. ok=false if a header is wrong.
func (c Cfg) RelayStrip(w []byte) ([]byte, bool) {
	k := c.Keys()
	pl := c.ReqPrefix.Len
	for i := 0; i+1 < c.NIPSK; i++ {
		if len(w) < pl+c.KeyLen+16 {
			return w, false
		}
		salt := w[pl : pl+c.KeyLen]
		ic, _ := ss2022.NewServerIdentityCipherConfig(k.IPSKs[i], false)
		blk, err := ic.TCP(salt)
		if err != nil {
			return w, false
		}
		out := make([]byte, 16)
		blk.Decrypt(out, w[pl+c.KeyLen:pl+c.KeyLen+16])
		want := ss2022.PSKHash(k.IPSKs[i+1])
		if !bytes.Equal(out, want[:]) {
			return w, false
		}
		w = append(slices.Clone(w[:pl+c.KeyLen]), w[pl+c.KeyLen+16:]...)
	}
	return w, true
}

// StripLines are the driver's commands for the same relays.
func (c Cfg) StripLines(sid int) []string {
	k := c.Keys()
	var ls []string
	for i := 0; i+1 < c.NIPSK; i++ {
		ls = append(ls, fmt.Sprintf("%d strip %s %s", sid, HexField(k.IPSKs[i]), HexField(k.IPSKs[i+1])))
	}
	return ls
}

// WriteBufCap is the capacity the Go allocator gives to slices.Grow(nil, n) in this process.
func GrowCap(n int) int { return cap(slices.Grow([]byte(nil), n)) }

// Handle runs the real HandleStream over a scripted transport.
func Handle(s *ss2022.StreamServer, t *Conn) (req netio.ConnRequest, payload []byte, err error) {
	req, err = s.HandleStream(t, zap.NewNop())
	payload = bytes.Clone(req.Payload) // aliases the conn's write buffer
	return
}

func Ctx() context.Context { return context.Background() }

// AddrBytes renders an address the way the peer's SOCKS encoding does.
func AddrBytes(a conn.Addr) []byte { return socks5.AppendAddrFromConnAddr(nil, a) }
