package main

import (
	"fmt"

	"github.com/database64128/shadowsocks-go/ss2022"
)

// replayWindowNs is "the replay window" of the statement: the time during which the code keeps salts /
// accepts timestamps (exported ss2022.ReplayWindowDuration), and never less than the (2*MaxEpochDiff+1) s
// that timestamp validation in whole seconds makes necessary (C03).
func replayWindowNs() int64 {
	w := int64(ss2022.ReplayWindowDuration)
	if need := (2*int64(ss2022.MaxEpochDiff) + 1) * sec; w < need {
		w = need
	}
	return w
}

// The property oracle, written from the statement of C18 (not from the model):
//
//   "Every configuration the service manager accepts yields services whose documented invariants
//    hold - key lengths match the method, Shadowsocks 2022 NAT timeouts are no shorter than the
//    replay window, the MTU is at least 1280, every referenced client, resolver, set and server
//    exists and names are unique - and omitted fields behave exactly as their documented defaults,
//    the same as an explicitly empty value. Every configuration that violates an invariant is
//    refused at load with an error; no accepted combination of options leads to a crash once
//    traffic flows."
//
// checklist evaluates the named invariants on the abstract configuration; an accepted
// configuration with a non-empty checklist is a violation. Nothing here demands acceptance.

// Documented constants (README.md, field comments): independent of Gen.
const (
	docMinMTU         = 1280
	docMaxBatch       = 1024
	docMinCapacity    = 64
	docRejectDefault  = "ForceReset"  // README "TCP Reject Policy": ForceReset (default)
	docPaddingDefault = "PadPlainDNS" // README "Packet Padding Policy": PadPlainDNS (default)
	docNatTimeoutNs   = 300 * sec     // "The default value is 5 minutes."
	docRelayBatch     = 256
	docRecvBatch      = 64
	docSendCapacity   = 1024
	docFilterSize     = 256
	docClientNetwork  = "ip"
	docDefaultClient  = "direct" // README: `clients` omitted -> a default "direct" client
	docPSKLen128      = 16
	docPSKLen256      = 32
)

func docKeyLen(p string) int {
	if p == "2022-blake3-aes-256-gcm" {
		return docPSKLen256
	}
	return docPSKLen128
}

type viol struct{ key, detail string }

func in(l []string, s string) bool {
	for _, x := range l {
		if x == s {
			return true
		}
	}
	return false
}

func dupOf(l []string) (string, bool) {
	seen := map[string]bool{}
	for _, x := range l {
		if seen[x] {
			return x, true
		}
		seen[x] = true
	}
	return "", false
}

// allUL lists the UDP listeners of a server as documented: the listener array plus, with the
// legacy `enableUDP`, one listener described by the single-listener fields.
func allUL(s *ServerC) []ULc {
	l := append([]ULc(nil), s.UL...)
	if s.EUDP {
		l = append(l, ULc{Net: "udp", BM: s.UBM, RB: s.URB, SB: s.USB, CC: s.UCC, Nat: int64(s.NatSec) * sec})
	}
	return l
}

func checklist(c *ConfigC) []viol {
	var v []viol
	add := func(k, f string, a ...any) { v = append(v, viol{k, fmt.Sprintf(f, a...)}) }

	// key lengths match the method
	for _, s := range c.Servers {
		if isSS(s.Proto) {
			if s.PSK != docKeyLen(s.Proto) {
				add("psk:server", "server %q: %s with a %d-byte key", s.Name, s.Proto, s.PSK)
			}
			if (s.UPSK == "16" || s.UPSK == "32") && s.UPSK != fmt.Sprint(docKeyLen(s.Proto)) {
				add("psk:upsk-store", "server %q: %s with %s-byte user keys", s.Name, s.Proto, s.UPSK)
			}
		}
	}
	for _, k := range c.Clients {
		if isSS(k.Proto) {
			if k.PSK != docKeyLen(k.Proto) {
				add("psk:client", "client %q: %s with a %d-byte key", k.Name, k.Proto, k.PSK)
			}
			for _, n := range k.IPSK {
				if n != docKeyLen(k.Proto) {
					add("psk:client-ipsk", "client %q: %s with a %d-byte iPSK", k.Name, k.Proto, n)
				}
			}
		}
	}
	// ss2022 NAT timeouts >= replay window; MTU >= 1280; documented ranges of the tuning knobs
	for i := range c.Servers {
		s := &c.Servers[i]
		uls := allUL(s)
		if len(uls) > 0 && s.MTU < docMinMTU {
			add("mtu:server", "server %q: UDP with mtu %d", s.Name, s.MTU)
		}
		for _, u := range uls {
			if isSS(s.Proto) && u.Nat != 0 && u.Nat < replayWindowNs() {
				add("nat-timeout", "server %q: ss2022 UDP listener with natTimeout %dns, the replay window is %dns", s.Name, u.Nat, replayWindowNs())
			}
			if u.RB < 0 || u.RB > docMaxBatch || u.SB < 0 || u.SB > docMaxBatch {
				add("range:batch", "server %q: batch sizes %d/%d", s.Name, u.RB, u.SB)
			}
			if u.CC != 0 && u.CC < docMinCapacity {
				add("range:capacity", "server %q: send channel capacity %d", s.Name, u.CC)
			}
		}
	}
	// every enabled network of a proxy client has an address (README / field comments: `endpoint`, or
	// `tcpAddress` / `udpAddress`, never both forms)
	for _, k := range c.Clients {
		if k.Proto == "direct" {
			continue
		}
		if k.ETCP && !k.EP && !k.TA {
			add("client-address:tcp", "client %q (%s): TCP enabled without endpoint or tcpAddress", k.Name, k.Proto)
		}
		if k.EUDP && !k.EP && !k.UA {
			add("client-address:udp", "client %q (%s): UDP enabled without endpoint or udpAddress", k.Name, k.Proto)
		}
		if k.EP && (k.TA || k.UA) {
			add("client-address:conflict", "client %q (%s): endpoint together with tcpAddress / udpAddress", k.Name, k.Proto)
		}
	}
	for _, k := range c.Clients {
		if k.EUDP && k.MTU < docMinMTU {
			add("mtu:client", "client %q: UDP with mtu %d", k.Name, k.MTU)
		}
	}
	// names are unique
	var clientNames, groupNames, dnsNames, serverNames []string
	if len(c.Clients) == 0 {
		clientNames = []string{docDefaultClient}
	}
	for _, k := range c.Clients {
		clientNames = append(clientNames, k.Name)
	}
	for _, g := range c.Groups {
		groupNames = append(groupNames, g.Name)
	}
	for _, d := range c.DNS {
		dnsNames = append(dnsNames, d.Name)
	}
	for _, s := range c.Servers {
		serverNames = append(serverNames, s.Name)
	}
	for _, x := range []struct {
		k string
		l []string
	}{{"dup:client-or-group", append(append([]string(nil), clientNames...), groupNames...)}, {"dup:resolver", dnsNames}, {"dup:server", serverNames},
		{"dup:domain-set", c.Router.DS}, {"dup:prefix-set", c.Router.PS}} {
		if n, ok := dupOf(x.l); ok {
			add(x.k, "name %q is used twice", n)
		}
	}
	// every referenced client, resolver, set and server exists
	var tcp, udp []string
	if len(c.Clients) == 0 {
		tcp, udp = []string{docDefaultClient}, []string{docDefaultClient}
	}
	for _, k := range c.Clients {
		if k.ETCP {
			tcp = append(tcp, k.Name)
		}
		if k.EUDP {
			udp = append(udp, k.Name)
		}
	}
	for _, g := range c.Groups {
		for _, m := range g.TC {
			if !in(tcp, m) {
				add("dangling:group-member", "group %q: TCP member %q", g.Name, m)
			}
		}
		for _, m := range g.UC {
			if !in(udp, m) {
				add("dangling:group-member", "group %q: UDP member %q", g.Name, m)
			}
		}
		if len(g.TC) > 0 {
			tcp = append(tcp, g.Name)
		}
		if len(g.UC) > 0 {
			udp = append(udp, g.Name)
		}
	}
	for _, d := range c.DNS {
		if d.TC != "" && !in(tcp, d.TC) {
			add("dangling:resolver-client", "resolver %q: TCP client %q", d.Name, d.TC)
		}
		if d.UC != "" && !in(udp, d.UC) {
			add("dangling:resolver-client", "resolver %q: UDP client %q", d.Name, d.UC)
		}
	}
	if n := c.Router.DT; n != "" && n != "reject" && !in(tcp, n) {
		add("dangling:default-client", "defaultTCPClientName %q", n)
	}
	if n := c.Router.DU; n != "" && n != "reject" && !in(udp, n) {
		add("dangling:default-client", "defaultUDPClientName %q", n)
	}
	for _, rt := range c.Router.Routes {
		if rt.Cl != "reject" {
			if (rt.Net == "" || rt.Net == "tcp") && !in(tcp, rt.Cl) {
				add("dangling:route-client", "route %q: TCP client %q", rt.Name, rt.Cl)
			}
			if (rt.Net == "" || rt.Net == "udp") && !in(udp, rt.Cl) {
				add("dangling:route-client", "route %q: UDP client %q", rt.Name, rt.Cl)
			}
		}
		if rt.Res != "" && !in(dnsNames, rt.Res) {
			add("dangling:route-resolver", "route %q: resolver %q", rt.Name, rt.Res)
		}
		for _, n := range rt.FS {
			if !in(serverNames, n) {
				add("dangling:route-server", "route %q: server %q", rt.Name, n)
			}
		}
		for _, n := range rt.TDS {
			if !in(c.Router.DS, n) {
				add("dangling:route-set", "route %q: domain set %q", rt.Name, n)
			}
		}
		for _, l := range [][]string{rt.FPS, rt.TPS, rt.TMPS} {
			for _, n := range l {
				if !in(c.Router.PS, n) {
					add("dangling:route-set", "route %q: prefix set %q", rt.Name, n)
				}
			}
		}
	}
	return v
}

// defaultsOracle: on an ACCEPTED configuration, omitted / empty fields must have produced the
// documented defaults, named policies the named function.
func defaultsOracle(c *ConfigC, e *Eff) []viol {
	var v []viol
	add := func(k, f string, a ...any) { v = append(v, viol{k, fmt.Sprintf(f, a...)}) }
	pol := func(what, owner string, in *string, eff, doc, keyOmitted, keyEmpty string) {
		if eff == "-" {
			return
		}
		switch {
		case in == nil && eff != doc:
			add(keyOmitted, "%s: omitted %s is %s, the documented default is %s", owner, what, eff, doc)
		case in != nil && *in == "" && eff != doc:
			add(keyEmpty, "%s: %s \"\" is %s, the documented default is %s", owner, what, eff, doc)
		case in != nil && *in != "" && eff != *in:
			add("policy:named-mismatch", "%s: %s %q is %s", owner, what, *in, eff)
		}
	}
	for i := range c.Servers {
		s, es := &c.Servers[i], &e.Servers[i]
		owner := fmt.Sprintf("server %q", s.Name)
		pol("rejectPolicy", owner, s.Rej, es.Rej, docRejectDefault, "F12:omitted-rejectpolicy-not-default", "default:empty-rejectpolicy")
		pol("paddingPolicy", owner, s.Pad, es.Pad, docPaddingDefault, "default:omitted-paddingpolicy", "default:empty-paddingpolicy")
		if es.FS != "-" {
			want := fmt.Sprint(s.FS)
			if s.FS == 0 {
				want = fmt.Sprint(docFilterSize)
			}
			if es.FS != want {
				add("default:filter-size", "%s: slidingWindowFilterSize %d is %s", owner, s.FS, es.FS)
			}
		}
		uls := allUL(s)
		if len(uls) != len(es.UDP) {
			add("listeners:count", "%s: %d UDP listeners configured, %d built", owner, len(uls), len(es.UDP))
			continue
		}
		for j, u := range uls {
			eu := es.UDP[j]
			or := func(x, d int64) int64 {
				if x == 0 {
					return d
				}
				return x
			}
			if eu.Nat != or(u.Nat, docNatTimeoutNs) {
				add("default:nat-timeout", "%s listener %d: natTimeout %d is %d", owner, j, u.Nat, eu.Nat)
			}
			if eu.RB != or(int64(u.RB), docRelayBatch) || eu.SB != or(int64(u.SB), docRecvBatch) || eu.CC != or(int64(u.CC), docSendCapacity) {
				add("default:udp-perf", "%s listener %d: %d/%d/%d is %d/%d/%d", owner, j, u.RB, u.SB, u.CC, eu.RB, eu.SB, eu.CC)
			}
		}
		ntl := len(s.TL)
		if s.ETCP {
			ntl++
		}
		if es.TCP != ntl {
			add("listeners:count", "%s: %d TCP listeners configured, %d built", owner, ntl, es.TCP)
		}
	}
	for i := range c.Clients {
		k, ek := &c.Clients[i], &e.Clients[i]
		owner := fmt.Sprintf("client %q", k.Name)
		pol("paddingPolicy", owner, k.Pad, ek.Pad, docPaddingDefault, "default:omitted-paddingpolicy", "default:empty-paddingpolicy")
		if ek.FS != "-" {
			want := fmt.Sprint(k.FS)
			if k.FS == 0 {
				want = fmt.Sprint(docFilterSize)
			}
			if ek.FS != want {
				add("default:filter-size", "%s: slidingWindowFilterSize %d is %s", owner, k.FS, ek.FS)
			}
		}
		if k.Net == "" && ek.Net != docClientNetwork {
			add("default:client-network", "%s: omitted network is %q", owner, ek.Net)
		}
	}
	return v
}

// explicitDefaults returns the configuration with every omitted / empty / zero field that has a
// documented default replaced by that default written out.
func explicitDefaults(c ConfigC) ConfigC {
	d := clone(c)
	for i := range d.Servers {
		s := &d.Servers[i]
		if isSS(s.Proto) {
			if s.Rej == nil || *s.Rej == "" {
				s.Rej = sp(docRejectDefault)
			}
			if s.Pad == nil || *s.Pad == "" {
				s.Pad = sp(docPaddingDefault)
			}
			if s.FS == 0 {
				s.FS = docFilterSize
			}
		}
		for j := range s.UL {
			u := &s.UL[j]
			if u.Nat == 0 {
				u.Nat = docNatTimeoutNs
			}
			if u.RB == 0 {
				u.RB = docRelayBatch
			}
			if u.SB == 0 {
				u.SB = docRecvBatch
			}
			if u.CC == 0 {
				u.CC = docSendCapacity
			}
		}
		if s.EUDP {
			if s.NatSec == 0 {
				s.NatSec = int(docNatTimeoutNs / sec)
			}
			if s.URB == 0 {
				s.URB = docRelayBatch
			}
			if s.USB == 0 {
				s.USB = docRecvBatch
			}
			if s.UCC == 0 {
				s.UCC = docSendCapacity
			}
		}
	}
	for i := range d.Clients {
		k := &d.Clients[i]
		if k.Net == "" {
			k.Net = docClientNetwork
		}
		if isSS(k.Proto) {
			if k.Pad == nil || *k.Pad == "" {
				k.Pad = sp(docPaddingDefault)
			}
			if k.FS == 0 {
				k.FS = docFilterSize
			}
		}
	}
	return d
}

// emptyForOmitted returns the configuration with every omitted policy written as "".
func emptyForOmitted(c ConfigC) ConfigC {
	d := clone(c)
	for i := range d.Servers {
		s := &d.Servers[i]
		if isSS(s.Proto) {
			if s.Rej == nil {
				s.Rej = sp("")
			}
			if s.Pad == nil {
				s.Pad = sp("")
			}
		}
	}
	for i := range d.Clients {
		k := &d.Clients[i]
		if isSS(k.Proto) && k.Pad == nil {
			k.Pad = sp("")
		}
	}
	return d
}
