// corr_c18: correspondence + property oracle for C18 (configurations are either rejected at load or
// run without invariant violations).
//
// Engine "config": generated JSON documents go through the real loading path (encoding/json with
// DisallowUnknownFields, as cmd/shadowsocks-go does, then service.Config.Manager) and, as abstract
// configurations, through the Lean model (SSV.Model.Config via ssv_c18). Compared: decode failure,
// accept/reject, error class, and the effective values of the built services (NAT timeouts, batch
// sizes, channel capacity, policy FUNCTIONS by identity, filter sizes, listener counts), also after
// Config.Migrate. The oracle is the checklist of the invariants the statement names (oracle.go),
// the documented defaults, and - engine "smoke" - a child process that starts an accepted
// configuration on loopback and passes one TCP and one UDP round trip through it.
package main

import (
	"encoding/json"
	"fmt"
	"os"
	"strings"
	"sync"

	"ssvharness/internal/common"

	"github.com/database64128/shadowsocks-go/ss2022"
)

type ctx struct {
	o      *common.Options
	rep    *common.Report
	dir    string
	perKey map[string]int
}

// failure records an oracle failure; the report keeps a bounded list, so at most 3 cases per key are
// listed (every further one is only counted) and no key can crowd out another.
func (x *ctx) failure(f common.OracleFailure) {
	if x.perKey == nil {
		x.perKey = map[string]int{}
	}
	x.perKey[f.Key]++
	if x.perKey[f.Key] <= 3 {
		x.rep.Fail(f)
	} else {
		x.rep.Count("ORACLE-FAIL:" + f.Key)
	}
}

func sigOf(c Case) string {
	return strings.Join(c.Cfg.Lines(), "|")
}

// script for the driver: configuration, decodes, validate, migrate, validate
func script(c ConfigC) []string {
	return append(c.Lines(), "decodes", "validate", "migrate", "validate")
}

type modelOut struct{ decodes, plain, migrated string }

func runModel(x *ctx, cfgs []ConfigC) ([]modelOut, error) {
	if x.o.Driver == "" {
		return nil, nil
	}
	var lines []string
	var ends []int
	for _, c := range cfgs {
		lines = append(lines, script(c)...)
		ends = append(ends, len(lines))
	}
	out, err := common.RunDriverOnce(x.o.Driver, lines)
	if err != nil {
		return nil, err
	}
	res := make([]modelOut, len(cfgs))
	for i, e := range ends {
		res[i] = modelOut{decodes: out[e-4], plain: out[e-3], migrated: out[e-1]}
	}
	return res, nil
}

func errClass(line string) string {
	switch {
	case strings.HasPrefix(line, "ok "):
		return "accepted"
	case strings.HasPrefix(line, "err "):
		return line[4:]
	default:
		return strings.Fields(line + " ?")[0]
	}
}

// evalLoad compares one configuration (impl vs model) and runs the load-time oracle on it.
// It returns the implementation's result.
func evalLoad(x *ctx, cs Case, mo *modelOut) ImplResult {
	doc := loadDoc(cs.Cfg, x.dir)
	impl := load(doc, false)
	implMig := load(doc, true)
	class := errClass(impl.Line)
	x.rep.Case(sigOf(cs), class != "decode-err" && class != "no-servers")
	x.rep.Count("outcome=" + strings.SplitN(class, ":", 2)[0])
	for _, f := range cs.Faults {
		x.rep.Count("fault=" + f)
	}
	if len(cs.Faults) == 0 {
		x.rep.Count("fault=none")
	}
	x.rep.Sample(map[string]any{"case": cs, "impl": impl.Line})
	fail := func(key, detail string) {
		x.failure(common.OracleFailure{Engine: "config", Key: key, Case: cs, Detail: detail})
	}
	switch {
	case impl.Line == "err PANIC:api-mux-conflict":
		fail(keyF25, "Config.Manager panics at load instead of returning an error or accepting: "+impl.ErrMsg)
	case impl.Line == "err PANIC:api-secret-path":
		fail(keyF26, "Config.Manager panics at load instead of returning an error: "+impl.ErrMsg)
	case strings.HasPrefix(impl.Line, "panic") || strings.HasPrefix(implMig.Line, "panic"):
		fail("panic-at-load", impl.Line+" / "+implMig.Line)
	}
	if strings.HasPrefix(impl.Line, "harness-error") {
		x.rep.Note("harness error: %s", impl.Line)
		x.rep.Diverge(common.Divergence{Engine: "config", Case: cs, Impl: impl.Line, Model: "-", Note: "the harness cannot read the built services any more"})
		return impl
	}
	// ---- model vs implementation ----
	if mo != nil {
		if mo.decodes == "0" {
			if impl.Line != "decode-err" {
				x.rep.Diverge(common.Divergence{Engine: "config", Case: cs, Impl: impl.Line, Model: "decode-err"})
			}
		} else {
			if impl.Line != mo.plain {
				x.rep.Diverge(common.Divergence{Engine: "config", Case: cs, Impl: impl.Line + " (" + impl.ErrMsg + ")", Model: mo.plain})
			}
			if implMig.Line != mo.migrated {
				x.rep.Diverge(common.Divergence{Engine: "config", Case: cs, Impl: implMig.Line, Model: mo.migrated, Note: "after Config.Migrate"})
			}
		}
		x.rep.TracesValidated++
	}
	// ---- oracle ----
	if implMig.Line != impl.Line {
		fail("legacy-fields-differ-from-listener-arrays", "as written: "+impl.Line+"; after Migrate: "+implMig.Line)
	}
	if impl.Eff == nil {
		return impl
	}
	if impl.RoutePanic != "" {
		fail("crash-on-route-lookup", "accepted at load, then the router panics when a request arrives: "+impl.RoutePanic)
	}
	for _, v := range checklist(&cs.Cfg) {
		key := "accepted-violating:" + v.key
		switch v.key {
		case "dup:domain-set":
			key = keyF20d
		case "dup:prefix-set":
			key = keyF20p
		}
		fail(key, "accepted at load although "+v.detail)
	}
	for _, v := range defaultsOracle(&cs.Cfg, impl.Eff) {
		fail(v.key, v.detail)
	}
	// omitted == "" == the documented default written out
	for _, vr := range []struct {
		name string
		cfg  ConfigC
	}{{"empty-string", emptyForOmitted(cs.Cfg)}, {"explicit-default", explicitDefaults(cs.Cfg)}} {
		r := load(loadDoc(vr.cfg, x.dir), false)
		if r.Line != impl.Line {
			key := "omitted-differs-from-" + vr.name
			if r.Eff != nil && onlyRejectDiffers(impl.Eff, r.Eff) {
				key = "F12:omitted-rejectpolicy-not-default"
			}
			fail(key, "as written: "+impl.Line+"; with "+vr.name+" values: "+r.Line)
		}
	}
	return impl
}

// loadDoc renders the document for a load-only run (nothing is bound; smoke placeholders become fixed addresses).
func loadDoc(c ConfigC, dir string) []byte {
	return []byte(strings.NewReplacer("@FRONT@", "127.0.0.1:11", "@TEST@", "127.0.0.1:10", "@ECHOHOST@", "localhost:9", "@ECHO@", "127.0.0.1:9").Replace(string(c.JSON(dir))))
}

func onlyRejectDiffers(a, b *Eff) bool {
	if len(a.Servers) != len(b.Servers) {
		return false
	}
	a2 := *a
	a2.Servers = append([]EffServer(nil), a.Servers...)
	diff := false
	for i := range a2.Servers {
		if a2.Servers[i].Rej != b.Servers[i].Rej {
			diff = true
			a2.Servers[i].Rej = b.Servers[i].Rej
		}
	}
	return diff && a2.String() == b.String()
}

// evalSmoke runs an accepted smoke configuration in a child and judges the outcome.
func evalSmoke(x *ctx, cs Case, plan SmokePlan, crashKey string) (crashed bool) {
	return judgeSmoke(x, cs, plan, crashKey, runSmoke(plan, x.dir))
}

func judgeSmoke(x *ctx, cs Case, plan SmokePlan, crashKey string, o SmokeOutcome) (crashed bool) {
	for try := 0; try < 2 && o.Result != nil && !o.Crashed && !(o.Result.TCP && o.Result.UDP && o.Result.Stopped) && o.Result.LoadErr == "" && !o.Result.Busy; try++ {
		x.rep.Count("smoke=retried")
		o = runSmoke(plan, x.dir) // retried (run alone now): loopback UDP and scheduling are not under our control
	}
	fail := func(key, detail string) {
		x.failure(common.OracleFailure{Engine: "smoke", Key: key, Case: cs, Detail: detail})
	}
	oj, _ := json.Marshal(o)
	switch {
	case o.Crashed:
		x.rep.Count("smoke=crash")
		key := crashKey
		if key == "" {
			key = "crash-under-traffic:" + strings.SplitN(o.Panic+" @ ?", " @ ", 2)[1]
		}
		fail(key, "accepted at load, then the process died under the smoke traffic: "+o.Panic)
		return true
	case o.Result == nil:
		x.rep.Count("smoke=no-result")
		x.rep.Note("smoke child gave no result: %s", oj)
	case o.Result.Busy:
		x.rep.Count("smoke=ports-busy")
	case o.Result.LoadErr != "":
		x.rep.Count("smoke=rejected-in-child")
		x.rep.Diverge(common.Divergence{Engine: "smoke", Case: cs, Impl: o.Result.LoadErr, Model: "accepted", Note: "accepted in the parent, rejected in the child"})
	case !o.Result.Started:
		x.rep.Count("smoke=not-started")
		fail("smoke:accepted-but-does-not-start", string(oj))
	case !o.Result.TCP:
		x.rep.Count("smoke=tcp-failed")
		fail("smoke:no-tcp-roundtrip", string(oj))
	case !o.Result.UDP:
		x.rep.Count("smoke=udp-failed")
		fail("smoke:no-udp-roundtrip", string(oj))
	case !o.Result.Stopped:
		x.rep.Count("smoke=stop-timeout")
		fail("smoke:stop-timeout", string(oj))
	default:
		x.rep.Count("smoke=ok")
		if o.Result.Leak > 0 {
			x.rep.Count("smoke=goroutines-above-baseline")
		}
	}
	return false
}

// ---------- directed probes of the findings assigned to C18 ----------

const (
	keyF4   = "F4:direct-targetonly-domain-accepted"
	keyF12  = "F12:omitted-rejectpolicy-not-default"
	keyF15  = "F15:unbounded-filter-size-accepted"
	keyF20d = "F20:dup-domain-set-accepted"
	keyF20p = "F20:dup-prefix-set-accepted"
	keyF24  = "F24:domain-set-capacity-hint-panics-at-load"
	keyF25  = "F25:api-pprof-with-static-path-panics-at-load"
	keyF26  = "F26:api-secret-path-wildcard-panics-at-load"
)

func probes(x *ctx) error {
	// F12: omitted rejectPolicy (the general oracle reports it through defaultsOracle)
	{
		c := ConfigC{Servers: []ServerC{{Name: "s0", Proto: "2022-blake3-aes-128-gcm", PSK: 16, TL: []TLc{{Net: "tcp"}}}}}
		cs := Case{Kind: "probe", Probe: "F12", Cfg: c}
		mo, err := runModel(x, []ConfigC{c})
		if err != nil {
			return err
		}
		before := x.rep.Distribution["ORACLE-FAIL:"+keyF12]
		var m *modelOut
		if mo != nil {
			m = &mo[0]
		}
		evalLoad(x, cs, m)
		x.rep.FindingsProbed[keyF12] = x.rep.Distribution["ORACLE-FAIL:"+keyF12] > before
	}
	// F20: two domain sets / prefix sets of one name
	for _, pr := range []struct {
		key string
		rt  RouterC
	}{{keyF20d, RouterC{DS: []string{"ds0", "ds0"}}}, {keyF20p, RouterC{PS: []string{"ps0", "ps0"}}}} {
		c := ConfigC{Servers: []ServerC{{Name: "s0", Proto: "socks5", TL: []TLc{{Net: "tcp"}}}}, Router: pr.rt}
		cs := Case{Kind: "probe", Probe: "F20", Cfg: c}
		mo, err := runModel(x, []ConfigC{c})
		if err != nil {
			return err
		}
		var m *modelOut
		if mo != nil {
			m = &mo[0]
		}
		before := x.rep.Distribution["ORACLE-FAIL:"+pr.key]
		evalLoad(x, cs, m)
		x.rep.FindingsProbed[pr.key] = x.rep.Distribution["ORACLE-FAIL:"+pr.key] > before
	}
	// F24: a domain set file with an absurd capacity hint (keyword / regexp counts near 2^63): the loader must
	// answer with an error or accept the (otherwise valid) file, not panic. Nothing is allocated: makeslice refuses first.
	{
		c := ConfigC{Servers: []ServerC{{Name: "s0", Proto: "socks5", TL: []TLc{{Net: "tcp"}}}}, Router: RouterC{DS: []string{"hinted"}}}
		cs := Case{Kind: "probe", Probe: "F24", Cfg: c}
		r := load(loadDoc(c, x.dir), false)
		x.rep.Case(sigOf(cs), true)
		x.rep.FindingsProbed[keyF24] = false
		if strings.HasPrefix(r.Line, "panic") {
			x.rep.FindingsProbed[keyF24] = true
			x.failure(common.OracleFailure{Engine: "config", Key: keyF24, Case: cs,
				Detail: "Config.Manager panics at load instead of returning an error: " + r.Line + " (domain set file with capacity hint `1 1 9223372036854775807 4611686018427387904`)"})
		} else if mo, err := runModel(x, []ConfigC{c}); err != nil {
			return err
		} else if mo != nil && r.Line != mo[0].plain {
			x.rep.Diverge(common.Divergence{Engine: "config", Case: cs, Impl: r.Line, Model: mo[0].plain, Note: "set file with an absurd capacity hint"})
		}
	}
	// split-address clients: for each non-direct protocol with UDP, a client with BOTH networks enabled and only one of
	// tcpAddress / udpAddress must be refused; if it is accepted, the smoke traffic goes through it (a zero
	// conn.Addr as UDP / TCP server address is what the first session would resolve)
	for _, p := range []string{"socks5", "none", "2022-blake3-aes-128-gcm"} {
		for _, form := range []string{"tcp-only", "udp-only"} {
			via := ClientC{Name: "via", Proto: p, Addr: "@TEST@", ETCP: true, EUDP: true, MTU: 1500, TA: form == "tcp-only", UA: form == "udp-only"}
			test := ServerC{Name: "test", Proto: p, MTU: 1500, Listen: "@TEST@", TL: []TLc{{Net: "tcp"}}, UL: []ULc{{Net: "udp"}}}
			if isSS(p) {
				via.PSK, test.PSK = 16, 16
			}
			c := ConfigC{
				Servers: []ServerC{{Name: "front", Proto: "socks5", MTU: 1500, Listen: "@FRONT@", TL: []TLc{{Net: "tcp"}}, UL: []ULc{{Net: "udp"}}}, test},
				Clients: []ClientC{{Name: "out", Proto: "direct", ETCP: true, EUDP: true, MTU: 1500}, via},
				Router:  RouterC{DT: "out", DU: "out", Routes: []RouteC{{Name: "front-to-test", Cl: "via", FS: []string{"front"}}}},
			}
			cs := Case{Kind: "smoke", Probe: "client-address-" + form, Cfg: c}
			mo, err := runModel(x, []ConfigC{c})
			if err != nil {
				return err
			}
			var m *modelOut
			if mo != nil {
				m = &mo[0]
			}
			if impl := evalLoad(x, cs, m); impl.Eff != nil {
				evalSmoke(x, cs, SmokePlan{Doc: smokeDoc(c), Mode: "socks"}, "")
			}
		}
	}
	// F4: direct + tunnelUDPTargetOnly + DOMAIN tunnel address + a UDP listener: accepted, then the first reply datagram panics
	{
		c := ConfigC{
			Servers: []ServerC{
				{Name: "front", Proto: "socks5", MTU: 1500, Listen: "@FRONT@", TL: []TLc{{Net: "tcp"}}, UL: []ULc{{Net: "udp"}}},
				{Name: "test", Proto: "direct", MTU: 1500, Listen: "@TEST@", TL: []TLc{{Net: "tcp"}}, UL: []ULc{{Net: "udp"}}, Tun: "domain", TunTo: "@ECHOHOST@", TOnly: true},
			},
			Clients: []ClientC{{Name: "out", Proto: "direct", Net: "ip4", ETCP: true, EUDP: true, MTU: 1500}},
		}
		cs := Case{Kind: "probe", Probe: "F4", Cfg: c}
		mo, err := runModel(x, []ConfigC{c})
		if err != nil {
			return err
		}
		var m *modelOut
		if mo != nil {
			m = &mo[0]
		}
		impl := evalLoad(x, cs, m)
		x.rep.FindingsProbed[keyF4] = false
		if impl.Eff != nil {
			x.rep.FindingsProbed[keyF4] = evalSmoke(x, cs, SmokePlan{Doc: smokeDoc(c), Mode: "direct"}, keyF4)
		}
	}
	// F15: a filter size whose ring computation overflows to an EMPTY ring (2^64-64): nothing is allocated,
	// the first authenticated packet indexes the empty ring.  And 2^64-1 (one block): ids are accepted twice.
	{
		mk := func(fs uint64) ConfigC {
			return ConfigC{
				Servers: []ServerC{
					{Name: "front", Proto: "socks5", MTU: 1500, Listen: "@FRONT@", TL: []TLc{{Net: "tcp"}}, UL: []ULc{{Net: "udp"}}},
					{Name: "test", Proto: "2022-blake3-aes-128-gcm", MTU: 1500, Listen: "@TEST@", TL: []TLc{{Net: "tcp"}}, UL: []ULc{{Net: "udp"}}, PSK: 16, FS: fs},
				},
				Clients: []ClientC{{Name: "out", Proto: "direct", ETCP: true, EUDP: true, MTU: 1500},
					{Name: "via", Proto: "2022-blake3-aes-128-gcm", EP: true, Addr: "@TEST@", ETCP: true, EUDP: true, MTU: 1500, PSK: 16}},
				Router: RouterC{DT: "out", DU: "out", Routes: []RouteC{{Name: "front-to-test", Cl: "via", FS: []string{"front"}}}},
			}
		}
		x.rep.FindingsProbed[keyF15] = false
		c := mk(^uint64(0) - 63)
		cs := Case{Kind: "probe", Probe: "F15", Cfg: c}
		mo, err := runModel(x, []ConfigC{c})
		if err != nil {
			return err
		}
		var m *modelOut
		if mo != nil {
			m = &mo[0]
		}
		impl := evalLoad(x, cs, m)
		if impl.Eff != nil {
			if evalSmoke(x, cs, SmokePlan{Doc: smokeDoc(c), Mode: "socks"}, keyF15) {
				x.rep.FindingsProbed[keyF15] = true
			}
		}
		c2 := mk(^uint64(0))
		cs2 := Case{Kind: "probe", Probe: "F15-replay", Cfg: c2}
		if r := load(loadDoc(c2, x.dir), false); r.Eff != nil && r.Eff.Servers[1].FS == fmt.Sprint(^uint64(0)) {
			// the server hands exactly this size to ss2022.NewSlidingWindowFilter per session; 2^64-1 allocates one word
			f := ss2022.NewSlidingWindowFilter(^uint64(0))
			a1, _, a3 := f.Add(5), f.Add(1000), f.Add(5)
			if a1 && a3 {
				x.rep.FindingsProbed[keyF15] = true
				x.failure(common.OracleFailure{Engine: "config", Key: keyF15, Case: cs2,
					Detail: "slidingWindowFilterSize 18446744073709551615 is accepted at load; the filter built from it accepts packet id 5 twice (5, 1000, 5)"})
			}
		}
	}
	return nil
}

func main() {
	if len(os.Args) >= 3 && os.Args[1] == "smoke-child" {
		smokeChild(os.Args[2])
		return
	}
	o := common.ParseFlags()
	rep := common.NewReport("C18", o)
	rep.Engines = []string{"config", "smoke"}
	rep.Rule = "engine config: generated service configurations (every server/client protocol, listener arrays and legacy single-listener fields, client groups, resolvers, router with sets) " +
		"= a valid base with boundary-valid numbers (mtu 1280.., natTimeout 60s/61s, batch 1/1024, capacity 64, filter 1..2^20, omitted/\"\"/named policies) plus 0-2 directed faults " +
		"(mtu 1279, natTimeout 59s, batch 1025, capacity 63, wrong key lengths, dangling/duplicate names, bad protocol/network/policy text, huge filter sizes, target-only with a domain); " +
		"each is loaded as written and after Config.Migrate and with omitted values written as \"\" / as the documented default; non-trivial = the document decodes and has a server; distinct by the abstract configuration. " +
		"engine smoke: accepted configurations of a fixed relay topology (socks5 front -> protocol P client -> protocol P server under test -> direct -> echo) with the options under test at accepted boundaries, " +
		"started in a child process on loopback, one TCP + one UDP round trip, stop"
	dir, err := os.MkdirTemp("", "c18-corr-")
	if err == nil {
		err = fixtures(dir)
	}
	if err != nil {
		fmt.Fprintln(os.Stderr, "corr_c18:", err)
		os.Exit(3)
	}
	defer os.RemoveAll(dir)
	x := &ctx{o: o, rep: rep, dir: dir}

	if o.Replay != "" {
		var cs Case
		if err = common.LoadReplay(o.Replay, &cs); err == nil {
			err = replay(x, cs)
		}
	} else {
		err = run(x)
	}
	if err != nil {
		fmt.Fprintln(os.Stderr, "corr_c18:", err)
		rep.Note("engine error: %v", err)
		rep.Write(o.Out)
		os.RemoveAll(dir)
		os.Exit(3)
	}
	if err := rep.Write(o.Out); err != nil {
		fmt.Fprintln(os.Stderr, err)
		os.RemoveAll(dir)
		os.Exit(3)
	}
}

func replay(x *ctx, cs Case) error {
	mo, err := runModel(x, []ConfigC{cs.Cfg})
	if err != nil {
		return err
	}
	var m *modelOut
	if mo != nil {
		m = &mo[0]
	}
	impl := evalLoad(x, cs, m)
	if impl.Eff != nil && (cs.Kind == "smoke" || cs.Kind == "probe") {
		mode, key := "socks", ""
		noudp := false
		for _, s := range cs.Cfg.Servers {
			if s.Listen == "@TEST@" {
				if s.Proto == "direct" {
					mode = "direct"
				}
				noudp = s.Proto == "http"
			}
		}
		switch cs.Probe {
		case "F4":
			key = keyF4
		case "F15":
			key = keyF15
		}
		if cs.Probe != "F12" && cs.Probe != "F20" && cs.Probe != "F24" && cs.Probe != "F15-replay" {
			evalSmoke(x, cs, SmokePlan{Doc: smokeDoc(cs.Cfg), Mode: mode, NoUDP: noudp}, key)
		}
	}
	if cs.Probe == "F15-replay" || cs.Probe == "F24" {
		return probes(x)
	}
	return nil
}

func run(x *ctx) error {
	r := common.NewRng(x.o.Seed)
	// 0. directed probes of F4 / F12 / F15 / F20
	if err := probes(x); err != nil {
		return err
	}
	// 1. load cases
	n := x.o.Budget(3000, 50000)
	var batch []Case
	flush := func() error {
		if len(batch) == 0 {
			return nil
		}
		cfgs := make([]ConfigC, len(batch))
		for i := range batch {
			cfgs[i] = batch[i].Cfg
		}
		mo, err := runModel(x, cfgs)
		if err != nil {
			return err
		}
		for i := range batch {
			var m *modelOut
			if mo != nil {
				m = &mo[i]
			}
			evalLoad(x, batch[i], m)
		}
		batch = batch[:0]
		return nil
	}
	for i := 0; i < n; i++ {
		batch = append(batch, genCase(r.Fork(uint64(i)), x.o.Search))
		if len(batch) == 1000 {
			if err := flush(); err != nil {
				return err
			}
		}
	}
	if err := flush(); err != nil {
		return err
	}
	// 3. smoke
	ns := x.o.Budget(24, 400)
	if x.o.Search {
		ns = 60
	}
	rs := common.NewRng(x.o.Seed ^ 0x5eed5a0c)
	type job struct {
		cs   Case
		plan SmokePlan
		out  SmokeOutcome
	}
	var jobs []*job
	var cfgs []ConfigC
	for i := 0; i < ns; i++ {
		c, plan := genSmoke(rs.Fork(uint64(i)))
		jobs = append(jobs, &job{cs: Case{Kind: "smoke", Cfg: c}, plan: plan})
		cfgs = append(cfgs, c)
	}
	mo, err := runModel(x, cfgs)
	if err != nil {
		return err
	}
	var todo []*job
	for i, j := range jobs {
		var m *modelOut
		if mo != nil {
			m = &mo[i]
		}
		impl := evalLoad(x, j.cs, m)
		if impl.Eff == nil {
			x.rep.Count("smoke=config-rejected")
			x.rep.Note("smoke configuration rejected at load: %s (%s)", impl.Line, impl.ErrMsg)
			continue
		}
		todo = append(todo, j)
	}
	ch := make(chan *job)
	var wg sync.WaitGroup
	for w := 0; w < 6; w++ {
		wg.Add(1)
		go func() {
			defer wg.Done()
			for j := range ch {
				j.out = runSmoke(j.plan, x.dir)
			}
		}()
	}
	for _, j := range todo {
		ch <- j
	}
	close(ch)
	wg.Wait()
	for _, j := range todo {
		judgeSmoke(x, j.cs, j.plan, "", j.out)
	}
	return nil
}
