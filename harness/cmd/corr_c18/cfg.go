package main

import (
	"encoding/base64"
	"encoding/json"
	"fmt"
	"path/filepath"
	"strconv"
	"strings"
	"time"
)

// The abstract configuration a case is made of. It is rendered twice: as the real JSON document
// fed to encoding/json + service.Config.Manager, and as the line script of the Lean driver.

type TLc struct {
	Net string `json:"net"`
	WT  int64  `json:"wt,omitempty"` // initialPayloadWaitTimeout, ns
	WB  int    `json:"wb,omitempty"`
}

type ULc struct {
	Net string `json:"net"`
	BM  string `json:"bm,omitempty"`
	RB  int    `json:"rb,omitempty"`
	SB  int    `json:"sb,omitempty"`
	CC  int    `json:"cc,omitempty"`
	Nat int64  `json:"nat,omitempty"` // ns; 0 = omitted
}

type ServerC struct {
	Name   string  `json:"name"`
	Proto  string  `json:"proto"`
	MTU    int     `json:"mtu,omitempty"`
	TL     []TLc   `json:"tl,omitempty"`
	UL     []ULc   `json:"ul,omitempty"`
	ETCP   bool    `json:"etcp,omitempty"`
	EUDP   bool    `json:"eudp,omitempty"`
	NatSec int     `json:"natsec,omitempty"`
	UBM    string  `json:"ubm,omitempty"`
	URB    int     `json:"urb,omitempty"`
	USB    int     `json:"usb,omitempty"`
	UCC    int     `json:"ucc,omitempty"`
	Tun    string  `json:"tun,omitempty"` // absent | ip | domain
	TOnly  bool    `json:"tonly,omitempty"`
	TLS    bool    `json:"tls,omitempty"`
	Cert   bool    `json:"cert,omitempty"`
	PSK    int     `json:"psk,omitempty"`  // key length in bytes
	UPSK   string  `json:"upsk,omitempty"` // "" | missing | 16 | 32
	Pad    *string `json:"pad,omitempty"`  // nil = omitted
	Rej    *string `json:"rej,omitempty"`
	FS     uint64  `json:"fs,omitempty"`
	Listen string  `json:"listen,omitempty"` // smoke only: address for every listener of this server
	TunTo  string  `json:"tunto,omitempty"`  // smoke only: concrete tunnel address
}

type ClientC struct {
	Name  string  `json:"name"`
	Proto string  `json:"proto"`
	Net   string  `json:"net,omitempty"`
	EP    bool    `json:"ep,omitempty"`
	TA    bool    `json:"ta,omitempty"`
	UA    bool    `json:"ua,omitempty"`
	ETCP  bool    `json:"etcp,omitempty"`
	EUDP  bool    `json:"eudp,omitempty"`
	MTU   int     `json:"mtu,omitempty"`
	S5    bool    `json:"s5,omitempty"`
	S5U   int     `json:"s5u,omitempty"`
	S5P   int     `json:"s5p,omitempty"`
	PSK   int     `json:"psk,omitempty"`
	IPSK  []int   `json:"ipsk,omitempty"`
	Pad   *string `json:"pad,omitempty"`
	FS    uint64  `json:"fs,omitempty"`
	Addr  string  `json:"addr,omitempty"` // smoke only: concrete endpoint
}

type GroupC struct {
	Name string   `json:"name"`
	TP   string   `json:"tp,omitempty"`
	TC   []string `json:"tc,omitempty"`
	UP   string   `json:"up,omitempty"`
	UC   []string `json:"uc,omitempty"`
}

type DNSC struct {
	Name string `json:"name"`
	Type string `json:"type,omitempty"`
	Addr bool   `json:"addr,omitempty"`
	TC   string `json:"tc,omitempty"`
	UC   string `json:"uc,omitempty"`
}

type RouteC struct {
	Name  string   `json:"name"`
	Net   string   `json:"net,omitempty"`
	Cl    string   `json:"client"`
	Res   string   `json:"res,omitempty"`
	FS    []string `json:"fs,omitempty"`
	FPS   []string `json:"fps,omitempty"`
	TD    bool     `json:"td,omitempty"`
	TDS   []string `json:"tds,omitempty"`
	TP    bool     `json:"tp,omitempty"`
	TPS   []string `json:"tps,omitempty"`
	TMP   bool     `json:"tmp,omitempty"`
	TMPS  []string `json:"tmps,omitempty"`
	FG    bool     `json:"fg,omitempty"`
	TG    bool     `json:"tg,omitempty"`
	TMG   bool     `json:"tmg,omitempty"`
	NoRes bool     `json:"nores,omitempty"`
	FP    []int    `json:"fp,omitempty"`  // fromPorts
	FR    []string `json:"fr,omitempty"`  // items of fromPortRanges ("80", "1000-2000", junk)
	TP2   []int    `json:"tp2,omitempty"` // toPorts
	TR    []string `json:"tr,omitempty"`  // items of toPortRanges
	FU    []string `json:"fu,omitempty"`  // fromUsers: no effect on validation (not sent to the model), exercised by route matching
}

type RouterC struct {
	DT     string   `json:"dt,omitempty"`
	DU     string   `json:"du,omitempty"`
	DS     []string `json:"ds,omitempty"`
	PS     []string `json:"ps,omitempty"`
	Routes []RouteC `json:"routes,omitempty"`
}

type ApiLC struct {
	TLS  bool `json:"tls,omitempty"`
	Cert bool `json:"cert,omitempty"`
	CAs  bool `json:"cas,omitempty"`
}

type ApiC struct {
	En     bool    `json:"en,omitempty"`
	Pprof  bool    `json:"pprof,omitempty"`
	Static bool    `json:"static,omitempty"`
	Secret string  `json:"secret,omitempty"` // "" | plain | wild | bad
	L      []ApiLC `json:"l,omitempty"`
}

type ConfigC struct {
	API     *ApiC     `json:"api,omitempty"`
	Servers []ServerC `json:"servers,omitempty"`
	Clients []ClientC `json:"clients,omitempty"`
	Groups  []GroupC  `json:"groups,omitempty"`
	DNS     []DNSC    `json:"dns,omitempty"`
	Router  RouterC   `json:"router"`
}

func sp(s string) *string { return &s }

func clone(c ConfigC) ConfigC {
	b, _ := json.Marshal(c)
	var d ConfigC
	json.Unmarshal(b, &d)
	return d
}

// ---------- driver script ----------

// enc makes a string a single protocol token: "" is "~", a blank is "%20" (the generator uses no other
// white space, no comma, no '=' and no '%' in names).
func enc(s string) string {
	if s == "" {
		return "~"
	}
	return strings.ReplaceAll(s, " ", "%20")
}

func encL(l []string) string {
	x := make([]string, len(l))
	for i, s := range l {
		x[i] = enc(s)
	}
	return strings.Join(x, ",")
}

func ints(l []int) string {
	x := make([]string, len(l))
	for i, n := range l {
		x[i] = strconv.Itoa(n)
	}
	return strings.Join(x, ",")
}

// items renders port range items for the driver: an empty item is sent as "x" (junk either way)
func items(l []string) string {
	x := make([]string, len(l))
	for i, s := range l {
		if s == "" {
			s = "x"
		}
		x[i] = s
	}
	return strings.Join(x, ",")
}

func b01(b bool) string {
	if b {
		return "1"
	}
	return "0"
}

func encP(p *string) string {
	if p == nil {
		return "-"
	}
	return "s:" + *p
}

func tunKind(s string) string {
	if s == "" {
		return "absent"
	}
	return s
}

func upskEnc(s string) string {
	if s == "" {
		return "none"
	}
	return s
}

// Lines renders the configuration as driver lines (without the final `validate`).
func (c ConfigC) Lines() []string {
	ls := []string{"reset"}
	for _, s := range c.Servers {
		ls = append(ls, fmt.Sprintf("server name=%s proto=%s mtu=%d etcp=%s eudp=%s natsec=%d ubm=%s urb=%d usb=%d ucc=%d tun=%s tonly=%s tls=%s cert=%s psk=%d upsk=%s pad=%s rej=%s fs=%d",
			enc(s.Name), enc(s.Proto), s.MTU, b01(s.ETCP), b01(s.EUDP), s.NatSec, enc(s.UBM), s.URB, s.USB, s.UCC, tunKind(s.Tun), b01(s.TOnly),
			b01(s.TLS), b01(s.Cert), s.PSK, upskEnc(s.UPSK), encP(s.Pad), encP(s.Rej), s.FS))
		for _, l := range s.TL {
			ls = append(ls, fmt.Sprintf("tl net=%s wt=%d wb=%d", enc(l.Net), l.WT, l.WB))
		}
		for _, l := range s.UL {
			ls = append(ls, fmt.Sprintf("ul net=%s bm=%s rb=%d sb=%d cc=%d nat=%d", enc(l.Net), enc(l.BM), l.RB, l.SB, l.CC, l.Nat))
		}
	}
	for _, k := range c.Clients {
		ip := make([]string, len(k.IPSK))
		for i, n := range k.IPSK {
			ip[i] = strconv.Itoa(n)
		}
		ls = append(ls, fmt.Sprintf("client name=%s proto=%s net=%s ep=%s ta=%s ua=%s etcp=%s eudp=%s mtu=%d s5=%s s5u=%d s5p=%d psk=%d ipsk=%s pad=%s fs=%d",
			enc(k.Name), enc(k.Proto), enc(k.Net), b01(k.EP), b01(k.TA), b01(k.UA), b01(k.ETCP), b01(k.EUDP), k.MTU, b01(k.S5), k.S5U, k.S5P,
			k.PSK, strings.Join(ip, ","), encP(k.Pad), k.FS))
	}
	for _, g := range c.Groups {
		ls = append(ls, fmt.Sprintf("group name=%s tp=%s tc=%s up=%s uc=%s", enc(g.Name), enc(g.TP), encL(g.TC), enc(g.UP), encL(g.UC)))
	}
	for _, d := range c.DNS {
		ls = append(ls, fmt.Sprintf("dns name=%s type=%s addr=%s tc=%s uc=%s", enc(d.Name), enc(d.Type), b01(d.Addr), enc(d.TC), enc(d.UC)))
	}
	r := c.Router
	ls = append(ls, fmt.Sprintf("router dt=%s du=%s ds=%s ps=%s", enc(r.DT), enc(r.DU), encL(r.DS), encL(r.PS)))
	for _, rt := range r.Routes {
		ls = append(ls, fmt.Sprintf("route name=%s net=%s client=%s res=%s fs=%s fps=%s td=%s tds=%s tp=%s tps=%s tmp=%s tmps=%s fg=%s tg=%s tmg=%s nores=%s fu=%s fp=%s fr=%s tp2=%s tr=%s",
			enc(rt.Name), enc(rt.Net), enc(rt.Cl), enc(rt.Res), encL(rt.FS), encL(rt.FPS), b01(rt.TD), encL(rt.TDS), b01(rt.TP), encL(rt.TPS),
			b01(rt.TMP), encL(rt.TMPS), b01(rt.FG), b01(rt.TG), b01(rt.TMG), b01(rt.NoRes), encL(rt.FU), ints(rt.FP), items(rt.FR), ints(rt.TP2), items(rt.TR)))
	}
	if c.API != nil {
		sec := c.API.Secret
		if sec == "" {
			sec = "none"
		}
		ls = append(ls, fmt.Sprintf("api en=%s pprof=%s static=%s secret=%s", b01(c.API.En), b01(c.API.Pprof), b01(c.API.Static), sec))
		for _, l := range c.API.L {
			ls = append(ls, fmt.Sprintf("apil tls=%s cert=%s cas=%s", b01(l.TLS), b01(l.Cert), b01(l.CAs)))
		}
	}
	return ls
}

// ---------- real JSON ----------

func key(n int, seed byte) string {
	b := make([]byte, n)
	for i := range b {
		b[i] = seed + byte(i*7)
	}
	return base64.StdEncoding.EncodeToString(b)
}

type M = map[string]any

func dur(ns int64) string { return time.Duration(ns).String() }

const (
	loadAddr   = "127.0.0.1:0" // never bound: Manager() only constructs
	ipAddr     = "127.0.0.1:9"
	domainAddr = "localhost:9"
)

// JSON renders the real configuration document. dir holds the fixture files (uPSK stores, sets).
func (c ConfigC) JSON(dir string) []byte {
	doc := M{}
	var servers []M
	for i, s := range c.Servers {
		m := M{"name": s.Name, "protocol": s.Proto}
		listen := loadAddr
		if s.Listen != "" {
			listen = s.Listen
		}
		if s.MTU != 0 {
			m["mtu"] = s.MTU
		}
		if len(s.TL) > 0 {
			var l []M
			for _, t := range s.TL {
				x := M{"network": t.Net, "address": listen}
				if t.WT != 0 {
					x["initialPayloadWaitTimeout"] = dur(t.WT)
				}
				if t.WB != 0 {
					x["initialPayloadWaitBufferSize"] = t.WB
				}
				l = append(l, x)
			}
			m["tcpListeners"] = l
		}
		if len(s.UL) > 0 {
			var l []M
			for _, u := range s.UL {
				x := M{"network": u.Net, "address": listen}
				if u.BM != "" {
					x["batchMode"] = u.BM
				}
				if u.RB != 0 {
					x["relayBatchSize"] = u.RB
				}
				if u.SB != 0 {
					x["serverRecvBatchSize"] = u.SB
				}
				if u.CC != 0 {
					x["sendChannelCapacity"] = u.CC
				}
				if u.Nat != 0 {
					x["natTimeout"] = dur(u.Nat)
				}
				l = append(l, x)
			}
			m["udpListeners"] = l
		}
		if s.ETCP || s.EUDP {
			m["listen"] = listen
		}
		if s.ETCP {
			m["enableTCP"] = true
		}
		if s.EUDP {
			m["enableUDP"] = true
		}
		if s.NatSec != 0 {
			m["natTimeoutSec"] = s.NatSec
		}
		if s.UBM != "" {
			m["udpBatchMode"] = s.UBM
		}
		if s.URB != 0 {
			m["udpRelayBatchSize"] = s.URB
		}
		if s.USB != 0 {
			m["udpServerRecvBatchSize"] = s.USB
		}
		if s.UCC != 0 {
			m["udpSendChannelCapacity"] = s.UCC
		}
		switch s.Tun {
		case "ip":
			m["tunnelRemoteAddress"] = ipAddr
		case "domain":
			m["tunnelRemoteAddress"] = domainAddr
		}
		if s.TunTo != "" {
			m["tunnelRemoteAddress"] = s.TunTo
		}
		if s.TOnly {
			m["tunnelUDPTargetOnly"] = true
		}
		if s.TLS || s.Cert {
			h := M{}
			if s.TLS {
				h["enableTLS"] = true
			}
			if s.Cert {
				h["certList"] = "nosuchlist"
			}
			m["http"] = h
		}
		if s.PSK != 0 {
			m["psk"] = key(s.PSK, byte(16+i))
		}
		switch s.UPSK {
		case "missing":
			m["uPSKStorePath"] = filepath.Join(dir, "does-not-exist.json")
		case "16", "32":
			m["uPSKStorePath"] = filepath.Join(dir, "upsk"+s.UPSK+".json")
		}
		if s.Pad != nil {
			m["paddingPolicy"] = *s.Pad
		}
		if s.Rej != nil {
			m["rejectPolicy"] = *s.Rej
		}
		if s.FS != 0 {
			m["slidingWindowFilterSize"] = s.FS
		}
		servers = append(servers, m)
	}
	if servers != nil {
		doc["servers"] = servers
	}
	var clients []M
	for i, k := range c.Clients {
		m := M{"name": k.Name, "protocol": k.Proto}
		addr := ipAddr
		if k.Addr != "" {
			addr = k.Addr
		}
		if k.Net != "" {
			m["network"] = k.Net
		}
		if k.EP {
			m["endpoint"] = addr
		}
		if k.TA {
			m["tcpAddress"] = addr
		}
		if k.UA {
			m["udpAddress"] = addr
		}
		if k.ETCP {
			m["enableTCP"] = true
		}
		if k.EUDP {
			m["enableUDP"] = true
		}
		if k.MTU != 0 {
			m["mtu"] = k.MTU
		}
		if k.S5 || k.S5U != 0 || k.S5P != 0 {
			m["socks5"] = M{"username": strings.Repeat("u", k.S5U), "password": strings.Repeat("p", k.S5P), "enableUserPassAuth": k.S5}
		}
		if k.PSK != 0 {
			m["psk"] = key(k.PSK, byte(64+i))
		}
		if len(k.IPSK) > 0 {
			var l []string
			for j, n := range k.IPSK {
				l = append(l, key(n, byte(100+j)))
			}
			m["iPSKs"] = l
		}
		if k.Pad != nil {
			m["paddingPolicy"] = *k.Pad
		}
		if k.FS != 0 {
			m["slidingWindowFilterSize"] = k.FS
		}
		clients = append(clients, m)
	}
	if clients != nil {
		doc["clients"] = clients
	}
	var groups []M
	for _, g := range c.Groups {
		m := M{"name": g.Name}
		if len(g.TC) > 0 || g.TP != "" {
			m["tcp"] = M{"policy": g.TP, "clients": orEmpty(g.TC)}
		}
		if len(g.UC) > 0 || g.UP != "" {
			m["udp"] = M{"policy": g.UP, "clients": orEmpty(g.UC)}
		}
		groups = append(groups, m)
	}
	if groups != nil {
		doc["clientGroups"] = groups
	}
	var dns []M
	for _, d := range c.DNS {
		m := M{"name": d.Name}
		if d.Type != "" {
			m["type"] = d.Type
		}
		if d.Addr {
			m["addrPort"] = "127.0.0.1:53"
		}
		if d.TC != "" {
			m["tcpClientName"] = d.TC
		}
		if d.UC != "" {
			m["udpClientName"] = d.UC
		}
		dns = append(dns, m)
	}
	if dns != nil {
		doc["dns"] = dns
	}
	r := M{}
	if c.Router.DT != "" {
		r["defaultTCPClientName"] = c.Router.DT
	}
	if c.Router.DU != "" {
		r["defaultUDPClientName"] = c.Router.DU
	}
	if len(c.Router.DS) > 0 {
		var l []M
		for _, n := range c.Router.DS {
			file := "ds.txt"
			if n == "hinted" { // F24 probe: a valid set whose capacity hint line is absurd
				file = "ds_hint.txt"
			}
			l = append(l, M{"name": n, "path": filepath.Join(dir, file)})
		}
		r["domainSets"] = l
	}
	if len(c.Router.PS) > 0 {
		var l []M
		for _, n := range c.Router.PS {
			l = append(l, M{"name": n, "path": filepath.Join(dir, "ps.txt")})
		}
		r["prefixSets"] = l
	}
	var routes []M
	for _, rt := range c.Router.Routes {
		m := M{"name": rt.Name, "client": rt.Cl}
		if rt.Net != "" {
			m["network"] = rt.Net
		}
		if rt.Res != "" {
			m["resolver"] = rt.Res
		}
		if len(rt.FS) > 0 {
			m["fromServers"] = rt.FS
		}
		if len(rt.FPS) > 0 {
			m["fromPrefixSets"] = rt.FPS
		}
		if len(rt.FU) > 0 {
			m["fromUsers"] = rt.FU
		}
		if len(rt.FP) > 0 {
			m["fromPorts"] = rt.FP
		}
		if len(rt.FR) > 0 {
			m["fromPortRanges"] = strings.Join(rt.FR, ",")
		}
		if len(rt.TP2) > 0 {
			m["toPorts"] = rt.TP2
		}
		if len(rt.TR) > 0 {
			m["toPortRanges"] = strings.Join(rt.TR, ",")
		}
		if rt.TD {
			m["toDomains"] = []string{"example.com"}
		}
		if len(rt.TDS) > 0 {
			m["toDomainSets"] = rt.TDS
		}
		if rt.TP {
			m["toPrefixes"] = []string{"10.0.0.0/8"}
		}
		if len(rt.TPS) > 0 {
			m["toPrefixSets"] = rt.TPS
		}
		if rt.TMP {
			m["toMatchedDomainExpectedPrefixes"] = []string{"10.0.0.0/8"}
		}
		if len(rt.TMPS) > 0 {
			m["toMatchedDomainExpectedPrefixSets"] = rt.TMPS
		}
		if rt.FG {
			m["fromGeoIPCountries"] = []string{"US"}
		}
		if rt.TG {
			m["toGeoIPCountries"] = []string{"US"}
		}
		if rt.TMG {
			m["toMatchedDomainExpectedGeoIPCountries"] = []string{"US"}
		}
		if rt.NoRes {
			m["disableNameResolutionForIPRules"] = true
		}
		routes = append(routes, m)
	}
	if routes != nil {
		r["routes"] = routes
	}
	if len(r) > 0 {
		doc["router"] = r
	}
	if c.API != nil {
		a := M{"enabled": c.API.En}
		if c.API.Pprof {
			a["debugPprof"] = true
		}
		if c.API.Static {
			a["staticPath"] = dir
		}
		switch c.API.Secret {
		case "plain":
			a["secretPath"] = "s3cret/path"
		case "wild":
			a["secretPath"] = "{anything}"
		case "bad":
			a["secretPath"] = "x/{y...}"
		}
		var ll []M
		for _, l := range c.API.L {
			x := M{"network": "tcp", "address": loadAddr}
			if l.TLS {
				x["enableTLS"] = true
			}
			if l.Cert {
				x["certList"] = "nosuchlist"
			}
			if l.CAs {
				x["clientCAs"] = "nosuchpool"
			}
			ll = append(ll, x)
		}
		if ll != nil {
			a["listeners"] = ll
		} else {
			a["listeners"] = []M{}
		}
		doc["api"] = a
	}
	b, err := json.MarshalIndent(doc, "", " ")
	if err != nil {
		panic(err)
	}
	return b
}

func orEmpty(l []string) []string {
	if l == nil {
		return []string{}
	}
	return l
}
