package main

import (
	"fmt"
	"strings"

	"ssvharness/internal/common"
)

// Generator: a structurally random, VALID base configuration whose numbers sit on the accepted side
// of every boundary the quantifier names, then 0..2 directed faults that push one field over a
// boundary / break one reference / duplicate one name / hit one unsupported combination.

const sec = int64(1000000000)

var (
	serverProtos = []string{"direct", "socks5", "http", "none", "plain", "2022-blake3-aes-128-gcm", "2022-blake3-aes-256-gcm", "2022-blake3-aes-128-gcm", "tproxy", "redirect"}
	clientProtos = []string{"direct", "socks5", "http", "none", "plain", "2022-blake3-aes-128-gcm", "2022-blake3-aes-256-gcm", "2022-blake3-aes-256-gcm"}
	okMTU        = []int{1280, 1281, 1492, 1500, 9000, 65535}
	okBatch      = []int{0, 1, 8, 256, 1024}
	okCap        = []int{0, 64, 65, 1024, 4096}
	okFS         = []uint64{0, 0, 1, 2, 255, 256, 257, 1024, 1 << 20}
	hugeFS       = []uint64{1<<20 + 1, 1 << 32, 1 << 63, 1<<63 - 63, ^uint64(0) - 63, ^uint64(0) - 64, ^uint64(0)}
	// boundaries of the ss2022 NAT timeout follow the code's replay window (the oracle keeps the documented 60 s)
	win         = replayWindowNs()
	okNatSS     = []int64{0, win, win, win + 1, win + sec, 300 * sec, 3600 * sec}
	okNatSecSS  = []int{0, int((win + sec - 1) / sec), int((win + sec - 1) / sec), int((win+sec-1)/sec) + 1, 300}
	badNatSS    = []int64{win - 1, win - 1, win - sec, win - sec, 59 * sec, 1, -sec, 30 * sec}
	badNatSecSS = []int{int((win - 1) / sec), int((win - 1) / sec), int((win-sec)/sec) - 0, 59, 1, -1, 30}
	okNatAny    = []int64{0, 1 * sec, 59 * sec, 60 * sec, 61 * sec, 300 * sec}
	padNames    = []string{"", "PadPlainDNS", "PadAll", "NoPadding"}
	rejNames    = []string{"", "JustClose", "ForceReset", "CloseWriteDrain", "ReplyWithGibberish"}
	groupPols   = []string{"round-robin", "random", "availability", "latency", "min-max-latency"}
	batchModes  = []string{"", "no", "sendmmsg"}
)

func isSS(p string) bool { return p == "2022-blake3-aes-128-gcm" || p == "2022-blake3-aes-256-gcm" }

func keyLen(p string) int {
	if p == "2022-blake3-aes-256-gcm" {
		return 32
	}
	return 16
}

func pickPolicy(r *common.Rng, names []string) *string {
	if r.Chance(1, 3) {
		return nil
	}
	return sp(common.Pick(r, names))
}

func serverUDPOK(p string) bool {
	switch p {
	case "direct", "tproxy", "none", "plain", "socks5", "2022-blake3-aes-128-gcm", "2022-blake3-aes-256-gcm":
		return true
	}
	return false
}

func genUL(r *common.Rng, ss bool) ULc {
	nat := okNatAny
	if ss {
		nat = okNatSS
	}
	return ULc{Net: common.Pick(r, []string{"udp", "udp", "udp4", "udp6"}), BM: common.Pick(r, batchModes), RB: common.Pick(r, okBatch), SB: common.Pick(r, okBatch),
		CC: common.Pick(r, okCap), Nat: common.Pick(r, nat)}
}

func genServer(r *common.Rng, name string) ServerC {
	s := ServerC{Name: name, Proto: common.Pick(r, serverProtos)}
	ss := isSS(s.Proto)
	wantTCP := r.Chance(3, 4)
	wantUDP := serverUDPOK(s.Proto) && r.Chance(2, 3)
	if !wantTCP && !wantUDP {
		wantTCP = true
	}
	if wantTCP {
		switch r.Intn(4) {
		case 0:
			s.ETCP = true
		case 1:
			s.ETCP = true
			s.TL = append(s.TL, TLc{Net: "tcp6"})
		default:
			for i := 0; i < r.Range(1, 2); i++ {
				t := TLc{Net: common.Pick(r, []string{"tcp", "tcp", "tcp4", "tcp6"})}
				if r.Chance(1, 4) {
					t.WT = common.Pick(r, []int64{1, 250000000, 5 * sec})
					t.WB = common.Pick(r, []int{1, 1440, 65536})
				}
				s.TL = append(s.TL, t)
			}
		}
	}
	if wantUDP {
		s.MTU = common.Pick(r, okMTU)
		legacy := r.Intn(4)
		if legacy <= 1 {
			s.EUDP = true
			s.UBM = common.Pick(r, batchModes)
			s.URB = common.Pick(r, okBatch)
			s.USB = common.Pick(r, okBatch)
			s.UCC = common.Pick(r, okCap)
			if ss {
				s.NatSec = common.Pick(r, okNatSecSS)
			} else {
				s.NatSec = common.Pick(r, []int{0, 1, 59, 60, 300})
			}
		}
		if legacy >= 1 {
			for i := 0; i < r.Range(1, 2); i++ {
				s.UL = append(s.UL, genUL(r, ss))
			}
		}
	} else if r.Chance(1, 3) {
		s.MTU = common.Pick(r, []int{0, 1279, 1500}) // irrelevant without UDP
	}
	switch s.Proto {
	case "direct":
		s.Tun = common.Pick(r, []string{"ip", "ip", "domain"})
		if s.Tun == "ip" || !wantUDP {
			s.TOnly = r.Chance(1, 3)
		}
	case "http":
		if r.Chance(1, 8) {
			s.TLS = false
		}
	}
	if ss {
		s.PSK = keyLen(s.Proto)
		if r.Chance(1, 4) {
			s.UPSK = fmt.Sprint(s.PSK)
		}
		s.Pad = pickPolicy(r, padNames)
		s.Rej = pickPolicy(r, rejNames)
		s.FS = common.Pick(r, okFS)
	} else if r.Chance(1, 10) {
		// fields of other protocols are ignored
		s.PSK = common.Pick(r, []int{5, 16})
		s.FS = common.Pick(r, []uint64{7, ^uint64(0)})
		s.Rej = pickPolicy(r, rejNames)
	}
	return s
}

func genClient(r *common.Rng, name string) ClientC {
	k := ClientC{Name: name, Proto: common.Pick(r, clientProtos), Net: common.Pick(r, []string{"", "", "ip", "ip4", "ip6"})}
	k.ETCP = r.Chance(4, 5)
	k.EUDP = k.Proto != "http" && r.Chance(2, 3)
	if !k.ETCP && !k.EUDP {
		k.ETCP = true
	}
	if k.EUDP {
		k.MTU = common.Pick(r, okMTU)
	}
	if k.Proto != "direct" {
		if r.Bool() {
			k.EP = true
		} else {
			k.TA = k.ETCP || r.Bool()
			k.UA = k.EUDP || !k.TA
		}
	}
	if k.Proto == "socks5" && r.Chance(1, 3) {
		k.S5 = true
		k.S5U = common.Pick(r, []int{1, 8, 255})
		k.S5P = common.Pick(r, []int{1, 8, 255})
	}
	if isSS(k.Proto) {
		k.PSK = keyLen(k.Proto)
		for i := 0; i < common.Pick(r, []int{0, 0, 1, 2}); i++ {
			k.IPSK = append(k.IPSK, k.PSK)
		}
		k.Pad = pickPolicy(r, padNames)
		k.FS = common.Pick(r, okFS)
	}
	return k
}

// caps returns the names usable as TCP / UDP clients after clients and groups (in order).
func caps(c *ConfigC) (tcp, udp []string) {
	if len(c.Clients) == 0 {
		tcp, udp = []string{"direct"}, []string{"direct"}
	}
	for _, k := range c.Clients {
		if k.ETCP {
			tcp = append(tcp, k.Name)
		}
		if k.EUDP {
			udp = append(udp, k.Name)
		}
	}
	for _, g := range c.Groups {
		if len(g.TC) > 0 {
			tcp = append(tcp, g.Name)
		}
		if len(g.UC) > 0 {
			udp = append(udp, g.Name)
		}
	}
	return
}

func both(a, b []string) []string {
	var res []string
	for _, x := range a {
		for _, y := range b {
			if x == y {
				res = append(res, x)
			}
		}
	}
	return res
}

func subset(r *common.Rng, l []string, max int) []string {
	var res []string
	for _, x := range l {
		if len(res) < max && r.Bool() {
			res = append(res, x)
		}
	}
	if len(res) == 0 && len(l) > 0 {
		res = []string{common.Pick(r, l)}
	}
	return res
}

func genBase(r *common.Rng) ConfigC {
	var c ConfigC
	for i := 0; i < common.Pick(r, []int{0, 1, 1, 2, 2, 3}); i++ {
		c.Clients = append(c.Clients, genClient(r, fmt.Sprintf("c%d", i)))
	}
	for i := 0; i < common.Pick(r, []int{0, 0, 1, 2}); i++ {
		tcp, udp := caps(&c)
		g := GroupC{Name: fmt.Sprintf("g%d", i)}
		if len(tcp) > 0 && r.Chance(3, 4) {
			g.TC, g.TP = subset(r, tcp, 3), common.Pick(r, groupPols)
		}
		if len(udp) > 0 && (len(g.TC) == 0 || r.Bool()) {
			g.UC, g.UP = subset(r, udp, 3), common.Pick(r, groupPols)
		}
		if len(g.TC) == 0 && len(g.UC) == 0 {
			continue
		}
		c.Groups = append(c.Groups, g)
	}
	tcp, udp := caps(&c)
	for i := 0; i < common.Pick(r, []int{0, 0, 1, 2}); i++ {
		d := DNSC{Name: fmt.Sprintf("d%d", i)}
		if r.Chance(1, 5) {
			d.Type = "system"
		} else {
			d.Type = common.Pick(r, []string{"", "plain"})
			d.Addr = true
			if len(tcp) > 0 && r.Bool() {
				d.TC = common.Pick(r, tcp)
			}
			if len(udp) > 0 && (d.TC == "" || r.Bool()) {
				d.UC = common.Pick(r, udp)
			}
			if d.TC == "" && d.UC == "" {
				continue
			}
		}
		c.DNS = append(c.DNS, d)
	}
	for i := 0; i < common.Pick(r, []int{1, 1, 2, 3}); i++ {
		c.Servers = append(c.Servers, genServer(r, fmt.Sprintf("s%d", i)))
	}
	// router
	for i := 0; i < common.Pick(r, []int{0, 0, 1, 2}); i++ {
		c.Router.DS = append(c.Router.DS, fmt.Sprintf("ds%d", i))
	}
	for i := 0; i < common.Pick(r, []int{0, 0, 1, 2}); i++ {
		c.Router.PS = append(c.Router.PS, fmt.Sprintf("ps%d", i))
	}
	if r.Chance(1, 3) && len(tcp) > 0 {
		c.Router.DT = common.Pick(r, append([]string{"reject"}, tcp...))
	}
	if r.Chance(1, 3) && len(udp) > 0 {
		c.Router.DU = common.Pick(r, append([]string{"reject"}, udp...))
	}
	var dnsNames, srvNames []string
	for _, d := range c.DNS {
		dnsNames = append(dnsNames, d.Name)
	}
	for _, s := range c.Servers {
		srvNames = append(srvNames, s.Name)
	}
	for i := 0; i < common.Pick(r, []int{0, 1, 2, 3}); i++ {
		rt := RouteC{Name: fmt.Sprintf("r%d", i)}
		bt := both(tcp, udp)
		switch {
		case r.Chance(1, 5):
			rt.Cl = "reject"
			rt.Net = common.Pick(r, []string{"", "tcp", "udp"})
		case len(bt) > 0 && r.Chance(1, 2):
			rt.Cl = common.Pick(r, bt)
		case len(tcp) > 0 && (len(udp) == 0 || r.Bool()):
			rt.Cl, rt.Net = common.Pick(r, tcp), "tcp"
		case len(udp) > 0:
			rt.Cl, rt.Net = common.Pick(r, udp), "udp"
		default:
			rt.Cl = "reject"
		}
		if r.Chance(1, 2) {
			rt.FS = subset(r, srvNames, 2)
		}
		if r.Chance(1, 5) {
			rt.FU = []string{common.Pick(r, []string{"Steve", "nobody", ""})}
		}
		if len(c.Router.PS) > 0 && r.Chance(1, 3) {
			rt.FPS = subset(r, c.Router.PS, 2)
		}
		if r.Chance(1, 3) {
			rt.TD = true
		}
		if len(c.Router.DS) > 0 && r.Chance(1, 3) {
			rt.TDS = subset(r, c.Router.DS, 2)
		}
		if len(dnsNames) > 0 || r.Chance(1, 2) {
			if r.Chance(1, 4) {
				rt.TP = true
			}
			if len(c.Router.PS) > 0 && r.Chance(1, 4) {
				rt.TPS = subset(r, c.Router.PS, 2)
			}
			if len(dnsNames) == 0 {
				rt.NoRes = true
			}
		}
		if len(dnsNames) > 0 {
			if (rt.TD || len(rt.TDS) > 0) && r.Chance(1, 3) {
				rt.TMP = r.Bool()
				if len(c.Router.PS) > 0 {
					rt.TMPS = subset(r, c.Router.PS, 1)
				}
			}
			if r.Chance(1, 3) {
				rt.Res = common.Pick(r, dnsNames)
			}
		}
		if r.Chance(1, 4) {
			rt.FP, rt.FR = genPorts(r)
		}
		if r.Chance(1, 4) {
			rt.TP2, rt.TR = genPorts(r)
		}
		c.Router.Routes = append(c.Router.Routes, rt)
	}
	if r.Chance(1, 5) {
		a := &ApiC{En: r.Chance(5, 6), Pprof: r.Bool(), Static: r.Bool(), Secret: common.Pick(r, []string{"", "", "plain"})}
		for i := 0; i < r.Range(1, 2); i++ {
			a.L = append(a.L, ApiLC{TLS: r.Chance(1, 4), Cert: false, CAs: false})
		}
		if !a.L[0].TLS && r.Chance(1, 4) {
			a.L[0].Cert = true // resolved only with TLS
		}
		c.API = a
	}
	return c
}

// genPorts: a valid port criterion: one port, a few ranges, or more than 16 ranges (bit set representation)
func genPorts(r *common.Rng) (ports []int, items []string) {
	switch r.Intn(6) {
	case 0:
		return []int{common.Pick(r, []int{1, 53, 443, 65535})}, nil
	case 1:
		return nil, []string{common.Pick(r, []string{"80", "65535", "1"})}
	case 2:
		return []int{80, 443}, []string{"1000-2000", "3000-3001"}
	case 3: // 16 ranges: still a range set
		for i := 0; i < 16; i++ {
			items = append(items, fmt.Sprintf("%d-%d", 100*i+1, 100*i+10))
		}
		return nil, items
	case 4: // 17 ranges: bit set
		for i := 0; i < 16; i++ {
			items = append(items, fmt.Sprintf("%d-%d", 100*i+1, 100*i+10))
		}
		return []int{60000}, items
	default: // adjacent and overlapping pieces merge: 1-10, 11, 5-20 is ONE range
		return []int{11}, []string{"1-10", "5-20", "21"}
	}
}

// ---------- faults ----------

type fault struct {
	name string
	f    func(r *common.Rng, c *ConfigC) bool // false: not applicable
}

func pickServer(r *common.Rng, c *ConfigC, ok func(*ServerC) bool) *ServerC {
	var idx []int
	for i := range c.Servers {
		if ok(&c.Servers[i]) {
			idx = append(idx, i)
		}
	}
	if len(idx) == 0 {
		return nil
	}
	return &c.Servers[common.Pick(r, idx)]
}

func pickClient(r *common.Rng, c *ConfigC, ok func(*ClientC) bool) *ClientC {
	var idx []int
	for i := range c.Clients {
		if ok(&c.Clients[i]) {
			idx = append(idx, i)
		}
	}
	if len(idx) == 0 {
		return nil
	}
	return &c.Clients[common.Pick(r, idx)]
}

func hasUDP(s *ServerC) bool { return s.EUDP || len(s.UL) > 0 }
func hasTCP(s *ServerC) bool { return s.ETCP || len(s.TL) > 0 }

// withUL applies f to one UDP listener (array or legacy) of a server satisfying ok.
func withUL(r *common.Rng, c *ConfigC, ok func(*ServerC) bool, arr func(*ULc), legacy func(*ServerC)) bool {
	s := pickServer(r, c, func(s *ServerC) bool { return hasUDP(s) && ok(s) })
	if s == nil {
		return false
	}
	if s.EUDP && (len(s.UL) == 0 || r.Bool()) {
		legacy(s)
	} else {
		arr(&s.UL[r.Intn(len(s.UL))])
	}
	return true
}

var anyServer = func(*ServerC) bool { return true }
var ssServer = func(s *ServerC) bool { return isSS(s.Proto) }

var faults = []fault{
	{"server-mtu", func(r *common.Rng, c *ConfigC) bool {
		s := pickServer(r, c, hasUDP)
		if s == nil {
			return false
		}
		s.MTU = common.Pick(r, []int{1279, 1279, 0, -1, 1, 576})
		return true
	}},
	{"client-mtu", func(r *common.Rng, c *ConfigC) bool {
		k := pickClient(r, c, func(k *ClientC) bool { return k.EUDP })
		if k == nil {
			return false
		}
		k.MTU = common.Pick(r, []int{1279, 1279, 0, -1})
		return true
	}},
	{"nat-ss", func(r *common.Rng, c *ConfigC) bool {
		return withUL(r, c, ssServer,
			func(u *ULc) { u.Nat = common.Pick(r, badNatSS) },
			func(s *ServerC) { s.NatSec = common.Pick(r, badNatSecSS) })
	}},
	{"nat-any-negative", func(r *common.Rng, c *ConfigC) bool {
		return withUL(r, c, anyServer, func(u *ULc) { u.Nat = -sec }, func(s *ServerC) { s.NatSec = -1 })
	}},
	{"relay-batch", func(r *common.Rng, c *ConfigC) bool {
		v := common.Pick(r, []int{1025, 1025, -1, 4096})
		return withUL(r, c, anyServer, func(u *ULc) { u.RB = v }, func(s *ServerC) { s.URB = v })
	}},
	{"recv-batch", func(r *common.Rng, c *ConfigC) bool {
		v := common.Pick(r, []int{1025, 1025, -1, 4096})
		return withUL(r, c, anyServer, func(u *ULc) { u.SB = v }, func(s *ServerC) { s.USB = v })
	}},
	{"send-cap", func(r *common.Rng, c *ConfigC) bool {
		v := common.Pick(r, []int{63, 63, 1, -64})
		return withUL(r, c, anyServer, func(u *ULc) { u.CC = v }, func(s *ServerC) { s.UCC = v })
	}},
	{"batch-mode", func(r *common.Rng, c *ConfigC) bool {
		return withUL(r, c, anyServer, func(u *ULc) { u.BM = "recvmmsg" }, func(s *ServerC) { s.UBM = "yes" })
	}},
	{"udp-network", func(r *common.Rng, c *ConfigC) bool {
		s := pickServer(r, c, func(s *ServerC) bool { return len(s.UL) > 0 })
		if s == nil {
			return false
		}
		s.UL[r.Intn(len(s.UL))].Net = common.Pick(r, []string{"tcp", "udp5", ""})
		return true
	}},
	{"tcp-network", func(r *common.Rng, c *ConfigC) bool {
		s := pickServer(r, c, func(s *ServerC) bool { return len(s.TL) > 0 })
		if s == nil {
			return false
		}
		t := &s.TL[r.Intn(len(s.TL))]
		switch r.Intn(3) {
		case 0:
			t.Net = common.Pick(r, []string{"udp", "tcp5", ""})
		case 1:
			t.WT = -1
		default:
			t.WB = -1
		}
		return true
	}},
	{"server-psk", func(r *common.Rng, c *ConfigC) bool {
		s := pickServer(r, c, ssServer)
		if s == nil {
			return false
		}
		s.PSK = common.Pick(r, []int{0, 15, 17, 24, 48 - s.PSK, 31, 33})
		return true
	}},
	{"server-upsk", func(r *common.Rng, c *ConfigC) bool {
		s := pickServer(r, c, ssServer)
		if s == nil {
			return false
		}
		s.UPSK = common.Pick(r, []string{"missing", fmt.Sprint(48 - keyLen(s.Proto))})
		return true
	}},
	{"client-psk", func(r *common.Rng, c *ConfigC) bool {
		k := pickClient(r, c, func(k *ClientC) bool { return isSS(k.Proto) })
		if k == nil {
			return false
		}
		if len(k.IPSK) > 0 && r.Bool() {
			k.IPSK[r.Intn(len(k.IPSK))] = common.Pick(r, []int{15, 48 - k.PSK, 24})
		} else {
			k.PSK = common.Pick(r, []int{0, 15, 17, 24, 48 - k.PSK})
		}
		return true
	}},
	{"huge-filter", func(r *common.Rng, c *ConfigC) bool {
		if r.Bool() {
			if s := pickServer(r, c, ssServer); s != nil {
				s.FS = common.Pick(r, hugeFS)
				return true
			}
		}
		if k := pickClient(r, c, func(k *ClientC) bool { return isSS(k.Proto) }); k != nil {
			k.FS = common.Pick(r, hugeFS)
			return true
		}
		return false
	}},
	{"bad-policy-text", func(r *common.Rng, c *ConfigC) bool {
		if s := pickServer(r, c, anyServer); s != nil && r.Bool() {
			if r.Bool() {
				s.Rej = sp(common.Pick(r, []string{"forcereset", "Reset", "justclose"}))
			} else {
				s.Pad = sp(common.Pick(r, []string{"padall", "None"}))
			}
			return true
		}
		if k := pickClient(r, c, func(*ClientC) bool { return true }); k != nil {
			k.Pad = sp("Pad")
			return true
		}
		return false
	}},
	{"server-proto", func(r *common.Rng, c *ConfigC) bool {
		s := pickServer(r, c, anyServer)
		if s == nil {
			return false
		}
		s.Proto = common.Pick(r, []string{"vmess", "", "2022-blake3-chacha20-poly1305", "HTTP"})
		return true
	}},
	{"udp-on-tcp-only-proto", func(r *common.Rng, c *ConfigC) bool {
		s := pickServer(r, c, func(s *ServerC) bool { return s.Proto == "http" || s.Proto == "redirect" })
		if s == nil {
			return false
		}
		s.MTU = 1500
		s.UL = append(s.UL, ULc{Net: "udp"})
		return true
	}},
	{"client-proto", func(r *common.Rng, c *ConfigC) bool {
		k := pickClient(r, c, func(*ClientC) bool { return true })
		if k == nil {
			return false
		}
		if k.Proto == "http" && r.Bool() {
			k.EUDP, k.MTU = true, 1500
			return true
		}
		k.Proto = common.Pick(r, []string{"tproxy", "vmess", ""})
		if !k.EP && !k.TA && !k.UA {
			k.EP = true
		}
		return true
	}},
	{"client-network", func(r *common.Rng, c *ConfigC) bool {
		k := pickClient(r, c, func(*ClientC) bool { return true })
		if k == nil {
			return false
		}
		k.Net = common.Pick(r, []string{"tcp", "ipv4", "udp"})
		return true
	}},
	{"client-address", func(r *common.Rng, c *ConfigC) bool {
		k := pickClient(r, c, func(k *ClientC) bool { return k.Proto != "direct" })
		if k == nil {
			return false
		}
		switch r.Intn(4) {
		case 0:
			k.EP, k.TA, k.UA = false, false, false
		case 1:
			k.EP, k.TA = true, true
		case 2:
			k.EP, k.TA, k.UA = false, !k.ETCP, k.ETCP
		default:
			k.EP, k.TA, k.UA = false, k.EUDP, !k.EUDP
		}
		return true
	}},
	{"client-socks5-auth", func(r *common.Rng, c *ConfigC) bool {
		k := pickClient(r, c, func(k *ClientC) bool { return k.Proto == "socks5" })
		if k == nil {
			return false
		}
		k.S5 = true
		k.S5U, k.S5P = common.Pick(r, []int{0, 256, 8}), common.Pick(r, []int{0, 256})
		return true
	}},
	{"direct-tunnel", func(r *common.Rng, c *ConfigC) bool {
		s := pickServer(r, c, func(s *ServerC) bool { return s.Proto == "direct" })
		if s == nil {
			return false
		}
		if r.Bool() {
			s.Tun = ""
		} else {
			s.Tun, s.TOnly = "domain", true
			if !hasUDP(s) {
				s.MTU = 1500
				s.UL = append(s.UL, ULc{Net: "udp"})
			}
		}
		return true
	}},
	{"http-tls", func(r *common.Rng, c *ConfigC) bool {
		s := pickServer(r, c, func(s *ServerC) bool { return s.Proto == "http" })
		if s == nil {
			return false
		}
		switch r.Intn(3) {
		case 0:
			s.TLS = true
		case 1:
			s.TLS, s.Cert = true, true
		default:
			s.Cert = true
		}
		return true
	}},
	{"dup-client", func(r *common.Rng, c *ConfigC) bool {
		if len(c.Clients) == 0 {
			return false
		}
		k := common.Pick(r, c.Clients)
		k2 := clone(ConfigC{Clients: []ClientC{k}}).Clients[0]
		c.Clients = append(c.Clients, k2)
		return true
	}},
	{"dup-group", func(r *common.Rng, c *ConfigC) bool {
		if len(c.Groups) == 0 {
			return false
		}
		g := common.Pick(r, c.Groups)
		if r.Bool() {
			c.Groups = append(c.Groups, g)
		} else {
			tcp, _ := caps(c)
			if len(tcp) == 0 {
				return false
			}
			g.Name = tcp[0]
			c.Groups = append(c.Groups, g)
		}
		return true
	}},
	{"dup-dns", func(r *common.Rng, c *ConfigC) bool {
		if len(c.DNS) == 0 {
			return false
		}
		c.DNS = append(c.DNS, common.Pick(r, c.DNS))
		return true
	}},
	{"dup-server", func(r *common.Rng, c *ConfigC) bool {
		if len(c.Servers) == 0 {
			return false
		}
		s := common.Pick(r, c.Servers)
		c.Servers = append(c.Servers, clone(ConfigC{Servers: []ServerC{s}}).Servers[0])
		return true
	}},
	{"dup-set", func(r *common.Rng, c *ConfigC) bool {
		if len(c.Router.DS) > 0 && r.Bool() {
			c.Router.DS = append(c.Router.DS, c.Router.DS[0])
			return true
		}
		if len(c.Router.PS) > 0 {
			c.Router.PS = append(c.Router.PS, c.Router.PS[0])
			return true
		}
		return false
	}},
	{"group-bad", func(r *common.Rng, c *ConfigC) bool {
		if len(c.Groups) == 0 {
			c.Groups = append(c.Groups, GroupC{Name: "gx"})
			return true
		}
		g := &c.Groups[r.Intn(len(c.Groups))]
		switch r.Intn(4) {
		case 0:
			g.TC, g.UC = nil, nil
		case 1:
			if len(g.TC) > 0 {
				g.TC = append(g.TC, common.Pick(r, []string{"nosuch", "", g.Name, "g9"}))
			} else {
				g.UC = append(g.UC, common.Pick(r, []string{"nosuch", "", g.Name}))
			}
		case 2:
			if len(g.TC) > 0 {
				g.TP = common.Pick(r, []string{"", "roundrobin", "Random"})
			} else {
				g.UP = common.Pick(r, []string{"", "fastest"})
			}
		default:
			// a member that exists but not for this network
			tcp, udp := caps(c)
			if len(g.UC) > 0 && len(tcp) > 0 {
				g.UC = append(g.UC, tcp[0])
			} else if len(udp) > 0 {
				g.TC, g.TP = append(g.TC, udp[0]), "random"
			}
		}
		return true
	}},
	{"dns-bad", func(r *common.Rng, c *ConfigC) bool {
		if len(c.DNS) == 0 {
			c.DNS = append(c.DNS, DNSC{Name: "dx", Addr: true, TC: common.Pick(r, []string{"nosuch", ""})})
			return true
		}
		d := &c.DNS[r.Intn(len(c.DNS))]
		switch r.Intn(5) {
		case 0:
			d.Type = common.Pick(r, []string{"doh", "System"})
		case 1:
			d.Type, d.Addr = "system", true
		case 2:
			d.Addr = false
		case 3:
			d.TC, d.UC = "", ""
		default:
			if r.Bool() {
				d.TC = common.Pick(r, []string{"nosuch", "reject"})
			} else {
				d.UC = common.Pick(r, []string{"nosuch", "reject"})
			}
		}
		return true
	}},
	{"router-default", func(r *common.Rng, c *ConfigC) bool {
		tcp, udp := caps(c)
		switch r.Intn(4) {
		case 0:
			c.Router.DT = "nosuch"
		case 1:
			c.Router.DU = "nosuch"
		case 2:
			if len(udp) == 0 {
				return false
			}
			c.Router.DT = udp[len(udp)-1] // exists, maybe not for TCP
		default:
			if len(tcp) == 0 {
				return false
			}
			c.Router.DU = tcp[len(tcp)-1]
		}
		return true
	}},
	{"route-bad", func(r *common.Rng, c *ConfigC) bool {
		if len(c.Router.Routes) == 0 {
			c.Router.Routes = append(c.Router.Routes, RouteC{Name: "rx", Cl: common.Pick(r, []string{"nosuch", "", "Reject"})})
			return true
		}
		rt := &c.Router.Routes[r.Intn(len(c.Router.Routes))]
		tcp, udp := caps(c)
		switch r.Intn(12) {
		case 0:
			rt.Name = common.Pick(r, []string{"", "default"})
		case 1:
			rt.Cl = common.Pick(r, []string{"nosuch", "", "s0", "d0"})
		case 2:
			rt.Net = common.Pick(r, []string{"icmp", "TCP", "ip"})
		case 3:
			rt.Res = common.Pick(r, []string{"nosuch", "c0"})
		case 4:
			rt.FS = append(rt.FS, common.Pick(r, []string{"nosuch", "", "c0"}))
		case 5:
			rt.FPS = append(rt.FPS, common.Pick(r, []string{"nosuch", "ds0"}))
		case 6:
			rt.TDS = append(rt.TDS, common.Pick(r, []string{"nosuch", "ps0"}))
		case 7:
			rt.TPS = append(rt.TPS, "nosuch")
			if len(c.DNS) == 0 {
				rt.NoRes = true
			}
		case 8:
			rt.TD = true
			rt.TMPS = append(rt.TMPS, "nosuch")
		case 9:
			switch r.Intn(3) {
			case 0:
				rt.FG = true
			case 1:
				rt.TG = true
			default:
				rt.TMG = true
			}
		case 10:
			rt.TD, rt.TDS = false, nil
			rt.TMP = true
		default:
			// exists, but not for the network(s) the route applies to
			rt.Net = ""
			if len(tcp) > 0 && r.Bool() {
				rt.Cl = tcp[len(tcp)-1]
			} else if len(udp) > 0 {
				rt.Cl = udp[len(udp)-1]
			}
		}
		return true
	}},
	{"route-needs-resolver", func(r *common.Rng, c *ConfigC) bool {
		if len(c.Router.Routes) == 0 {
			return false
		}
		rt := &c.Router.Routes[r.Intn(len(c.Router.Routes))]
		c.DNS = nil
		rt.Res = ""
		rt.TP, rt.NoRes = true, false
		return true
	}},
	{"no-servers", func(r *common.Rng, c *ConfigC) bool {
		c.Servers = nil
		for i := range c.Router.Routes {
			c.Router.Routes[i].FS = nil
		}
		return true
	}},
}

// ---------- names: empty, duplicate empty, differing in case / white space ----------

var nameKinds = []string{"server", "server", "client", "group", "dns", "ds", "ps"}

// namesOf returns pointers to the names of all entities of a kind.
func namesOf(c *ConfigC, kind string) []*string {
	var l []*string
	switch kind {
	case "server":
		for i := range c.Servers {
			l = append(l, &c.Servers[i].Name)
		}
	case "client":
		for i := range c.Clients {
			l = append(l, &c.Clients[i].Name)
		}
	case "group":
		for i := range c.Groups {
			l = append(l, &c.Groups[i].Name)
		}
	case "dns":
		for i := range c.DNS {
			l = append(l, &c.DNS[i].Name)
		}
	case "ds":
		for i := range c.Router.DS {
			l = append(l, &c.Router.DS[i])
		}
	case "ps":
		for i := range c.Router.PS {
			l = append(l, &c.Router.PS[i])
		}
	}
	return l
}

func renameIn(l []string, old, new string) {
	for i := range l {
		if l[i] == old {
			l[i] = new
		}
	}
}

// renameRefs rewrites every reference to an entity of the kind.
func renameRefs(c *ConfigC, kind, old, new string) {
	one := func(p *string) {
		if *p == old {
			*p = new
		}
	}
	switch kind {
	case "server":
		for i := range c.Router.Routes {
			renameIn(c.Router.Routes[i].FS, old, new)
		}
	case "client", "group":
		for i := range c.Groups {
			renameIn(c.Groups[i].TC, old, new)
			renameIn(c.Groups[i].UC, old, new)
		}
		for i := range c.DNS {
			if old != "" {
				one(&c.DNS[i].TC)
				one(&c.DNS[i].UC)
			}
		}
		if old != "" {
			one(&c.Router.DT)
			one(&c.Router.DU)
		}
		for i := range c.Router.Routes {
			one(&c.Router.Routes[i].Cl)
		}
	case "dns":
		for i := range c.Router.Routes {
			if old != "" {
				one(&c.Router.Routes[i].Res)
			}
		}
	case "ds":
		for i := range c.Router.Routes {
			renameIn(c.Router.Routes[i].TDS, old, new)
		}
	case "ps":
		for i := range c.Router.Routes {
			renameIn(c.Router.Routes[i].FPS, old, new)
			renameIn(c.Router.Routes[i].TPS, old, new)
			renameIn(c.Router.Routes[i].TMPS, old, new)
		}
	}
}

func oddVariant(r *common.Rng, n string) string {
	switch r.Intn(4) {
	case 0:
		return strings.ToUpper(n)
	case 1:
		return n + " "
	case 2:
		return " " + n
	default:
		return strings.ToUpper(n[:1]) + n[1:]
	}
}

func init() {
	faults = append(faults,
		// every address form x enabled networks of a proxy client, for every non-direct client protocol
		fault{"client-address-forms", func(r *common.Rng, c *ConfigC) bool {
			k := pickClient(r, c, func(*ClientC) bool { return true })
			if k == nil {
				c.Clients = append(c.Clients, ClientC{Name: "cx"})
				k = &c.Clients[len(c.Clients)-1]
			}
			p := common.Pick(r, []string{"socks5", "http", "none", "plain", "2022-blake3-aes-128-gcm", "2022-blake3-aes-256-gcm"})
			if k.Proto != p {
				k.Proto = p
				k.PSK, k.IPSK, k.S5 = 0, nil, false
				if isSS(p) {
					k.PSK = keyLen(p)
				}
			}
			form := common.Pick(r, []int{0, 1, 2, 2, 2, 3, 3, 3, 4, 5, 6})
			k.EP, k.TA, k.UA = form == 0 || form >= 5, form == 1 || form == 2 || form == 5, form == 1 || form == 3 || form == 6
			// form: 0 endpoint | 1 tcp+udp | 2 tcp only | 3 udp only | 4 none | 5 endpoint+tcp | 6 endpoint+udp
			en := common.Pick(r, []int{0, 1, 2, 3, 3, 3})
			k.ETCP, k.EUDP = en&1 == 1 || en == 0 && r.Bool(), en&2 == 2
			if p == "http" && r.Chance(3, 4) {
				k.EUDP = false
			}
			if k.EUDP && k.MTU < 1280 {
				k.MTU = 1500
			}
			return true
		}},
		fault{"route-ports", func(r *common.Rng, c *ConfigC) bool {
			if len(c.Router.Routes) == 0 {
				return false
			}
			rt := &c.Router.Routes[r.Intn(len(c.Router.Routes))]
			var p []int
			var it []string
			switch r.Intn(4) {
			case 0:
				p = []int{80, 0}
			case 1:
				// the refused item first: a trailing empty item ("80,") is accepted by Parse
				it = []string{common.Pick(r, []string{"x", "0", "70000", "5-3", "7-7", "1-2-3", "", "0-5", "5-70000"}), "80"}
			case 2:
				it = []string{"1-65535"}
			default:
				p, it = []int{1, 65535}, []string{"2-40000", "30000-65534"}
			}
			if r.Bool() {
				rt.FP, rt.FR = p, it
			} else {
				rt.TP2, rt.TR = p, it
			}
			return true
		}},
		fault{"api-bad", func(r *common.Rng, c *ConfigC) bool {
			if c.API == nil {
				c.API = &ApiC{En: true, L: []ApiLC{{}}}
			}
			a := c.API
			switch r.Intn(6) {
			case 0:
				a.En, a.L = true, nil
			case 1:
				a.En = true
				a.L = append(a.L, ApiLC{TLS: true, Cert: true})
			case 2:
				a.En = true
				a.L = append(a.L, ApiLC{TLS: true, CAs: true})
			case 3:
				a.En, a.Secret = true, common.Pick(r, []string{"wild", "bad"})
			case 4:
				a.En, a.L, a.Secret = false, nil, "bad" // disabled: nothing is looked at
			default:
				a.En, a.Pprof, a.Static = true, true, true
				if len(a.L) == 0 {
					a.L = []ApiLC{{}}
				}
			}
			return true
		}},
		// one entity gets the empty name; references follow it (still a valid configuration) or are left behind
		fault{"empty-name", func(r *common.Rng, c *ConfigC) bool {
			kind := common.Pick(r, nameKinds)
			l := namesOf(c, kind)
			if len(l) == 0 {
				return false
			}
			p := l[r.Intn(len(l))]
			old := *p
			*p = ""
			if r.Chance(2, 3) {
				renameRefs(c, kind, old, "")
			}
			if kind == "server" && r.Bool() && len(c.Router.Routes) > 0 {
				rt := &c.Router.Routes[r.Intn(len(c.Router.Routes))]
				rt.FS = append(rt.FS, common.Pick(r, []string{"", c.Servers[0].Name}))
			}
			return true
		}},
		// two entities of one kind are unnamed
		fault{"dup-empty-name", func(r *common.Rng, c *ConfigC) bool {
			kind := common.Pick(r, nameKinds)
			switch kind {
			case "server":
				if len(c.Servers) == 1 {
					c.Servers = append(c.Servers, clone(ConfigC{Servers: c.Servers[:1]}).Servers[0])
				}
			case "ds":
				if len(c.Router.DS) == 1 {
					c.Router.DS = append(c.Router.DS, "dsx")
				}
			case "ps":
				if len(c.Router.PS) == 1 {
					c.Router.PS = append(c.Router.PS, "psx")
				}
			}
			l := namesOf(c, kind)
			if len(l) < 2 {
				return false
			}
			i := r.Intn(len(l))
			j := (i + 1 + r.Intn(len(l)-1)) % len(l)
			for _, k := range []int{i, j} {
				old := *l[k]
				*l[k] = ""
				if r.Bool() {
					renameRefs(c, kind, old, "")
				}
			}
			if kind == "server" && len(c.Router.Routes) > 0 && r.Chance(2, 3) {
				rt := &c.Router.Routes[r.Intn(len(c.Router.Routes))]
				if len(rt.FS) == 0 {
					rt.FS = []string{common.Pick(r, []string{"", c.Servers[0].Name})}
				}
			}
			return true
		}},
		// a name that differs from another one of its kind only in case or white space: distinct names
		fault{"odd-name", func(r *common.Rng, c *ConfigC) bool {
			kind := common.Pick(r, nameKinds)
			l := namesOf(c, kind)
			if len(l) == 0 {
				return false
			}
			i := r.Intn(len(l))
			src := *l[r.Intn(len(l))]
			if src == "" {
				return false
			}
			old := *l[i]
			*l[i] = oddVariant(r, src)
			switch r.Intn(3) {
			case 0:
				renameRefs(c, kind, old, *l[i]) // consistent
			case 1: // references keep the old spelling (dangling unless another entity has it)
			default: // a reference spelled like the variant of an existing name
				renameRefs(c, kind, src, oddVariant(r, src))
			}
			return true
		}},
	)
}

type Case struct {
	Kind   string   `json:"kind"` // "load" | "smoke" | "probe"
	Faults []string `json:"faults,omitempty"`
	Cfg    ConfigC  `json:"cfg"`
	Probe  string   `json:"probe,omitempty"`
}

func genCase(r *common.Rng, search bool) Case {
	c := Case{Kind: "load", Cfg: genBase(r)}
	n := common.Pick(r, []int{0, 0, 1, 1, 1, 2})
	if search {
		n = common.Pick(r, []int{1, 1, 2, 3})
	}
	for i := 0; i < n; i++ {
		for try := 0; try < 8; try++ {
			f := common.Pick(r, faults)
			if f.f(r, &c.Cfg) {
				c.Faults = append(c.Faults, f.name)
				break
			}
		}
	}
	return c
}
