package main

import (
	"bytes"
	"context"
	"encoding/json"
	"fmt"
	"net/netip"
	"os"
	"path/filepath"
	"reflect"
	"runtime"
	"strings"
	"time"
	"unsafe"

	"ssvharness/internal/common"

	"github.com/database64128/shadowsocks-go/conn"
	"github.com/database64128/shadowsocks-go/router"
	"github.com/database64128/shadowsocks-go/service"
	"github.com/database64128/shadowsocks-go/ss2022"
	"go.uber.org/zap"
)

// fixtures writes the files configurations refer to (uPSK stores, one domain set, one prefix set).
func fixtures(dir string) error {
	if err := os.MkdirAll(dir, 0o755); err != nil {
		return err
	}
	files := map[string]string{
		"upsk16.json": fmt.Sprintf("{\n \"Steve\": %q,\n \"Alex\": %q\n}\n", key(16, 1), key(16, 2)),
		"upsk32.json": fmt.Sprintf("{\n \"Steve\": %q\n}\n", key(32, 3)),
		"ds.txt":      "domain:example.com\nsuffix:example.org\n",
		"ds_hint.txt": "# shadowsocks-go domain set capacity hint 1 1 9223372036854775807 4611686018427387904 DSKR\ndomain:example.com\nsuffix:example.org\n",
		"ps.txt":      "10.0.0.0/8\nfd00::/8\n",
	}
	for n, c := range files {
		if err := os.WriteFile(filepath.Join(dir, n), []byte(c), 0o644); err != nil {
			return err
		}
	}
	return nil
}

// decode is cmd/shadowsocks-go's way of loading a configuration (jsoncfg.Load without the file).
func decode(doc []byte) (*service.Config, error) {
	var sc service.Config
	dec := json.NewDecoder(bytes.NewReader(doc))
	dec.DisallowUnknownFields()
	if err := dec.Decode(&sc); err != nil {
		return nil, err
	}
	return &sc, nil
}

// ImplResult is the canonical outcome of loading one configuration with the real code.
type ImplResult struct {
	Line   string // "decode-err" | "err <class>" | "ok S[...] C[...]" | "panic ..."
	ErrMsg string
	Eff    *Eff
	// RoutePanic: what the router of the accepted configuration did when asked for a client for a
	// request arriving on each server ("" = no panic)
	RoutePanic string
}

type EffUL struct {
	Nat        int64
	RB, SB, CC int64
	BM         string
}
type EffServer struct {
	Name     string
	TCP      int
	UDP      []EffUL
	Rej, Pad string // "-" when not applicable
	FS       string
}
type EffClient struct {
	Name, Net string
	TCP, UDP  bool
	Pad, FS   string
}
type Eff struct {
	Servers []EffServer
	Clients []EffClient
	Routes  []string // per configured route: "<source port criterion kind>/<destination ...>"
}

func (e *Eff) String() string {
	var ss, cs []string
	for _, s := range e.Servers {
		var us []string
		for _, u := range s.UDP {
			us = append(us, fmt.Sprintf("%d:%d:%d:%d:%s", u.Nat, u.RB, u.SB, u.CC, u.BM))
		}
		ss = append(ss, fmt.Sprintf("%s/T%d/U%s/%s/%s/%s", s.Name, s.TCP, strings.Join(us, ";"), s.Rej, s.Pad, s.FS))
	}
	for _, c := range e.Clients {
		cs = append(cs, fmt.Sprintf("%s/%s/%s%s/%s/%s", c.Name, c.Net, b01(c.TCP), b01(c.UDP), c.Pad, c.FS))
	}
	return "ok S[" + strings.Join(ss, " ") + "] C[" + strings.Join(cs, " ") + "] R[" + strings.Join(e.Routes, " ") + "]"
}

// load runs the real loading path on a JSON document; migrate additionally runs Config.Migrate first.
func load(doc []byte, migrate bool) (res ImplResult) {
	sc, err := decode(doc)
	if err != nil {
		return ImplResult{Line: "decode-err", ErrMsg: err.Error()}
	}
	if p := common.Safely(func() {
		if migrate {
			sc.Migrate()
		}
		m, err := sc.Manager(zap.NewNop())
		if err != nil {
			res = ImplResult{Line: "err " + classify(err.Error()), ErrMsg: err.Error()}
			return
		}
		defer m.Close()
		eff, err := effective(sc, m)
		if err != nil {
			res = ImplResult{Line: "harness-error " + err.Error()}
			return
		}
		res = ImplResult{Line: eff.String(), Eff: eff, RoutePanic: routeEveryServer(sc, m)}
	}); p != nil {
		return ImplResult{Line: fmt.Sprintf("panic %v", p)}.asPanicClass()
	}
	return res
}

// asPanicClass: the two panics of http.ServeMux.Handle the model knows (reachable only without the F25 / F26
// guards) are compared as error classes; they remain oracle failures.
func (r ImplResult) asPanicClass() ImplResult {
	r.ErrMsg = r.Line
	switch {
	case strings.Contains(r.Line, "conflicts with pattern"):
		r.Line = "err PANIC:api-mux-conflict"
	case strings.Contains(r.Line, "panic parsing \""):
		r.Line = "err PANIC:api-secret-path"
	}
	return r
}

// ---------- reading the effective values out of the built services (read-only reflection) ----------

// fld returns the named field of a struct reached through pointers/interfaces, readable even if unexported.
func fld(v reflect.Value, name string) reflect.Value {
	for v.Kind() == reflect.Pointer || v.Kind() == reflect.Interface {
		v = v.Elem()
	}
	f := v.FieldByName(name)
	if !f.IsValid() {
		panic(fmt.Sprintf("harness: type %s has no field %s", v.Type(), name))
	}
	if f.CanAddr() {
		return reflect.NewAt(f.Type(), unsafe.Pointer(f.UnsafeAddr())).Elem()
	}
	return f
}

func funcName(f reflect.Value) string {
	if f.IsNil() {
		return "nil"
	}
	n := runtime.FuncForPC(f.Pointer()).Name()
	if i := strings.LastIndex(n, "."); i >= 0 {
		n = n[i+1:]
	}
	return n
}

func deref(v reflect.Value) reflect.Value {
	for v.Kind() == reflect.Pointer || v.Kind() == reflect.Interface {
		v = v.Elem()
	}
	return v
}

func effective(sc *service.Config, m *service.Manager) (eff *Eff, err error) {
	defer func() {
		if p := recover(); p != nil {
			err = fmt.Errorf("%v", p)
		}
	}()
	eff = &Eff{}
	for i := range sc.Servers {
		eff.Servers = append(eff.Servers, EffServer{Name: sc.Servers[i].Name, Rej: "-", Pad: "-", FS: "-"})
	}
	svcs := fld(reflect.ValueOf(m), "services")
	for i := 0; i < svcs.Len(); i++ {
		s := svcs.Index(i)
		tn := deref(s).Type().String()
		switch tn {
		case "service.TCPRelay":
			idx := int(fld(s, "serverIndex").Int())
			es := &eff.Servers[idx]
			es.TCP = fld(s, "listeners").Len()
			srv := fld(s, "server")
			if deref(srv).Type().String() == "ss2022.StreamServer" {
				es.Rej = funcName(fld(srv, "rejectPolicy"))
			}
		case "service.UDPNATRelay", "service.UDPSessionRelay", "service.UDPTransparentRelay":
			idx := int(fld(s, "serverIndex").Int())
			es := &eff.Servers[idx]
			ls := fld(s, "listeners")
			for j := 0; j < ls.Len(); j++ {
				l := ls.Index(j)
				es.UDP = append(es.UDP, EffUL{Nat: fld(l, "natTimeout").Int(), RB: fld(l, "relayBatchSize").Int(), SB: fld(l, "serverRecvBatchSize").Int(),
					CC: fld(l, "sendChannelCapacity").Int(), BM: fld(l, "batchMode").String()})
			}
			if tn == "service.UDPSessionRelay" {
				srv := fld(s, "server")
				if deref(srv).Type().String() == "ss2022.UDPServer" {
					es.Pad = funcName(fld(srv, "shouldPad"))
					es.FS = fmt.Sprint(fld(srv, "filterSize").Uint())
				}
			}
		}
	}
	// the port criteria the router built (one port / range set / bit set), read off the criterion types
	rts := fld(fld(reflect.ValueOf(m), "router"), "routes")
	for i := 0; i < len(sc.Router.Routes) && i < rts.Len(); i++ {
		from, to := "-", "-"
		crit := fld(rts.Index(i), "criteria")
		for j := 0; j < crit.Len(); j++ {
			c := crit.Index(j)
			for c.Kind() == reflect.Interface || c.Kind() == reflect.Pointer {
				c = c.Elem()
			}
			if c.Type().String() == "router.InvertedCriterion" {
				c = c.FieldByName("Inner")
				for c.Kind() == reflect.Interface || c.Kind() == reflect.Pointer {
					c = c.Elem()
				}
			}
			switch c.Type().String() {
			case "router.SourcePortCriterion":
				from = "single"
			case "router.SourcePortRangeSetCriterion":
				from = "ranges"
			case "router.SourcePortSetCriterion":
				from = "bitset"
			case "router.DestPortCriterion":
				to = "single"
			case "router.DestPortRangeSetCriterion":
				to = "ranges"
			case "router.DestPortSetCriterion":
				to = "bitset"
			}
		}
		eff.Routes = append(eff.Routes, from+"/"+to)
	}
	for i := range sc.Clients {
		cc := &sc.Clients[i]
		ec := EffClient{Name: cc.Name, Net: cc.Network, TCP: cc.EnableTCP, UDP: cc.EnableUDP, Pad: "-", FS: "-"}
		if cc.EnableUDP && strings.HasPrefix(cc.Protocol, "2022-") {
			uc, err := cc.UDPClient() // builds a second client object from the initialised configuration
			if err != nil {
				return nil, err
			}
			v := reflect.ValueOf(uc)
			if deref(v).Type().String() == "ss2022.UDPClient" {
				ec.Pad = funcName(fld(v, "shouldPad"))
				ec.FS = fmt.Sprint(fld(v, "filterSize").Uint())
			}
		}
		eff.Clients = append(eff.Clients, ec)
	}
	return eff, nil
}

var _ = ss2022.ForceReset

// routeEveryServer asks the built router for the TCP and the UDP client of one request per configured
// server (what the relays do for the first connection / packet on that server): IP source and target, no
// user, then user "Steve". Errors (rejected, no client) are fine; a panic is what a relay goroutine would die of.
func routeEveryServer(sc *service.Config, m *service.Manager) (panicked string) {
	rt, ok := fld(reflect.ValueOf(m), "router").Interface().(*router.Router)
	if !ok || rt == nil {
		return "harness: no router"
	}
	ctx, cancel := context.WithTimeout(context.Background(), 2*time.Second)
	defer cancel()
	for i := range sc.Servers {
		for _, user := range []string{"", "Steve"} {
			ri := router.RequestInfo{ServerIndex: i, Username: user, SourceAddrPort: netip.MustParseAddrPort("127.0.0.1:40000"),
				TargetAddr: conn.AddrFromIPPort(netip.MustParseAddrPort("10.1.2.3:443"))}
			if p := common.Safely(func() {
				rt.GetTCPClient(ctx, ri)
				rt.GetUDPClient(ctx, ri)
			}); p != nil {
				return fmt.Sprintf("request on server index %d (%q): %v", i, sc.Servers[i].Name, p)
			}
		}
	}
	return ""
}

// ---------- error classes ----------

type rule struct{ outer, inner, class string }

var rules = []rule{
	{"no services to start", "", "no-servers"},
	{"duplicate client name", "", "dup-client"},
	{"failed to initialize client", "unknown network", "client-network"},
	{"failed to initialize client", "proxy server address", "client-address"},
	{"failed to initialize client", "proxy server TCP address", "client-address"},
	{"failed to initialize client", "proxy server UDP address", "client-address"},
	{"failed to initialize client", "bad user credentials", "client-socks5-auth"},
	{"failed to initialize client", "expected PSK length", "client-psk"},
	{"failed to initialize client", "sliding window filter size", "client-filter-size"},
	{"failed to create TCP client for", "unknown protocol", "client-protocol"},
	{"failed to create UDP client for", "MTU must be at least", "client-mtu"},
	{"failed to create UDP client for", "unknown protocol", "client-protocol"},
	{"has the same name as a client", "", "group-name-is-client"},
	{"duplicate client group name", "", "dup-group"},
	{"failed to add client group", "empty client group", "group-empty"},
	{"failed to add client group", "TCP client not found", "group-tcp-notfound"},
	{"failed to add client group", "unknown TCP client selection policy", "group-tcp-policy"},
	{"failed to add client group", "UDP client not found", "group-udp-notfound"},
	{"failed to add client group", "unknown UDP client selection policy", "group-udp-policy"},
	{"duplicate DNS resolver name", "", "dup-resolver"},
	{"failed to create DNS resolver", "system resolver does not support", "resolver-system-extras"},
	{"failed to create DNS resolver", "unknown resolver type", "resolver-type"},
	{"failed to create DNS resolver", "missing resolver address", "resolver-address"},
	{"failed to create DNS resolver", "neither TCP nor UDP client", "resolver-no-client"},
	{"failed to create DNS resolver", "unknown TCP client", "resolver-tcp-notfound"},
	{"failed to create DNS resolver", "unknown UDP client", "resolver-udp-notfound"},
	{"duplicate server name", "", "dup-server"},
	{"failed to create router", "default TCP client not found", "router-default-tcp"},
	{"failed to create router", "default UDP client not found", "router-default-udp"},
	{"failed to create router", "duplicate domain set name", "dup-domainset"},
	{"failed to create router", "duplicate prefix set name", "dup-prefixset"},
	{"failed to create router", "route name cannot be empty", "route-name"},
	{"failed to create router", "missing GeoLite2", "route-geoip"},
	{"failed to create router", "missing resolvers for one or more criteria", "route-no-resolvers"},
	{"failed to create router", "missing destination domain criteria", "route-no-domain-criteria"},
	{"failed to create router", "resolver not found", "route-resolver-notfound"},
	{"failed to create router", "invalid network", "route-network"},
	{"failed to create router", "TCP client not found", "route-tcp-notfound"},
	{"failed to create router", "UDP client not found", "route-udp-notfound"},
	{"failed to create router", "server not found", "route-server-notfound"},
	{"failed to create router", "prefix set not found", "route-prefixset-notfound"},
	{"failed to create router", "domain set not found", "route-domainset-notfound"},
	{"failed to initialize server", "tunnelRemoteAddress is required", "server-tunnel"},
	{"failed to initialize server", "certificate list is required for HTTPS", "server-http-tls"},
	{"failed to initialize server", "expected PSK length", "server-psk"},
	{"failed to initialize server", "sliding window filter size", "server-filter-size"},
	{"failed to create TCP relay service for", "invalid protocol", "server-protocol"},
	{"failed to create TCP relay service for", "certificate list", "server-http-certlist"},
	{"failed to create TCP relay service for", "invalid network", "tcp-listener-network"},
	{"failed to create TCP relay service for", "negative initial payload wait timeout", "tcp-listener-timeout"},
	{"failed to create TCP relay service for", "negative initial payload wait buffer size", "tcp-listener-bufsize"},
	{"failed to create UDP relay service for", "MTU must be at least", "server-mtu"},
	{"failed to create UDP relay service for", "tunnelUDPTargetOnly requires", "server-targetonly"},
	{"failed to create UDP relay service for", "invalid protocol", "server-protocol"},
	{"failed to create UDP relay service for", "invalid network", "udp-listener-network"},
	{"failed to create UDP relay service for", "unknown batch mode", "udp-batch-mode"},
	{"failed to create UDP relay service for", "server recv batch size out of range", "udp-recv-batch"},
	{"failed to create UDP relay service for", "relay batch size out of range", "udp-relay-batch"},
	{"failed to create UDP relay service for", "send channel capacity", "udp-send-capacity"},
	{"failed to create UDP relay service for", "NAT timeout", "nat-timeout"},
	{"failed to post-initialize server", "", "server-upsk-store"},
	{"failed to create router", "bad fromPorts", "route-port-zero"},
	{"failed to create router", "bad toPorts", "route-port-zero"},
	{"failed to create router", "port ranges", "route-port-ranges"},
	{"failed to create router", "port criteria", "route-ports-all"},
	{"failed to create API server", "no listeners specified", "api-no-listeners"},
	{"failed to create API server", "certificate list", "api-certlist"},
	{"failed to create API server", "client CA", "api-clientcas"},
	{"failed to create API server", "secret path", "api-secret-path"},
}

func classify(msg string) string {
	for _, r := range rules {
		if strings.Contains(msg, r.outer) && strings.Contains(msg, r.inner) {
			return r.class
		}
	}
	return "other:" + msg
}
