package main

import (
	"bytes"
	"context"
	"encoding/binary"
	"encoding/json"
	"fmt"
	"io"
	"net"
	"os"
	"os/exec"
	"regexp"
	"runtime"
	"strings"
	"sync"
	"syscall"
	"time"

	"ssvharness/internal/common"

	"go.uber.org/zap"
	"go.uber.org/zap/zapcore"
)

// Smoke traffic: the configuration under test is started for real (loopback, ephemeral ports chosen
// in the child right before the start), one TCP and one UDP round trip go through it, then it is
// stopped. This happens in a CHILD process: a panic in a relay goroutine kills the process, and an
// accepted configuration may make the code allocate without limit.
//
// Topology (one service.Config):
//   harness SOCKS5 client -> server "front" (socks5) --route--> client "via" (protocol P)
//        -> server "test" (protocol P, the options under test) --default route--> client "out" (direct) -> echo
//   P = direct: the harness talks to server "test" directly, which tunnels to the echo address.

type SmokePlan struct {
	Doc   string `json:"doc"`   // JSON document with @FRONT@ @TEST@ @ECHO@ @ECHOHOST@ placeholders
	Mode  string `json:"mode"`  // "socks" | "direct"
	NoUDP bool   `json:"noudp"` // protocol without UDP (http)
}

type SmokeResult struct {
	Stage   string `json:"stage"` // last stage reached
	LoadErr string `json:"load_err,omitempty"`
	Started bool   `json:"started"`
	TCP     bool   `json:"tcp"`
	UDP     bool   `json:"udp"`
	Stopped bool   `json:"stopped"`
	Leak    int    `json:"leak"`
	Busy    bool   `json:"busy"` // a port could not be bound: retry
	Log     string `json:"log,omitempty"`
}

func freePort() (int, error) {
	for try := 0; try < 20; try++ {
		l, err := net.Listen("tcp", "127.0.0.1:0")
		if err != nil {
			return 0, err
		}
		p := l.Addr().(*net.TCPAddr).Port
		u, err := net.ListenPacket("udp", fmt.Sprintf("127.0.0.1:%d", p))
		l.Close()
		if err != nil {
			continue
		}
		u.Close()
		return p, nil
	}
	return 0, fmt.Errorf("no free TCP+UDP port pair")
}

type syncBuf struct {
	mu sync.Mutex
	b  bytes.Buffer
}

func (s *syncBuf) Write(p []byte) (int, error) {
	s.mu.Lock()
	defer s.mu.Unlock()
	if s.b.Len() < 1<<16 {
		s.b.Write(p)
	}
	return len(p), nil
}
func (s *syncBuf) Sync() error { return nil }
func (s *syncBuf) String() string {
	s.mu.Lock()
	defer s.mu.Unlock()
	return s.b.String()
}

// smokeChild is the body of the child process: argv = smoke-child <plan file>.
func smokeChild(planPath string) {
	// belt and braces: no accepted configuration may eat the machine
	syscall.Setrlimit(syscall.RLIMIT_AS, &syscall.Rlimit{Cur: 6 << 30, Max: 6 << 30})
	var plan SmokePlan
	b, err := os.ReadFile(planPath)
	if err == nil {
		err = json.Unmarshal(b, &plan)
	}
	if err != nil {
		fmt.Fprintln(os.Stderr, "smoke-child:", err)
		os.Exit(3)
	}
	res := SmokeResult{Stage: "init"}
	out := func() {
		j, _ := json.Marshal(res)
		os.Stdout.Write(append(j, '\n'))
	}
	// echo servers
	tl, err := net.Listen("tcp", "127.0.0.1:0")
	if err != nil {
		res.Busy = true
		out()
		return
	}
	echoPort := tl.Addr().(*net.TCPAddr).Port
	ul, err := net.ListenPacket("udp", fmt.Sprintf("127.0.0.1:%d", echoPort))
	if err != nil {
		res.Busy = true
		out()
		return
	}
	go func() {
		for {
			c, err := tl.Accept()
			if err != nil {
				return
			}
			go func() { io.Copy(c, c); c.Close() }()
		}
	}()
	go func() {
		buf := make([]byte, 65536)
		for {
			n, a, err := ul.ReadFrom(buf)
			if err != nil {
				return
			}
			ul.WriteTo(buf[:n], a)
		}
	}()
	pf, err1 := freePort()
	pt, err2 := freePort()
	if err1 != nil || err2 != nil || pf == pt {
		res.Busy = true
		out()
		return
	}
	front, test, echo := fmt.Sprintf("127.0.0.1:%d", pf), fmt.Sprintf("127.0.0.1:%d", pt), fmt.Sprintf("127.0.0.1:%d", echoPort)
	doc := strings.NewReplacer("@FRONT@", front, "@TEST@", test, "@ECHO@", echo, "@ECHOHOST@", fmt.Sprintf("localhost:%d", echoPort)).Replace(plan.Doc)

	res.Stage = "load"
	sc, err := decode([]byte(doc))
	if err != nil {
		res.LoadErr = "decode: " + err.Error()
		out()
		return
	}
	logbuf := &syncBuf{}
	logger := zap.New(zapcore.NewCore(zapcore.NewConsoleEncoder(zap.NewDevelopmentEncoderConfig()), logbuf, zapcore.WarnLevel))
	base := runtime.NumGoroutine()
	m, err := sc.Manager(logger)
	if err != nil {
		res.LoadErr = err.Error()
		out()
		return
	}
	res.Stage = "start"
	ctx, cancel := context.WithCancel(context.Background())
	defer cancel()
	done := make(chan bool, 1)
	go func() { done <- m.Run(ctx) }()
	// wait until the front (or test) TCP listener answers, or Run gave up
	target := front
	if plan.Mode == "direct" {
		target = test
	}
	up := false
	for i := 0; i < 400 && !up; i++ {
		select {
		case ok := <-done:
			res.Log = logbuf.String()
			res.Busy = !ok && strings.Contains(res.Log, "address already in use")
			out()
			return
		default:
		}
		// services are started one after the other: both servers must answer
		ok := true
		for _, a := range []string{target, test} {
			c, err := net.DialTimeout("tcp", a, 200*time.Millisecond)
			if err != nil {
				ok = false
				break
			}
			c.Close()
		}
		if ok {
			up = true
		} else {
			time.Sleep(20 * time.Millisecond)
		}
	}
	if !up {
		res.Log = logbuf.String()
		out()
		cancel()
		return
	}
	res.Started = true
	res.Stage = "traffic"
	echoAddr := &net.UDPAddr{IP: net.IPv4(127, 0, 0, 1), Port: echoPort}
	if plan.Mode == "direct" {
		// every server of the configuration sees traffic: the tunnel server directly, the front server via SOCKS5
		res.TCP = tcpDirect(test) && tcpViaSocks(front, echoAddr)
		res.UDP = plan.NoUDP || (udpDirect(test) && udpViaSocks(front, echoAddr))
	} else {
		res.TCP = tcpViaSocks(front, echoAddr)
		res.UDP = plan.NoUDP || udpViaSocks(front, echoAddr)
	}
	time.Sleep(50 * time.Millisecond) // let a reply-path panic surface before we stop
	res.Stage = "stop"
	cancel()
	select {
	case <-done:
		res.Stopped = true
	case <-time.After(15 * time.Second):
	}
	m.Close()
	tl.Close()
	ul.Close()
	for i := 0; i < 60; i++ {
		if runtime.NumGoroutine() <= base+2 {
			break
		}
		time.Sleep(50 * time.Millisecond)
	}
	if n := runtime.NumGoroutine() - base - 2; n > 0 {
		res.Leak = n
	}
	res.Stage = "done"
	if !res.TCP || !res.UDP || !res.Stopped {
		res.Log = logbuf.String()
	}
	out()
}

func roundTrip(c net.Conn, payload []byte) bool {
	c.SetDeadline(time.Now().Add(5 * time.Second))
	if _, err := c.Write(payload); err != nil {
		return false
	}
	got := make([]byte, len(payload))
	if _, err := io.ReadFull(c, got); err != nil {
		return false
	}
	return bytes.Equal(got, payload)
}

func tcpDirect(addr string) bool {
	c, err := net.DialTimeout("tcp", addr, 2*time.Second)
	if err != nil {
		return false
	}
	defer c.Close()
	return roundTrip(c, []byte("c18 smoke tcp payload"))
}

func udpDirect(addr string) bool {
	c, err := net.Dial("udp", addr)
	if err != nil {
		return false
	}
	defer c.Close()
	payload := []byte("c18 smoke udp payload")
	buf := make([]byte, 2048)
	for try := 0; try < 4; try++ {
		c.Write(payload)
		c.SetReadDeadline(time.Now().Add(1500 * time.Millisecond))
		n, err := c.Read(buf)
		if err == nil && bytes.Equal(buf[:n], payload) {
			return true
		}
	}
	return false
}

func socksHello(c net.Conn) bool {
	c.SetDeadline(time.Now().Add(5 * time.Second))
	if _, err := c.Write([]byte{5, 1, 0}); err != nil {
		return false
	}
	r := make([]byte, 2)
	if _, err := io.ReadFull(c, r); err != nil || r[0] != 5 || r[1] != 0 {
		return false
	}
	return true
}

func socksReq(c net.Conn, cmd byte, a *net.UDPAddr) (*net.UDPAddr, bool) {
	req := []byte{5, cmd, 0, 1}
	if a != nil {
		req = append(req, a.IP.To4()...)
		req = binary.BigEndian.AppendUint16(req, uint16(a.Port))
	} else {
		req = append(req, 0, 0, 0, 0, 0, 0)
	}
	if _, err := c.Write(req); err != nil {
		return nil, false
	}
	h := make([]byte, 4)
	if _, err := io.ReadFull(c, h); err != nil || h[1] != 0 {
		return nil, false
	}
	var ip net.IP
	switch h[3] {
	case 1:
		ip = make([]byte, 4)
	case 4:
		ip = make([]byte, 16)
	default:
		return nil, false
	}
	if _, err := io.ReadFull(c, ip); err != nil {
		return nil, false
	}
	p := make([]byte, 2)
	if _, err := io.ReadFull(c, p); err != nil {
		return nil, false
	}
	return &net.UDPAddr{IP: ip, Port: int(binary.BigEndian.Uint16(p))}, true
}

func tcpViaSocks(front string, echo *net.UDPAddr) bool {
	c, err := net.DialTimeout("tcp", front, 2*time.Second)
	if err != nil {
		return false
	}
	defer c.Close()
	if !socksHello(c) {
		return false
	}
	if _, ok := socksReq(c, 1, echo); !ok {
		return false
	}
	return roundTrip(c, []byte("c18 smoke tcp payload via socks5"))
}

func udpViaSocks(front string, echo *net.UDPAddr) bool {
	c, err := net.DialTimeout("tcp", front, 2*time.Second)
	if err != nil {
		return false
	}
	defer c.Close()
	if !socksHello(c) {
		return false
	}
	bound, ok := socksReq(c, 3, nil)
	if !ok {
		return false
	}
	if bound.IP.IsUnspecified() {
		bound.IP = net.IPv4(127, 0, 0, 1)
	}
	u, err := net.DialUDP("udp", nil, bound)
	if err != nil {
		return false
	}
	defer u.Close()
	payload := []byte("c18 smoke udp payload via socks5")
	pkt := append([]byte{0, 0, 0, 1}, echo.IP.To4()...)
	pkt = binary.BigEndian.AppendUint16(pkt, uint16(echo.Port))
	hdr := len(pkt)
	pkt = append(pkt, payload...)
	buf := make([]byte, 2048)
	for try := 0; try < 4; try++ {
		u.Write(pkt)
		u.SetReadDeadline(time.Now().Add(1500 * time.Millisecond))
		n, err := u.Read(buf)
		if err == nil && n >= hdr && bytes.Equal(buf[hdr:n], payload) {
			return true
		}
	}
	return false
}

// ---------- parent side ----------

type SmokeOutcome struct {
	Result  *SmokeResult `json:"result,omitempty"`
	Crashed bool         `json:"crashed"`
	Exit    int          `json:"exit"`
	Panic   string       `json:"panic,omitempty"` // first line of the panic + first /repo frame
	Timeout bool         `json:"timeout,omitempty"`
}

var rePanicSite = regexp.MustCompile(`(?m)^(github\.com/database64128/shadowsocks-go/\S+)\(`)

// runSmoke runs the plan in a child (re-tried when a port was taken).
func runSmoke(plan SmokePlan, tmp string) SmokeOutcome {
	f, err := os.CreateTemp(tmp, "plan-*.json")
	if err != nil {
		return SmokeOutcome{Exit: -1, Panic: err.Error()}
	}
	b, _ := json.Marshal(plan)
	f.Write(b)
	f.Close()
	defer os.Remove(f.Name())
	var o SmokeOutcome
	for try := 0; try < 4; try++ {
		o = SmokeOutcome{}
		ctx, cancel := context.WithTimeout(context.Background(), 60*time.Second)
		cmd := exec.CommandContext(ctx, os.Args[0], "smoke-child", f.Name())
		cmd.Env = append(os.Environ(), "GOMEMLIMIT=2GiB", "GOTRACEBACK=all")
		var so, se bytes.Buffer
		cmd.Stdout, cmd.Stderr = &so, &se
		err := cmd.Run()
		timedOut := ctx.Err() != nil
		cancel()
		if so.Len() > 0 {
			var r SmokeResult
			if json.Unmarshal(bytes.TrimSpace(so.Bytes()), &r) == nil {
				o.Result = &r
			}
		}
		if err != nil {
			o.Crashed = true
			o.Timeout = timedOut
			if ee, ok := err.(*exec.ExitError); ok {
				o.Exit = ee.ExitCode()
			} else {
				o.Exit = -1
			}
			txt := se.String()
			if i := strings.Index(txt, "panic: "); i >= 0 {
				line := txt[i:]
				if j := strings.IndexByte(line, '\n'); j >= 0 {
					line = line[:j]
				}
				o.Panic = line
				if m := rePanicSite.FindStringSubmatch(txt[i:]); m != nil {
					o.Panic += " @ " + strings.TrimPrefix(m[1], "github.com/database64128/shadowsocks-go/")
				}
			} else if i := strings.Index(txt, "fatal error: "); i >= 0 {
				line := txt[i:]
				if j := strings.IndexByte(line, '\n'); j >= 0 {
					line = line[:j]
				}
				o.Panic = line
			} else if len(txt) > 300 {
				o.Panic = txt[:300]
			} else {
				o.Panic = txt
			}
			return o
		}
		if o.Result != nil && o.Result.Busy {
			continue
		}
		return o
	}
	return o
}

// ---------- smoke configurations ----------

var smokeProtos = []string{"direct", "socks5", "none", "plain", "http", "2022-blake3-aes-128-gcm", "2022-blake3-aes-256-gcm", "2022-blake3-aes-128-gcm"}

// genSmoke builds an ACCEPTABLE configuration of the smoke topology whose options under test sit at
// the accepted side of the boundaries (the load comparison runs on it as on any other case).
func genSmoke(r *common.Rng) (ConfigC, SmokePlan) {
	p := common.Pick(r, smokeProtos)
	ss := isSS(p)
	var c ConfigC
	plan := SmokePlan{Mode: "socks"}
	front := ServerC{Name: "front", Proto: "socks5", MTU: 1500, Listen: "@FRONT@", TL: []TLc{{Net: "tcp"}}, UL: []ULc{{Net: "udp"}}}
	test := ServerC{Name: "test", Proto: p, Listen: "@TEST@", MTU: common.Pick(r, []int{1280, 1492, 1500, 9000})}
	udp := p != "http"
	plan.NoUDP = !udp
	legacy := r.Intn(3)
	if legacy == 0 {
		test.ETCP = true
	} else {
		test.TL = []TLc{{Net: common.Pick(r, []string{"tcp", "tcp4"})}}
		if r.Chance(1, 3) {
			test.TL[0].WT, test.TL[0].WB = common.Pick(r, []int64{1000000, 250000000}), common.Pick(r, []int{1, 1440, 65536})
		}
	}
	if udp {
		nat := okNatAny
		natSec := []int{0, 1, 59, 60, 300}
		if ss {
			nat, natSec = okNatSS, okNatSecSS
		}
		bm := common.Pick(r, batchModes)
		rb, sb, cc := common.Pick(r, []int{0, 1, 8, 1024}), common.Pick(r, []int{0, 1, 64, 1024}), common.Pick(r, []int{0, 64, 65, 1024})
		if legacy == 0 {
			test.EUDP, test.UBM, test.URB, test.USB, test.UCC, test.NatSec = true, bm, rb, sb, cc, common.Pick(r, natSec)
		} else {
			test.UL = []ULc{{Net: common.Pick(r, []string{"udp", "udp4"}), BM: bm, RB: rb, SB: sb, CC: cc, Nat: common.Pick(r, nat)}}
		}
	}
	out := ClientC{Name: "out", Proto: "direct", ETCP: true, EUDP: true, MTU: 1500}
	c.Clients = []ClientC{out}
	if p == "direct" {
		plan.Mode = "direct"
		test.Tun, test.TunTo = "ip", "@ECHO@"
		if r.Chance(1, 3) {
			test.Tun, test.TunTo = "domain", "@ECHOHOST@"
			c.Clients[0].Net = "ip4" // the echo servers listen on 127.0.0.1 only
		} else {
			test.TOnly = r.Bool()
		}
	} else {
		via := ClientC{Name: "via", Proto: p, EP: true, Addr: "@TEST@", ETCP: true, EUDP: udp, Net: common.Pick(r, []string{"", "ip", "ip4"})}
		if r.Bool() { // split-address form: one address per enabled network
			via.EP, via.TA, via.UA = false, true, udp
		}
		if udp {
			via.MTU = common.Pick(r, []int{1280, 1500})
		}
		if ss {
			test.PSK, via.PSK = keyLen(p), keyLen(p)
			test.Pad, test.Rej, via.Pad = pickPolicy(r, padNames), pickPolicy(r, rejNames), pickPolicy(r, padNames)
			test.FS, via.FS = common.Pick(r, []uint64{0, 1, 64, 256, 1 << 20}), common.Pick(r, []uint64{0, 1, 256, 1 << 20})
		}
		c.Clients = append(c.Clients, via)
		rt := RouteC{Name: "front-to-test", Cl: "via", FS: []string{"front"}}
		if !udp {
			rt.Net = "tcp"
		}
		c.Router.Routes = []RouteC{rt}
	}
	// a route evaluated for requests from every server (fromServers + fromUsers), never matching
	c.Router.Routes = append(c.Router.Routes, RouteC{Name: "nobody-on-test", Cl: "reject", FS: []string{"test"}, FU: []string{"nobody"}})
	c.Router.DT, c.Router.DU = "out", "out"
	c.Servers = []ServerC{front, test}
	// names: unnamed / case and white-space variants of the other server's name (distinct names, must work)
	switch r.Intn(6) {
	case 0:
		renameServer(&c, "test", "")
	case 1:
		renameServer(&c, "front", "")
	case 2:
		renameServer(&c, "test", "Front")
	case 3:
		renameServer(&c, "test", "front ")
	}
	if r.Chance(1, 4) {
		c.Servers[0], c.Servers[1] = c.Servers[1], c.Servers[0] // the server under test first: other indices
	}
	plan.Doc = smokeDoc(c)
	return c, plan
}

func renameServer(c *ConfigC, old, new string) {
	for i := range c.Servers {
		if c.Servers[i].Name == old {
			c.Servers[i].Name = new
		}
	}
	renameRefs(c, "server", old, new)
}

// keysMustMatch: the via client and the test server must share the PSK; JSON() derives keys from the
// index, so the smoke configurations override both with the same bytes here.
func smokeDoc(c ConfigC) string {
	doc := string(c.JSON("/nonexistent"))
	// the server listening on @TEST@ (index i) uses key seed 16+i, client index 1 ("via") uses seed 64+1: rewrite the client's key
	for i, s := range c.Servers {
		if s.Listen == "@TEST@" {
			for _, n := range []int{16, 32} {
				doc = strings.ReplaceAll(doc, key(n, 65), key(n, byte(16+i)))
			}
		}
	}
	return doc
}
