// gen_c08: regenerates lean/SSV/Gen/C08.lean from /repo: the step programs of the four
// cred.ManagedServer operations (AddCredential, UpdateCredential, DeleteCredential, LoadFromFile),
// extracted statement by statement in source order, plus shape checks of the helpers the model
// gives a fixed meaning to (updateProdULM, enqueueSave, ss2022.CredStore, the identity-header
// lookup of HandleStream / NewUnpacker). Any statement that is not recognised aborts the
// generation (GEN-BROKEN): the tie between the model and the source is then broken.
package main

import (
	"fmt"
	"go/ast"
	"go/parser"
	"go/printer"
	"go/token"
	"os"
	"path/filepath"
	"strings"

	"ssvharness/internal/gen"
)

// synPkg is a syntax-only view of a package directory (this extractor matches statement text and
// needs no type information; skipping the type-check of the dependency closure keeps Gen at well under a second).
type synPkg struct {
	Dir   string
	fset  *token.FileSet
	files []*ast.File
}

func loadSyntax(repo, dir string) (*synPkg, error) {
	p := &synPkg{Dir: dir, fset: token.NewFileSet()}
	ents, err := os.ReadDir(filepath.Join(repo, dir))
	if err != nil {
		return nil, err
	}
	for _, e := range ents {
		n := e.Name()
		if !strings.HasSuffix(n, ".go") || strings.HasSuffix(n, "_test.go") {
			continue
		}
		f, err := parser.ParseFile(p.fset, filepath.Join(repo, dir, n), nil, parser.SkipObjectResolution)
		if err != nil {
			return nil, err
		}
		p.files = append(p.files, f)
	}
	return p, nil
}

// Src prints a node on one line (canonical gofmt form, whitespace collapsed).
func (p *synPkg) Src(n ast.Node) string {
	var sb strings.Builder
	printer.Fprint(&sb, p.fset, n)
	return strings.Join(strings.Fields(sb.String()), " ")
}

// Func finds a function or method declaration; it must be unique in the package.
func (p *synPkg) Func(recv, name string) (*ast.FuncDecl, error) {
	var found *ast.FuncDecl
	for _, f := range p.files {
		for _, d := range f.Decls {
			fd, ok := d.(*ast.FuncDecl)
			if !ok || fd.Name.Name != name {
				continue
			}
			match := recv == "" && fd.Recv == nil
			if recv != "" && fd.Recv != nil && len(fd.Recv.List) == 1 {
				match = strings.TrimPrefix(p.Src(fd.Recv.List[0].Type), "*") == strings.TrimPrefix(recv, "*")
			}
			if match {
				if found != nil {
					return nil, fmt.Errorf("%s: function %s.%s declared more than once (build-tagged variants?)", p.Dir, recv, name)
				}
				found = fd
			}
		}
	}
	if found == nil {
		return nil, fmt.Errorf("%s: function %s.%s not found", p.Dir, recv, name)
	}
	return found, nil
}

const stepVocabulary = `/-- step vocabulary of the cred.ManagedServer operations (one constructor per recognised Go statement shape) -/
inductive Step where
  | guardName | guardLen | lock | unlock
  | guardAbsent | loadUc | guardPresent | guardKeyDiffers
  | hashKey | guardHashFree | mkConfig | guardConfigOk | mkCred
  | cacheSet | saveOldHash | cacheUpdKey | cacheDel
  | lookupSet | lookupDelOld | lookupDelUc
  | liveSet | liveDelOldSet | liveDelUc
  | enqueueSave | ret
  | readFile | deferClose | guardChanged | guardChangedLoaded | decode | guardDecodeOk | buildMaps
  | setCachedContent | setLookup | setCache
  | liveReplaceTcpLocal | liveReplaceUdpLocal | liveReplaceTcpShared | liveReplaceUdpShared
deriving DecidableEq, Repr
open Step
`

// plain statements: normalised source text -> step ("" = recognised, contributes no step)
var plain = map[string]string{
	"s.mu.Lock()":                      "lock",
	"s.mu.Unlock()":                    "unlock",
	"s.enqueueSave()":                  "enqueueSave",
	"return nil":                       "ret",
	"defer close()":                    "deferClose",
	"uPSKHash := ss2022.PSKHash(uPSK)": "hashKey",
	"c, err := ss2022.NewServerUserCipherConfig(username, uPSK, s.udp != nil)":                          "mkConfig",
	"uc := &cachedUserCredential{ uPSK: uPSK, uPSKHash: uPSKHash, }":                                    "mkCred",
	"uc := &cachedUserCredential{ uPSK: uPSK, uPSKHash: ss2022.PSKHash(uPSK), }":                        "mkCred",
	"s.cachedCredMap[username] = uc":                                                                    "cacheSet",
	"s.cachedUserLookupMap[uc.uPSKHash] = c":                                                            "lookupSet",
	"uc := s.cachedCredMap[username]":                                                                   "loadUc",
	"oldUPSKHash := uc.uPSKHash":                                                                        "saveOldHash",
	"uc.uPSK = uPSK":                                                                                    "cacheUpdKey",
	"uc.uPSKHash = uPSKHash":                                                                            "", // second half of cacheUpdKey (checked to follow it)
	"uc.uPSKHash = ss2022.PSKHash(uPSK)":                                                                "",
	"delete(s.cachedUserLookupMap, oldUPSKHash)":                                                        "lookupDelOld",
	"delete(s.cachedCredMap, username)":                                                                 "cacheDel",
	"delete(s.cachedUserLookupMap, uc.uPSKHash)":                                                        "lookupDelUc",
	"s.updateProdULM(func(ulm ss2022.UserLookupMap) { ulm[uc.uPSKHash] = c })":                          "liveSet",
	"s.updateProdULM(func(ulm ss2022.UserLookupMap) { delete(ulm, oldUPSKHash) ulm[uc.uPSKHash] = c })": "liveDelOldSet",
	"s.updateProdULM(func(ulm ss2022.UserLookupMap) { delete(ulm, uc.uPSKHash) })":                      "liveDelUc",
	// LoadFromFile
	"content, close, err := mmap.ReadFile[string](s.path)":                              "readFile",
	"r := strings.NewReader(content)":                                                   "",
	"d := json.NewDecoder(r)":                                                           "",
	"d.DisallowUnknownFields()":                                                         "",
	"var uPSKMap map[string][]byte":                                                     "",
	"userLookupMap := make(ss2022.UserLookupMap, len(uPSKMap))":                         "",
	"credMap := make(map[string]*cachedUserCredential, len(uPSKMap))":                   "",
	"s.cachedContent = strings.Clone(content)":                                          "setCachedContent",
	"s.cachedUserLookupMap = userLookupMap":                                             "setLookup",
	"s.cachedCredMap = credMap":                                                         "setCache",
	"if s.tcp != nil { s.tcp.ReplaceUserLookupMap(maps.Clone(userLookupMap)) }":         "liveReplaceTcpLocal",
	"if s.udp != nil { s.udp.ReplaceUserLookupMap(maps.Clone(userLookupMap)) }":         "liveReplaceUdpLocal",
	"if s.tcp != nil { s.tcp.ReplaceUserLookupMap(maps.Clone(s.cachedUserLookupMap)) }": "liveReplaceTcpShared",
	"if s.udp != nil { s.udp.ReplaceUserLookupMap(maps.Clone(s.cachedUserLookupMap)) }": "liveReplaceUdpShared",
}

// guards: `if <header> { [s.mu.Unlock()] return <non-nil> }`
var guards = map[string]string{
	`username == ""`:                               "guardName",
	"len(uPSK) != s.pskLength":                     "guardLen",
	"s.cachedCredMap[username] != nil":             "guardAbsent",
	"uc == nil":                                    "guardPresent",
	"bytes.Equal(uc.uPSK, uPSK)":                   "guardKeyDiffers",
	"c, ok := s.cachedUserLookupMap[uPSKHash]; ok": "guardHashFree",
	"err = d.Decode(&uPSKMap); err != nil":         "decode,guardDecodeOk",
}

// the validation loop of LoadFromFile (meaning: Model.Cred.build)
const loadLoop = "for username, uPSK := range uPSKMap { " +
	"if len(uPSK) != s.pskLength { s.mu.Unlock() return &ss2022.PSKLengthError{PSK: uPSK, ExpectedLength: s.pskLength} } " +
	"uPSKHash := ss2022.PSKHash(uPSK) " +
	"c, ok := userLookupMap[uPSKHash] " +
	"if ok { s.mu.Unlock() return fmt.Errorf(\"duplicate uPSK for user %s and %s\", c.Name, username) } " +
	"c, err := ss2022.NewServerUserCipherConfig(username, uPSK, s.udp != nil) " +
	"if err != nil { s.mu.Unlock() return err } " +
	"userLookupMap[uPSKHash] = c " +
	"credMap[username] = &cachedUserCredential{uPSK, uPSKHash} }"

func extract(p *synPkg, name string) ([]string, error) {
	fd, err := p.Func("*ManagedServer", name)
	if err != nil {
		return nil, err
	}
	var steps []string
	locked := false
	prev := ""
	fail := func(st ast.Stmt, why string) error {
		return fmt.Errorf("cred.%s: unrecognised statement (%s): %s", name, why, p.Src(st))
	}
	for _, st := range fd.Body.List {
		src := p.Src(st)
		if step, ok := plain[src]; ok {
			switch {
			case step == "lock":
				if locked {
					return nil, fail(st, "lock while locked")
				}
				locked = true
			case step == "unlock":
				if !locked {
					return nil, fail(st, "unlock while not locked")
				}
				locked = false
			case step == "" && strings.HasPrefix(src, "uc.uPSKHash = "):
				if prev != "cacheUpdKey" {
					return nil, fail(st, "hash field assigned away from the key field")
				}
			}
			if step != "" {
				steps = append(steps, step)
			}
			if step != "" || !strings.HasPrefix(src, "uc.uPSKHash = ") {
				prev = step
			}
			continue
		}
		if src == loadLoop {
			if !locked {
				return nil, fail(st, "validation loop outside the lock")
			}
			steps = append(steps, "buildMaps")
			prev = "buildMaps"
			continue
		}
		ifs, ok := st.(*ast.IfStmt)
		if !ok || ifs.Else != nil {
			return nil, fail(st, "no such shape")
		}
		header := p.Src(ifs.Cond)
		if ifs.Init != nil {
			header = p.Src(ifs.Init) + "; " + header
		}
		body := ifs.Body.List
		// the unlock-and-return body
		if locked {
			if len(body) != 2 || p.Src(body[0]) != "s.mu.Unlock()" {
				return nil, fail(st, "early return inside the lock must unlock first")
			}
			body = body[1:]
		}
		if len(body) != 1 {
			return nil, fail(st, "guard body")
		}
		ret, ok := body[0].(*ast.ReturnStmt)
		if !ok || len(ret.Results) != 1 {
			return nil, fail(st, "guard body is not a return")
		}
		retNil := p.Src(ret.Results[0]) == "nil"
		switch {
		case header == "content == s.cachedContent" || header == "s.cachedCredMap != nil && content == s.cachedContent":
			if !retNil || !locked {
				return nil, fail(st, "unchanged-content guard")
			}
			g := "guardChanged"
			if strings.HasPrefix(header, "s.cachedCredMap != nil") {
				g = "guardChangedLoaded"
			}
			steps = append(steps, g)
			prev = g
		case header == "err != nil" && prev == "mkConfig":
			if retNil {
				return nil, fail(st, "error swallowed")
			}
			steps = append(steps, "guardConfigOk")
			prev = "guardConfigOk"
		case header == "err != nil" && prev == "readFile":
			if retNil {
				return nil, fail(st, "error swallowed")
			}
			// part of readFile
		default:
			g, ok := guards[header]
			if !ok {
				return nil, fail(st, "unknown guard")
			}
			if retNil {
				return nil, fail(st, "guard returns nil")
			}
			steps = append(steps, strings.Split(g, ",")...)
			prev = g
		}
	}
	if locked {
		return nil, fmt.Errorf("cred.%s: returns with the lock held", name)
	}
	if len(steps) == 0 || steps[len(steps)-1] != "ret" {
		return nil, fmt.Errorf("cred.%s: does not end in `return nil`", name)
	}
	return steps, nil
}

func bodyIs(p *synPkg, recv, name, want string) error {
	fd, err := p.Func(recv, name)
	if err != nil {
		return err
	}
	if got := p.Src(fd.Body); got != want {
		return fmt.Errorf("%s.%s.%s: body changed: %s", p.Dir, recv, name, got)
	}
	return nil
}

// containsSeq checks that the function's source contains the given normalised fragment.
func containsSeq(p *synPkg, recv, name, frag string) error {
	fd, err := p.Func(recv, name)
	if err != nil {
		return err
	}
	if !strings.Contains(p.Src(fd.Body), frag) {
		return fmt.Errorf("%s.%s.%s: identity-header lookup changed (expected: %s)", p.Dir, recv, name, frag)
	}
	return nil
}

func main() {
	gen.Main("C08", func(c *gen.Ctx, l *gen.Lean) error {
		p, err := loadSyntax(c.Repo, "cred")
		if err != nil {
			return err
		}
		l.Raw(stepVocabulary)
		for _, f := range [][2]string{{"addProg", "AddCredential"}, {"updateProg", "UpdateCredential"}, {"deleteProg", "DeleteCredential"}, {"loadProg", "LoadFromFile"}} {
			steps, err := extract(p, f[1])
			if err != nil {
				return err
			}
			l.Raw(fmt.Sprintf("/-- cred/manager.go (*ManagedServer).%s -/\ndef %s : List Step := [%s]\n", f[1], f[0], strings.Join(steps, ", ")))
		}
		// helpers with a fixed meaning in the model
		if err := bodyIs(p, "*ManagedServer", "updateProdULM", "{ if s.tcp != nil { s.tcp.UpdateUserLookupMap(f) } if s.udp != nil { s.udp.UpdateUserLookupMap(f) } }"); err != nil {
			return err
		}
		if err := bodyIs(p, "*ManagedServer", "enqueueSave", "{ select { case s.saveQueue <- struct{}{}: default: } }"); err != nil {
			return err
		}
		if err := containsSeq(p, "*Manager", "RegisterServer", "if err := s.LoadFromFile(); err != nil { return nil, fmt.Errorf(\"failed to load credentials for server %s: %w\", name, err) }"); err != nil {
			return err
		}
		q, err := loadSyntax(c.Repo, "ss2022")
		if err != nil {
			return err
		}
		if err := bodyIs(q, "*CredStore", "LookupUser", "{ s.mu.RLock() c, ok := s.ulm[uPSKHash] s.mu.RUnlock() return c, ok }"); err != nil {
			return err
		}
		if err := bodyIs(q, "*CredStore", "UpdateUserLookupMap", "{ s.mu.Lock() f(s.ulm) s.mu.Unlock() }"); err != nil {
			return err
		}
		if err := bodyIs(q, "*CredStore", "ReplaceUserLookupMap", "{ s.mu.Lock() s.ulm = ulm s.mu.Unlock() }"); err != nil {
			return err
		}
		// identity-header path: the looked-up entry supplies both the session PSK and the username
		if err := containsSeq(q, "*StreamServer", "HandleStream",
			"serverUserCipherConfig, ok := s.CredStore.LookupUser([IdentityHeaderLength]byte(reserved)) if !ok { err = ErrIdentityHeaderUserPSKNotFound return } userCipherConfig = serverUserCipherConfig.UserCipherConfig req.Username = serverUserCipherConfig.Name } shadowStreamCipher, err := userCipherConfig.ShadowStreamCipher(salt)"); err != nil {
			return err
		}
		if err := containsSeq(q, "*UDPServer", "NewUnpacker",
			"serverUserCipherConfig, ok := s.CredStore.LookupUser(uPSKHash) if !ok { return nil, \"\", ErrIdentityHeaderUserPSKNotFound } userCipherConfig = serverUserCipherConfig.UserCipherConfig username = serverUserCipherConfig.Name } aead, err := userCipherConfig.AEAD(b[:8])"); err != nil {
			return err
		}
		// the deferred unsafe-fallback branch of HandleStream: the connection did not authenticate; does it hand back a
		// FRESH request (no username), or does it keep the named result, whose Username the identity lookup already set?
		hs, err := q.Func("*StreamServer", "HandleStream")
		if err != nil {
			return err
		}
		hsSrc := q.Src(hs.Body)
		const freshFallback = "if n > 0 && s.unsafeFallbackAddr.IsValid() { logger.Warn(\"Initiating fallback for unauthenticated connection\", zap.Error(err)) req = netio.ConnRequest{ PendingConn: netio.NopPendingConn(rawRW), Addr: s.unsafeFallbackAddr, Payload: readBuf[:n], } err = nil return }"
		switch {
		case strings.Count(hsSrc, "s.unsafeFallbackAddr") != 2 || strings.Count(hsSrc, "req.Username") != 1:
			return fmt.Errorf("ss2022.(*StreamServer).HandleStream: fallback / username handling changed shape")
		case strings.Contains(hsSrc, freshFallback):
			l.BoolDef("fallbackFreshRequest", true, "ss2022.(*StreamServer).HandleStream: the fallback branch assigns a fresh netio.ConnRequest literal without Username")
		default:
			l.BoolDef("fallbackFreshRequest", false, "ss2022.(*StreamServer).HandleStream: the fallback branch does NOT replace the named result by a fresh request")
		}
		if err := bodyIs(q, "", "NewServerUserCipherConfig", "{ c.UserCipherConfig, err = NewUserCipherConfig(psk, enableUDP) c.Name = name return }"); err != nil {
			return err
		}
		l.Comment("shape checks passed: updateProdULM, enqueueSave, RegisterServer->LoadFromFile, ss2022.CredStore.{LookupUser,UpdateUserLookupMap,ReplaceUserLookupMap},")
		l.Comment("identity-header lookup in ss2022.(*StreamServer).HandleStream and ss2022.(*UDPServer).NewUnpacker, NewServerUserCipherConfig")
		return nil
	})
}
