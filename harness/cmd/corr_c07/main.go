// corr_c07: correspondence + property oracle for C07 (SOCKS5, HTTP CONNECT and Shadowsocks-none handshakes).
//
// Engine "handshake": the real socks5 / httpproxy / ssnone servers and clients run over a scripted
// connection (the peer's bytes delivered in every kind of fragmentation, early data included) against the
// Lean model (SSV.Model.Handshake through the ssv_c07 driver); compared: class of the outcome, extracted
// address, user name, every byte written, and the byte stream readable after Proceed().
// The oracle is written from the property statement: what the server extracts == what the client asked,
// wrong credentials are refused, the reply reports the dial outcome, nothing sent behind the handshake is lost.
package main

import (
	"context"
	"encoding/json"
	"fmt"
	"os"
	"runtime"
	"strings"

	"ssvharness/internal/common"
)

type ctxT = context.Context

func bg() context.Context { return context.Background() }

type result struct {
	line string // canonical output of the implementation (same format as the driver's)
	key  string // oracle failure key ("" = passes)
	det  string
	nt   bool   // non-trivial case
	bkt  string // distribution bucket
	skip bool   // configuration rejected / outside the model: not compared
}

// evalInter runs the connections of an interleaved case inside one process, one at a time, in the scripted
// order of turns; a turn lasts until the connection's next yield point (handshake done / after a tunnel read).
func evalInter(c Case) (res result, subs []result) {
	if c.Pin {
		defer runtime.GOMAXPROCS(runtime.GOMAXPROCS(1))
	}
	n := len(c.Sub)
	subs = make([]result, n)
	ys := make([]*yielder, n)
	cache := map[string]any{}
	for i := range c.Sub {
		y := &yielder{turn: make(chan struct{}), back: make(chan struct{}), cache: cache}
		ys[i] = y
		sub := c.Sub[i]
		sub.y = y
		go func(i int) {
			<-y.turn
			subs[i] = evalImpl(sub)
			y.done = true
			y.back <- struct{}{}
		}(i)
	}
	step := func(i int) {
		if i < 0 || i >= n || ys[i].done {
			return
		}
		ys[i].turn <- struct{}{}
		<-ys[i].back
	}
	for _, i := range c.Order {
		step(i)
	}
	for i := 0; i < n; i++ {
		for !ys[i].done {
			step(i)
		}
	}
	var ls []string
	res.bkt = fmt.Sprintf("interleaved:k=%d", n)
	for i, r := range subs {
		if r.skip {
			ls = append(ls, "skip")
		} else {
			ls = append(ls, r.line)
		}
		res.nt = res.nt || r.nt
		if r.key != "" && res.key == "" {
			res.key = "interleaved:" + r.key
			res.det = fmt.Sprintf("connection %d of %d (%s), turns %v, pin=%v: %s", i, n, c.Sub[i].Kind, c.Order, c.Pin, r.det)
		}
	}
	res.line = strings.Join(ls, " | ")
	return
}

func evalImpl(c Case) (res result) {
	if c.Kind == "inter" {
		res, _ = evalInter(c)
		return
	}
	pan := common.Safely(func() {
		switch c.Kind {
		case "s5s":
			o, cfgErr := runS5S(c)
			if cfgErr != nil {
				res.skip, res.bkt = true, "s5s:config-rejected"
				return
			}
			res.line = o.lineS()
			res.bkt = "s5s:" + strings.SplitN(o.class, ":", 2)[0]
			res.nt = o.class == "ok" || o.class == "badcreds" || o.class == "udp"
			if c.Intent != nil {
				res.key, res.det = oracleS5S(c, o)
			}
		case "s5c":
			res.line = runS5C(c)
			res.bkt = "s5c:" + strings.SplitN(strings.Fields(res.line)[0], ":", 3)[0]
			res.nt = strings.HasPrefix(res.line, "ok")
			res.key, res.det = oracleS5C(c, res.line)
		case "nones":
			o := runNoneS(c)
			res.line = o.lineNone()
			res.bkt = "nones:" + strings.SplitN(o.class, ":", 2)[0]
			res.nt = o.class == "ok"
			if c.Intent != nil {
				res.key, res.det = oracleNone(c, o)
			}
		case "nonec":
			res.line = runNoneC(c)
			res.bkt = "nonec"
			res.nt = true
		case "reply":
			res.line = fmt.Sprint(implReply(c.Code))
			res.bkt = "reply"
			res.nt = true
			if implReply(c.Code) != int(rfcReply(c.Code)) {
				res.key, res.det = "socks5-reply-code", fmt.Sprintf("dial result %d must be reported as reply %d, ReplyFromDialResultCode gives %d", c.Code, rfcReply(c.Code), implReply(c.Code))
			}
		case "mkaddr":
			// a well-formed address (domain 1..255 bytes) that the code refuses to represent / encode
			res.skip, res.bkt = true, "address-refused"
			if _, err := c.Addr.connAddr(); err != nil || c.Probe != "" {
				res.key, res.det = "address-refused", fmt.Sprintf("well-formed address %v (domain of %d bytes) refused: %s", c.Addr, len(c.Addr.Host)/2, c.Probe)
			}
		case "https":
			res = evalHTTPS(c)
		case "httpc":
			res = evalHTTPC(c)
		default:
			res.skip = true
		}
	})
	if pan != nil {
		res.line = fmt.Sprintf("PANIC %v", pan)
		res.key, res.det = "panic:"+c.Kind, fmt.Sprint(pan)
	}
	return
}

func sig(c Case) string {
	b, _ := json.Marshal(struct {
		K  string
		A  bool
		T  bool
		U  bool
		Us []User
		Ch []string
		Ac string
		M  string
		C  int
		Ad A
		P  string
	}{c.Kind, c.Auth, c.TCP, c.UDP, c.Users, c.Chunks, c.Act, c.AuthMsg, c.Cmd, c.Addr, c.Payload})
	if c.Kind == "inter" {
		x := fmt.Sprint(c.Order, c.Pin)
		for _, sc := range c.Sub {
			x += sig(sc)
		}
		return x
	}
	return string(b)
}

type engine struct {
	o      *common.Options
	rep    *common.Report
	oom    int
	cmp    int
	probed map[string]bool
}

func (e *engine) eval(cases []Case) error {
	if len(cases) == 0 {
		return nil
	}
	var model []string
	if e.o.Driver != "" {
		var lines []string
		for _, c := range cases {
			if c.Kind == "inter" {
				for _, sc := range c.Sub {
					lines = append(lines, sc.line())
				}
			} else {
				lines = append(lines, c.line())
			}
		}
		raw, err := common.RunDriverOnce(e.o.Driver, lines)
		if err != nil {
			return err
		}
		// the model treats connections as independent: an interleaved case is the tuple of its connections' answers
		pos := 0
		for _, c := range cases {
			if c.Kind == "inter" {
				model = append(model, strings.Join(raw[pos:pos+len(c.Sub)], " | "))
				pos += len(c.Sub)
			} else {
				model = append(model, raw[pos])
				pos++
			}
		}
	}
	for i, c := range cases {
		var res result
		if c.Kind == "inter" {
			var subs []result
			res, subs = evalInter(c)
			if model != nil { // mask connections that are not compared (rejected configuration / outside the HTTP grammar)
				ms := strings.Split(model[i], " | ")
				is := strings.Split(res.line, " | ")
				for k := range subs {
					if k < len(ms) && k < len(is) && (subs[k].skip || strings.HasPrefix(ms[k], "err:oom")) {
						ms[k], is[k] = "skip", "skip"
					}
				}
				model[i], res.line = strings.Join(ms, " | "), strings.Join(is, " | ")
			}
		} else {
			res = evalImpl(c)
		}
		e.rep.Case(sig(c), res.nt)
		e.rep.Count(res.bkt)
		if i%97 == 0 {
			e.rep.Sample(map[string]any{"case": shorten(c), "impl": clip(res.line)})
		}
		if strings.HasPrefix(c.Probe, "f5-") {
			e.probed[f5Key] = e.probed[f5Key] || res.key == f5Key
		}
		if res.key != "" {
			e.rep.Fail(common.OracleFailure{Engine: "handshake", Key: res.key, Case: c, Detail: res.det})
		}
		if res.skip {
			continue
		}
		if model != nil {
			m := model[i]
			switch {
			case strings.HasPrefix(m, "err:oom"):
				e.oom++
				e.rep.Count("outside-http-grammar(not compared)")
			case m != res.line:
				e.rep.Diverge(common.Divergence{Engine: "handshake", Case: c, Impl: res.line, Model: m})
			default:
				e.cmp++
			}
		}
		e.rep.TracesValidated++
	}
	return nil
}

func clip(s string) string {
	if len(s) > 300 {
		return s[:300] + "…"
	}
	return s
}

func shorten(c Case) Case {
	for i, ch := range c.Chunks {
		if len(ch) > 120 {
			c.Chunks = append([]string(nil), c.Chunks...)
			c.Chunks[i] = ch[:120] + "…"
		}
	}
	return c
}

func main() {
	o := common.ParseFlags()
	rep := common.NewReport("C07", o)
	rep.Engines = []string{"handshake"}
	rep.Rule = "engine handshake: real socks5 StreamServer/AuthStreamServer.HandleStream, socks5.ClientRequest*, httpproxy ProxyServer.HandleStream / ClientConnect, ssnone client+server " +
		"over a scripted connection; the peer's bytes = the real client's output (or harness-encoded, or mutated) ++ early data, cut by 8 fragmentation strategies " +
		"(one segment, byte-wise, writer's chunks, boundaries±1, random, head|early±2, …) plus every fragmentation of short handshakes; addresses: v4/v6/4in6/domain lengths {1,2,…,254,255} all byte values, " +
		"ports {0,1,255,256,65535,…}; credentials 1..255 bytes incl. near misses; method lists 1..255; all 256 dial result codes; " +
		"a case is non-trivial if the handshake reaches a decision about a request (accepted / refused credentials / UDP handled / client got the reply); distinct by full input"
	e := &engine{o: o, rep: rep, probed: map[string]bool{}}
	var err error
	if o.Replay != "" {
		var c Case
		if err = common.LoadReplay(o.Replay, &c); err == nil {
			err = e.eval([]Case{c})
		}
	} else {
		err = e.runAll()
	}
	if e.o.Driver != "" {
		rep.Note("compared with the model: %d cases; outside the modelled HTTP grammar (run, oracle applied, not compared): %d", e.cmp, e.oom)
	}
	if err != nil {
		fmt.Fprintln(os.Stderr, "corr_c07:", err)
		rep.Note("engine error: %v", err)
		rep.Write(o.Out)
		os.Exit(3)
	}
	if err := rep.Write(o.Out); err != nil {
		fmt.Fprintln(os.Stderr, err)
		os.Exit(3)
	}
}

func (e *engine) runAll() error {
	o := e.o
	r := common.NewRng(o.Seed)
	var batch []Case
	flush := func() error {
		err := e.eval(batch)
		batch = batch[:0]
		return err
	}
	add := func(c Case) error {
		batch = append(batch, c)
		if len(batch) >= 1500 {
			return flush()
		}
		return nil
	}
	// 1. directed probes (known-finding witnesses and boundary cases)
	for _, c := range probes() {
		if err := add(c); err != nil {
			return err
		}
	}
	// 2. the reply table: all 256 dial result codes
	for code := 0; code < 256; code++ {
		if err := add(Case{Kind: "reply", Code: code}); err != nil {
			return err
		}
	}
	// 3. generated cases
	n := o.Budget(5000, 200000)
	for i := 0; i < n; i++ {
		f := r.Fork(uint64(i))
		var c Case
		switch k := f.Intn(20); {
		case k < 6:
			c = genS5SValid(f)
		case k < 8:
			c = genS5SMutated(f)
		case k < 10:
			c = genS5C(f)
		case k < 12:
			c = genNone(f)
		case k < 17:
			c = genHTTPS(f)
		default:
			c = genHTTPC(f)
		}
		if err := add(c); err != nil {
			return err
		}
	}
	// 3b. interleaved connections of one process (state shared across connections / handshakes)
	ni := o.Budget(1200, 40000)
	for i := 0; i < ni; i++ {
		if err := add(genInter(r.Fork(uint64(1<<40 + i)))); err != nil {
			return err
		}
	}
	if err := flush(); err != nil {
		return err
	}
	// 4. every fragmentation of short handshakes
	for _, c := range exhaustive(o) {
		if err := add(c); err != nil {
			return err
		}
	}
	if err := flush(); err != nil {
		return err
	}
	e.rep.Exhaustive = false
	for k, v := range e.probed {
		e.rep.FindingsProbed[k] = v
	}
	e.excludedReport()
	return nil
}

// exhaustive: all 2^(n-1) fragmentations of short handshakes (+ early data).
func exhaustive(o *common.Options) []Case {
	var res []Case
	all := func(c Case, stream []byte, maxBits int) {
		n := len(stream) - 1
		if n > maxBits {
			// cut only inside the last maxBits+1 bytes and at the first bytes
			n = maxBits
		}
		off := len(stream) - 1 - n
		for mask := uint64(0); mask < 1<<uint(n); mask++ {
			cc := c
			cc.Chunks = fragmentMask(stream, mask<<uint(off))
			res = append(res, cc)
		}
	}
	bits := 8
	if o.Thorough() {
		bits = 14
	}
	early := "4548" // "EH"
	// SOCKS5, no auth, IPv4
	in := &Intent{Addr: A{"4", "0a000001", 443}, Cmd: 1, Methods: "00", Early: early}
	s, _, _ := clientStream(in, false)
	all(Case{Kind: "s5s", TCP: true, Loc: A{"4", "7f000001", 1080}, Act: "P", Intent: in}, append(s, unhx(early)...), bits+4)
	// SOCKS5, user/password, domain
	in2 := &Intent{Addr: A{"d", "61", 80}, Cmd: 1, Methods: "02", User: "75", Pass: "70", Early: early}
	s2, _, _ := clientStream(in2, true)
	all(Case{Kind: "s5s", Auth: true, TCP: true, Users: []User{{"75", "70"}}, Loc: A{"4", "7f000001", 1080}, Act: "P", Intent: in2}, append(s2, unhx(early)...), bits+4)
	// wrong password, same length
	in3 := &Intent{Addr: A{"d", "61", 80}, Cmd: 1, Methods: "02", User: "75", Pass: "71", Early: early}
	s3, _, _ := clientStream(in3, true)
	all(Case{Kind: "s5s", Auth: true, TCP: true, Users: []User{{"75", "70"}}, Loc: A{"4", "7f000001", 1080}, Act: "P", Intent: in3}, append(s3, unhx(early)...), bits)
	// ss-none, domain
	in4 := &Intent{Addr: A{"d", "6162", 80}, Early: "50" + early}
	all(Case{Kind: "nones", Intent: in4}, append(in4.Addr.socksBytes(), unhx(in4.Early)...), bits)
	// SOCKS5 client: replies + early
	sv := &SrvScript{Method: 0, Bound: A{"4", "01020304", 5}, Early: early, Valid: true}
	rs := append([]byte{5, 0, 5, 0, 0}, sv.Bound.socksBytes()...)
	all(Case{Kind: "s5c", Cmd: 1, Addr: A{"d", "61", 80}, Srv: sv}, append(rs, unhx(early)...), bits)
	res = append(res, exhaustiveHTTP(o, bits)...)
	return res
}

func implReply(code int) int { return implReplyCode(code) }
