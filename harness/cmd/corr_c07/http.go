package main

import (
	"bytes"
	"encoding/base64"
	"encoding/hex"
	"errors"
	"fmt"
	"net/netip"
	"sort"
	"strings"

	"ssvharness/internal/common"

	"github.com/database64128/shadowsocks-go/conn"
	"github.com/database64128/shadowsocks-go/httpproxy"
	"github.com/database64128/shadowsocks-go/socks5"
	"go.uber.org/zap"
)

const f5Key = "F5:http-connect-readahead-dropped"

func implReplyCode(code int) int {
	return int(socks5.ReplyFromDialResultCode(conn.DialResultCode(code)))
}

var (
	st200 = "HTTP/1.1 200 OK\r\n\r\n"
	st400 = "HTTP/1.1 400 Bad Request\r\nConnection: close\r\n\r\n"
	st407 = "HTTP/1.1 407 Proxy Authentication Required\r\nProxy-Authenticate: Basic realm=\"shadowsocks-go\", charset=\"UTF-8\"\r\n\r\n"
	st502 = "HTTP/1.1 502 Bad Gateway\r\nConnection: close\r\n\r\n"
)

func classifyHTTP(err error) string {
	var fa httpproxy.FailedAuthAttemptsError
	var ns httpproxy.ConnectNonSuccessfulResponseError
	msg := err.Error()
	switch {
	case strings.HasPrefix(msg, "failed to read HTTP request"):
		return "httpread"
	case strings.HasPrefix(msg, "failed to parse request target"):
		return "badtarget"
	case errors.As(err, &ns):
		return fmt.Sprintf("status:%d", ns.StatusCode)
	case errors.As(err, &fa):
		return "authfailed"
	}
	return "other:" + msg
}

func runHTTPS(c Case) (o obs, cfgErr error) {
	var users []httpproxy.ServerUserCredentials
	for _, u := range c.Users {
		users = append(users, httpproxy.ServerUserCredentials{Username: string(unhx(u.U)), Password: string(unhx(u.P))})
	}
	srv, err := shared(c.y, fmt.Sprintf("https %v %s", c.Auth, usersField(c.Users)), (&httpproxy.ServerConfig{Users: users, EnableBasicAuth: c.Auth}).NewProxyServer)
	if err != nil {
		return o, err
	}
	o.y = c.y
	sc := newScriptConn(chunkBytes(c.Chunks), locAddr(A{"4", "7f000001", 8080}))
	req, err := srv.HandleStream(sc, zap.NewNop())
	o.hasPC = req.PendingConn != nil
	o.user = hx([]byte(req.Username))
	o.addr = fromConnAddr(req.Addr)
	o.out = append([]byte(nil), sc.out...)
	switch {
	case err == nil && o.hasPC:
		if strings.Contains(fmt.Sprintf("%T", req.PendingConn), "NonConnect") {
			o.class = "nonconnect"
			return o, nil
		}
		o.class = "ok"
		finish(req, sc, c.Act, &o)
		if c.Act != "P" {
			o.stream = nil
		}
	case err == nil:
		o.class = "other:nil error without pending conn"
	default:
		o.class = classifyHTTP(err)
	}
	return o, nil
}

func evalHTTPS(c Case) (res result) {
	o, cfgErr := runHTTPS(c)
	if cfgErr != nil {
		return result{skip: true, bkt: "https:config-rejected"}
	}
	if o.class == "nonconnect" {
		return result{skip: true, bkt: "https:nonconnect"}
	}
	res.line = o.lineS()
	res.bkt = "https:" + strings.SplitN(o.class, ":", 2)[0]
	res.nt = o.class == "ok" || o.class == "authfailed" || o.class == "badtarget"
	if c.Intent != nil {
		res.key, res.det = oracleHTTPS(c, o)
	}
	return
}

// pairConfigured: HTTP Basic looks the (user, password) pair up as one token.
func pairConfigured(us []User, u, p string) bool {
	for _, x := range us {
		if x.U == u && x.P == p {
			return true
		}
	}
	return false
}

// hostSurvives: the harness's own statement of which addresses an HTTP CONNECT target line can carry.
func hostSurvives(a A) bool {
	if a.Kind != "d" {
		return a.Kind != "z"
	}
	name := unhx(a.Host)
	for _, ch := range name {
		switch {
		case ch <= ' ' || ch >= 0x7f:
			return false
		case strings.IndexByte(":[]/?#@%\\^`{|}<>\"", ch) >= 0:
			return false
		}
	}
	if _, err := netip.ParseAddr(string(name)); err == nil {
		return false
	}
	return true
}

func oracleHTTPS(c Case, o obs) (key, detail string) {
	in := c.Intent
	// RFC 7617: the user-id is everything before the FIRST colon of user-pass
	pu, pp := in.User, in.Pass
	if up := string(unhx(in.User)) + ":" + string(unhx(in.Pass)); true {
		i := strings.IndexByte(up, ':')
		pu, pp = hex.EncodeToString([]byte(up[:i])), hex.EncodeToString([]byte(up[i+1:]))
	}
	good := !c.Auth || (!in.NoCreds && pairConfigured(c.Users, pu, pp))
	out := o.out
	if !hostSurvives(in.Addr) {
		// outside the property's well-formedness predicate (outcome reported in the notes); the gate still holds
		if !good && (o.hasPC || o.class == "ok") {
			return "http-auth-gate-honours-wrong-credentials", fmt.Sprintf("user %s pass %s (nocreds=%v) not configured, yet class %s", in.User, in.Pass, in.NoCreds, o.class)
		}
		return "", ""
	}
	for i := 0; i < in.PreFails; i++ {
		if !bytes.HasPrefix(out, []byte(st407)) {
			return "http-407", fmt.Sprintf("unauthenticated attempt %d not answered with 407: %q", i, clipB(out))
		}
		out = out[len(st407):]
	}
	if !good {
		if o.hasPC || o.class == "ok" {
			return "http-auth-gate-honours-wrong-credentials", fmt.Sprintf("user %s pass %s (nocreds=%v) not configured, yet class %s", in.User, in.Pass, in.NoCreds, o.class)
		}
		// every refused request is answered 407 (what follows on the connection is read as the next request)
		if hostSurvives(in.Addr) && (len(out) == 0 || len(bytes.ReplaceAll(out, []byte(st407), nil)) != 0) {
			return "http-407", fmt.Sprintf("refused request not answered with 407: %q", clipB(out))
		}
		return "", ""
	}
	if o.class != "ok" || !o.hasPC {
		return "http-connect-refused", fmt.Sprintf("genuine CONNECT to %v refused: class %s", in.Addr, o.class)
	}
	if o.addr != in.Addr {
		return "http-address", fmt.Sprintf("client asked %v, server extracted %v", in.Addr, o.addr)
	}
	wantUser := "-"
	if c.Auth {
		wantUser = hx(unhx(pu))
	}
	if o.user != wantUser {
		return "http-user-identity", fmt.Sprintf("client authenticated as %s, server reports %s", wantUser, o.user)
	}
	switch {
	case c.Act == "P":
		if !bytes.Equal(out, []byte(st200)) {
			return "http-reply", fmt.Sprintf("Proceed wrote %q", clipB(out))
		}
		early := unhx(in.Early)
		if !bytes.Equal(o.stream, early) {
			if len(o.stream) < len(early) && bytes.HasSuffix(early, o.stream) {
				return f5Key, fmt.Sprintf("the client sent %d bytes right behind the CONNECT head; the tunnel delivers only the last %d (the first %d were read ahead by the server's bufio.Reader and dropped); fragmentation %v",
					len(early), len(o.stream), len(early)-len(o.stream), chunkLens(c.Chunks))
			}
			return "http-early-data", fmt.Sprintf("client sent %s behind the head, the tunnel delivers %x", clip(in.Early), clipB(o.stream))
		}
		if !o.pong {
			return "http-write-after-handshake", "bytes written through the returned conn were altered"
		}
	case strings.HasPrefix(c.Act, "A"):
		if !bytes.Equal(out, []byte(st502)) {
			return "http-reply-code", fmt.Sprintf("a failed dial must be reported as 502, wrote %q", clipB(out))
		}
	default:
		if len(out) != 0 {
			return "http-extra-bytes", fmt.Sprintf("unexpected bytes %q", clipB(out))
		}
	}
	return "", ""
}

func chunkLens(ch []string) []int {
	var r []int
	for _, c := range ch {
		r = append(r, len(c)/2)
	}
	return r
}

func clipB(b []byte) []byte {
	if len(b) > 120 {
		return b[:120]
	}
	return b
}

// realConnectHead runs the REAL httpproxy client (NewProxyClient + DialStream) against a canned 200 and
// returns the head it wrote.
func realConnectHead(a A, user, pass string, auth bool) ([]byte, error) {
	target, err := a.connAddr()
	if err != nil {
		return nil, err
	}
	cc := &captureClient{sc: newScriptConn([][]byte{[]byte(st200)}, nil)}
	pc, err := (&httpproxy.ClientConfig{Name: "h", InnerClient: cc, Addr: conn.AddrFromIPAndPort(netip.AddrFrom4([4]byte{127, 0, 0, 1}), 3),
		Username: string(unhx(user)), Password: string(unhx(pass)), UseBasicAuth: auth}).NewProxyClient()
	if err != nil {
		return nil, err
	}
	if _, err := pc.DialStream(bg(), target, nil); err != nil {
		return nil, err
	}
	return cc.sc.out, nil
}

// textOf: the harness's own rendering of an address as a CONNECT target.
func textOf(a A) string {
	switch a.Kind {
	case "4":
		return netip.AddrPortFrom(netip.AddrFrom4([4]byte(unhx(a.Host))), uint16(a.Port)).String()
	case "6":
		return netip.AddrPortFrom(netip.AddrFrom16([16]byte(unhx(a.Host))), uint16(a.Port)).String()
	}
	return fmt.Sprintf("%s:%d", unhx(a.Host), a.Port)
}

func genHTTPUsers(r *common.Rng) []User {
	n := common.Pick(r, []int{0, 1, 1, 2, 3})
	var us []User
	for i := 0; i < n; i++ {
		ul := common.Pick(r, []int{0, 1, 2, 3, 8, r.Range(0, 40)})
		pl := common.Pick(r, []int{0, 1, 2, 3, 8, r.Range(0, 40)})
		u := credBytes(r, ul)
		if !r.Chance(1, 30) {
			u = bytes.ReplaceAll(u, []byte(":"), []byte("_"))
		}
		p := credBytes(r, pl)
		if r.Chance(1, 5) {
			p = append(p, ':')
			p = append(p, credBytes(r, r.Range(0, 3))...)
		}
		us = append(us, User{hex.EncodeToString(u), hex.EncodeToString(p)})
	}
	return us
}

func genHTTPCreds(r *common.Rng, us []User) (u, p string) {
	if len(us) == 0 {
		return hex.EncodeToString(credBytes(r, r.Range(0, 6))), hex.EncodeToString(credBytes(r, r.Range(0, 6)))
	}
	k := common.Pick(r, us)
	switch r.Intn(10) {
	case 0, 1, 2, 3, 4, 5:
		return k.U, k.P
	case 6:
		return k.U, common.Pick(r, us).P
	case 7: // shift the colon: "ab" + ":" + "c:d" vs "ab:c" + ":" + "d"
		up := append(append(unhx(k.U), ':'), unhx(k.P)...)
		i := bytes.LastIndexByte(up, ':')
		return hex.EncodeToString(up[:i]), hex.EncodeToString(up[i+1:])
	case 8:
		p := append(unhx(k.P), byte('a'+r.Intn(3)))
		return k.U, hex.EncodeToString(p)
	default:
		return k.P, k.U
	}
}

func genHTTPAddr(r *common.Rng) A {
	a := genAddr(r)
	if a.Kind == "d" && r.Chance(2, 3) {
		n := common.Pick(r, []int{1, 2, 3, 11, 63, 253, 254, 255, r.Range(1, 255)})
		a.Host = hex.EncodeToString(hostish(r, n))
	}
	return a
}

func crlf(r *common.Rng, lfOnly bool) string {
	if lfOnly {
		return "\n"
	}
	return "\r\n"
}

// rawHead builds a CONNECT head the way other clients would: header case, order, extra fields, LF endings.
func rawHead(r *common.Rng, target string, authValues []string, closeTok string) []byte {
	lf := r.Chance(1, 8)
	nl := crlf(r, lf)
	proto := "HTTP/1.1"
	if r.Chance(1, 6) {
		proto = "HTTP/1.0"
	}
	var sb strings.Builder
	fmt.Fprintf(&sb, "CONNECT %s %s%s", target, proto, nl)
	var hs []string
	hs = append(hs, common.Pick(r, []string{"Host", "host", "HOST"})+": "+target)
	for _, v := range authValues {
		hs = append(hs, common.Pick(r, []string{"Proxy-Authorization", "proxy-authorization", "PROXY-AUTHORIZATION", "Proxy-authorization"})+":"+common.Pick(r, []string{" ", "", "  ", "\t"})+v+common.Pick(r, []string{"", "", " "}))
	}
	if closeTok != "" {
		hs = append(hs, common.Pick(r, []string{"Connection", "connection"})+": "+closeTok)
	}
	if r.Chance(1, 3) {
		hs = append(hs, "User-Agent: curl/8.0")
	}
	if r.Chance(1, 4) {
		hs = append(hs, "Proxy-Connection: Keep-Alive")
	}
	if r.Chance(1, 10) {
		hs = append(hs, "X-Pad: "+strings.Repeat("p", common.Pick(r, []int{100, 3000, 4000, 4090})))
	}
	for i := len(hs) - 1; i > 1; i-- {
		j := 1 + r.Intn(i)
		hs[i], hs[j] = hs[j], hs[i]
	}
	for _, h := range hs {
		sb.WriteString(h)
		sb.WriteString(nl)
	}
	sb.WriteString(nl)
	return []byte(sb.String())
}

func basicValue(r *common.Rng, u, p string) string {
	tok := base64.StdEncoding.EncodeToString([]byte(string(unhx(u)) + ":" + string(unhx(p))))
	return common.Pick(r, []string{"Basic ", "Basic ", "basic ", "BASIC ", "bAsIc "}) + tok
}

func genHTTPS(r *common.Rng) Case {
	c := Case{Kind: "https", Auth: r.Bool(), Act: genAct(r)}
	if c.Auth {
		c.Users = genHTTPUsers(r)
	}
	in := &Intent{Addr: genHTTPAddr(r), Early: hex.EncodeToString(genEarly(r))}
	if in.Addr.Kind == "d" {
		n := unhx(in.Addr.Host)
		if bytes.ContainsAny(n, " \r\n\t") || len(n) == 0 {
			// cannot even be put on a request line by the harness's raw builder; the real client is used below
			in.Raw = false
		}
	}
	if c.Auth {
		in.User, in.Pass = genHTTPCreds(r, c.Users)
		in.NoCreds = r.Chance(1, 8)
	}
	var stream []byte
	var bounds []int
	useReal := r.Chance(1, 3) || (in.Addr.Kind == "d" && bytes.ContainsAny(unhx(in.Addr.Host), " \r\n\t"))
	if bytes.Contains(unhx(in.User), []byte(":")) {
		useReal = false // NewProxyClient refuses such a user name
	}
	if useReal {
		h, err := realConnectHead(in.Addr, in.User, in.Pass, c.Auth && !in.NoCreds)
		if err != nil {
			return Case{Kind: "mkaddr", Addr: in.Addr, Probe: err.Error()}
		}
		stream = h
	} else {
		in.Raw = true
		target := textOf(in.Addr)
		if c.Auth && r.Chance(1, 4) {
			// unauthenticated attempts first; the connection stays open unless the request says close
			in.PreFails = r.Range(1, 3)
			for i := 0; i < in.PreFails; i++ {
				var vals []string
				switch r.Intn(3) {
				case 0:
				case 1:
					vals = []string{"Basic " + base64.StdEncoding.EncodeToString([]byte("nobody:nothing"))}
				default:
					vals = []string{"Digest username=\"x\""}
				}
				if pairConfigured(c.Users, hex.EncodeToString([]byte("nobody")), hex.EncodeToString([]byte("nothing"))) {
					vals = nil
				}
				tok := ""
				if r.Chance(1, 3) {
					tok = "keep-alive"
				}
				h := rawHead(r, target, vals, tok)
				if bytes.Contains(h, []byte("HTTP/1.0")) && tok == "" {
					h = bytes.Replace(h, []byte("HTTP/1.0"), []byte("HTTP/1.1"), 1) // 1.0 without keep-alive closes
				}
				stream = append(stream, h...)
				bounds = append(bounds, len(stream))
			}
		}
		var vals []string
		if c.Auth && !in.NoCreds {
			vals = []string{basicValue(r, in.User, in.Pass)}
			if r.Chance(1, 5) { // a non-Basic value first: the first Basic value decides
				vals = append([]string{common.Pick(r, []string{"Digest abc", "Basic", "Bearer x", "Basicx y"})}, vals...)
			}
		}
		tok := ""
		if r.Chance(1, 4) {
			tok = common.Pick(r, []string{"close", "keep-alive", "Close", "keep-alive, close", "upgrade"})
		}
		stream = append(stream, rawHead(r, target, vals, tok)...)
	}
	in.HeadLen = len(stream)
	bounds = append(bounds, len(stream))
	stream = append(stream, unhx(in.Early)...)
	c.Intent = in
	if r.Chance(1, 8) {
		stream = mutateHTTP(r, stream)
		c.Intent = nil
	}
	c.Chunks = fragment(r, stream, bounds)
	return c
}

func mutateHTTP(r *common.Rng, s []byte) []byte {
	switch r.Intn(6) {
	case 0: // target variants
		return bytes.Replace(s, []byte(" HTTP/1."), []byte(common.Pick(r, []string{":x HTTP/1.", ": HTTP/1.", ":99999 HTTP/1.", ":080 HTTP/1.", "x HTTP/1.", ":1:2 HTTP/1."})), 1)
	case 1: // target without port / odd targets
		i := bytes.IndexByte(s, ' ')
		j := bytes.IndexByte(s[i+1:], ' ')
		if i < 0 || j < 0 {
			return s
		}
		t := common.Pick(r, []string{"example.com", ":80", "[::1]", "[::1]:80", "[::1", "::1:80", "1.2.3.4:65535", "1.2.3.4:65536", "a:0", "a.:1", "-:1", "1.2.3:4", "256.1.1.1:1", "01.2.3.4:1"})
		return append(append(append([]byte(nil), s[:i+1]...), t...), s[i+1+j:]...)
	case 2:
		return s[:r.Intn(len(s))]
	default:
		return mutate(r, s)
	}
}

func genHTTPC(r *common.Rng) Case {
	c := Case{Kind: "httpc", Addr: genHTTPAddr(r)}
	if c.Addr.Kind == "z" {
		c.Addr = A{"4", "01020304", 5}
	}
	if r.Bool() {
		u := bytes.ReplaceAll(credBytes(r, r.Range(0, 20)), []byte(":"), []byte("_"))
		c.AuthMsg = hex.EncodeToString(u) + ":" + hex.EncodeToString(credBytes(r, r.Range(0, 20)))
	}
	sv := &SrvScript{Valid: true, Early: hex.EncodeToString(genEarly(r))}
	sv.Status = common.Pick(r, []int{200, 200, 200, 200, 201, 204, 299, 300, 199, 100, 400, 407, 502, 503, 999, 0})
	nl := crlf(r, r.Chance(1, 8))
	var sb strings.Builder
	fmt.Fprintf(&sb, "%s %03d%s%s", common.Pick(r, []string{"HTTP/1.1", "HTTP/1.1", "HTTP/1.0"}), sv.Status, common.Pick(r, []string{" OK", "", " Connection established", " "}), nl)
	if r.Chance(1, 3) {
		sb.WriteString("Server: x" + nl)
	}
	if r.Chance(1, 5) {
		sb.WriteString("Connection: close" + nl)
	}
	if r.Chance(1, 10) {
		sb.WriteString("X-Pad: " + strings.Repeat("p", common.Pick(r, []int{100, 4000, 4070})) + nl)
	}
	sb.WriteString(nl)
	s := []byte(sb.String())
	hl := len(s)
	s = append(s, unhx(sv.Early)...)
	if r.Chance(1, 8) {
		s = mutate(r, s)
		sv.Valid = false
	}
	c.Chunks = fragment(r, s, []int{hl})
	c.Srv = sv
	return c
}

func runHTTPC(c Case) string {
	sc := newScriptConn(chunkBytes(c.Chunks), locAddr(A{"4", "7f000001", 1}))
	target, err := c.Addr.connAddr()
	if err != nil {
		return "cfg-error"
	}
	hdr := ""
	if c.AuthMsg != "" {
		up := strings.Split(c.AuthMsg, ":")
		hdr = "\r\nProxy-Authorization: Basic " + base64.StdEncoding.EncodeToString([]byte(string(unhx(up[0]))+":"+string(unhx(up[1]))))
	}
	cc, err := httpproxy.ClientConnect(sc, target, hdr)
	if err != nil {
		cls := classifyHTTP(err)
		if strings.HasPrefix(cls, "other:") {
			cls = "httpread" // any failure of http.ReadResponse
		}
		return fmt.Sprintf("err:%s %s -", cls, hx(sc.out))
	}
	out := append([]byte(nil), sc.out...)
	c.y.yield() // handshake complete: other connections may handshake before the tunnel is read
	var stream []byte
	buf := make([]byte, 700)
	for i := 0; ; i++ {
		n, err := cc.Read(buf[:min(len(buf), 3+i*350)])
		stream = append(stream, buf[:n]...)
		if err != nil {
			break
		}
		if i < 3 {
			c.y.yield()
		}
	}
	return fmt.Sprintf("ok %s %s", hx(out), hx(stream))
}

func evalHTTPC(c Case) (res result) {
	res.line = runHTTPC(c)
	f := strings.Fields(res.line)
	res.bkt = "httpc:" + strings.SplitN(f[0], ":", 3)[0]
	res.nt = f[0] == "ok" || strings.HasPrefix(f[0], "err:status")
	sv := c.Srv
	if sv == nil || !sv.Valid {
		return
	}
	// oracle: the proxy's verdict reaches the caller; on success nothing the far side sent first is lost
	if sv.Status >= 200 && sv.Status < 300 {
		e := "-"
		if sv.Early != "" {
			e = sv.Early
		}
		if f[0] != "ok" {
			res.key, res.det = "http-client-status", fmt.Sprintf("proxy answered %d, client: %s", sv.Status, f[0])
		} else if f[2] != e {
			res.key, res.det = "http-client-early-data", fmt.Sprintf("the server side sent %s right behind the 2xx head, the returned conn delivers %s", clip(e), clip(f[2]))
		}
	} else if f[0] != fmt.Sprintf("err:status:%d", sv.Status) {
		res.key, res.det = "http-client-status", fmt.Sprintf("proxy answered %d, client: %s", sv.Status, f[0])
	}
	if res.key == "" && f[0] == "ok" && hostSurvives(c.Addr) {
		want := "CONNECT " + textOf(c.Addr) + " HTTP/1.1\r\n"
		if !bytes.HasPrefix(unhx(f[1]), []byte(want)) {
			res.key, res.det = "http-client-request", fmt.Sprintf("asked to reach %v, wrote %q", c.Addr, clipB(unhx(f[1])))
		}
	}
	return
}

// genInter: k = 2..4 connections (SOCKS5 server/client, HTTP CONNECT server/client, ss-none), each a genuine
// handshake with early data from the far side, run in one process in a scripted order of turns.
func genInter(r *common.Rng) Case {
	k := r.Range(2, 4)
	c := Case{Kind: "inter", Pin: !r.Chance(1, 4)}
	// server objects are shared by the connections of a case that use the same configuration
	for i := 0; i < k; i++ {
		f := r.Fork(uint64(i))
		var sub Case
		for try := 0; ; try++ {
			switch kk := f.Intn(12); {
			case kk < 4:
				sub = genHTTPC(f)
				if sub.Srv != nil && sub.Srv.Valid && f.Chance(3, 4) { // the far side speaks first, coalesced with the 2xx head
					sub.Srv.Status = 200
					early := genEarly(f)
					if len(early) == 0 {
						early = []byte("220 far side speaks first\r\n")
					}
					sub.Srv.Early = hex.EncodeToString(early)
					st := append([]byte(st200), early...)
					if f.Bool() {
						sub.Chunks = []string{hex.EncodeToString(st)}
					} else {
						sub.Chunks = fragment(f, st, []int{len(st200)})
					}
				}
			case kk < 7:
				sub = genHTTPS(f)
				if sub.Kind == "https" {
					sub.Act = "P"
				}
			case kk < 9:
				sub = genS5SValid(f)
				if sub.Kind == "s5s" {
					sub.Act = "P"
				}
			case kk < 10:
				sub = genS5C(f)
			default:
				sub = genNone(f)
			}
			if sub.Kind != "mkaddr" || try > 3 {
				break
			}
		}
		c.Sub = append(c.Sub, sub)
	}
	// turns: mostly "all handshakes first, then the reads", plus random orders
	switch r.Intn(4) {
	case 0:
		for round := 0; round < 6; round++ {
			for i := 0; i < k; i++ {
				c.Order = append(c.Order, i)
			}
		}
	case 1: // A handshake, B handshake (and everything of B), then A
		c.Order = []int{0}
		for i := 0; i < 8; i++ {
			c.Order = append(c.Order, 1)
		}
	default:
		for i := r.Range(k, 6*k); i > 0; i-- {
			c.Order = append(c.Order, r.Intn(k))
		}
	}
	return c
}

// probes: directed witnesses run first on every run.
func probes() []Case {
	var res []Case
	// cross-connection state: tunnel A (HTTP CONNECT client, far side speaks first in the segment of the 200),
	// then handshake B in the same process, then A is read
	{
		a := []byte("220 far side speaks first\r\n250 and then some more\r\n")
		mk := func(early []byte, chunks ...[]byte) Case {
			var ch []string
			for _, x := range chunks {
				ch = append(ch, hex.EncodeToString(x))
			}
			return Case{Kind: "httpc", Addr: A{"d", hex.EncodeToString([]byte("mail.example")), 25}, Chunks: ch,
				Srv: &SrvScript{Status: 200, Early: hex.EncodeToString(early), Valid: true}}
		}
		full := append([]byte(st200), a...)
		b := []byte("B-first")
		for _, pin := range []bool{true, false} {
			res = append(res,
				Case{Kind: "inter", Pin: pin, Probe: "inter-httpc-A-then-B", Order: []int{0, 1, 1, 1, 1, 1, 1, 0},
					Sub: []Case{mk(a, full[:len(st200)+27], full[len(st200)+27:]), mk(nil, []byte(st200))}},
				Case{Kind: "inter", Pin: pin, Probe: "inter-httpc-both-speak-first", Order: []int{0, 1, 0, 1, 0, 1},
					Sub: []Case{mk(a, full), mk(b, append([]byte(st200), b...))}},
			)
		}
	}
	// F5: CONNECT head and tunnel bytes in one segment / split inside the early data
	head := []byte("CONNECT example.com:443 HTTP/1.1\r\nHost: example.com:443\r\n\r\n")
	early := []byte("EARLYDATA-0123456789")
	in := &Intent{Addr: A{"d", hex.EncodeToString([]byte("example.com")), 443}, Early: hex.EncodeToString(early), Raw: true, HeadLen: len(head)}
	all := append(append([]byte(nil), head...), early...)
	res = append(res,
		Case{Kind: "https", Act: "P", Intent: in, Probe: "f5-one-segment", Chunks: []string{hex.EncodeToString(all)}},
		Case{Kind: "https", Act: "P", Intent: in, Probe: "f5-cut-inside-early", Chunks: []string{hex.EncodeToString(all[:len(head)+5]), hex.EncodeToString(all[len(head)+5:])}},
		Case{Kind: "https", Act: "P", Intent: in, Probe: "head-then-early", Chunks: []string{hex.EncodeToString(head), hex.EncodeToString(early)}},
	)
	// the same with Basic auth and the real client's head
	h, err := realConnectHead(in.Addr, "75", "70", true)
	if err == nil {
		in2 := &Intent{Addr: in.Addr, User: "75", Pass: "70", Early: hex.EncodeToString(early), HeadLen: len(h)}
		res = append(res, Case{Kind: "https", Auth: true, Users: []User{{"75", "70"}}, Act: "P", Intent: in2, Probe: "f5-auth-one-segment",
			Chunks: []string{hex.EncodeToString(append(append([]byte(nil), h...), early...))}})
	}
	// the whole conn.DialResult value space on the Abort paths: Code x Err, both SOCKS5 auth modes and HTTP CONNECT
	for _, auth := range []bool{false, true} {
		inA := &Intent{Addr: A{"d", hex.EncodeToString([]byte("t.example")), 443}, Cmd: 1, Methods: "00"}
		var us []User
		if auth {
			inA.User, inA.Pass, inA.Methods = "75", "70", "02"
			us = []User{{"75", "70"}}
		}
		s, _, err := clientStream(inA, auth)
		if err != nil {
			continue
		}
		for _, code := range []int{13, 101, 111, 113, 254} {
			for _, e := range []string{"rejected", "opaque0", "errno1", fmt.Sprintf("werrno%d", code), "errno111", "dnsnf", "nil"} {
				act := fmt.Sprintf("A%d:%s", code, e)
				res = append(res, Case{Kind: "s5s", Auth: auth, TCP: true, Users: us, Loc: A{"4", "7f000001", 1080}, Act: act, Intent: inA,
					Probe: "abort-dialresult", Chunks: []string{hex.EncodeToString(s)}})
				if !auth {
					res = append(res, Case{Kind: "https", Act: act, Intent: in, Probe: "abort-dialresult", Chunks: []string{hex.EncodeToString(head)}})
				}
			}
		}
	}
	// SOCKS5 boundary probes: 255-byte everything, in one segment
	u255 := strings.Repeat("61", 255)
	p255 := strings.Repeat("62", 255)
	d255 := strings.Repeat("63", 255)
	in3 := &Intent{Addr: A{"d", d255, 65535}, Cmd: 1, User: u255, Pass: p255, Methods: "02", Early: "ff00"}
	if s, _, err := clientStream(in3, true); err == nil {
		res = append(res, Case{Kind: "s5s", Auth: true, TCP: true, Users: []User{{u255, p255}}, Loc: A{"4", "7f000001", 1080}, Act: "P", Intent: in3, Probe: "s5-255",
			Chunks: []string{hex.EncodeToString(append(s, 0xff, 0))}})
	}
	return res
}

func exhaustiveHTTP(o *common.Options, bits int) []Case {
	var res []Case
	head := []byte("CONNECT a:1 HTTP/1.1\r\n\r\n")
	early := []byte("EH")
	in := &Intent{Addr: A{"d", "61", 1}, Early: hex.EncodeToString(early), Raw: true, HeadLen: len(head)}
	stream := append(append([]byte(nil), head...), early...)
	n := len(stream)
	// every fragmentation with up to 3 cuts (quick: 2), and every fragmentation of the last bytes
	maxCuts := 2
	if o.Thorough() {
		maxCuts = 3
	}
	var rec func(start, left int, cut map[int]bool)
	rec = func(start, left int, cut map[int]bool) {
		cc := map[int]bool{}
		for k := range cut {
			cc[k] = true
		}
		res = append(res, Case{Kind: "https", Act: "P", Intent: in, Chunks: cutAt(stream, cc)})
		if left == 0 {
			return
		}
		for i := start; i < n; i++ {
			cut[i] = true
			rec(i+1, left-1, cut)
			delete(cut, i)
		}
	}
	rec(1, maxCuts, map[int]bool{})
	tail := min(bits, n-1)
	for mask := uint64(0); mask < 1<<uint(tail); mask++ {
		res = append(res, Case{Kind: "https", Act: "P", Intent: in, Chunks: fragmentMask(stream, mask<<uint(n-1-tail))})
	}
	// client side: 200 + early
	sv := &SrvScript{Status: 200, Early: hex.EncodeToString(early), Valid: true}
	rs := append([]byte(st200), early...)
	tail = min(bits, len(rs)-1)
	for mask := uint64(0); mask < 1<<uint(tail); mask++ {
		res = append(res, Case{Kind: "httpc", Addr: A{"d", "61", 1}, Srv: sv, Chunks: fragmentMask(rs, mask<<uint(len(rs)-1-tail))})
	}
	return res
}

// excludedReport runs the real client -> real server composition on domain names OUTSIDE the
// well-formedness predicate of connect_faithful and reports what the code does with them (evidence notes).
func (e *engine) excludedReport() {
	names := []string{"1.2.3.4", "::1", "a:b", "a b", "a\r\nb", "a\tb", "[::1]", "a]b", "a[b", "a/b", "a?b", "a#b", "u@h", "a%b", "a%41b", "a\\b", "a^b", "a`b", "a{b", "a|b", "a}b", "a<b", "a>b", "a\"b", "caf\xc3\xa9", "\x00", "\x7f", "0x7f.1", "1.2.3.4.", "255.255.255.255"}
	outcome := map[string][]string{}
	for _, n := range names {
		a := A{"d", hex.EncodeToString([]byte(n)), 80}
		var verdict string
		pan := common.Safely(func() {
			h, err := realConnectHead(a, "", "", false)
			if err != nil {
				verdict = "client-error"
				return
			}
			o, _ := runHTTPS(Case{Kind: "https", Act: "N", Chunks: []string{hex.EncodeToString(h)}})
			switch {
			case o.class == "ok" && o.addr == a:
				verdict = "carried-faithfully"
			case o.class == "ok":
				verdict = "ALTERED->" + o.addr.field()
			default:
				verdict = "rejected(" + o.class + ")"
			}
		})
		if pan != nil {
			verdict = "PANIC"
			e.rep.Fail(common.OracleFailure{Engine: "handshake", Key: "panic:excluded-domain", Case: a, Detail: fmt.Sprint(pan)})
		}
		outcome[verdict] = append(outcome[verdict], fmt.Sprintf("%q", n))
	}
	var ks []string
	for k := range outcome {
		ks = append(ks, k)
	}
	sort.Strings(ks)
	for _, k := range ks {
		e.rep.Note("HTTP CONNECT, domain names outside the well-formedness predicate of connect_faithful (real client -> real server): %s: %s", k, strings.Join(outcome[k], " "))
	}
	// the IPv6 text round trip hypothesis of connect_faithful, evaluated by the model on generated addresses
	if e.o.Driver != "" {
		r := common.NewRng(e.o.Seed ^ 0x7676)
		var lines []string
		var as []A
		for i := 0; i < 3000; i++ {
			a := genAddr(r.Fork(uint64(i)))
			if a.Kind == "z" {
				continue
			}
			as = append(as, a)
			lines = append(lines, "addrtext "+a.field())
		}
		out, err := common.RunDriverOnce(e.o.Driver, lines)
		if err != nil {
			e.rep.Note("addrtext: %v", err)
			return
		}
		bad6, n6, textDiff := 0, 0, 0
		for i, l := range out {
			f := strings.Fields(l)
			a := as[i]
			if a.Kind == "6" {
				n6++
				if f[2] != "1" {
					bad6++
				}
			}
			// the model's text of an address == the implementation's
			ca, err := a.connAddr()
			if err == nil && f[0] != hx([]byte(ca.String())) {
				textDiff++
				e.rep.Diverge(common.Divergence{Engine: "handshake", Case: a, Impl: ca.String(), Model: string(unhx(f[0])), Note: "conn.Addr.String vs model addrString"})
			}
			// parse-back agrees with conn.ParseAddr
			if err == nil {
				back := "none"
				if pa, perr := conn.ParseAddr(ca.String()); perr == nil {
					back = fromConnAddr(pa).field()
				}
				if back != f[1] {
					textDiff++
					e.rep.Diverge(common.Divergence{Engine: "handshake", Case: a, Impl: back, Model: f[1], Note: "conn.ParseAddr(String) vs model parseAddr(addrString)"})
				}
			}
		}
		e.rep.Note("addrtext: %d addresses, model text/parse == conn.Addr.String/ParseAddr on all but %d; IPv6 text round-trip hypothesis false on %d of %d IPv6 addresses", len(as), textDiff, bad6, n6)
	}
}
