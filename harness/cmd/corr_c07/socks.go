package main

import (
	"bytes"
	"encoding/hex"
	"errors"
	"fmt"
	"io"
	"net"
	"net/netip"
	"os"
	"strings"
	"syscall"

	"ssvharness/internal/common"

	"github.com/database64128/shadowsocks-go/conn"
	"github.com/database64128/shadowsocks-go/netio"
	"github.com/database64128/shadowsocks-go/router"
	"github.com/database64128/shadowsocks-go/socks5"
	"github.com/database64128/shadowsocks-go/ssnone"
	"go.uber.org/zap"
)

type User struct {
	U string `json:"u"` // hex
	P string `json:"p"` // hex
}

// Intent: what a genuine client asked for. When present the property oracle applies to the case.
type Intent struct {
	Addr    A      `json:"addr"`
	Cmd     int    `json:"cmd"`
	User    string `json:"user,omitempty"` // hex
	Pass    string `json:"pass,omitempty"` // hex
	Methods string `json:"methods,omitempty"`
	Early   string `json:"early,omitempty"` // bytes sent right behind the handshake
	// HTTP only
	NoCreds  bool   `json:"nocreds,omitempty"`  // the client sent no Proxy-Authorization
	PreFails int    `json:"prefails,omitempty"` // unauthenticated attempts before the real request
	Raw      bool   `json:"raw,omitempty"`      // head built by the harness, not by the real client
	HeadLen  int    `json:"headlen,omitempty"`
	Scheme   string `json:"scheme,omitempty"`
}

// SrvScript: what the scripted server answered to a client under test.
type SrvScript struct {
	Method int    `json:"method"`
	Status int    `json:"status"`
	Rep    int    `json:"rep"`
	Bound  A      `json:"bound"`
	Early  string `json:"early,omitempty"`
	Valid  bool   `json:"valid"`
}

type Case struct {
	Kind    string     `json:"kind"` // s5s s5c nones nonec reply https httpc
	Auth    bool       `json:"auth,omitempty"`
	TCP     bool       `json:"tcp,omitempty"`
	UDP     bool       `json:"udp,omitempty"`
	Loc     A          `json:"loc,omitempty"`
	Users   []User     `json:"users,omitempty"`
	Chunks  []string   `json:"chunks,omitempty"`
	Act     string     `json:"act,omitempty"`
	AuthMsg string     `json:"authmsg,omitempty"`
	Cmd     int        `json:"cmd,omitempty"`
	Addr    A          `json:"addr,omitempty"`
	Payload string     `json:"payload,omitempty"`
	Code    int        `json:"code,omitempty"`
	Intent  *Intent    `json:"intent,omitempty"`
	Srv     *SrvScript `json:"srv,omitempty"`
	Probe   string     `json:"probe,omitempty"` // name of the directed probe that produced the case
	// interleaved: several connections of one process, their handshakes and post-handshake reads in scripted order
	Sub   []Case `json:"sub,omitempty"`
	Order []int  `json:"order,omitempty"` // whose turn it is (index into Sub); a turn lasts until the connection's next yield point
	Pin   bool   `json:"pin,omitempty"`   // GOMAXPROCS(1): pools hand back the same object

	y *yielder
}

// yielder: strict hand-off between the connections of an interleaved case (exactly one runs at any time).
type yielder struct {
	turn, back chan struct{}
	done       bool
	cache      map[string]any // long-lived server / client objects shared by the connections of the case
}

func (y *yielder) yield() {
	if y == nil {
		return
	}
	y.back <- struct{}{}
	<-y.turn
}

// shared returns the long-lived object for a configuration (one per case in interleaved mode: servers and
// clients are shared by all connections of a process).
func shared[T any](y *yielder, key string, mk func() (T, error)) (T, error) {
	if y == nil {
		return mk()
	}
	if v, ok := y.cache[key]; ok {
		return v.(T), nil
	}
	v, err := mk()
	if err == nil {
		y.cache[key] = v
	}
	return v, err
}

// drain reads the tunnel to its end; in interleaved mode other connections get turns between the reads.
func drain(c io.Reader, y *yielder) []byte {
	if y == nil {
		b, _ := io.ReadAll(c)
		return b
	}
	var res []byte
	for i, n := range []int{3, 700, 5} {
		_ = i
		buf := make([]byte, n)
		k, err := c.Read(buf)
		res = append(res, buf[:k]...)
		if err != nil {
			return res
		}
		y.yield()
	}
	b, _ := io.ReadAll(c)
	return append(res, b...)
}

func usersField(us []User) string {
	if len(us) == 0 {
		return "-"
	}
	var ps []string
	for _, u := range us {
		ps = append(ps, u.U+":"+u.P)
	}
	return strings.Join(ps, ",")
}

func b01(b bool) string {
	if b {
		return "1"
	}
	return "0"
}

// line is the operation sent to the Lean driver.
func (c Case) line() string {
	switch c.Kind {
	case "s5s":
		return fmt.Sprintf("s5s %s %s %s %s %s %s %s", b01(c.Auth), b01(c.TCP), b01(c.UDP), c.Loc.field(), usersField(c.Users), chunksField(c.Chunks), c.Act)
	case "s5c":
		m := c.AuthMsg
		if m == "" {
			m = "-"
		}
		return fmt.Sprintf("s5c %s %d %s %s", m, c.Cmd, c.Addr.field(), chunksField(c.Chunks))
	case "nones":
		return "nones " + chunksField(c.Chunks)
	case "nonec":
		p := c.Payload
		if p == "" {
			p = "-"
		}
		return fmt.Sprintf("nonec %s %s", c.Addr.field(), p)
	case "reply":
		return fmt.Sprintf("reply %d", c.Code)
	case "https":
		us := "noauth"
		if c.Auth {
			us = usersField(c.Users)
		}
		return fmt.Sprintf("https %s %s %s", us, chunksField(c.Chunks), c.Act)
	case "httpc":
		m := c.AuthMsg
		if m == "" {
			m = "-"
		}
		return fmt.Sprintf("httpc %s %s %s", c.Addr.field(), m, chunksField(c.Chunks))
	}
	return "bad"
}

// classify maps an implementation error to the model's error names.
func classify(err error) string {
	var (
		ver  socks5.UnsupportedVersionError
		am   socks5.UnsupportedAuthMethodError
		av   socks5.UnsupportedUsernamePasswordAuthVersionError
		re   socks5.ReplyError
		cmde socks5.UnsupportedCommandError
	)
	msg := err.Error()
	switch {
	case err == io.EOF:
		return "eof"
	case err == io.ErrUnexpectedEOF:
		return "ueof"
	case errors.As(err, &ver):
		return fmt.Sprintf("ver:%d", byte(ver))
	case errors.As(err, &am):
		return fmt.Sprintf("meth:%d", byte(am))
	case errors.As(err, &av):
		return fmt.Sprintf("authver:%d", byte(av))
	case errors.As(err, &re):
		return fmt.Sprintf("rep:%d", byte(re))
	case errors.As(err, &cmde):
		return fmt.Sprintf("unsup:%d", byte(cmde))
	case errors.Is(err, socks5.ErrNoAcceptableAuthMethod):
		return "noacc"
	case errors.Is(err, socks5.ErrIncorrectUsernamePassword):
		return "badcreds"
	case msg == "NMETHODS is 0":
		return "nmethods0"
	case msg == "ULEN is 0":
		return "ulen0"
	case msg == "PLEN is 0":
		return "plen0"
	case strings.HasPrefix(msg, "invalid ATYP"):
		// the message prints the byte in hex (stream.go) or decimal (ConnAddrFromReader)
		var b int
		if _, e := fmt.Sscanf(msg, "invalid ATYP: 0x%x", &b); e != nil {
			fmt.Sscanf(msg, "invalid ATYP: %d", &b)
		}
		return fmt.Sprintf("atyp:%d", b)
	case strings.HasPrefix(msg, "length of domain"):
		return "domlen"
	}
	return "other:" + msg
}

type obs struct {
	class  string
	addr   A
	user   string // hex or "-"
	out    []byte
	stream []byte
	hasPC  bool
	pong   bool
	note   string
	y      *yielder
}

func locAddr(a A) net.Addr {
	return net.TCPAddrFromAddrPort(netip.AddrPortFrom(addrOf(a), uint16(a.Port)))
}

func addrOf(a A) netip.Addr {
	if a.Kind == "6" {
		return netip.AddrFrom16([16]byte(unhx(a.Host)))
	}
	return netip.AddrFrom4([4]byte(unhx(a.Host)))
}

// finish applies Proceed / Abort / nothing to an accepted request and observes the tunnel.
func finish(req netio.ConnRequest, sc *scriptConn, act string, o *obs) {
	switch {
	case act == "P":
		c, err := req.Proceed()
		if err != nil {
			o.note = "proceed: " + err.Error()
			return
		}
		o.out = append([]byte(nil), sc.out...)
		o.y.yield() // handshake complete: other connections may handshake before the tunnel is read
		o.stream = drain(c, o.y)
		if o.stream == nil {
			o.stream = []byte{}
		}
		// bytes written after the handshake must leave unchanged
		before := len(sc.out)
		c.Write([]byte("PONG\x00\xff"))
		o.pong = bytes.Equal(sc.out[before:], []byte("PONG\x00\xff"))
		return
	case strings.HasPrefix(act, "A"):
		if err := req.Abort(dialResultOf(act)); err != nil {
			o.note = "abort: " + err.Error()
		}
	}
	o.out = append([]byte(nil), sc.out...)
}

func (o obs) lineS() string {
	st := "-"
	if o.stream != nil || o.class == "ok" {
		st = hx(o.stream)
	}
	switch {
	case o.class == "ok":
		return fmt.Sprintf("ok %s %s %s %s", o.addr.field(), o.user, hx(o.out), st)
	case o.class == "udp" || strings.HasPrefix(o.class, "unsup:"):
		return fmt.Sprintf("%s %s %s %s -", o.class, o.addr.field(), o.user, hx(o.out))
	}
	return fmt.Sprintf("err:%s - - %s -", o.class, hx(o.out))
}

func runS5S(c Case) (o obs, cfgErr error) {
	var users []socks5.UserInfo
	for _, u := range c.Users {
		users = append(users, socks5.UserInfo{Username: string(unhx(u.U)), Password: string(unhx(u.P))})
	}
	cfg := socks5.StreamServerConfig{Users: users, EnableUserPassAuth: c.Auth, EnableTCP: c.TCP, EnableUDP: c.UDP}
	srv, err := shared(c.y, fmt.Sprintf("s5s %v %v %v %s", c.Auth, c.TCP, c.UDP, usersField(c.Users)), cfg.NewStreamServer)
	if err != nil {
		return o, err
	}
	o.y = c.y
	sc := newScriptConn(chunkBytes(c.Chunks), locAddr(c.Loc))
	req, err := srv.HandleStream(sc, zap.NewNop())
	o.hasPC = req.PendingConn != nil
	o.user = hx([]byte(req.Username))
	o.addr = fromConnAddr(req.Addr)
	o.out = append([]byte(nil), sc.out...)
	switch {
	case err == nil && o.hasPC:
		o.class = "ok"
		finish(req, sc, c.Act, &o)
		if c.Act != "P" {
			o.stream = nil
			o.class = "ok"
		}
	case err == nil:
		o.class = "other:nil error without pending conn"
	case errors.Is(err, netio.ErrHandleStreamDone):
		o.class = "udp"
	default:
		o.class = classify(err)
	}
	return o, nil
}

func (o obs) lineSAct(act string) string {
	if o.class == "ok" && act != "P" {
		return fmt.Sprintf("ok %s %s %s -", o.addr.field(), o.user, hx(o.out))
	}
	return o.lineS()
}

func runS5C(c Case) string {
	sc := newScriptConn(chunkBytes(c.Chunks), locAddr(A{"4", "7f000001", 1}))
	target, err := c.Addr.connAddr()
	if err != nil {
		return "cfg-error"
	}
	var bound conn.Addr
	if c.AuthMsg == "" {
		bound, err = socks5.ClientRequest(sc, byte(c.Cmd), target)
	} else {
		bound, err = socks5.ClientRequestUsernamePassword(sc, unhx(c.AuthMsg), byte(c.Cmd), target)
	}
	if err != nil {
		return fmt.Sprintf("err:%s - %s -", classify(err), hx(sc.out))
	}
	out := hx(sc.out)
	c.y.yield()
	return fmt.Sprintf("ok %s %s %s", fromConnAddr(bound).field(), out, hx(drain(sc, c.y)))
}

func runNoneS(c Case) (o obs) {
	sc := newScriptConn(chunkBytes(c.Chunks), locAddr(A{"4", "7f000001", 1}))
	req, err := ssnone.StreamServer{}.HandleStream(sc, zap.NewNop())
	if err != nil {
		o.class = classify(err)
		return
	}
	o.class = "ok"
	o.hasPC = req.PendingConn != nil
	o.addr = fromConnAddr(req.Addr)
	o.user = hx([]byte(req.Username))
	o.y = c.y
	if o.hasPC {
		finish(req, sc, "P", &o)
	}
	return
}

func (o obs) lineNone() string {
	if o.class != "ok" {
		return fmt.Sprintf("err:%s - -", o.class)
	}
	return fmt.Sprintf("ok %s %s", o.addr.field(), hx(o.stream))
}

// captureClient is a netio.StreamClient that records what it is asked to dial and send.
type captureClient struct {
	addr    conn.Addr
	payload []byte
	sc      *scriptConn
}

func (c *captureClient) NewStreamDialer() (netio.StreamDialer, netio.StreamDialerInfo) {
	return c, netio.StreamDialerInfo{Name: "capture", NativeInitialPayload: true}
}

func (c *captureClient) DialStream(_ ctxT, addr conn.Addr, payload []byte) (netio.Conn, error) {
	c.addr = addr
	c.payload = append([]byte(nil), payload...)
	if c.sc == nil {
		c.sc = newScriptConn(nil, locAddr(A{"4", "7f000001", 1}))
	}
	c.sc.out = append(c.sc.out, payload...)
	return c.sc, nil
}

func runNoneC(c Case) string {
	target, err := c.Addr.connAddr()
	if err != nil {
		return "cfg-error"
	}
	cc := &captureClient{}
	cl := (&ssnone.StreamClientConfig{Name: "n", InnerClient: cc, Addr: conn.AddrFromIPAndPort(netip.AddrFrom4([4]byte{127, 0, 0, 1}), 2)}).NewStreamClient()
	if _, err := cl.DialStream(bg(), target, unhx(c.Payload)); err != nil {
		return "err:" + err.Error()
	}
	return hx(cc.payload)
}

// ---------- the property oracle (from the statement; independent of the Lean model) ----------

// rfcReply: RFC 1928 section 6 reply for the outcome of the onward connection.
func rfcReply(code int) byte {
	switch code {
	case 0:
		return 0 // succeeded
	case 13: // EACCES: denied by policy
		return 2 // connection not allowed by ruleset
	case 100, 101, 102: // ENETDOWN ENETUNREACH ENETRESET
		return 3 // network unreachable
	case 112, 113: // EHOSTDOWN EHOSTUNREACH
		return 4 // host unreachable
	case 111: // ECONNREFUSED
		return 5 // connection refused
	}
	return 1 // general failure
}

func zeroBoundReply(rep byte) []byte { return []byte{5, rep, 0, 1, 0, 0, 0, 0, 0, 0} }

// configured: the password of the configured user `name` (a later entry replaces an earlier one).
func configured(us []User, name string) (string, bool) {
	for i := len(us) - 1; i >= 0; i-- {
		if us[i].U == name {
			return us[i].P, true
		}
	}
	return "", false
}

func oracleS5S(c Case, o obs) (key, detail string) {
	in := c.Intent
	want := byte(0)
	if c.Auth {
		want = 2
	}
	out := o.out
	take := func(n int) []byte {
		if len(out) < n {
			r := out
			out = nil
			return r
		}
		r := out[:n]
		out = out[n:]
		return r
	}
	offered := bytes.IndexByte(unhx(in.Methods), want) >= 0
	sel := take(2)
	if !offered {
		if !bytes.Equal(sel, []byte{5, 0xff}) || o.hasPC || o.class != "noacc" {
			return "socks5-method-selection", fmt.Sprintf("method %d not offered (%s) but the server answered %x class %s", want, in.Methods, sel, o.class)
		}
		return "", ""
	}
	if !bytes.Equal(sel, []byte{5, want}) {
		return "socks5-method-selection", fmt.Sprintf("method %d offered in %s, server answered %x (class %s)", want, in.Methods, sel, o.class)
	}
	if c.Auth {
		pw, ok := configured(c.Users, in.User)
		good := ok && pw == in.Pass
		st := take(2)
		if !good {
			if o.hasPC || o.class == "ok" || o.class == "udp" || strings.HasPrefix(o.class, "unsup") || (len(st) == 2 && st[1] == 0) {
				return "socks5-auth-gate-honours-wrong-credentials", fmt.Sprintf("user %s pass %s not configured, yet status %x class %s", in.User, in.Pass, st, o.class)
			}
			return "", ""
		}
		if !bytes.Equal(st, []byte{1, 0}) || o.class == "badcreds" {
			return "socks5-auth-gate-refuses-configured-user", fmt.Sprintf("user %s pass %s is configured, yet status %x class %s", in.User, in.Pass, st, o.class)
		}
		if o.user != hx(unhx(in.User)) {
			return "socks5-user-identity", fmt.Sprintf("client authenticated as %s, server reports %s", in.User, o.user)
		}
	} else if o.user != "-" {
		return "socks5-user-identity", fmt.Sprintf("no authentication, server reports user %s", o.user)
	}
	wantAddr := in.Addr.norm()
	switch {
	case in.Cmd == 1 && c.TCP:
		if o.class != "ok" || !o.hasPC {
			return "socks5-connect-refused", fmt.Sprintf("CONNECT with TCP enabled: class %s", o.class)
		}
		if o.addr != wantAddr {
			return "socks5-address", fmt.Sprintf("client asked %v, server extracted %v", wantAddr, o.addr)
		}
		switch {
		case c.Act == "P":
			if rp := take(10); !bytes.Equal(rp, zeroBoundReply(0)) {
				return "socks5-reply", fmt.Sprintf("Proceed wrote %x", rp)
			}
			if !bytes.Equal(o.stream, unhx(in.Early)) {
				return "socks5-early-data", fmt.Sprintf("client sent %s right behind the request, the tunnel delivers %x", in.Early, o.stream)
			}
			if !o.pong {
				return "socks5-write-after-handshake", "bytes written through the returned conn were altered"
			}
		case strings.HasPrefix(c.Act, "A"):
			// the reply is a function of the dial result CODE only, whatever error value accompanies it
			code := int(dialResultOf(c.Act).Code)
			if rp := take(10); !bytes.Equal(rp, zeroBoundReply(rfcReply(code))) {
				return "socks5-reply-code", fmt.Sprintf("dial result %s (code %d) must be reported as reply %d, wrote %x", c.Act[1:], code, rfcReply(code), rp)
			}
		}
	case in.Cmd == 3 && c.UDP:
		if o.class != "udp" {
			return "socks5-udp-associate", fmt.Sprintf("UDP ASSOCIATE with UDP enabled: class %s", o.class)
		}
		if o.addr != wantAddr {
			return "socks5-address", fmt.Sprintf("client asked %v, server extracted %v", wantAddr, o.addr)
		}
		wantRp := append([]byte{5, 0, 0}, c.Loc.socksBytes()...)
		if rp := take(len(wantRp)); !bytes.Equal(rp, wantRp) {
			return "socks5-udp-bound-address", fmt.Sprintf("reply %x, want %x", rp, wantRp)
		}
	default:
		if o.hasPC || o.class != fmt.Sprintf("unsup:%d", in.Cmd) {
			return "socks5-command-gate", fmt.Sprintf("command %d (tcp=%v udp=%v): class %s", in.Cmd, c.TCP, c.UDP, o.class)
		}
		if rp := take(10); !bytes.Equal(rp, zeroBoundReply(7)) {
			return "socks5-reply-code", fmt.Sprintf("unsupported command must be reported as reply 7, wrote %x", rp)
		}
	}
	if len(out) != 0 {
		return "socks5-extra-bytes", fmt.Sprintf("server wrote unexpected extra bytes %x", out)
	}
	return "", ""
}

// ---------- generators ----------

func genUsers(r *common.Rng) []User {
	n := common.Pick(r, []int{0, 1, 1, 2, 3})
	var us []User
	for i := 0; i < n; i++ {
		ul := common.Pick(r, []int{1, 1, 2, 3, 8, 254, 255, r.Range(1, 255)})
		pl := common.Pick(r, []int{1, 1, 2, 3, 8, 254, 255, r.Range(1, 255)})
		u := User{hex.EncodeToString(credBytes(r, ul)), hex.EncodeToString(credBytes(r, pl))}
		if i > 0 && r.Chance(1, 5) {
			u.U = us[0].U // duplicate user name: the later entry wins
		}
		if i > 0 && r.Chance(1, 6) {
			u.U = us[0].P // a user named like another user's password
		}
		us = append(us, u)
	}
	return us
}

func credBytes(r *common.Rng, n int) []byte {
	if r.Bool() {
		return r.Bytes(n)
	}
	const al = "abcdefghijklmnopqrstuvwxyz0123456789"
	b := make([]byte, n)
	for i := range b {
		b[i] = al[r.Intn(len(al))]
	}
	return b
}

// genCreds picks what the client presents: a configured pair, or a near miss.
func genCreds(r *common.Rng, us []User) (u, p string) {
	rnd := func() (string, string) {
		return hex.EncodeToString(credBytes(r, r.Range(1, 12))), hex.EncodeToString(credBytes(r, r.Range(1, 12)))
	}
	if len(us) == 0 {
		return rnd()
	}
	k := common.Pick(r, us)
	switch r.Intn(12) {
	case 0, 1, 2, 3, 4, 5:
		return k.U, k.P
	case 6: // password of another user
		return k.U, common.Pick(r, us).P
	case 7: // one byte off
		p := unhx(k.P)
		p[r.Intn(len(p))] ^= byte(1 << r.Intn(8))
		return k.U, hex.EncodeToString(p)
	case 8: // prefix / extension
		p := unhx(k.P)
		if len(p) > 1 && r.Bool() {
			return k.U, hex.EncodeToString(p[:len(p)-1])
		}
		if len(p) < 255 {
			return k.U, hex.EncodeToString(append(p, 0))
		}
		return k.U, hex.EncodeToString(p[:254])
	case 9: // swapped
		return k.P, k.U
	case 10: // right password, other name
		u, _ := rnd()
		return u, k.P
	default: // user name sent as password and vice versa around the overwrite
		return k.P, k.P
	}
}

func genMethods(r *common.Rng, auth bool) []byte {
	switch r.Intn(10) {
	case 0:
		return []byte{0}
	case 1:
		return []byte{2}
	case 2:
		return []byte{0, 2}
	case 3:
		return []byte{2, 0}
	case 4:
		return []byte{1, 0, 2}
	case 5: // wanted method last of a long list
		n := common.Pick(r, []int{2, 3, 254, 255})
		m := bytes.Repeat([]byte{0x80}, n)
		if auth {
			m[n-1] = 2
		} else {
			m[n-1] = 0
		}
		if r.Chance(1, 3) {
			m[n-1] = 0x81
		}
		return m
	case 6:
		return r.Bytes(common.Pick(r, []int{1, 2, 3, 5, 255}))
	default:
		if auth {
			return []byte{2}
		}
		return []byte{0}
	}
}

func ownAuthMsg(u, p string) []byte {
	ub, pb := unhx(u), unhx(p)
	m := append([]byte{1, byte(len(ub))}, ub...)
	m = append(m, byte(len(pb)))
	return append(m, pb...)
}

func genLoc(r *common.Rng) A {
	if r.Bool() {
		return A{"4", hex.EncodeToString(r.Bytes(4)), r.Intn(65536)}
	}
	ip := r.Bytes(16)
	if r.Chance(1, 3) {
		ip = append([]byte{0, 0, 0, 0, 0, 0, 0, 0, 0, 0, 0xff, 0xff}, r.Bytes(4)...)
	}
	return A{"6", hex.EncodeToString(ip), r.Intn(65536)}
}

func genAct(r *common.Rng) string {
	switch r.Intn(6) {
	case 0, 1, 2:
		return "P"
	case 3:
		return "N"
	default:
		code := common.Pick(r, []int{0, 13, 100, 101, 102, 103, 104, 110, 111, 112, 113, 254, 255, r.Intn(256)})
		errnos := []int{13, 100, 101, 102, 103, 104, 110, 111, 112, 113, 1, 32}
		var e string
		switch r.Intn(9) {
		case 0:
			return fmt.Sprintf("A%d", code)
		case 1:
			e = "nil"
		case 2: // the matching errno
			e = fmt.Sprintf("errno%d", code)
		case 3: // a NON-matching errno
			e = fmt.Sprintf("errno%d", common.Pick(r, errnos))
		case 4: // wrapped errno (net.OpError / os.SyscallError / fmt %w), matching or not
			e = fmt.Sprintf("werrno%d", common.Pick(r, append(errnos, code)))
		case 5:
			e = common.Pick(r, []string{"dns", "dnsnf"})
		case 6:
			e = "rejected"
		default:
			e = fmt.Sprintf("opaque%d", r.Intn(3))
		}
		return fmt.Sprintf("A%d:%s", code, e)
	}
}

// dialResultOf builds the conn.DialResult of an act `A<code>[:<err>]`: every Code x Err combination a caller
// (relay, router) can hand to Abort.
func dialResultOf(act string) conn.DialResult {
	var code, k int
	spec := strings.SplitN(act[1:], ":", 2)
	fmt.Sscanf(spec[0], "%d", &code)
	dr := conn.DialResult{Code: conn.DialResultCode(code)}
	if len(spec) == 1 {
		return dr
	}
	e := spec[1]
	switch {
	case e == "nil":
	case e == "dns":
		dr.Err = &net.DNSError{Err: "server misbehaving", Name: "x.test", IsTemporary: true}
	case e == "dnsnf":
		dr.Err = &net.DNSError{Err: "no such host", Name: "x.test", IsNotFound: true}
	case e == "rejected":
		dr.Err = router.ErrRejected
	case strings.HasPrefix(e, "werrno"):
		fmt.Sscanf(e[6:], "%d", &k)
		dr.Err = fmt.Errorf("dial failed: %w", &net.OpError{Op: "dial", Net: "tcp", Err: os.NewSyscallError("connect", syscall.Errno(k))})
	case strings.HasPrefix(e, "errno"):
		fmt.Sscanf(e[5:], "%d", &k)
		dr.Err = syscall.Errno(k)
	case strings.HasPrefix(e, "opaque"):
		fmt.Sscanf(e[6:], "%d", &k)
		dr.Err = []error{errors.New("connection refused by policy"), errors.New("no route"), io.ErrUnexpectedEOF}[k%3]
	}
	return dr
}

func genEarly(r *common.Rng) []byte {
	switch r.Intn(5) {
	case 0:
		return nil
	case 1:
		return []byte("E")
	case 2:
		return []byte("GET / HTTP/1.1\r\nHost: x\r\n\r\n")
	case 3:
		return r.Bytes(r.Range(1, 40))
	default:
		return r.Bytes(common.Pick(r, []int{1, 5, 300, 4095, 4096, 4097, 5000}))
	}
}

// clientStream runs the REAL socks5 client against canned good answers and returns what it wrote,
// with the message boundaries.
func clientStream(in *Intent, auth bool) (stream []byte, bounds []int, err error) {
	target, err := in.Addr.connAddr()
	if err != nil {
		return nil, nil, err
	}
	replies := []byte{5, 0}
	if auth {
		replies = []byte{5, 2, 1, 0}
	}
	replies = append(replies, zeroBoundReply(0)...)
	sc := newScriptConn([][]byte{replies}, nil)
	if auth {
		ui := socks5.UserInfo{Username: string(unhx(in.User)), Password: string(unhx(in.Pass))}
		if err := ui.Validate(); err != nil {
			return nil, nil, err
		}
		_, err = socks5.ClientRequestUsernamePassword(sc, ui.AppendAuthMsg(nil), byte(in.Cmd), target)
	} else {
		_, err = socks5.ClientRequest(sc, byte(in.Cmd), target)
	}
	if err != nil {
		return nil, nil, err
	}
	stream = sc.out
	bounds = []int{3}
	if auth {
		bounds = append(bounds, 3+len(ownAuthMsg(in.User, in.Pass)))
	}
	return stream, bounds, nil
}

func genS5SValid(r *common.Rng) Case {
	c := Case{Kind: "s5s", Auth: r.Bool(), TCP: !r.Chance(1, 6), UDP: r.Chance(1, 3), Loc: genLoc(r), Act: genAct(r)}
	if c.Auth {
		c.Users = genUsers(r)
	}
	in := &Intent{Addr: genAddr(r), Cmd: common.Pick(r, []int{1, 1, 1, 1, 3, 3, 2, r.Intn(256)})}
	if in.Addr.Kind == "z" {
		in.Addr = A{"4", "01020304", 5}
	}
	if c.Auth {
		in.User, in.Pass = genCreds(r, c.Users)
	}
	in.Early = hex.EncodeToString(genEarly(r))
	var stream []byte
	var bounds []int
	methods := genMethods(r, c.Auth)
	want := byte(0)
	if c.Auth {
		want = 2
	}
	if len(methods) == 1 && methods[0] == want {
		// the real client's own bytes
		s, b, err := clientStream(in, c.Auth)
		if err != nil {
			return Case{Kind: "mkaddr", Addr: in.Addr, Probe: err.Error()}
		}
		stream, bounds = s, b
	} else {
		stream = append([]byte{5, byte(len(methods))}, methods...)
		bounds = []int{len(stream)}
		if c.Auth {
			stream = append(stream, ownAuthMsg(in.User, in.Pass)...)
			bounds = append(bounds, len(stream))
		}
		stream = append(stream, 5, byte(in.Cmd), 0)
		stream = append(stream, in.Addr.socksBytes()...)
	}
	in.Methods = hex.EncodeToString(methods)
	bounds = append(bounds, len(stream))
	stream = append(stream, unhx(in.Early)...)
	c.Chunks = fragment(r, stream, bounds)
	c.Intent = in
	return c
}

// mutate damages a valid stream (the oracle then no longer knows the client's intent).
func mutate(r *common.Rng, s []byte) []byte {
	s = append([]byte(nil), s...)
	if len(s) == 0 {
		return r.Bytes(r.Range(0, 8))
	}
	switch r.Intn(7) {
	case 0:
		s[r.Intn(len(s))] = byte(r.Intn(256))
	case 1:
		s = s[:r.Intn(len(s))]
	case 2:
		i := r.Intn(len(s))
		s = append(s[:i], append([]byte{byte(r.Intn(256))}, s[i:]...)...)
	case 3:
		i := r.Intn(len(s))
		s = append(s[:i], s[i+1:]...)
	case 4: // small values at a position near the front (lengths, versions, types)
		s[r.Intn(min(len(s), 8))] = byte(r.Intn(6))
	case 5:
		s[r.Intn(len(s))] ^= byte(1 << r.Intn(8))
	default:
		s[r.Intn(min(len(s), 6))] = common.Pick(r, []byte{0, 1, 2, 3, 4, 5, 0xff})
	}
	return s
}

func flat(chunks []string) []byte {
	var b []byte
	for _, c := range chunks {
		b = append(b, unhx(c)...)
	}
	return b
}

func genS5SMutated(r *common.Rng) Case {
	c := genS5SValid(r)
	s := flat(c.Chunks)
	for i := r.Range(1, 2); i > 0; i-- {
		s = mutate(r, s)
	}
	c.Intent = nil
	c.Chunks = fragment(r, s, []int{3, 5, 8})
	return c
}

func genS5C(r *common.Rng) Case {
	c := Case{Kind: "s5c", Cmd: common.Pick(r, []int{1, 1, 3, r.Intn(256)}), Addr: genAddr(r)}
	if r.Chance(1, 12) {
		c.Addr = A{Kind: "z"}
	}
	auth := r.Bool()
	want := 0
	if auth {
		u, p := hex.EncodeToString(credBytes(r, common.Pick(r, []int{1, 2, 255, r.Range(1, 255)}))), hex.EncodeToString(credBytes(r, common.Pick(r, []int{1, 2, 255, r.Range(1, 255)})))
		c.AuthMsg = hex.EncodeToString(ownAuthMsg(u, p))
		want = 2
	}
	sv := &SrvScript{Method: want, Bound: genAddr(r), Valid: true}
	if sv.Bound.Kind == "z" {
		sv.Bound = A{"4", "00000000", 0}
	}
	if r.Chance(1, 8) {
		sv.Method = common.Pick(r, []int{0, 2, 0xff, 1})
	}
	if r.Chance(1, 6) {
		sv.Status = common.Pick(r, []int{1, 0xff})
	}
	if r.Chance(1, 4) {
		sv.Rep = common.Pick(r, []int{1, 2, 3, 4, 5, 6, 7, 8, 9, 0xff})
	}
	sv.Early = hex.EncodeToString(genEarly(r))
	s := []byte{5, byte(sv.Method)}
	bounds := []int{2}
	if auth {
		s = append(s, 1, byte(sv.Status))
		bounds = append(bounds, 4)
	}
	s = append(s, 5, byte(sv.Rep), 0)
	s = append(s, sv.Bound.socksBytes()...)
	bounds = append(bounds, len(s))
	s = append(s, unhx(sv.Early)...)
	if r.Chance(1, 5) {
		s = mutate(r, s)
		sv.Valid = false
	}
	c.Chunks = fragment(r, s, bounds)
	c.Srv = sv
	return c
}

// oracleS5C: the outcome the server reported reaches the caller; nothing behind the reply is lost.
func oracleS5C(c Case, line string) (string, string) {
	sv := c.Srv
	if sv == nil || !sv.Valid {
		return "", ""
	}
	f := strings.Fields(line)
	auth := c.AuthMsg != ""
	want := 0
	if auth {
		want = 2
	}
	switch {
	case sv.Method != want:
		if f[0] == "ok" {
			return "socks5-client-method", fmt.Sprintf("server selected method %d, client went on: %s", sv.Method, f[0])
		}
	case auth && sv.Status != 0:
		if f[0] != "err:badcreds" {
			return "socks5-client-auth-status", fmt.Sprintf("server refused the credentials (status %d), client: %s", sv.Status, f[0])
		}
	case sv.Rep != 0:
		if f[0] != fmt.Sprintf("err:rep:%d", sv.Rep) {
			return "socks5-client-reply", fmt.Sprintf("server reported reply %d, client: %s", sv.Rep, f[0])
		}
	default:
		if f[0] != "ok" {
			return "socks5-client-reply", fmt.Sprintf("server reported success, client: %s", f[0])
		}
		if f[1] != sv.Bound.norm().field() {
			return "socks5-client-bound-address", fmt.Sprintf("server bound %v, client got %s", sv.Bound, f[1])
		}
		e := "-"
		if sv.Early != "" {
			e = sv.Early
		}
		if f[3] != e {
			return "socks5-client-early-data", fmt.Sprintf("server sent %s behind the reply, client side reads %s", e, f[3])
		}
		// the request the client wrote names what it was asked to reach
		req := append([]byte{5, byte(c.Cmd), 0}, c.Addr.socksBytes()...)
		if !bytes.HasSuffix(unhx(f[2]), req) {
			return "socks5-client-request", fmt.Sprintf("asked to reach %v cmd %d, wrote %s", c.Addr, c.Cmd, f[2])
		}
	}
	return "", ""
}

func genNone(r *common.Rng) Case {
	in := &Intent{Addr: genAddr(r)}
	payload := genEarly(r)
	early := genEarly(r)
	target, err := in.Addr.connAddr()
	if err != nil {
		return Case{Kind: "mkaddr", Addr: in.Addr, Probe: err.Error()}
	}
	cc := &captureClient{}
	cl := (&ssnone.StreamClientConfig{Name: "n", InnerClient: cc, Addr: conn.AddrFromIPAndPort(netip.AddrFrom4([4]byte{127, 0, 0, 1}), 2)}).NewStreamClient()
	if _, err := cl.DialStream(bg(), target, payload); err != nil {
		return Case{Kind: "mkaddr", Addr: in.Addr, Probe: err.Error()}
	}
	s := append([]byte(nil), cc.payload...)
	hl := len(s) - len(payload)
	s = append(s, early...)
	in.Early = hex.EncodeToString(append(append([]byte(nil), payload...), early...))
	c := Case{Kind: "nones", Intent: in}
	if r.Chance(1, 4) {
		s = mutate(r, s)
		c.Intent = nil
	}
	c.Chunks = fragment(r, s, []int{hl, len(s) - len(early)})
	return c
}

func oracleNone(c Case, o obs) (string, string) {
	in := c.Intent
	if o.class != "ok" {
		return "none-refused", "genuine request refused: " + o.class
	}
	if o.addr != in.Addr.norm() {
		return "none-address", fmt.Sprintf("client asked %v, server extracted %v", in.Addr.norm(), o.addr)
	}
	if !bytes.Equal(o.stream, unhx(in.Early)) {
		return "none-payload", fmt.Sprintf("client sent %s behind the address, the tunnel delivers %x", in.Early, o.stream)
	}
	if !o.pong {
		return "none-write-after-handshake", "bytes written through the returned conn were altered"
	}
	return "", ""
}
