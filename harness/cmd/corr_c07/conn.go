package main

import (
	"encoding/hex"
	"errors"
	"fmt"
	"io"
	"net"
	"net/netip"
	"strings"
	"time"

	"ssvharness/internal/common"

	"github.com/database64128/shadowsocks-go/conn"
)

// scriptConn is a netio.Conn whose peer has already written everything it will ever write, delivered
// in scripted pieces: every Read returns at most the rest of the current piece, then io.EOF.
// Everything written is recorded. Single-goroutine, fully deterministic.
type scriptConn struct {
	chunks [][]byte
	out    []byte
	local  net.Addr
	reads  int
}

func newScriptConn(chunks [][]byte, local net.Addr) *scriptConn {
	c := &scriptConn{local: local}
	for _, ch := range chunks {
		c.chunks = append(c.chunks, append([]byte(nil), ch...))
	}
	return c
}

func (c *scriptConn) Read(p []byte) (int, error) {
	for len(c.chunks) > 0 && len(c.chunks[0]) == 0 {
		c.chunks = c.chunks[1:]
	}
	if len(p) == 0 {
		return 0, nil
	}
	if len(c.chunks) == 0 {
		return 0, io.EOF
	}
	c.reads++
	n := copy(p, c.chunks[0])
	c.chunks[0] = c.chunks[0][n:]
	return n, nil
}

func (c *scriptConn) rest() []byte {
	var b []byte
	for _, ch := range c.chunks {
		b = append(b, ch...)
	}
	return b
}

func (c *scriptConn) Write(p []byte) (int, error)      { c.out = append(c.out, p...); return len(p), nil }
func (c *scriptConn) Close() error                     { return nil }
func (c *scriptConn) CloseWrite() error                { return nil }
func (c *scriptConn) LocalAddr() net.Addr              { return c.local }
func (c *scriptConn) RemoteAddr() net.Addr             { return &net.TCPAddr{IP: net.IPv4(127, 0, 0, 1), Port: 1} }
func (c *scriptConn) SetDeadline(time.Time) error      { return nil }
func (c *scriptConn) SetReadDeadline(time.Time) error  { return nil }
func (c *scriptConn) SetWriteDeadline(time.Time) error { return nil }

// ---------- wire helpers of the line protocol ----------

func hx(b []byte) string {
	if len(b) == 0 {
		return "-"
	}
	return hex.EncodeToString(b)
}

func unhx(s string) []byte {
	if s == "-" || s == "" {
		return nil
	}
	b, err := hex.DecodeString(s)
	if err != nil {
		panic(fmt.Sprintf("bad hex %q", s))
	}
	return b
}

func chunksField(chunks []string) string {
	if len(chunks) == 0 {
		return "-"
	}
	return strings.Join(chunks, "/")
}

func chunkBytes(chunks []string) [][]byte {
	var r [][]byte
	for _, c := range chunks {
		r = append(r, unhx(c))
	}
	return r
}

// A is the harness's own address value (independent of conn.Addr): kind 4 | 6 | d | z.
type A struct {
	Kind string `json:"k"`
	Host string `json:"h"` // hex of the 4/16 address bytes or of the domain name
	Port int    `json:"p"`
}

func (a A) field() string {
	if a.Kind == "z" {
		return "z"
	}
	return fmt.Sprintf("%s:%s:%d", a.Kind, a.Host, a.Port)
}

// connAddr builds the conn.Addr the client is asked to reach.
func (a A) connAddr() (conn.Addr, error) {
	switch a.Kind {
	case "4":
		return conn.AddrFromIPAndPort(netip.AddrFrom4([4]byte(unhx(a.Host))), uint16(a.Port)), nil
	case "6":
		return conn.AddrFromIPAndPort(netip.AddrFrom16([16]byte(unhx(a.Host))), uint16(a.Port)), nil
	case "d":
		return conn.AddrFromDomainPort(string(unhx(a.Host)), uint16(a.Port))
	}
	return conn.Addr{}, nil
}

// norm: what a SOCKS address can carry (documented: IPv4-mapped IPv6 -> IPv4; zero value -> 0.0.0.0:0).
func (a A) norm() A {
	switch a.Kind {
	case "z":
		return A{Kind: "4", Host: "00000000", Port: 0}
	case "6":
		if strings.HasPrefix(a.Host, "00000000000000000000ffff") {
			return A{Kind: "4", Host: a.Host[24:], Port: a.Port}
		}
	}
	return a
}

// fromConnAddr renders what the implementation extracted.
func fromConnAddr(a conn.Addr) A {
	switch {
	case !a.IsValid():
		return A{Kind: "z"}
	case a.IsIP():
		ip := a.IP()
		if ip.Is4() {
			b := ip.As4()
			return A{Kind: "4", Host: hex.EncodeToString(b[:]), Port: int(a.Port())}
		}
		b := ip.As16()
		return A{Kind: "6", Host: hex.EncodeToString(b[:]), Port: int(a.Port())}
	default:
		return A{Kind: "d", Host: hex.EncodeToString([]byte(a.Domain())), Port: int(a.Port())}
	}
}

// socksBytes: the harness's own SOCKS address encoder (RFC 1928 section 5), used by the oracle and to build streams.
func (a A) socksBytes() []byte {
	a = a.norm()
	var b []byte
	switch a.Kind {
	case "4":
		b = append([]byte{1}, unhx(a.Host)...)
	case "6":
		b = append([]byte{4}, unhx(a.Host)...)
	case "d":
		h := unhx(a.Host)
		b = append([]byte{3, byte(len(h))}, h...)
	}
	return append(b, byte(a.Port>>8), byte(a.Port))
}

func genAddr(r *common.Rng) A {
	port := common.Pick(r, []int{0, 1, 80, 255, 256, 443, 65535, 65280, r.Intn(65536), r.Intn(65536)})
	switch r.Intn(10) {
	case 0, 1, 2:
		ip := r.Bytes(4)
		switch r.Intn(6) {
		case 0:
			ip = []byte{0, 0, 0, 0}
		case 1:
			ip = []byte{255, 255, 255, 255}
		}
		return A{"4", hex.EncodeToString(ip), port}
	case 3, 4:
		ip := r.Bytes(16)
		switch r.Intn(8) {
		case 0:
			ip = make([]byte, 16)
		case 1: // IPv4-mapped
			ip = append([]byte{0, 0, 0, 0, 0, 0, 0, 0, 0, 0, 0xff, 0xff}, r.Bytes(4)...)
		case 2: // almost mapped
			ip = append([]byte{0, 0, 0, 0, 0, 0, 0, 0, 0, 0, 0xff, 0xfe}, r.Bytes(4)...)
		case 3: // runs of zeros
			for i := 2; i < 12; i++ {
				ip[i] = 0
			}
		case 4:
			ip[0], ip[1], ip[14], ip[15] = 0, 0, 0, 0
		}
		return A{"6", hex.EncodeToString(ip), port}
	default:
		n := common.Pick(r, []int{1, 2, 3, 11, 63, 127, 253, 254, 255, 255, r.Range(1, 255)})
		var name []byte
		switch r.Intn(4) {
		case 0: // every byte value
			name = r.Bytes(n)
		case 1: // looks like a host name
			name = hostish(r, n)
		case 2: // spells an IP literal / has structure characters
			name = []byte(common.Pick(r, []string{"1.2.3.4", "::1", "[::1]", "a:b", "a b", "a\r\nb", "1.2.3", "256.1.1.1", "01.2.3.4", "a%b", "xn--e1afmkfd.xn--p1ai", "0", "a/b", "a?b", "a#b", "u@h"}))
		default:
			name = hostish(r, n)
			name[r.Intn(n)] = byte(r.Intn(256))
		}
		return A{"d", hex.EncodeToString(name), port}
	}
}

func hostish(r *common.Rng, n int) []byte {
	const al = "abcdefghijklmnopqrstuvwxyzABCDEFGHIJKLMNOPQRSTUVWXYZ0123456789-._"
	b := make([]byte, n)
	for i := range b {
		b[i] = al[r.Intn(len(al))]
	}
	return b
}

// ---------- fragmentation ----------

// fragment cuts stream into scripted pieces. bounds are the message boundaries inside it.
func fragment(r *common.Rng, stream []byte, bounds []int) []string {
	n := len(stream)
	if n == 0 {
		return nil
	}
	cut := map[int]bool{}
	switch r.Intn(8) {
	case 0: // one segment: everything coalesced (early data rides with the handshake)
	case 1: // byte by byte
		for i := 1; i < n; i++ {
			cut[i] = true
		}
	case 2: // the writer's own chunks
		for _, b := range bounds {
			cut[b] = true
		}
	case 3: // boundaries shifted by one
		for _, b := range bounds {
			cut[b+r.Range(-1, 1)] = true
		}
	case 4: // a few random cuts
		for i := r.Range(1, 4); i > 0; i-- {
			cut[r.Range(1, max(1, n-1))] = true
		}
	case 5: // random density
		d := r.Range(2, 12)
		for i := 1; i < n; i++ {
			if r.Intn(d) == 0 {
				cut[i] = true
			}
		}
	case 6: // one cut near the last boundary (head | early)
		if len(bounds) > 0 {
			cut[bounds[len(bounds)-1]+r.Range(-2, 3)] = true
		}
	default: // some boundaries kept, some coalesced
		for _, b := range bounds {
			if r.Bool() {
				cut[b] = true
			}
		}
	}
	return cutAt(stream, cut)
}

func cutAt(stream []byte, cut map[int]bool) []string {
	var res []string
	last := 0
	for i := 1; i < len(stream); i++ {
		if cut[i] {
			res = append(res, hex.EncodeToString(stream[last:i]))
			last = i
		}
	}
	return append(res, hex.EncodeToString(stream[last:]))
}

// fragmentMask cuts after byte i+1 iff bit i of mask is set (all 2^(n-1) fragmentations).
func fragmentMask(stream []byte, mask uint64) []string {
	cut := map[int]bool{}
	for i := 0; i < len(stream)-1; i++ {
		if mask>>uint(i)&1 == 1 {
			cut[i+1] = true
		}
	}
	return cutAt(stream, cut)
}

var errNotRun = errors.New("not run")
