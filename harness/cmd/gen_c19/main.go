// gen_c19: regenerates lean/SSV/Gen/C19.lean from /repo: the constants, expression shapes and
// comparison operators of clientgroups/{clientgroups,probe}.go that the C19 theorems depend on.
//
// Every statement the model mirrors is matched against its expected shape; anything else is
// reported as GEN-BROKEN (the tie is broken, the check then searches for a failing input).
// What is *data* for the model (and may change without breaking the translator): ring sizes,
// defaults, the comparison operator of each best-of loop, the initial "best" of each loop,
// the value recorded for a failed latency probe, the round-robin mask / initial counter.
package main

import (
	"fmt"
	"go/ast"
	"go/token"
	"math/big"
	"regexp"
	"strings"

	"ssvharness/internal/gen"
)

func main() {
	gen.Main("C19", func(c *gen.Ctx, l *gen.Lean) error {
		p, err := c.Load("clientgroups")
		if err != nil {
			return err
		}
		if err := l.Consts(p, "latencyProbeResultSize", "defaultProbeTimeout", "defaultProbeInterval", "defaultProbeConcurrency"); err != nil {
			return err
		}
		l.Raw("/-- comparison operator of an improvement test -/\ninductive CmpOp where\n  | lt | le | gt | ge\n  deriving DecidableEq, Repr\n")
		l.Raw("/-- a value the code uses as initial best / failure record -/\ninductive Val where\n  | zero | timeout\n  deriving DecidableEq, Repr\n")
		l.Raw("/-- the instant a per-probe deadline / latency measurement is counted from -/\ninductive Base where\n  | jobStart | roundStart\n  deriving DecidableEq, Repr\n")
		if err := roundRobin(p, l); err != nil {
			return err
		}
		if err := randomSel(p, l); err != nil {
			return err
		}
		if err := availJob(p, l); err != nil {
			return err
		}
		if err := latencyJob(p, l); err != nil {
			return err
		}
		for _, lp := range []loopSpec{
			{fn: "probeAvailability", lean: "avail", score: "successCount", best: "bestSuccessCount",
				scoreStmts: []string{"successCount := bits.OnesCount(result)"}},
			{fn: "probeLatency", lean: "lat", score: "avgLatency", best: "bestAvgLatency",
				scoreStmts: []string{"var avgLatency time.Duration", "for _, latency := range result { avgLatency += latency }", "avgLatency /= time.Duration(len(result))"}},
			{fn: "probeMinMaxLatency", lean: "minmax", score: "maxLatency", best: "bestMaxLatency",
				scoreStmts: []string{"maxLatency := slices.Max(result[:])"}},
		} {
			if err := bestLoop(p, l, lp); err != nil {
				return err
			}
		}
		if err := concurrency(p, l); err != nil {
			return err
		}
		return atomicSelector(p, l)
	})
}

func want(p *gen.Pkg, what string, n ast.Node, expected string) error {
	if got := p.Src(n); got != expected {
		return fmt.Errorf("%s: expected `%s`, source has `%s`", what, expected, got)
	}
	return nil
}

// ---------- round-robin ----------

func roundRobin(p *gen.Pkg, l *gen.Lean) error {
	fd, err := p.Func("*roundRobinClientSelector[C]", "Select")
	if err != nil {
		return err
	}
	if len(fd.Body.List) != 2 {
		return fmt.Errorf("roundRobinClientSelector.Select: expected 2 statements, found %d", len(fd.Body.List))
	}
	// const uintptrToNonNegativeInt = ^uintptr(0) >> 1
	ds, ok := fd.Body.List[0].(*ast.DeclStmt)
	if !ok {
		return fmt.Errorf("roundRobinClientSelector.Select: first statement is not a declaration: %s", p.Src(fd.Body.List[0]))
	}
	gd := ds.Decl.(*ast.GenDecl)
	if gd.Tok != token.CONST || len(gd.Specs) != 1 {
		return fmt.Errorf("roundRobinClientSelector.Select: unexpected declaration %s", p.Src(ds))
	}
	vs := gd.Specs[0].(*ast.ValueSpec)
	if len(vs.Names) != 1 || vs.Names[0].Name != "uintptrToNonNegativeInt" || len(vs.Values) != 1 {
		return fmt.Errorf("roundRobinClientSelector.Select: unexpected constant %s", p.Src(ds))
	}
	mask, ok := p.EvalInt(vs.Values[0])
	if !ok {
		return fmt.Errorf("roundRobinClientSelector.Select: mask %s is not a constant", p.Src(vs.Values[0]))
	}
	// return s.clients[int(s.index.Add(1)&uintptrToNonNegativeInt)%len(s.clients)]
	rs, ok := fd.Body.List[1].(*ast.ReturnStmt)
	if !ok || len(rs.Results) != 1 {
		return fmt.Errorf("roundRobinClientSelector.Select: second statement is not a single-value return: %s", p.Src(fd.Body.List[1]))
	}
	const canon = "s.clients[int(s.index.Add(1)&uintptrToNonNegativeInt)%len(s.clients)]"
	if err := want(p, "round-robin selection expression", rs.Results[0], canon); err != nil {
		return err
	}
	// structure (so that operator precedence is what the model assumes): ((Add(1) & mask) as int) % len
	ix := rs.Results[0].(*ast.IndexExpr)
	mod, ok := ix.Index.(*ast.BinaryExpr)
	if !ok || mod.Op != token.REM {
		return fmt.Errorf("round-robin: index is not `x %% len`: %s", p.Src(ix.Index))
	}
	conv, ok := mod.X.(*ast.CallExpr)
	if !ok || p.Src(conv.Fun) != "int" || len(conv.Args) != 1 {
		return fmt.Errorf("round-robin: left operand of %% is not int(...): %s", p.Src(mod.X))
	}
	and, ok := conv.Args[0].(*ast.BinaryExpr)
	if !ok || and.Op != token.AND || p.Src(and.X) != "s.index.Add(1)" || p.Src(and.Y) != "uintptrToNonNegativeInt" {
		return fmt.Errorf("round-robin: masked counter is not `s.index.Add(1)&uintptrToNonNegativeInt`: %s", p.Src(conv.Args[0]))
	}
	// the counter is an atomic.Uintptr
	if tv, ok := p.Info.Types[and.X]; !ok || tv.Type.String() != "uintptr" {
		return fmt.Errorf("round-robin: s.index.Add(1) is not a uintptr")
	}
	// init: s.index.Store(^uintptr(0))
	fi, err := p.Func("*roundRobinClientSelector[C]", "init")
	if err != nil {
		return err
	}
	var initVal string
	for _, st := range fi.Body.List {
		if es, ok := st.(*ast.ExprStmt); ok {
			if ce, ok := es.X.(*ast.CallExpr); ok && p.Src(ce.Fun) == "s.index.Store" && len(ce.Args) == 1 {
				v, ok := p.EvalInt(ce.Args[0])
				if !ok {
					return fmt.Errorf("round-robin init: %s is not a constant", p.Src(ce.Args[0]))
				}
				initVal = v
				continue
			}
		}
		if p.Src(st) != "s.clients = clients" {
			return fmt.Errorf("round-robin init: unexpected statement %s", p.Src(st))
		}
	}
	if initVal == "" {
		return fmt.Errorf("round-robin init: no s.index.Store(const)")
	}
	l.Comment("roundRobinClientSelector.Select returns %s", canon)
	l.NatDef("rrMask", mask, "clientgroups: const uintptrToNonNegativeInt = "+p.Src(vs.Values[0]))
	l.NatDef("rrInit", initVal, "clientgroups: roundRobinClientSelector.init stores this in the counter")
	// the width of uintptr as the type checker sees it: ^uintptr(0) = 2^w - 1
	allOnes, ok := new(big.Int).SetString(initValAllOnes(p), 10)
	if !ok {
		return fmt.Errorf("round-robin: cannot evaluate ^uintptr(0)")
	}
	w := new(big.Int).Add(allOnes, big.NewInt(1))
	if w.BitLen() < 2 || new(big.Int).Lsh(big.NewInt(1), uint(w.BitLen()-1)).Cmp(w) != 0 {
		return fmt.Errorf("round-robin: ^uintptr(0)+1 = %s is not a power of two", w)
	}
	l.NatDef("rrWordBits", fmt.Sprint(w.BitLen()-1), "uintptr width for the target (the counter wraps modulo 2^rrWordBits)")
	return nil
}

// initValAllOnes evaluates ^uintptr(0) with the package's type information (it is the operand of the mask constant).
func initValAllOnes(p *gen.Pkg) string {
	res := ""
	for _, f := range p.Files {
		ast.Inspect(f, func(n ast.Node) bool {
			if u, ok := n.(*ast.UnaryExpr); ok && u.Op == token.XOR && p.Src(u) == "^uintptr(0)" {
				if v, ok := p.EvalInt(u); ok {
					res = v
				}
			}
			return true
		})
	}
	return res
}

func randomSel(p *gen.Pkg, l *gen.Lean) error {
	fd, err := p.Func("*randomClientSelector[C]", "Select")
	if err != nil {
		return err
	}
	if len(fd.Body.List) != 1 {
		return fmt.Errorf("randomClientSelector.Select: expected 1 statement")
	}
	rs, ok := fd.Body.List[0].(*ast.ReturnStmt)
	if !ok || len(rs.Results) != 1 {
		return fmt.Errorf("randomClientSelector.Select: not a single return")
	}
	if err := want(p, "random selection expression", rs.Results[0], "s.clients[rand.IntN(len(s.clients))]"); err != nil {
		return err
	}
	l.Comment("randomClientSelector.Select returns s.clients[rand.IntN(len(s.clients))]")
	return nil
}

// ---------- probe jobs ----------

// errIf finds `if err := j.probe(ctx, j.client); err == nil { A } else { B }` as the last statement of Run.
func errIf(p *gen.Pkg, fd *ast.FuncDecl) (thenS, elseS ast.Stmt, err error) {
	last, ok := fd.Body.List[len(fd.Body.List)-1].(*ast.IfStmt)
	if !ok {
		return nil, nil, fmt.Errorf("%s: last statement is not an if", fd.Name.Name)
	}
	if last.Init == nil || p.Src(last.Init) != "err := j.probe(ctx, j.client)" || p.Src(last.Cond) != "err == nil" {
		return nil, nil, fmt.Errorf("%s: unexpected probe call/condition: `%s; %s`", fd.Name.Name, p.Src(last.Init), p.Src(last.Cond))
	}
	eb, ok := last.Else.(*ast.BlockStmt)
	if !ok || len(last.Body.List) != 1 || len(eb.List) != 1 {
		return nil, nil, fmt.Errorf("%s: success/failure branches are not single statements", fd.Name.Name)
	}
	return last.Body.List[0], eb.List[0], nil
}

func availJob(p *gen.Pkg, l *gen.Lean) error {
	fd, err := p.Func("*availabilityProbeJob[C]", "Run")
	if err != nil {
		return err
	}
	pre := []string{"defer j.wg.Done()", "", "defer cancel()", "mask := uint(1) << (j.count % bits.UintSize)"}
	if len(fd.Body.List) != len(pre)+1 {
		return fmt.Errorf("availabilityProbeJob.Run: expected %d statements, found %d", len(pre)+1, len(fd.Body.List))
	}
	for i, w := range pre {
		if w == "" {
			continue
		}
		if err := want(p, "availabilityProbeJob.Run statement", fd.Body.List[i], w); err != nil {
			return err
		}
	}
	// the probe's deadline: counted from the start of THIS job (context.WithTimeout inside Run), or handed in by the dispatcher
	availBase, err := deadlineBase(p, "availabilityProbeJob.Run", fd.Body.List[1], false)
	if err != nil {
		return err
	}
	// ring size = bits.UintSize as the type checker evaluates it
	as := fd.Body.List[3].(*ast.AssignStmt)
	sh := as.Rhs[0].(*ast.BinaryExpr)
	par := sh.Y.(*ast.ParenExpr)
	rem := par.X.(*ast.BinaryExpr)
	if rem.Op != token.REM {
		return fmt.Errorf("availabilityProbeJob.Run: ring index is not a %%")
	}
	bitsN, ok := p.EvalInt(rem.Y)
	if !ok {
		return fmt.Errorf("availabilityProbeJob.Run: ring size %s is not constant", p.Src(rem.Y))
	}
	t, e, err := errIf(p, fd)
	if err != nil {
		return err
	}
	if err := want(p, "availability success record", t, "*j.result |= mask"); err != nil {
		return err
	}
	if err := want(p, "availability failure record", e, "*j.result &^= mask"); err != nil {
		return err
	}
	l.Comment("availabilityProbeJob.Run: mask := uint(1) << (j.count %% bits.UintSize); success sets the bit, failure clears it")
	l.NatDef("availRingBits", bitsN, "clientgroups: bits.UintSize (ring of success bits per client)")
	l.Raw(fmt.Sprintf("/-- availabilityProbeJob.Run: `%s` -/\ndef availDeadlineBase : Base := %s\n", p.Src(fd.Body.List[1]), availBase))
	l.Raw("/-- step program of availabilityProbeJob.Run (runs on a worker, once the job has been received) -/\ndef availRunProgram : List String := " +
		gen.LeanStrList([]string{"defer wg.Done", "deadline := " + strings.TrimPrefix(availBase, ".") + " + timeout", "probe(ctx, client)", "record bit count % availRingBits"}) + "\n")
	return nil
}

func latencyJob(p *gen.Pkg, l *gen.Lean) error {
	fd, err := p.Func("*latencyProbeJob[C]", "Run")
	if err != nil {
		return err
	}
	pre := []string{"defer j.wg.Done()", "start := time.Now()", "", "defer cancel()"}
	if len(fd.Body.List) != len(pre)+1 {
		return fmt.Errorf("latencyProbeJob.Run: expected %d statements, found %d", len(pre)+1, len(fd.Body.List))
	}
	for i, w := range pre {
		if w == "" {
			continue
		}
		if err := want(p, "latencyProbeJob.Run statement", fd.Body.List[i], w); err != nil {
			return err
		}
	}
	latBase, err := deadlineBase(p, "latencyProbeJob.Run", fd.Body.List[2], true)
	if err != nil {
		return err
	}
	t, e, err := errIf(p, fd)
	if err != nil {
		return err
	}
	slot := func(what string, s ast.Stmt) (string, error) {
		as, ok := s.(*ast.AssignStmt)
		if !ok || as.Tok != token.ASSIGN || len(as.Lhs) != 1 || len(as.Rhs) != 1 {
			return "", fmt.Errorf("latencyProbeJob.Run %s: not a simple assignment: %s", what, p.Src(s))
		}
		if err := want(p, "latencyProbeJob.Run "+what+" slot", as.Lhs[0], "j.result[j.count%latencyProbeResultSize]"); err != nil {
			return "", err
		}
		return p.Src(as.Rhs[0]), nil
	}
	sv, err := slot("success", t)
	if err != nil {
		return err
	}
	fv, err := slot("failure", e)
	if err != nil {
		return err
	}
	if sv != "time.Since(start)" {
		return fmt.Errorf("latencyProbeJob.Run: a successful probe records `%s`, expected `time.Since(start)`", sv)
	}
	switch fv {
	case "j.timeout", "0":
	default:
		return fmt.Errorf("latencyProbeJob.Run: a failed probe records `%s` (the model knows `j.timeout` and `0`)", fv)
	}
	// the result type: [latencyProbeResultSize]time.Duration
	l.Comment("latencyProbeJob.Run: slot j.count %% latencyProbeResultSize := time.Since(start) on success")
	l.Raw(fmt.Sprintf("/-- latencyProbeJob.Run: `%s` -/\ndef latDeadlineBase : Base := %s\n", p.Src(fd.Body.List[2]), latBase))
	l.Raw("/-- latencyProbeJob.Run: `start := time.Now()` is taken inside Run (on the worker), and a success records time.Since(start) -/\ndef latencyClockBase : Base := .jobStart\n")
	l.Raw("/-- step program of latencyProbeJob.Run -/\ndef latRunProgram : List String := " +
		gen.LeanStrList([]string{"defer wg.Done", "start := now", "deadline := " + strings.TrimPrefix(latBase, ".") + " + timeout", "probe(ctx, client)", "record slot count % latencyProbeResultSize"}) + "\n")
	l.Raw(fmt.Sprintf("/-- clientgroups: value a failed latency probe records in its slot (`%s`) -/\ndef latFailureRecord : Val := %s\n", fv, valName(fv)))
	return nil
}

// deadlineBase classifies the statement that derives the probe's context inside Run.
func deadlineBase(p *gen.Pkg, where string, st ast.Stmt, hasStart bool) (string, error) {
	src := p.Src(st)
	switch {
	case src == "ctx, cancel := context.WithTimeout(ctx, j.timeout)":
		return ".jobStart", nil // relative to the call, i.e. to the start of this job
	case hasStart && src == "ctx, cancel := context.WithDeadline(ctx, start.Add(j.timeout))":
		return ".jobStart", nil // start := time.Now() is the statement before
	}
	if m := regexp.MustCompile(`^ctx, cancel := context\.WithDeadline\(ctx, j\.(\w+)\)$`).FindStringSubmatch(src); m != nil {
		return ".roundStart", nil // an instant computed by the dispatcher, common to the jobs of the round
	}
	return "", fmt.Errorf("%s: unrecognised derivation of the probe context: %s", where, src)
}

// workerPool checks the prologue of a probe loop: an unbuffered job channel, `pc.concurrency` workers that each
// run one job at a time, the ticker.
func workerPool(p *gen.Pkg, fn string, fd *ast.FuncDecl, jobType string) error {
	want5 := []string{
		"jobCh := make(chan " + jobType + "[C])",
		"defer close(jobCh)",
		"for range pc.concurrency { go func() { for job := range jobCh { job.Run(ctx) } }() }",
		"done := ctx.Done()",
		"ticker := time.NewTicker(pc.interval)",
		"defer ticker.Stop()",
	}
	if len(fd.Body.List) != len(want5)+2 {
		return fmt.Errorf("%s: expected %d top-level statements, found %d", fn, len(want5)+2, len(fd.Body.List))
	}
	for i, w := range want5 {
		if err := want(p, fn+" prologue", fd.Body.List[i], w); err != nil {
			return err
		}
	}
	loop, ok := fd.Body.List[len(want5)+1].(*ast.ForStmt)
	if !ok || loop.Cond != nil || loop.Init != nil || len(loop.Body.List) != 1 {
		return fmt.Errorf("%s: the last statement is not `for { select {...} }`", fn)
	}
	sel, ok := loop.Body.List[0].(*ast.SelectStmt)
	if !ok || len(sel.Body.List) != 2 {
		return fmt.Errorf("%s: the loop body is not a two-way select", fn)
	}
	c0 := sel.Body.List[0].(*ast.CommClause)
	if c0.Comm == nil || p.Src(c0.Comm) != "<-done" || len(c0.Body) != 1 || p.Src(c0.Body[0]) != "return" {
		return fmt.Errorf("%s: first select case is not `case <-done: return`", fn)
	}
	return nil
}

func concurrency(p *gen.Pkg, l *gen.Lean) error {
	fd, err := p.Func("*ConnectivityProbeConfig", "applyDefaults")
	if err != nil {
		return err
	}
	wantS := []string{
		"if c.Timeout <= 0 { c.Timeout = jsoncfg.Duration(defaultProbeTimeout) }",
		"if c.Interval <= 0 { c.Interval = jsoncfg.Duration(defaultProbeInterval) }",
		"if c.Concurrency <= 0 { c.Concurrency = defaultProbeConcurrency }",
	}
	if len(fd.Body.List) != len(wantS) {
		return fmt.Errorf("ConnectivityProbeConfig.applyDefaults: expected %d statements", len(wantS))
	}
	for i, w := range wantS {
		if err := want(p, "ConnectivityProbeConfig.applyDefaults", fd.Body.List[i], w); err != nil {
			return err
		}
	}
	for _, recv := range []string{"*TCPConnectivityProbeConfig", "*UDPConnectivityProbeConfig"} {
		f, err := p.Func(recv, "newProbeConfig")
		if err != nil {
			return err
		}
		if len(f.Body.List) == 0 || p.Src(f.Body.List[0]) != "c.applyDefaults()" {
			return fmt.Errorf("%s.newProbeConfig does not start with c.applyDefaults()", recv)
		}
		found := map[string]string{}
		ast.Inspect(f.Body, func(n ast.Node) bool {
			if kv, ok := n.(*ast.KeyValueExpr); ok {
				found[p.Src(kv.Key)] = p.Src(kv.Value)
			}
			return true
		})
		for k, v := range map[string]string{"concurrency": "min(c.Concurrency, len(clients))", "timeout": "c.Timeout.Value()", "interval": "c.Interval.Value()", "clients": "clients"} {
			if found[k] != v {
				return fmt.Errorf("%s.newProbeConfig: %s is `%s`, expected `%s`", recv, k, found[k], v)
			}
		}
		af, err := p.Func(recv, "applyDefaults")
		if err != nil {
			return err
		}
		if len(af.Body.List) == 0 || p.Src(af.Body.List[0]) != "c.ConnectivityProbeConfig.applyDefaults()" {
			return fmt.Errorf("%s.applyDefaults does not start with the shared defaults", recv)
		}
	}
	l.Comment("probeConfig.concurrency = min(c.Concurrency, len(clients)) after `if c.Concurrency <= 0 { c.Concurrency = defaultProbeConcurrency }`")
	l.Raw("/-- workers of a probe loop: unbuffered job channel; `pc.concurrency` goroutines `for job := range jobCh { job.Run(ctx) }`;\n    the dispatcher sends the jobs in configuration order and then waits for all of them -/\ndef dispatchProgram : List String := " +
		gen.LeanStrList([]string{"jobCh := make(chan job) -- unbuffered", "spawn pc.concurrency workers: for job := range jobCh { job.Run(ctx) }", "on tick: wg.Add(n)", "for i, client := range clients { jobCh <- job(i) }", "wg.Wait()", "probeCount++", "scan", "publish"}) + "\n")
	return nil
}

// ---------- best-of loops ----------

type loopSpec struct {
	fn, lean, score, best string
	scoreStmts            []string
}

func bestLoop(p *gen.Pkg, l *gen.Lean, sp loopSpec) error {
	fd, err := p.Func("*atomicClientSelector[C]", sp.fn)
	if err != nil {
		return err
	}
	jobType := "latencyProbeJob"
	if sp.lean == "avail" {
		jobType = "availabilityProbeJob"
	}
	if err := workerPool(p, sp.fn, fd, jobType); err != nil {
		return err
	}
	// find the ticker case body: for { select { case <-done: return; case <-ticker.C: BODY } }
	var body []ast.Stmt
	var ringDecl string
	ast.Inspect(fd.Body, func(n ast.Node) bool {
		switch x := n.(type) {
		case *ast.CommClause:
			if x.Comm != nil && p.Src(x.Comm) == "<-ticker.C" {
				body = x.Body
			}
		case *ast.ValueSpec:
			if len(x.Names) == 1 && x.Names[0].Name == "probeResult" && len(x.Values) == 1 {
				ringDecl = p.Src(x.Values[0])
			}
		}
		return true
	})
	if body == nil {
		return fmt.Errorf("%s: no `case <-ticker.C:`", sp.fn)
	}
	wantRing := "make([][latencyProbeResultSize]time.Duration, len(pc.clients))"
	if sp.lean == "avail" {
		wantRing = "make([]uint, len(pc.clients))"
	}
	if ringDecl != wantRing {
		return fmt.Errorf("%s: probeResult is `%s`, expected `%s`", sp.fn, ringDecl, wantRing)
	}
	// drop logging statements (`if ce := logger.Check(...); ce != nil {...}`)
	var st []ast.Stmt
	for _, s := range body {
		if isLog(p, s) {
			continue
		}
		st = append(st, s)
	}
	// expected sequence: wg.Add; for range clients { jobCh <- job }; wg.Wait(); probeCount++; var(best...); for scan; if clientIndex != bestIndex {...}
	if len(st) != 7 {
		return fmt.Errorf("%s: expected 7 statements in the round body (besides logging), found %d", sp.fn, len(st))
	}
	if err := want(p, sp.fn+" round[0]", st[0], "wg.Add(len(pc.clients))"); err != nil {
		return err
	}
	disp, ok := st[1].(*ast.RangeStmt)
	if !ok || p.Src(disp.X) != "pc.clients" || len(disp.Body.List) != 1 {
		return fmt.Errorf("%s: job dispatch loop has an unexpected shape", sp.fn)
	}
	send, ok := disp.Body.List[0].(*ast.SendStmt)
	if !ok || p.Src(send.Chan) != "jobCh" {
		return fmt.Errorf("%s: job dispatch is not a send on jobCh", sp.fn)
	}
	job, ok := send.Value.(*ast.CompositeLit)
	if !ok {
		return fmt.Errorf("%s: job is not a composite literal", sp.fn)
	}
	wantFields := map[string]string{"wg": "&wg", "probe": "pc.probe", "timeout": "pc.timeout", "client": "client", "result": "&probeResult[i]", "count": "probeCount"}
	if len(job.Elts) != len(wantFields) {
		return fmt.Errorf("%s: job literal has %d fields", sp.fn, len(job.Elts))
	}
	for _, e := range job.Elts {
		kv, ok := e.(*ast.KeyValueExpr)
		if !ok || wantFields[p.Src(kv.Key)] != p.Src(kv.Value) {
			return fmt.Errorf("%s: unexpected job field %s", sp.fn, p.Src(e))
		}
	}
	if err := want(p, sp.fn+" round[2]", st[2], "wg.Wait()"); err != nil {
		return err
	}
	if err := want(p, sp.fn+" round[3]", st[3], "probeCount++"); err != nil {
		return err
	}
	// var ( bestIndex int; bestX [= init] )
	ds, ok := st[4].(*ast.DeclStmt)
	if !ok {
		return fmt.Errorf("%s: expected the declaration of bestIndex/%s, found %s", sp.fn, sp.best, p.Src(st[4]))
	}
	gd := ds.Decl.(*ast.GenDecl)
	if gd.Tok != token.VAR || len(gd.Specs) != 2 {
		return fmt.Errorf("%s: unexpected best declaration %s", sp.fn, p.Src(ds))
	}
	if err := want(p, sp.fn+" bestIndex", gd.Specs[0], "bestIndex int"); err != nil {
		return err
	}
	bs := gd.Specs[1].(*ast.ValueSpec)
	if len(bs.Names) != 1 || bs.Names[0].Name != sp.best {
		return fmt.Errorf("%s: expected the declaration of %s, found %s", sp.fn, sp.best, p.Src(bs))
	}
	initBest := "0"
	if len(bs.Values) == 1 {
		initBest = p.Src(bs.Values[0])
	} else if len(bs.Values) != 0 {
		return fmt.Errorf("%s: unexpected initial value of %s", sp.fn, sp.best)
	}
	switch initBest {
	case "0", "pc.timeout":
	default:
		return fmt.Errorf("%s: initial %s is `%s` (the model knows `0` and `pc.timeout`)", sp.fn, sp.best, initBest)
	}
	// scan loop
	scan, ok := st[5].(*ast.RangeStmt)
	if !ok || p.Src(scan.X) != "probeResult" || p.Src(scan.Key) != "i" || p.Src(scan.Value) != "result" || scan.Tok != token.DEFINE {
		return fmt.Errorf("%s: scan loop is not `for i, result := range probeResult`", sp.fn)
	}
	var sl []ast.Stmt
	for _, s := range scan.Body.List {
		if !isLog(p, s) {
			sl = append(sl, s)
		}
	}
	if len(sl) != len(sp.scoreStmts)+1 {
		return fmt.Errorf("%s: scan body has %d statements, expected %d", sp.fn, len(sl), len(sp.scoreStmts)+1)
	}
	for i, w := range sp.scoreStmts {
		if err := want(p, sp.fn+" score computation", sl[i], w); err != nil {
			return err
		}
	}
	cmp, ok := sl[len(sl)-1].(*ast.IfStmt)
	if !ok || cmp.Init != nil || cmp.Else != nil {
		return fmt.Errorf("%s: expected the improvement test, found %s", sp.fn, p.Src(sl[len(sl)-1]))
	}
	be, ok := cmp.Cond.(*ast.BinaryExpr)
	if !ok || p.Src(be.X) != sp.score || p.Src(be.Y) != sp.best {
		return fmt.Errorf("%s: improvement test is `%s`, expected `%s <op> %s`", sp.fn, p.Src(cmp.Cond), sp.score, sp.best)
	}
	switch be.Op {
	case token.LSS, token.LEQ, token.GTR, token.GEQ:
	default:
		return fmt.Errorf("%s: improvement test uses operator %s", sp.fn, be.Op)
	}
	if len(cmp.Body.List) != 2 || p.Src(cmp.Body.List[0]) != "bestIndex = i" || p.Src(cmp.Body.List[1]) != sp.best+" = "+sp.score {
		return fmt.Errorf("%s: improvement body is `%s`", sp.fn, p.Src(cmp.Body))
	}
	// publication of the choice: only here, after the scan
	if err := want(p, sp.fn+" publication", st[6], "if clientIndex != bestIndex { clientIndex = bestIndex s.selected.Store(&pc.clients[clientIndex]) }"); err != nil {
		return err
	}
	stores := 0
	ast.Inspect(fd.Body, func(n ast.Node) bool {
		if ce, ok := n.(*ast.CallExpr); ok && strings.HasPrefix(p.Src(ce.Fun), "s.selected.") {
			stores++
		}
		return true
	})
	if stores != 1 {
		return fmt.Errorf("%s: %d accesses to s.selected, expected exactly the one Store after the scan", sp.fn, stores)
	}
	// the local state of the loop
	var decl string
	ast.Inspect(fd.Body, func(n ast.Node) bool {
		if vs, ok := n.(*ast.ValueSpec); ok && len(vs.Names) == 1 && (vs.Names[0].Name == "probeCount" || vs.Names[0].Name == "clientIndex") {
			decl += p.Src(vs) + ";"
		}
		return true
	})
	if decl != "probeCount uint;clientIndex int;" {
		return fmt.Errorf("%s: unexpected loop state declarations `%s`", sp.fn, decl)
	}
	l.Comment("%s: scan in configuration order: if %s %s %s { bestIndex = i; %s = %s }, initial best = %s", sp.fn, sp.score, be.Op, sp.best, sp.best, sp.score, initBest)
	l.Raw(fmt.Sprintf("/-- clientgroups.%s: operator of the improvement test (`%s`) -/\ndef %sCmp : CmpOp := %s\n", sp.fn, be.Op, sp.lean, opName(be.Op)))
	l.Raw(fmt.Sprintf("/-- clientgroups.%s: initial value of %s (`%s`) -/\ndef %sInitBest : Val := %s\n", sp.fn, sp.best, initBest, sp.lean, valName(initBest)))
	return nil
}

func opName(t token.Token) string {
	switch t {
	case token.LSS:
		return ".lt"
	case token.LEQ:
		return ".le"
	case token.GTR:
		return ".gt"
	}
	return ".ge"
}

func valName(s string) string {
	if s == "0" {
		return ".zero"
	}
	return ".timeout"
}

func isLog(p *gen.Pkg, s ast.Stmt) bool {
	is, ok := s.(*ast.IfStmt)
	if !ok || is.Init == nil {
		return false
	}
	if !strings.HasPrefix(p.Src(is.Init), "ce := logger.Check(") || p.Src(is.Cond) != "ce != nil" || is.Else != nil {
		return false
	}
	// the body must only write the log entry
	if len(is.Body.List) != 1 {
		return false
	}
	es, ok := is.Body.List[0].(*ast.ExprStmt)
	if !ok {
		return false
	}
	ce, ok := es.X.(*ast.CallExpr)
	return ok && p.Src(ce.Fun) == "ce.Write"
}

// ---------- the atomic selector and the group constructors ----------

func atomicSelector(p *gen.Pkg, l *gen.Lean) error {
	sel, err := p.Func("*atomicClientSelector[C]", "Select")
	if err != nil {
		return err
	}
	if len(sel.Body.List) != 1 {
		return fmt.Errorf("atomicClientSelector.Select: expected one statement")
	}
	if err := want(p, "atomicClientSelector.Select", sel.Body.List[0], "return *s.selected.Load()"); err != nil {
		return err
	}
	ini, err := p.Func("*atomicClientSelector[C]", "init")
	if err != nil {
		return err
	}
	if len(ini.Body.List) != 1 {
		return fmt.Errorf("atomicClientSelector.init: expected one statement")
	}
	if err := want(p, "atomicClientSelector.init", ini.Body.List[0], "s.selected.Store(initialClient)"); err != nil {
		return err
	}
	// both constructors start from the first configured client
	for _, recv := range []string{"*TCPConnectivityProbeConfig", "*UDPConnectivityProbeConfig"} {
		fd, err := p.Func(recv, "newAtomicClientGroup")
		if err != nil {
			return err
		}
		found := false
		for _, s := range fd.Body.List {
			if p.Src(s) == "g.selector.init(&clients[0])" {
				found = true
			}
		}
		if !found {
			return fmt.Errorf("%s.newAtomicClientGroup: no `g.selector.init(&clients[0])`", recv)
		}
	}
	l.Comment("atomicClientSelector: Select = *selected.Load(); constructors start from &clients[0]")
	l.NatDef("initialSelection", "0", "clientgroups: newAtomicClientGroup calls g.selector.init(&clients[0])")
	return nil
}
