// gen_c17: regenerates lean/SSV/Gen/C17.lean from /repo/dns/dns.go.
//
// Constants (rcodeFailureCachingDuration, lookupTimeout, defaultCacheSize), the two
// transaction ids and their query types, the rcode classification of parseMsg, the retry
// counts of the TCP / UDP senders, and — the fact the TTL theorems hinge on — the *shape* of
// every `r.expiresAt = …` assignment in resultBuilder.parseMsg (minimum vs unconditional
// overwrite vs only-if-zero). Any shape that is not recognised aborts with GEN-BROKEN.
package main

import (
	"fmt"
	"go/ast"
	"go/token"
	"strings"

	"ssvharness/internal/gen"
)

func main() {
	gen.Main("C17", func(c *gen.Ctx, l *gen.Lean) error {
		p, err := c.Load("dns")
		if err != nil {
			return err
		}
		if err := l.Consts(p, "rcodeFailureCachingDuration", "lookupTimeout", "defaultCacheSize", "maxDNSPacketSize"); err != nil {
			return err
		}
		pm, err := p.Func("*resultBuilder", "parseMsg")
		if err != nil {
			return err
		}
		if err := genIDs(p, pm, l); err != nil {
			return err
		}
		if err := genRCodes(p, pm, l); err != nil {
			return err
		}
		if err := genExpiry(p, pm, l); err != nil {
			return err
		}
		if err := genDoneRule(p, pm, l); err != nil {
			return err
		}
		if err := genRetries(p, l); err != nil {
			return err
		}
		if err := genBudgets(p, l); err != nil {
			return err
		}
		if err := genAnswerLoopOrder(p, pm, l); err != nil {
			return err
		}
		if err := genLookupCacheOps(p, l); err != nil {
			return err
		}
		cp, err := c.Load("cache")
		if err != nil {
			return err
		}
		return genCacheShapes(cp, l)
	})
}

// walk calls f(node, stack-of-ancestors) for every node below root.
func walk(root ast.Node, f func(n ast.Node, stack []ast.Node)) {
	var stack []ast.Node
	ast.Inspect(root, func(n ast.Node) bool {
		if n == nil {
			stack = stack[:len(stack)-1]
			return true
		}
		f(n, stack)
		stack = append(stack, n)
		return true
	})
}

// ---- transaction ids ----

func genIDs(p *gen.Pkg, pm *ast.FuncDecl, l *gen.Lean) error {
	var idSwitches []*ast.SwitchStmt
	for _, st := range pm.Body.List {
		if sw, ok := st.(*ast.SwitchStmt); ok && sw.Tag != nil && p.Src(sw.Tag) == "header.ID" {
			idSwitches = append(idSwitches, sw)
		}
		if ifs, ok := st.(*ast.IfStmt); ok { // the "mark done" switch sits inside `if !header.Truncated || !isUDP`
			for _, s2 := range ifs.Body.List {
				if sw, ok := s2.(*ast.SwitchStmt); ok && sw.Tag != nil && p.Src(sw.Tag) == "header.ID" {
					idSwitches = append(idSwitches, sw)
				}
			}
		}
	}
	if len(idSwitches) != 2 {
		return fmt.Errorf("parseMsg: expected 2 `switch header.ID` statements (id check, done marking), found %d", len(idSwitches))
	}
	// first: id check. `case N: if r.vXdone { return header, nil }; r.a = r.a[:0]`; default: return error.
	ids := map[string]string{}
	hasDefaultErr := false
	for _, cc := range idSwitches[0].Body.List {
		cl := cc.(*ast.CaseClause)
		if cl.List == nil {
			if len(cl.Body) == 1 {
				if rs, ok := cl.Body[0].(*ast.ReturnStmt); ok && len(rs.Results) == 2 && strings.HasPrefix(p.Src(rs.Results[1]), "fmt.Errorf(") {
					hasDefaultErr = true
					continue
				}
			}
			return fmt.Errorf("parseMsg id switch: unrecognised default clause: %s", p.Src(cl))
		}
		if len(cl.List) != 1 || len(cl.Body) != 2 {
			return fmt.Errorf("parseMsg id switch: unrecognised case: %s", p.Src(cl))
		}
		v, ok := p.EvalInt(cl.List[0])
		if !ok {
			return fmt.Errorf("parseMsg id switch: non-constant case %s", p.Src(cl.List[0]))
		}
		s0, s1 := p.Src(cl.Body[0]), p.Src(cl.Body[1])
		switch {
		case s0 == "if r.v4done { return header, nil }" && s1 == "r.a = r.a[:0]":
			ids["v4"] = v
		case s0 == "if r.v6done { return header, nil }" && s1 == "r.aaaa = r.aaaa[:0]":
			ids["v6"] = v
		default:
			return fmt.Errorf("parseMsg id switch: unrecognised case body: %s | %s", s0, s1)
		}
	}
	if !hasDefaultErr || ids["v4"] == "" || ids["v6"] == "" {
		return fmt.Errorf("parseMsg id switch: need a v4 case, a v6 case and an error default; got %v default=%v", ids, hasDefaultErr)
	}
	// second: done marking
	for _, cc := range idSwitches[1].Body.List {
		cl := cc.(*ast.CaseClause)
		if len(cl.List) != 1 || len(cl.Body) != 1 {
			return fmt.Errorf("parseMsg done switch: unrecognised case: %s", p.Src(cl))
		}
		v, _ := p.EvalInt(cl.List[0])
		switch p.Src(cl.Body[0]) {
		case "r.v4done = true":
			if v != ids["v4"] {
				return fmt.Errorf("parseMsg done switch: v4done set for id %s, id check uses %s", v, ids["v4"])
			}
		case "r.v6done = true":
			if v != ids["v6"] {
				return fmt.Errorf("parseMsg done switch: v6done set for id %s, id check uses %s", v, ids["v6"])
			}
		default:
			return fmt.Errorf("parseMsg done switch: unrecognised body: %s", p.Src(cl.Body[0]))
		}
	}
	if len(idSwitches[1].Body.List) != 2 {
		return fmt.Errorf("parseMsg done switch: expected 2 cases")
	}
	// the queries built by sendQueries: id <-> question type
	sq, err := p.Func("*Resolver", "sendQueries")
	if err != nil {
		return err
	}
	qids := map[string]string{}
	var werr error
	walk(sq.Body, func(n ast.Node, _ []ast.Node) {
		cl, ok := n.(*ast.CompositeLit)
		if !ok || p.Src(cl.Type) != "dnsmessage.Message" {
			return
		}
		var id, typ string
		walk(cl, func(m ast.Node, _ []ast.Node) {
			kv, ok := m.(*ast.KeyValueExpr)
			if !ok {
				return
			}
			switch p.Src(kv.Key) {
			case "ID":
				id, _ = p.EvalInt(kv.Value)
			case "Type":
				typ = p.Src(kv.Value)
			}
		})
		if id == "" || typ == "" {
			werr = fmt.Errorf("sendQueries: message literal without constant ID/Type: %s", p.Src(cl))
			return
		}
		qids[typ] = id
	})
	if werr != nil {
		return werr
	}
	if len(qids) != 2 || qids["dnsmessage.TypeA"] != ids["v4"] || qids["dnsmessage.TypeAAAA"] != ids["v6"] {
		return fmt.Errorf("sendQueries: query ids %v do not match parseMsg's ids %v", qids, ids)
	}
	l.NatDef("idV4", ids["v4"], "dns.go: transaction id of the A query (sendQueries) = the id parseMsg files under v4")
	l.NatDef("idV6", ids["v6"], "dns.go: transaction id of the AAAA query (sendQueries) = the id parseMsg files under v6")
	return nil
}

// ---- rcode classes ----

func genRCodes(p *gen.Pkg, pm *ast.FuncDecl, l *gen.Lean) error {
	for _, st := range pm.Body.List {
		sw, ok := st.(*ast.SwitchStmt)
		if !ok || sw.Tag == nil || p.Src(sw.Tag) != "header.RCode" {
			continue
		}
		var okCodes, failCodes []string
		def := false
		for _, cc := range sw.Body.List {
			cl := cc.(*ast.CaseClause)
			if cl.List == nil {
				if len(cl.Body) == 1 {
					if rs, ok := cl.Body[0].(*ast.ReturnStmt); ok && len(rs.Results) == 2 && strings.HasPrefix(p.Src(rs.Results[1]), "fmt.Errorf(") {
						def = true
						continue
					}
				}
				return fmt.Errorf("parseMsg rcode switch: unrecognised default: %s", p.Src(cl))
			}
			var vals []string
			for _, e := range cl.List {
				v, ok := p.EvalInt(e)
				if !ok {
					return fmt.Errorf("parseMsg rcode switch: non-constant case %s", p.Src(e))
				}
				vals = append(vals, v)
			}
			switch {
			case len(cl.Body) == 0:
				okCodes = append(okCodes, vals...)
			case len(cl.Body) <= 2 && strings.Contains(p.Src(cl.Body[len(cl.Body)-1]), "r.expiresAt = ") && onlyExpiry(p, cl.Body):
				// the statement shapes themselves are classified (or refused) by genExpiry
				failCodes = append(failCodes, vals...)
			default:
				return fmt.Errorf("parseMsg rcode switch: unrecognised case body: %s", p.Src(cl))
			}
		}
		if !def {
			return fmt.Errorf("parseMsg rcode switch: no error default")
		}
		l.Raw(fmt.Sprintf("/-- dns.go parseMsg: rcodes accepted without effect -/\ndef rcodeOk : List Nat := [%s]\n", strings.Join(okCodes, ", ")))
		l.Raw(fmt.Sprintf("/-- dns.go parseMsg: rcodes cached as resolution failures -/\ndef rcodeFailure : List Nat := [%s]\n", strings.Join(failCodes, ", ")))
		return nil
	}
	return fmt.Errorf("parseMsg: no `switch header.RCode`")
}

// onlyExpiry: every statement of the clause is an assignment/definition/if that only concerns the expiry.
func onlyExpiry(p *gen.Pkg, body []ast.Stmt) bool {
	for _, st := range body {
		switch s := st.(type) {
		case *ast.AssignStmt:
			if !strings.Contains(strings.ToLower(p.Src(s.Lhs[0])), "expiresat") {
				return false
			}
		case *ast.IfStmt:
			if s.Else != nil || !strings.Contains(p.Src(s.Cond), "r.expiresAt") {
				return false
			}
			for _, b := range s.Body.List {
				if a, ok := b.(*ast.AssignStmt); !ok || p.Src(a.Lhs[0]) != "r.expiresAt" {
					return false
				}
			}
		default:
			return false
		}
	}
	return true
}

// ---- expiry assignments ----

const minCondFmt = "r.expiresAt.IsZero() || r.expiresAt.After(%s)"

func genExpiry(p *gen.Pkg, pm *ast.FuncDecl, l *gen.Lean) error {
	type site struct{ shape, src string }
	sites := map[string]site{}
	var werr error
	fail := func(format string, a ...any) {
		if werr == nil {
			werr = fmt.Errorf(format, a...)
		}
	}
	walk(pm.Body, func(n ast.Node, stack []ast.Node) {
		// any other mention of expiresAt on a left-hand side / as an address is unknown
		if u, ok := n.(*ast.UnaryExpr); ok && u.Op == token.AND && strings.Contains(p.Src(u.X), "expiresAt") {
			fail("parseMsg: address of expiresAt taken: %s", p.Src(u))
		}
		if ids, ok := n.(*ast.IncDecStmt); ok && strings.Contains(p.Src(ids.X), "expiresAt") {
			fail("parseMsg: unrecognised statement %s", p.Src(ids))
		}
		as, ok := n.(*ast.AssignStmt)
		if !ok {
			return
		}
		touches := false
		for _, lh := range as.Lhs {
			if strings.Contains(p.Src(lh), "expiresAt") || p.Src(lh) == "r.Result" || p.Src(lh) == "*r" {
				touches = true
			}
		}
		if !touches {
			return
		}
		if len(as.Lhs) != 1 || len(as.Rhs) != 1 || as.Tok != token.ASSIGN || p.Src(as.Lhs[0]) != "r.expiresAt" {
			fail("parseMsg: unrecognised assignment to the expiry: %s", p.Src(as))
			return
		}
		rhs := p.Src(as.Rhs[0])
		// enclosing structure, innermost first
		var where string
		var guards []string
		var encl []*ast.IfStmt
		for i := len(stack) - 1; i >= 0; i-- {
			switch s := stack[i].(type) {
			case *ast.IfStmt:
				// only count it as a guard if we are in the body (not the else)
				if i+1 < len(stack) && stack[i+1] == ast.Node(s.Body) {
					guards = append(guards, p.Src(s.Cond))
					encl = append(encl, s)
				} else {
					fail("parseMsg: expiry assigned in an else/init position: %s", p.Src(as))
				}
			case *ast.CaseClause:
				if i >= 2 {
					if sw, ok := stack[i-2].(*ast.SwitchStmt); ok && sw.Tag != nil && p.Src(sw.Tag) == "header.RCode" && where == "" {
						where = "failure"
					}
				}
			case *ast.ForStmt:
				if where == "" {
					body := p.Src(s.Body)
					switch {
					case strings.Contains(body, "parser.AnswerHeader()"):
						where = "answer"
					case strings.Contains(body, "parser.AuthorityHeader()"):
						where = "soa"
					default:
						fail("parseMsg: expiry assigned in an unknown loop")
					}
				}
			}
		}
		if where == "" {
			fail("parseMsg: expiry assigned at an unknown place: %s", p.Src(as))
			return
		}
		if _, dup := sites[where]; dup {
			fail("parseMsg: more than one expiry assignment at site %q", where)
			return
		}
		// resolve a local right-hand side (`ttl`, or the init variable of the fixed failure branch)
		resolve := func(name string) string {
			var def string
			walk(pm.Body, func(m ast.Node, _ []ast.Node) {
				if d, ok := m.(*ast.AssignStmt); ok && d.Tok == token.DEFINE && len(d.Lhs) == 1 && p.Src(d.Lhs[0]) == name && len(d.Rhs) == 1 {
					def = p.Src(d.Rhs[0])
				}
			})
			return def
		}
		value := rhs
		if _, isIdent := as.Rhs[0].(*ast.Ident); isIdent {
			value = resolve(rhs)
		}
		var shape string
		switch where {
		case "failure":
			if value != "now.Add(rcodeFailureCachingDuration)" {
				fail("parseMsg failure branch: unrecognised expiry value %q", value)
			}
			switch {
			case len(guards) == 0:
				shape = "overwrite"
			case len(guards) == 1 && guards[0] == fmt.Sprintf(minCondFmt, rhs) && len(encl[0].Body.List) == 1 && encl[0].Else == nil:
				shape = "min"
			default:
				fail("parseMsg failure branch: unrecognised guard(s) %q", guards)
			}
		case "answer":
			if value != "now.Add(time.Duration(answerHeader.TTL) * time.Second)" {
				fail("parseMsg answer loop: unrecognised expiry value %q", value)
			}
			switch {
			case len(guards) == 1 && guards[0] == fmt.Sprintf(minCondFmt, rhs) && len(encl[0].Body.List) == 1 && encl[0].Else == nil:
				shape = "min"
			case len(guards) == 0:
				shape = "overwrite"
			default:
				fail("parseMsg answer loop: unrecognised guard(s) %q", guards)
			}
		case "soa":
			if value != "now.Add(time.Duration(authorityHeader.TTL) * time.Second)" {
				fail("parseMsg authority loop: unrecognised expiry value %q", value)
			}
			// innermost guard: the SOA type test; outermost (outside the loop): expiresAt.IsZero()
			if len(guards) == 2 && guards[0] == "authorityHeader.Type == dnsmessage.TypeSOA" && guards[1] == "r.expiresAt.IsZero()" {
				shape = "ifzero-last-soa"
			} else {
				fail("parseMsg authority loop: unrecognised guard(s) %q", guards)
			}
		}
		sites[where] = site{shape, p.Src(as)}
	})
	if werr != nil {
		return werr
	}
	for _, w := range []string{"failure", "answer", "soa"} {
		if _, ok := sites[w]; !ok {
			return fmt.Errorf("parseMsg: no expiry assignment found at site %q", w)
		}
	}
	// order of the three sites in the body: failure (rcode switch) < answers < authorities
	l.BoolDef("failureExpiryMin", sites["failure"].shape == "min", "dns.go parseMsg, failure rcode: expiry := min(expiry, now+rcodeFailureCachingDuration) (true) or overwritten unconditionally (false)")
	l.BoolDef("answerExpiryMin", sites["answer"].shape == "min", "dns.go parseMsg, answer loop: expiry := min(expiry, now+ttl) (true) or overwritten (false)")
	l.BoolDef("soaOnlyIfZero", sites["soa"].shape == "ifzero-last-soa", "dns.go parseMsg, authority loop: entered only if the expiry is still zero; every SOA overwrites")
	return nil
}

// ---- the done rule: `if !header.Truncated || !isUDP { switch header.ID {...} }` ----

func genDoneRule(p *gen.Pkg, pm *ast.FuncDecl, l *gen.Lean) error {
	for _, st := range pm.Body.List {
		if ifs, ok := st.(*ast.IfStmt); ok && strings.Contains(p.Src(ifs.Body), "done = true") {
			if p.Src(ifs.Cond) != "!header.Truncated || !isUDP" || ifs.Else != nil {
				return fmt.Errorf("parseMsg: unrecognised done rule: %s", p.Src(ifs.Cond))
			}
			l.BoolDef("truncatedUDPNotDone", true, "dns.go parseMsg: a truncated response marks its family done only over TCP")
			return nil
		}
	}
	return fmt.Errorf("parseMsg: done-marking statement not found")
}

// ---- retry counts ----

func genRetries(p *gen.Pkg, l *gen.Lean) error {
	rangeCount := func(fd *ast.FuncDecl) ([]string, error) {
		var res []string
		walk(fd.Body, func(n ast.Node, _ []ast.Node) {
			if rs, ok := n.(*ast.RangeStmt); ok && rs.Key == nil && rs.Value == nil {
				if v, ok := p.EvalInt(rs.X); ok {
					res = append(res, v)
				}
			}
		})
		return res, nil
	}
	tcp, err := p.Func("*Resolver", "sendQueriesTCP")
	if err != nil {
		return err
	}
	rc, _ := rangeCount(tcp)
	if len(rc) != 1 {
		return fmt.Errorf("sendQueriesTCP: expected one `for range N` retry loop, found %v", rc)
	}
	l.NatDef("tcpAttempts", rc[0], "dns.go sendQueriesTCP: `for range N`")
	udp, err := p.Func("*Resolver", "sendQueriesUDP")
	if err != nil {
		return err
	}
	rc, _ = rangeCount(udp)
	if len(rc) != 1 {
		return fmt.Errorf("sendQueriesUDP: expected one `for range N` send loop, found %v", rc)
	}
	l.NatDef("udpSends", rc[0], "dns.go sendQueriesUDP sendFunc: `for range N`")
	var interval string
	walk(udp.Body, func(n ast.Node, _ []ast.Node) {
		if ce, ok := n.(*ast.CallExpr); ok && p.Src(ce.Fun) == "time.After" && len(ce.Args) == 1 {
			interval, _ = p.EvalInt(ce.Args[0])
		}
	})
	if interval == "" {
		return fmt.Errorf("sendQueriesUDP: resend interval (time.After) not found")
	}
	l.NatDef("udpSendInterval", interval, "dns.go sendQueriesUDP sendFunc: time.After(...) in ns")
	return nil
}

// ---- how Lookup uses the cache: probe by Get(name), store by Set(name, result), each under the mutex,
// nothing else; in particular no pointer into the cache (GetEntry) survives the unlocked round trip ----

func genLookupCacheOps(p *gen.Pkg, l *gen.Lean) error {
	// every mention of the cache field in the package
	var uses []string
	for _, f := range p.Files {
		for _, d := range f.Decls {
			fd, ok := d.(*ast.FuncDecl)
			if !ok || fd.Body == nil {
				continue
			}
			walk(fd.Body, func(n ast.Node, _ []ast.Node) {
				if se, ok := n.(*ast.SelectorExpr); ok && se.Sel.Name == "cache" {
					uses = append(uses, fd.Name.Name)
				}
			})
		}
	}
	for _, u := range uses {
		if u != "Lookup" {
			return fmt.Errorf("dns: the resolver cache is used outside Lookup (in %s)", u)
		}
	}
	lk, err := p.Func("*Resolver", "Lookup")
	if err != nil {
		return err
	}
	// statement-level: the cache calls and their neighbours
	var ops []string
	stmts := lk.Body.List
	var werr error
	for i, st := range stmts {
		mentions := false
		walk(st, func(n ast.Node, _ []ast.Node) {
			if se, ok := n.(*ast.SelectorExpr); ok && se.Sel.Name == "cache" {
				mentions = true
			}
		})
		if !mentions {
			continue
		}
		src := p.Src(st)
		switch src {
		case "result, ok := r.cache.Get(name)":
			ops = append(ops, "Get(name)")
		case "r.cache.Set(name, result)":
			ops = append(ops, "Set(name, result)")
		default:
			werr = fmt.Errorf("Lookup: unrecognised use of the cache: %s", src)
		}
		if i == 0 || i+1 >= len(stmts) || p.Src(stmts[i-1]) != "r.mu.Lock()" || p.Src(stmts[i+1]) != "r.mu.Unlock()" {
			werr = fmt.Errorf("Lookup: cache access not bracketed by r.mu.Lock()/r.mu.Unlock(): %s", src)
		}
	}
	if werr != nil {
		return werr
	}
	if strings.Join(ops, ";") != "Get(name);Set(name, result)" {
		return fmt.Errorf("Lookup: expected the cache operations [Get(name), Set(name, result)] at the top level of the body, found %v (%d uses)", ops, len(uses))
	}
	if len(uses) != 2 {
		return fmt.Errorf("Lookup: %d mentions of r.cache, 2 recognised", len(uses))
	}
	// the value stored is the fresh result: `result = newResult.Result` is the last assignment to result before the Set
	l.BoolDef("lookupProbeIsGet", true, "dns.go Lookup: the only cache read is `result, ok := r.cache.Get(name)` under r.mu (a copy of the value, no pointer into the cache)")
	l.BoolDef("lookupStoreIsSetByName", true, "dns.go Lookup: the only cache write is `r.cache.Set(name, result)` under r.mu (keyed by the name, no retained entry)")
	return nil
}

// ---- cache/cache.go: the three list primitives are the statements the Lean model mirrors ----

func genCacheShapes(p *gen.Pkg, l *gen.Lean) error {
	want := map[string][]string{
		"insert": {
			"if len(c.nodeByKey) == c.capacity { c.remove(c.head) }",
			"node := &boundedNode[K, V]{ prev: c.tail, Entry: Entry[K, V]{Key: key, Value: value}, }",
			"c.nodeByKey[key] = node",
			"if c.tail != nil { c.tail.next = node } else { c.head = node }",
			"c.tail = node",
		},
		"remove": {
			"delete(c.nodeByKey, node.Key)",
			"if node.prev != nil { node.prev.next = node.next } else { c.head = node.next }",
			"if node.next != nil { node.next.prev = node.prev } else { c.tail = node.prev }",
		},
		"moveToTail": {
			"if node.next == nil { return }",
			"node.next.prev = node.prev",
			"if node.prev != nil { node.prev.next = node.next } else { c.head = node.next }",
			"node.prev = c.tail",
			"node.next = nil",
			"c.tail.next = node",
			"c.tail = node",
		},
	}
	for _, name := range []string{"insert", "remove", "moveToTail"} {
		fd, err := p.Func("*BoundedCache[K, V]", name)
		if err != nil {
			return err
		}
		var got []string
		for _, st := range fd.Body.List {
			got = append(got, p.Src(st))
		}
		w := want[name]
		if len(got) != len(w) {
			return fmt.Errorf("cache.go %s: %d statements, the model mirrors %d: %q", name, len(got), len(w), got)
		}
		for i := range w {
			if got[i] != w[i] {
				return fmt.Errorf("cache.go %s: statement %d is %q, the model mirrors %q", name, i, got[i], w[i])
			}
		}
	}
	// which exported methods hand out pointers into nodes
	var ptrAPIs []string
	for _, f := range p.Files {
		for _, d := range f.Decls {
			fd, ok := d.(*ast.FuncDecl)
			if !ok || fd.Recv == nil || fd.Type.Results == nil {
				continue
			}
			for _, r := range fd.Type.Results.List {
				if _, isPtr := r.Type.(*ast.StarExpr); isPtr {
					ptrAPIs = append(ptrAPIs, fd.Name.Name)
				}
			}
		}
	}
	l.BoolDef("insertAllocatesFreshNode", true, "cache.go insert: evicts with c.remove(c.head) and links a newly allocated node (no node is re-keyed)")
	l.Raw(fmt.Sprintf("/-- cache.go: methods returning pointers into nodes (pointer stability matters for these: `SSV.C17.node_key_stable`) -/\ndef entryPointerAPIs : List String := %s\n", gen.LeanStrList(ptrAPIs)))
	return nil
}

// ---- where the lookup timeout is armed: one fresh budget per transport ----

func genBudgets(p *gen.Pkg, l *gen.Lean) error {
	type site struct {
		fn, stmt string
		first    bool
	}
	var sites []site
	for _, f := range p.Files {
		for _, d := range f.Decls {
			fd, ok := d.(*ast.FuncDecl)
			if !ok || fd.Body == nil {
				continue
			}
			walk(fd.Body, func(n ast.Node, stack []ast.Node) {
				ce, ok := n.(*ast.CallExpr)
				if !ok {
					return
				}
				fn := p.Src(ce.Fun)
				if fn != "context.WithTimeout" && fn != "context.WithDeadline" && fn != "context.WithTimeoutCause" && fn != "context.WithDeadlineCause" {
					return
				}
				st := ""
				first := false
				if len(fd.Body.List) > 0 {
					if as, ok := fd.Body.List[0].(*ast.AssignStmt); ok && len(as.Rhs) == 1 && as.Rhs[0] == ast.Expr(ce) {
						first = true
						st = p.Src(as)
					}
				}
				if st == "" {
					st = p.Src(ce)
				}
				sites = append(sites, site{fd.Name.Name, st, first})
			})
		}
	}
	want := map[string]bool{"sendQueriesUDP": false, "sendQueriesTCP": false}
	for _, s := range sites {
		if _, ok := want[s.fn]; !ok {
			return fmt.Errorf("dns: a deadline is armed in %s (%s); the model gives each transport its own budget, armed in sendQueriesUDP and sendQueriesTCP only", s.fn, s.stmt)
		}
		if !s.first || s.stmt != "ctx, cancel := context.WithTimeout(ctx, lookupTimeout)" {
			return fmt.Errorf("dns %s: unrecognised deadline statement %q (expected `ctx, cancel := context.WithTimeout(ctx, lookupTimeout)` as the first statement)", s.fn, s.stmt)
		}
		if want[s.fn] {
			return fmt.Errorf("dns %s: more than one deadline", s.fn)
		}
		want[s.fn] = true
	}
	for fn, ok := range want {
		if !ok {
			return fmt.Errorf("dns %s: does not arm its own lookupTimeout (`ctx, cancel := context.WithTimeout(ctx, lookupTimeout)` expected as the first statement)", fn)
		}
	}
	l.BoolDef("udpOwnBudget", true, "dns.go sendQueriesUDP: first statement arms its own context.WithTimeout(ctx, lookupTimeout); no other deadline in the package")
	l.BoolDef("tcpOwnBudget", true, "dns.go sendQueriesTCP: first statement arms its own context.WithTimeout(ctx, lookupTimeout) (a fresh budget after the UDP phase, shared by the TCP attempts)")
	return nil
}

// ---- the answer loop: header, TTL minimum, then the record body (so that every answer record, also
// CNAME/other types and records whose body fails to parse, bounds the expiry) ----

func genAnswerLoopOrder(p *gen.Pkg, pm *ast.FuncDecl, l *gen.Lean) error {
	for _, st := range pm.Body.List {
		fs, ok := st.(*ast.ForStmt)
		if !ok || !strings.Contains(p.Src(fs.Body), "parser.AnswerHeader()") {
			continue
		}
		var kinds []string
		for _, s := range fs.Body.List {
			src := p.Src(s)
			switch {
			case strings.HasPrefix(src, "answerHeader, err := parser.AnswerHeader()"):
				kinds = append(kinds, "header")
			case strings.HasPrefix(src, "if err != nil {") && strings.Contains(src, "dnsmessage.ErrSectionDone"):
				kinds = append(kinds, "header-err")
			case strings.HasPrefix(src, "ttl := now.Add("):
				kinds = append(kinds, "ttl")
			case strings.HasPrefix(src, "if r.expiresAt.IsZero() || r.expiresAt.After(ttl)"):
				kinds = append(kinds, "min")
			case strings.HasPrefix(src, "switch answerHeader.Type {"):
				kinds = append(kinds, "body")
				sw := s.(*ast.SwitchStmt)
				for _, cc := range sw.Body.List {
					for _, b := range cc.(*ast.CaseClause).Body {
						if bs, ok := b.(*ast.BranchStmt); ok {
							return fmt.Errorf("parseMsg answer loop: %s inside the record switch", bs.Tok)
						}
					}
				}
			default:
				return fmt.Errorf("parseMsg answer loop: unrecognised statement %q", src)
			}
		}
		if strings.Join(kinds, ",") != "header,header-err,ttl,min,body" {
			return fmt.Errorf("parseMsg answer loop: statement order %v, the model mirrors [header, header-err, ttl, min, body]", kinds)
		}
		l.BoolDef("answerTTLBeforeBody", true, "dns.go parseMsg answer loop: the TTL minimum is taken for every answer header, before the record body is parsed or skipped")
		return nil
	}
	return fmt.Errorf("parseMsg: answer loop not found")
}
