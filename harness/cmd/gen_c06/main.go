// gen_c06: regenerates lean/SSV/Gen/C06.lean from /repo.
//
// Emits (1) the numeric constants the C06 parser models and theorems depend on, and
// (2) for every modelled function a *panic-relevant fingerprint* extracted from its body:
//   - `<F>_shape : List String` — in source order: every `if` whose condition mentions `len(`/`cap(`, or is an ordering comparison that guards a return/panic or an index/slice expression
//     (suffixed " => return" when the branch ends in a return), every index / slice expression on a
//     slice, array or string, every slice-to-array conversion, every `binary.BigEndian.*` call, every
//     `panic(...)`, and every call of a method that panics by contract (`IP`, `Domain`, `IPPort`,
//     `Contains`, `IsSet`, ...). The Lean side states `shape_<F> : <F>_shape = [...]` (decide), so a
//     changed guard / offset / missing check re-opens a proof obligation.
//   - `<F>_lenGuard<i> : Nat` — the constant of the i-th guard of the form `len(x) < N` (N evaluated by
//     go/types), used BY the model as the guard, so the no-panic theorems are about the numbers in the
//     source now.
// A function that cannot be found, or a guard the extractor cannot classify, is GEN-BROKEN.
package main

import (
	"fmt"
	"go/ast"
	"go/build/constraint"
	"go/constant"
	"go/parser"
	"go/printer"
	"go/token"
	"go/types"
	"os"
	"path/filepath"
	"strings"

	"ssvharness/internal/gen"
)

// ---------- light loader ----------
//
// gen.Ctx.Load type-checks a package with the *source importer*, i.e. together with all of its
// transitive dependencies (net/http, crypto/tls, zap, ...): 1-3 minutes on a loaded machine. The C06
// facts only need (a) syntax and (b) the values of integer constants that are declared in the
// repository's own packages from literals and from each other. So this loader type-checks with an
// importer that resolves repository-internal import paths recursively (same light way) and answers
// every other import with an empty package; type errors caused by the missing externals are ignored.
// go/types still evaluates every constant expression we read (`1 + 4 + 2`, `3 + MaxAddrLen`,
// `socks5.MaxAddrLen + 2 + MaxPaddingLength`, `2 + tagSize + streamMaxPayloadSize + tagSize`);
// a constant that depended on an external package would come out invalid => GEN-BROKEN.

const modPath = "github.com/database64128/shadowsocks-go"

type lpkg struct {
	Dir   string
	Files []*ast.File
	Types *types.Package
	Info  *types.Info
	ld    *loader
}

type loader struct {
	repo string
	fset *token.FileSet
	pkgs map[string]*lpkg
	stub map[string]*types.Package
}

func newLoader(repo string) *loader {
	return &loader{repo: repo, fset: token.NewFileSet(), pkgs: map[string]*lpkg{}, stub: map[string]*types.Package{}}
}

func (ld *loader) Import(path string) (*types.Package, error) {
	if path == modPath || strings.HasPrefix(path, modPath+"/") {
		p, err := ld.Load(strings.TrimPrefix(strings.TrimPrefix(path, modPath), "/"))
		if err != nil {
			return nil, err
		}
		return p.Types, nil
	}
	if p, ok := ld.stub[path]; ok {
		return p, nil
	}
	name := path[strings.LastIndex(path, "/")+1:]
	if name == "v2" || name == "v3" {
		rest := strings.TrimSuffix(path, "/"+name)
		name = rest[strings.LastIndex(rest, "/")+1:]
	}
	p := types.NewPackage(path, strings.ReplaceAll(name, "-", "_"))
	p.MarkComplete()
	ld.stub[path] = p
	return p, nil
}

func buildOK(f *ast.File) bool {
	for _, cg := range f.Comments {
		if cg.Pos() > f.Package {
			break
		}
		for _, cm := range cg.List {
			if constraint.IsGoBuild(cm.Text) {
				e, err := constraint.Parse(cm.Text)
				if err != nil {
					return false
				}
				return e.Eval(func(tag string) bool {
					return tag == "linux" || tag == "amd64" || tag == "unix" || tag == "gc" || strings.HasPrefix(tag, "go1.")
				})
			}
		}
	}
	return true
}

var otherOS = []string{"windows", "darwin", "freebsd", "openbsd", "netbsd", "dragonfly", "solaris", "plan9", "js", "wasip1", "aix", "android", "ios", "illumos", "zos"}
var otherArch = []string{"386", "arm", "arm64", "riscv64", "mips", "mips64", "mips64le", "mipsle", "ppc64", "ppc64le", "s390x", "wasm", "loong64"}

func nameOK(n string) bool {
	base := strings.TrimSuffix(n, ".go")
	for _, o := range otherOS {
		if strings.HasSuffix(base, "_"+o) || strings.Contains(base, "_"+o+"_") {
			return false
		}
	}
	for _, a := range otherArch {
		if strings.HasSuffix(base, "_"+a) {
			return false
		}
	}
	return true
}

func (ld *loader) Load(dir string) (*lpkg, error) {
	if p, ok := ld.pkgs[dir]; ok {
		if p == nil {
			return nil, fmt.Errorf("import cycle through %s", dir)
		}
		return p, nil
	}
	ld.pkgs[dir] = nil
	full := filepath.Join(ld.repo, dir)
	ents, err := os.ReadDir(full)
	if err != nil {
		return nil, err
	}
	var files []*ast.File
	for _, e := range ents {
		n := e.Name()
		if e.IsDir() || !strings.HasSuffix(n, ".go") || strings.HasSuffix(n, "_test.go") || !nameOK(n) {
			continue
		}
		f, err := parser.ParseFile(ld.fset, filepath.Join(full, n), nil, parser.ParseComments|parser.SkipObjectResolution)
		if err != nil {
			return nil, err
		}
		if buildOK(f) {
			files = append(files, f)
		}
	}
	if len(files) == 0 {
		return nil, fmt.Errorf("no Go files in %s", dir)
	}
	info := &types.Info{Types: map[ast.Expr]types.TypeAndValue{}}
	conf := types.Config{Importer: ld, Error: func(error) {}}
	path := modPath
	if dir != "" {
		path += "/" + dir
	}
	tp, _ := conf.Check(path, ld.fset, files, info)
	if tp == nil {
		return nil, fmt.Errorf("type-check of %s produced no package", dir)
	}
	p := &lpkg{Dir: dir, Files: files, Types: tp, Info: info, ld: ld}
	ld.pkgs[dir] = p
	return p, nil
}

func (p *lpkg) ConstInt(name string) (string, error) {
	c, ok := p.Types.Scope().Lookup(name).(*types.Const)
	if !ok || c.Val() == nil || c.Val().Kind() == constant.Unknown {
		return "", fmt.Errorf("%s.%s: no such (evaluable) constant", p.Dir, name)
	}
	v := constant.ToInt(c.Val())
	if v.Kind() != constant.Int {
		return "", fmt.Errorf("%s.%s: not an integer constant (%s)", p.Dir, name, c.Val())
	}
	return v.ExactString(), nil
}

func (p *lpkg) Func(recv, name string) (*ast.FuncDecl, error) {
	for _, f := range p.Files {
		for _, d := range f.Decls {
			fd, ok := d.(*ast.FuncDecl)
			if !ok || fd.Name.Name != name {
				continue
			}
			if recv == "" && fd.Recv == nil {
				return fd, nil
			}
			if recv != "" && fd.Recv != nil && len(fd.Recv.List) == 1 && p.Src(fd.Recv.List[0].Type) == recv {
				return fd, nil
			}
		}
	}
	return nil, fmt.Errorf("%s: function %s.%s not found", p.Dir, recv, name)
}

func (p *lpkg) Src(n ast.Node) string {
	var sb strings.Builder
	printer.Fprint(&sb, p.ld.fset, n)
	return strings.Join(strings.Fields(sb.String()), " ")
}

func (p *lpkg) EvalInt(e ast.Expr) (string, bool) {
	tv, ok := p.Info.Types[e]
	if !ok || tv.Value == nil || tv.Value.Kind() == constant.Unknown {
		return "", false
	}
	v := constant.ToInt(tv.Value)
	if v.Kind() != constant.Int {
		return "", false
	}
	return v.ExactString(), true
}

func consts(l *gen.Lean, p *lpkg, names ...string) error {
	for _, n := range names {
		v, err := p.ConstInt(n)
		if err != nil {
			return err
		}
		if strings.HasPrefix(v, "-") {
			return fmt.Errorf("%s.%s is negative", p.Dir, n)
		}
		natAbbrev(l, n, v, p.Dir+"."+n)
	}
	return nil
}

type fn struct {
	pkg, recv, name, lean string
}

var funcs = []fn{
	{"socks5", "", "AddrPortFromSlice", "AddrPortFromSlice"},
	{"socks5", "", "ConnAddrFromSlice", "ConnAddrFromSlice"},
	{"socks5", "*DomainCache", "ConnAddrFromSlice", "DomainCacheConnAddrFromSlice"},
	{"socks5", "", "AppendFromReader", "AppendFromReader"},
	{"socks5", "", "ConnAddrFromReader", "ConnAddrFromReader"},
	{"socks5", "", "serverHandleMethodSelection", "serverHandleMethodSelection"},
	{"socks5", "", "serverHandleUsernamePassword", "serverHandleUsernamePassword"},
	{"socks5", "", "serverHandleRequest", "serverHandleRequest"},
	{"socks5", "", "clientNegotiateAuthMethod", "clientNegotiateAuthMethod"},
	{"socks5", "", "clientDoUsernamePasswordAuth", "clientDoUsernamePasswordAuth"},
	{"socks5", "", "clientDoRequest", "clientDoRequest"},
	{"socks5", "", "replyWithStatus", "replyWithStatus"},
	{"socks5", "", "ValidatePacketHeader", "ValidatePacketHeader"},
	{"conn", "", "AddrFromDomainPort", "AddrFromDomainPort"},
	{"conn", "Addr", "IP", "AddrIP"},
	{"conn", "Addr", "Domain", "AddrDomain"},
	{"conn", "Addr", "IPPort", "AddrIPPort"},
	{"ss2022", "", "ValidateUnixEpochTimestamp", "ValidateUnixEpochTimestamp"},
	{"ss2022", "", "ParseTCPRequestFixedLengthHeader", "ParseTCPRequestFixedLengthHeader"},
	{"ss2022", "", "ParseTCPRequestVariableLengthHeader", "ParseTCPRequestVariableLengthHeader"},
	{"ss2022", "", "ParseTCPResponseHeader", "ParseTCPResponseHeader"},
	{"ss2022", "", "ParseSessionIDAndPacketID", "ParseSessionIDAndPacketID"},
	{"ss2022", "", "ParseUDPClientMessageHeader", "ParseUDPClientMessageHeader"},
	{"ss2022", "", "ParseUDPServerMessageHeader", "ParseUDPServerMessageHeader"},
	{"ss2022", "*UDPServer", "SessionInfo", "UDPServerSessionInfo"},
	{"ss2022", "*UDPServer", "NewUnpacker", "UDPServerNewUnpacker"},
	{"ss2022", "*ShadowPacketServerUnpacker", "UnpackInPlace", "ShadowPacketServerUnpack"},
	{"ss2022", "*ShadowPacketClientUnpacker", "UnpackInPlace", "ShadowPacketClientUnpack"},
	{"ss2022", "*ShadowStreamConn", "read", "ShadowStreamConnRead"},
	{"ss2022", "*StreamServer", "HandleStream", "StreamServerHandleStream"},
	{"ss2022", "*ShadowStreamClientConn", "initRead", "ShadowStreamClientInitRead"},
	{"ss2022", "", "readOnceExpectFull", "readOnceExpectFull"},
	{"direct", "*DirectPacketServerPackUnpacker", "PackInPlace", "DirectServerPack"},
	{"direct", "*ShadowsocksNonePacketClientUnpacker", "UnpackInPlace", "NoneClientUnpack"},
	{"direct", "*ShadowsocksNonePacketServerUnpacker", "UnpackInPlace", "NoneServerUnpack"},
	{"direct", "*Socks5PacketClientUnpacker", "UnpackInPlace", "Socks5ClientUnpack"},
	{"direct", "*Socks5PacketServerUnpacker", "UnpackInPlace", "Socks5ServerUnpack"},
	{"httpproxy", "", "hostHeaderToAddr", "hostHeaderToAddr"},
	{"httpproxy", "", "serverHandleBasicAuth", "serverHandleBasicAuth"},
	{"ss2022", "*ShadowPacketClientPacker", "PackInPlace", "ShadowPacketClientPack"},
	{"ss2022", "*ShadowPacketServerPacker", "PackInPlace", "ShadowPacketServerPack"},
	{"ss2022", "", "PutUDPClientMessageHeader", "PutUDPClientMessageHeader"},
	{"ss2022", "", "PutUDPServerMessageHeader", "PutUDPServerMessageHeader"},
	{"ss2022", "", "intToUint16", "intToUint16"},
	{"ss2022", "*StreamClient", "DialStream", "StreamClientDialStream"},
	{"ss2022", "", "PutTCPRequestVariableLengthHeader", "PutTCPRequestVariableLengthHeader"},
	{"direct", "*DirectPacketClientPacker", "PackInPlace", "DirectClientPack"},
	{"direct", "*ShadowsocksNonePacketClientPacker", "PackInPlace", "NoneClientPack"},
	{"direct", "ShadowsocksNonePacketServerPacker", "PackInPlace", "NoneServerPack"},
	{"direct", "*Socks5PacketClientPacker", "PackInPlace", "Socks5ClientPack"},
	{"direct", "Socks5PacketServerPacker", "PackInPlace", "Socks5ServerPack"},
	{"socks5", "", "WriteAddrFromConnAddr", "WriteAddrFromConnAddr"},
	{"socks5", "", "WriteAddrFromAddrPort", "WriteAddrFromAddrPort"},
	{"socks5", "", "LengthOfAddrFromConnAddr", "LengthOfAddrFromConnAddr"},
	{"zerocopy", "", "UDPRelayHeadroom", "UDPRelayHeadroom"},
	{"zerocopy", "", "MaxPacketSizeForAddr", "MaxPacketSizeForAddr"},
	{"direct", "*Socks5UDPClient", "NewSession", "Socks5UDPClientNewSession"},
	{"direct", "*Socks5UDPClient", "newSession", "Socks5UDPClientNewSessionInner"},
	{"direct", "*Socks5AuthUDPClient", "NewSession", "Socks5AuthUDPClientNewSession"},
	{"direct", "*ShadowsocksNoneUDPClient", "NewSession", "NoneUDPClientNewSession"},
	{"ss2022", "*UDPClient", "NewSession", "SS2022UDPClientNewSession"},
	{"httpproxy", "", "serverForwardResponses", "serverForwardResponses"},
	{"httpproxy", "", "serverForwardRequests", "serverForwardRequests"},
	{"httpproxy", "", "removeConnectionSpecificFields", "removeConnectionSpecificFields"},
	{"httpproxy", "", "ServerHandle", "httpServerHandle"},
	{"ss2022", "*ShadowStreamClientConn", "Read", "ShadowStreamClientRead"},
	{"ss2022", "*ShadowStreamClientConn", "readFirstPayloadChunk", "ShadowStreamClientReadFirstChunk"},
	{"ss2022", "", "lengthExtendSalt", "lengthExtendSalt"},
	{"dns", "*resultBuilder", "parseMsg", "dnsParseMsg"},
	{"dns", "*Resolver", "doTCP", "dnsDoTCP"},
	{"dns", "*Resolver", "sendQueries", "dnsSendQueries"},
	{"httpproxy", "", "ClientConnect", "httpClientConnect"},
	{"portset", "*PortSet", "Contains", "PortSetContains"},
	{"portset", "", "panicOnZeroPort", "panicOnZeroPort"},
	{"portset", "PortRangeSet", "Contains", "PortRangeSetContains"},
	{"router", "SourcePortCriterion", "Meet", "SourcePortMeet"},
	{"router", "SourcePortRangeSetCriterion", "Meet", "SourcePortRangeSetMeet"},
	{"router", "*SourcePortSetCriterion", "Meet", "SourcePortSetMeet"},
	{"router", "DestPortCriterion", "Meet", "DestPortMeet"},
	{"router", "DestPortRangeSetCriterion", "Meet", "DestPortRangeSetMeet"},
	{"router", "*DestPortSetCriterion", "Meet", "DestPortSetMeet"},
	{"router", "DestDomainCriterion", "Meet", "DestDomainMeet"},
	{"router", "*DestIPCriterion", "Meet", "DestIPMeet"},
	{"router", "DestResolvedIPCriterion", "Meet", "DestResolvedIPMeet"},
	{"router", "*Router", "match", "RouterMatch"},
	{"router", "*Route", "Match", "RouteMatch"},
}

// methods that panic by contract on some receiver/argument values
var panickyMethods = map[string]bool{"IsUnspecified": false, "IP": true, "Domain": true, "IPPort": true, "Contains": true, "IsSet": true, "Host": true,
	"ResolveIP": true, "ResolveIPPort": true, "MustAdd": true}

func mentionsLenCap(p *lpkg, e ast.Expr) bool {
	found := false
	ast.Inspect(e, func(n ast.Node) bool {
		if c, ok := n.(*ast.CallExpr); ok {
			if id, ok := c.Fun.(*ast.Ident); ok && (id.Name == "len" || id.Name == "cap") {
				found = true
			}
		}
		return !found
	})
	return found
}

// hasOrdering: the condition contains an ordering comparison (<, <=, >, >=): these are the range guards
// (`packetLen < 3`, `payloadStart > len(b)`, `ulen > 1`, ...).
func hasOrdering(e ast.Expr) bool {
	found := false
	ast.Inspect(e, func(n ast.Node) bool {
		if b, ok := n.(*ast.BinaryExpr); ok {
			switch b.Op {
			case token.LSS, token.LEQ, token.GTR, token.GEQ:
				found = true
			}
		}
		return !found
	})
	return found
}

func hasIndexing(b *ast.BlockStmt) bool {
	found := false
	ast.Inspect(b, func(n ast.Node) bool {
		switch n.(type) {
		case *ast.IndexExpr, *ast.SliceExpr:
			found = true
		}
		return !found
	})
	return found
}

func endsInReturn(b *ast.BlockStmt) bool {
	if b == nil || len(b.List) == 0 {
		return false
	}
	switch b.List[len(b.List)-1].(type) {
	case *ast.ReturnStmt:
		return true
	}
	if es, ok := b.List[len(b.List)-1].(*ast.ExprStmt); ok {
		if c, ok := es.X.(*ast.CallExpr); ok {
			if id, ok := c.Fun.(*ast.Ident); ok && id.Name == "panic" {
				return true
			}
		}
	}
	return false
}

// lenGuardConst recognises `len(x) < N` / `N > len(x)` with N constant; returns N.
func lenGuardConst(p *lpkg, cond ast.Expr) (string, bool) {
	be, ok := cond.(*ast.BinaryExpr)
	if !ok {
		return "", false
	}
	isLen := func(e ast.Expr) bool {
		c, ok := e.(*ast.CallExpr)
		if !ok {
			return false
		}
		id, ok := c.Fun.(*ast.Ident)
		return ok && id.Name == "len"
	}
	switch {
	case be.Op == token.LSS && isLen(be.X):
		return p.EvalInt(be.Y)
	case be.Op == token.GTR && isLen(be.Y):
		return p.EvalInt(be.X)
	}
	return "", false
}

func isSliceLike(p *lpkg, e ast.Expr) bool {
	tv, ok := p.Info.Types[e]
	if !ok || tv.Type == nil {
		return true // be conservative: record it
	}
	if tv.IsType() {
		return false // generic instantiation T[X], not an index expression
	}
	t := tv.Type.Underlying()
	if t == types.Typ[types.Invalid] {
		return true // type unknown to the light loader (external package): record it
	}
	if pt, ok := t.(*types.Pointer); ok {
		t = pt.Elem().Underlying()
	}
	switch t := t.(type) {
	case *types.Slice, *types.Array:
		return true
	case *types.Basic:
		return t.Info()&types.IsString != 0
	case *types.Map:
		return false
	}
	return true
}

func shapeOf(p *lpkg, fd *ast.FuncDecl) (shape []string, guards []string) {
	ast.Inspect(fd.Body, func(n ast.Node) bool {
		switch x := n.(type) {
		case *ast.IfStmt:
			// guards: conditions on len()/cap(); ordering comparisons only when they guard something panic-relevant
			// (the branch returns / panics, or it contains an index or slice expression) — bookkeeping such as
			// `if nr > 0 { c.readErr = err }` or `if packetLen > max { err = ... }` is not part of the fingerprint
			if mentionsLenCap(p, x.Cond) || (hasOrdering(x.Cond) && (endsInReturn(x.Body) || hasIndexing(x.Body))) {
				s := "if " + p.Src(x.Cond)
				if endsInReturn(x.Body) {
					s += " => return"
				}
				shape = append(shape, s)
				if v, ok := lenGuardConst(p, x.Cond); ok && endsInReturn(x.Body) {
					guards = append(guards, v)
				}
			}
		case *ast.CaseClause:
			for _, ce := range x.List {
				if mentionsLenCap(p, ce) || hasOrdering(ce) || strings.Contains(p.Src(ce), " nil") { // incl. `x != nil` conjuncts (nil-interface calls panic)
					shape = append(shape, "case "+p.Src(ce))
				}
			}
		case *ast.IndexExpr:
			if isSliceLike(p, x.X) {
				shape = append(shape, p.Src(x))
			}
		case *ast.SliceExpr:
			shape = append(shape, p.Src(x))
		case *ast.CallExpr:
			switch f := x.Fun.(type) {
			case *ast.Ident:
				if f.Name == "panic" {
					shape = append(shape, "panic")
				}
			case *ast.ParenExpr: // (*[4]byte)(b[1:])
				if st, ok := f.X.(*ast.StarExpr); ok {
					if _, ok := st.X.(*ast.ArrayType); ok {
						shape = append(shape, "conv "+p.Src(x.Fun))
					}
				}
			case *ast.ArrayType: // [16]byte(reserved)
				shape = append(shape, "conv "+p.Src(x.Fun))
			case *ast.SelectorExpr:
				src := p.Src(f)
				switch {
				case strings.HasPrefix(src, "binary.BigEndian."):
					shape = append(shape, "call "+f.Sel.Name)
				case f.Sel.Name == "IntN" || f.Sel.Name == "Intn":
					shape = append(shape, "call "+p.Src(x))
				case strings.HasPrefix(src, "unsafe."):
					shape = append(shape, "call "+src)
				case panickyMethods[f.Sel.Name]:
					shape = append(shape, "call ."+f.Sel.Name)
				}
			}
		}
		return true
	})
	return
}

// zeroPortGuarded reports whether a `*PortSetCriterion.Meet` body checks the port against 0 before
// calling PortSet.Contains (finding F3): an `if <port expr> == 0 {... return ...}` statement before the
// call, or a `<port expr> != 0 && ...Contains(...)` conjunction. Any other comparison against 0 is not
// classified (GEN-BROKEN).
func zeroPortGuarded(p *lpkg, fd *ast.FuncDecl) (bool, error) {
	guarded := false
	var bad error
	containsSeen := false
	isZero := func(e ast.Expr) bool {
		v, ok := p.EvalInt(e)
		return ok && v == "0"
	}
	ast.Inspect(fd.Body, func(n ast.Node) bool {
		switch x := n.(type) {
		case *ast.IfStmt:
			if be, ok := x.Cond.(*ast.BinaryExpr); ok && (isZero(be.X) || isZero(be.Y)) {
				switch {
				case be.Op == token.EQL && endsInReturn(x.Body) && !containsSeen:
					guarded = true
				default:
					bad = fmt.Errorf("%s: unclassified comparison against 0: %s", fd.Name.Name, p.Src(x.Cond))
				}
			}
		case *ast.BinaryExpr:
			if x.Op == token.LAND {
				if be, ok := x.X.(*ast.BinaryExpr); ok && be.Op == token.NEQ && (isZero(be.X) || isZero(be.Y)) {
					if strings.Contains(p.Src(x.Y), "Contains(") {
						guarded = true
					}
				}
			}
		case *ast.CallExpr:
			if se, ok := x.Fun.(*ast.SelectorExpr); ok && se.Sel.Name == "Contains" {
				containsSeen = true
			}
		}
		return true
	})
	if !containsSeen {
		return false, fmt.Errorf("%s: no Contains call found", fd.Name.Name)
	}
	return guarded, bad
}

func main() {
	gen.Main("C06", func(c *gen.Ctx, l *gen.Lean) error {
		ld := newLoader(c.Repo)
		s5, err := ld.Load("socks5")
		if err != nil {
			return err
		}
		if err := consts(l, s5, "AtypIPv4", "AtypDomainName", "AtypIPv6", "IPv4AddrLen", "IPv6AddrLen", "MaxAddrLen",
			"Version", "MethodNoAuthenticationRequired", "MethodUsernamePassword", "MethodNoAcceptable",
			"CmdConnect", "CmdBind", "CmdUDPAssociate", "ReplySucceeded", "ReplyCommandNotSupported", "UsernamePasswordAuthVersion"); err != nil {
			return err
		}
		ss, err := ld.Load("ss2022")
		if err != nil {
			return err
		}
		if err := consts(l, ss, "HeaderTypeClientStream", "HeaderTypeServerStream", "HeaderTypeClientPacket", "HeaderTypeServerPacket",
			"MaxPaddingLength", "IdentityHeaderLength", "TCPRequestFixedLengthHeaderLength", "UDPSeparateHeaderLength",
			"UDPClientMessageHeaderFixedLength", "UDPServerMessageHeaderFixedLength", "MaxEpochDiff",
			"tagSize", "nonceSize", "streamMaxPayloadSize", "streamReadMinBufferSize", "streamWriteBufferSize"); err != nil {
			return err
		}
		for _, f := range funcs {
			p, err := ld.Load(f.pkg)
			if err != nil {
				return err
			}
			fd, err := p.Func(f.recv, f.name)
			if err != nil {
				return err
			}
			if fd.Body == nil {
				return fmt.Errorf("%s.%s has no body", f.pkg, f.name)
			}
			shape, guards := shapeOf(p, fd)
			l.Raw(fmt.Sprintf("/-- panic-relevant fingerprint of %s.%s%s -/\ndef %s_shape : List String := %s\n", f.pkg, recvDot(f.recv), f.name, f.lean, gen.LeanStrList(shape)))
			for i, g := range guards {
				natAbbrev(l, fmt.Sprintf("%s_lenGuard%d", f.lean, i), g, fmt.Sprintf("%s.%s%s: constant of the %d-th `len(x) < N => return` guard", f.pkg, recvDot(f.recv), f.name, i))
			}
		}
		// F3: is port 0 kept away from PortSet.Contains (which panics on 0 by contract)?
		rt, err := ld.Load("router")
		if err != nil {
			return err
		}
		for _, m := range []struct{ recv, lean string }{{"*SourcePortSetCriterion", "sourcePortSetMeetGuardsZero"}, {"*DestPortSetCriterion", "destPortSetMeetGuardsZero"}} {
			fd, err := rt.Func(m.recv, "Meet")
			if err != nil {
				return err
			}
			g, err := zeroPortGuarded(rt, fd)
			if err != nil {
				return err
			}
			l.BoolDef(m.lean, g, "router."+m.recv+".Meet checks the port against 0 before PortSet.Contains")
		}
		// relay re-pack: is every `mrand.IntN(x)` in the two ss2022 packers reached only when `x > 0`?
		for _, m := range []struct{ recv, lean string }{{"*ShadowPacketClientPacker", "clientPackerGuardsIntN"}, {"*ShadowPacketServerPacker", "serverPackerGuardsIntN"}} {
			fd, err := ss.Func(m.recv, "PackInPlace")
			if err != nil {
				return err
			}
			g, err := intNGuarded(ss, fd)
			if err != nil {
				return err
			}
			l.BoolDef(m.lean, g, "ss2022."+m.recv+".PackInPlace: every mrand.IntN(x) is under a condition with the conjunct `x > 0`")
		}
		// conn.Addr accessors that panic on the wrong address kind (IP / IPPort / Domain): every call site in the packages that
		// handle wire-derived addresses, with the IsIP()/IsDomain() guard that dominates it; the sites without a sufficient
		// guard must be exactly the audited list in Props (a new unguarded call re-opens the obligation).
		{
			var all, unguarded []string
			for _, dir := range []string{"direct", "socks5", "service", "router", "dns", "netio", "probe", "ss2022", "ssnone", "httpproxy", "clientgroups"} {
				p, err := ld.Load(dir)
				if err != nil {
					return err
				}
				a, u := accessorSites(p)
				all = append(all, a...)
				unguarded = append(unguarded, u...)
			}
			l.Raw(fmt.Sprintf("/-- every call of conn.Addr.IP/IPPort/Domain (contract: panic on the wrong kind) with its dominating guard -/\ndef accessorSites : List String := %s\n", gen.LeanStrList(all)))
			l.Raw(fmt.Sprintf("/-- the call sites whose guard does not by itself establish the accessor's precondition -/\ndef unguardedAccessorSites : List String := %s\n", gen.LeanStrList(unguarded)))
		}
		// client UDP unpacker: does every switch case that takes a session slot's AEAD (`saead = p.<slot>AEAD`) also require
		// `p.<slot>AEAD != nil`? (both slots start as {id 0, nil AEAD}: without the conjunct a header with session id 0 selects a nil AEAD)
		{
			fd, err := ss.Func("*ShadowPacketClientUnpacker", "UnpackInPlace")
			if err != nil {
				return err
			}
			takes, guarded := 0, 0
			ast.Inspect(fd.Body, func(n ast.Node) bool {
				cc, ok := n.(*ast.CaseClause)
				if !ok {
					return true
				}
				for _, st := range cc.Body {
					as, ok := st.(*ast.AssignStmt)
					if !ok || len(as.Lhs) != 1 || len(as.Rhs) != 1 || ss.Src(as.Lhs[0]) != "saead" {
						continue
					}
					rhs := ss.Src(as.Rhs[0])
					if !strings.HasPrefix(rhs, "p.") || !strings.HasSuffix(rhs, "AEAD") {
						continue
					}
					takes++
					for _, ce := range cc.List {
						if strings.Contains(" "+ss.Src(ce)+" ", " "+rhs+" != nil ") || strings.HasSuffix(ss.Src(ce), rhs+" != nil") {
							guarded++
							break
						}
					}
				}
				return true
			})
			if takes == 0 {
				return fmt.Errorf("ss2022.(*ShadowPacketClientUnpacker).UnpackInPlace: no `saead = p.<slot>AEAD` case found (the session-slot model no longer mirrors the code)")
			}
			l.BoolDef("clientUnpackerGuardsNilAEAD", takes == guarded, "ss2022.(*ShadowPacketClientUnpacker).UnpackInPlace: every case that takes a slot's AEAD requires it to be non-nil")
		}
		// F4: does the service refuse `direct` + tunnelUDPTargetOnly + non-IP tunnelRemoteAddress at load?
		sv, err := ld.Load("service")
		if err != nil {
			return err
		}
		rejects := false
		for _, fname := range []string{"Initialize", "UDPRelay"} {
			fd, err := sv.Func("*ServerConfig", fname)
			if err != nil {
				return err
			}
			var bad error
			ast.Inspect(fd.Body, func(n ast.Node) bool {
				if x, ok := n.(*ast.IfStmt); ok {
					src := sv.Src(x.Cond)
					if strings.Contains(src, "TunnelUDPTargetOnly") {
						if (strings.Contains(src, "IsIP()") || strings.Contains(src, "IsDomain()")) && endsInReturn(x.Body) {
							rejects = true
						} else {
							bad = fmt.Errorf("service.(*ServerConfig).%s: unclassified condition on TunnelUDPTargetOnly: %s", fname, src)
						}
					}
				}
				return true
			})
			if bad != nil {
				return bad
			}
		}
		l.BoolDef("directRejectsTargetOnlyDomain", rejects, "service.(*ServerConfig).Initialize/UDPRelay returns an error for direct + TunnelUDPTargetOnly + non-IP TunnelRemoteAddress")
		// portset.Contains panics on port 0 (contract required by portset's own tests)
		ps, err := ld.Load("portset")
		if err != nil {
			return err
		}
		fd, err := ps.Func("*PortSet", "Contains")
		if err != nil {
			return err
		}
		l.BoolDef("portSetContainsPanicsOnZero", strings.Contains(ps.Src(fd.Body), "panicOnZeroPort("), "portset.(*PortSet).Contains calls panicOnZeroPort")
		return nil
	})
}

// natAbbrev emits a reducible constant (so that `omega`/`simp` side goals can see through it after `simp only [name]`
// without leaving instance terms that are equal only up to default transparency).
func natAbbrev(l *gen.Lean, name, val, origin string) {
	l.Raw(fmt.Sprintf("/-- %s -/\nabbrev %s : Nat := %s\n", origin, name, val))
}

// intNGuarded: every call `IntN(x)` (x an identifier) in the function sits in a tagless-switch case or an if whose
// condition has the top-level conjunct `x > 0` / `0 < x` / `x >= 1`. No IntN call at all is GEN-BROKEN (the model has one).
func intNGuarded(p *lpkg, fd *ast.FuncDecl) (bool, error) {
	calls, guarded := 0, 0
	var conjuncts func(e ast.Expr) []ast.Expr
	conjuncts = func(e ast.Expr) []ast.Expr {
		if pe, ok := e.(*ast.ParenExpr); ok {
			return conjuncts(pe.X)
		}
		if b, ok := e.(*ast.BinaryExpr); ok && b.Op == token.LAND {
			return append(conjuncts(b.X), conjuncts(b.Y)...)
		}
		return []ast.Expr{e}
	}
	positive := func(cond ast.Expr, arg string) bool {
		for _, c := range conjuncts(cond) {
			s := p.Src(c)
			if s == arg+" > 0" || s == "0 < "+arg || s == arg+" >= 1" || s == "1 <= "+arg {
				return true
			}
		}
		return false
	}
	var walk func(n ast.Node, conds []ast.Expr)
	walk = func(n ast.Node, conds []ast.Expr) {
		switch x := n.(type) {
		case nil:
			return
		case *ast.IfStmt:
			walk(x.Init, conds)
			walk(x.Body, append(conds[:len(conds):len(conds)], x.Cond))
			walk(x.Else, conds)
			return
		case *ast.CaseClause:
			c2 := conds
			if len(x.List) == 1 {
				c2 = append(conds[:len(conds):len(conds)], x.List[0])
			}
			for _, st := range x.Body {
				walk(st, c2)
			}
			return
		case *ast.CallExpr:
			if se, ok := x.Fun.(*ast.SelectorExpr); ok && (se.Sel.Name == "IntN" || se.Sel.Name == "Intn") && len(x.Args) == 1 {
				calls++
				arg := p.Src(x.Args[0])
				for _, c := range conds {
					if positive(c, arg) {
						guarded++
						break
					}
				}
			}
		}
		ast.Inspect(n, func(m ast.Node) bool {
			if m == n || m == nil {
				return true
			}
			switch m.(type) {
			case *ast.IfStmt, *ast.CaseClause, *ast.CallExpr:
				walk(m, conds)
				return false
			}
			return true
		})
	}
	walk(fd.Body, nil)
	if calls == 0 {
		return false, fmt.Errorf("%s: no IntN call found (the model of the padding draw no longer mirrors the code)", fd.Name.Name)
	}
	return guarded == calls, nil
}

// accessorSites lists the calls `x.IP()`, `x.IPPort()`, `x.Domain()` on a conn.Addr in package p.
// guard = "IsIP" (call is in the then-branch of a condition with conjunct x.IsIP(), or after `if !x.IsIP() {…return}`),
// "notIsIP" (else-branch of x.IsIP(), then-branch of !x.IsIP(), or after `if x.IsIP() {…return}`), "IsDomain", or "none".
// IP/IPPort need IsIP; Domain needs IsDomain or notIsIP (wire-derived addresses are never the zero value).
func accessorSites(p *lpkg) (all, unguarded []string) {
	isAddr := func(e ast.Expr) bool {
		tv, ok := p.Info.Types[e]
		if !ok || tv.Type == nil {
			return true
		}
		t := tv.Type.String()
		return strings.HasSuffix(t, "/conn.Addr") || t == "invalid type"
	}
	var conjuncts func(e ast.Expr) []ast.Expr
	conjuncts = func(e ast.Expr) []ast.Expr {
		if pe, ok := e.(*ast.ParenExpr); ok {
			return conjuncts(pe.X)
		}
		if b, ok := e.(*ast.BinaryExpr); ok && b.Op == token.LAND {
			return append(conjuncts(b.X), conjuncts(b.Y)...)
		}
		return []ast.Expr{e}
	}
	// facts established about receiver text: "IsIP", "notIsIP", "IsDomain"
	factsOf := func(cond ast.Expr, positive bool) map[string]string {
		m := map[string]string{}
		cs := []ast.Expr{cond}
		if positive {
			cs = conjuncts(cond)
		}
		for _, c := range cs {
			neg := !positive
			if u, ok := c.(*ast.UnaryExpr); ok && u.Op == token.NOT {
				c, neg = u.X, !neg
			}
			call, ok := c.(*ast.CallExpr)
			if !ok {
				continue
			}
			se, ok := call.Fun.(*ast.SelectorExpr)
			if !ok {
				continue
			}
			recv := p.Src(se.X)
			switch {
			case se.Sel.Name == "IsIP" && !neg:
				m[recv] = "IsIP"
			case se.Sel.Name == "IsIP" && neg:
				m[recv] = "notIsIP"
			case se.Sel.Name == "IsDomain" && !neg:
				m[recv] = "IsDomain"
			}
		}
		return m
	}
	merge := func(a, b map[string]string) map[string]string {
		m := map[string]string{}
		for k, v := range a {
			m[k] = v
		}
		for k, v := range b {
			m[k] = v
		}
		return m
	}
	var fname string
	var walkStmts func(list []ast.Stmt, facts map[string]string)
	var walk func(n ast.Node, facts map[string]string)
	record := func(n ast.Node, facts map[string]string) {
		ast.Inspect(n, func(m ast.Node) bool {
			switch m.(type) {
			case *ast.BlockStmt, *ast.IfStmt, *ast.FuncLit:
				if m != n {
					walk(m, facts)
					return false
				}
			}
			call, ok := m.(*ast.CallExpr)
			if !ok || len(call.Args) != 0 {
				return true
			}
			se, ok := call.Fun.(*ast.SelectorExpr)
			if !ok || (se.Sel.Name != "IP" && se.Sel.Name != "IPPort" && se.Sel.Name != "Domain") || !isAddr(se.X) {
				return true
			}
			recv := p.Src(se.X)
			g := facts[recv]
			if g == "" {
				g = "none"
			}
			entry := fmt.Sprintf("%s.%s: %s.%s() guard=%s", p.Dir, fname, recv, se.Sel.Name, g)
			all = append(all, entry)
			okGuard := (se.Sel.Name == "Domain" && (g == "IsDomain" || g == "notIsIP")) || (se.Sel.Name != "Domain" && g == "IsIP")
			if !okGuard {
				unguarded = append(unguarded, entry)
			}
			return true
		})
	}
	walk = func(n ast.Node, facts map[string]string) {
		switch x := n.(type) {
		case nil:
		case *ast.BlockStmt:
			walkStmts(x.List, facts)
		case *ast.IfStmt:
			if x.Init != nil {
				record(x.Init, facts)
			}
			// Go evaluates the condition left to right: later conjuncts see the earlier ones
			record(x.Cond, merge(facts, factsOf(x.Cond, true)))
			walk(x.Body, merge(facts, factsOf(x.Cond, true)))
			if x.Else != nil {
				walk(x.Else, merge(facts, factsOf(x.Cond, false)))
			}
		case *ast.FuncLit:
			walk(x.Body, facts)
		default:
			record(n, facts)
		}
	}
	walkStmts = func(list []ast.Stmt, facts map[string]string) {
		for _, st := range list {
			switch x := st.(type) {
			case *ast.BlockStmt, *ast.IfStmt:
				walk(x, facts)
			case *ast.SwitchStmt, *ast.TypeSwitchStmt, *ast.SelectStmt, *ast.ForStmt, *ast.RangeStmt, *ast.CaseClause, *ast.CommClause:
				// descend generically: blocks inside are walked with the current facts
				ast.Inspect(x, func(m ast.Node) bool {
					if m == ast.Node(x) {
						return true
					}
					switch b := m.(type) {
					case *ast.BlockStmt:
						walk(b, facts)
						return false
					case *ast.CaseClause:
						for _, e := range b.List {
							record(e, facts)
						}
						walkStmts(b.Body, facts)
						return false
					case *ast.CommClause:
						walkStmts(b.Body, facts)
						return false
					case ast.Expr:
						record(b, facts)
						return false
					}
					return true
				})
			default:
				record(st, facts)
			}
			// early return: `if cond { … return }` establishes the negation for the rest of the block
			if is, ok := st.(*ast.IfStmt); ok && is.Else == nil && endsInReturn(is.Body) {
				facts = merge(facts, factsOf(is.Cond, false))
			}
		}
	}
	for _, f := range p.Files {
		for _, d := range f.Decls {
			fd, ok := d.(*ast.FuncDecl)
			if !ok || fd.Body == nil {
				continue
			}
			fname = fd.Name.Name
			if fd.Recv != nil && len(fd.Recv.List) == 1 {
				fname = "(" + p.Src(fd.Recv.List[0].Type) + ")." + fname
			}
			walk(fd.Body, map[string]string{})
		}
	}
	return
}

func recvDot(r string) string {
	if r == "" {
		return ""
	}
	return "(" + r + ")."
}
