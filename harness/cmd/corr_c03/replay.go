package main

// Engine "replay": histories of (advance clock | present a new request | re-present the bytes of an earlier
// one | present a mutated copy) against a real StreamServer.HandleStream inside a testing/synctest bubble
// (fake clock), against the Lean model, and against the property oracle.

import (
	"bytes"
	"context"
	"encoding/binary"
	"errors"
	"fmt"
	"io"
	"math/big"
	"strings"
	"sync"
	"testing"
	"testing/synctest"
	"time"

	"ssvharness/internal/common"

	"github.com/database64128/shadowsocks-go/netio"
	"github.com/database64128/shadowsocks-go/netiotest"
	"github.com/database64128/shadowsocks-go/ss2022"
	"go.uber.org/zap"
	"go.uber.org/zap/zapcore"
	"go.uber.org/zap/zaptest/observer"
)

// bubbleStart: the fake clock of every synctest bubble starts at 2000-01-01T00:00:00Z.
const bubbleStart = int64(946684800) * 1e9

type Op struct {
	Op   string `json:"op"`             // adv | new | real | present | mut
	D    int64  `json:"d,omitempty"`    // adv: nanoseconds (>= 0)
	Kind string `json:"kind,omitempty"` // new: genuine | badtype | wrongkey | unknownuser | garbage | badaddr ; mut: the mutation
	Ts   uint64 `json:"ts,omitempty"`   // new: raw timestamp word
	Pad  int    `json:"pad,omitempty"`  // new: padding length (>= 1)
	Salt uint64 `json:"salt,omitempty"` // new: seed of the salt bytes
	R    int    `json:"r,omitempty"`    // present / mut: index of an earlier request (creation order)
	Pos  int    `json:"pos,omitempty"`  // mut: position selector
	Hold bool   `json:"hold,omitempty"` // new / mut: create the request but do not present it yet
	H    int    `json:"h,omitempty"`    // send: index of the held connection (order of the open ops)
}

type Case struct {
	Engine string `json:"engine"`
	Cfg    Cfg    `json:"cfg"`
	Ops    []Op   `json:"ops"`
	// race engine
	N     int   `json:"n,omitempty"` // flood engine: number of other handshakes
	K     int   `json:"k,omitempty"`
	Noise int   `json:"noise,omitempty"`
	Skew  int64 `json:"skew,omitempty"`
	// pool / ts engines
	PoolOps []PoolOp `json:"pool_ops,omitempty"`
	TsOps   []TsOp   `json:"ts_ops,omitempty"`
}

// Pres is one presentation as observed on the implementation.
type Pres struct {
	Op      int    `json:"op"`  // index of the op in the history
	Req     int    `json:"req"` // index of the presented request (creation order)
	Now     int64  `json:"now"` // server clock at the presentation, ns
	Verdict string `json:"verdict"`
	Class   string `json:"class"` // raw error class of the implementation
}

func classify(err error) string {
	var he8 *ss2022.HeaderError[byte]
	var he64 *ss2022.HeaderError[int64]
	switch {
	case err == nil:
		return "accept"
	case errors.Is(err, ss2022.ErrRepeatedSalt):
		return "repeated"
	case errors.Is(err, ss2022.ErrBadTimestamp):
		return "badts"
	case errors.Is(err, ss2022.ErrTypeMismatch):
		return "type"
	case errors.Is(err, ss2022.ErrUnsafeStreamPrefixMismatch):
		return "prefix"
	case errors.Is(err, ss2022.ErrIdentityHeaderUserPSKNotFound):
		return "nouser"
	case errors.Is(err, ss2022.ErrFirstRead):
		return "short"
	case errors.Is(err, io.EOF), errors.Is(err, io.ErrUnexpectedEOF):
		return "eof"
	case strings.Contains(err.Error(), "message authentication failed"):
		return "autherr"
	case errors.As(err, &he8), errors.As(err, &he64):
		return "header:" + err.Error()
	default:
		return "parse"
	}
}

// presentBytes hands the bytes to HandleStream over an in-memory pipe, in one write.
// Observed class: "accept" (a request for the client's target), an error class, or "fallback:<class of the
// swallowed error>" when the server returned a request for its fallback address (the cause is read off the
// server's own log entry; that it is a fallback is read off the returned request).
func presentBytes(s *ss2022.StreamServer, b []byte, fb bool) (class string, panicked any) {
	return openConn(s, fb).send(b)
}

// heldConn: a connection that was handed to HandleStream (instant a) and on which nothing has been written yet;
// HandleStream is blocked in its first read. send writes the request bytes (instant b >= a) and returns the verdict.
type heldConn struct {
	pl, pr *netio.PipeConn
	fb     bool
	logs   *observer.ObservedLogs
	done   chan struct{}
	req    netio.ConnRequest
	err    error
	pan    any
}

func openConn(s *ss2022.StreamServer, fb bool) *heldConn {
	h := &heldConn{fb: fb, done: make(chan struct{})}
	h.pl, h.pr = netio.NewPipe()
	logger := nopLogger
	if fb { // only a server with a fallback logs the swallowed error
		var core zapcore.Core
		core, h.logs = observer.New(zap.WarnLevel)
		logger = zap.New(core)
	}
	go func() {
		defer close(h.done)
		h.pan = common.Safely(func() {
			h.req, h.err = s.HandleStream(h.pr, logger)
		})
	}()
	return h
}

// abandon closes a connection on which nothing was ever sent.
func (h *heldConn) abandon() {
	h.pl.Close()
	<-h.done
	h.pr.Close()
}

func (h *heldConn) send(b []byte) (class string, panicked any) {
	var wg sync.WaitGroup
	wg.Add(1)
	go func() {
		defer wg.Done()
		if len(b) > 0 {
			h.pl.Write(b)
		}
		h.pl.CloseWrite()
	}()
	<-h.done
	h.pr.Close()
	h.pl.Close()
	wg.Wait()
	req, err := h.req, h.err
	if h.pan != nil {
		return "panic", h.pan
	}
	if err == nil && req.PendingConn == nil {
		return "accept-without-conn", nil
	}
	if err == nil && req.Addr.Equals(fallbackAddr) {
		cause := "?"
		var entries []observer.LoggedEntry
		if h.logs != nil {
			entries = h.logs.All()
		}
		for _, e := range entries {
			for _, f := range e.Context {
				if ce, ok := f.Interface.(error); ok && f.Key == "error" {
					cause = classify(ce)
				}
			}
		}
		if len(req.Payload) > len(b) || !bytes.Equal(req.Payload, b[:len(req.Payload)]) || len(req.Payload) == 0 {
			return "fallback-payload-mismatch:" + cause, nil
		}
		return "fallback:" + cause, nil
	}
	return classify(err), nil
}

// realClientRequest lets a real ss2022.StreamClient produce a request at the current (fake) instant
// and hijacks its bytes.
func realClientRequest(k *keys) ([]byte, error) {
	psc, ch := netiotest.NewPipeStreamClient(netio.StreamDialerInfo{Name: "c03", NativeInitialPayload: true})
	cfg := ss2022.StreamClientConfig{
		Name: "c03", InnerClient: psc, Addr: k.target, AllowSegmentedFixedLengthHeader: k.cfg.Segmented,
		CipherConfig: k.cc, UnsafeRequestStreamPrefix: k.ursp,
	}
	client := cfg.NewStreamClient()
	out := make(chan []byte, 1)
	go func() {
		pc := <-ch
		b, _ := io.ReadAll(pc)
		pc.Close()
		out <- b
	}()
	c, err := client.DialStream(context.Background(), k.target, nil)
	if err != nil {
		return nil, err
	}
	c.CloseWrite()
	b := <-out
	c.Close()
	return b, nil
}

func saltBytes(seed uint64, n int) []byte {
	b := common.NewRng(seed ^ 0xa5a5a5a5).Bytes(n)
	binary.BigEndian.PutUint64(b, seed) // distinct seeds => distinct salts
	return b
}

var nopLogger = zap.NewNop()

type runResult struct {
	built []*Built // requests in creation order
	pres  []Pres
	lines []string // model script (one line per op, after the initial reset)
	err   error
	pan   any
}

// runHistory executes the ops on a fresh server inside a bubble. If reuse != nil the request bytes are taken
// from it (index-aligned with the creating ops) instead of being rebuilt, and ops for which skip[i] is set are
// not presented (the request is still created).
func runHistory(t *testing.T, c Case, reuse []*Built, skip map[int]bool) (res runResult) {
	k, err := newKeys(c.Cfg)
	if err != nil {
		res.err = err
		return
	}
	synctest.Test(t, func(t *testing.T) {
		if time.Now().UnixNano() != bubbleStart {
			res.err = fmt.Errorf("bubble clock starts at %d, expected %d", time.Now().UnixNano(), bubbleStart)
			return
		}
		srv, err := k.newServer()
		if err != nil {
			res.err = err
			return
		}
		salts := map[[32]byte]int{}
		saltID := func(s [32]byte) int {
			if id, ok := salts[s]; ok {
				return id
			}
			salts[s] = len(salts) + 1
			return len(salts)
		}
		var helds []*heldConn
		used := map[int]bool{}
		defer func() {
			for hi, h := range helds {
				if !used[hi] {
					h.abandon()
				}
			}
		}()
		for i, op := range c.Ops {
			var b *Built
			idx := -1
			var held *heldConn
			switch op.Op {
			case "open":
				// HandleStream starts now and blocks in its first read; the request arrives with a later `send`
				helds = append(helds, openConn(srv, c.Cfg.Fallback))
				synctest.Wait()
				continue
			case "send":
				if op.R < 0 || op.R >= len(res.built) || op.H < 0 || op.H >= len(helds) || used[op.H] {
					res.err = fmt.Errorf("op %d: bad send (request %d, connection %d)", i, op.R, op.H)
					return
				}
				b, idx = res.built[op.R], op.R
				if !skip[i] {
					held = helds[op.H]
					used[op.H] = true
				}
			case "adv":
				if op.D < 0 {
					res.err = fmt.Errorf("op %d: negative advance", i)
					return
				}
				time.Sleep(time.Duration(op.D))
				res.lines = append(res.lines, fmt.Sprintf("adv %d", op.D))
				continue
			case "new", "real", "mut":
				if reuse != nil {
					b = reuse[len(res.built)]
				} else {
					switch op.Op {
					case "new":
						b, err = k.build(op.Kind, saltBytes(op.Salt, c.Cfg.KeyLen), op.Ts, op.Pad)
					case "real":
						var raw []byte
						if raw, err = realClientRequest(k); err == nil {
							b, err = k.decodeReal(raw)
						}
					case "mut":
						if op.R < 0 || op.R >= len(res.built) {
							err = fmt.Errorf("op %d: no request %d", i, op.R)
						} else {
							b, err = k.mutate(res.built[op.R], op.Kind, op.Pos)
						}
					}
					if err != nil {
						res.err = fmt.Errorf("op %d (%s %s): %w", i, op.Op, op.Kind, err)
						return
					}
				}
				res.built = append(res.built, b)
				idx = len(res.built) - 1
			case "present":
				if op.R < 0 || op.R >= len(res.built) {
					res.err = fmt.Errorf("op %d: no request %d", i, op.R)
					return
				}
				b, idx = res.built[op.R], op.R
			default:
				res.err = fmt.Errorf("op %d: unknown op %q", i, op.Op)
				return
			}
			if skip[i] || (op.Hold && op.Op != "present") {
				continue
			}
			now := time.Now().UnixNano()
			var class string
			var pan any
			if held != nil {
				class, pan = held.send(b.Bytes)
			} else {
				class, pan = presentBytes(srv, b.Bytes, c.Cfg.Fallback)
			}
			if pan != nil {
				res.pan = pan
			}
			if after := time.Now().UnixNano(); after != now {
				res.err = fmt.Errorf("op %d: the fake clock moved during HandleStream (%d -> %d)", i, now, after)
				return
			}
			sid := 0
			if b.Flags.Complete {
				sid = saltID(b.Salt)
			}
			res.pres = append(res.pres, Pres{Op: i, Req: idx, Now: now, Class: class})
			res.lines = append(res.lines, fmt.Sprintf("present %d %s %d 0 %s %s", sid, b.Flags, b.Ts, b2s(c.Cfg.Fallback), b2s(len(b.Bytes) > 0)))
		}
	})
	return
}

// modelToImpl: which implementation error classes a model verdict stands for.
func verdictMatches(model, class string, b *Built) bool {
	mfb, cfb := strings.HasPrefix(model, "fallback:"), strings.HasPrefix(class, "fallback:")
	if mfb != cfb {
		return false
	}
	model, class = strings.TrimPrefix(model, "fallback:"), strings.TrimPrefix(class, "fallback:")
	switch model {
	case "short":
		return class == "short" || class == "eof"
	case "auth":
		return class == "autherr"
	case "late":
		return class == "autherr" || class == "eof" || class == "parse"
	default:
		return model == class
	}
}

// canonical verdict of an implementation class given the model's verdict (for reports)
func presVerdict(class string) string {
	switch class {
	case "eof", "short":
		return "read-error"
	case "fallback:eof", "fallback:short":
		return "fallback:read-error"
	default:
		return class
	}
}

// ---------- the property oracle (from the statement; knows nothing of the model) ----------

// tsPasses: "its timestamp is within 30 seconds of the server clock" on whole seconds, timestamp word read as int64.
func tsPasses(ts uint64, nowNs int64) bool {
	t := new(big.Int).SetInt64(int64(ts))
	sec := nowNs / 1e9
	if nowNs < 0 && nowNs%1e9 != 0 {
		sec--
	}
	d := new(big.Int).Sub(t, big.NewInt(sec))
	return d.CmpAbs(big.NewInt(30)) <= 0
}

type oracleFail struct{ key, detail string }

// oracleHistory checks one observed history:
//
//	(a) accepted => authentic bytes and timestamp within 30 s;
//	(b) no request accepted twice at an instant where its timestamp passes;
//	(c) an authentic request whose timestamp passes, presented for the first time (no earlier presentation sharing
//	    its authentic first chunk), is accepted.
func oracleHistory(built []*Built, pres []Pres, fallback bool) []oracleFail {
	var fails []oracleFail
	firstAccept := map[int]int64{}
	seenFirstChunk := map[[32]byte]bool{}
	seenForgedSalt := map[[32]byte]bool{}
	for i, p := range pres {
		b := built[p.Req]
		acc := p.Class == "accept"
		if p.Class == "panic" || p.Class == "accept-without-conn" {
			fails = append(fails, oracleFail{"panic-or-bad-accept", fmt.Sprintf("presentation %d: %s", i, p.Class)})
			continue
		}
		if acc && !b.Authentic {
			fails = append(fails, oracleFail{"forged-accepted", fmt.Sprintf("presentation %d of request %d (flags %s) accepted", i, p.Req, b.Flags)})
		}
		if acc && !tsPasses(b.Ts, p.Now) {
			fails = append(fails, oracleFail{"accepted-outside-30s", fmt.Sprintf("presentation %d: request %d with timestamp %d accepted at %d ns", i, p.Req, int64(b.Ts), p.Now)})
		}
		if t1, ok := firstAccept[p.Req]; ok && acc && tsPasses(b.Ts, p.Now) {
			key := "double-accept:within-60s"
			if p.Now-t1 >= 60e9 {
				// the second acceptance came a minute or more after the first (some Add in between pruned the salt)
				key = f2Key
			}
			fails = append(fails, oracleFail{key, fmt.Sprintf("request %d (timestamp %d) accepted at %d ns and again at %d ns (%.9f s later), where its timestamp still passes",
				p.Req, int64(b.Ts), t1, p.Now, float64(p.Now-t1)/1e9)})
		}
		if strings.HasPrefix(p.Class, "fallback") && (!fallback || len(b.Bytes) == 0 || strings.HasPrefix(p.Class, "fallback-payload-mismatch")) {
			fails = append(fails, oracleFail{"bad-fallback", fmt.Sprintf("presentation %d: %s (fallback configured: %v, %d bytes presented)", i, p.Class, fallback, len(b.Bytes))})
		}
		if _, ok := firstAccept[p.Req]; ok && fallback && !acc && tsPasses(b.Ts, p.Now) && !strings.HasPrefix(p.Class, "fallback:") {
			fails = append(fails, oracleFail{"replay-not-handed-to-fallback", fmt.Sprintf("presentation %d: replay of accepted request %d on a server with a fallback ended as %q", i, p.Req, p.Class)})
		}
		if b.Authentic && tsPasses(b.Ts, p.Now) && !seenFirstChunk[b.Salt] && !acc {
			key := "genuine-refused"
			if seenForgedSalt[b.Salt] {
				key = "genuine-refused:after-forged-same-salt"
			}
			fails = append(fails, oracleFail{key, fmt.Sprintf("presentation %d: first presentation of authentic request %d (timestamp %d) at %d ns refused: %s", i, p.Req, int64(b.Ts), p.Now, p.Class)})
		}
		if acc {
			if _, ok := firstAccept[p.Req]; !ok {
				firstAccept[p.Req] = p.Now
			}
		}
		if b.Flags.Complete {
			if b.FirstOk || b.Authentic {
				seenFirstChunk[b.Salt] = true
			} else {
				seenForgedSalt[b.Salt] = true
			}
		}
	}
	return fails
}

// unauthenticated: presentations that "fail authentication" in the sense of the statement.
func unauthenticated(b *Built) bool {
	return !b.Authentic && !b.FirstOk
}
