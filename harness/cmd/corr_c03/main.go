// corr_c03: correspondence + property oracle for C03 (a TCP handshake is accepted at most once while its
// timestamp is acceptable).
//
// Engines
//
//	replay — histories on a fake clock (testing/synctest) against a real ss2022.StreamServer.HandleStream:
//	         crafted requests with chosen timestamp words (client skew -31..+31 s and 64-bit extremes), re-presented
//	         at scripted instants down to 1 ns around the 30 s / 60 s / 61 s boundaries, interleaved with fresh
//	         requests (crafted and from a real StreamClient), forged / tampered / truncated copies. Compared with the
//	         Lean model (ssv_c03) verdict by verdict; the property oracle (oracleHistory + ablation of the
//	         unauthenticated presentations) is evaluated on the implementation's verdicts alone.
//	race   — k goroutines present the same bytes to one server concurrently (plus concurrent unrelated traffic):
//	         exactly one is accepted (model: theorem concurrent_one_winner), never two (oracle).
//	pool   — the exported SaltPool API (Add with arbitrary, also non-monotone, instants; Contains; TryContains; Clear)
//	         against the model's pool.
//	ts     — ValidateUnixEpochTimestamp on 64-bit words against the model's word arithmetic and the integer spec.
//
// The binary is an ordinary command; it enters the testing framework through testing.Main only because
// testing/synctest needs a *testing.T.
package main

import (
	"bytes"
	"context"
	"encoding/binary"
	"encoding/json"
	"fmt"
	"hash/fnv"
	"math/big"
	"os"
	"os/exec"
	"path/filepath"
	"regexp"
	"sort"
	"strconv"
	"strings"
	"sync"
	"sync/atomic"
	"testing"
	"testing/synctest"
	"time"

	"ssvharness/internal/common"

	"github.com/database64128/shadowsocks-go/ss2022"
)

const f2Key = "F2:replay-after-prune"

type engine struct {
	o   *common.Options
	rep *common.Report
	drv *common.Driver
	t   *testing.T
}

func (e *engine) model(lines []string) ([]string, error) {
	if e.drv == nil {
		return nil, nil
	}
	return e.drv.Batch(lines)
}

func sigOf(c Case) string {
	b, _ := json.Marshal(c)
	h := fnv.New64a()
	h.Write(b)
	return fmt.Sprintf("%s:%016x", c.Engine, h.Sum64())
}

// ---------- replay engine ----------

func (e *engine) evalReplay(c Case) error {
	rep := e.rep
	res := runHistory(e.t, c, nil, nil)
	if res.err != nil {
		return fmt.Errorf("replay case %s: %w", sigOf(c), res.err)
	}
	if res.pan != nil {
		rep.Fail(common.OracleFailure{Engine: "replay", Key: "panic", Case: c, Detail: fmt.Sprint(res.pan)})
		rep.Diverge(common.Divergence{Engine: "replay", Case: c, Impl: fmt.Sprint(res.pan), Model: "total"})
		return nil
	}
	// distribution
	accepts, reAccepted := 0, 0
	seenAcc := map[int]bool{}
	for _, p := range res.pres {
		rep.Count("verdict=" + presVerdict(p.Class))
		if p.Class == "accept" {
			accepts++
		}
		if seenAcc[p.Req] {
			reAccepted++
		}
		if p.Class == "accept" {
			seenAcc[p.Req] = true
		}
	}
	rep.Case(sigOf(c), accepts > 0 && reAccepted > 0)
	rep.Count(fmt.Sprintf("replay:ops<=%d", (len(c.Ops)+9)/10*10))
	rep.Sample(map[string]any{"case": c, "observed": res.pres})

	// model
	if e.drv != nil {
		lines := append([]string{fmt.Sprintf("reset %d", bubbleStart)}, res.lines...)
		out, err := e.model(lines)
		if err != nil {
			return err
		}
		pi := 0
		var mv []string
		diverged := false
		for li, l := range res.lines {
			if !strings.HasPrefix(l, "present") {
				continue
			}
			m := out[li+1]
			mv = append(mv, m)
			p := res.pres[pi]
			if !verdictMatches(m, p.Class, res.built[p.Req]) {
				diverged = true
			}
			pi++
		}
		if diverged {
			var iv []string
			for _, p := range res.pres {
				iv = append(iv, p.Class)
			}
			rep.Diverge(common.Divergence{Engine: "replay", Case: c, Impl: iv, Model: mv, Note: strings.Join(res.lines, "; ")})
		}
		rep.TracesValidated++
	}

	// oracle (a)(b)(c)
	for _, f := range oracleHistory(res.built, res.pres, c.Cfg.Fallback) {
		rep.Fail(common.OracleFailure{Engine: "replay", Key: f.key, Case: c, Detail: f.detail})
	}
	// oracle (d): presentations that fail authentication (and authenticated ones refused for type/timestamp)
	// never change later verdicts: re-run without them on a fresh server, same bytes, same instants.
	skip := map[int]bool{}
	for _, p := range res.pres {
		if unauthenticated(res.built[p.Req]) || p.Class == "badts" || p.Class == "type" {
			skip[p.Op] = true
		}
	}
	if len(skip) > 0 && len(skip) < len(res.pres) {
		res2 := runHistory(e.t, c, res.built, skip)
		if res2.err != nil {
			return fmt.Errorf("ablation of %s: %w", sigOf(c), res2.err)
		}
		j := 0
		for _, p := range res.pres {
			if skip[p.Op] {
				continue
			}
			q := res2.pres[j]
			j++
			if q.Op != p.Op || q.Class != p.Class {
				rep.Fail(common.OracleFailure{Engine: "replay", Key: "rejected-presentation-changed-later-verdict", Case: c,
					Detail: fmt.Sprintf("op %d: verdict %s with the unauthenticated/refused presentations %v in the history, %s without them", p.Op, p.Class, keys1(skip), q.Class)})
				break
			}
		}
		rep.Count("replay:ablated")
	}
	return nil
}

func keys1(m map[int]bool) []int {
	var ks []int
	for k := range m {
		ks = append(ks, k)
	}
	sort.Ints(ks)
	return ks
}

// repeatedClass: how a detected replay ends on this server (error, or handed to the fallback)
func repeatedClass(c Cfg) string {
	if c.Fallback {
		return "fallback:repeated"
	}
	return "repeated"
}

// ---------- race engine ----------

func genRaceCase(r *common.Rng) Case {
	c := Case{Engine: "race", Cfg: Cfg{KeySeed: r.U64(), KeyLen: common.Pick(r, []int{16, 32}), EIH: r.Chance(1, 3), Segmented: r.Chance(1, 4), Fallback: r.Chance(1, 3)}}
	c.K = common.Pick(r, []int{2, 2, 3, 4, 8, 16})
	c.Noise = r.Range(0, 6)
	c.Skew = int64(r.Range(-30, 30))
	return c
}

func (e *engine) evalRace(c Case) error {
	rep := e.rep
	k, err := newKeys(c.Cfg)
	if err != nil {
		return err
	}
	var verdicts, noise []string
	var again string
	var runErr error
	synctest.Test(e.t, func(t *testing.T) {
		srv, err := k.newServer()
		if err != nil {
			runErr = err
			return
		}
		time.Sleep(time.Duration(c.Cfg.KeySeed % 1e9))
		sec := time.Now().Unix()
		req, err := k.build("genuine", saltBytes(1, c.Cfg.KeyLen), uint64(sec+c.Skew), 5)
		if err != nil {
			runErr = err
			return
		}
		var others []*Built
		for i := 0; i < c.Noise; i++ {
			kind := "genuine"
			if i%3 == 2 {
				kind = "garbage"
			}
			b, err := k.build(kind, saltBytes(uint64(100+i), c.Cfg.KeyLen), uint64(sec), 3)
			if err != nil {
				runErr = err
				return
			}
			others = append(others, b)
		}
		verdicts = make([]string, c.K)
		noise = make([]string, c.Noise)
		start := make(chan struct{})
		var wg sync.WaitGroup
		for i := 0; i < c.K; i++ {
			wg.Add(1)
			go func() {
				defer wg.Done()
				<-start
				verdicts[i], _ = presentBytes(srv, req.Bytes, c.Cfg.Fallback)
			}()
		}
		for i := range others {
			wg.Add(1)
			go func() {
				defer wg.Done()
				<-start
				noise[i], _ = presentBytes(srv, others[i].Bytes, c.Cfg.Fallback)
			}()
		}
		close(start)
		wg.Wait()
		time.Sleep(time.Second)
		if c.Skew < 30 { // still valid one second later
			again, _ = presentBytes(srv, req.Bytes, c.Cfg.Fallback)
		}
	})
	if runErr != nil {
		return runErr
	}
	acc := 0
	for _, v := range verdicts {
		rep.Count("race:verdict=" + v)
		if v == "accept" {
			acc++
		}
	}
	rep.Case(sigOf(c), true)
	rep.Count(fmt.Sprintf("race:k=%d", c.K))
	obs := map[string]any{"copies": verdicts, "noise": noise, "again": again}
	if acc > 1 {
		rep.Fail(common.OracleFailure{Engine: "race", Key: "double-accept:concurrent", Case: c, Detail: fmt.Sprintf("%d of %d concurrent copies accepted: %v", acc, c.K, verdicts)})
	}
	if acc == 0 {
		rep.Fail(common.OracleFailure{Engine: "race", Key: "genuine-refused:concurrent", Case: c, Detail: fmt.Sprintf("none of %d concurrent copies of a fresh valid request accepted: %v", c.K, verdicts)})
	}
	if again == "accept" {
		rep.Fail(common.OracleFailure{Engine: "race", Key: "double-accept:after-race", Case: c, Detail: "accepted again one second after the race"})
	}
	for i, v := range noise {
		if i%3 != 2 && v != "accept" {
			rep.Fail(common.OracleFailure{Engine: "race", Key: "genuine-refused:concurrent-other", Case: c, Detail: fmt.Sprintf("unrelated fresh request %d refused during the race: %s", i, v)})
		}
	}
	// model (theorem concurrent_one_winner): exactly one `accept`, all others `repeated`; afterwards `repeated`.
	ok := acc == 1
	for _, v := range verdicts {
		if v != "accept" && v != repeatedClass(c.Cfg) {
			ok = false
		}
	}
	if again != "" && again != repeatedClass(c.Cfg) {
		ok = false
	}
	if !ok {
		rep.Diverge(common.Divergence{Engine: "race", Case: c, Impl: obs, Model: "exactly one accept, k-1 repeated, then repeated"})
	}
	rep.TracesValidated++
	return nil
}

// ---------- poolrace engine: k callers of SaltPool.Add on one salt, in a child process ----------

type poolRaceResult struct {
	Rounds  int    `json:"rounds"`
	Doubles int    `json:"doubles"` // rounds in which more than one Add answered true
	Nones   int    `json:"nones"`   // rounds in which no Add answered true
	First   string `json:"first,omitempty"`
}

// poolRaceChild: k persistent workers walk through the same sequence of fresh salts (one per round) and call
// Add for each, every worker with its own clock reading inside one second; they are re-aligned by a blocking
// barrier every 32 rounds (no spinning: the machine may be oversubscribed). Exactly one Add per round may answer true.
func poolRaceChild(k, rounds int, seed uint64) poolRaceResult {
	const batch = 32
	var pool ss2022.SaltPool
	results := make([]atomic.Int64, rounds)
	nb := (rounds + batch - 1) / batch
	start := make([]chan struct{}, nb)
	fin := make([]sync.WaitGroup, nb)
	for b := range start {
		start[b] = make(chan struct{})
		fin[b].Add(k)
	}
	base := int64(bubbleStart)
	for w := 0; w < k; w++ {
		go func() {
			for b := 0; b < nb; b++ {
				<-start[b]
				for r := b * batch; r < (b+1)*batch && r < rounds; r++ {
					now := base + int64(r)*1000 + int64((uint64(w)*2654435761+seed)%1000)
					if pool.Add(time.Unix(0, now), saltOfID(r+1)) {
						results[r].Add(1)
					}
				}
				fin[b].Done()
			}
		}()
	}
	for b := 0; b < nb; b++ {
		close(start[b])
		fin[b].Wait()
	}
	res := poolRaceResult{Rounds: rounds}
	for r := 0; r < rounds; r++ {
		switch n := results[r].Load(); {
		case n > 1:
			res.Doubles++
			if res.First == "" {
				res.First = fmt.Sprintf("round %d: %d of %d concurrent Add calls for one salt answered true", r, n, k)
			}
		case n == 0:
			res.Nones++
		}
	}
	return res
}

func (e *engine) evalPoolRace(c Case) error {
	rep := e.rep
	ctx, cancel := context.WithTimeout(context.Background(), 10*time.Minute)
	defer cancel()
	cmd := exec.CommandContext(ctx, os.Args[0])
	cmd.Env = append(os.Environ(), "C03_CHILD=poolrace", fmt.Sprintf("C03_K=%d", c.K), fmt.Sprintf("C03_ROUNDS=%d", c.N), fmt.Sprintf("C03_SEED=%d", c.Cfg.KeySeed))
	var stdout, stderr bytes.Buffer
	cmd.Stdout, cmd.Stderr = &stdout, &stderr
	err := cmd.Run()
	if ctx.Err() != nil {
		return fmt.Errorf("poolrace child did not finish in 10 minutes (k=%d, %d rounds)", c.K, c.N)
	}
	rep.Case(sigOf(c), true)
	rep.Count(fmt.Sprintf("poolrace:k=%d", c.K))
	var res poolRaceResult
	if err != nil {
		msg := lastBytes(stderr.Bytes(), 4000)
		first := msg
		if i := strings.Index(stderr.String(), "fatal error:"); i >= 0 {
			first = stderr.String()[i:]
			if j := strings.IndexByte(first, '\n'); j > 0 {
				first = first[:j]
			}
		}
		rep.Fail(common.OracleFailure{Engine: "poolrace", Key: "fatal-error:concurrent-saltpool-add", Case: c,
			Detail: fmt.Sprintf("%d goroutines calling SaltPool.Add for the same salt (%d rounds) killed the process: %v: %s", c.K, c.N, err, first)})
		rep.Diverge(common.Divergence{Engine: "poolrace", Case: c, Impl: first, Model: "total"})
		return nil
	}
	if jerr := json.Unmarshal(stdout.Bytes(), &res); jerr != nil {
		return fmt.Errorf("poolrace child: %v: %q", jerr, lastBytes(stdout.Bytes(), 200))
	}
	if res.Doubles > 0 {
		rep.Fail(common.OracleFailure{Engine: "poolrace", Key: "double-accept:concurrent-pool", Case: c, Detail: fmt.Sprintf("%d of %d rounds: %s", res.Doubles, res.Rounds, res.First)})
	}
	if res.Nones > 0 {
		rep.Fail(common.OracleFailure{Engine: "poolrace", Key: "genuine-refused:concurrent-pool", Case: c, Detail: fmt.Sprintf("%d of %d rounds: no Add of a fresh salt answered true", res.Nones, res.Rounds)})
	}
	if res.Doubles > 0 || res.Nones > 0 {
		rep.Diverge(common.Divergence{Engine: "poolrace", Case: c, Impl: res, Model: "exactly one true per round (add_is_atomic)"})
	}
	rep.TracesValidated++
	return nil
}

// ---------- flood engine: a busy server ----------

// evalFlood: one request r is accepted; c.N other genuine requests (distinct salts, real handshakes through
// HandleStream) are accepted while r's timestamp stays valid (the fake clock advances c.Skew ns in total);
// r is presented again.
func (e *engine) evalFlood(c Case) error {
	rep := e.rep
	k, err := newKeys(c.Cfg)
	if err != nil {
		return err
	}
	var first, again string
	var t1, t2 int64
	var ts uint64
	refused := 0
	var runErr error
	synctest.Test(e.t, func(t *testing.T) {
		srv, err := k.newServer()
		if err != nil {
			runErr = err
			return
		}
		time.Sleep(time.Duration(c.Cfg.KeySeed % 1e9))
		ts = uint64(time.Now().Unix())
		req, err := k.build("genuine", saltBytes(1, c.Cfg.KeyLen), ts, 5)
		if err != nil {
			runErr = err
			return
		}
		t1 = time.Now().UnixNano()
		first, _ = presentBytes(srv, req.Bytes, c.Cfg.Fallback)
		step := time.Duration(0)
		if c.N > 0 {
			step = time.Duration(c.Skew / int64(c.N))
		}
		for i := 0; i < c.N; i++ {
			if step > 0 {
				time.Sleep(step)
			}
			b, err := k.build("genuine", saltBytes(uint64(10+i), c.Cfg.KeyLen), uint64(time.Now().Unix()), 1)
			if err != nil {
				runErr = err
				return
			}
			if v, _ := presentBytes(srv, b.Bytes, c.Cfg.Fallback); v != "accept" {
				refused++
			}
		}
		t2 = time.Now().UnixNano()
		again, _ = presentBytes(srv, req.Bytes, c.Cfg.Fallback)
	})
	if runErr != nil {
		return runErr
	}
	rep.Case(sigOf(c), true)
	rep.Count(fmt.Sprintf("flood:n=%d", c.N))
	obs := map[string]any{"first": first, "others_refused": refused, "again": again, "t1": t1, "t2": t2}
	rep.Sample(map[string]any{"case": c, "observed": obs})
	if first != "accept" || refused > 0 {
		rep.Fail(common.OracleFailure{Engine: "flood", Key: "genuine-refused:busy-server", Case: c, Detail: fmt.Sprintf("first=%s, %d of %d fresh valid requests refused", first, refused, c.N)})
	}
	if again == "accept" && tsPasses(ts, t2) {
		rep.Fail(common.OracleFailure{Engine: "flood", Key: "double-accept:after-many-salts", Case: c,
			Detail: fmt.Sprintf("request (timestamp %d) accepted at %d ns and again at %d ns (%.9f s later, timestamp still passes) after %d other accepted handshakes", int64(ts), t1, t2, float64(t2-t1)/1e9, c.N-refused)})
	}
	// model (theorem no_double_accept): the second presentation is refused as a repeated salt
	if first != "accept" || refused > 0 || (tsPasses(ts, t2) && again != repeatedClass(c.Cfg)) {
		rep.Diverge(common.Divergence{Engine: "flood", Case: c, Impl: obs, Model: "accept, all others accept, then repeated"})
	}
	rep.TracesValidated++
	return nil
}

// ---------- pool engine ----------

type PoolOp struct {
	Op   string `json:"op"` // add | fill | contains | try | clear
	Now  int64  `json:"now,omitempty"`
	Salt int    `json:"salt,omitempty"` // fill: first salt id
	N    int    `json:"n,omitempty"`    // fill: number of distinct consecutive salts added
	Step int64  `json:"step,omitempty"` // fill: clock advance between two of them, ns
}

// floodSizes: how many other salts are accepted between the two presentations of one salt
// ("whatever other traffic arrives in between" includes a lot of traffic: any capacity / eviction policy of
// the pool other than expiry shows at some size).
var floodSizes = []int{1 << 10, 1<<16 - 1, 1 << 16, 1<<16 + 1, 1 << 17, 300000}

// genPoolFloodCase: Add(r) at t1; N distinct fresh salts at instants in [t1, t2]; Add(r) again at t2, an instant
// at which a timestamp accepted at t1 can still pass (floor(t2) - floor(t1) <= 60 s).
func genPoolFloodCase(r *common.Rng, n int) Case {
	c := Case{Engine: "pool"}
	t1 := bubbleStart + int64(r.Intn(1000000000))
	if r.Chance(1, 2) {
		t1 = bubbleStart + common.Pick(r, []int64{0, 1, 999999999})
	}
	span := common.Pick(r, []int64{0, 1, 1000000000, 30000000000, (t1/1e9+61)*1e9 - 1 - t1, int64(r.U64() % 60000000000)})
	t2 := t1 + span
	step := int64(0)
	if n > 0 {
		step = span / int64(n+1)
	}
	c.PoolOps = []PoolOp{
		{Op: "add", Now: t1, Salt: 1},
		{Op: "fill", Now: t1 + step, Salt: 1000, N: n, Step: step},
		{Op: "contains", Salt: 1},
		{Op: "add", Now: t2, Salt: 1},
		{Op: "add", Now: t2, Salt: 1000},
		{Op: "add", Now: t2, Salt: 1000 + n - 1},
	}
	return c
}

func genPoolCase(r *common.Rng, w int64) Case {
	c := Case{Engine: "pool"}
	n := r.Range(2, 40)
	now := int64(r.U64() % (1 << 40))
	for i := 0; i < n; i++ {
		salt := r.Range(1, 5)
		switch r.Intn(10) {
		case 0, 1, 2, 3, 4, 5:
			switch r.Intn(6) {
			case 0:
				now += common.Pick(r, []int64{0, 1, w / 2, w - 1, w, w + 1, 2 * w})
			case 1:
				now += int64(r.U64() % uint64(2*w))
			case 2: // a stale clock reading (concurrent callers): non-monotone
				now -= int64(r.U64() % uint64(w+2))
				if now < 0 {
					now = 0
				}
			case 3:
				now += common.Pick(r, []int64{60e9 - 1, 60e9, 60e9 + 1, 61e9 - 1, 61e9, 61e9 + 1})
			}
			c.PoolOps = append(c.PoolOps, PoolOp{Op: "add", Now: now, Salt: salt})
		case 6, 7:
			c.PoolOps = append(c.PoolOps, PoolOp{Op: "contains", Salt: salt})
		case 8:
			c.PoolOps = append(c.PoolOps, PoolOp{Op: "try", Salt: salt})
		default:
			if r.Chance(1, 4) {
				c.PoolOps = append(c.PoolOps, PoolOp{Op: "clear"})
			}
		}
	}
	return c
}

func b2s(b bool) string {
	if b {
		return "1"
	}
	return "0"
}

func saltOfID(id int) (s [32]byte) {
	binary.BigEndian.PutUint64(s[:], uint64(id))
	return
}

// poolOracle: the statement at the level of the pool. A request accepted at t1 (Add = true) whose timestamp still
// passes at t2 exists whenever floor(t2) - floor(t1) <= 60 s, and the pool is all the server remembers: the second
// Add of that salt must answer false, whatever was added in between. Applied when every instant handed to Add in
// between lies in [t1, t2] (monotone clock as far as this salt is concerned) and the pool was not cleared.
type poolOracle struct {
	last     map[int]poolAccept
	idx      int   // number of Adds so far
	prevNow  int64 // instant of the previous Add
	lastDrop int   // index of the last Add whose instant was earlier than its predecessor's
}

type poolAccept struct {
	t1  int64
	idx int
}

func (o *poolOracle) add(salt int, now int64, res bool) (key, detail string) {
	o.idx++
	if o.idx > 1 && now < o.prevNow {
		o.lastDrop = o.idx
	}
	o.prevNow = now
	// instants non-decreasing from the accepting Add up to this one => all of them lie in [t1, now]
	if a, ok := o.last[salt]; ok && res && o.lastDrop <= a.idx && now/1e9-a.t1/1e9 <= 60 {
		between := o.idx - a.idx - 1
		switch {
		case between >= 1000:
			key = "double-accept:after-many-salts"
		case now-a.t1 >= 60e9:
			key = f2Key
		default:
			key = "double-accept:pool"
		}
		detail = fmt.Sprintf("salt %d: Add = true at %d ns and again at %d ns (%.9f s later, a timestamp accepted at the first instant can still pass), after %d Adds of other salts in between", salt, a.t1, now, float64(now-a.t1)/1e9, between)
	}
	if res {
		o.last[salt] = poolAccept{t1: now, idx: o.idx}
	}
	return
}

func (e *engine) evalPool(c Case) error {
	var pool ss2022.SaltPool
	var impl, lines []string
	lines = append(lines, "reset 0")
	impl = append(impl, "ok")
	orc := &poolOracle{last: map[int]poolAccept{}}
	adds := 0
	for _, op := range c.PoolOps {
		if op.Op == "fill" {
			adds += op.N
		}
	}
	withModel := e.drv != nil
	// fills of more than 2048 salts are sent to the model as one `pfill` line (the driver runs them on its fast pool
	// representation, proved equal to the list model: fast_pool_refines) and compared by the number of true answers;
	// every other op, before and after, is compared answer by answer.
	bulk := func(op PoolOp) bool { return op.N > 2048 }
	var failed bool
	fail := func(k, d string) {
		if k != "" && !failed {
			failed = true
			e.rep.Fail(common.OracleFailure{Engine: "pool", Key: k, Case: c, Detail: d})
		}
	}
	pan := common.Safely(func() {
		for _, op := range c.PoolOps {
			switch op.Op {
			case "add":
				res := pool.Add(time.Unix(0, op.Now), saltOfID(op.Salt))
				impl = append(impl, b2s(res))
				lines = append(lines, fmt.Sprintf("padd %d %d", op.Now, op.Salt))
				fail(orc.add(op.Salt, op.Now, res))
			case "fill":
				okc := 0
				for i := 0; i < op.N; i++ {
					now := op.Now + int64(i)*op.Step
					res := pool.Add(time.Unix(0, now), saltOfID(op.Salt+i))
					if res {
						okc++
					}
					if !bulk(op) {
						impl = append(impl, b2s(res))
						lines = append(lines, fmt.Sprintf("padd %d %d", now, op.Salt+i))
					}
					fail(orc.add(op.Salt+i, now, res))
				}
				if bulk(op) {
					impl = append(impl, fmt.Sprintf("filled=%d", okc))
					lines = append(lines, fmt.Sprintf("pfill %d %d %d %d", op.Now, op.Salt, op.N, op.Step))
				}
			case "contains":
				impl = append(impl, b2s(pool.Contains(saltOfID(op.Salt))))
				lines = append(lines, fmt.Sprintf("pcontains %d", op.Salt))
			case "try":
				impl = append(impl, b2s(pool.TryContains(saltOfID(op.Salt))))
				lines = append(lines, fmt.Sprintf("ptry %d 0", op.Salt))
			case "clear":
				pool.Clear()
				impl = append(impl, "ok")
				lines = append(lines, "pclear")
				orc.last = map[int]poolAccept{}
			}
		}
	})
	e.rep.Case(sigOf(c), strings.Contains(strings.Join(impl, ""), "0") && strings.Contains(strings.Join(impl, ""), "1"))
	e.rep.Count("pool:cases")
	if adds > 0 {
		e.rep.Count(fmt.Sprintf("pool:flood=%d", adds))
	}
	if pan != nil {
		e.rep.Fail(common.OracleFailure{Engine: "pool", Key: "panic:saltpool", Case: c, Detail: fmt.Sprint(pan)})
		return nil
	}
	if withModel {
		out, err := e.model(lines)
		if err != nil {
			return err
		}
		for i := range out { // the model also reports its pool length after a bulk fill; the implementation cannot
			if strings.HasPrefix(out[i], "filled=") {
				out[i], _, _ = strings.Cut(out[i], " ")
			}
		}
		if strings.Join(out, ",") != strings.Join(impl, ",") {
			e.rep.Diverge(common.Divergence{Engine: "pool", Case: c, Impl: lastN(impl, 12), Model: lastN(out, 12)})
		}
		e.rep.TracesValidated++
	}
	return nil
}

func lastN(xs []string, n int) string {
	if len(xs) > n {
		return "…," + strings.Join(xs[len(xs)-n:], ",")
	}
	return strings.Join(xs, ",")
}

// ---------- ts engine ----------

type TsOp struct {
	Ts   uint64 `json:"ts"`
	Sec  int64  `json:"sec"`
	Nsec int64  `json:"nsec"`
}

func genTsCase(r *common.Rng) Case {
	c := Case{Engine: "ts"}
	for i := 0; i < 64; i++ {
		var sec int64
		switch r.Intn(6) {
		case 0:
			sec = common.Pick(r, []int64{0, 1, -1, 30, -30, 31, -31, 946684800, 1<<31 - 1, 1 << 31, 1 << 32, 253402300799})
		case 1:
			sec = common.Pick(r, []int64{1<<63 - 1, 1<<63 - 30, 1<<63 - 31, 1<<63 - 32, -1 << 63, -1<<63 + 29, -1<<63 + 30, -1<<63 + 31})
		case 2:
			sec = int64(r.U64())
		default:
			sec = int64(r.U64() % (1 << 34))
		}
		var ts uint64
		switch r.Intn(6) {
		case 0, 1, 2:
			ts = uint64(sec) + uint64(int64(common.Pick(r, []int{-32, -31, -30, -29, -1, 0, 1, 29, 30, 31, 32})))
		case 3:
			ts = uint64(sec) + 1<<63 + uint64(int64(r.Range(-31, 31)))
		case 4:
			ts = common.Pick(r, []uint64{0, 1<<63 - 1, 1 << 63, ^uint64(0), 30, ^uint64(29)})
		default:
			ts = r.U64()
		}
		c.TsOps = append(c.TsOps, TsOp{Ts: ts, Sec: sec, Nsec: int64(r.Intn(1000000000))})
	}
	return c
}

func (e *engine) evalTs(c Case) error {
	var impl, lines []string
	for _, op := range c.TsOps {
		var b [8]byte
		binary.BigEndian.PutUint64(b[:], op.Ts)
		now := time.Unix(op.Sec, op.Nsec)
		if now.Unix() != op.Sec {
			return fmt.Errorf("time.Unix(%d,%d).Unix() = %d", op.Sec, op.Nsec, now.Unix())
		}
		ok := ss2022.ValidateUnixEpochTimestamp(b[:], now) == nil
		impl = append(impl, b2s(ok))
		lines = append(lines, fmt.Sprintf("ts %d %d", op.Ts, uint64(op.Sec)))
		// oracle: within 30 s as integers (server clocks within 2^62 s of the epoch)
		if op.Sec > -(1<<62) && op.Sec < 1<<62 {
			d := new(big.Int).Sub(big.NewInt(int64(op.Ts)), big.NewInt(op.Sec))
			want := d.CmpAbs(big.NewInt(30)) <= 0
			if ok != want {
				key := "timestamp-accepted-outside-30s"
				if want {
					key = "timestamp-within-30s-refused"
				}
				e.rep.Fail(common.OracleFailure{Engine: "ts", Key: key, Case: Case{Engine: "ts", TsOps: []TsOp{op}}, Detail: fmt.Sprintf("ts=%d now=%d valid=%v", int64(op.Ts), op.Sec, ok)})
			}
			e.rep.Count("ts:in-range")
		} else {
			e.rep.Count("ts:clock-beyond-2^62")
		}
	}
	e.rep.Case(sigOf(c), strings.Contains(strings.Join(impl, ""), "0") && strings.Contains(strings.Join(impl, ""), "1"))
	if e.drv != nil {
		out, err := e.model(lines)
		if err != nil {
			return err
		}
		for i := range out {
			if out[i] != impl[i] {
				e.rep.Diverge(common.Divergence{Engine: "ts", Case: Case{Engine: "ts", TsOps: []TsOp{c.TsOps[i]}}, Impl: impl[i], Model: out[i]})
				break
			}
		}
		e.rep.TracesValidated++
	}
	return nil
}

// ---------- driver ----------

func (e *engine) eval(c Case) error {
	switch c.Engine {
	case "replay", "":
		c.Engine = "replay"
		return e.evalReplay(c)
	case "race":
		return e.evalRace(c)
	case "pool":
		return e.evalPool(c)
	case "flood":
		return e.evalFlood(c)
	case "poolrace":
		return e.evalPoolRace(c)
	case "ts":
		return e.evalTs(c)
	}
	return fmt.Errorf("unknown engine %q", c.Engine)
}

func (e *engine) all() error {
	o, rep := e.o, e.rep
	if e.drv != nil {
		out, err := e.drv.Ask("consts")
		if err != nil {
			return err
		}
		want := fmt.Sprintf("%d %d", int64(ss2022.MaxEpochDiff), int64(ss2022.ReplayWindowDuration))
		if out != want {
			rep.Diverge(common.Divergence{Engine: "consts", Case: "consts", Impl: want, Model: out, Note: "the driver was built from other constants than the ss2022 package linked here"})
		}
	}
	if o.Replay != "" {
		var c Case
		if err := common.LoadReplay(o.Replay, &c); err != nil {
			return err
		}
		return e.eval(c)
	}
	if os.Getenv("C03_RACE_CHILD") != "" {
		// child built with -race: only the concurrent engine, oracle-only
		r := common.NewRng(o.Seed)
		cn, _ := strconv.Atoi(os.Getenv("C03_RACE_CHILD"))
		for i := 0; i < cn; i++ {
			if err := e.eval(genRaceCase(r.Fork(uint64(5<<32 + i)))); err != nil {
				return err
			}
		}
		return nil
	}
	if os.Getenv("C03_ONLY") == "racedetector" { // debugging switch
		e.raceDetectorRun()
		return nil
	}
	// the witness of finding F2, on every run
	before := rep.Distribution["ORACLE-FAIL:"+f2Key]
	if err := e.eval(f2Probe()); err != nil {
		return err
	}
	if err := e.eval(heldProbe()); err != nil {
		return err
	}
	rep.FindingsProbed[f2Key] = rep.Distribution["ORACLE-FAIL:"+f2Key] > before

	r := common.NewRng(o.Seed)
	w := int64(ss2022.ReplayWindowDuration)
	n := o.Budget(2000, 40000)
	for i := 0; i < n; i++ {
		if err := e.eval(genReplayCase(r.Fork(uint64(i)))); err != nil {
			return err
		}
	}
	for _, kk := range []int{2, 4, 16} {
		pc := Case{Engine: "poolrace", Cfg: Cfg{KeySeed: r.U64()}, K: kk, N: o.Budget(50000, 1000000)}
		if err := e.eval(pc); err != nil {
			return err
		}
	}
	if err := e.raceChild(o.Budget(300, 3000)); err != nil {
		return err
	}
	if o.Thorough() {
		e.raceDetectorRun()
	}
	{
		fc := Case{Engine: "flood", Cfg: Cfg{KeySeed: r.U64(), KeyLen: 16}, N: 2048, Skew: int64(r.Intn(30)) * 1e9}
		if o.Thorough() || o.Search {
			fc.N = 70000
		}
		if err := e.eval(fc); err != nil {
			return err
		}
	}
	for i, fs := range floodSizes {
		reps := 1
		if o.Thorough() || o.Search {
			reps = 4
		}
		for j := 0; j < reps; j++ {
			if err := e.eval(genPoolFloodCase(r.Fork(uint64(6<<32+i*16+j)), fs)); err != nil {
				return err
			}
		}
	}
	n = o.Budget(2000, 50000)
	for i := 0; i < n; i++ {
		if err := e.eval(genPoolCase(r.Fork(uint64(2<<32+i)), w)); err != nil {
			return err
		}
	}
	n = o.Budget(200, 5000)
	for i := 0; i < n; i++ {
		if err := e.eval(genTsCase(r.Fork(uint64(3<<32 + i)))); err != nil {
			return err
		}
	}
	return nil
}

// raceChild runs the race engine (k concurrent HandleStream calls on the same bytes) in a child process: a data
// race in the pool can end in a fatal runtime error that recover() cannot catch.
func (e *engine) raceChild(n int) error {
	rep := e.rep
	dir, err := os.MkdirTemp("", "c03racechild")
	if err != nil {
		return err
	}
	defer os.RemoveAll(dir)
	outFile := filepath.Join(dir, "rep.json")
	ctx, cancel := context.WithTimeout(context.Background(), 30*time.Minute)
	defer cancel()
	child := exec.CommandContext(ctx, os.Args[0], "--tier", e.o.Tier, "--seed", fmt.Sprint(e.o.Seed), "--out", outFile)
	child.Env = append(os.Environ(), fmt.Sprintf("C03_RACE_CHILD=%d", n))
	out, cerr := child.CombinedOutput()
	if ctx.Err() != nil {
		return fmt.Errorf("race child did not finish in 30 minutes")
	}
	var crep common.Report
	if b, rerr := os.ReadFile(outFile); rerr == nil {
		json.Unmarshal(b, &crep)
	}
	for i := 0; i < crep.Evaluations; i++ { // the child's cases, counted here (distinct by (seed, index))
		rep.Case(fmt.Sprintf("race-child:%d:%d", e.o.Seed, i), i < crep.DistinctNontrivial)
	}
	rep.TracesValidated += crep.TracesValidated
	for k, v := range crep.Distribution {
		rep.Distribution[k] += v
	}
	for _, f := range crep.OracleFailures {
		rep.Fail(f)
	}
	for _, d := range crep.Divergences {
		rep.Diverge(d)
	}
	if cerr != nil && crep.Evaluations == 0 || strings.Contains(string(out), "fatal error:") {
		first := lastBytes(out, 1500)
		if i := strings.Index(string(out), "fatal error:"); i >= 0 {
			first = string(out)[i:]
			if len(first) > 1500 {
				first = first[:1500]
			}
		}
		c := Case{Engine: "race", K: 16, Noise: n}
		rep.Fail(common.OracleFailure{Engine: "race", Key: "fatal-error:concurrent-handshakes", Case: c,
			Detail: fmt.Sprintf("the process running %d race cases (k concurrent HandleStream calls on the same request bytes) died: %v: %s", n, cerr, first)})
		rep.Diverge(common.Divergence{Engine: "race", Case: c, Impl: first, Model: "total"})
	}
	return nil
}

// raceDetectorRun (thorough tier): rebuilds this command with -race and runs the concurrent engine in it.
// A reported data race in the code under test is an oracle failure; an unavailable race build is only noted.
func (e *engine) raceDetectorRun() {
	rep := e.rep
	verif := os.Getenv("VERIF_DIR")
	if verif == "" {
		verif = "/verif"
	}
	repo := os.Getenv("VERIF_REPO")
	dir, err := os.MkdirTemp("", "c03race")
	if err != nil {
		rep.Note("race-detector run skipped: %v", err)
		return
	}
	defer os.RemoveAll(dir)
	args := []string{"build", "-race"}
	if repo != "" && repo != "/repo" {
		tag := regexp.MustCompile(`\W+`).ReplaceAllString(repo, "_")
		args = append(args, "-modfile", filepath.Join(verif, "harness", "go.scratch."+tag+".mod"))
	}
	args = append(args, "-o", filepath.Join(dir, "corr_c03_race"), "./cmd/corr_c03")
	env := append(os.Environ(), "GOFLAGS=-mod=mod", "GOPROXY=off")
	build := exec.Command("go", args...)
	build.Dir = filepath.Join(verif, "harness")
	build.Env = env
	if out, err := build.CombinedOutput(); err != nil {
		rep.Note("race-detector run skipped: go build -race failed: %v: %s", err, lastBytes(out, 300))
		return
	}
	outFile := filepath.Join(dir, "rep.json")
	child := exec.Command(filepath.Join(dir, "corr_c03_race"), "--tier", "thorough", "--seed", fmt.Sprint(e.o.Seed), "--out", outFile)
	child.Env = append(env, "C03_RACE_CHILD=200")
	t0 := time.Now()
	out, err := child.CombinedOutput()
	var crep common.Report
	if b, rerr := os.ReadFile(outFile); rerr == nil {
		json.Unmarshal(b, &crep)
	}
	rep.Count(fmt.Sprintf("race-detector:cases=%d", crep.Evaluations))
	rep.Note("race-detector child: %d cases in %.1fs", crep.Evaluations, time.Since(t0).Seconds())
	for _, f := range crep.OracleFailures {
		rep.Fail(f)
	}
	if strings.Contains(string(out), "DATA RACE") {
		rep.Fail(common.OracleFailure{Engine: "race", Key: "data-race", Case: Case{Engine: "race"}, Detail: lastBytes(out, 1500)})
	} else if err != nil {
		rep.Diverge(common.Divergence{Engine: "race", Case: Case{Engine: "race"}, Impl: fmt.Sprintf("race-detector child failed: %v: %s", err, lastBytes(out, 600)), Model: "clean exit"})
	}
}

func lastBytes(b []byte, n int) string {
	if len(b) > n {
		b = b[len(b)-n:]
	}
	return string(b)
}

func main() {
	if os.Getenv("C03_CHILD") == "poolrace" {
		k, _ := strconv.Atoi(os.Getenv("C03_K"))
		rounds, _ := strconv.Atoi(os.Getenv("C03_ROUNDS"))
		seed, _ := strconv.ParseUint(os.Getenv("C03_SEED"), 10, 64)
		b, _ := json.Marshal(poolRaceChild(k, rounds, seed))
		os.Stdout.Write(b)
		return
	}
	testing.Init()
	o := common.ParseFlags()
	rep := common.NewReport("C03", o)
	rep.Engines = []string{"replay", "race", "pool", "ts", "flood", "poolrace"}
	rep.Rule = "replay: histories (<= ~45 ops) of clock advances and presentations of crafted/real/mutated SS2022 TCP requests to a real StreamServer on a synctest fake clock; " +
		"templates: end-of-validity replays (skew -31..+31 s, instants within 0/1/2 ns and 1 s of the last valid instant), retention edges (t1 + 59/60/61/62 s +-2 ns after a pruning Add), forged-copies-first, held connections (an idle connection handed to the server at instant a, the request written at b >= a, b-a in 0..70 s around 30/31/60/61 s, other traffic in between; the verdict is judged at b), random walks over a boundary step alphabet; " +
		"non-trivial = at least one accept and at least one re-presentation of an accepted request; distinct by (config, op list). " +
		"race: k in {2,3,4,8,16} concurrent copies + 0..6 unrelated concurrent requests. pool: <= 40 SaltPool ops with non-monotone instants, plus floods: Add(r), N distinct fresh salts (N in 2^10, 2^16-1, 2^16, 2^16+1, 2^17, 3*10^5) inside r's validity span, Add(r) again (model compared answer by answer; fills of more than 2048 salts as one bulk op on the driver's proved-equivalent fast pool). poolrace (child process): k in {2,4,16} goroutines call SaltPool.Add for the same fresh salt 50000 / 10^6 rounds each, re-aligned by a blocking barrier every 32 rounds; the race engine itself also runs in a child process so that a fatal runtime error (concurrent map access) is reported as a failure of that scenario. flood: the same through HandleStream with 2048 (quick) / 70000 (thorough, search) real handshakes on the fake clock. ts: 64 (word, clock) pairs per case over 64-bit boundary alphabets"
	code := 0
	testing.Main(func(pat, str string) (bool, error) { return true, nil }, []testing.InternalTest{{Name: "corr_c03", F: func(t *testing.T) {
		e := &engine{o: o, rep: rep, t: t}
		if o.Driver != "" {
			d, err := common.StartDriver(o.Driver)
			if err != nil {
				rep.Note("engine error: %v", err)
				rep.Write(o.Out)
				t.Fatal(err)
			}
			e.drv = d
			defer d.Close()
		}
		t0 := time.Now()
		err := e.all()
		rep.Note("wall %.1fs", time.Since(t0).Seconds())
		if err != nil {
			fmt.Fprintln(os.Stderr, "corr_c03:", err)
			rep.Note("engine error: %v", err)
			code = 3
		}
		if werr := rep.Write(o.Out); werr != nil {
			fmt.Fprintln(os.Stderr, werr)
			code = 3
		}
		if code != 0 {
			t.Fail()
		}
	}}}, nil, nil)
}
