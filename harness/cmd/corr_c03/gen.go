package main

// Generators of the replay engine: boundary-directed histories on a virtual clock that the generator tracks
// itself (every bubble starts at bubbleStart), so that a case is a fully concrete list of ops.

import (
	"ssvharness/internal/common"
)

type hgen struct {
	r       *common.Rng
	now     int64
	c       Case
	ts      []uint64 // per created request
	plain   []bool   // created from scratch as "genuine"/"real" (mutations allowed on any complete request)
	trunc   []bool   // request is a truncated one (cannot be mutated)
	salt    uint64
	nheld   int
	nobody  map[int]bool // request may have an empty body chunk
	mutated map[int]bool // request is a mutation of another one
}

func newHgen(r *common.Rng) *hgen {
	g := &hgen{r: r, now: bubbleStart, nobody: map[int]bool{}, mutated: map[int]bool{}}
	g.c.Engine = "replay"
	g.c.Cfg = Cfg{KeySeed: r.U64(), KeyLen: common.Pick(r, []int{16, 32}), EIH: r.Chance(1, 3), Segmented: r.Chance(1, 4), Fallback: r.Chance(1, 3)}
	if r.Chance(1, 4) {
		g.c.Cfg.PrefixLen = r.Range(1, 8)
	}
	g.salt = r.U64() | 1
	return g
}

func (g *hgen) sec() int64 { return g.now / 1e9 }

func (g *hgen) adv(d int64) {
	if d <= 0 {
		return
	}
	g.c.Ops = append(g.c.Ops, Op{Op: "adv", D: d})
	g.now += d
}

func (g *hgen) advTo(t int64) { g.adv(t - g.now) }

func (g *hgen) newReq(kind string, ts uint64, hold bool) int {
	if kind == "unknownuser" && !g.c.Cfg.EIH {
		kind = "wrongkey"
	}
	g.salt += 2
	g.c.Ops = append(g.c.Ops, Op{Op: "new", Kind: kind, Ts: ts, Pad: g.r.Range(1, 40), Salt: g.salt, Hold: hold})
	g.ts = append(g.ts, ts)
	g.plain = append(g.plain, kind == "genuine")
	g.trunc = append(g.trunc, false)
	return len(g.ts) - 1
}

func (g *hgen) realReq() int {
	g.c.Ops = append(g.c.Ops, Op{Op: "real"})
	g.ts = append(g.ts, uint64(g.sec()))
	g.plain = append(g.plain, true)
	g.trunc = append(g.trunc, false)
	return len(g.ts) - 1
}

var mutations = []string{"flipfixed", "flipbody", "truncbody", "truncfirst", "flipprefix", "flipidentity", "flipsalt"}

func (g *hgen) mut(base int, hold bool) int {
	// only pristine requests are mutated (a mutation of a mutation could undo it)
	if g.trunc[base] || g.mutated[base] {
		return g.present(base)
	}
	how := common.Pick(g.r, mutations)
	if how == "flipprefix" && g.c.Cfg.PrefixLen == 0 {
		how = "flipfixed"
	}
	if how == "flipidentity" && !g.c.Cfg.EIH {
		how = "flipsalt"
	}
	if (how == "flipbody" || how == "truncbody") && g.nobody[base] {
		how = "flipfixed"
	}
	g.c.Ops = append(g.c.Ops, Op{Op: "mut", Kind: how, R: base, Pos: g.r.Intn(1 << 16), Hold: hold})
	g.ts = append(g.ts, g.ts[base])
	g.plain = append(g.plain, false)
	g.trunc = append(g.trunc, how == "truncfirst")
	g.nobody[len(g.ts)-1] = how == "truncbody" || g.nobody[base]
	g.mutated[len(g.ts)-1] = true
	return len(g.ts) - 1
}

func (g *hgen) open() int {
	g.c.Ops = append(g.c.Ops, Op{Op: "open"})
	g.nheld++
	return g.nheld - 1
}

func (g *hgen) send(h, i int) {
	g.c.Ops = append(g.c.Ops, Op{Op: "send", H: h, R: i})
}

// heldConnection: an idle connection is handed to the server at instant a; the request bytes are written on it at
// instant b >= a (b - a from 0 to 70 s, around 30 / 31 / 60 / 61 s), with other traffic in between. The server clock
// that counts is the one at b.
func (g *hgen) heldConnection() {
	g.alignFrac(g.frac())
	var r int
	switch g.r.Intn(3) {
	case 0: // a request that was already accepted (a replay arrives on the idle connection)
		r = g.newReq("genuine", uint64(g.sec()+g.skew()), false)
		g.adv(common.Pick(g.r, []int64{0, 1, 1e9, 25e9, 29e9, 30e9, 31e9, int64(g.r.Intn(40000000000))}))
	case 1: // a request made when the connection was opened (valid at a)
		r = g.newReq("genuine", uint64(g.sec()+g.skew()), true)
	default:
		r = -1 // made when the bytes are written (valid at b)
	}
	h := g.open()
	wait := common.Pick(g.r, []int64{0, 1, 999999999, 29e9, 30e9, 30e9 + 1, 31e9, 31e9 + 1, 37e9, 59e9, 60e9, 61e9, 61e9 + 1, 62e9, 70e9, int64(g.r.U64() % 70e9)})
	target := g.now + wait
	k := g.r.Range(0, 2)
	for j := 0; j < k && target > g.now; j++ {
		g.adv(int64(g.r.U64() % uint64(target-g.now+1)))
		g.noise(-1)
	}
	g.advTo(target)
	if g.r.Chance(1, 2) {
		g.newReq("genuine", uint64(g.sec()), false) // a fresh accepted request right before: its Add prunes
	}
	if r < 0 {
		r = g.newReq("genuine", uint64(g.sec()+g.skew()), true)
	}
	g.send(h, r)
	if g.r.Chance(1, 2) {
		g.adv(common.Pick(g.r, []int64{0, 1, 1e9}))
		g.present(r)
	}
}

func (g *hgen) present(i int) int {
	g.c.Ops = append(g.c.Ops, Op{Op: "present", R: i})
	return i
}

func (g *hgen) skew() int64 {
	if g.r.Chance(7, 10) {
		return common.Pick(g.r, []int64{-31, -30, -29, -1, 0, 1, 29, 30, 31})
	}
	return int64(g.r.Range(-31, 31))
}

func (g *hgen) frac() int64 {
	if g.r.Chance(1, 2) {
		return common.Pick(g.r, []int64{0, 1, 2, 499999999, 500000000, 999999998, 999999999})
	}
	return int64(g.r.Intn(1000000000))
}

// alignFrac advances to the next instant whose sub-second part is f.
func (g *hgen) alignFrac(f int64) {
	cur := g.now % 1e9
	d := (f - cur + 1e9) % 1e9
	g.adv(d)
}

func (g *hgen) weirdTs() uint64 {
	s := uint64(g.sec())
	return common.Pick(g.r, []uint64{0, 1, 1<<63 - 1, 1 << 63, ^uint64(0), s + 1<<63, s + 1<<63 + 30, s - 1<<63 - 30, s + 1<<32, s - 31 + 1<<63, ^s})
}

// noise: one op that is not a presentation of the tracked request.
func (g *hgen) noise(tracked int) {
	switch g.r.Intn(8) {
	case 0, 1, 2:
		g.newReq("genuine", uint64(g.sec()+int64(g.r.Range(-30, 30))), false)
	case 3:
		g.realReq()
	case 4:
		g.newReq(common.Pick(g.r, []string{"garbage", "wrongkey", "unknownuser", "badtype", "badaddr"}), uint64(g.sec()), false)
	case 5, 6:
		if tracked >= 0 {
			g.mut(tracked, false)
		} else {
			g.newReq("garbage", uint64(g.sec()), false)
		}
	default:
		g.newReq("genuine", g.weirdTs(), false)
	}
}

// endOfValidity: a request with a chosen client skew; replays aimed at the last instants at which its
// timestamp still passes (and just after), with other traffic in between.
func (g *hgen) endOfValidity() {
	g.alignFrac(g.frac())
	s := g.skew()
	ts := uint64(g.sec() + s)
	var i int
	if s == 0 && g.r.Chance(1, 2) {
		i = g.realReq()
	} else {
		i = g.newReq("genuine", ts, false)
	}
	rounds := g.r.Range(1, 3)
	for n := 0; n < rounds; n++ {
		last := (int64(ts)+31)*1e9 - 1 // last instant at which |ts - floor(now)| <= 30
		back := common.Pick(g.r, []int64{0, 0, 1, 2, 999999998, 999999999, 1000000000, 1000000001, int64(g.r.Intn(2000000000)), int64(g.r.Intn(62000000000)), -1, -2, -1000000000})
		target := last - back
		if target < g.now {
			target = g.now + int64(g.r.Intn(3))
		}
		k := g.r.Range(0, 3)
		for j := 0; j < k; j++ {
			if target > g.now {
				g.adv(int64(g.r.U64() % uint64(target-g.now+1)))
			}
			g.noise(i)
		}
		g.advTo(target)
		g.present(i)
		if g.r.Chance(1, 3) {
			g.noise(i)
			g.adv(common.Pick(g.r, []int64{0, 1, 999999999, 1000000000}))
			g.present(i)
		}
	}
}

// retentionEdge: accept r at t1, then aim at t1 + W + delta for the retention periods 60 s and 61 s, with a
// request accepted at or just before that instant (so that the pool has been pruned).
func (g *hgen) retentionEdge() {
	g.alignFrac(g.frac())
	s := int64(g.r.Range(26, 31))
	if g.r.Chance(1, 4) {
		s = g.skew()
	}
	i := g.newReq("genuine", uint64(g.sec()+s), false)
	t1 := g.now
	w := common.Pick(g.r, []int64{60e9, 61e9, 60e9, 61e9, 59e9, 62e9})
	delta := common.Pick(g.r, []int64{-2, -1, 0, 1, 2, int64(g.r.Intn(1000000000))})
	target := t1 + w + delta
	if g.r.Chance(1, 2) {
		g.adv(int64(g.r.U64() % uint64(target-g.now)))
		g.noise(i)
	}
	pre := common.Pick(g.r, []int64{0, 0, 1, 2, int64(g.r.Intn(1000000))})
	if target-pre > g.now {
		g.advTo(target - pre)
	}
	g.newReq("genuine", uint64(g.sec()), false)
	g.advTo(target)
	g.present(i)
	if g.r.Chance(1, 2) {
		g.adv(common.Pick(g.r, []int64{0, 1, 999999999, 1000000000}))
		g.newReq("genuine", uint64(g.sec()), false)
		g.present(i)
	}
}

// exactSpan: the two ends of a timestamp's validity span, to the nanosecond: accepted at the first instant of a
// second (or a chosen fraction) with the largest client skew that still validates, re-presented at the very last
// valid instant, a fresh request being accepted at that same instant (or 1-2 ns earlier) so that the pool is pruned.
func (g *hgen) exactSpan() {
	g.alignFrac(common.Pick(g.r, []int64{0, 0, 0, 1, 2, 999999999, g.frac()}))
	s := common.Pick(g.r, []int64{30, 30, 30, 29, 31})
	ts := uint64(g.sec() + s)
	i := g.newReq("genuine", ts, false)
	last := (int64(ts)+31)*1e9 - 1
	target := last - common.Pick(g.r, []int64{0, 0, 0, 1, 2, -1})
	if g.r.Chance(1, 3) {
		g.adv(int64(g.r.U64() % uint64(target-g.now)))
		g.noise(i)
	}
	pre := common.Pick(g.r, []int64{0, 0, 0, 1, 2})
	if target-pre > g.now {
		g.advTo(target - pre)
	}
	g.newReq("genuine", uint64(g.sec()+int64(g.r.Range(-30, 30))), false)
	g.advTo(target)
	g.present(i)
}

var walkSteps = []int64{0, 1, 2, 999999999, 1e9, 29e9, 30e9 - 1, 30e9, 30e9 + 1, 31e9, 59e9, 60e9 - 1, 60e9, 60e9 + 1, 61e9 - 1, 61e9, 61e9 + 1}

// walk: unstructured history.
func (g *hgen) walk(maxOps int) {
	n := g.r.Range(3, maxOps)
	for len(g.c.Ops) < n {
		switch g.r.Intn(10) {
		case 0, 1, 2:
			if g.r.Chance(2, 3) {
				g.adv(common.Pick(g.r, walkSteps))
			} else {
				g.adv(int64(g.r.U64() % 70e9))
			}
		case 3, 4:
			g.newReq("genuine", uint64(g.sec()+g.skew()), g.r.Chance(1, 6))
		case 5:
			g.noise(-1)
		case 6, 7, 8:
			if len(g.ts) > 0 {
				g.present(g.r.Intn(len(g.ts)))
			}
		default:
			if len(g.ts) > 0 {
				g.mut(g.r.Intn(len(g.ts)), g.r.Chance(1, 6))
			}
		}
	}
}

// forgedFirst: forged copies of a request are presented before the request itself.
func (g *hgen) forgedFirst() {
	g.alignFrac(g.frac())
	i := g.newReq("genuine", uint64(g.sec()+int64(g.r.Range(-30, 30))), true)
	k := g.r.Range(1, 4)
	for j := 0; j < k; j++ {
		how := common.Pick(g.r, []string{"flipfixed", "truncfirst", "flipprefix", "flipidentity", "flipfixed"})
		if how == "flipprefix" && g.c.Cfg.PrefixLen == 0 {
			how = "flipfixed"
		}
		if how == "flipidentity" && !g.c.Cfg.EIH {
			how = "flipfixed"
		}
		g.c.Ops = append(g.c.Ops, Op{Op: "mut", Kind: how, R: i, Pos: g.r.Intn(1 << 16)})
		g.ts = append(g.ts, g.ts[i])
		g.plain = append(g.plain, false)
		g.trunc = append(g.trunc, how == "truncfirst")
		g.mutated[len(g.ts)-1] = true
		if g.r.Chance(1, 2) {
			g.adv(int64(g.r.Intn(2000000000)))
		}
	}
	g.present(i)
	g.adv(int64(g.r.Intn(3000000000)))
	g.present(i)
}

func genReplayCase(r *common.Rng) Case {
	g := newHgen(r)
	switch r.Intn(10) {
	case 0, 1, 2:
		g.endOfValidity()
	case 3:
		g.exactSpan()
	case 4:
		g.heldConnection()
	case 5:
		g.retentionEdge()
	case 6:
		g.forgedFirst()
	default:
		g.walk(40)
	}
	if r.Chance(1, 5) && len(g.c.Ops) < 30 {
		g.walk(len(g.c.Ops) + 10)
	}
	return g.c
}

// heldProbe: an idle connection opened 25 s after r was accepted, left blocked in its first read; 62 s after the
// acceptance a fresh request is accepted; then r's bytes arrive on the idle connection. The instant that counts for
// the timestamp check and for Add is the one at which the bytes arrive (the code reads the clock after the first read).
func heldProbe() Case {
	c := Case{Engine: "replay", Cfg: Cfg{KeySeed: 3, KeyLen: 16}}
	sec := uint64(bubbleStart / 1e9)
	c.Ops = []Op{
		{Op: "adv", D: 300000000},
		{Op: "new", Kind: "genuine", Ts: sec, Pad: 3, Salt: 21},
		{Op: "adv", D: 25000000000},
		{Op: "open"},
		{Op: "adv", D: 37000000000},
		{Op: "new", Kind: "genuine", Ts: sec + 62, Pad: 3, Salt: 23},
		{Op: "send", H: 0, R: 0},
	}
	return c
}

// f2Probe: the witness history of finding F2 (DESIGN §6): client clock +30 s, accepted at T0+0.5 s; 60.1 s later a
// fresh request is accepted (its Add prunes the first salt, retained for 60 s); the first request is accepted again
// although its timestamp still passes.
func f2Probe() Case {
	c := Case{Engine: "replay", Cfg: Cfg{KeySeed: 2, KeyLen: 32}}
	sec := uint64(bubbleStart / 1e9)
	c.Ops = []Op{
		{Op: "adv", D: 500000000},
		{Op: "new", Kind: "genuine", Ts: sec + 30, Pad: 7, Salt: 11},
		{Op: "adv", D: 60100000000},
		{Op: "new", Kind: "genuine", Ts: sec + 60, Pad: 7, Salt: 13},
		{Op: "present", R: 0},
	}
	return c
}
