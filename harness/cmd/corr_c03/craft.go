package main

// Crafting of SS2022 TCP requests through the exported ss2022 API (no StreamClient needed: any
// 64-bit timestamp word, any salt, any defect), plus the server/key set of a case.

import (
	"encoding/binary"
	"fmt"
	"net/netip"
	"time"

	"ssvharness/internal/common"

	"github.com/database64128/shadowsocks-go/conn"
	"github.com/database64128/shadowsocks-go/socks5"
	"github.com/database64128/shadowsocks-go/ss2022"
)

// Cfg is the server/key configuration of a case; every byte derives from KeySeed.
type Cfg struct {
	KeySeed   uint64 `json:"key_seed"`
	KeyLen    int    `json:"key_len"`   // 16 | 32
	EIH       bool   `json:"eih"`       // identity header (iPSK + users) or single PSK
	PrefixLen int    `json:"prefix"`    // unsafe request stream prefix length
	Segmented bool   `json:"segmented"` // AllowSegmentedFixedLengthHeader
	Fallback  bool   `json:"fallback"`  // UnsafeFallbackAddr configured
}

type keys struct {
	cfg    Cfg
	psk    []byte   // the genuine user's key
	ipsk   []byte   // EIH only
	others [][]byte // further users (EIH)
	ursp   []byte
	cc     *ss2022.ClientCipherConfig // genuine client
	target conn.Addr
}

// fallbackAddr: where a server with a fallback sends what it cannot authenticate (never a request target here).
var fallbackAddr = conn.AddrFromIPAndPort(netip.AddrFrom4([4]byte{198, 51, 100, 7}), 80)

func newKeys(c Cfg) (*keys, error) {
	r := common.NewRng(c.KeySeed ^ 0x5eed5eed)
	k := &keys{cfg: c, psk: r.Bytes(c.KeyLen), ursp: r.Bytes(c.PrefixLen)}
	var ipsks [][]byte
	if c.EIH {
		k.ipsk = r.Bytes(c.KeyLen)
		ipsks = [][]byte{k.ipsk}
		for i := 0; i < 3; i++ {
			k.others = append(k.others, r.Bytes(c.KeyLen))
		}
	}
	cc, err := ss2022.NewClientCipherConfig(k.psk, ipsks, false)
	if err != nil {
		return nil, err
	}
	k.cc = cc
	k.target = conn.AddrFromIPAndPort(netip.AddrFrom4([4]byte{192, 0, 2, 1}), 443)
	return k, nil
}

func (k *keys) newServer() (*ss2022.StreamServer, error) {
	sc := ss2022.StreamServerConfig{
		AllowSegmentedFixedLengthHeader: k.cfg.Segmented,
		UnsafeRequestStreamPrefix:       k.ursp,
	}
	if k.cfg.Fallback {
		sc.UnsafeFallbackAddr = fallbackAddr
	}
	if !k.cfg.EIH {
		ucc, err := ss2022.NewUserCipherConfig(k.psk, false)
		if err != nil {
			return nil, err
		}
		sc.UserCipherConfig = ucc
		return sc.NewStreamServer(), nil
	}
	icc, err := ss2022.NewServerIdentityCipherConfig(k.ipsk, false)
	if err != nil {
		return nil, err
	}
	sc.IdentityCipherConfig = icc
	s := sc.NewStreamServer()
	ulm := ss2022.UserLookupMap{}
	for i, p := range append([][]byte{k.psk}, k.others...) {
		c, err := ss2022.NewServerUserCipherConfig(fmt.Sprintf("u%d", i), p, false)
		if err != nil {
			return nil, err
		}
		ulm[ss2022.PSKHash(p)] = c
	}
	s.ReplaceUserLookupMap(ulm)
	return s, nil
}

// layout of a request: prefix | salt | [identity header] | fixed chunk (11+16) | body chunk
func (k *keys) saltStart() int  { return len(k.ursp) }
func (k *keys) idStart() int    { return len(k.ursp) + k.cfg.KeyLen }
func (k *keys) fixedStart() int { return k.idStart() + k.idLen() }
func (k *keys) idLen() int {
	if k.cfg.EIH {
		return ss2022.IdentityHeaderLength
	}
	return 0
}
func (k *keys) firstChunkLen() int {
	return k.fixedStart() + ss2022.TCPRequestFixedLengthHeaderLength + 16
}

// Flags: how each check of HandleStream comes out for these bytes (the model's view of a request).
type Flags struct {
	Complete, PrefixOk, UserOk, AuthOk, TypeOk, BodyOk bool
}

func (f Flags) String() string {
	b := func(x bool) byte {
		if x {
			return '1'
		}
		return '0'
	}
	return string([]byte{b(f.Complete), b(f.PrefixOk), b(f.UserOk), b(f.AuthOk), b(f.TypeOk), b(f.BodyOk)})
}

// Built is a request as bytes together with what the harness knows about it by construction.
type Built struct {
	Bytes     []byte
	Salt      [32]byte // length-extended salt as the server will see it (zero if the bytes are too short)
	Flags     Flags
	Ts        uint64
	Mutated   bool // derived from another request by mutate
	Authentic bool // exact bytes of a genuine client request (every check passes but possibly the timestamp)
	FirstOk   bool // first chunk (salt + fixed-length header) is an authentic one
}

// build crafts a request from scratch.
//
//	kind: genuine | badtype | wrongkey | unknownuser | garbage | badaddr
func (k *keys) build(kind string, salt []byte, ts uint64, pad int) (*Built, error) {
	addrLen := socks5.LengthOfAddrFromConnAddr(k.target)
	varLen := addrLen + 2 + pad
	total := k.firstChunkLen() + varLen + 16
	b := make([]byte, total)
	copy(b, k.ursp)
	copy(b[k.saltStart():], salt)
	out := &Built{Ts: ts, Flags: Flags{Complete: true, PrefixOk: true, UserOk: true, AuthOk: true, TypeOk: true, BodyOk: true}}

	if kind == "garbage" {
		r := common.NewRng(binary.BigEndian.Uint64(salt) ^ 0x6a7b)
		copy(b[k.idStart():], r.Bytes(total-k.idStart()))
		out.Bytes = b
		if k.cfg.EIH {
			out.Flags.UserOk = false
		}
		out.Flags.AuthOk = false
		copy(out.Salt[:], salt)
		return out, nil
	}

	cc := k.cc
	switch kind {
	case "wrongkey":
		// a client that knows the iPSK (if any) and claims the genuine user, but has the wrong user key:
		// identity header fine, AEAD fails
		r := common.NewRng(binary.BigEndian.Uint64(salt) ^ 0x77)
		bad := r.Bytes(k.cfg.KeyLen)
		var ipsks [][]byte
		if k.cfg.EIH {
			ipsks = [][]byte{k.ipsk}
		}
		c2, err := ss2022.NewClientCipherConfig(bad, ipsks, false)
		if err != nil {
			return nil, err
		}
		if k.cfg.EIH {
			// identity header must name the genuine user: encrypt the genuine hash, seal with the bad key
			ciphers, err := k.cc.TCPIdentityHeaderCiphers(salt)
			if err != nil {
				return nil, err
			}
			h := k.cc.EIHPSKHashes()[0]
			ciphers[0].Encrypt(b[k.idStart():k.fixedStart()], h[:])
		}
		cc = c2
		out.Flags.AuthOk = false
	case "unknownuser":
		if !k.cfg.EIH {
			return nil, fmt.Errorf("unknownuser needs EIH")
		}
		r := common.NewRng(binary.BigEndian.Uint64(salt) ^ 0x99)
		c2, err := ss2022.NewClientCipherConfig(r.Bytes(k.cfg.KeyLen), [][]byte{k.ipsk}, false)
		if err != nil {
			return nil, err
		}
		cc = c2
		out.Flags.UserOk = false
		out.Flags.AuthOk = false
	}
	if k.cfg.EIH && kind != "wrongkey" {
		ciphers, err := cc.TCPIdentityHeaderCiphers(salt)
		if err != nil {
			return nil, err
		}
		h := cc.EIHPSKHashes()[0]
		ciphers[0].Encrypt(b[k.idStart():k.fixedStart()], h[:])
	}
	fixed := b[k.fixedStart() : k.fixedStart()+ss2022.TCPRequestFixedLengthHeaderLength]
	ss2022.PutTCPRequestFixedLengthHeader(fixed, time.Unix(0, 0), varLen)
	binary.BigEndian.PutUint64(fixed[1:], ts)
	if kind == "badtype" {
		fixed[0] = 1
		out.Flags.TypeOk = false
	}
	vstart := k.firstChunkLen()
	vh := b[vstart : vstart+varLen]
	ss2022.PutTCPRequestVariableLengthHeader(vh, k.target, nil)
	if kind == "badaddr" {
		vh[0] = 0x7f // no such ATYP
		out.Flags.BodyOk = false
	}
	sc, err := cc.ShadowStreamCipher(salt)
	if err != nil {
		return nil, err
	}
	sc.EncryptInPlace(fixed)
	sc.EncryptInPlace(vh)
	out.Bytes = b
	copy(out.Salt[:], salt)
	out.Authentic = kind == "genuine"
	out.FirstOk = kind == "genuine" || kind == "badaddr"
	return out, nil
}

// mutate derives a presentation from an existing request.
//
//	how: flipfixed | flipbody | truncbody | truncfirst | flipprefix | flipidentity | flipsalt
func (k *keys) mutate(base *Built, how string, pos int) (*Built, error) {
	b := append([]byte(nil), base.Bytes...)
	out := &Built{Ts: base.Ts, Flags: base.Flags, Salt: base.Salt}
	if !base.Flags.Complete || base.Mutated {
		return nil, fmt.Errorf("cannot mutate a truncated or already mutated request (a second mutation could undo the first)")
	}
	out.Mutated = true
	fc := k.firstChunkLen()
	switch how {
	case "flipfixed":
		i := k.fixedStart() + pos%(fc-k.fixedStart())
		b[i] ^= 1 << (pos % 8)
		out.Flags.AuthOk = false
	case "flipbody":
		if len(b) <= fc {
			return nil, fmt.Errorf("no body")
		}
		i := fc + pos%(len(b)-fc)
		b[i] ^= 1 << (pos % 8)
		out.Flags.BodyOk = false
		out.FirstOk = base.FirstOk
	case "truncbody":
		if len(b) <= fc {
			return nil, fmt.Errorf("no body")
		}
		b = b[:fc+pos%(len(b)-fc)]
		out.Flags.BodyOk = false
		out.FirstOk = base.FirstOk
	case "truncfirst":
		b = b[:pos%fc]
		out.Flags.Complete = false
		out.Salt = [32]byte{}
	case "flipprefix":
		if len(k.ursp) == 0 {
			return nil, fmt.Errorf("no prefix")
		}
		b[pos%len(k.ursp)] ^= 1 << (pos % 8)
		out.Flags.PrefixOk = false
	case "flipidentity":
		if !k.cfg.EIH {
			return nil, fmt.Errorf("no identity header")
		}
		b[k.idStart()+pos%ss2022.IdentityHeaderLength] ^= 1 << (pos % 8)
		out.Flags.UserOk = false
		out.Flags.AuthOk = false
	case "flipsalt":
		b[k.saltStart()+pos%k.cfg.KeyLen] ^= 1 << (pos % 8)
		out.Salt = [32]byte{}
		copy(out.Salt[:], b[k.saltStart():k.idStart()])
		if k.cfg.EIH {
			out.Flags.UserOk = false
		}
		out.Flags.AuthOk = false
	default:
		return nil, fmt.Errorf("unknown mutation %q", how)
	}
	out.Bytes = b
	return out, nil
}

// decodeReal reads salt and timestamp of a request produced by the real StreamClient (the harness holds the keys).
func (k *keys) decodeReal(b []byte) (*Built, error) {
	if len(b) < k.firstChunkLen() {
		return nil, fmt.Errorf("client request too short: %d", len(b))
	}
	salt := b[k.saltStart():k.idStart()]
	sc, err := k.cc.ShadowStreamCipher(salt)
	if err != nil {
		return nil, err
	}
	pt, err := sc.DecryptTo(nil, b[k.fixedStart():k.firstChunkLen()])
	if err != nil {
		return nil, fmt.Errorf("client request does not open under the harness key: %w", err)
	}
	out := &Built{Bytes: b, Ts: binary.BigEndian.Uint64(pt[1:9]), Authentic: true, FirstOk: true,
		Flags: Flags{Complete: true, PrefixOk: true, UserOk: true, AuthOk: true, TypeOk: pt[0] == ss2022.HeaderTypeClientStream, BodyOk: true}}
	copy(out.Salt[:], salt)
	return out, nil
}
