package main

import (
	"fmt"
	"os"
	"path/filepath"
	"regexp"
	"strings"
)

// The fixed pools the generator draws from. They are constants of the engine (not seed dependent), so that a
// replay file only has to name pool members.

// domainUniverse: every domain a request may name (targets) — built so that exact / suffix / keyword rules
// and label boundaries are all exercised.
var domainUniverse = []string{
	"a.test", "www.a.test", "deep.www.a.test", "xa.test", "a.test.evil", "b.test", "x.b.test",
	"c.example", "www.c.example", "tracker.ads.example", "ads.example", "noads.example", "plain", "unlisted.invalid",
	"f00.filler", "f15.filler", "f16.filler", "f17.filler", "f39.filler",
}

func filler(n int) []string {
	r := make([]string, n)
	for i := range r {
		r[i] = fmt.Sprintf("f%02d.filler", i)
	}
	return r
}

// domRule is one line of a domain-set text file: kind = domain | suffix | keyword | regexp.
type domRule struct {
	Kind string `json:"kind"`
	Val  string `json:"val"`
}

// poolDomSets: named domain sets, with rule counts below / at / above the matcher thresholds
// (MaxLinearDomains = 16 in domainset; the suffix and keyword matchers have their own).
var poolDomSets = map[string][]domRule{
	"ds-exact1":   {{Kind: "domain", Val: "a.test"}},
	"ds-suffix1":  {{Kind: "suffix", Val: "a.test"}},
	"ds-mixed":    {{Kind: "domain", Val: "b.test"}, {Kind: "suffix", Val: "c.example"}, {Kind: "keyword", Val: "ads"}},
	"ds-exact16":  rulesOf("domain", append([]string{"plain"}, filler(15)...)),
	"ds-exact17":  rulesOf("domain", append([]string{"plain"}, filler(16)...)),
	"ds-exact40":  rulesOf("domain", append([]string{"x.b.test"}, filler(39)...)),
	"ds-suffix17": rulesOf("suffix", append([]string{"test"}, filler(16)...)),
	"ds-suffix5":  rulesOf("suffix", []string{"www.a.test", "b.test", "example", "f00.filler", "nomatch.zz"}),
	"ds-keyword":  {{Kind: "keyword", Val: "www"}, {Kind: "keyword", Val: "filler"}},
}

func rulesOf(kind string, vals []string) []domRule {
	r := make([]domRule, len(vals))
	for i, v := range vals {
		r[i] = domRule{Kind: kind, Val: v}
	}
	return r
}

var poolDomSetNames = sortedKeys(poolDomSets)

// rulesMatch is the brute-force definition of a rule set, written from the documented meaning of the rule kinds
// (docs: "domain:" exact name; "suffix:" the name itself or any name ending in "." + suffix; "keyword:" substring;
// "regexp:" Go regular expression) — independent of package domainset.
func rulesMatch(rules []domRule, d string) bool {
	for _, r := range rules {
		switch r.Kind {
		case "domain":
			if d == r.Val {
				return true
			}
		case "suffix":
			if d == r.Val || strings.HasSuffix(d, "."+r.Val) {
				return true
			}
		case "keyword":
			if strings.Contains(d, r.Val) {
				return true
			}
		case "regexp":
			if regexp.MustCompile(r.Val).MatchString(d) {
				return true
			}
		}
	}
	return false
}

// labelUniverse: names over a small label vocabulary, so that suffix rules extend one another and targets exist that
// are covered only by the broader rule, sibling subdomains, the bare suffix itself, look-alikes without a label
// boundary, and names with leading / trailing dots.
var labelUniverse = []string{
	"com", "example.com", "www.example.com", "mail.example.com", "a.www.example.com", "b.example.com", "mail.b.example.com",
	"xexample.com", "wwwexample.com", "example.com.evil", "ads.example.com", "example.net", "www.example.net", "net", "other.org",
	"example.com.", ".example.com", "com.", "www.example.com.", "a.b", "b", "a.b.a.b",
}

// suffixRulePool: suffix rules that extend one another (every chain appears in the pool, so a random order gives
// narrow-before-broad as often as broad-before-narrow).
var suffixRulePool = []string{
	"com", "example.com", "www.example.com", "a.www.example.com", "mail.example.com", "b.example.com", "mail.b.example.com",
	"net", "example.net", "www.example.net", "org", "com.", "example.com.", "b", "a.b", "b.a.b",
}

var keywordRulePool = []string{"ads", "mail", "exam", "www", ".b", "evil"}
var regexpRulePool = []string{`^www\.`, `\.net$`, `^[ab]\.`, `example\.(com|net)$`, `^mail\.[a-z]+\.example`, `^$`}

// prefixPool: literal prefixes used in routes (some not in masked form; one IPv6 prefix that covers the
// IPv4-mapped range, which must NOT match a mapped address after Unmap).
var prefixPool = []string{
	"10.0.0.0/8", "10.0.0.0/24", "10.1.2.3/8", "1.2.3.4/32", "0.0.0.0/0", "192.168.0.0/16", "128.0.0.0/1",
	"2001:db8::/32", "::/0", "fd00::/8", "::1/128", "::ffff:0:0/96", "2001:db8:0:1::/64",
}

var poolPfxSets = map[string][]string{
	"ps-private": {"10.0.0.0/8", "172.16.0.0/12", "192.168.0.0/16", "fd00::/8"},
	"ps-one":     {"1.2.3.4/32"},
	"ps-v6":      {"2001:db8::/32", "::1/128"},
	"ps-all4":    {"0.0.0.0/0"},
	"ps-mapped":  {"::ffff:0:0/96"},
}

var poolPfxSetNames = sortedKeys(poolPfxSets)

// nestedPrefixPool: prefixes that contain one another (both families), IPv4-mapped forms of IPv4 prefixes, host routes.
var nestedPrefixPool = []string{
	"10.0.0.0/8", "10.0.0.0/16", "10.0.0.0/24", "10.0.0.1/32", "10.0.1.0/24", "10.128.0.0/9", "0.0.0.0/1", "1.2.3.4/31", "1.2.3.0/24",
	"2001:db8::/32", "2001:db8::/48", "2001:db8:0:1::/64", "2001:db8::1/128", "2001::/16", "fd00::/8", "fd00::1/128",
	"::ffff:10.0.0.0/104", "::ffff:1.2.3.4/128", "::ffff:0:0/96", "::/1",
}

// ipPool: addresses of requests and resolver answers.
var ipPool = []string{
	"10.0.0.1", "10.0.1.1", "10.255.255.255", "11.0.0.0", "1.2.3.4", "1.2.3.5", "192.168.1.1", "172.16.0.1", "8.8.8.8", "127.0.0.1",
	"200.1.1.1", "0.0.0.0", "255.255.255.255",
	"2001:db8::1", "2001:db8:0:1::5", "2001:db9::1", "fd00::1", "fe80::1", "::1", "::",
	"::ffff:10.0.0.1", "::ffff:1.2.3.4", "::ffff:8.8.8.8", "::fffe:10.0.0.1",
	"10.0.0.2", "10.0.2.1", "10.129.0.1", "1.2.3.200", "127.255.255.255", "128.0.0.1",
	"2001:db8:1::1", "2001:dead::1", "8000::1", "::ffff:10.0.0.2", "::ffff:10.129.0.1", "::ffff:11.0.0.1",
}

var userPool = []string{"alice", "bob", "carol", "", "Alice", "dave"}

func sortedKeys[V any](m map[string]V) []string {
	ks := make([]string, 0, len(m))
	for k := range m {
		ks = append(ks, k)
	}
	// insertion sort (tiny)
	for i := 1; i < len(ks); i++ {
		for j := i; j > 0 && ks[j] < ks[j-1]; j-- {
			ks[j], ks[j-1] = ks[j-1], ks[j]
		}
	}
	return ks
}

// writePool writes the pool's domain-set and prefix-set files (text format) into dir.
func writePool(dir string) error {
	for n, rules := range poolDomSets {
		var sb strings.Builder
		for _, r := range rules {
			sb.WriteString(r.Kind + ":" + r.Val + "\n")
		}
		if err := os.WriteFile(filepath.Join(dir, n+".txt"), []byte(sb.String()), 0o644); err != nil {
			return err
		}
	}
	for n, ps := range poolPfxSets {
		if err := os.WriteFile(filepath.Join(dir, n+".txt"), []byte(strings.Join(ps, "\n")+"\n"), 0o644); err != nil {
			return err
		}
	}
	return nil
}
