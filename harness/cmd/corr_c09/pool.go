package main

import (
	"fmt"
	"os"
	"path/filepath"
	"strings"
)

// The fixed pools the generator draws from. They are constants of the engine (not seed dependent), so that a
// replay file only has to name pool members.

// domainUniverse: every domain a request may name (targets) — built so that exact / suffix / keyword rules
// and label boundaries are all exercised.
var domainUniverse = []string{
	"a.test", "www.a.test", "deep.www.a.test", "xa.test", "a.test.evil", "b.test", "x.b.test",
	"c.example", "www.c.example", "tracker.ads.example", "ads.example", "noads.example", "plain", "unlisted.invalid",
	"f00.filler", "f15.filler", "f16.filler", "f17.filler", "f39.filler",
}

func filler(n int) []string {
	r := make([]string, n)
	for i := range r {
		r[i] = fmt.Sprintf("f%02d.filler", i)
	}
	return r
}

type domRule struct{ kind, val string } // domain | suffix | keyword

// poolDomSets: named domain sets, with rule counts below / at / above the matcher thresholds
// (MaxLinearDomains = 16 in domainset; the suffix and keyword matchers have their own).
var poolDomSets = map[string][]domRule{
	"ds-exact1":   {{"domain", "a.test"}},
	"ds-suffix1":  {{"suffix", "a.test"}},
	"ds-mixed":    {{"domain", "b.test"}, {"suffix", "c.example"}, {"keyword", "ads"}},
	"ds-exact16":  rulesOf("domain", append([]string{"plain"}, filler(15)...)),
	"ds-exact17":  rulesOf("domain", append([]string{"plain"}, filler(16)...)),
	"ds-exact40":  rulesOf("domain", append([]string{"x.b.test"}, filler(39)...)),
	"ds-suffix17": rulesOf("suffix", append([]string{"test"}, filler(16)...)),
	"ds-suffix5":  rulesOf("suffix", []string{"www.a.test", "b.test", "example", "f00.filler", "nomatch.zz"}),
	"ds-keyword":  {{"keyword", "www"}, {"keyword", "filler"}},
}

func rulesOf(kind string, vals []string) []domRule {
	r := make([]domRule, len(vals))
	for i, v := range vals {
		r[i] = domRule{kind, v}
	}
	return r
}

var poolDomSetNames = sortedKeys(poolDomSets)

// poolDomSetMatch is the brute-force definition of a rule set (written from the domain-set rule documentation):
// domain = equal; suffix = equal, or ends with "." + suffix; keyword = substring.
func poolDomSetMatch(name, d string) bool {
	for _, r := range poolDomSets[name] {
		switch r.kind {
		case "domain":
			if d == r.val {
				return true
			}
		case "suffix":
			if d == r.val || strings.HasSuffix(d, "."+r.val) {
				return true
			}
		case "keyword":
			if strings.Contains(d, r.val) {
				return true
			}
		}
	}
	return false
}

// prefixPool: literal prefixes used in routes (some not in masked form; one IPv6 prefix that covers the
// IPv4-mapped range, which must NOT match a mapped address after Unmap).
var prefixPool = []string{
	"10.0.0.0/8", "10.0.0.0/24", "10.1.2.3/8", "1.2.3.4/32", "0.0.0.0/0", "192.168.0.0/16", "128.0.0.0/1",
	"2001:db8::/32", "::/0", "fd00::/8", "::1/128", "::ffff:0:0/96", "2001:db8:0:1::/64",
}

var poolPfxSets = map[string][]string{
	"ps-private": {"10.0.0.0/8", "172.16.0.0/12", "192.168.0.0/16", "fd00::/8"},
	"ps-one":     {"1.2.3.4/32"},
	"ps-v6":      {"2001:db8::/32", "::1/128"},
	"ps-all4":    {"0.0.0.0/0"},
	"ps-mapped":  {"::ffff:0:0/96"},
}

var poolPfxSetNames = sortedKeys(poolPfxSets)

// ipPool: addresses of requests and resolver answers.
var ipPool = []string{
	"10.0.0.1", "10.0.1.1", "10.255.255.255", "11.0.0.0", "1.2.3.4", "1.2.3.5", "192.168.1.1", "172.16.0.1", "8.8.8.8", "127.0.0.1",
	"200.1.1.1", "0.0.0.0", "255.255.255.255",
	"2001:db8::1", "2001:db8:0:1::5", "2001:db9::1", "fd00::1", "fe80::1", "::1", "::",
	"::ffff:10.0.0.1", "::ffff:1.2.3.4", "::ffff:8.8.8.8", "::fffe:10.0.0.1",
}

var userPool = []string{"alice", "bob", "carol", "", "Alice", "dave"}

func sortedKeys[V any](m map[string]V) []string {
	ks := make([]string, 0, len(m))
	for k := range m {
		ks = append(ks, k)
	}
	// insertion sort (tiny)
	for i := 1; i < len(ks); i++ {
		for j := i; j > 0 && ks[j] < ks[j-1]; j-- {
			ks[j], ks[j-1] = ks[j-1], ks[j]
		}
	}
	return ks
}

// writePool writes the pool's domain-set and prefix-set files (text format) into dir.
func writePool(dir string) error {
	for n, rules := range poolDomSets {
		var sb strings.Builder
		for _, r := range rules {
			sb.WriteString(r.kind + ":" + r.val + "\n")
		}
		if err := os.WriteFile(filepath.Join(dir, n+".txt"), []byte(sb.String()), 0o644); err != nil {
			return err
		}
	}
	for n, ps := range poolPfxSets {
		if err := os.WriteFile(filepath.Join(dir, n+".txt"), []byte(strings.Join(ps, "\n")+"\n"), 0o644); err != nil {
			return err
		}
	}
	return nil
}
