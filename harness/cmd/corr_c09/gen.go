package main

import (
	"fmt"
	"strings"

	"ssvharness/internal/common"
)

var clientPool = []string{"c0", "c1", "c2", "c3", "c4", "c5"}

func subset(r *common.Rng, xs []string, lo, hi int) []string {
	n := r.Range(lo, hi)
	if n > len(xs) {
		n = len(xs)
	}
	perm := append([]string(nil), xs...)
	for i := range perm {
		j := i + r.Intn(len(perm)-i)
		perm[i], perm[j] = perm[j], perm[i]
	}
	return perm[:n]
}

// genPorts produces (ports, items) that force one of the port representations:
// mode 0 single port; 1 few ranges (2..16, often exactly 16); 2 many ranges (17..40);
// 3 items that overlap / touch / repeat (so that counts and range counts differ from the item count);
// 4 everything (pointless); 5 a semantically invalid item.
func genPorts(r *common.Rng) (ports []int, items []PortItem, mode int) {
	mode = common.Pick(r, []int{0, 0, 1, 1, 1, 2, 2, 2, 2, 3, 3, 3, 4, 5})
	edge := func() int { return common.Pick(r, []int{1, 2, 63, 64, 65, 80, 443, 1023, 1024, 32767, 32768, 65534, 65535}) }
	spaced := func(n int) []int { // n disjoint, non-adjacent ports
		start := common.Pick(r, []int{1, 1, 2, 60, 1000, 65535 - 2*n, 65535 - 2*n + 1})
		if start < 1 {
			start = 1
		}
		step := common.Pick(r, []int{2, 2, 3, 64, 100})
		if start+step*(n-1) > 65535 {
			step = 2
			if start+step*(n-1) > 65535 {
				start = 65535 - step*(n-1)
			}
		}
		ps := make([]int, n)
		for i := range ps {
			ps[i] = start + i*step
		}
		return ps
	}
	put := func(p int) {
		if r.Bool() {
			ports = append(ports, p)
		} else {
			items = append(items, PortItem{From: p})
		}
	}
	switch mode {
	case 0:
		p := edge()
		put(p)
		if r.Chance(1, 3) { // the same port several times is still one port
			put(p)
			items = append(items, PortItem{From: p})
		}
	case 1, 2:
		n := r.Range(2, 16)
		if mode == 1 && r.Chance(1, 3) {
			n = 16
		}
		if mode == 2 {
			n = r.Range(17, 40)
			if r.Chance(1, 3) {
				n = 17
			}
		}
		for _, p := range spaced(n) {
			if r.Chance(1, 4) && p < 65535 {
				// a real range; keep it from touching the next port
				items = append(items, PortItem{From: p, To: p + 1, IsRange: true})
				if false {
					_ = p
				}
			} else {
				put(p)
			}
		}
		// ranges of width 2 may touch the next spaced port when step == 2: that merges runs, which is fine
		// (the representation is then decided by the merged count, on both sides).
	case 3:
		base := edge()
		if base > 65000 {
			base = 65000
		}
		items = append(items, PortItem{From: base, To: base + 10, IsRange: true}, PortItem{From: base + 11, To: base + 20, IsRange: true},
			PortItem{From: base + 5, To: base + 15, IsRange: true})
		put(base + 3)
		k := r.Range(0, 18)
		for _, p := range spaced(k + 1)[1:] {
			put(p)
		}
		if r.Chance(1, 3) {
			items = append(items, PortItem{From: 1, To: 65535, IsRange: true})
			if r.Chance(1, 2) {
				items[len(items)-1] = PortItem{From: 2, To: 65535, IsRange: true} // 65534 ports: one range, not pointless
			}
		}
	case 4:
		items = append(items, PortItem{From: 1, To: 65535, IsRange: true})
		if r.Bool() {
			items = []PortItem{{From: 1, To: 30000, IsRange: true}, {From: 30001, To: 65535, IsRange: true}}
		}
	case 5:
		switch r.Intn(5) {
		case 0:
			ports = append(ports, 0)
		case 1:
			items = append(items, PortItem{From: 0})
		case 2:
			items = append(items, PortItem{From: 0, To: 9, IsRange: true})
		case 3:
			items = append(items, PortItem{From: 9, To: 9, IsRange: true})
		default:
			items = append(items, PortItem{From: 10, To: 3, IsRange: true})
		}
		if r.Bool() {
			put(edge())
		}
	}
	return
}

var rawMalformed = []string{",", "80,,443", "80, 443", " 80", "80 ", "+80", "-80", "80-", "80-80", "90-80", "0", "0-5", "65536", "1-65536",
	"1-2-3", "0x50", "80;443", "a", "1e2", "99999999999999999999", "443,0", "1-5,7-6", "10-20,", ",5", "5,,", "\t5", "5\r", "00", "1_0"}

// rawify rewrites a well-formed item list as written text in an unusual but equivalent way: leading zeros, a trailing
// comma, a port written as part of an overlapping range, or (malformed = true) inserts a malformed piece somewhere.
func rawify(r *common.Rng, items []PortItem, malformed bool) *string {
	pieces := make([]string, len(items))
	for i, it := range items {
		z := ""
		if r.Chance(1, 3) {
			z = common.Pick(r, []string{"0", "00", "000000"})
		}
		if it.IsRange {
			pieces[i] = fmt.Sprintf("%s%d-%s%d", z, it.From, z, it.To)
		} else {
			pieces[i] = fmt.Sprintf("%s%d", z, it.From)
		}
	}
	if malformed {
		bad := common.Pick(r, rawMalformed)
		k := r.Intn(len(pieces) + 1)
		pieces = append(pieces[:k], append([]string{bad}, pieces[k:]...)...)
	}
	s := strings.Join(pieces, ",")
	if !malformed && len(pieces) > 0 && r.Chance(1, 4) {
		s += ","
	}
	return &s
}

func genDomainList(r *common.Rng) []string {
	// around MaxLinearDomains (16): linear matcher below, map matcher above
	n := common.Pick(r, []int{1, 1, 2, 3, 15, 16, 17, 18, 30})
	ds := subset(r, domainUniverse, 1, 3)
	for i := 0; len(ds) < n; i++ {
		ds = append(ds, fmt.Sprintf("g%02d.filler", i))
	}
	return ds
}

func genRoute(r *common.Rng, c *Case, idx int, invalid bool) RouteSpec {
	rt := RouteSpec{Name: fmt.Sprintf("r%d", idx)}
	rt.Network = common.Pick(r, []string{"", "", "", "tcp", "udp"})
	// client
	switch {
	case r.Chance(1, 6):
		rt.Client = "reject"
	default:
		var cands []string
		switch rt.Network {
		case "tcp":
			cands = c.TCPClients
		case "udp":
			cands = c.UDPClients
		default:
			for _, n := range c.TCPClients {
				if contains(c.UDPClients, n) {
					cands = append(cands, n)
				}
			}
		}
		if len(cands) == 0 {
			rt.Client = "reject"
		} else {
			rt.Client = common.Pick(r, cands)
		}
	}
	present := func(num, den int) bool { return r.Chance(num, den) }
	if present(1, 4) && len(c.Servers) > 0 {
		rt.FromServers = subset(r, c.Servers, 1, 2)
		rt.InvFromServers = r.Chance(1, 3)
	}
	if present(1, 4) {
		rt.FromUsers = subset(r, userPool[:3], 1, 2)
		if r.Chance(1, 8) {
			rt.FromUsers = append(rt.FromUsers, "")
		}
		rt.InvFromUsers = r.Chance(1, 3)
	}
	if present(1, 3) {
		rt.FromPorts, rt.FromRanges, _ = genPorts(r)
		for invalidPorts(rt.FromPorts, rt.FromRanges) && !invalid {
			rt.FromPorts, rt.FromRanges, _ = genPorts(r)
		}
		rt.InvFromPorts = r.Chance(1, 3)
		if len(rt.FromRanges) > 0 && r.Chance(1, 4) && !invalidPorts(rt.FromPorts, rt.FromRanges) {
			rt.FromRangesRaw = rawify(r, rt.FromRanges, false)
		}
	}
	if present(1, 3) {
		if r.Bool() {
			rt.FromPrefixes = subset(r, common.Pick(r, [][]string{prefixPool, nestedPrefixPool}), 1, 3)
		}
		if len(c.PfxSets) > 0 && (len(rt.FromPrefixes) == 0 || r.Chance(1, 3)) {
			rt.FromPfxSets = subset(r, c.PfxSets, 1, 2)
		}
		if len(rt.FromPrefixes) == 0 && len(rt.FromPfxSets) == 0 {
			rt.FromPrefixes = subset(r, prefixPool, 1, 2)
		}
		rt.InvFromPfx = r.Chance(1, 3)
	}
	if present(2, 5) {
		rt.ToPorts, rt.ToRanges, _ = genPorts(r)
		for invalidPorts(rt.ToPorts, rt.ToRanges) && !invalid {
			rt.ToPorts, rt.ToRanges, _ = genPorts(r)
		}
		rt.InvToPorts = r.Chance(1, 3)
		if len(rt.ToRanges) > 0 && r.Chance(1, 4) && !invalidPorts(rt.ToPorts, rt.ToRanges) {
			rt.ToRangesRaw = rawify(r, rt.ToRanges, false)
		}
	}
	hasResolvers := len(c.Resolvers) > 0
	if present(2, 5) {
		if r.Chance(2, 3) {
			rt.ToDomains = genDomainList(r)
		}
		if len(c.DomSets) > 0 && (len(rt.ToDomains) == 0 || r.Chance(1, 3)) {
			rt.ToDomSets = subset(r, c.DomSets, 1, 2)
		}
		if len(rt.ToDomains) == 0 && len(rt.ToDomSets) == 0 {
			rt.ToDomains = genDomainList(r)
		}
		rt.InvToDomains = r.Chance(1, 3)
		if hasResolvers && r.Chance(1, 3) {
			if r.Bool() || len(c.PfxSets) == 0 {
				rt.ExpPfx = subset(r, prefixPool, 1, 2)
			} else {
				rt.ExpPfxSets = subset(r, c.PfxSets, 1, 2)
			}
			rt.InvExpPfx = r.Chance(1, 3)
		}
	}
	if present(2, 5) {
		rt.DisableResolve = r.Chance(1, 3) || !hasResolvers
		if r.Bool() {
			rt.ToPrefixes = subset(r, common.Pick(r, [][]string{prefixPool, nestedPrefixPool}), 1, 3)
		}
		if len(c.PfxSets) > 0 && (len(rt.ToPrefixes) == 0 || r.Chance(1, 3)) {
			rt.ToPfxSets = subset(r, c.PfxSets, 1, 2)
		}
		if len(rt.ToPrefixes) == 0 && len(rt.ToPfxSets) == 0 {
			rt.ToPrefixes = subset(r, prefixPool, 1, 2)
		}
		rt.InvToPfx = r.Chance(1, 3)
	} else if r.Chance(1, 10) {
		rt.DisableResolve = true
	}
	if hasResolvers && r.Chance(1, 4) && len(c.resolverMapNames()) > 0 {
		rt.Resolver = common.Pick(r, c.resolverMapNames())
	}
	if invalid && r.Chance(1, 4) {
		// a malformed piece in the written port-range string
		items := []PortItem{{From: 80}, {From: 8000, To: 8100, IsRange: true}}[:r.Range(0, 2)]
		if r.Bool() {
			rt.FromPorts, rt.FromRanges, rt.FromRangesRaw = nil, nil, rawify(r, items, true)
		} else {
			rt.ToPorts, rt.ToRanges, rt.ToRangesRaw = nil, nil, rawify(r, items, true)
		}
	} else if invalid && r.Chance(1, 3) {
		// only the port lists are wrong (zero port, empty or inverted range, every port)
		for {
			ports, items, _ := genPorts(r)
			if invalidPorts(ports, items) {
				if r.Bool() {
					rt.FromPorts, rt.FromRanges = ports, items
				} else {
					rt.ToPorts, rt.ToRanges = ports, items
				}
				break
			}
		}
	} else if invalid {
		switch r.Intn(12) {
		case 0:
			rt.Name = common.Pick(r, []string{"", "default"})
		case 1:
			rt.FromGeo = []string{"US"}
		case 2:
			rt.ToGeo = []string{"CN"}
			rt.InvToGeo = r.Bool()
		case 3:
			rt.ExpGeo = []string{"JP"}
		case 4:
			rt.ExpPfx = []string{"10.0.0.0/8"}
			rt.ToDomains, rt.ToDomSets = nil, nil
		case 5:
			rt.Resolver = "nosuch"
		case 6:
			rt.Network = common.Pick(r, []string{"TCP", "tcp4", "ip"})
		case 7:
			rt.Client = "nosuch"
		case 8:
			rt.FromServers = append(rt.FromServers, "nosuch")
		case 9:
			rt.ToPfxSets = append(rt.ToPfxSets, "nosuch")
			if r.Bool() {
				rt.FromPfxSets = append(rt.FromPfxSets, "ps-undeclared")
			}
		case 10:
			rt.ToDomSets = append(rt.ToDomSets, "nosuch")
		default:
			// a client that exists for one network only
			rt.Network = ""
			only := ""
			for _, n := range c.TCPClients {
				if !contains(c.UDPClients, n) {
					only = n
				}
			}
			for _, n := range c.UDPClients {
				if !contains(c.TCPClients, n) {
					only = n
				}
			}
			if only != "" {
				rt.Client = only
			} else {
				rt.Client = "nosuch"
			}
		}
	}
	return rt
}

func invalidPorts(ports []int, items []PortItem) bool {
	n := 0
	seen := map[int]bool{}
	mark := func(p int) {
		if !seen[p] {
			seen[p] = true
			n++
		}
	}
	for _, p := range ports {
		if p == 0 {
			return true
		}
		mark(p)
	}
	for _, it := range items {
		if it.From == 0 || (it.IsRange && it.From >= it.To) {
			return true
		}
		if it.IsRange {
			if it.To-it.From > 60000 {
				// big ranges: count exactly only when needed
				for p := it.From; p <= it.To; p++ {
					mark(p)
				}
			} else {
				for p := it.From; p <= it.To; p++ {
					mark(p)
				}
			}
		} else {
			mark(it.From)
		}
	}
	return n == 65535
}

// genDomSet builds a domain-set rule list over the label vocabulary: suffix rules that extend one another in random
// order (narrow before broad as often as broad before narrow), duplicates, counts across the matcher thresholds
// (4/5 suffixes, 16/17 domains), keyword and regexp rules.
func genDomSet(r *common.Rng) []domRule {
	var rules []domRule
	nsuf := common.Pick(r, []int{0, 1, 2, 2, 3, 4, 5, 5, 6, 9})
	var sufs []string
	if nsuf > 0 && r.Chance(2, 3) {
		// a chain: every suffix of one name, then shuffled
		name := common.Pick(r, []string{"a.www.example.com", "mail.b.example.com", "www.example.net", "b.a.b", "www.example.com."})
		for i := 0; i < len(name); i++ {
			if i == 0 || name[i-1] == '.' {
				if name[i:] != "" {
					sufs = append(sufs, name[i:])
				}
			}
		}
		sufs = subset(r, sufs, 2, len(sufs))
	}
	for len(sufs) < nsuf {
		sufs = append(sufs, common.Pick(r, suffixRulePool))
	}
	if len(sufs) > 1 && r.Chance(1, 4) {
		sufs = append(sufs, sufs[r.Intn(len(sufs))]) // a duplicate
	}
	sufs = subset(r, sufs, len(sufs), len(sufs)) // shuffle
	ndom := common.Pick(r, []int{0, 0, 1, 2, 15, 16, 17, 18})
	var doms []string
	for i := 0; i < ndom; i++ {
		if i < 3 {
			doms = append(doms, common.Pick(r, labelUniverse))
		} else {
			doms = append(doms, fmt.Sprintf("h%02d.filler", i))
		}
	}
	var kws, res []string
	if r.Chance(1, 4) {
		kws = subset(r, keywordRulePool, 1, 2)
	}
	if r.Chance(1, 4) {
		res = subset(r, regexpRulePool, 1, 2)
	}
	if len(sufs)+len(doms)+len(kws)+len(res) == 0 {
		sufs = []string{common.Pick(r, suffixRulePool)}
	}
	// the kinds may be interleaved in the file
	for _, v := range sufs {
		rules = append(rules, domRule{"suffix", v})
	}
	for _, v := range doms {
		rules = append(rules, domRule{"domain", v})
	}
	for _, v := range kws {
		rules = append(rules, domRule{"keyword", v})
	}
	for _, v := range res {
		rules = append(rules, domRule{"regexp", v})
	}
	if r.Chance(1, 3) {
		for i := range rules {
			j := i + r.Intn(len(rules)-i)
			rules[i], rules[j] = rules[j], rules[i]
		}
	}
	return rules
}

// genPfxSet: nested / overlapping prefixes in random order, duplicates, IPv4-mapped forms.
func genPfxSet(r *common.Rng) []string {
	ps := subset(r, nestedPrefixPool, 1, 6)
	if r.Chance(1, 4) {
		ps = append(ps, ps[r.Intn(len(ps))])
	}
	return ps
}

func genResolve(r *common.Rng, c *Case) {
	c.Resolve = map[string]map[string]string{}
	names := append([]string(nil), c.Resolvers...)
	for _, n := range c.resolverMapNames() {
		if !contains(names, n) {
			names = append(names, n)
		}
	}
	for _, n := range names {
		t := map[string]string{}
		style := r.Intn(4) // 0 mostly answers, 1 mixed, 2 mostly ErrLookup, 3 mostly failures
		for _, d := range append(append([]string(nil), domainUniverse...), labelUniverse...) {
			var v string
			k := r.Intn(10)
			switch style {
			case 0:
				if k < 8 {
					v = "a"
				} else if k == 8 {
					v = "l"
				} else {
					v = "f"
				}
			case 1:
				if k < 4 {
					v = "a"
				} else if k < 7 {
					v = "l"
				} else {
					v = "f"
				}
			case 2:
				if k < 8 {
					v = "l"
				} else {
					v = "a"
				}
			default:
				if k < 6 {
					v = "f"
				} else if k < 8 {
					v = "l"
				} else {
					v = "a"
				}
			}
			switch v {
			case "a":
				v = "a" + common.Pick(r, ipPool)
			case "f":
				v = common.Pick(r, []string{"f:noaddr", "f:noaddr", "f:other", "f:wrapped"})
			}
			if v != "l" || r.Bool() { // missing entries are ErrLookup as well
				t[d] = v
			}
		}
		c.Resolve[n] = t
	}
}

// boundary ports of a route's port conditions (edges ±1)
func portEdges(rt RouteSpec, from bool) []int {
	ports, items := rt.ToPorts, rt.toItems()
	if from {
		ports, items = rt.FromPorts, rt.fromItems()
	}
	var es []int
	add := func(p int) {
		for _, d := range []int{-1, 0, 1} {
			if p+d >= 0 && p+d <= 65535 {
				es = append(es, p+d)
			}
		}
	}
	for _, p := range ports {
		add(p)
	}
	for _, it := range items {
		add(it.From)
		if it.IsRange {
			add(it.To)
		}
	}
	return es
}

func genReq(r *common.Rng, c *Case) ReqSpec {
	q := ReqSpec{Net: common.Pick(r, []string{"tcp", "udp"})}
	if len(c.Servers) > 0 {
		q.Server = r.Intn(len(c.Servers))
	}
	q.User = common.Pick(r, userPool)
	q.Src = common.Pick(r, ipPool)
	pickPort := func(from bool) int {
		var edges []int
		for _, rt := range c.Routes {
			edges = append(edges, portEdges(rt, from)...)
		}
		switch k := r.Intn(10); {
		case k < 2:
			return common.Pick(r, []int{0, 0, 1, 65535})
		case k < 8 && len(edges) > 0:
			return common.Pick(r, edges)
		default:
			return r.Intn(65536)
		}
	}
	q.SrcPort = pickPort(true)
	q.DstPort = pickPort(false)
	if r.Chance(3, 5) {
		// domain target, biased towards names the routes mention
		var named []string
		for _, rt := range c.Routes {
			for _, d := range rt.ToDomains {
				if contains(domainUniverse, d) {
					named = append(named, d)
				}
			}
		}
		var related []string // names around the suffix rules of the referenced sets: the rule itself, a sibling, a child, a look-alike
		for _, rt := range c.Routes {
			for _, n := range rt.ToDomSets {
				for _, rule := range c.domSetRules(n) {
					if rule.Kind == "suffix" || rule.Kind == "domain" {
						related = append(related, rule.Val, "mail."+rule.Val, "x"+rule.Val)
						if i := strings.IndexByte(rule.Val, '.'); i >= 0 {
							related = append(related, rule.Val[i+1:], "sib."+rule.Val[i+1:])
						}
					}
				}
			}
		}
		switch k := r.Intn(10); {
		case k < 3 && len(named) > 0:
			q.DstDom = common.Pick(r, named)
		case k < 6 && len(related) > 0:
			q.DstDom = common.Pick(r, related)
		case k < 8:
			q.DstDom = common.Pick(r, labelUniverse)
		default:
			q.DstDom = common.Pick(r, domainUniverse)
		}
		if q.DstDom == "" || len(q.DstDom) > 255 {
			q.DstDom = "example.com"
		}
	} else {
		q.DstIP = common.Pick(r, ipPool)
	}
	return q
}

func genCase(r *common.Rng, nreq int) Case {
	var c Case
	// environment
	c.TCPClients = subset(r, clientPool, 0, 5)
	c.UDPClients = subset(r, clientPool, 0, 5)
	if r.Chance(1, 2) { // mostly the same clients for both networks
		c.UDPClients = append([]string(nil), c.TCPClients...)
	}
	if r.Chance(1, 8) {
		c.TCPClients = c.TCPClients[:min(1, len(c.TCPClients))]
	}
	c.Servers = []string{"s0", "s1", "s2", "s3"}[:r.Range(1, 4)]
	c.Resolvers = []string{"dns1", "dns2", "dns3"}[:common.Pick(r, []int{0, 1, 1, 2, 2, 3})]
	if len(c.Resolvers) > 0 && r.Chance(1, 6) {
		// resolverMap differs from the slice: a name only in the map, and/or one only in the slice
		m := append([]string(nil), c.Resolvers...)
		if r.Bool() {
			m = m[1:]
		}
		if r.Bool() {
			m = append(m, "dnsX")
		}
		c.ResolverMap = m
	}
	genResolve(r, &c)
	c.DomSets = subset(r, poolDomSetNames, 0, 3)
	c.PfxSets = subset(r, poolPfxSetNames, 0, 2)
	for i, n := 0, r.Range(0, 3); i < n; i++ {
		name := fmt.Sprintf("cds%d", i)
		if c.CustomDomSets == nil {
			c.CustomDomSets = map[string][]domRule{}
		}
		c.CustomDomSets[name] = genDomSet(r)
		c.DomSets = append(c.DomSets, name)
		if r.Chance(1, 4) {
			c.GobDomSets = append(c.GobDomSets, name)
		}
	}
	for i, n := 0, r.Range(0, 2); i < n; i++ {
		name := fmt.Sprintf("cps%d", i)
		if c.CustomPfxSets == nil {
			c.CustomPfxSets = map[string][]string{}
		}
		c.CustomPfxSets[name] = genPfxSet(r)
		c.PfxSets = append(c.PfxSets, name)
	}
	def := func(clients []string) string {
		switch k := r.Intn(6); {
		case k == 0:
			return "reject"
		case k <= 2 || len(clients) == 0:
			return ""
		default:
			return common.Pick(r, clients)
		}
	}
	c.DefTCP = def(c.TCPClients)
	c.DefUDP = def(c.UDPClients)
	if r.Chance(1, 40) {
		c.DefTCP = "nosuch"
	}
	nroutes := r.Range(0, 6)
	bad := -1
	if r.Chance(1, 10) && nroutes > 0 {
		bad = r.Intn(nroutes)
	}
	for i := 0; i < nroutes; i++ {
		c.Routes = append(c.Routes, genRoute(r, &c, i, i == bad))
	}
	for i := 0; i < nreq; i++ {
		c.Requests = append(c.Requests, genReq(r, &c))
	}
	return c
}
