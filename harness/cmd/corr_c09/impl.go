package main

import (
	"context"
	"errors"
	"fmt"
	"net/netip"
	"os"
	"path/filepath"
	"strings"

	"ssvharness/internal/common"

	"github.com/database64128/shadowsocks-go/conn"
	"github.com/database64128/shadowsocks-go/dns"
	"github.com/database64128/shadowsocks-go/domainset"
	"github.com/database64128/shadowsocks-go/netio"
	"github.com/database64128/shadowsocks-go/portset"
	"github.com/database64128/shadowsocks-go/prefixset"
	"github.com/database64128/shadowsocks-go/router"
	"github.com/database64128/shadowsocks-go/zerocopy"
	"go.uber.org/zap"
	"go.uber.org/zap/zapcore"
)

// ---------- harness fakes ----------

type fakeTCPClient struct{ name string }

func (f *fakeTCPClient) DialStream(ctx context.Context, addr conn.Addr, payload []byte) (netio.Conn, error) {
	return nil, errors.New("fake client")
}
func (f *fakeTCPClient) NewStreamDialer() (netio.StreamDialer, netio.StreamDialerInfo) {
	return f, netio.StreamDialerInfo{Name: f.name}
}

type fakeUDPClient struct{ name string }

func (f *fakeUDPClient) Info() zerocopy.UDPClientInfo { return zerocopy.UDPClientInfo{Name: f.name} }
func (f *fakeUDPClient) NewSession(ctx context.Context) (zerocopy.UDPClientSessionInfo, zerocopy.UDPClientSession, error) {
	return zerocopy.UDPClientSessionInfo{}, zerocopy.UDPClientSession{}, errors.New("fake client")
}

var (
	errFakeOther   = errors.New("fake:other")
	errFakeWrapped = fmt.Errorf("fake:wrapped: %w", dns.ErrLookup)
)

// fakeResolver answers from a table: "a<ip>" | "l" | "f:noaddr" | "f:other" | "f:wrapped"; missing = "l".
type fakeResolver struct {
	name  string
	table map[string]string
}

func (r *fakeResolver) LookupIP(ctx context.Context, name string) (netip.Addr, error) {
	v, ok := r.table[name]
	if !ok {
		return netip.Addr{}, dns.ErrLookup
	}
	switch {
	case strings.HasPrefix(v, "a"):
		return netip.MustParseAddr(v[1:]), nil
	case v == "f:noaddr":
		return netip.Addr{}, dns.ErrDomainNoAssociatedIPs
	case v == "f:other":
		return netip.Addr{}, errFakeOther
	case v == "f:wrapped":
		return netip.Addr{}, errFakeWrapped
	default:
		return netip.Addr{}, dns.ErrLookup
	}
}

func (r *fakeResolver) LookupIPs(ctx context.Context, name string) ([]netip.Addr, error) {
	ip, err := r.LookupIP(ctx, name)
	if err != nil {
		return nil, err
	}
	return []netip.Addr{ip}, nil
}

// routeCore is a zap core that remembers the "route" field of the router's debug message
// ("Matched route for TCP connection" / "... UDP session"): the name of the route that Router.match returned.
type routeCore struct{ last *string }

func (c routeCore) Enabled(zapcore.Level) bool          { return true }
func (c routeCore) With([]zapcore.Field) zapcore.Core { return c }
func (c routeCore) Check(e zapcore.Entry, ce *zapcore.CheckedEntry) *zapcore.CheckedEntry {
	return ce.AddCore(e, c)
}
func (c routeCore) Write(e zapcore.Entry, fs []zapcore.Field) error {
	for _, f := range fs {
		if f.Key == "route" {
			if st, ok := f.Interface.(fmt.Stringer); ok {
				*c.last = st.String()
			}
		}
	}
	return nil
}
func (c routeCore) Sync() error { return nil }

// implRouter is the real router plus the place where its logger drops the matched route's name.
type implRouter struct {
	r     *router.Router
	route *string
}

// ---------- the real router ----------

func (r RouteSpec) config() (rc router.RouteConfig, err error) {
	rc = router.RouteConfig{
		Name: r.Name, Network: r.Network, Client: r.Client, Resolver: r.Resolver,
		FromServers: r.FromServers, FromUsers: r.FromUsers, FromPrefixSets: r.FromPfxSets, FromGeoIPCountries: r.FromGeo,
		ToDomains: r.ToDomains, ToDomainSets: r.ToDomSets,
		ToMatchedDomainExpectedPrefixSets: r.ExpPfxSets, ToMatchedDomainExpectedGeoIPCountries: r.ExpGeo,
		ToPrefixSets: r.ToPfxSets, ToGeoIPCountries: r.ToGeo,
		DisableNameResolutionForIPRules: r.DisableResolve,
		InvertFromServers:               r.InvFromServers, InvertFromUsers: r.InvFromUsers, InvertFromPrefixes: r.InvFromPfx,
		InvertFromGeoIPCountries: r.InvFromGeo, InvertFromPorts: r.InvFromPorts, InvertToDomains: r.InvToDomains,
		InvertToMatchedDomainExpectedPrefixes:       r.InvExpPfx,
		InvertToMatchedDomainExpectedGeoIPCountries: r.InvExpGeo,
		InvertToPrefixes:                            r.InvToPfx, InvertToGeoIPCountries: r.InvToGeo, InvertToPorts: r.InvToPorts,
	}
	for _, p := range r.FromPorts {
		if p < 0 || p > 65535 {
			return rc, fmt.Errorf("port %d does not fit uint16", p)
		}
		rc.FromPorts = append(rc.FromPorts, uint16(p))
	}
	for _, p := range r.ToPorts {
		if p < 0 || p > 65535 {
			return rc, fmt.Errorf("port %d does not fit uint16", p)
		}
		rc.ToPorts = append(rc.ToPorts, uint16(p))
	}
	rc.FromPortRanges = r.fromRangeString()
	rc.ToPortRanges = r.toRangeString()
	for _, s := range r.FromPrefixes {
		rc.FromPrefixes = append(rc.FromPrefixes, netip.MustParsePrefix(s))
	}
	for _, s := range r.ExpPfx {
		rc.ToMatchedDomainExpectedPrefixes = append(rc.ToMatchedDomainExpectedPrefixes, netip.MustParsePrefix(s))
	}
	for _, s := range r.ToPrefixes {
		rc.ToPrefixes = append(rc.ToPrefixes, netip.MustParsePrefix(s))
	}
	return rc, nil
}

type implEnv struct {
	tcp map[string]netio.StreamClient
	udp map[string]zerocopy.UDPClient
}

// buildImpl builds the real router through router.Config.Router.
func buildImpl(c Case, poolDir string) (*implRouter, string, any) {
	var (
		r    *router.Router
		berr error
	)
	matched := new(string)
	pan := common.Safely(func() {
		cfg := router.Config{DefaultTCPClientName: c.DefTCP, DefaultUDPClientName: c.DefUDP}
		// sets generated for this case live in a directory of their own (the router reads them at load time only)
		caseDir := ""
		if len(c.CustomDomSets) > 0 || len(c.CustomPfxSets) > 0 {
			var err error
			if caseDir, err = os.MkdirTemp(poolDir, "case-"); err != nil {
				berr = err
				return
			}
			defer os.RemoveAll(caseDir)
		}
		for _, n := range c.DomSets {
			rules, custom := c.CustomDomSets[n]
			if !custom {
				cfg.DomainSets = append(cfg.DomainSets, domainset.Config{Name: n, Type: "text", Path: filepath.Join(poolDir, n+".txt")})
				continue
			}
			var sb strings.Builder
			for _, r := range rules {
				sb.WriteString(r.Kind + ":" + r.Val + "\n")
			}
			path, typ := filepath.Join(caseDir, n+".txt"), "text"
			if contains(c.GobDomSets, n) {
				// text -> Builder -> gob file -> BuilderFromGob: the threshold-dependent matchers
				b, err := domainset.BuilderFromText(sb.String())
				if err != nil {
					berr = fmt.Errorf("harness: custom domain set %s: %w", n, err)
					return
				}
				path, typ = filepath.Join(caseDir, n+".gob"), "gob"
				f, err := os.Create(path)
				if err == nil {
					err = b.WriteGob(f)
					f.Close()
				}
				if err != nil {
					berr = fmt.Errorf("harness: custom domain set %s: %w", n, err)
					return
				}
			} else if err := os.WriteFile(path, []byte(sb.String()), 0o644); err != nil {
				berr = err
				return
			}
			cfg.DomainSets = append(cfg.DomainSets, domainset.Config{Name: n, Type: typ, Path: path})
		}
		for _, n := range c.PfxSets {
			ps, custom := c.CustomPfxSets[n]
			if !custom {
				cfg.PrefixSets = append(cfg.PrefixSets, prefixset.Config{Name: n, Path: filepath.Join(poolDir, n+".txt")})
				continue
			}
			path := filepath.Join(caseDir, n+".txt")
			if err := os.WriteFile(path, []byte(strings.Join(ps, "\n")+"\n"), 0o644); err != nil {
				berr = err
				return
			}
			cfg.PrefixSets = append(cfg.PrefixSets, prefixset.Config{Name: n, Path: path})
		}
		for _, rs := range c.Routes {
			rc, err := rs.config()
			if err != nil {
				berr = err
				return
			}
			cfg.Routes = append(cfg.Routes, rc)
		}
		resolvers := make([]dns.SimpleResolver, 0, len(c.Resolvers))
		resolverMap := map[string]dns.SimpleResolver{}
		// one object per resolver name: the slice and the map share it (as service.Config.Manager does); the map may
		// have names the slice lacks and vice versa (the router API allows it)
		objs := map[string]*fakeResolver{}
		obj := func(n string) *fakeResolver {
			if objs[n] == nil {
				objs[n] = &fakeResolver{name: n, table: c.Resolve[n]}
			}
			return objs[n]
		}
		for _, n := range c.Resolvers {
			resolvers = append(resolvers, obj(n))
		}
		for _, n := range c.resolverMapNames() {
			resolverMap[n] = obj(n)
		}
		tcp := map[string]netio.StreamClient{}
		for _, n := range c.TCPClients {
			tcp[n] = &fakeTCPClient{name: n}
		}
		udp := map[string]zerocopy.UDPClient{}
		for _, n := range c.UDPClients {
			udp[n] = &fakeUDPClient{name: n}
		}
		servers := map[string]int{}
		for i, n := range c.Servers {
			servers[n] = i
		}
		r, berr = cfg.Router(zap.New(routeCore{matched}), resolvers, resolverMap, tcp, udp, servers)
	})
	if pan != nil {
		return nil, "panic", pan
	}
	if berr != nil {
		return nil, "err " + classifyBuildErr(berr), nil
	}
	return &implRouter{r, matched}, "ok", nil
}

var buildErrPrefixes = []struct{ prefix, class string }{
	{"route name cannot be empty", "badName"},
	{"missing GeoLite2 country database path", "geoipNoDb"},
	{"missing resolvers for one or more criteria", "noResolvers"},
	{"missing destination domain criteria", "noDomainCriteria"},
	{"resolver not found:", "resolverNotFound"},
	{"invalid network:", "badNetwork"},
	{"TCP client not found:", "tcpClientNotFound"},
	{"UDP client not found:", "udpClientNotFound"},
	{"server not found:", "serverNotFound"},
	{"bad fromPorts:", "badFromPorts"},
	{"failed to parse source port ranges:", "badFromPortRanges"},
	{"bad source port criteria:", "pointlessFromPorts"},
	{"bad toPorts:", "badToPorts"},
	{"failed to parse destination port ranges:", "badToPortRanges"},
	{"bad destination port criteria:", "pointlessToPorts"},
	{"prefix set not found:", "prefixSetNotFound"},
	{"domain set not found:", "domainSetNotFound"},
	{"default TCP client not found:", "defaultTCPNotFound"},
	{"default UDP client not found:", "defaultUDPNotFound"},
}

func classifyBuildErr(err error) string {
	s := err.Error()
	for _, p := range buildErrPrefixes {
		if strings.HasPrefix(s, p.prefix) {
			return p.class
		}
	}
	return "other:" + s
}

func (q ReqSpec) info() router.RequestInfo {
	var target conn.Addr
	if q.DstDom != "" {
		target = conn.MustAddrFromDomainPort(q.DstDom, uint16(q.DstPort))
	} else {
		target = conn.AddrFromIPAndPort(netip.MustParseAddr(q.DstIP), uint16(q.DstPort))
	}
	return router.RequestInfo{
		ServerIndex:    q.Server,
		Username:       q.User,
		SourceAddrPort: netip.AddrPortFrom(netip.MustParseAddr(q.Src), uint16(q.SrcPort)),
		TargetAddr:     target,
	}
}

// askImpl routes one request through the real router; the answer uses the driver's vocabulary.
func askImpl(ir *implRouter, q ReqSpec) (out, route string, panicked any) {
	r := ir.r
	*ir.route = ""
	defer func() { route = *ir.route }()
	panicked = common.Safely(func() {
		ctx := context.Background()
		var err error
		var name string
		if q.Net == "tcp" {
			var c netio.StreamClient
			c, err = r.GetTCPClient(ctx, q.info())
			if err == nil {
				if f, ok := c.(*fakeTCPClient); ok {
					name = f.name
				} else {
					name = fmt.Sprintf("?%T", c)
				}
			}
		} else {
			var c zerocopy.UDPClient
			c, err = r.GetUDPClient(ctx, q.info())
			if err == nil {
				if f, ok := c.(*fakeUDPClient); ok {
					name = f.name
				} else {
					name = fmt.Sprintf("?%T", c)
				}
			}
		}
		switch {
		case err == nil:
			out = "client " + name
		case err == router.ErrRejected:
			out = "rejected"
		case err == dns.ErrDomainNoAssociatedIPs:
			out = "err resolver:noaddr"
		case err == errFakeOther:
			out = "err resolver:other"
		case err == errFakeWrapped:
			out = "err resolver:wrapped"
		case err.Error() == "no available resolvers":
			out = "err noAvailableResolvers"
		default:
			out = "err unknown:" + err.Error()
		}
	})
	if panicked != nil {
		out = "panic"
	}
	return
}

func isZeroPortPanic(p any) bool {
	if e, ok := p.(error); ok {
		return errors.Is(e, portset.ErrZeroPort)
	}
	return false
}
