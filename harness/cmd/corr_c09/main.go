// corr_c09: correspondence + property oracle for C09 (routing picks the first route whose documented
// conditions all hold).
//
// Engine "router": random router configurations (0..6 routes, each criterion kind present / absent / inverted,
// port lists forcing each of the three port representations, domain lists around the matcher thresholds, prefix
// sets) go through the real router.Config.Router with harness fakes (table-driven dns.SimpleResolver's, named
// fake TCP/UDP clients) and, as lines, to the Lean model (ssv_c09: SSV.Model.Router). Compared per request:
// chosen client identity / rejected / error class, and the load result (ok / load-error class) per configuration.
// The property oracle (oracle.go) is an independent interpreter of the documented semantics over the
// configuration, with every set evaluated by brute force.
package main

import (
	"context"
	"fmt"
	"net/netip"
	"os"
	"runtime"
	"strings"
	"sync"

	"ssvharness/internal/common"

	"github.com/database64128/shadowsocks-go/router"
)

const f3Key = "F3:portset-criterion-port0-panic"

type engine struct {
	o       *common.Options
	rep     *common.Report
	poolDir string
}

type span struct{ build, req int }

// render turns a batch of cases into driver lines.
func render(cases []Case) (lines []string, spans []span) {
	spans = make([]span, len(cases))
	for i, c := range cases {
		ls, b, q := c.lines()
		spans[i] = span{len(lines) + b, len(lines) + q}
		lines = append(lines, ls...)
	}
	return
}

// runModel feeds the batches to Lean drivers, several processes at a time (the batches are independent:
// every case starts with `reset`). Returns the answers per batch (nil when no driver was given).
func (e *engine) runModel(batches [][]Case) ([][]string, error) {
	out := make([][]string, len(batches))
	if e.o.Driver == "" {
		return out, nil
	}
	workers := runtime.NumCPU() / 2
	if workers < 1 {
		workers = 1
	}
	if workers > 8 {
		workers = 8
	}
	var (
		wg   sync.WaitGroup
		mu   sync.Mutex
		ferr error
		next = make(chan int)
	)
	for w := 0; w < workers; w++ {
		wg.Add(1)
		go func() {
			defer wg.Done()
			for i := range next {
				lines, _ := render(batches[i])
				res, err := common.RunDriverOnce(e.o.Driver, lines)
				mu.Lock()
				if err != nil && ferr == nil {
					ferr = err
				}
				out[i] = res
				mu.Unlock()
			}
		}()
	}
	for i := range batches {
		next <- i
	}
	close(next)
	wg.Wait()
	return out, ferr
}

// evalAll runs the cases (in batches) on the model, then on the implementation and the oracle.
func (e *engine) evalAll(cases []Case) error {
	const batch = 200
	var batches [][]Case
	for i := 0; i < len(cases); i += batch {
		batches = append(batches, cases[i:min(i+batch, len(cases))])
	}
	models, err := e.runModel(batches)
	if err != nil {
		return err
	}
	for i, b := range batches {
		e.evalCases(b, models[i])
	}
	return nil
}

// evalCases runs a batch of cases on the implementation and the oracle and compares with the model's answers.
func (e *engine) evalCases(cases []Case, model []string) {
	lines, spans := render(cases)
	for i := range cases {
		c := &cases[i]
		r, bres, bpan := buildImpl(*c, e.poolDir)
		e.rep.Count("routes=" + fmt.Sprint(len(c.Routes)))
		e.rep.Count("load:" + strings.SplitN(bres, ":", 2)[0])
		if bpan != nil {
			e.rep.Fail(common.OracleFailure{Engine: "router", Key: "panic:load", Case: c, Detail: fmt.Sprint(bpan)})
			continue
		}
		if key, detail := c.judgeLoad(bres); key != "" {
			e.rep.Fail(common.OracleFailure{Engine: "router", Key: key, Case: c, Detail: detail})
		}
		if model != nil && model[spans[i].build] != bres {
			e.rep.Diverge(common.Divergence{Engine: "router", Case: c, Impl: bres, Model: model[spans[i].build], Note: "load result"})
		}
		nontrivial := false
		var answers []string
		if r != nil {
			for k, q := range c.Requests {
				impl, route, pan := askImpl(r, q)
				answers = append(answers, impl)
				if route != "" {
					e.rep.Count("matched-route-reported")
				}
				e.rep.Count("answer:" + strings.SplitN(strings.SplitN(impl, " ", 2)[0], ":", 2)[0])
				if impl != "panic" && impl != c.defaultOutcome(q.Net) {
					nontrivial = true
				}
				if pan != nil {
					key := "panic:" + fmt.Sprint(pan)
					if isZeroPortPanic(pan) && (q.SrcPort == 0 || q.DstPort == 0) {
						key = f3Key
					}
					one := *c
					one.Requests = []ReqSpec{q}
					e.rep.Fail(common.OracleFailure{Engine: "router", Key: key, Case: one,
						Detail: fmt.Sprintf("request %s panics the router: %v", q.line(), pan)})
				} else if key, detail := c.judge(q, impl, route); key != "" {
					one := *c
					one.Requests = []ReqSpec{q}
					e.rep.Fail(common.OracleFailure{Engine: "router", Key: key, Case: one, Detail: detail})
				}
				implFull := impl
				if route != "" {
					implFull += " @" + route
				}
				if model != nil && model[spans[i].req+k] != implFull {
					one := *c
					one.Requests = []ReqSpec{q}
					e.rep.Diverge(common.Divergence{Engine: "router", Case: one, Impl: implFull, Model: model[spans[i].req+k], Note: q.line()})
				}
			}
			e.rep.TracesValidated++
		}
		for _, rt := range c.Routes {
			e.countRoute(rt)
			for _, n := range rt.ToDomSets {
				e.countDomSet(c.domSetRules(n))
			}
		}
		e.rep.Case(strings.Join(lines[spans[i].build-len(c.Routes):spans[i].req+len(c.Requests)], "\n"), nontrivial)
		e.rep.Sample(map[string]any{"routes": c.Routes, "load": bres, "requests": len(c.Requests), "answers": answers})
	}
}

// countDomSet: input distribution of the domain sets that routes reference.
func (e *engine) countDomSet(rules []domRule) {
	var sufs []string
	ndom := 0
	for _, r := range rules {
		switch r.Kind {
		case "suffix":
			sufs = append(sufs, r.Val)
		case "domain":
			ndom++
		case "keyword", "regexp":
			e.rep.Count("domset:" + r.Kind)
		}
	}
	narrowFirst, broadFirst := false, false
	for i, a := range sufs {
		for _, b := range sufs[i+1:] {
			if strings.HasSuffix(a, "."+b) {
				narrowFirst = true
			}
			if strings.HasSuffix(b, "."+a) {
				broadFirst = true
			}
		}
	}
	if narrowFirst {
		e.rep.Count("domset:narrow-suffix-before-broad")
	}
	if broadFirst {
		e.rep.Count("domset:broad-suffix-before-narrow")
	}
	if len(sufs) > 4 {
		e.rep.Count("domset:suffixes>4")
	} else if len(sufs) > 0 {
		e.rep.Count("domset:suffixes<=4")
	}
	if ndom > 16 {
		e.rep.Count("domset:domains>16")
	}
}

func (e *engine) countRoute(rt RouteSpec) {
	pr := func(name string, ports []int, items []PortItem) {
		if len(ports) == 0 && len(items) == 0 {
			return
		}
		set := map[int]bool{}
		for _, p := range ports {
			set[p] = true
		}
		for _, it := range items {
			if it.IsRange {
				for p := it.From; p <= it.To; p++ {
					set[p] = true
				}
			} else {
				set[it.From] = true
			}
		}
		runs := 0
		for p := range set {
			if !set[p-1] {
				runs++
			}
		}
		switch {
		case len(set) == 1:
			e.rep.Count(name + ":single")
		case runs <= 16:
			e.rep.Count(name + ":rangeset")
		default:
			e.rep.Count(name + ":bitset")
		}
	}
	pr("fromPorts", rt.FromPorts, rt.fromItems())
	if rt.FromRangesRaw != nil || rt.ToRangesRaw != nil {
		e.rep.Count("portRanges:raw-string")
	}
	pr("toPorts", rt.ToPorts, rt.toItems())
	if len(rt.ToDomains) > 16 {
		e.rep.Count("toDomains>16")
	} else if len(rt.ToDomains) > 0 {
		e.rep.Count("toDomains<=16")
	}
	if len(rt.ExpPfx) > 0 || len(rt.ExpPfxSets) > 0 {
		e.rep.Count("expectedPrefixes")
	}
	if len(rt.ToPrefixes) > 0 || len(rt.ToPfxSets) > 0 {
		if rt.DisableResolve {
			e.rep.Count("toPrefixes:noresolve")
		} else {
			e.rep.Count("toPrefixes:resolve")
		}
	}
}

// f3Cases: the directed probe of finding F3 — a port criterion in bit-set representation (> 16 ranges)
// and a request to / from port 0.
func f3Cases() []Case {
	var items []PortItem
	for i := 0; i < 17; i++ {
		items = append(items, PortItem{From: 1000 + 2*i})
	}
	base := Case{TCPClients: []string{"c0", "c1"}, UDPClients: []string{"c0", "c1"}, Servers: []string{"s0"}, DefTCP: "c0", DefUDP: "c0"}
	dst := base
	dst.Routes = []RouteSpec{{Name: "many-dest-ports", Client: "c1", ToRanges: items}}
	dst.Requests = []ReqSpec{{Net: "tcp", User: "alice", Src: "10.0.0.1", SrcPort: 40000, DstIP: "1.2.3.4", DstPort: 0},
		{Net: "udp", User: "alice", Src: "10.0.0.1", SrcPort: 40000, DstDom: "a.test", DstPort: 0},
		{Net: "tcp", User: "alice", Src: "10.0.0.1", SrcPort: 40000, DstIP: "1.2.3.4", DstPort: 1002}}
	src := base
	src.Routes = []RouteSpec{{Name: "many-source-ports", Client: "c1", FromRanges: items, InvFromPorts: true}}
	src.Requests = []ReqSpec{{Net: "udp", User: "alice", Src: "10.0.0.1", SrcPort: 0, DstIP: "1.2.3.4", DstPort: 53},
		{Net: "tcp", User: "alice", Src: "10.0.0.1", SrcPort: 1001, DstIP: "1.2.3.4", DstPort: 53}}
	return []Case{dst, src}
}

// probeExcluded runs the real router at the points the theorems exclude by hypothesis (Req.WF / valid target) and
// records what happens in the evidence notes; these are not property failures: service/ never produces such requests.
func (e *engine) probeExcluded() {
	base := Case{TCPClients: []string{"c0", "c1"}, UDPClients: []string{"c0", "c1"}, Servers: []string{"s0", "s1"}, DefTCP: "c0", DefUDP: "c0"}
	base.Routes = []RouteSpec{{Name: "by-server", Client: "c1", FromServers: []string{"s1"}}}
	if r, res, _ := buildImpl(base, e.poolDir); r != nil {
		q := ReqSpec{Net: "tcp", Server: 2, User: "u", Src: "10.0.0.1", SrcPort: 1, DstIP: "1.2.3.4", DstPort: 80}
		out, _, pan := askImpl(r, q)
		e.rep.Note("excluded input: ServerIndex 2 with 2 servers and a fromServers route -> %s (%v)", out, pan)
	} else {
		e.rep.Note("excluded input probe: load failed: %s", res)
	}
	base.Routes = []RouteSpec{{Name: "by-domain", Client: "c1", ToDomains: []string{"a.test"}}}
	if r, _, _ := buildImpl(base, e.poolDir); r != nil {
		var out string
		pan := common.Safely(func() {
			_, err := r.r.GetTCPClient(context.Background(), router.RequestInfo{SourceAddrPort: netip.MustParseAddrPort("10.0.0.1:1")})
			out = fmt.Sprint(err)
		})
		e.rep.Note("excluded input: zero-value TargetAddr with a toDomains route -> %s (%v)", out, pan)
	}
}

// directedCases: fromUsers with the empty user name and unknown users; port-range strings as written (odd but
// well-formed, and malformed); a resolver named by a route that is only in resolverMap / only in the slice.
func directedCases() []Case {
	base := Case{TCPClients: []string{"c0", "c1", "c2"}, UDPClients: []string{"c0", "c1", "c2"}, Servers: []string{"s0"}, DefTCP: "c0", DefUDP: "c0"}
	var cs []Case
	users := base
	users.Routes = []RouteSpec{
		{Name: "listed", Client: "c1", FromUsers: []string{"alice"}, Network: "tcp"},
		{Name: "anonymous-listed", Client: "c2", FromUsers: []string{"", "bob"}, Network: "udp"},
		{Name: "not-alice", Client: "c2", FromUsers: []string{"alice", "bob"}, InvFromUsers: true},
	}
	for _, u := range []string{"", "alice", "bob", "mallory", "Alice", "alice ", " alice", "alice\x00", "ali"} {
		for _, n := range []string{"tcp", "udp"} {
			users.Requests = append(users.Requests, ReqSpec{Net: n, User: u, Src: "10.0.0.1", SrcPort: 1000, DstIP: "1.2.3.4", DstPort: 80})
		}
	}
	cs = append(cs, users)
	for _, s := range []string{"80,443", "080,0443", "80,443,", "1-2,2-3,3-10", "8000-8100,8050", "65535", "1,3,5,7,9,11,13,15,17,19,21,23,25,27,29,31,33,35",
		"", ",", "80,,443", "80, 443", " 80", "80 ", "+80", "-80", "80-", "80-80", "90-80", "0", "0-5", "65536", "1-65536", "1-2-3", "0x50", "８０", "80;443", "80\n", "a", "1e2", "99999999999999999999"} {
		c := base
		raw := s
		c.Routes = []RouteSpec{{Name: "to", Client: "c1", ToRangesRaw: &raw}, {Name: "from", Client: "c2", FromRangesRaw: &raw, InvFromPorts: true}}
		for _, p := range []int{0, 1, 2, 3, 10, 11, 35, 36, 79, 80, 81, 443, 8000, 8050, 8100, 8101, 65535} {
			c.Requests = append(c.Requests, ReqSpec{Net: "tcp", User: "u", Src: "10.0.0.1", SrcPort: p, DstIP: "1.2.3.4", DstPort: p})
		}
		cs = append(cs, c)
	}
	res := base
	res.Resolvers = []string{"dns1", "dns2"}
	res.ResolverMap = []string{"dns2", "dnsX"}
	res.Resolve = map[string]map[string]string{"dns1": {"a.test": "a10.0.0.1"}, "dns2": {"a.test": "a1.2.3.4"}, "dnsX": {"a.test": "a8.8.8.8"}}
	res.Routes = []RouteSpec{
		{Name: "map-only", Client: "c1", Resolver: "dnsX", ToPrefixes: []string{"8.8.8.8/32"}},
		{Name: "both", Client: "c2", Resolver: "dns2", ToPrefixes: []string{"1.2.3.4/32"}},
		{Name: "all", Client: "reject", ToPrefixes: []string{"10.0.0.0/8"}},
	}
	res.Requests = []ReqSpec{{Net: "tcp", User: "u", Src: "10.0.0.1", SrcPort: 1, DstDom: "a.test", DstPort: 80}}
	cs = append(cs, res)
	sliceOnly := res
	sliceOnly.Routes = []RouteSpec{{Name: "slice-only", Client: "c1", Resolver: "dns1", ToPrefixes: []string{"10.0.0.0/8"}}}
	cs = append(cs, sliceOnly)
	return cs
}

func main() {
	o := common.ParseFlags()
	rep := common.NewReport("C09", o)
	rep.Engines = []string{"router"}
	rep.Rule = "engine router: random router.Config (0..6 routes; every criterion kind present/absent/inverted; port lists forcing single / <=16 ranges / bit set; " +
		"toDomains lists around MaxLinearDomains; pool and per-case generated domain sets (suffix rules over a label vocabulary extending one another in both orders, duplicates, 4/5 suffixes, 16/17 domains, keyword + regexp rules, text and gob) and prefix sets (nested / overlapping / IPv4-mapped prefixes); 0..3 table resolvers answering / ErrLookup / no-address / other error) x requests at the " +
		"boundaries (ports 0/1/65535 and every range edge +-1, IPv4-mapped addresses, domain vs IP targets, unknown users, tcp/udp); a case is non-trivial if the " +
		"configuration loads and at least one request is not answered by the default route; distinct by (routes, requests)"
	dir, err := os.MkdirTemp("", "c09-pool-")
	if err == nil {
		defer os.RemoveAll(dir)
		err = writePool(dir)
	}
	e := &engine{o: o, rep: rep, poolDir: dir}
	if err == nil && o.Replay != "" {
		var c Case
		if err = common.LoadReplay(o.Replay, &c); err == nil {
			err = e.evalAll([]Case{c})
		}
	} else if err == nil {
		e.probeExcluded()
		// directed probe of F3 first
		before := rep.Distribution["ORACLE-FAIL:"+f3Key]
		err = e.evalAll(f3Cases())
		rep.FindingsProbed[f3Key] = rep.Distribution["ORACLE-FAIL:"+f3Key] > before
		if err == nil {
			err = e.evalAll(directedCases())
		}
		r := common.NewRng(o.Seed)
		n := o.Budget(1500, 24000)
		nreq := 20
		if o.Thorough() {
			nreq = 50
		}
		var cases []Case
		for i := 0; i < n && err == nil; i++ {
			cases = append(cases, genCase(r.Fork(uint64(i)), nreq))
			if len(cases) == 4000 {
				err = e.evalAll(cases)
				cases = cases[:0]
			}
		}
		if err == nil && len(cases) > 0 {
			err = e.evalAll(cases)
		}
	}
	if err != nil {
		fmt.Fprintln(os.Stderr, "corr_c09:", err)
		rep.Note("engine error: %v", err)
		rep.Write(o.Out)
		os.Exit(3)
	}
	rep.Note("GeoIP criteria: no GeoLite2 database offline; tied only at load time (missing database => load error)")
	if err := rep.Write(o.Out); err != nil {
		fmt.Fprintln(os.Stderr, err)
		os.Exit(3)
	}
}
