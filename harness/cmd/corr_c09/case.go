package main

import (
	"encoding/hex"
	"fmt"
	"math/big"
	"net/netip"
	"sort"
	"strconv"
	"strings"
)

// ---------- the case format (self-contained: this is what a replay file holds) ----------

// PortItem is one element of a port-range string: a single port (To == 0 && !IsRange) or From-To.
type PortItem struct {
	From    int  `json:"from"`
	To      int  `json:"to,omitempty"`
	IsRange bool `json:"range,omitempty"`
}

func (p PortItem) String() string {
	if p.IsRange {
		return strconv.Itoa(p.From) + "-" + strconv.Itoa(p.To)
	}
	return strconv.Itoa(p.From)
}

// RouteSpec mirrors router.RouteConfig with the port-range strings kept as item lists.
type RouteSpec struct {
	Name     string `json:"name"`
	Network  string `json:"network,omitempty"`
	Client   string `json:"client"`
	Resolver string `json:"resolver,omitempty"`

	FromServers  []string   `json:"fromServers,omitempty"`
	FromUsers    []string   `json:"fromUsers,omitempty"`
	FromPorts    []int      `json:"fromPorts,omitempty"`
	FromRanges   []PortItem `json:"fromPortRanges,omitempty"`
	// FromRangesRaw / ToRangesRaw: the port-range string as written (overrides the item list): arbitrary text,
	// including malformed pieces.
	FromRangesRaw *string `json:"fromPortRangesRaw,omitempty"`
	ToRangesRaw   *string `json:"toPortRangesRaw,omitempty"`
	FromPrefixes []string   `json:"fromPrefixes,omitempty"`
	FromPfxSets  []string   `json:"fromPrefixSets,omitempty"`
	FromGeo      []string   `json:"fromGeoIPCountries,omitempty"`

	ToPorts    []int      `json:"toPorts,omitempty"`
	ToRanges   []PortItem `json:"toPortRanges,omitempty"`
	ToDomains  []string   `json:"toDomains,omitempty"`
	ToDomSets  []string   `json:"toDomainSets,omitempty"`
	ExpPfx     []string   `json:"toMatchedDomainExpectedPrefixes,omitempty"`
	ExpPfxSets []string   `json:"toMatchedDomainExpectedPrefixSets,omitempty"`
	ExpGeo     []string   `json:"toMatchedDomainExpectedGeoIPCountries,omitempty"`
	ToPrefixes []string   `json:"toPrefixes,omitempty"`
	ToPfxSets  []string   `json:"toPrefixSets,omitempty"`
	ToGeo      []string   `json:"toGeoIPCountries,omitempty"`

	DisableResolve bool `json:"disableNameResolutionForIPRules,omitempty"`
	InvFromServers bool `json:"invertFromServers,omitempty"`
	InvFromUsers   bool `json:"invertFromUsers,omitempty"`
	InvFromPfx     bool `json:"invertFromPrefixes,omitempty"`
	InvFromGeo     bool `json:"invertFromGeoIPCountries,omitempty"`
	InvFromPorts   bool `json:"invertFromPorts,omitempty"`
	InvToDomains   bool `json:"invertToDomains,omitempty"`
	InvExpPfx      bool `json:"invertToMatchedDomainExpectedPrefixes,omitempty"`
	InvExpGeo      bool `json:"invertToMatchedDomainExpectedGeoIPCountries,omitempty"`
	InvToPfx       bool `json:"invertToPrefixes,omitempty"`
	InvToGeo       bool `json:"invertToGeoIPCountries,omitempty"`
	InvToPorts     bool `json:"invertToPorts,omitempty"`
}

// fromRangeString / toRangeString: the string that goes into RouteConfig.FromPortRanges / ToPortRanges.
func (r RouteSpec) fromRangeString() string {
	if r.FromRangesRaw != nil {
		return *r.FromRangesRaw
	}
	return mapStr(r.FromRanges, PortItem.String)
}

func (r RouteSpec) toRangeString() string {
	if r.ToRangesRaw != nil {
		return *r.ToRangesRaw
	}
	return mapStr(r.ToRanges, PortItem.String)
}

// readRanges: the oracle's own reading of a port-range string, from the documentation ("comma-separated list of
// ports and port ranges": a port is a decimal number 1..65535, a range is lo-hi with lo < hi). ok = every piece is
// well-formed. A single trailing comma is a don't-care (dontCare = true): the documentation does not say.
func readRanges(s string) (items []PortItem, ok bool, dontCare bool) {
	if s == "" {
		return nil, true, false
	}
	if strings.HasSuffix(s, ",") {
		dontCare = true
		s = strings.TrimSuffix(s, ",")
		if s == "" {
			return nil, false, true
		}
	}
	num := func(t string) (int, bool) {
		if t == "" || len(t) > 40 {
			return 0, false
		}
		n := 0
		for _, ch := range []byte(t) {
			if ch < '0' || ch > '9' {
				return 0, false
			}
			n = n*10 + int(ch-'0')
			if n > 65535 {
				return 0, false
			}
		}
		return n, n >= 1
	}
	ok = true
	for _, piece := range strings.Split(s, ",") {
		if i := strings.IndexByte(piece, '-'); i >= 0 {
			lo, ok1 := num(piece[:i])
			hi, ok2 := num(piece[i+1:])
			if !ok1 || !ok2 || lo >= hi {
				return nil, false, dontCare
			}
			items = append(items, PortItem{From: lo, To: hi, IsRange: true})
		} else {
			p, ok1 := num(piece)
			if !ok1 {
				return nil, false, dontCare
			}
			items = append(items, PortItem{From: p})
		}
	}
	return items, ok, dontCare
}

// fromItems / toItems: what the range string denotes according to readRanges (nil when malformed).
func (r RouteSpec) fromItems() []PortItem { it, _, _ := readRanges(r.fromRangeString()); return it }
func (r RouteSpec) toItems() []PortItem   { it, _, _ := readRanges(r.toRangeString()); return it }

// ReqSpec is one request (RequestInfo + protocol).
type ReqSpec struct {
	Net     string `json:"net"` // tcp | udp
	Server  int    `json:"server"`
	User    string `json:"user"`
	Src     string `json:"src"` // IP
	SrcPort int    `json:"srcPort"`
	DstIP   string `json:"dstIP,omitempty"`
	DstDom  string `json:"dstDomain,omitempty"`
	DstPort int    `json:"dstPort"`
}

// Case is one router configuration with its environment and a batch of requests.
type Case struct {
	TCPClients []string `json:"tcpClients"`
	UDPClients []string `json:"udpClients"`
	Servers    []string `json:"servers"`
	Resolvers  []string `json:"resolvers"`
	// ResolverMap: the keys of resolverMap; nil = the same names as Resolvers (what service.Config.Manager passes).
	ResolverMap []string `json:"resolverMap,omitempty"`
	// Resolve[resolver][domain] = "a<ip>" | "l" (dns.ErrLookup) | "f:noaddr" (dns.ErrDomainNoAssociatedIPs) |
	// "f:other" | "f:wrapped" (an error wrapping dns.ErrLookup). Missing entries mean "l".
	Resolve  map[string]map[string]string `json:"resolve"`
	DomSets  []string                     `json:"domainSets"` // names from the fixed pool (see pool.go) or of CustomDomSets
	PfxSets  []string                     `json:"prefixSets"`
	// CustomDomSets / CustomPfxSets: sets generated for this case (rule order matters: it is the file's line order).
	CustomDomSets map[string][]domRule `json:"customDomainSets,omitempty"`
	CustomPfxSets map[string][]string  `json:"customPrefixSets,omitempty"`
	// GobDomSets: custom domain sets that are loaded through the gob format (text -> Builder -> gob file).
	GobDomSets []string `json:"gobDomainSets,omitempty"`
	DefTCP   string                       `json:"defaultTCPClientName,omitempty"`
	DefUDP   string                       `json:"defaultUDPClientName,omitempty"`
	Routes   []RouteSpec                  `json:"routes"`
	Requests []ReqSpec                    `json:"requests"`
}

func (c *Case) resolverMapNames() []string {
	if c.ResolverMap == nil {
		return c.Resolvers
	}
	return c.ResolverMap
}

func (c *Case) domSetRules(name string) []domRule {
	if r, ok := c.CustomDomSets[name]; ok {
		return r
	}
	return poolDomSets[name]
}

func (c *Case) pfxSetPrefixes(name string) []string {
	if p, ok := c.CustomPfxSets[name]; ok {
		return p
	}
	return poolPfxSets[name]
}

func (c *Case) domSetMatch(name, d string) bool { return rulesMatch(c.domSetRules(name), d) }

// universe: every domain the driver needs a table entry for = the fixed universes + the targets of this case.
func (c *Case) universe() []string {
	u := append(append([]string(nil), domainUniverse...), labelUniverse...)
	seen := map[string]bool{}
	for _, d := range u {
		seen[d] = true
	}
	for _, q := range c.Requests {
		if q.DstDom != "" && !seen[q.DstDom] {
			seen[q.DstDom] = true
			u = append(u, q.DstDom)
		}
	}
	return u
}

// ---------- rendering for the Lean driver ----------

func ipTok(a netip.Addr) string {
	if a.Is4() {
		b := a.As4()
		return "4:" + strconv.FormatUint(uint64(b[0])<<24|uint64(b[1])<<16|uint64(b[2])<<8|uint64(b[3]), 10)
	}
	b := a.As16()
	return "6:" + new(big.Int).SetBytes(b[:]).String()
}

func pfxTok(s string) string {
	p := netip.MustParsePrefix(s)
	return ipTok(p.Addr()) + "/" + strconv.Itoa(p.Bits())
}

func mapStr[T any](xs []T, f func(T) string) string {
	ss := make([]string, len(xs))
	for i, x := range xs {
		ss[i] = f(x)
	}
	return strings.Join(ss, ",")
}

func id(s string) string { return s }

func kvTok(sb *strings.Builder, k, v string) {
	if v != "" {
		sb.WriteByte(' ')
		sb.WriteString(k)
		sb.WriteByte('=')
		sb.WriteString(v)
	}
}

func (r RouteSpec) flags() string {
	var f []byte
	add := func(b bool, c byte) {
		if b {
			f = append(f, c)
		}
	}
	add(r.DisableResolve, 'd')
	add(r.InvFromServers, 's')
	add(r.InvFromUsers, 'u')
	add(r.InvFromPfx, 'x')
	add(r.InvFromGeo, 'g')
	add(r.InvFromPorts, 'p')
	add(r.InvToDomains, 'D')
	add(r.InvExpPfx, 'E')
	add(r.InvExpGeo, 'H')
	add(r.InvToPfx, 'X')
	add(r.InvToGeo, 'G')
	add(r.InvToPorts, 'P')
	return string(f)
}

func (r RouteSpec) line() string {
	var sb strings.Builder
	sb.WriteString("route")
	kvTok(&sb, "name", r.Name)
	kvTok(&sb, "net", r.Network)
	kvTok(&sb, "client", r.Client)
	kvTok(&sb, "resolver", r.Resolver)
	kvTok(&sb, "fs", strings.Join(r.FromServers, ","))
	kvTok(&sb, "fu", strings.Join(r.FromUsers, ","))
	kvTok(&sb, "fp", mapStr(r.FromPorts, strconv.Itoa))
	kvTok(&sb, "fpr", hex.EncodeToString([]byte(r.fromRangeString())))
	kvTok(&sb, "fx", mapStr(r.FromPrefixes, pfxTok))
	kvTok(&sb, "fxs", strings.Join(r.FromPfxSets, ","))
	kvTok(&sb, "fg", strings.Join(r.FromGeo, ","))
	kvTok(&sb, "tp", mapStr(r.ToPorts, strconv.Itoa))
	kvTok(&sb, "tpr", hex.EncodeToString([]byte(r.toRangeString())))
	kvTok(&sb, "td", strings.Join(r.ToDomains, ","))
	kvTok(&sb, "tds", strings.Join(r.ToDomSets, ","))
	kvTok(&sb, "ex", mapStr(r.ExpPfx, pfxTok))
	kvTok(&sb, "exs", strings.Join(r.ExpPfxSets, ","))
	kvTok(&sb, "eg", strings.Join(r.ExpGeo, ","))
	kvTok(&sb, "tx", mapStr(r.ToPrefixes, pfxTok))
	kvTok(&sb, "txs", strings.Join(r.ToPfxSets, ","))
	kvTok(&sb, "tg", strings.Join(r.ToGeo, ","))
	kvTok(&sb, "flags", r.flags())
	return sb.String()
}

func (q ReqSpec) line() string {
	var sb strings.Builder
	sb.WriteString("req")
	kvTok(&sb, "net", q.Net)
	kvTok(&sb, "srv", strconv.Itoa(q.Server))
	kvTok(&sb, "userx", hex.EncodeToString([]byte(q.User)))
	kvTok(&sb, "src", ipTok(netip.MustParseAddr(q.Src)))
	kvTok(&sb, "sport", strconv.Itoa(q.SrcPort))
	if q.DstDom != "" {
		kvTok(&sb, "ddom", q.DstDom)
	} else {
		kvTok(&sb, "dip", ipTok(netip.MustParseAddr(q.DstIP)))
	}
	kvTok(&sb, "dport", strconv.Itoa(q.DstPort))
	return sb.String()
}

// lines renders the whole case; the answers to the `build` line and to the `req` lines are compared.
func (c Case) lines() (ls []string, buildIdx int, reqIdx int) {
	ls = append(ls, "reset")
	var sb strings.Builder
	sb.WriteString("env geoip=0")
	kvTok(&sb, "resolvers", strings.Join(c.Resolvers, ","))
	kvTok(&sb, "rmap", strings.Join(c.resolverMapNames(), ","))
	kvTok(&sb, "tcp", strings.Join(c.TCPClients, ","))
	kvTok(&sb, "udp", strings.Join(c.UDPClients, ","))
	kvTok(&sb, "servers", strings.Join(c.Servers, ","))
	kvTok(&sb, "dsets", strings.Join(c.DomSets, ","))
	kvTok(&sb, "psets", strings.Join(c.PfxSets, ","))
	kvTok(&sb, "deftcp", c.DefTCP)
	kvTok(&sb, "defudp", c.DefUDP)
	ls = append(ls, sb.String())
	rnames := make([]string, 0, len(c.Resolve))
	for r := range c.Resolve {
		rnames = append(rnames, r)
	}
	sort.Strings(rnames)
	for _, r := range rnames {
		doms := make([]string, 0, len(c.Resolve[r]))
		for d := range c.Resolve[r] {
			doms = append(doms, d)
		}
		sort.Strings(doms)
		for _, d := range doms {
			v := c.Resolve[r][d]
			if strings.HasPrefix(v, "a") {
				v = "a" + ipTok(netip.MustParseAddr(v[1:]))
			}
			ls = append(ls, fmt.Sprintf("res %s %s %s", r, d, v))
		}
	}
	for _, n := range c.DomSets {
		// the named set as a table over the domain universe, by the brute-force definition of the rules
		var ms []string
		for _, d := range c.universe() {
			if c.domSetMatch(n, d) {
				ms = append(ms, d)
			}
		}
		ls = append(ls, strings.TrimRight("dset "+n+" "+strings.Join(ms, ","), " "))
	}
	for _, n := range c.PfxSets {
		ls = append(ls, strings.TrimRight("pset "+n+" "+mapStr(c.pfxSetPrefixes(n), pfxTok), " "))
	}
	for _, r := range c.Routes {
		ls = append(ls, r.line())
	}
	buildIdx = len(ls)
	ls = append(ls, "build")
	reqIdx = len(ls)
	for _, q := range c.Requests {
		ls = append(ls, q.line())
	}
	return
}
