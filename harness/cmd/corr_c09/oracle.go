package main

import (
	"net/netip"
	"sort"
	"strconv"
	"strings"
)

// The property oracle: an independent interpreter of the DOCUMENTED semantics of RouteConfig (field comments of
// router/route.go and the C09 statement), with sets evaluated by brute force. It does not fix an evaluation order:
// every condition is a set of allowed outcomes {T, F, E(class)...}; AND/OR combine them for any order of
// evaluation with short circuit. Readings adopted where the comments are silent:
//   * "Resolver failures surface as errors and never as a silent match": a condition whose lookup fails is E;
//     a route may only be skipped silently if some condition is definitely false.
//   * "use all resolvers by order": resolvers are asked in order; dns.ErrLookup (the resolver could not be
//     reached / gave no usable reply) passes on to the next one, an answer or any other error is final; nobody
//     left = "no available resolvers".
//   * IPv4-mapped IPv6 addresses are compared as their IPv4 address against prefixes.
//   * invertToDomains negates the domain condition as a whole, including the attached expected-IP conditions;
//     an IP target is not "a domain in the list", so it satisfies an inverted domain condition; likewise a domain
//     target is not "an IP in the prefixes" when name resolution for IP rules is disabled.

type vset struct {
	T, F bool
	E    map[string]bool
}

func vT() vset           { return vset{T: true} }
func vF() vset           { return vset{F: true} }
func vB(b bool) vset     { return vset{T: b, F: !b} }
func vE(cl string) vset  { return vset{E: map[string]bool{cl: true}} }
func (v vset) not() vset { return vset{T: v.F, F: v.T, E: v.E} }
func (v vset) inv(b bool) vset {
	if b {
		return v.not()
	}
	return v
}

func addE(dst map[string]bool, src map[string]bool) map[string]bool {
	for k := range src {
		if dst == nil {
			dst = map[string]bool{}
		}
		dst[k] = true
	}
	return dst
}

// and: every conjunct must be T for T; any conjunct that can be F gives F; any that can be E gives E.
func and(vs ...vset) vset {
	r := vset{T: true}
	for _, v := range vs {
		r.T = r.T && v.T
		r.F = r.F || v.F
		r.E = addE(r.E, v.E)
	}
	return r
}

func or(vs ...vset) vset {
	r := vset{F: true}
	for _, v := range vs {
		r.F = r.F && v.F
		r.T = r.T || v.T
		r.E = addE(r.E, v.E)
	}
	return r
}

func contains(xs []string, x string) bool {
	for _, y := range xs {
		if x == y {
			return true
		}
	}
	return false
}

func portDenoted(ports []int, items []PortItem, p int) bool {
	for _, x := range ports {
		if x == p {
			return true
		}
	}
	for _, it := range items {
		if it.IsRange {
			if it.From <= p && p <= it.To {
				return true
			}
		} else if it.From == p {
			return true
		}
	}
	return false
}

func (c *Case) inPrefixes(lits []string, sets []string, a netip.Addr) bool {
	a = a.Unmap()
	for _, s := range lits {
		if netip.MustParsePrefix(s).Contains(a) {
			return true
		}
	}
	for _, n := range sets {
		for _, s := range c.pfxSetPrefixes(n) {
			if netip.MustParsePrefix(s).Contains(a) {
				return true
			}
		}
	}
	return false
}

// resolve: the documented resolver iteration. ok=false: class is the error class.
func (c *Case) resolve(r RouteSpec, d string) (a netip.Addr, class string, ok bool) {
	rs := c.Resolvers
	if r.Resolver != "" {
		rs = []string{r.Resolver}
	}
	for _, n := range rs {
		v, found := c.Resolve[n][d]
		switch {
		case !found || v == "l":
			continue
		case strings.HasPrefix(v, "a"):
			return netip.MustParseAddr(v[1:]), "", true
		default:
			return netip.Addr{}, "resolver:" + strings.TrimPrefix(v, "f:"), false
		}
	}
	return netip.Addr{}, "noAvailableResolvers", false
}

type condVal struct {
	name string
	v    vset
}

// routeConds: the documented conditions of one route, evaluated on one request.
func (c *Case) routeConds(r RouteSpec, q ReqSpec) []condVal {
	var cs []condVal
	add := func(n string, v vset) { cs = append(cs, condVal{n, v}) }
	switch r.Network {
	case "tcp", "udp":
		add("network", vB(q.Net == r.Network))
	}
	if len(r.FromServers) > 0 {
		add("fromServers", vB(q.Server >= 0 && q.Server < len(c.Servers) && contains(r.FromServers, c.Servers[q.Server])).inv(r.InvFromServers))
	}
	if len(r.FromUsers) > 0 {
		add("fromUsers", vB(contains(r.FromUsers, q.User)).inv(r.InvFromUsers))
	}
	if len(r.FromPorts) > 0 || r.fromRangeString() != "" {
		add("fromPorts", vB(portDenoted(r.FromPorts, r.fromItems(), q.SrcPort)).inv(r.InvFromPorts))
	}
	if len(r.FromPrefixes) > 0 || len(r.FromPfxSets) > 0 {
		// (GeoIP source conditions cannot be loaded offline: configurations that have them are rejected at load)
		add("fromPrefixes", vB(c.inPrefixes(r.FromPrefixes, r.FromPfxSets, netip.MustParseAddr(q.Src))).inv(r.InvFromPfx))
	}
	if len(r.ToPorts) > 0 || r.toRangeString() != "" {
		add("toPorts", vB(portDenoted(r.ToPorts, r.toItems(), q.DstPort)).inv(r.InvToPorts))
	}
	// destination kinds: OR
	var kinds []vset
	var names []string
	if len(r.ToDomains) > 0 || len(r.ToDomSets) > 0 {
		var v vset
		if q.DstDom == "" {
			v = vF()
		} else {
			listed := contains(r.ToDomains, q.DstDom)
			for _, n := range r.ToDomSets {
				listed = listed || c.domSetMatch(n, q.DstDom)
			}
			v = vB(listed)
			if listed && (len(r.ExpPfx) > 0 || len(r.ExpPfxSets) > 0) {
				// "Require the matched domain target to resolve to IP addresses in these prefixes"
				a, class, ok := c.resolve(r, q.DstDom)
				if !ok {
					v = vE(class)
				} else {
					v = vB(c.inPrefixes(r.ExpPfx, r.ExpPfxSets, a)).inv(r.InvExpPfx)
				}
			}
		}
		kinds = append(kinds, v.inv(r.InvToDomains))
		names = append(names, "toDomains")
	}
	if len(r.ToPrefixes) > 0 || len(r.ToPfxSets) > 0 {
		var v vset
		switch {
		case q.DstDom == "":
			v = vB(c.inPrefixes(r.ToPrefixes, r.ToPfxSets, netip.MustParseAddr(q.DstIP)))
		case r.DisableResolve:
			v = vF()
		default:
			a, class, ok := c.resolve(r, q.DstDom)
			if !ok {
				v = vE(class)
			} else {
				v = vB(c.inPrefixes(r.ToPrefixes, r.ToPfxSets, a))
			}
		}
		kinds = append(kinds, v.inv(r.InvToPfx))
		names = append(names, "toPrefixes")
	}
	if len(kinds) > 0 {
		add(strings.Join(names, "|"), or(kinds...))
	}
	return cs
}

func (c *Case) clientOutcome(name string, net string) string {
	if name == "reject" {
		return "rejected"
	}
	return "client " + name
}

func (c *Case) defaultOutcome(net string) string {
	name, clients := c.DefTCP, c.TCPClients
	if net == "udp" {
		name, clients = c.DefUDP, c.UDPClients
	}
	switch name {
	case "reject":
		return "rejected"
	case "":
		// no default named: the only client there is, if there is exactly one
		if len(clients) == 1 {
			return "client " + clients[0]
		}
		return "rejected"
	default:
		return "client " + name
	}
}

// allowed: the set of outcomes the documented semantics allow for a request, the set of routes that may be the
// chosen one (by name; "default" for the trailing default), and for diagnostics the per-route condition values.
func (c *Case) allowed(q ReqSpec) (outs map[string]bool, routes map[string]bool, trace [][]condVal) {
	outs = map[string]bool{}
	routes = map[string]bool{}
	for _, r := range c.Routes {
		cs := c.routeConds(r, q)
		trace = append(trace, cs)
		v := andConds(cs)
		for cl := range v.E {
			outs["err "+cl] = true
		}
		if v.T {
			outs[c.clientOutcome(r.Client, q.Net)] = true
			routes[r.Name] = true
		}
		if !v.F {
			return
		}
	}
	outs[c.defaultOutcome(q.Net)] = true
	routes["default"] = true
	return
}

func andConds(cs []condVal) vset {
	vs := make([]vset, len(cs))
	for i := range cs {
		vs[i] = cs[i].v
	}
	return and(vs...)
}

// judge compares the implementation's answer (and the route it reports to have matched, "" if unknown) with the
// allowed set. key == "" means fine. The key names the kind of disagreement and, where it can be attributed, the
// documented condition(s) the implementation got wrong.
func (c *Case) judge(q ReqSpec, impl, route string) (key, detail string) {
	outs, routes, trace := c.allowed(q)
	if outs[impl] && (route == "" || routes[route]) {
		return "", ""
	}
	var want []string
	for o := range outs {
		want = append(want, o)
	}
	sort.Strings(want)
	var wantRoutes []string
	for r := range routes {
		wantRoutes = append(wantRoutes, r)
	}
	sort.Strings(wantRoutes)
	detail = "request " + q.line() + ": implementation answered " + impl + " (route " + route + "), documented semantics allow " +
		strings.Join(want, " | ") + " (route " + strings.Join(wantRoutes, " | ") + ")"
	onlyErr := true
	for _, o := range want {
		if !strings.HasPrefix(o, "err ") {
			onlyErr = false
		}
	}
	notT := func(cs []condVal) string {
		var bad []string
		for _, cv := range cs {
			if !cv.v.T {
				bad = append(bad, cv.name)
			}
		}
		return strings.Join(bad, "+")
	}
	switch {
	case strings.HasPrefix(impl, "err ") && len(routes) > 0 && !hasErr(outs):
		return "unexpected-error", detail
	case strings.HasPrefix(impl, "err "):
		return "wrong-error-class", detail
	case onlyErr:
		// which route's undecidable condition was passed over or taken for a match
		for i, cs := range trace {
			if v := andConds(cs); len(v.E) > 0 && (!v.F || c.Routes[i].Name == route) {
				return keyOf("silent-resolver-failure", notT(cs)), detail
			}
		}
		return "silent-resolver-failure", detail
	case route != "":
		for i, cs := range trace {
			v := andConds(cs)
			if c.Routes[i].Name == route {
				if !v.T {
					return keyOf("matched-despite", notT(cs)), detail
				}
				break
			}
			if !v.F {
				if len(v.E) > 0 {
					return keyOf("silent-resolver-failure", notT(cs)), detail
				}
				return "skipped-matching-route", detail
			}
		}
		if outs[impl] {
			return "wrong-route-same-client", detail
		}
		return "wrong-client", detail
	default:
		return "wrong-outcome", detail
	}
}

// keyOf joins a kind and the attributed conditions (no dangling colon when nothing can be attributed)
func keyOf(kind, conds string) string {
	if conds == "" {
		return kind
	}
	return kind + ":" + conds
}

func hasErr(outs map[string]bool) bool {
	for o := range outs {
		if strings.HasPrefix(o, "err ") {
			return true
		}
	}
	return false
}

// judgeLoad: a configuration whose port-range strings are malformed by the documented syntax must not load.
func (c *Case) judgeLoad(loadResult string) (key, detail string) {
	if loadResult != "ok" {
		return "", ""
	}
	for _, r := range c.Routes {
		for _, s := range []string{r.fromRangeString(), r.toRangeString()} {
			if _, ok, dontCare := readRanges(s); !ok && !dontCare {
				return "malformed-port-ranges-accepted", "route " + r.Name + ": port-range string " + strconvQuote(s) + " is malformed but the configuration loaded"
			}
		}
	}
	return "", ""
}

func strconvQuote(s string) string { return strconv.Quote(s) }
