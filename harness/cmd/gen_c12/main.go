// gen_c12: regenerates lean/SSV/Gen/C12.lean from /repo: the step programs of the UDP relay life cycle
// (deferred clean-up, initialiser with its early returns, uplink goroutine exit, uplink loop tail, Stop)
// for the four relay files service/udp_nat.go, udp_nat_mmsg.go, udp_session.go, udp_session_mmsg.go.
//
// Every extractor walks the statements of the function it translates and fails (GEN-BROKEN) on any
// statement it does not recognise that touches the modelled objects (mutex, table, send channel, state
// pointer, NAT socket, wait groups).
package main

import (
	"fmt"
	"go/ast"
	"go/parser"
	"go/printer"
	"go/token"
	"path/filepath"
	"regexp"
	"strings"

	"ssvharness/internal/gen"
)

// srcPkg: the relay files parsed (not type-checked: the extractors are purely syntactic, and type-checking
// package service from source costs minutes on a loaded machine).
type srcPkg struct {
	fset  *token.FileSet
	files []*ast.File
}

var relayFiles = []string{"udp.go", "udp_nat.go", "udp_nat_mmsg.go", "udp_session.go", "udp_session_mmsg.go"}

func loadRelayFiles(repo string) (*srcPkg, error) {
	p := &srcPkg{fset: token.NewFileSet()}
	for _, n := range relayFiles {
		f, err := parser.ParseFile(p.fset, filepath.Join(repo, "service", n), nil, parser.ParseComments|parser.SkipObjectResolution)
		if err != nil {
			return nil, err
		}
		p.files = append(p.files, f)
	}
	return p, nil
}

// Src prints an AST node as source text on one line (canonical gofmt form).
func (p *srcPkg) Src(n ast.Node) string {
	var sb strings.Builder
	printer.Fprint(&sb, p.fset, n)
	return strings.Join(strings.Fields(sb.String()), " ")
}

// Func finds the method recv.name; it must be declared exactly once in the relay files.
func (p *srcPkg) Func(recv, name string) (*ast.FuncDecl, error) {
	var found []*ast.FuncDecl
	for _, f := range p.files {
		for _, d := range f.Decls {
			fd, ok := d.(*ast.FuncDecl)
			if !ok || fd.Name.Name != name || fd.Recv == nil || len(fd.Recv.List) != 1 {
				continue
			}
			if strings.TrimPrefix(p.Src(fd.Recv.List[0].Type), "*") == strings.TrimPrefix(recv, "*") {
				found = append(found, fd)
			}
		}
	}
	if len(found) != 1 {
		return nil, fmt.Errorf("service: method %s.%s declared %d times in the relay files", recv, name, len(found))
	}
	return found[0], nil
}

// constInt: a package-level `name = <integer literal>` constant.
func (p *srcPkg) constInt(name string) (string, error) {
	for _, f := range p.files {
		for _, d := range f.Decls {
			gd, ok := d.(*ast.GenDecl)
			if !ok || gd.Tok != token.CONST {
				continue
			}
			for _, sp := range gd.Specs {
				vs := sp.(*ast.ValueSpec)
				for i, n := range vs.Names {
					if n.Name == name && i < len(vs.Values) {
						if bl, ok := vs.Values[i].(*ast.BasicLit); ok && bl.Kind == token.INT {
							return bl.Value, nil
						}
						return "", fmt.Errorf("service.%s is not an integer literal: %s", name, p.Src(vs.Values[i]))
					}
				}
			}
		}
	}
	return "", fmt.Errorf("service.%s: no such constant", name)
}

type variant struct {
	lean   string // Lean name prefix
	recv   string // receiver type
	recvFn string
	upFn   string
	downFn string
}

var variants = []variant{
	{"natGeneric", "UDPNATRelay", "recvFromServerConnGeneric", "relayServerConnToNatConnGeneric", "relayNatConnToServerConnGeneric"},
	{"natMmsg", "UDPNATRelay", "recvFromServerConnRecvmmsg", "relayServerConnToNatConnSendmmsg", "relayNatConnToServerConnSendmmsg"},
	{"sessionGeneric", "UDPSessionRelay", "recvFromServerConnGeneric", "relayServerConnToNatConnGeneric", "relayNatConnToServerConnGeneric"},
	{"sessionMmsg", "UDPSessionRelay", "recvFromServerConnRecvmmsg", "relayServerConnToNatConnSendmmsg", "relayNatConnToServerConnSendmmsg"},
}

func main() {
	gen.Main("C12", func(c *gen.Ctx, l *gen.Lean) error {
		p, err := loadRelayFiles(c.Repo)
		if err != nil {
			return err
		}
		capv, err := p.constInt("defaultSendChannelCapacity")
		if err != nil {
			return err
		}
		l.NatDef("defaultSendChannelCapacity", capv, "service.defaultSendChannelCapacity")
		for _, v := range variants {
			x := &extractor{p: p, v: v}
			if err := x.run(); err != nil {
				return fmt.Errorf("%s (%s.%s): %w", v.lean, v.recv, x.where, err)
			}
			l.Comment("service: %s.%s / %s / Stop", v.recv, v.recvFn, v.upFn)
			emit := func(name string, xs []string) {
				l.Raw(fmt.Sprintf("def %s_%s : List String := %s\n", v.lean, name, gen.LeanStrList(xs)))
			}
			emit("cleanup", x.cleanup)
			// the initialiser: calls in order (`initCalls`), and per call whether its early return closes the NAT socket
			var calls, closes []string
			for _, it := range x.init {
				c, cl, _ := strings.Cut(it, "!")
				calls = append(calls, c)
				closes = append(closes, fmt.Sprint(strings.Contains(cl, "natConn.Close")))
			}
			l.Comment("initialiser with early returns: %s", strings.Join(x.init, " ; "))
			emit("initCalls", calls)
			l.Raw(fmt.Sprintf("def %s_initClosesNat : List Bool := [%s]\n", v.lean, strings.Join(closes, ", ")))
			emit("uplinkExit", x.uplinkExit)
			emit("uplinkTail", x.uplinkTail)
			emit("stop", x.stop)
		}
		return nil
	})
}

type extractor struct {
	p     *srcPkg
	v     variant
	where string

	cleanup, init, uplinkExit, uplinkTail, stop []string
}

func (x *extractor) src(n ast.Node) string { return x.p.Src(n) }

func (x *extractor) run() error {
	x.where = x.v.recvFn
	fd, err := x.p.Func("*"+x.v.recv, x.v.recvFn)
	if err != nil {
		return err
	}
	if err := x.session(fd); err != nil {
		return err
	}
	x.where = x.v.upFn
	fd, err = x.p.Func("*"+x.v.recv, x.v.upFn)
	if err != nil {
		return err
	}
	if err := x.uplink(fd); err != nil {
		return err
	}
	x.where = "Stop"
	fd, err = x.p.Func("*"+x.v.recv, "Stop")
	if err != nil {
		return err
	}
	return x.stopProg(fd)
}

// isCall reports whether e is a call whose function prints as one of names.
func (x *extractor) isCall(e ast.Expr, names ...string) (*ast.CallExpr, bool) {
	c, ok := e.(*ast.CallExpr)
	if !ok {
		return nil, false
	}
	f := x.src(c.Fun)
	for _, n := range names {
		if f == n {
			return c, true
		}
	}
	return c, false
}

func isLogCall(src string) bool {
	return strings.HasPrefix(src, "lnc.logger.") || strings.HasPrefix(src, "uplink.logger.") || strings.HasPrefix(src, "s.logger.") ||
		strings.HasPrefix(src, "entry.logger.") || strings.HasPrefix(src, "ce.Write(")
}

// session finds the goroutine started for a new table entry and translates clean-up, initialiser, uplink exit.
func (x *extractor) session(fd *ast.FuncDecl) error {
	var lits []*ast.FuncLit
	ast.Inspect(fd.Body, func(n ast.Node) bool {
		if c, ok := n.(*ast.CallExpr); ok && x.src(c.Fun) == "s.wg.Go" && len(c.Args) == 1 {
			if fl, ok := c.Args[0].(*ast.FuncLit); ok {
				for _, st := range fl.Body.List {
					if _, ok := st.(*ast.DeferStmt); ok {
						lits = append(lits, fl)
						break
					}
				}
			}
		}
		return true
	})
	if len(lits) != 1 {
		return fmt.Errorf("expected exactly one session goroutine (s.wg.Go with a deferred clean-up), found %d", len(lits))
	}
	// the table insert must come before the goroutine starts, under the receive loop's mutex: checked textually
	body := lits[0].Body.List
	if len(body) < 3 {
		return fmt.Errorf("session goroutine too short")
	}
	if x.src(body[0]) != "var sendChClean bool" {
		return fmt.Errorf("unrecognised first statement of the session goroutine: %s", x.src(body[0]))
	}
	ds, ok := body[1].(*ast.DeferStmt)
	if !ok {
		return fmt.Errorf("second statement of the session goroutine is not the deferred clean-up: %s", x.src(body[1]))
	}
	dl, ok := ds.Call.Fun.(*ast.FuncLit)
	if !ok || len(ds.Call.Args) != 0 {
		return fmt.Errorf("deferred clean-up is not a function literal")
	}
	for _, st := range dl.Body.List {
		s := x.src(st)
		switch {
		case s == "s.mu.Lock()":
			x.cleanup = append(x.cleanup, "mu.Lock")
		case s == "s.mu.Unlock()":
			x.cleanup = append(x.cleanup, "mu.Unlock")
		case s == "close(natConnSendCh)":
			x.cleanup = append(x.cleanup, "close(sendCh)")
		case s == "delete(s.table, clientAddrPort)" || s == "delete(s.table, csid)":
			x.cleanup = append(x.cleanup, "delete(table,key)")
		default:
			is, ok := st.(*ast.IfStmt)
			if ok && is.Init == nil && is.Else == nil && x.src(is.Cond) == "!sendChClean" && len(is.Body.List) == 1 {
				if rs, ok := is.Body.List[0].(*ast.RangeStmt); ok && x.src(rs.X) == "natConnSendCh" && len(rs.Body.List) == 1 &&
					x.src(rs.Body.List[0]) == "s.putQueuedPacket(queuedPacket)" {
					x.cleanup = append(x.cleanup, "if !sendChClean drain(sendCh)")
					continue
				}
			}
			return fmt.Errorf("unrecognised statement in the deferred clean-up: %s", s)
		}
	}

	// initialiser
	rest := body[2:]
	i := 0
	sawClean := false
	for i < len(rest) {
		st := rest[i]
		s := x.src(st)
		if as, ok := st.(*ast.AssignStmt); ok && len(as.Rhs) == 1 {
			if s == "sendChClean = true" {
				// the last call of the initialiser must be the swap (which calls there are is decided by the Lean side: cfgOf)
				if len(x.init) == 0 || !strings.HasPrefix(x.init[len(x.init)-1], "state.Swap(natConn)!") {
					return fmt.Errorf("sendChClean = true is not directly after the initialiser's swap")
				}
				sawClean = true
				i++
				continue
			}
			call, ok := as.Rhs[0].(*ast.CallExpr)
			if !ok {
				return fmt.Errorf("unrecognised assignment in the initialiser: %s", s)
			}
			var name, guard string
			switch f := x.src(call.Fun); f {
			case "s.router.GetUDPClient":
				name, guard = "GetUDPClient", "err != nil"
			case "c.NewSession":
				name, guard = "NewSession", "err != nil"
			case "clientInfo.ListenConfig.ListenUDP", "clientInfo.ListenConfig.ListenUDPMmsgConn":
				name, guard = "ListenUDP", "err != nil"
			case "natConn.SetReadDeadline":
				if len(call.Args) != 1 || x.src(call.Args[0]) != "time.Now().Add(lnc.natTimeout)" {
					return fmt.Errorf("unrecognised deadline in the initialiser: %s", s)
				}
				name, guard = "SetReadDeadline(now+natTimeout)", "err != nil"
			case "entry.serverConnUnpacker.NewPacker":
				name, guard = "NewPacker", "err != nil"
			case "entry.state.Swap":
				if a := x.src(call.Args[0]); a != "natConn" && a != "natConn.UDPConn" {
					return fmt.Errorf("unrecognised swap argument: %s", s)
				}
				if x.src(as.Lhs[0]) != "oldState" {
					return fmt.Errorf("unrecognised swap result: %s", s)
				}
				name, guard = "state.Swap(natConn)", "oldState != nil"
			default:
				return fmt.Errorf("unrecognised call in the initialiser: %s", s)
			}
			if sawClean {
				return fmt.Errorf("initialiser call after sendChClean = true: %s", s)
			}
			if i+1 >= len(rest) {
				return fmt.Errorf("initialiser call without a guard: %s", s)
			}
			is, ok := rest[i+1].(*ast.IfStmt)
			if !ok || is.Init != nil || is.Else != nil || x.src(is.Cond) != guard {
				return fmt.Errorf("unrecognised guard after %s: %s", name, x.src(rest[i+1]))
			}
			var closes []string
			n := len(is.Body.List)
			if n == 0 {
				return fmt.Errorf("empty guard after %s", name)
			}
			if rs, ok := is.Body.List[n-1].(*ast.ReturnStmt); !ok || len(rs.Results) != 0 {
				return fmt.Errorf("guard after %s does not end in return", name)
			}
			for _, g := range is.Body.List[:n-1] {
				gs := x.src(g)
				switch {
				case gs == "natConn.Close()":
					closes = append(closes, "natConn.Close")
				case gs == "clientSession.Close()":
					closes = append(closes, "clientSession.Close")
				case isLogCall(gs):
				default:
					return fmt.Errorf("unrecognised statement in the early return after %s: %s", name, gs)
				}
			}
			x.init = append(x.init, name+"!"+strings.Join(closes, ","))
			i += 2
			continue
		}
		if es, ok := st.(*ast.ExprStmt); ok {
			if isLogCall(s) {
				i++
				continue
			}
			if c, ok := x.isCall(es.X, "s.wg.Go"); ok && len(c.Args) == 1 {
				fl, ok := c.Args[0].(*ast.FuncLit)
				if !ok || !sawClean {
					return fmt.Errorf("unrecognised uplink goroutine start: %s", s)
				}
				for _, u := range fl.Body.List {
					us := x.src(u)
					switch {
					case strings.HasPrefix(us, "s."+x.v.upFn+"("):
						if !strings.Contains(us, "natConnSendCh: natConnSendCh") {
							return fmt.Errorf("uplink does not receive the session's send channel")
						}
						x.uplinkExit = append(x.uplinkExit, "relayUplink")
					case us == "natConn.Close()":
						x.uplinkExit = append(x.uplinkExit, "natConn.Close")
					case us == "clientSession.Close()":
						x.uplinkExit = append(x.uplinkExit, "clientSession.Close")
					default:
						return fmt.Errorf("unrecognised statement in the uplink goroutine: %s", us)
					}
				}
				i++
				continue
			}
			if strings.HasPrefix(s, "s."+x.v.downFn+"(") {
				if i != len(rest)-1 || len(x.uplinkExit) == 0 {
					return fmt.Errorf("the downlink call is not the last statement after the uplink start")
				}
				i++
				continue
			}
		}
		return fmt.Errorf("unrecognised statement in the session goroutine: %s", s)
	}
	if !sawClean {
		return fmt.Errorf("sendChClean = true not found")
	}
	if len(x.uplinkExit) == 0 || x.uplinkExit[0] != "relayUplink" {
		return fmt.Errorf("uplink goroutine does not start with the relay call")
	}
	return nil
}

var strLit = regexp.MustCompile(`"[^"]*"`)

// mentionsNat: the statement's code (string literals removed) touches the NAT socket, the state pointer or a deadline.
func mentionsNat(s string) bool {
	t := strLit.ReplaceAllString(s, `""`)
	t = strings.ReplaceAll(t, "natConnSendCh", "")
	t = strings.ReplaceAll(t, "natConnPacker", "")
	return strings.Contains(t, "natConn") || strings.Contains(t, "uplink.state") || strings.Contains(t, "SetReadDeadline")
}

func (x *extractor) logOnly(b *ast.BlockStmt) bool {
	for _, st := range b.List {
		if !isLogCall(x.src(st)) {
			return false
		}
	}
	return true
}

// uplink translates the loop of the uplink function from the send on.
func (x *extractor) uplink(fd *ast.FuncDecl) error {
	var loop *ast.BlockStmt
	n := 0
	for _, st := range fd.Body.List {
		if ls, ok := st.(*ast.LabeledStmt); ok {
			st = ls.Stmt
		}
		switch f := st.(type) {
		case *ast.RangeStmt:
			if x.src(f.X) == "uplink.natConnSendCh" {
				loop = f.Body
				n++
				continue
			}
		case *ast.ForStmt:
			if f.Cond == nil && f.Init == nil && strings.Contains(x.src(f.Body), "<-uplink.natConnSendCh") {
				loop = f.Body
				n++
				continue
			}
		}
		if mentionsNat(x.src(st)) {
			return fmt.Errorf("statement outside the loop touches the NAT socket: %s", x.src(st))
		}
	}
	if n != 1 {
		return fmt.Errorf("expected exactly one receive loop, found %d", n)
	}
	const arm = "uplink.natConn.SetReadDeadline(time.Now().Add(uplink.natTimeout))"
	const force = "_ = uplink.natConn.SetReadDeadline(conn.ALongTimeAgo)"
	for _, st := range loop.List {
		s := x.src(st)
		if !mentionsNat(s) {
			continue
		}
		switch f := st.(type) {
		case *ast.AssignStmt:
			switch {
			case strings.HasPrefix(s, "_, err = uplink.natConn.WriteToUDPAddrPort("):
				x.uplinkTail = append(x.uplinkTail, "send")
				continue
			case s == "err = "+arm:
				x.uplinkTail = append(x.uplinkTail, "natConn.SetReadDeadline(now+natTimeout)")
				continue
			}
		case *ast.ForStmt:
			// for start := 0; start < count; { n, err := uplink.natConn.WriteMsgs(msgvec[start:count], 0) ... }
			c := strLit.ReplaceAllString(s, `""`)
			if strings.Contains(c, "uplink.natConn.WriteMsgs(") && strings.Count(c, "natConn.") == 1 && !strings.Contains(c, "SetReadDeadline") {
				x.uplinkTail = append(x.uplinkTail, "send")
				continue
			}
		case *ast.IfStmt:
			if f.Init != nil && x.src(f.Init) == "err := "+arm && x.src(f.Cond) == "err != nil" && f.Else == nil && x.logOnly(f.Body) {
				x.uplinkTail = append(x.uplinkTail, "natConn.SetReadDeadline(now+natTimeout)")
				continue
			}
			if f.Init == nil && f.Else == nil && len(f.Body.List) == 1 && x.src(f.Body.List[0]) == force {
				if c := x.src(f.Cond); c == "uplink.state.Load() != uplink.natConn" || c == "uplink.state.Load() != uplink.natConn.UDPConn" {
					x.uplinkTail = append(x.uplinkTail, "if state.Load() != natConn natConn.SetReadDeadline(past)")
					continue
				}
			}
		}
		return fmt.Errorf("unrecognised statement touching the NAT socket in the uplink loop: %s", s)
	}
	return nil
}

func (x *extractor) stopProg(fd *ast.FuncDecl) error {
	for _, st := range fd.Body.List {
		s := x.src(st)
		switch f := st.(type) {
		case *ast.ExprStmt:
			switch {
			case s == "s.mwg.Wait()":
				x.stop = append(x.stop, "mwg.Wait")
			case s == "s.wg.Wait()":
				x.stop = append(x.stop, "wg.Wait")
			case s == "s.mu.Lock()":
				x.stop = append(x.stop, "mu.Lock")
			case s == "s.mu.Unlock()":
				x.stop = append(x.stop, "mu.Unlock")
			case isLogCall(s):
			default:
				return fmt.Errorf("unrecognised statement in Stop: %s", s)
			}
		case *ast.ReturnStmt:
			if s != "return nil" {
				return fmt.Errorf("unrecognised return in Stop: %s", s)
			}
		case *ast.RangeStmt:
			switch x.src(f.X) {
			case "s.listeners":
				item, err := x.listenerLoop(f)
				if err != nil {
					return err
				}
				x.stop = append(x.stop, item)
			case "s.table":
				if err := x.tableLoop(f); err != nil {
					return err
				}
				x.stop = append(x.stop, "range table: state.Swap(serverConn); if nil continue; natConn.SetReadDeadline(past)")
			default:
				return fmt.Errorf("unrecognised loop in Stop: %s", s)
			}
		default:
			return fmt.Errorf("unrecognised statement in Stop: %s", s)
		}
	}
	return nil
}

func (x *extractor) listenerLoop(f *ast.RangeStmt) (string, error) {
	if len(f.Body.List) != 2 || x.src(f.Body.List[0]) != "lnc := &s.listeners[i]" {
		return "", fmt.Errorf("unrecognised listener loop in Stop: %s", x.src(f))
	}
	is, ok := f.Body.List[1].(*ast.IfStmt)
	if !ok || is.Init == nil || x.src(is.Cond) != "err != nil" || is.Else != nil {
		return "", fmt.Errorf("unrecognised listener loop in Stop: %s", x.src(f))
	}
	for _, b := range is.Body.List {
		if !isLogCall(x.src(b)) {
			return "", fmt.Errorf("unrecognised statement in Stop's listener loop: %s", x.src(b))
		}
	}
	switch x.src(is.Init) {
	case "err := lnc.serverConn.SetReadDeadline(conn.ALongTimeAgo)":
		return "range listeners: serverConn.SetReadDeadline(past)", nil
	case "err := lnc.serverConn.Close()":
		return "range listeners: serverConn.Close", nil
	}
	return "", fmt.Errorf("unrecognised call in Stop's listener loop: %s", x.src(is.Init))
}

func (x *extractor) tableLoop(f *ast.RangeStmt) error {
	b := f.Body.List
	if f.Tok != token.DEFINE || len(b) != 3 {
		return fmt.Errorf("unrecognised table loop in Stop: %s", x.src(f))
	}
	if x.src(f.Value) != "entry" {
		return fmt.Errorf("unrecognised table loop variable in Stop")
	}
	if x.src(b[0]) != "natConn := entry.state.Swap(entry.serverConn)" {
		return fmt.Errorf("unrecognised first statement of Stop's table loop: %s", x.src(b[0]))
	}
	if x.src(b[1]) != "if natConn == nil { continue }" {
		return fmt.Errorf("unrecognised second statement of Stop's table loop: %s", x.src(b[1]))
	}
	is, ok := b[2].(*ast.IfStmt)
	if !ok || is.Init == nil || x.src(is.Init) != "err := natConn.SetReadDeadline(conn.ALongTimeAgo)" || x.src(is.Cond) != "err != nil" || is.Else != nil {
		return fmt.Errorf("unrecognised third statement of Stop's table loop: %s", x.src(b[2]))
	}
	for _, g := range is.Body.List {
		if !isLogCall(x.src(g)) {
			return fmt.Errorf("unrecognised statement in Stop's table loop: %s", x.src(g))
		}
	}
	return nil
}
