package main

// Thorough tier only: engine "conc" once more under the race detector. /verif/check builds this binary
// without -race, so the engine builds a race-instrumented copy of itself (same module file the check used)
// and runs its quick budget; a `WARNING: DATA RACE` of a child, or any oracle failure, is merged into the
// report. If the race build is not possible here (no cgo toolchain) that is noted, nothing is claimed.

import (
	"encoding/json"
	"fmt"
	"os"
	"os/exec"
	"path/filepath"
	"regexp"
	"strings"

	"ssvharness/internal/common"
)

const envNoRace = "C15_NO_RACE"

var nonWord = regexp.MustCompile(`\W+`)

func runRace(o *common.Options, rep *common.Report) error {
	if !o.Thorough() || o.Replay != "" || os.Getenv(envNoRace) != "" {
		return nil
	}
	harness, err := os.Getwd()
	if err != nil {
		return nil
	}
	if _, err := os.Stat(filepath.Join(harness, "cmd", "corr_c15")); err != nil {
		rep.Note("race run skipped: not started from the harness directory")
		return nil
	}
	dir, err := os.MkdirTemp("", "c15race")
	if err != nil {
		return nil
	}
	defer os.RemoveAll(dir)
	bin := filepath.Join(dir, "corr_c15_race")
	args := []string{"build"}
	if repo := os.Getenv("VERIF_REPO"); repo != "" && repo != "/repo" {
		mf := filepath.Join(harness, "go.scratch."+nonWord.ReplaceAllString(repo, "_")+".mod")
		if _, err := os.Stat(mf); err == nil {
			args = append(args, "-modfile", mf)
		}
	}
	args = append(args, "-race", "-tags", "verif", "-o", bin, "./cmd/corr_c15")
	var env []string
	for _, kv := range os.Environ() {
		if !strings.HasPrefix(kv, "GOSUMDB=") && !strings.HasPrefix(kv, "GOFLAGS=") && !strings.HasPrefix(kv, "GOPROXY=") {
			env = append(env, kv)
		}
	}
	env = append(env, "GOFLAGS=-mod=mod", "GOPROXY=off", "CGO_ENABLED=1")
	build := exec.Command("go", args...)
	build.Dir, build.Env = harness, env
	if out, err := build.CombinedOutput(); err != nil {
		rep.Note("race build not feasible here (%v): %s", err, tail(string(out), 300))
		return nil
	}
	outFile := filepath.Join(dir, "report.json")
	run := exec.Command(bin, "--tier", "quick", "--seed", fmt.Sprint(o.Seed+7777), "--out", outFile)
	run.Dir = harness
	run.Env = append(os.Environ(), envNoRace+"=1", "C15_CONC_ONLY=1", "GORACE=halt_on_error=1")
	out, rerr := run.CombinedOutput()
	b, err := os.ReadFile(outFile)
	if err != nil {
		rep.Note("race run produced no report (%v): %s", rerr, tail(string(out), 300))
		return nil
	}
	var sub common.Report
	if err := json.Unmarshal(b, &sub); err != nil {
		return nil
	}
	for _, f := range sub.OracleFailures {
		f.Engine = "conc-race"
		rep.Fail(f)
	}
	rep.Distribution["race:cases"] += sub.Evaluations
	rep.Evaluations += sub.Evaluations
	rep.Note("engine conc under -race: %d cases, %d oracle failures", sub.Evaluations, len(sub.OracleFailures))
	return nil
}
