package main

// The C15 oracle: a pure function of (case, history), written from the property statement:
//
//	"Bytes written at one end are read at the other exactly once and in order, a write reports
//	only bytes the reader consumed, and concurrent writers never interleave within one write.
//	Closing the write side lets the peer drain what was written and then see end-of-stream while
//	the reverse direction keeps working, closing the read side fails the peer's writes, a deadline
//	unblocks a pending call with a timeout error, and no interleaving of these calls deadlocks or
//	panics."
//
// Time is the runner's logical clock: every call has TInv (sampled immediately before the call)
// and TRet (immediately after). "a precedes b" means a.TRet < b.TInv: a had really returned
// before b was invoked. Everything else is "concurrent" and the oracle accepts either order.
//
// A direction D is (writer end W, reader end R). Every byte written on D is byte(wid*8+off),
// unique within D, so every received chunk names the write and the offsets it came from.
//
// Deadlocks ("stuck-after-close", "stuck-after-deadline") are detected by the runner's watchdog;
// the oracle is only applied to complete histories (every call returned).

import (
	"fmt"
	"sort"
	"strings"
)

type chunk struct {
	wid, off, n int
	tinv, tret  int64
	src         *Rec
}

func (c chunk) String() string {
	return fmt.Sprintf("w%d[%d:%d]@[%d,%d] by %s", c.wid, c.off, c.off+c.n, c.tinv, c.tret, c.src.who())
}

type closeEv struct {
	rec    *Rec
	cw, cr bool // closes the write side (at W) / the read side (at R) of the direction
}

type dirView struct {
	W, R   int
	writes map[int]*Rec // by write id
	reads  []*Rec       // Read calls at R
	wts    []*Rec       // WriteTo calls at R
	closes []closeEv
	rdSets []*Rec // sets of the read deadline of D (srd/sd at R)
	wrSets []*Rec // sets of the write deadline of D (swd/sd at W)
	chunks map[int][]chunk
}

func buildView(h []Rec, d int) *dirView {
	v := &dirView{W: d, R: 1 - d, writes: map[int]*Rec{}, chunks: map[int][]chunk{}}
	for i := range h {
		x := &h[i]
		switch k := x.Op.K; {
		case k == "w" && x.End == v.W:
			v.writes[x.Wid] = x
		case k == "r" && x.End == v.R:
			v.reads = append(v.reads, x)
		case k == "wt" && x.End == v.R:
			v.wts = append(v.wts, x)
		case k == "cw" && x.End == v.W:
			v.closes = append(v.closes, closeEv{rec: x, cw: true})
		case k == "cr" && x.End == v.R:
			v.closes = append(v.closes, closeEv{rec: x, cr: true})
		case k == "c":
			v.closes = append(v.closes, closeEv{rec: x, cw: x.End == v.W, cr: x.End == v.R})
		case k == "srd" && x.End == v.R, k == "swd" && x.End == v.W:
			if k == "srd" {
				v.rdSets = append(v.rdSets, x)
			} else {
				v.wrSets = append(v.wrSets, x)
			}
		case k == "sd":
			if x.End == v.R {
				v.rdSets = append(v.rdSets, x)
			} else {
				v.wrSets = append(v.wrSets, x)
			}
		}
	}
	return v
}

// oracle returns the key and detail of the first failed check ("" = the history is acceptable).
func oracle(c Case, h []Rec) (string, string) {
	// 8. no call panics; no error outside the documented classes
	for i := range h {
		if h[i].Panic != "" {
			return "panic:" + h[i].Op.K, h[i].String()
		}
	}
	for i := range h {
		x := &h[i]
		if strings.HasPrefix(x.Err, "other:") ||
			(x.Err == "sink" && x.Op.K != "wt") ||
			(x.Err == "eof" && x.Op.K != "r") ||
			(isCloseOp(x.Op.K) && x.Err != "nil") ||
			(isDeadlineOp(x.Op.K) && x.Err != "nil" && x.Err != "closed") {
			return "unexpected-error:" + x.Op.K, x.String()
		}
	}
	for d := 0; d < 2; d++ {
		v := buildView(h, d)
		for _, check := range []func() (string, string){
			v.checkCounts, v.checkChunks, v.checkTiling, v.checkOrder, v.checkZeroReads, v.checkCloses, v.checkDeadlines,
		} {
			if k, det := check(); k != "" {
				return k, fmt.Sprintf("direction e%d->e%d: %s", v.W, v.R, det)
			}
		}
	}
	return "", ""
}

// 1. counts are within bounds and consistent with the error.
func (v *dirView) checkCounts() (string, string) {
	for _, w := range v.sortedWrites() {
		if w.N < 0 || w.N > w.Op.N {
			return "bad-count:w", w.String()
		}
		if w.Err == "nil" && w.N != w.Op.N {
			return "short-write-nil-err", w.String()
		}
	}
	for _, r := range v.reads {
		if r.N < 0 || r.N > r.Op.N {
			return "bad-count:r", r.String()
		}
		if r.N > 0 && r.Err != "nil" {
			return "read-data-with-error", r.String()
		}
	}
	for _, t := range v.wts {
		sum, last := 0, len(t.Sink)-1
		for i, ch := range t.Sink {
			sum += len(ch.Data)
			if ch.Err && i != last {
				return "writeto-sink-error", "WriteTo went on after its sink failed: " + t.String()
			}
		}
		if t.N != sum {
			return "writeto-count", fmt.Sprintf("WriteTo returned %d, its sink accepted %d bytes: %s", t.N, sum, t.String())
		}
		if sinkFailed := last >= 0 && t.Sink[last].Err; sinkFailed != (t.Err == "sink") {
			return "writeto-sink-error", "the sink's error is not what WriteTo returned: " + t.String()
		}
	}
	return "", ""
}

func (v *dirView) sortedWrites() []*Rec {
	ids := make([]int, 0, len(v.writes))
	for id := range v.writes {
		ids = append(ids, id)
	}
	sort.Ints(ids)
	ws := make([]*Rec, len(ids))
	for i, id := range ids {
		ws[i] = v.writes[id]
	}
	return ws
}

// 2. every received chunk is a contiguous piece of exactly one write that was really issued.
func (v *dirView) checkChunks() (string, string) {
	add := func(b []byte, tinv, tret int64, src *Rec) (string, string) {
		if len(b) == 0 {
			return "", ""
		}
		ck := chunk{wid: int(b[0] >> 3), off: int(b[0] & 7), n: len(b), tinv: tinv, tret: tret, src: src}
		for i, x := range b {
			w, ok := v.writes[int(x>>3)]
			if !ok || int(x&7) >= w.Op.N {
				return "phantom-bytes", fmt.Sprintf("byte %#02x (w%d offset %d) was never written: %s", x, x>>3, x&7, src.String())
			}
			if int(x>>3) != ck.wid || int(x&7) != ck.off+i {
				return "mixed-chunk", fmt.Sprintf("one chunk holds %s: %s", fmtData(b), src.String())
			}
		}
		v.chunks[ck.wid] = append(v.chunks[ck.wid], ck)
		return "", ""
	}
	for _, r := range v.reads {
		if r.N > 0 {
			if k, d := add(r.Data, r.TInv, r.TRet, r); k != "" {
				return k, d
			}
		}
	}
	for _, t := range v.wts {
		for _, ch := range t.Sink {
			if k, d := add(ch.Data, ch.TInv, ch.TRet, t); k != "" {
				return k, d
			}
		}
	}
	for _, cs := range v.chunks {
		sort.SliceStable(cs, func(i, j int) bool { return cs[i].off < cs[j].off })
	}
	return "", ""
}

func chunkList(cs []chunk) string {
	s := make([]string, len(cs))
	for i, c := range cs {
		s[i] = c.String()
	}
	return strings.Join(s, ", ")
}

// 3. the chunks of a write tile exactly the prefix [0,n) the write reported.
func (v *dirView) checkTiling() (string, string) {
	for _, w := range v.sortedWrites() {
		cs := v.chunks[w.Wid]
		pos := 0
		for _, c := range cs {
			switch {
			case c.off < pos:
				return "dup-bytes", fmt.Sprintf("bytes of w%d delivered twice: %s", w.Wid, chunkList(cs))
			case c.off > pos && pos < w.N:
				return "lost-bytes", fmt.Sprintf("%s reported %d bytes but offset %d was never delivered: %s", w.String(), w.N, pos, chunkList(cs))
			case c.off > pos:
				return "lost-bytes", fmt.Sprintf("gap at offset %d of w%d: %s", pos, w.Wid, chunkList(cs))
			}
			pos = c.off + c.n
		}
		if pos < w.N {
			return "lost-bytes", fmt.Sprintf("%s reported %d bytes, only %d were delivered: %s", w.String(), w.N, pos, chunkList(cs))
		}
		if pos > w.N {
			return "write-undercount", fmt.Sprintf("%s reported %d bytes, %d were delivered: %s", w.String(), w.N, pos, chunkList(cs))
		}
	}
	return "", ""
}

// 4. real-time order: offsets of one write are delivered in order, writes are delivered as
// indivisible units (the "delivered/completed before" relation on writes has no cycle), and a
// chunk is delivered while its write call is in progress.
func (v *dirView) checkOrder() (string, string) {
	ws := v.sortedWrites()
	for _, w := range ws {
		cs := v.chunks[w.Wid]
		for i := range cs {
			for j := i + 1; j < len(cs); j++ { // cs[j].off > cs[i].off
				if cs[j].tret < cs[i].tinv {
					return "reorder-within-write", fmt.Sprintf("%s was delivered before %s", cs[j], cs[i])
				}
			}
		}
		for _, c := range cs {
			if !(w.TInv < c.tret && c.tinv < w.TRet) {
				return "chunk-outside-write", fmt.Sprintf("%s does not overlap %s", c, w.String())
			}
		}
	}
	var nodes []*Rec
	for _, w := range ws {
		if len(v.chunks[w.Wid]) > 0 {
			nodes = append(nodes, w)
		}
	}
	edge := func(a, b *Rec) bool {
		if a.TRet < b.TInv {
			return true
		}
		for _, ca := range v.chunks[a.Wid] {
			for _, cb := range v.chunks[b.Wid] {
				if ca.tret < cb.tinv {
					return true
				}
			}
		}
		return false
	}
	// cycle search (<= 32 nodes)
	state := map[*Rec]int{}
	var stack []*Rec
	var cyc []*Rec
	var dfs func(a *Rec) bool
	dfs = func(a *Rec) bool {
		state[a] = 1
		stack = append(stack, a)
		for _, b := range nodes {
			if b == a || !edge(a, b) {
				continue
			}
			if state[b] == 1 {
				for i, s := range stack {
					if s == b {
						cyc = append([]*Rec(nil), stack[i:]...)
					}
				}
				return true
			}
			if state[b] == 0 && dfs(b) {
				return true
			}
		}
		stack = stack[:len(stack)-1]
		state[a] = 2
		return false
	}
	for _, a := range nodes {
		if state[a] == 0 && dfs(a) {
			var parts []string
			for _, w := range cyc {
				parts = append(parts, fmt.Sprintf("w%d call [%d,%d] chunks {%s}", w.Wid, w.TInv, w.TRet, chunkList(v.chunks[w.Wid])))
			}
			return "interleaved-writes", "each of these writes has a part delivered (or completed) before a part of the next, cyclically: " + strings.Join(parts, " -> ")
		}
	}
	return "", ""
}

// 5. a Read reports "no bytes, no error" only for an empty buffer or an empty write.
func (v *dirView) checkZeroReads() (string, string) {
	for _, r := range v.reads {
		if r.N != 0 || r.Err != "nil" || r.Op.N == 0 {
			continue
		}
		ok := false
		for _, w := range v.writes {
			if w.Op.N == 0 && w.TInv < r.TRet && r.TInv < w.TRet {
				ok = true
			}
		}
		if !ok {
			return "read-zero-nil", r.String()
		}
	}
	return "", ""
}

// 6. closes of the direction.
func (v *dirView) checkCloses() (string, string) {
	closedBefore := func(x *Rec) *Rec { // some close of D had returned before x was invoked
		for _, k := range v.closes {
			if k.rec.TRet < x.TInv {
				return k.rec
			}
		}
		return nil
	}
	invoked := func(x *Rec, cw, cr bool) bool { // a close of that type was invoked before x returned
		for _, k := range v.closes {
			if ((cw && k.cw) || (cr && k.cr)) && k.rec.TInv < x.TRet {
				return true
			}
		}
		return false
	}
	for _, r := range v.reads {
		if k := closedBefore(r); k != nil {
			if !(r.N == 0 && ((r.Err == "eof" && invoked(r, true, false)) || (r.Err == "closed" && invoked(r, false, true)))) {
				return "read-after-close", fmt.Sprintf("%s was invoked after %s", r.String(), k.String())
			}
		}
		if (r.Err == "eof" && !invoked(r, true, false)) || (r.Err == "closed" && !invoked(r, false, true)) {
			return "spurious-close-error:r", r.String() + " but no matching close of this direction had been invoked"
		}
	}
	for _, t := range v.wts {
		if k := closedBefore(t); k != nil {
			if !(t.N == 0 && ((t.Err == "nil" && invoked(t, true, false)) || (t.Err == "closed" && invoked(t, false, true)))) {
				return "writeto-after-close", fmt.Sprintf("%s was invoked after %s", t.String(), k.String())
			}
		}
		// WriteTo only ends without an error at end-of-stream
		if (t.Err == "nil" && !invoked(t, true, false)) || (t.Err == "closed" && !invoked(t, false, true)) {
			return "spurious-close-error:wt", t.String() + " but no matching close of this direction had been invoked"
		}
	}
	for _, w := range v.sortedWrites() {
		if k := closedBefore(w); k != nil {
			if !(w.N == 0 && w.Err == "closed") {
				return "write-after-close", fmt.Sprintf("%s was invoked after %s", w.String(), k.String())
			}
		}
		if w.Err == "closed" && !invoked(w, true, true) {
			return "spurious-close-error:w", w.String() + " but no close of this direction had been invoked"
		}
	}
	// a deadline setter refusing with "closed" needs a close of the direction it guards
	for _, s := range v.rdSets {
		if s.Op.K == "srd" && s.Err == "closed" && !invoked(s, false, true) {
			return "spurious-close-error:srd", s.String()
		}
	}
	for _, s := range v.wrSets {
		if s.Op.K == "swd" && s.Err == "closed" && !invoked(s, true, true) {
			return "spurious-close-error:swd", s.String()
		}
	}
	return "", ""
}

func expires(s *Rec) bool  { return s.Op.D == "past" || s.Op.D == "short" }                       // P-set
func rearms(s *Rec) bool   { return s.Op.D == "zero" || s.Op.D == "future" || s.Op.D == "short" } // Z-set
func surePast(s *Rec) bool { return s.Op.D == "past" }

// 7. deadlines.
func (v *dirView) checkDeadlines() (string, string) {
	type call struct {
		rec  *Rec
		sets []*Rec
	}
	var calls []call
	for _, r := range v.reads {
		calls = append(calls, call{r, v.rdSets})
	}
	for _, t := range v.wts {
		calls = append(calls, call{t, v.rdSets})
	}
	for _, w := range v.sortedWrites() {
		calls = append(calls, call{w, v.wrSets})
	}
	for _, c := range calls {
		x := c.rec
		// a timeout needs an expiry that was not certainly cancelled before the call began
		if x.Err == "timeout" {
			legit := false
			for _, p := range c.sets {
				if !expires(p) || !(p.TInv < x.TRet) {
					continue
				}
				cancelled := false
				for _, z := range c.sets {
					if z != p && rearms(z) && p.TRet < z.TInv && z.TRet < x.TInv {
						cancelled = true
						break
					}
				}
				if !cancelled {
					legit = true
					break
				}
			}
			if !legit {
				return "spurious-timeout:" + x.Op.K, x.String() + " but every expiry of its deadline was cancelled (or none was set) before the call: " + setList(c.sets)
			}
		}
		// an expired deadline that nothing could have re-armed, on a direction nobody closed, must fail the call at once
		closeSeen := false
		for _, k := range v.closes {
			if k.rec.TInv < x.TRet {
				closeSeen = true
			}
		}
		if closeSeen {
			continue
		}
		for _, p := range c.sets {
			if !surePast(p) || !(p.TRet < x.TInv) {
				continue
			}
			interfered := false
			for _, z := range c.sets {
				// any other non-"past" set that could have taken effect after p and before the call returned
				if z != p && !surePast(z) && z.TRet > p.TInv && z.TInv < x.TRet {
					interfered = true
					break
				}
			}
			if !interfered && !(x.N == 0 && x.Err == "timeout") {
				return "deadline-ignored:" + x.Op.K, fmt.Sprintf("%s was invoked after %s and no later set or close intervened", x.String(), p.String())
			}
		}
	}
	return "", ""
}

func setList(sets []*Rec) string {
	s := make([]string, len(sets))
	for i, x := range sets {
		s[i] = x.String()
	}
	return "{" + strings.Join(s, " ; ") + "}"
}
