package main

// Engine "conc": case type, generator, real-time runner and reporting.
//
// No testing/synctest here: goroutines waiting for PipeConn.wrMu (a sync.Mutex) are not
// durably blocked for synctest, so concurrent writers cannot be run inside a bubble.
// Everything the oracle asserts is therefore about *logical* order (an atomic tick counter
// sampled immediately before and after every call), never about wall-clock durations. The only
// wall-clock judgement is the watchdog ("no call returned for 3 s after every end was closed /
// every deadline expired").

import (
	"errors"
	"fmt"
	"io"
	"os"
	"runtime"
	"sort"
	"strconv"
	"strings"
	"sync"
	"sync/atomic"
	"time"

	"ssvharness/internal/common"

	"github.com/database64128/shadowsocks-go/netio"
)

const concRule = "engine conc: random scripted programs on a real netio.NewPipe(), real goroutines, real time: " +
	"1..4 goroutines per end (roles writer/reader/mixed/deadline-controller; sometimes a single reader-only goroutine), <=8 ops per goroutine, <=30 calls per case, " +
	"ops Write(0..8 bytes, every byte unique per direction), Read(cap 0..24 biased to {0,1,len-1,len,len+1,2len,3len}), WriteTo(scripted sink: partial accepts / errors), " +
	"CloseWrite/CloseRead/Close (rarer, biased to script ends), Set{Read,Write,}Deadline(past|short 1-2ms|zero|future, expiries usually re-armed later), random yields; " +
	"after the scripts stall the harness expires all deadlines and closes both ends (order per case) and a watchdog requires every call to return; " +
	"the per-call history (n, error class, bytes, invocation/return ticks of an atomic logical clock) is judged by the statement oracle (oracle.go). " +
	"A case is non-trivial if at least 2 non-empty chunks were transferred and at least one scripted call returned an error before the harness cleanup began; " +
	"distinct by the canonical text of the whole case"

// ---------- case ----------

// Op is one scripted call. K:
//
//	w   Write of N bytes (0..8)
//	r   Read into a buffer of capacity N (0..24)
//	wt  WriteTo into a scripted sink: the sink's i-th Write(p) accepts min(Plan[i], len(p)) bytes
//	    (beyond the plan: all of p) and returns the sink error iff it accepted less than len(p) or
//	    (FF and i is the last plan index)
//	cw / cr / c   CloseWrite / CloseRead / Close
//	srd / swd / sd   SetReadDeadline / SetWriteDeadline / SetDeadline with D in
//	    past (time.Unix(1,0)) | future (now+1h) | zero (time.Time{}) | short (now + N microseconds, N in 1000..2000)
//	y   yield: N==0 runtime.Gosched(), else spin N iterations (not a call, not recorded)
type Op struct {
	K    string `json:"k"`
	N    int    `json:"n,omitempty"`
	D    string `json:"d,omitempty"`
	Plan []int  `json:"plan,omitempty"`
	FF   bool   `json:"ff,omitempty"`
}

type End struct {
	G [][]Op `json:"g"` // one script per goroutine
}

type Case struct {
	Engine  string `json:"engine"`
	Ends    [2]End `json:"ends"`
	Cleanup string `json:"cleanup"` // "close" | "deadline": which cleanup action the harness performs first
}

const (
	maxWriteLen   = 8
	maxReadCap    = 24
	maxOpsPerG    = 8
	maxCalls      = 30
	maxWritesPerD = 32 // byte(wid*8+k) must stay unique
)

func isDeadlineOp(k string) bool { return k == "srd" || k == "swd" || k == "sd" }
func isCloseOp(k string) bool    { return k == "cw" || k == "cr" || k == "c" }

func (c Case) validate() error {
	if c.Engine != "" && c.Engine != "conc" {
		return fmt.Errorf("case engine %q is not conc", c.Engine)
	}
	if c.Cleanup != "close" && c.Cleanup != "deadline" {
		return fmt.Errorf("cleanup %q", c.Cleanup)
	}
	calls := 0
	for e := range c.Ends {
		if len(c.Ends[e].G) < 1 || len(c.Ends[e].G) > 4 {
			return fmt.Errorf("end %d: %d goroutines", e, len(c.Ends[e].G))
		}
		writes := 0
		for g, s := range c.Ends[e].G {
			if len(s) > maxOpsPerG {
				return fmt.Errorf("end %d goroutine %d: %d ops", e, g, len(s))
			}
			for i, op := range s {
				bad := false
				switch {
				case op.K == "w":
					writes++
					bad = op.N < 0 || op.N > maxWriteLen
				case op.K == "r":
					bad = op.N < 0 || op.N > maxReadCap
				case op.K == "wt":
					for _, p := range op.Plan {
						bad = bad || p < 0
					}
				case isCloseOp(op.K):
				case isDeadlineOp(op.K):
					switch op.D {
					case "past", "future", "zero":
					case "short":
						bad = op.N < 1 || op.N > 1000000
					default:
						bad = true
					}
				case op.K == "y":
					bad = op.N < 0 || op.N > 1000000
				default:
					bad = true
				}
				if bad {
					return fmt.Errorf("end %d goroutine %d op %d: malformed %+v", e, g, i, op)
				}
				if op.K != "y" {
					calls++
				}
			}
		}
		if writes > maxWritesPerD {
			return fmt.Errorf("end %d: %d writes (payload bytes would repeat)", e, writes)
		}
	}
	if calls > maxCalls {
		return fmt.Errorf("%d calls", calls)
	}
	return nil
}

// writeIDs numbers the Write ops of each end (= of each direction) in script order.
// wid[e][g][i] is the id of op i of goroutine g of end e, or -1.
func writeIDs(c Case) (wid [2][][]int) {
	for e := range c.Ends {
		next := 0
		wid[e] = make([][]int, len(c.Ends[e].G))
		for g, s := range c.Ends[e].G {
			wid[e][g] = make([]int, len(s))
			for i, op := range s {
				wid[e][g][i] = -1
				if op.K == "w" {
					wid[e][g][i] = next
					next++
				}
			}
		}
	}
	return
}

// payload: byte k of write wid is wid*8+k, unique within a direction.
func payload(wid, n int) []byte {
	b := make([]byte, n)
	for k := range b {
		b[k] = byte(wid*8 + k)
	}
	return b
}

func opString(op Op) string {
	switch {
	case op.K == "w" || op.K == "r":
		return op.K + strconv.Itoa(op.N)
	case op.K == "wt":
		s := "wt["
		for i, p := range op.Plan {
			if i > 0 {
				s += ","
			}
			s += strconv.Itoa(p)
		}
		s += "]"
		if op.FF {
			s += "!"
		}
		return s
	case isDeadlineOp(op.K):
		if op.D == "short" {
			return op.K + "=short" + strconv.Itoa(op.N)
		}
		return op.K + "=" + op.D
	case op.K == "y":
		return "y" + strconv.Itoa(op.N)
	}
	return op.K
}

func sig(c Case) string {
	var sb strings.Builder
	sb.WriteString(c.Cleanup)
	for e := range c.Ends {
		sb.WriteString(" |e")
		sb.WriteString(strconv.Itoa(e))
		for _, s := range c.Ends[e].G {
			sb.WriteString(" (")
			for i, op := range s {
				if i > 0 {
					sb.WriteByte(' ')
				}
				sb.WriteString(opString(op))
			}
			sb.WriteByte(')')
		}
	}
	return sb.String()
}

// ---------- generator ----------

const (
	roleWriter = iota
	roleReader
	roleMixed
	roleCtl
	roleReaderOnly
)

// weights: w, r, wt, deadline, yield
var roleWeights = [...][5]int{
	roleWriter:     {66, 5, 1, 16, 12},
	roleReader:     {5, 58, 9, 16, 12},
	roleMixed:      {33, 33, 6, 16, 12},
	roleCtl:        {5, 6, 1, 58, 30},
	roleReaderOnly: {0, 78, 5, 10, 7},
}

func genWrite(r *common.Rng, L int) Op {
	switch x := r.Intn(20); {
	case x < 12:
		return Op{K: "w", N: L}
	case x < 13:
		return Op{K: "w", N: 0}
	case x < 15:
		return Op{K: "w", N: 1}
	default:
		return Op{K: "w", N: r.Range(0, maxWriteLen)}
	}
}

func genRead(r *common.Rng, L int) Op {
	if r.Chance(1, 5) {
		return Op{K: "r", N: r.Range(0, maxReadCap)}
	}
	// 0 is kept rare: a zero-capacity read consumes nothing
	n := common.Pick(r, []int{0, 1, 1, L - 1, L - 1, L, L, L + 1, 2 * L, 3 * L})
	if n < 0 {
		n = 0
	}
	return Op{K: "r", N: n}
}

func genWriteTo(r *common.Rng, L int) Op {
	op := Op{K: "wt"}
	for i, n := 0, r.Intn(4); i < n; i++ {
		p := common.Pick(r, []int{0, 1, L - 1, L, L, maxWriteLen, r.Range(0, maxWriteLen)})
		if p < 0 {
			p = 0
		}
		op.Plan = append(op.Plan, p)
	}
	if len(op.Plan) > 0 && r.Chance(1, 3) {
		op.FF = true
	}
	return op
}

func genDeadline(r *common.Rng, role int) Op {
	var k string
	switch x := r.Intn(10); {
	case role == roleWriter && x < 6, (role == roleMixed || role == roleCtl) && x < 3:
		k = "swd"
	case (role == roleReader || role == roleReaderOnly) && x < 6, (role == roleMixed || role == roleCtl) && x < 6:
		k = "srd"
	case x < 9:
		k = "sd"
	case role == roleWriter:
		k = "srd"
	default:
		k = "swd"
	}
	op := Op{K: k}
	switch x := r.Intn(20); {
	case x < 6:
		op.D = "past"
	case x < 10:
		op.D = "short"
		op.N = r.Range(1000, 2000)
	case x < 15:
		op.D = "zero"
	default:
		op.D = "future"
	}
	return op
}

func genScript(r *common.Rng, role, L int) []Op {
	n := r.Range(2, maxOpsPerG)
	if role == roleReaderOnly {
		n = r.Range(4, maxOpsPerG)
	}
	w := roleWeights[role]
	total := w[0] + w[1] + w[2] + w[3] + w[4]
	var s []Op
	rearm := "" // an expiry was scripted: usually re-arm the same deadline later (fresh cancel channel)
	for len(s) < n {
		if rearm != "" && r.Chance(2, 5) {
			s = append(s, Op{K: rearm, D: common.Pick(r, []string{"zero", "zero", "future"})})
			rearm = ""
			continue
		}
		x := r.Intn(total)
		switch {
		case x < w[0]:
			s = append(s, genWrite(r, L))
		case x < w[0]+w[1]:
			s = append(s, genRead(r, L))
		case x < w[0]+w[1]+w[2]:
			s = append(s, genWriteTo(r, L))
		case x < w[0]+w[1]+w[2]+w[3]:
			op := genDeadline(r, role)
			if op.D == "past" || op.D == "short" {
				rearm = op.K
			}
			s = append(s, op)
		default:
			op := Op{K: "y"}
			if r.Bool() {
				op.N = r.Range(1, 3000)
			}
			s = append(s, op)
		}
	}
	return s
}

func countCalls(c *Case) int {
	n := 0
	for e := range c.Ends {
		for _, s := range c.Ends[e].G {
			for _, op := range s {
				if op.K != "y" {
					n++
				}
			}
		}
	}
	return n
}

func genCase(r *common.Rng) Case {
	c := Case{Engine: "conc", Cleanup: common.Pick(r, []string{"close", "deadline"})}
	L := common.Pick(r, []int{1, 2, 3, 4, 4, 5, 6, 8, 8}) // the typical write size of this case
	for e := range c.Ends {
		var roles []int
		if r.Chance(3, 20) {
			roles = []int{roleReaderOnly}
		} else {
			roles = append(roles, common.Pick(r, []int{roleWriter, roleWriter, roleWriter, roleMixed}))
			roles = append(roles, common.Pick(r, []int{roleReader, roleReader, roleReader, roleMixed, roleWriter}))
			for i, n := 2, r.Range(2, 4); i < n; i++ {
				roles = append(roles, common.Pick(r, []int{roleWriter, roleWriter, roleReader, roleReader, roleMixed, roleCtl}))
			}
		}
		for _, role := range roles {
			c.Ends[e].G = append(c.Ends[e].G, genScript(r, role, L))
		}
	}
	// closes: rarer, biased to the end of scripts (after a close everything is boring)
	var closes []Op
	if r.Chance(7, 20) {
		for i, n := 0, r.Range(1, 2); i < n; i++ {
			closes = append(closes, Op{K: common.Pick(r, []string{"cw", "cw", "cr", "cr", "c"})})
		}
	}
	// at most maxCalls calls: drop trailing ops of the longest script
	for countCalls(&c)+len(closes) > maxCalls {
		be, bg := 0, 0
		for e := range c.Ends {
			for g, s := range c.Ends[e].G {
				if len(s) > len(c.Ends[be].G[bg]) {
					be, bg = e, g
				}
			}
		}
		s := c.Ends[be].G[bg]
		c.Ends[be].G[bg] = s[:len(s)-1]
	}
	for _, cl := range closes {
		e := r.Intn(2)
		g := r.Intn(len(c.Ends[e].G))
		s := c.Ends[e].G[g]
		switch {
		case len(s) >= maxOpsPerG: // full: replace the last op (a yield if there is one, so the call count cannot grow)
			at := len(s) - 1
			for i, op := range s {
				if op.K == "y" {
					at = i
				}
			}
			s = append(s[:at:at], s[at+1:]...)
			s = append(s, cl)
		case r.Chance(1, 4) && len(s) > 0: // somewhere in the middle
			at := r.Intn(len(s))
			s = append(s[:at:at], append([]Op{cl}, s[at:]...)...)
		default:
			s = append(s[:len(s):len(s)], cl)
		}
		c.Ends[e].G[g] = s
	}
	return c
}

// ---------- history ----------

// Chunk is one Write received by the scripted sink of a WriteTo call.
type Chunk struct {
	Data []byte // the accepted prefix p[:nw]
	TInv int64  // exit tick of the previous sink Write of this WriteTo (or the WriteTo's TInv)
	TRet int64  // tick at exit of this sink Write
	Err  bool   // the sink returned its error from this Write
}

// Rec is one returned call. G == -1: issued by the harness cleanup.
type Rec struct {
	End, G, Idx int
	Op          Op
	Wid         int     // id of the write (ops "w"), else -1
	N           int     // returned count (w, r, wt)
	Err         string  // nil | eof | closed | timeout | sink | other:<text>
	Data        []byte  // bytes actually read (r)
	Sink        []Chunk // sink writes (wt)
	TInv, TRet  int64   // logical clock immediately before / after the call
	Panic       string  // the call panicked
}

func fmtData(b []byte) string {
	if len(b) == 0 {
		return ""
	}
	var parts []string
	for i := 0; i < len(b); {
		j := i + 1
		for j < len(b) && b[j] == b[j-1]+1 && b[j]>>3 == b[i]>>3 {
			j++
		}
		parts = append(parts, fmt.Sprintf("w%d[%d:%d]", b[i]>>3, b[i]&7, int(b[i]&7)+j-i))
		i = j
	}
	return strings.Join(parts, "+")
}

func (x *Rec) who() string {
	if x.G < 0 {
		return fmt.Sprintf("e%d.cleanup", x.End)
	}
	return fmt.Sprintf("e%d.g%d#%d", x.End, x.G, x.Idx)
}

func (x *Rec) String() string {
	s := fmt.Sprintf("[%d,%d] %s %s", x.TInv, x.TRet, x.who(), opString(x.Op))
	if x.Wid >= 0 {
		s += fmt.Sprintf("(w%d)", x.Wid)
	}
	if x.Panic != "" {
		return s + " PANIC " + x.Panic
	}
	switch x.Op.K {
	case "w", "r", "wt":
		s += fmt.Sprintf(" = (%d,%s)", x.N, x.Err)
	default:
		s += " = " + x.Err
	}
	if len(x.Data) > 0 {
		s += " " + fmtData(x.Data)
	}
	for _, ch := range x.Sink {
		s += fmt.Sprintf(" {[%d,%d] %s", ch.TInv, ch.TRet, fmtData(ch.Data))
		if ch.Err {
			s += " err"
		}
		s += "}"
	}
	return s
}

func historyLines(h []Rec) []string {
	out := make([]string, len(h))
	for i := range h {
		out[i] = h[i].String()
	}
	return out
}

// ---------- runner ----------

var errSink = errors.New("c15 scripted sink refuses")

func classify(err error) string {
	switch {
	case err == nil:
		return "nil"
	case errors.Is(err, io.EOF):
		return "eof"
	case errors.Is(err, io.ErrClosedPipe):
		return "closed"
	case errors.Is(err, os.ErrDeadlineExceeded):
		return "timeout"
	case errors.Is(err, errSink):
		return "sink"
	}
	return "other:" + err.Error()
}

type gstate struct {
	end, g int
	script []Op
	wids   []int
	mu     sync.Mutex
	recs   []Rec
	cur    atomic.Int32
	done   atomic.Bool
}

type run struct {
	clock     atomic.Int64
	progress  atomic.Int64
	remaining atomic.Int64
	lastShort atomic.Int64 // unix nanoseconds of the latest "short" deadline handed to the pipe
	conns     [2]*netio.PipeConn
	gs        []*gstate
	cleanup   []Rec
}

func (r *run) tick() int64 { return r.clock.Add(1) }

type sink struct {
	r      *run
	plan   []int
	ff     bool
	i      int
	last   int64
	chunks []Chunk
}

func (s *sink) Write(p []byte) (int, error) {
	nw := len(p)
	if s.i < len(s.plan) && s.plan[s.i] < nw {
		nw = s.plan[s.i]
	}
	var err error
	if nw < len(p) || (s.ff && s.i == len(s.plan)-1) {
		err = errSink
	}
	s.i++
	ch := Chunk{Data: append([]byte(nil), p[:nw]...), TInv: s.last, Err: err != nil}
	ch.TRet = s.r.tick()
	s.last = ch.TRet
	s.chunks = append(s.chunks, ch)
	return nw, err
}

func deadlineTime(op Op) time.Time {
	switch op.D {
	case "past":
		return time.Unix(1, 0)
	case "future":
		return time.Now().Add(time.Hour)
	case "short":
		return time.Now().Add(time.Duration(op.N) * time.Microsecond)
	}
	return time.Time{}
}

// exec performs one call on end e and returns its record.
func (r *run) exec(e, g, idx int, op Op, wid int) Rec {
	rec := Rec{End: e, G: g, Idx: idx, Op: op, Wid: wid}
	c := r.conns[e]
	var buf []byte
	var sk *sink
	var t time.Time
	switch {
	case op.K == "w":
		buf = payload(wid, op.N)
	case op.K == "r":
		buf = make([]byte, op.N)
	case op.K == "wt":
		sk = &sink{r: r, plan: op.Plan, ff: op.FF}
	case isDeadlineOp(op.K):
		t = deadlineTime(op)
		if op.D == "short" {
			for ns := t.UnixNano(); ; {
				if old := r.lastShort.Load(); old >= ns || r.lastShort.CompareAndSwap(old, ns) {
					break
				}
			}
		}
	}
	var n int
	var err error
	rec.TInv = r.tick()
	if sk != nil {
		sk.last = rec.TInv
	}
	pan := common.Safely(func() {
		switch op.K {
		case "w":
			n, err = c.Write(buf)
		case "r":
			n, err = c.Read(buf)
		case "wt":
			var n64 int64
			n64, err = c.WriteTo(sk)
			n = int(n64)
		case "cw":
			err = c.CloseWrite()
		case "cr":
			err = c.CloseRead()
		case "c":
			err = c.Close()
		case "srd":
			err = c.SetReadDeadline(t)
		case "swd":
			err = c.SetWriteDeadline(t)
		case "sd":
			err = c.SetDeadline(t)
		}
	})
	rec.TRet = r.tick()
	if pan != nil {
		rec.Panic = fmt.Sprint(pan)
		rec.Err = "panic"
	} else {
		rec.N = n
		rec.Err = classify(err)
	}
	if op.K == "r" {
		m := n
		if m < 0 {
			m = 0
		}
		if m > len(buf) {
			m = len(buf)
		}
		rec.Data = buf[:m]
	}
	if sk != nil {
		rec.Sink = sk.chunks
	}
	return rec
}

func (r *run) script(gs *gstate, start <-chan struct{}) {
	<-start
	for i, op := range gs.script {
		gs.cur.Store(int32(i))
		if op.K == "y" {
			if op.N == 0 {
				runtime.Gosched()
			} else {
				for k := 0; k < op.N; k++ {
					_ = r.clock.Load()
				}
			}
			continue
		}
		rec := r.exec(gs.end, gs.g, i, op, gs.wids[i])
		gs.mu.Lock()
		gs.recs = append(gs.recs, rec)
		gs.mu.Unlock()
		r.progress.Add(1)
	}
	gs.done.Store(true)
	r.remaining.Add(-1)
	r.progress.Add(1)
}

const (
	pollEvery   = 200 * time.Microsecond
	stallBefore = 5 * time.Millisecond // scripts made no progress for this long: start the cleanup
	reissueIdle = 1 * time.Millisecond
	stuckAfter  = 8 * time.Second // no call returned for this long after the cleanup action: stuck
)

// phase performs one cleanup action on both ends and waits for all script goroutines.
// "deadline": a script may re-arm a deadline after the harness expired it and then block again;
// the harness therefore expires the deadlines again whenever calls have returned since its
// last action and everything stalled again (bounded by the number of scripted ops).
func (r *run) phase(kind string) bool {
	var p0 int64
	issue := func() {
		p0 = r.progress.Load()
		op := Op{K: "sd", D: "past"}
		if kind == "close" {
			op = Op{K: "c"}
		}
		for e := 0; e < 2; e++ {
			r.cleanup = append(r.cleanup, r.exec(e, -1, len(r.cleanup), op, -1))
		}
	}
	issue()
	last := r.progress.Load()
	lastChange := time.Now()
	for r.remaining.Load() > 0 {
		time.Sleep(pollEvery)
		now := time.Now()
		if p := r.progress.Load(); p != last {
			last, lastChange = p, now
			continue
		}
		idle := now.Sub(lastChange)
		if kind == "deadline" && last != p0 && idle >= reissueIdle {
			issue()
			continue
		}
		if idle >= stuckAfter {
			return false
		}
	}
	return true
}

func (r *run) pending() string {
	var p []string
	for _, gs := range r.gs {
		if !gs.done.Load() {
			i := int(gs.cur.Load())
			p = append(p, fmt.Sprintf("e%d.g%d#%d %s", gs.end, gs.g, i, opString(gs.script[i])))
		}
	}
	return strings.Join(p, "; ")
}

func (r *run) history() []Rec {
	var h []Rec
	for _, gs := range r.gs {
		gs.mu.Lock()
		h = append(h, gs.recs...)
		gs.mu.Unlock()
	}
	h = append(h, r.cleanup...)
	sort.SliceStable(h, func(i, j int) bool { return h[i].TInv < h[j].TInv })
	return h
}

type result struct {
	hist        []Rec
	cleanupTick int64 // calls with TRet below this returned before the harness interfered
	stuckKey    string
	stuckDetail string
	notes       []string
}

func runCase(c Case) *result {
	r := &run{}
	r.conns[0], r.conns[1] = netio.NewPipe()
	wid := writeIDs(c)
	for e := range c.Ends {
		for g, s := range c.Ends[e].G {
			r.gs = append(r.gs, &gstate{end: e, g: g, script: s, wids: wid[e][g]})
		}
	}
	r.remaining.Store(int64(len(r.gs)))
	start := make(chan struct{})
	for _, gs := range r.gs {
		go r.script(gs, start)
	}
	close(start)

	// let the scripts run until all finished or nothing returned for a while
	last, lastChange := r.progress.Load(), time.Now()
	for r.remaining.Load() > 0 {
		time.Sleep(pollEvery)
		if p := r.progress.Load(); p != last {
			last, lastChange = p, time.Now()
		} else if time.Since(lastChange) >= stallBefore {
			break
		}
	}

	res := &result{}
	res.cleanupTick = r.tick()
	first, second := "close", "deadline"
	if c.Cleanup == "deadline" {
		first, second = second, first
	}
	if !r.phase(first) {
		res.stuckKey = "stuck-after-" + first
		res.stuckDetail = "no call returned for " + stuckAfter.String() + " after " + first + " cleanup on both ends; still pending: " + r.pending()
		if !r.phase(second) {
			res.notes = append(res.notes, "stuck-after-both: still pending after "+second+" cleanup too: "+r.pending())
		}
	} else if !r.phase(second) { // every goroutine has finished: only performs the other action
		res.stuckKey = "stuck-after-" + second
		res.stuckDetail = "pending: " + r.pending()
	}
	res.hist = r.history()
	// let the timers of "short" deadlines fire (or be seen stopped) inside the case that armed them: a
	// timer callback that crashes the process must do so while its case is still marked as running
	if d := time.Until(time.Unix(0, r.lastShort.Load()).Add(300 * time.Microsecond)); d > 0 && d < time.Second {
		time.Sleep(d)
	}
	return res
}

// ---------- evaluation + reporting ----------

type stats struct {
	chunks        int
	multiChunk    bool // some write was delivered in >= 2 chunks
	contended     bool // a multi-chunk write overlapped another write (with chunks) of its direction
	overlaps      int  // pairs of time-overlapping non-empty writes of one direction from different goroutines
	errs          map[string]bool
	errBeforeClup bool
}

func collect(res *result) stats {
	st := stats{errs: map[string]bool{}}
	perWrite := map[[2]int]int{} // (direction, wid) -> chunks
	note := func(dir int, b []byte) {
		if len(b) > 0 {
			st.chunks++
			perWrite[[2]int{dir, int(b[0] >> 3)}]++
		}
	}
	var writes [2][]*Rec
	for i := range res.hist {
		x := &res.hist[i]
		if x.G < 0 {
			continue
		}
		st.errs[strings.SplitN(x.Err, ":", 2)[0]] = true
		if x.Err != "nil" && x.TRet < res.cleanupTick {
			st.errBeforeClup = true
		}
		switch x.Op.K {
		case "r":
			if x.N > 0 {
				note(1-x.End, x.Data)
			}
		case "wt":
			for _, ch := range x.Sink {
				note(1-x.End, ch.Data)
			}
		case "w":
			if x.Op.N > 0 {
				writes[x.End] = append(writes[x.End], x)
			}
		}
	}
	for d := range writes {
		for i, a := range writes[d] {
			if perWrite[[2]int{d, a.Wid}] >= 2 {
				st.multiChunk = true
			}
			for _, b := range writes[d][i+1:] {
				if a.G != b.G && a.TInv < b.TRet && b.TInv < a.TRet {
					st.overlaps++
					na, nb := perWrite[[2]int{d, a.Wid}], perWrite[[2]int{d, b.Wid}]
					if na >= 1 && nb >= 1 && (na >= 2 || nb >= 2) {
						st.contended = true
					}
				}
			}
		}
	}
	return st
}

type failure struct {
	Key    string `json:"key"`
	Detail string `json:"detail"`
}

// judge turns one run into the list of failures (watchdog first, then the oracle).
func judge(c Case, res *result) []failure {
	var fs []failure
	for i := range res.hist {
		if x := &res.hist[i]; x.Panic != "" {
			fs = append(fs, failure{Key: "panic:" + x.Op.K, Detail: x.String()})
			break
		}
	}
	if res.stuckKey != "" {
		fs = append(fs, failure{Key: res.stuckKey, Detail: res.stuckDetail})
		return fs // the history of a stuck run is incomplete: the oracle would misjudge it
	}
	if len(fs) > 0 {
		return fs
	}
	if k, d := oracle(c, res.hist); k != "" {
		fs = append(fs, failure{Key: k, Detail: d})
	}
	return fs
}
