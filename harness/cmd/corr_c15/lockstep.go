package main

// Engine "lockstep": correspondence of the Lean goroutine-pc model (SSV.Model.Pipe via the ssv_c15
// driver) with the real netio.NewPipe, in a testing/synctest bubble.
//
// The main goroutine issues ONE call at a time (blocking-capable calls Read / Write / WriteTo on worker
// goroutines, 2..4 per end; Close* / Set*Deadline inline), then synctest.Wait()s until every goroutine is
// durably blocked and records which calls returned with what (`ret`) and which are still blocked (`pend`).
// `advance` sleeps past every armed (fake-clock) deadline. The transcript is replayed on the Lean driver,
// which keeps the set of model states consistent with the observations (exploring every interleaving of the
// model's internal steps up to quiescence) and rejects an observation no model run can produce
// (= divergence). sync.Mutex waits are not durably blocking for synctest, so a second Write on an end whose
// first Write is blocked (holding wrMu) is issued WITHOUT waiting for quiescence (`nq call`), immediately
// followed by ops that make the lock holder return (a partial read + a read with room for everything it has
// left, or a close, or a past write deadline); the driver starts such calls without running to quiescence and
// explores every interleaving of their steps with the next call's, so both orders of "who reaches the lock /
// the channel first" are model alternatives and `atomic_writes` is exercised against the model.
//
// Besides the driver comparison a small oracle written from the property statement judges each step
// (exact, because calls are issued sequentially): calls after a close / an expired deadline fail at once
// with the right error, pending calls are released by close / deadline, no timeout without an expired
// deadline, reader and writer never both stay blocked, stream = concatenation of the consumed prefixes.
//
// synctest needs a *testing.T, and testing.Main ends in os.Exit: the bubble part runs in a child process
// (this binary with C15_LS_CHILD set; handled in init before main parses flags).

import (
	"context"
	"encoding/hex"
	"encoding/json"
	"errors"
	"fmt"
	"io"
	"os"
	"os/exec"
	"sort"
	"strconv"
	"strings"
	"sync/atomic"
	"testing"
	"testing/synctest"
	"time"

	"ssvharness/internal/common"

	"github.com/database64128/shadowsocks-go/netio"
)

const envLS = "C15_LS_CHILD" // "gen:<seed>:<base>:<count>:<out>" | "replay:<casefile>:<out>"

type LOp struct {
	T    int    `json:"t"` // worker thread (end*W+g) or 2W = main (inline ops)
	E    int    `json:"e"`
	K    string `json:"k"` // r w wt cr cw c srd swd sd adv
	N    int    `json:"n,omitempty"`
	D    string `json:"d,omitempty"`
	Plan []int  `json:"plan,omitempty"`
	FF   bool   `json:"ff,omitempty"`
	Wid  int    `json:"wid,omitempty"`
	NQ   bool   `json:"nq,omitempty"` // a second Write queued behind wrMu: issued without waiting for quiescence
}

type LCase struct {
	Engine string `json:"engine"`
	W      int    `json:"w"` // workers per end
	Steps  []LOp  `json:"steps"`
}

type lsFail struct {
	Key    string `json:"key"`
	Detail string `json:"detail"`
}

type lsResult struct {
	Case   LCase    `json:"case"`
	Lines  []string `json:"lines"`
	Fails  []lsFail `json:"fails,omitempty"`
	Counts []string `json:"counts"`
	Nontrv bool     `json:"nt"`
}

func init() {
	if spec := os.Getenv(envLS); spec != "" {
		lsChildMain(spec)
		os.Exit(0)
	}
	runLockstep = lockstepEngine
}

// ---------------- child: the bubble ----------------

var lsErrSink = errors.New("c15 sink error")
var lsErrCustom = errors.New("c15 custom close error")

type lsSink struct {
	plan   []int
	ff     bool
	i      int
	chunks [][]byte
}

func (s *lsSink) Write(p []byte) (int, error) {
	nw := len(p)
	fail := false
	if s.i < len(s.plan) {
		if s.plan[s.i] < nw {
			nw = s.plan[s.i]
		}
		fail = nw < len(p) || (s.ff && s.i == len(s.plan)-1)
	}
	s.i++
	s.chunks = append(s.chunks, append([]byte(nil), p[:nw]...))
	if fail {
		return nw, lsErrSink
	}
	return nw, nil
}

type lsWorker struct {
	cmd    chan LOp
	busy   bool
	op     LOp
	done   atomic.Bool
	n      int
	err    string
	chunks [][]byte
	issued lsIssue
}

// lsIssue: what the oracle knew when the call was issued
type lsIssue struct {
	closed  string // "" | "eof" | "closed": direction already closed (first closer)
	expired bool   // the call's deadline already expired
}

func lsClassify(err error) string {
	switch {
	case err == nil:
		return "nil"
	case err == io.EOF:
		return "eof"
	case errors.Is(err, io.ErrClosedPipe):
		return "closed"
	case errors.Is(err, os.ErrDeadlineExceeded):
		return "timeout"
	case errors.Is(err, lsErrSink):
		return "sink"
	case errors.Is(err, lsErrCustom):
		return "custom1"
	}
	return "other:" + err.Error()
}

func lsPayload(wid, n int) []byte {
	b := make([]byte, n)
	for k := range b {
		b[k] = byte(wid*8 + k)
	}
	return b
}

type dlState struct {
	expired bool
	armed   bool
}

type lsRun struct {
	r      *common.Rng
	replay *LCase
	res    lsResult
	W      int
	conns  [2]*netio.PipeConn
	ws     []*lsWorker
	// oracle bookkeeping, per direction d (= writer end)
	closed   [2]string   // first completed closer: "eof" (CloseWrite first) | "closed" (CloseRead first)
	rdl, wdl [2]dlState  // read deadline of the reader end of d, write deadline of the writer end of d
	wrote    [2][][]byte // payloads in issue order
	wroteN   [2][]int    // consumed counts (-1 = in flight)
	chunks   [2][][]byte // everything read on d
	wids     [2]int      // writes issued on d
	wflight  [2]int      // Writes of end e in flight (2 = one of them queued behind wrMu)
	queue    []LOp       // ops that must follow a queued Write at once (they make the lock holder return)
	lastLen  int
	sawErr   bool
	nchunks  int
}

func (x *lsRun) fail(key, format string, a ...any) {
	if len(x.res.Fails) < 5 {
		x.res.Fails = append(x.res.Fails, lsFail{Key: key, Detail: fmt.Sprintf(format, a...)})
	}
}

func (x *lsRun) line(format string, a ...any) {
	x.res.Lines = append(x.res.Lines, fmt.Sprintf(format, a...))
}

func deadlineOf(d string) time.Time {
	switch d {
	case "past":
		return time.Unix(1, 0)
	case "future":
		return time.Now().Add(time.Hour)
	}
	return time.Time{}
}

func (w *lsWorker) loop(x *lsRun) {
	for op := range w.cmd {
		c := x.conns[op.E]
		p := common.Safely(func() {
			switch op.K {
			case "r":
				buf := make([]byte, op.N)
				n, err := c.Read(buf)
				w.n, w.err = n, lsClassify(err)
				if n > 0 && n <= len(buf) {
					w.chunks = [][]byte{append([]byte(nil), buf[:n]...)}
				}
			case "w":
				n, err := c.Write(lsPayload(op.Wid, op.N))
				w.n, w.err = n, lsClassify(err)
			case "wt":
				s := &lsSink{plan: op.Plan, ff: op.FF}
				n, err := c.WriteTo(s)
				w.n, w.err = int(n), lsClassify(err)
				w.chunks = s.chunks
			}
		})
		if p != nil {
			w.n, w.err = 0, "panic:"+fmt.Sprint(p)
		}
		w.done.Store(true)
	}
}

// dirOf: the direction a call of kind k at end e acts on, and whether it is the reader side
func dirOf(k string, e int) (d int, reader bool) {
	switch k {
	case "r", "wt", "cr", "cre", "srd":
		return 1 - e, true
	}
	return e, false
}

func (x *lsRun) inline(op LOp) string {
	c := x.conns[op.E]
	var err error
	p := common.Safely(func() {
		switch op.K {
		case "cr":
			err = c.CloseRead()
		case "cw":
			err = c.CloseWrite()
		case "c":
			err = c.Close()
		case "cre":
			c.CloseReadWithError(lsErrCustom)
		case "cwe":
			c.CloseWriteWithError(lsErrCustom)
		case "srd":
			err = c.SetReadDeadline(deadlineOf(op.D))
		case "swd":
			err = c.SetWriteDeadline(deadlineOf(op.D))
		case "sd":
			err = c.SetDeadline(deadlineOf(op.D))
		}
	})
	if p != nil {
		x.fail("panic:"+op.K, "%v", p)
		return "panic"
	}
	return lsClassify(err)
}

// oracle bookkeeping for an inline op that has completed
func (x *lsRun) noteInline(op LOp, res string) {
	setDL := func(s *dlState, kind string) {
		switch kind {
		case "past":
			s.expired, s.armed = true, false
		case "future":
			s.expired, s.armed = false, true
		case "zero":
			s.expired, s.armed = false, false
		}
	}
	closeDir := func(d int, first string) {
		if x.closed[d] == "" {
			x.closed[d] = first
		}
	}
	e := op.E
	switch op.K {
	case "cr":
		closeDir(1-e, "closed")
	case "cw":
		closeDir(e, "eof")
	case "c":
		closeDir(1-e, "closed")
		closeDir(e, "eof")
	case "cre":
		closeDir(1-e, "custom1")
	case "cwe":
		closeDir(e, "custom1")
	case "srd", "swd", "sd":
		// SetReadDeadline refuses (ErrClosedPipe) once the read side was closed by CloseRead;
		// SetWriteDeadline once the write side was closed by CloseWrite (documented by the code only; not part
		// of the property, so only the effect on the oracle's deadline state is tracked)
		if op.K != "swd" && !(x.closed[1-e] == "closed") {
			setDL(&x.rdl[1-e], op.D)
		}
		if op.K != "srd" && !(x.closed[e] == "eof") {
			setDL(&x.wdl[e], op.D)
		}
	}
	_ = res
}

func (x *lsRun) issueInfo(op LOp) lsIssue {
	d, reader := dirOf(op.K, op.E)
	exp := x.wdl[d].expired
	if reader {
		exp = x.rdl[d].expired
	}
	return lsIssue{closed: x.closed[d], expired: exp}
}

// collect: after quiescence, report returned / pending calls and run the per-step oracle.
func (x *lsRun) collect(step int, cause LOp) {
	for t, w := range x.ws {
		if !w.busy {
			continue
		}
		d, reader := dirOf(w.op.K, w.op.E)
		if !w.done.Load() {
			x.line("pend %d", t)
			// a pending call must have been released by a close of its direction / an expired deadline
			if x.closed[d] != "" {
				x.fail("ls:stuck-after-close:"+w.op.K, "step %d (%s): %s of thread %d still blocked although its direction is closed", step, cause.K, w.op.K, t)
			} else if (reader && x.rdl[d].expired) || (!reader && x.wdl[d].expired) {
				x.fail("ls:stuck-after-deadline:"+w.op.K, "step %d (%s): %s of thread %d still blocked although its deadline expired", step, cause.K, w.op.K, t)
			}
			continue
		}
		w.busy = false
		w.done.Store(false)
		if strings.HasPrefix(w.err, "panic:") {
			x.fail("panic:"+w.op.K, "step %d: %s", step, w.err)
			x.line("ret %d %d panic", t, w.n)
			continue
		}
		x.line("ret %d %d %s", t, w.n, strings.SplitN(w.err, ":", 2)[0])
		if w.err != "nil" {
			x.sawErr = true
		}
		for _, c := range w.chunks {
			if len(c) > 0 {
				x.chunks[d] = append(x.chunks[d], c)
				x.nchunks++
			}
		}
		w.chunks = nil
		// ---- oracle, from the statement ----
		is := w.issued
		switch w.op.K {
		case "w":
			x.wflight[w.op.E]--
			x.wroteN[d][w.op.Wid] = w.n
			if w.n < 0 || w.n > w.op.N {
				x.fail("ls:write-count-range", "step %d: Write(%d) returned %d", step, w.op.N, w.n)
			} else if w.err == "nil" && w.n != w.op.N {
				x.fail("ls:short-write-nil-err", "step %d: Write(%d) returned %d, nil", step, w.op.N, w.n)
			}
			wantW := "closed"
			if is.closed == "custom1" {
				wantW = "custom1"
			}
			if is.closed != "" && !(w.n == 0 && w.err == wantW) {
				x.fail("ls:after-close:w", "step %d: Write issued after the direction was closed returned (%d,%s)", step, w.n, w.err)
			} else if is.closed == "" && is.expired && !(w.n == 0 && w.err == "timeout") {
				x.fail("ls:deadline-ignored:w", "step %d: Write issued with an expired deadline returned (%d,%s)", step, w.n, w.err)
			}
			if (w.err == "closed" || w.err == "custom1") && x.closed[d] == "" {
				x.fail("ls:spurious-close-error:w", "step %d: Write failed with ErrClosedPipe but nobody closed the direction", step)
			}
			if w.err == "timeout" && !x.wdl[d].expired {
				x.fail("ls:spurious-timeout:w", "step %d: Write timed out without an expired write deadline", step)
			}
		case "r", "wt":
			if w.op.K == "r" && w.n > w.op.N {
				x.fail("ls:read-overrun", "step %d: Read(cap %d) returned %d", step, w.op.N, w.n)
			}
			if is.closed != "" {
				want := is.closed
				if w.op.K == "wt" && want == "eof" {
					want = "nil"
				}
				if !(w.n == 0 && w.err == want) {
					x.fail("ls:after-close:"+w.op.K, "step %d: %s issued after the direction was closed (%s first) returned (%d,%s)", step, w.op.K, is.closed, w.n, w.err)
				}
			} else if is.expired && !(w.n == 0 && w.err == "timeout") {
				x.fail("ls:deadline-ignored:"+w.op.K, "step %d: %s issued with an expired deadline returned (%d,%s)", step, w.op.K, w.n, w.err)
			}
			if (w.err == "eof" || w.err == "closed" || w.err == "custom1") && x.closed[d] == "" {
				x.fail("ls:spurious-close-error:"+w.op.K, "step %d: %s failed with %s but nobody closed the direction", step, w.op.K, w.err)
			}
			if w.err == "timeout" && !x.rdl[d].expired {
				x.fail("ls:spurious-timeout:"+w.op.K, "step %d: %s timed out without an expired read deadline", step, w.op.K)
			}
		}
	}
	// a blocked reader and a blocked writer of the same direction could rendezvous: nobody may stay blocked
	for d := 0; d < 2; d++ {
		var rd, wr bool
		for _, w := range x.ws {
			if w.busy {
				dd, reader := dirOf(w.op.K, w.op.E)
				if dd == d {
					if reader {
						rd = true
					} else {
						wr = true
					}
				}
			}
		}
		if rd && wr {
			x.fail("ls:stuck-with-partner", "step %d (%s): a reader and a writer of direction %d are both blocked", step, cause.K, d)
		}
	}
}

func (x *lsRun) idle(e int) []int {
	var ts []int
	for g := 0; g < x.W; g++ {
		if !x.ws[e*x.W+g].busy {
			ts = append(ts, e*x.W+g)
		}
	}
	return ts
}

func (x *lsRun) pickCap() int {
	L := x.lastLen
	switch x.r.Intn(9) {
	case 0:
		return 0
	case 1:
		return 1
	case 2:
		if L > 0 {
			return L - 1
		}
		return 0
	case 3:
		return L
	case 4:
		return L + 1
	case 5:
		return 2 * L
	case 6:
		return 3 * L
	}
	return x.r.Intn(25)
}

// next chooses the next op (adaptive: only idle workers, at most one Write in flight per end).
func (x *lsRun) next(step, total int) (LOp, bool) {
	r := x.r
	main := 2 * x.W
	if len(x.queue) > 0 {
		op := x.queue[0]
		x.queue = x.queue[1:]
		return op, true
	}
	for try := 0; try < 20; try++ {
		e := r.Intn(2)
		k := r.Intn(100)
		switch {
		case k < 34: // read
			if ts := x.idle(e); len(ts) > 0 {
				return LOp{T: common.Pick(r, ts), E: e, K: "r", N: x.pickCap()}, true
			}
		case k < 64: // write
			if ts := x.idle(e); len(ts) > 0 && x.wflight[e] == 0 && x.wids[e] < 31 {
				return LOp{T: common.Pick(r, ts), E: e, K: "w", N: r.Intn(9)}, true
			} else if len(ts) > 0 && x.wflight[e] == 1 && x.wids[e] < 31 && step+2 < total {
				// second concurrent Write on this end: it parks on wrMu behind the blocked Write, which is NOT a
				// durable block for synctest: the ops queued here follow without waiting for quiescence and make
				// the lock holder return (reads with enough room for all it has left / close / write deadline), so
				// that the bubble becomes quiescent again. With two reads the first one takes only part of the
				// holder's bytes: the parked Write must not get in between (atomic writes, against the model).
				rs := x.idle(1 - e)
				k := r.Intn(10)
				switch {
				case k < 6 && len(rs) >= 2 && !x.rdl[e].expired:
					x.queue = []LOp{{T: rs[0], E: 1 - e, K: "r", N: r.Intn(5), NQ: true}, {T: rs[1], E: 1 - e, K: "r", N: 24}}
				case k < 8 && len(rs) >= 1 && !x.rdl[e].expired:
					x.queue = []LOp{{T: rs[0], E: 1 - e, K: "r", N: 24}}
				case k < 9:
					x.queue = []LOp{common.Pick(r, []LOp{{T: main, E: 1 - e, K: "cr"}, {T: main, E: e, K: "cw"}, {T: main, E: e, K: "c"}, {T: main, E: 1 - e, K: "c"}})}
				default:
					x.queue = []LOp{{T: main, E: e, K: common.Pick(r, []string{"swd", "sd"}), D: "past"}}
				}
				return LOp{T: common.Pick(r, ts), E: e, K: "w", N: r.Intn(9), NQ: true}, true
			}
		case k < 70: // writeTo
			if ts := x.idle(e); len(ts) > 0 {
				op := LOp{T: common.Pick(r, ts), E: e, K: "wt", FF: r.Chance(1, 3)}
				for i, n := 0, r.Intn(4); i < n; i++ {
					op.Plan = append(op.Plan, r.Intn(10))
				}
				return op, true
			}
		case k < 86: // deadlines
			kind := common.Pick(r, []string{"past", "past", "future", "future", "zero", "zero", "zero"})
			return LOp{T: main, E: e, K: common.Pick(r, []string{"srd", "swd", "sd"}), D: kind}, true
		case k < 91:
			return LOp{T: main, K: "adv"}, true
		default: // closes: rare, and late
			if step*10 >= total*6 || r.Chance(1, 6) {
				return LOp{T: main, E: e, K: common.Pick(r, []string{"cr", "cw", "cw", "c", "c", "cre", "cwe"})}, true
			}
		}
	}
	return LOp{}, false
}

func (x *lsRun) exec(step int, op LOp) bool {
	main := 2 * x.W
	if os.Getenv("C15_LS_DEBUG") != "" {
		fmt.Fprintf(os.Stderr, "step %d: %+v\n", step, op)
	}
	switch op.K {
	case "adv":
		time.Sleep(2 * time.Hour)
		synctest.Wait()
		for d := 0; d < 2; d++ {
			for _, s := range []*dlState{&x.rdl[d], &x.wdl[d]} {
				if s.armed {
					s.armed, s.expired = false, true
				}
			}
		}
		x.line("advance")
	case "r", "w", "wt":
		if op.T < 0 || op.T >= main || x.ws[op.T].busy || op.T/x.W != op.E || (op.K == "w" && !op.NQ && x.wflight[op.E] != 0) || (op.NQ && op.K == "w" && x.wflight[op.E] != 1) || (op.NQ && op.K == "wt") {
			return false // replay of a script that no longer fits (behaviour changed)
		}
		w := x.ws[op.T]
		d, _ := dirOf(op.K, op.E)
		if op.K == "w" {
			op.Wid = x.wids[d]
			x.wids[d]++
			x.wrote[d] = append(x.wrote[d], lsPayload(op.Wid, op.N))
			x.wroteN[d] = append(x.wroteN[d], -1)
			x.wflight[op.E]++
			x.lastLen = op.N
			nq := ""
			if op.NQ {
				nq = "nq "
			}
			x.line("%scall %d %d w %s", nq, op.T, op.E, hexField(lsPayload(op.Wid, op.N)))
		} else if op.K == "r" {
			nq := ""
			if op.NQ {
				nq = "nq "
			}
			x.line("%scall %d %d r %d", nq, op.T, op.E, op.N)
		} else {
			ff := 0
			if op.FF {
				ff = 1
			}
			plan := "-"
			if len(op.Plan) > 0 {
				ss := make([]string, len(op.Plan))
				for i, c := range op.Plan {
					ss[i] = strconv.Itoa(c)
				}
				plan = strings.Join(ss, ",")
			}
			x.line("call %d %d wt %d %s", op.T, op.E, ff, plan)
		}
		w.issued = x.issueInfo(op)
		w.op, w.busy = op, true
		w.cmd <- op
		if op.NQ {
			// parked on wrMu (or still on its way there): no quiescence to wait for; the next op releases the holder
			x.res.Case.Steps = append(x.res.Case.Steps, op)
			if op.K == "w" {
				x.res.Counts = append(x.res.Counts, "ls:queued-writer")
			}
			return true
		}
		synctest.Wait()
	default: // inline
		res := x.inline(op)
		synctest.Wait()
		if op.D != "" {
			x.line("call %d %d %s %s", main, op.E, op.K, op.D)
		} else {
			x.line("call %d %d %s", main, op.E, op.K)
		}
		x.line("ret %d 0 %s", main, strings.SplitN(res, ":", 2)[0])
		x.noteInline(op, res)
	}
	x.res.Case.Steps = append(x.res.Case.Steps, op)
	x.collect(step, op)
	return true
}

func hexField(b []byte) string {
	if len(b) == 0 {
		return "-"
	}
	return hex.EncodeToString(b)
}

func (x *lsRun) run() {
	x.conns[0], x.conns[1] = netio.NewPipe()
	x.ws = make([]*lsWorker, 2*x.W)
	for i := range x.ws {
		x.ws[i] = &lsWorker{cmd: make(chan LOp)}
		go x.ws[i].loop(x)
	}
	synctest.Wait()
	x.line("new %d", 2*x.W+1)
	if x.replay != nil {
		for i, op := range x.replay.Steps {
			if !x.exec(i, op) {
				x.res.Counts = append(x.res.Counts, "ls:replay-desync")
				break
			}
		}
	} else {
		total := x.r.Range(6, 30)
		for i := 0; i < total; i++ {
			op, ok := x.next(i, total)
			if !ok {
				break
			}
			x.exec(i, op)
		}
	}
	// cleanup: close both ends: every pending call must return
	n := len(x.res.Case.Steps)
	x.exec(n, LOp{T: 2 * x.W, E: 0, K: "c"})
	x.exec(n+1, LOp{T: 2 * x.W, E: 1, K: "c"})
	x.res.Case.Steps = x.res.Case.Steps[:n] // the cleanup is implicit in every case
	for t, w := range x.ws {
		if w.busy {
			x.fail("ls:deadlock:"+w.op.K, "after Close of both ends the %s of thread %d is still blocked", w.op.K, t)
		} else {
			close(w.cmd)
		}
	}
	// stream per direction: sorted chunks == concatenation of the consumed prefixes
	for d := 0; d < 2; d++ {
		cs := x.chunks[d]
		sort.SliceStable(cs, func(i, j int) bool { return cs[i][0] < cs[j][0] })
		var got, want []byte
		for _, c := range cs {
			got = append(got, c...)
		}
		for i, p := range x.wrote[d] {
			if n := x.wroteN[d][i]; n > 0 && n <= len(p) {
				want = append(want, p[:n]...)
			}
		}
		if string(got) != string(want) {
			x.fail("ls:stream-mismatch", "direction %d: bytes read %x, consumed prefixes of the writes %x", d, got, want)
		}
		x.line("stream %d %s", d, hexField(got))
	}
	x.line("quiet")
	x.res.Nontrv = x.nchunks >= 2 && x.sawErr
	x.res.Counts = append(x.res.Counts, fmt.Sprintf("ls:workers/end=%d", x.W), fmt.Sprintf("ls:steps<=%d", (len(x.res.Case.Steps)+9)/10*10))
	if x.nchunks >= 2 {
		x.res.Counts = append(x.res.Counts, "ls:multi-chunk")
	}
}

func lsOne(t *testing.T, r *common.Rng, replay *LCase) (res lsResult) {
	x := &lsRun{r: r, replay: replay}
	if replay != nil {
		x.W = replay.W
	} else {
		x.W = r.Range(2, 4)
	}
	x.res.Case = LCase{Engine: "lockstep", W: x.W}
	defer func() {
		if p := recover(); p != nil {
			x.fail("ls:bubble-panic", "%v", p)
		}
		res = x.res
	}()
	synctest.Test(t, func(t *testing.T) { x.run() })
	return
}

func lsChildMain(spec string) {
	parts := strings.Split(spec, ":")
	var results []lsResult
	body := func(t *testing.T) {
		switch parts[0] {
		case "gen":
			seed, _ := strconv.ParseUint(parts[1], 10, 64)
			base, _ := strconv.Atoi(parts[2])
			count, _ := strconv.Atoi(parts[3])
			root := common.NewRng(seed ^ 0x15c15)
			for i := base; i < base+count; i++ {
				results = append(results, lsOne(t, root.Fork(uint64(i)), nil))
			}
		case "replay":
			var c LCase
			if err := common.LoadReplay(parts[1], &c); err != nil {
				fmt.Fprintln(os.Stderr, err)
				os.Exit(3)
			}
			results = append(results, lsOne(t, common.NewRng(1), &c))
		}
		b, _ := json.Marshal(results)
		if err := os.WriteFile(parts[len(parts)-1], b, 0o644); err != nil {
			fmt.Fprintln(os.Stderr, err)
			os.Exit(3)
		}
		os.Exit(0)
	}
	testing.Init()
	os.Args = os.Args[:1]
	testing.Main(func(pat, str string) (bool, error) { return true, nil }, []testing.InternalTest{{Name: "lockstep", F: body}}, nil, nil)
}

// ---------------- parent ----------------

func lsSpawn(spec string) ([]lsResult, error) {
	f, err := os.CreateTemp("", "c15ls-*.json")
	if err != nil {
		return nil, err
	}
	f.Close()
	defer os.Remove(f.Name())
	ctx, cancel := context.WithTimeout(context.Background(), 4*time.Minute)
	defer cancel()
	cmd := exec.CommandContext(ctx, os.Args[0])
	cmd.Env = append(os.Environ(), envLS+"="+spec+":"+f.Name())
	out, err := cmd.CombinedOutput()
	if ctx.Err() != nil {
		return nil, errLSHang
	}
	b, rerr := os.ReadFile(f.Name())
	if rerr != nil || len(b) == 0 {
		return nil, fmt.Errorf("lockstep child failed: %v: %s", err, tail(string(out), 600))
	}
	var rs []lsResult
	if err := json.Unmarshal(b, &rs); err != nil {
		return nil, err
	}
	return rs, nil
}

var errLSHang = errors.New("lockstep child did not become quiescent (hung bubble)")

func tail(s string, n int) string {
	if len(s) > n {
		return s[len(s)-n:]
	}
	return s
}

func lsJudge(o *common.Options, rep *common.Report, rs []lsResult) error {
	var all []string
	for _, r := range rs {
		all = append(all, r.Lines...)
	}
	var ans []string
	if o.Driver != "" {
		var err error
		ans, err = common.RunDriverOnce(o.Driver, all)
		if err != nil {
			return err
		}
	}
	pos := 0
	for _, r := range rs {
		sig, _ := json.Marshal(r.Case)
		rep.Case("ls:"+string(sig), r.Nontrv)
		for _, c := range r.Counts {
			rep.Count(c)
		}
		if rep.Distribution["ls:sampled"] < 2 && len(r.Lines) > 20 {
			rep.Count("ls:sampled")
			smp := map[string]any{"engine": "lockstep", "case": r.Case, "transcript": strings.Join(r.Lines, " / ")}
			if len(rep.Samples) >= 6 { // the sample list is capped: make room for this engine
				rep.Samples = rep.Samples[:5]
			}
			rep.Samples = append([]any{smp}, rep.Samples...)
		}
		for _, f := range r.Fails {
			failCapped(rep, common.OracleFailure{Engine: "lockstep", Key: f.Key, Case: r.Case, Detail: f.Detail})
		}
		if ans != nil {
			a := ans[pos : pos+len(r.Lines)]
			for i, l := range a {
				if !strings.HasPrefix(l, "ok") {
					rep.Diverge(common.Divergence{Engine: "lockstep", Case: r.Case, Impl: strings.Join(r.Lines[:i+1], " / "), Model: l,
						Note: "the implementation's observation is not producible by any interleaving of the model"})
					break
				}
			}
			rep.TracesValidated++
		}
		pos += len(r.Lines)
	}
	return nil
}

func lockstepEngine(o *common.Options, rep *common.Report) error {
	rep.Rule += " | engine lockstep: adaptive scripts of 6..30 calls (Read caps {0,1,L-1,L,L+1,2L,3L,rnd}, Write 0..8 bytes, WriteTo with a scripted sink, " +
		"Close*/Set*Deadline(past|future|zero), advance past armed deadlines) issued one at a time on 2..4 workers per end inside a synctest bubble; " +
		"each quiescent observation must be accepted by the Lean model's reachable-state set; non-trivial = >=2 chunks transferred and some call failed; distinct by script"
	if o.Replay != "" {
		rs, err := lsSpawn("replay:" + o.Replay)
		if err != nil {
			return err
		}
		return lsJudge(o, rep, rs)
	}
	n := o.Budget(1200, 25000)
	const batch = 400
	type job struct {
		rs  []lsResult
		err error
	}
	var jobs []chan job
	sem := make(chan struct{}, 4)
	for base := 0; base < n; base += batch {
		cnt := batch
		if base+cnt > n {
			cnt = n - base
		}
		ch := make(chan job, 1)
		jobs = append(jobs, ch)
		go func(base, cnt int) {
			sem <- struct{}{}
			defer func() { <-sem }()
			rs, err := lsSpawn(fmt.Sprintf("gen:%d:%d:%d", o.Seed, base, cnt))
			ch <- job{rs, err}
		}(base, cnt)
	}
	for _, ch := range jobs {
		j := <-ch
		if j.err == errLSHang {
			failCapped(rep, common.OracleFailure{Engine: "lockstep", Key: "ls:hang", Case: fmt.Sprintf("batch of seed %d", o.Seed),
				Detail: "a synctest bubble never became quiescent: a pipe call that had to return (close / deadline / matching read issued) stayed runnable-blocked"})
			continue
		}
		if j.err != nil {
			return j.err
		}
		if err := lsJudge(o, rep, j.rs); err != nil {
			return err
		}
	}
	return nil
}
