package main

// Engine "conc": process isolation and reporting.
//
// A defect of the pipe can kill the whole process from a goroutine no harness can guard (the
// timer callback of pipeDeadline closing a closed channel, "sync: unlock of unlocked mutex", a
// runtime deadlock report). The cases are therefore run by child processes (this same binary
// with C15_CONC_CHILD set), one per batch; the child announces every case before it starts it
// and reports its outcome when it is done. If a child dies, the cases that were in flight are
// re-run one per process to isolate the input, and the death is reported as an oracle failure
// "fatal:<first line of the runtime's message>" with that case.

import (
	"bufio"
	"bytes"
	"context"
	"encoding/json"
	"fmt"
	"os"
	"os/exec"
	"regexp"
	"runtime"
	"sort"
	"strconv"
	"strings"
	"sync"
	"sync/atomic"
	"time"

	"ssvharness/internal/common"
)

const (
	envChild     = "C15_CONC_CHILD" // "<base>:<count>:<repeat>" | "replay"
	batchSize    = 256
	replayTries  = 300
	isolateTries = 40
	childTimeout = 10 * time.Minute
)

// outcome is what a child tells its parent about one case.
type outcome struct {
	Nontrivial bool      `json:"nt,omitempty"`
	Counts     []string  `json:"counts"`
	Fails      []failure `json:"fails,omitempty"`
	Notes      []string  `json:"notes,omitempty"`
	Stuck      bool      `json:"stuck,omitempty"`
	Hist       []string  `json:"hist,omitempty"` // only for the few cases that may become report samples
}

type childLine struct {
	T string   `json:"t"` // "start" | "done"
	I int      `json:"i"`
	O *outcome `json:"o,omitempty"`
}

func summarize(c Case, res *result, fs []failure, wantHist bool) *outcome {
	st := collect(res)
	oc := &outcome{Nontrivial: st.chunks >= 2 && st.errBeforeClup, Notes: res.notes, Stuck: res.stuckKey != ""}
	count := func(s string) { oc.Counts = append(oc.Counts, s) }
	for e := range c.Ends {
		count(fmt.Sprintf("goroutines/end=%d", len(c.Ends[e].G)))
	}
	count("cleanup=" + c.Cleanup)
	if st.multiChunk {
		count("multi-chunk-write=yes")
	} else {
		count("multi-chunk-write=no")
	}
	if st.contended {
		count("multi-chunk-write-under-contention=yes")
	}
	switch {
	case st.overlaps == 0:
		count("writer-overlaps=0")
	case st.overlaps <= 2:
		count("writer-overlaps=1-2")
	default:
		count("writer-overlaps=3+")
	}
	switch {
	case st.chunks == 0:
		count("chunks=0")
	case st.chunks < 4:
		count("chunks=1-3")
	default:
		count("chunks=4+")
	}
	var errs []string
	for k := range st.errs {
		if k != "nil" {
			errs = append(errs, "err="+k)
		}
	}
	sort.Strings(errs)
	oc.Counts = append(oc.Counts, errs...)
	hasClose := false
	for e := range c.Ends {
		for _, s := range c.Ends[e].G {
			for _, op := range s {
				hasClose = hasClose || isCloseOp(op.K)
			}
		}
	}
	if hasClose {
		count("scripted-close=yes")
	}
	if wantHist {
		oc.Hist = historyLines(res.hist)
	}
	for _, f := range fs {
		oc.Fails = append(oc.Fails, failure{Key: f.Key, Detail: f.Detail + " || history: " + strings.Join(historyLines(res.hist), " ; ")})
	}
	return oc
}

func apply(rep *common.Report, tag string, c Case, oc *outcome) {
	rep.Case(sig(c), oc.Nontrivial)
	for _, k := range oc.Counts {
		rep.Count(k)
	}
	if oc.Hist != nil {
		rep.Sample(map[string]any{"case": c, "history": oc.Hist})
	}
	for _, n := range oc.Notes {
		rep.Note("%s: %s", tag, n)
	}
	for _, f := range oc.Fails {
		failCapped(rep, common.OracleFailure{Engine: "conc", Key: f.Key, Case: c, Detail: tag + ": " + f.Detail})
	}
	rep.TracesValidated++
}

// ---------- child side ----------

type lineOut struct{ mu sync.Mutex }

// emit writes one protocol line straight to stdout (no buffering: a line must survive a crash).
func (l *lineOut) emit(x childLine) {
	b, _ := json.Marshal(x)
	l.mu.Lock()
	os.Stdout.Write(append(b, '\n'))
	l.mu.Unlock()
}

func concChild(o *common.Options, spec string) error {
	var out lineOut
	if spec == "replay" {
		var c Case
		if err := common.LoadReplay(o.Replay, &c); err != nil {
			return err
		}
		for i := 0; i < replayTries; i++ {
			out.emit(childLine{T: "start", I: i})
			res := runCase(c)
			fs := judge(c, res)
			out.emit(childLine{T: "done", I: i, O: summarize(c, res, fs, i == 0 || len(fs) > 0)})
			if len(fs) > 0 {
				break
			}
		}
		return nil
	}
	var base, m, repeat int
	if _, err := fmt.Sscanf(spec, "%d:%d:%d", &base, &m, &repeat); err != nil || m < 1 || repeat < 1 {
		return fmt.Errorf("bad %s=%q", envChild, spec)
	}
	rng := common.NewRng(o.Seed)
	cases := make([]Case, m)
	for i := range cases {
		cases[i] = genCase(rng.Fork(uint64(base + i)))
		if err := cases[i].validate(); err != nil {
			return fmt.Errorf("generator produced an invalid case (index %d): %v", base+i, err)
		}
	}
	var next atomic.Int64
	var stop atomic.Bool
	var wg sync.WaitGroup
	for w, workers := 0, min(8, runtime.GOMAXPROCS(0)); w < workers; w++ {
		wg.Add(1)
		go func() {
			defer wg.Done()
			for !stop.Load() {
				i := int(next.Add(1)) - 1
				if i >= m {
					return
				}
				out.emit(childLine{T: "start", I: base + i})
				var res *result
				var fs []failure
				for k := 0; k < repeat; k++ {
					res = runCase(cases[i])
					if fs = judge(cases[i], res); len(fs) > 0 {
						break
					}
				}
				if res.stuckKey != "" {
					stop.Store(true) // every further stuck case costs seconds
				}
				out.emit(childLine{T: "done", I: base + i, O: summarize(cases[i], res, fs, base+i < 6)})
			}
		}()
	}
	wg.Wait()
	return nil
}

// ---------- parent side ----------

type childRun struct {
	started map[int]bool
	done    map[int]*outcome
	died    string // "" = exited 0; else why
	stderr  string
}

func spawn(o *common.Options, spec string) (*childRun, error) {
	exe, err := os.Executable()
	if err != nil {
		return nil, err
	}
	args := []string{"--tier", o.Tier, "--seed", strconv.FormatUint(o.Seed, 10), "--out", "-"}
	if o.Replay != "" {
		args = append(args, "--replay", o.Replay)
	}
	ctx, cancel := context.WithTimeout(context.Background(), childTimeout)
	defer cancel()
	cmd := exec.CommandContext(ctx, exe, args...)
	cmd.Env = append(os.Environ(), envChild+"="+spec)
	var stderr bytes.Buffer
	cmd.Stderr = &stderr
	stdout, err := cmd.StdoutPipe()
	if err != nil {
		return nil, err
	}
	if err := cmd.Start(); err != nil {
		return nil, err
	}
	cr := &childRun{started: map[int]bool{}, done: map[int]*outcome{}}
	sc := bufio.NewScanner(stdout)
	sc.Buffer(make([]byte, 1<<16), 1<<26)
	for sc.Scan() {
		var l childLine
		if json.Unmarshal(sc.Bytes(), &l) != nil {
			continue
		}
		switch l.T {
		case "start":
			cr.started[l.I] = true
		case "done":
			if l.O != nil {
				cr.done[l.I] = l.O
			}
		}
	}
	werr := cmd.Wait()
	cr.stderr = stderr.String()
	switch {
	case ctx.Err() != nil:
		cr.died = "no answer within " + childTimeout.String()
	case werr != nil:
		cr.died = werr.Error()
	}
	return cr, nil
}

var hexRe = regexp.MustCompile(`0x[0-9a-fA-F]+`)

// fatalKey: the first line the Go runtime printed about the death, made stable.
func fatalKey(cr *childRun) string {
	for _, ln := range strings.Split(cr.stderr, "\n") {
		for _, p := range []string{"panic: ", "fatal error: "} {
			if strings.HasPrefix(ln, p) {
				msg := hexRe.ReplaceAllString(strings.TrimSpace(strings.TrimPrefix(ln, p)), "0x?")
				if len(msg) > 80 {
					msg = msg[:80]
				}
				return "fatal:" + msg
			}
		}
	}
	return "fatal:" + cr.died
}

func excerpt(s string, lines int) string {
	ls := strings.Split(strings.TrimSpace(s), "\n")
	if len(ls) > lines {
		ls = ls[:lines]
	}
	return strings.Join(ls, " | ")
}

func runConc(o *common.Options, rep *common.Report) error {
	rng := common.NewRng(o.Seed)
	n := o.Budget(1500, 40000)
	for base := 0; base < n; base += batchSize {
		m := min(batchSize, n-base)
		cr, err := spawn(o, fmt.Sprintf("%d:%d:1", base, m))
		if err != nil {
			return err
		}
		if i := strings.Index(cr.stderr, "WARNING: DATA RACE"); i >= 0 { // only in the -race build (race.go)
			rep.Fail(common.OracleFailure{Engine: "conc", Key: "data-race", Case: fmt.Sprintf("cases %d..%d of seed %d", base, base+m-1, o.Seed),
				Detail: excerpt(cr.stderr[i:], 30)})
			rep.Note("engine conc stopped: the race detector reported a data race in batch %d", base/batchSize)
			return nil
		}
		if cr.died != "" && len(cr.started) == 0 { // did not even begin: not the pipe's doing
			return fmt.Errorf("child process for cases %d.. failed: %s: %s", base, cr.died, excerpt(cr.stderr, 6))
		}
		// deterministic order: by case index, up to the first case without an outcome
		for i := base; i < base+m; i++ {
			oc := cr.done[i]
			if oc == nil {
				break
			}
			apply(rep, fmt.Sprintf("case #%d of seed %d", i, o.Seed), genCase(rng.Fork(uint64(i))), oc)
			if oc.Stuck {
				rep.Note("engine conc stopped after case #%d: a stuck pipe call costs %s per case", i, stuckAfter)
				return nil
			}
		}
		if cr.died == "" {
			continue
		}
		// the child died: isolate the input among the cases that were in flight
		var suspects []int
		for i := range cr.started {
			if cr.done[i] == nil {
				suspects = append(suspects, i)
			}
		}
		sort.Ints(suspects)
		for _, s := range suspects {
			one, err := spawn(o, fmt.Sprintf("%d:1:%d", s, isolateTries))
			if err != nil {
				return err
			}
			if one.died != "" {
				c := genCase(rng.Fork(uint64(s)))
				rep.Case(sig(c), false)
				rep.Fail(common.OracleFailure{Engine: "conc", Key: fatalKey(one), Case: c,
					Detail: fmt.Sprintf("case #%d of seed %d kills the process (alone in a process, within %d runs): %s", s, o.Seed, isolateTries, excerpt(one.stderr, 14))})
				rep.Note("engine conc stopped after case #%d killed its process", s)
				return nil
			}
		}
		var c any
		if len(suspects) > 0 {
			c = genCase(rng.Fork(uint64(suspects[0])))
		}
		rep.Fail(common.OracleFailure{Engine: "conc", Key: fatalKey(cr), Case: c,
			Detail: fmt.Sprintf("the process running cases %d..%d of seed %d died (%s) and none of the cases in flight %v reproduced it alone in %d runs each; the reported case is the first of them: %s",
				base, base+m-1, o.Seed, cr.died, suspects, isolateTries, excerpt(cr.stderr, 14))})
		rep.Note("engine conc stopped: the process of batch %d died", base/batchSize)
		return nil
	}
	return nil
}

// replayConc re-runs the case of a replay file. Real scheduling is not reproducible, so the case
// is run up to 300 times until it fails; that failure is reported (nothing if it never fails).
func replayConc(o *common.Options, rep *common.Report) error {
	var c Case
	if err := common.LoadReplay(o.Replay, &c); err != nil {
		return err
	}
	if err := c.validate(); err != nil {
		return fmt.Errorf("replay case: %v", err)
	}
	cr, err := spawn(o, "replay")
	if err != nil {
		return err
	}
	if cr.died != "" && len(cr.started) == 0 {
		return fmt.Errorf("replay child failed: %s: %s", cr.died, excerpt(cr.stderr, 6))
	}
	runs := 0
	for i := 0; i < replayTries; i++ {
		oc := cr.done[i]
		if oc == nil {
			break
		}
		runs++
		apply(rep, fmt.Sprintf("replay run %d", i+1), c, oc)
		if len(oc.Fails) > 0 {
			rep.Note("replay: failed on run %d of at most %d", i+1, replayTries)
			return nil
		}
	}
	if cr.died != "" {
		rep.Case(sig(c), false)
		rep.Fail(common.OracleFailure{Engine: "conc", Key: fatalKey(cr), Case: c,
			Detail: fmt.Sprintf("replay run %d kills the process: %s", runs+1, excerpt(cr.stderr, 14))})
		return nil
	}
	rep.Note("replay: no failure in %d runs", runs)
	return nil
}
