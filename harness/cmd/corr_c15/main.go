// corr_c15: property oracle engines for C15 (netio.PipeConn is a faithful duplex stream with
// half-close and deadlines).
//
// Engine "conc" (conc.go, oracle.go): scripted multi-goroutine programs over a real
// netio.NewPipe() in real time with real goroutines; the per-call history (returned count,
// error class, bytes, logical invocation/return ticks) is judged by an oracle written from
// the property statement.
//
// A second engine ("lockstep", lockstep.go) plugs in by assigning runLockstep in an init().
// It is called after conc with the same options/report; on --replay of a case whose
// "engine" member is "lockstep" it is called instead of conc and must look at o.Replay itself.
package main

import (
	"fmt"
	"os"

	"ssvharness/internal/common"
)

// runLockstep is the hook of the optional second engine (nil = not built in).
var runLockstep func(o *common.Options, rep *common.Report) error

// failCapped keeps at most 4 failures per key in the report's (capped) list so that one frequent key does not
// crowd out the other keys; every failure is still counted in the distribution.
var failsPerKey = map[string]int{}

func failCapped(rep *common.Report, f common.OracleFailure) {
	failsPerKey[f.Key]++
	if failsPerKey[f.Key] <= 4 {
		rep.Fail(f)
	} else {
		rep.Count("ORACLE-FAIL:" + f.Key)
	}
}

func main() {
	o := common.ParseFlags()
	if spec := os.Getenv(envChild); spec != "" { // engine conc runs its cases in child processes (child.go)
		if err := concChild(o, spec); err != nil {
			fmt.Fprintln(os.Stderr, "corr_c15 child:", err)
			os.Exit(3)
		}
		return
	}
	rep := common.NewReport("C15", o)
	rep.Engines = []string{"conc"}
	if runLockstep != nil {
		rep.Engines = append(rep.Engines, "lockstep")
	}
	rep.Rule = concRule

	var err error
	if o.Replay != "" {
		var hdr struct {
			Engine string `json:"engine"`
		}
		if err = common.LoadReplay(o.Replay, &hdr); err == nil {
			switch hdr.Engine {
			case "", "conc":
				err = replayConc(o, rep)
			case "lockstep":
				if runLockstep != nil {
					err = runLockstep(o, rep)
				} else {
					err = fmt.Errorf("replay case is for engine %q which is not built into this binary", hdr.Engine)
				}
			default:
				err = fmt.Errorf("replay case names unknown engine %q", hdr.Engine)
			}
		}
	} else {
		err = runConc(o, rep)
		if err == nil && runLockstep != nil && os.Getenv("C15_CONC_ONLY") == "" {
			err = runLockstep(o, rep)
		}
		if err == nil {
			err = runRace(o, rep) // thorough tier only: conc again under the race detector
		}
	}

	if err != nil {
		fmt.Fprintln(os.Stderr, "corr_c15:", err)
		rep.Note("engine error: %v", err)
		rep.Write(o.Out)
		os.Exit(3)
	}
	if err := rep.Write(o.Out); err != nil {
		fmt.Fprintln(os.Stderr, err)
		os.Exit(3)
	}
}
