// gen_c18: regenerates lean/SSV/Gen/C18.lean from /repo: the numbers, tables and the
// presence/shape of the validation steps that the C18 model and theorems depend on.
//
// Every extractor matches the canonical (gofmt, one line) source text of a statement against the
// shapes it knows; a statement that mentions one of the watched identifiers and has another shape
// is an error (GEN-BROKEN: the tie is broken), never skipped.
package main

import (
	"fmt"
	"go/ast"
	"go/parser"
	"go/printer"
	"go/token"
	"math/big"
	"os"
	"path/filepath"
	"regexp"
	"sort"
	"strconv"
	"strings"

	"ssvharness/internal/gen"
)

func main() {
	gen.Main("C18", func(c *gen.Ctx, l *gen.Lean) error {
		// Only syntax is needed (statement shapes and integer constants): the packages are parsed, not
		// type-checked - type-checking `service` from source drags in every dependency of the module.
		svc, err := loadLight(c.Repo, "service")
		if err != nil {
			return err
		}
		ss, err := loadLight(c.Repo, "ss2022")
		if err != nil {
			return err
		}
		rt, err := loadLight(c.Repo, "router")
		if err != nil {
			return err
		}
		ap, err := loadLight(c.Repo, "api")
		if err != nil {
			return err
		}
		g := &gctx{svc: svc, ss: ss, rt: rt, ap: ap, l: l}
		for _, f := range []func() error{g.consts, g.perf, g.natTimeout, g.mtu, g.pskLengths, g.policies, g.filterSize, g.directTargetOnly, g.defaultClient, g.legacy, g.setNames, g.serverIndex, g.apiBlock, g.clientAddresses} {
			if err := f(); err != nil {
				return err
			}
		}
		return nil
	})
}

type gctx struct {
	svc, ss, rt, ap *pkg
	l       *gen.Lean
}

// intOf resolves a decimal literal or a package-level constant name.
func intOf(p *pkg, tok string) (string, error) {
	if _, err := strconv.ParseUint(tok, 10, 64); err == nil {
		return tok, nil
	}
	return p.ConstInt(tok)
}

func (g *gctx) consts() error {
	for _, n := range []string{"minimumMTU", "defaultRelayBatchSize", "defaultServerRecvBatchSize", "defaultSendChannelCapacity", "defaultNatTimeout"} {
		v, err := g.svc.ConstInt(n)
		if err != nil {
			return err
		}
		g.l.NatDef(n, v, "service."+n)
	}
	for _, n := range []string{"ReplayWindowDuration", "DefaultSlidingWindowFilterSize", "MaxEpochDiff"} {
		v, err := g.ss.ConstInt(n)
		if err != nil {
			return err
		}
		g.l.NatDef(n, v, "ss2022."+n)
	}
	// MinNATTimeout of the ss2022 UDP session server (composite literal in NewUDPServer).
	fd, err := g.ss.Func("", "NewUDPServer")
	if err != nil {
		return err
	}
	var val string
	n := 0
	ast.Inspect(fd.Body, func(x ast.Node) bool {
		if kv, ok := x.(*ast.KeyValueExpr); ok {
			if id, ok := kv.Key.(*ast.Ident); ok && id.Name == "MinNATTimeout" {
				n++
				if v, ok := g.ss.EvalInt(kv.Value); ok {
					val = v
				}
			}
		}
		return true
	})
	if n != 1 || val == "" {
		return fmt.Errorf("ss2022.NewUDPServer: expected exactly one constant `MinNATTimeout: <const>` (found %d)", n)
	}
	g.l.NatDef("ss2022MinNATTimeout", val, "ss2022.NewUDPServer: UDPSessionServerInfo.MinNATTimeout")
	return nil
}

// ---- UDPPerfConfig.CheckAndApplyDefaults: the whole body must be of the known shape ----

var (
	reBatchMode = regexp.MustCompile(`^switch c\.BatchMode \{ case ((?:"[^"]*"(?:, )?)+): default: return fmt\.Errorf\(.*\) \}$`)
	reRange     = regexp.MustCompile(`^switch \{ case c\.(\w+) > 0 && c\.(\w+) <= (\w+): case c\.(\w+) == 0: c\.(\w+) = (\w+) default: return fmt\.Errorf\(.*\) \}$`)
	reAtLeast   = regexp.MustCompile(`^switch \{ case c\.(\w+) >= (\w+): case c\.(\w+) == 0: c\.(\w+) = (\w+) default: return fmt\.Errorf\(.*\) \}$`)
)

func (g *gctx) perf() error {
	fd, err := g.svc.Func("*UDPPerfConfig", "CheckAndApplyDefaults")
	if err != nil {
		return err
	}
	seen := map[string]bool{}
	for i, st := range fd.Body.List {
		src := g.svc.Src(st)
		switch {
		case reBatchMode.MatchString(src):
			m := reBatchMode.FindStringSubmatch(src)
			var modes []string
			for _, q := range strings.Split(m[1], ", ") {
				s, err := strconv.Unquote(q)
				if err != nil {
					return fmt.Errorf("CheckAndApplyDefaults: batch mode literal %s", q)
				}
				modes = append(modes, s)
			}
			g.l.Raw(fmt.Sprintf("/-- service.UDPPerfConfig.CheckAndApplyDefaults: accepted batch modes -/\ndef batchModes : List String := %s\n", gen.LeanStrList(modes)))
			seen["BatchMode"] = true
		case reRange.MatchString(src):
			m := reRange.FindStringSubmatch(src)
			f := m[1]
			if m[2] != f || m[4] != f || m[5] != f {
				return fmt.Errorf("CheckAndApplyDefaults: mixed fields in %q", src)
			}
			hi, err := intOf(g.svc, m[3])
			if err != nil {
				return err
			}
			def, err := intOf(g.svc, m[6])
			if err != nil {
				return err
			}
			var name string
			switch f {
			case "RelayBatchSize":
				name = "relayBatch"
			case "ServerRecvBatchSize":
				name = "recvBatch"
			default:
				return fmt.Errorf("CheckAndApplyDefaults: unknown ranged field %s", f)
			}
			g.l.NatDef(name+"Max", hi, "CheckAndApplyDefaults: "+f+" accepted iff 0 < x <= this (0 = default)")
			g.l.NatDef(name+"Default", def, "CheckAndApplyDefaults: "+f+" == 0 is replaced by this")
			seen[f] = true
		case reAtLeast.MatchString(src):
			m := reAtLeast.FindStringSubmatch(src)
			f := m[1]
			if f != "SendChannelCapacity" || m[3] != f || m[4] != f {
				return fmt.Errorf("CheckAndApplyDefaults: unexpected field in %q", src)
			}
			lo, err := intOf(g.svc, m[2])
			if err != nil {
				return err
			}
			def, err := intOf(g.svc, m[5])
			if err != nil {
				return err
			}
			g.l.NatDef("sendCapMin", lo, "CheckAndApplyDefaults: SendChannelCapacity accepted iff x >= this (0 = default)")
			g.l.NatDef("sendCapDefault", def, "CheckAndApplyDefaults: SendChannelCapacity == 0 is replaced by this")
			seen[f] = true
		case src == "return nil" && i == len(fd.Body.List)-1:
		default:
			return fmt.Errorf("UDPPerfConfig.CheckAndApplyDefaults: unrecognised statement %q", src)
		}
	}
	for _, f := range []string{"BatchMode", "RelayBatchSize", "ServerRecvBatchSize", "SendChannelCapacity"} {
		if !seen[f] {
			return fmt.Errorf("UDPPerfConfig.CheckAndApplyDefaults: no check of %s found", f)
		}
	}
	return nil
}

// ---- UDPListenerConfig.Configure: NAT timeout default / minimum ----

var reNat = regexp.MustCompile(`^switch \{ case natTimeout == 0: natTimeout = (\w+) case natTimeout (<|<=) minNATTimeout: return udpRelayServerConn\{\}, fmt\.Errorf\(.*\) \}$`)

func (g *gctx) natTimeout() error {
	fd, err := g.svc.Func("*UDPListenerConfig", "Configure")
	if err != nil {
		return err
	}
	found := 0
	var bad error
	ast.Inspect(fd.Body, func(x ast.Node) bool {
		sw, ok := x.(*ast.SwitchStmt)
		if !ok {
			return true
		}
		src := g.svc.Src(sw)
		if !strings.Contains(src, "natTimeout") {
			return true
		}
		m := reNat.FindStringSubmatch(src)
		if m == nil {
			bad = fmt.Errorf("UDPListenerConfig.Configure: unrecognised NAT timeout switch %q", src)
			return false
		}
		def, err := intOf(g.svc, m[1])
		if err != nil {
			bad = err
			return false
		}
		g.l.NatDef("natTimeoutDefault", def, "UDPListenerConfig.Configure: natTimeout == 0 is replaced by this (ns)")
		g.l.BoolDef("natTimeoutRejectsEqual", m[2] == "<=", "UDPListenerConfig.Configure: true iff the comparison with the server's minimum is `<=`")
		found++
		return false
	})
	if bad != nil {
		return bad
	}
	if found != 1 {
		return fmt.Errorf("UDPListenerConfig.Configure: expected one NAT timeout switch, found %d", found)
	}
	// the minimum comes from the session server for ss2022 only
	ur, err := g.svc.Func("*ServerConfig", "UDPRelay")
	if err != nil {
		return err
	}
	n := 0
	ast.Inspect(ur.Body, func(x ast.Node) bool {
		if as, ok := x.(*ast.AssignStmt); ok && strings.HasPrefix(g.svc.Src(as), "minNATTimeout ") {
			n++
			if g.svc.Src(as) != "minNATTimeout = info.MinNATTimeout" {
				bad = fmt.Errorf("ServerConfig.UDPRelay: unrecognised assignment %q", g.svc.Src(as))
			}
		}
		return true
	})
	if bad != nil {
		return bad
	}
	if n != 1 {
		return fmt.Errorf("ServerConfig.UDPRelay: expected one assignment of minNATTimeout, found %d", n)
	}
	return nil
}

// ---- MTU lower bound (server UDPRelay, client UDPClient) ----

var reMTU = regexp.MustCompile(`^if (sc|cc)\.MTU (<|<=) (\w+) \{ return nil, ErrMTUTooSmall \}$`)

func (g *gctx) mtuOf(recv, fn, lean string) error {
	fd, err := g.svc.Func(recv, fn)
	if err != nil {
		return err
	}
	found := 0
	var bad error
	ast.Inspect(fd.Body, func(x ast.Node) bool {
		is, ok := x.(*ast.IfStmt)
		if !ok {
			return true
		}
		if !strings.Contains(g.svc.Src(is.Cond), ".MTU") {
			return true
		}
		m := reMTU.FindStringSubmatch(g.svc.Src(is))
		if m == nil {
			bad = fmt.Errorf("%s.%s: unrecognised MTU check %q", recv, fn, g.svc.Src(is))
			return false
		}
		v, err := intOf(g.svc, m[3])
		if err != nil {
			bad = err
			return false
		}
		if m[2] == "<=" {
			k, _ := strconv.ParseUint(v, 10, 64)
			v = strconv.FormatUint(k+1, 10)
		}
		g.l.NatDef(lean, v, recv+"."+fn+": smallest accepted MTU when UDP is enabled")
		found++
		return false
	})
	if bad != nil {
		return bad
	}
	if found != 1 {
		return fmt.Errorf("%s.%s: expected one MTU check, found %d", recv, fn, found)
	}
	return nil
}

func (g *gctx) mtu() error {
	if err := g.mtuOf("*ServerConfig", "UDPRelay", "serverMTUMin"); err != nil {
		return err
	}
	return g.mtuOf("*ClientConfig", "UDPClient", "clientMTUMin")
}

// ---- PSK lengths ----

func (g *gctx) pskLengths() error {
	fd, err := g.ss.Func("", "PSKLengthForMethod")
	if err != nil {
		return err
	}
	if len(fd.Body.List) != 1 {
		return fmt.Errorf("ss2022.PSKLengthForMethod: expected a single switch")
	}
	sw, ok := fd.Body.List[0].(*ast.SwitchStmt)
	if !ok || g.ss.Src(sw.Tag) != "method" {
		return fmt.Errorf("ss2022.PSKLengthForMethod: expected `switch method`")
	}
	re := regexp.MustCompile(`^case "([^"]+)": return (\d+), nil$`)
	var rows []string
	for _, cc := range sw.Body.List {
		src := g.ss.Src(cc)
		if strings.HasPrefix(src, "default: return 0, fmt.Errorf(") {
			continue
		}
		m := re.FindStringSubmatch(src)
		if m == nil {
			return fmt.Errorf("ss2022.PSKLengthForMethod: unrecognised clause %q", src)
		}
		rows = append(rows, fmt.Sprintf("(%s, %s)", gen.LeanString(m[1]), m[2]))
	}
	g.l.Raw(fmt.Sprintf("/-- ss2022.PSKLengthForMethod -/\ndef pskLengths : List (String × Nat) := [%s]\n", strings.Join(rows, ", ")))
	// CheckPSKLength: psk and every iPSK are compared with `!=`
	cp, err := g.ss.Func("", "CheckPSKLength")
	if err != nil {
		return err
	}
	src := g.ss.Src(cp.Body)
	want := `{ pskLength, err := PSKLengthForMethod(method) if err != nil { return err } if len(psk) != pskLength { return &PSKLengthError{psk, pskLength} } for _, psk := range psks { if len(psk) != pskLength { return &PSKLengthError{psk, pskLength} } } return nil }`
	if src != want {
		return fmt.Errorf("ss2022.CheckPSKLength: unrecognised body %q", src)
	}
	// the two call sites
	for _, cs := range []struct{ recv, fn, call string }{
		{"*ServerConfig", "Initialize", "ss2022.CheckPSKLength(sc.Protocol, sc.PSK, nil)"},
		{"*ClientConfig", "Initialize", "ss2022.CheckPSKLength(cc.Protocol, cc.PSK, cc.IPSKs)"},
	} {
		f, err := g.svc.Func(cs.recv, cs.fn)
		if err != nil {
			return err
		}
		if !strings.Contains(g.svc.Src(f.Body), cs.call) {
			return fmt.Errorf("%s.%s: call %s not found", cs.recv, cs.fn, cs.call)
		}
	}
	return nil
}

// ---- policy fields ----

func (g *gctx) policies() error {
	for _, pf := range []struct{ typ, lean, fnType string }{
		{"RejectPolicyField", "reject", "RejectPolicy"},
		{"PaddingPolicyField", "padding", "PaddingPolicy"},
	} {
		fd, err := g.ss.Func(pf.typ, "Policy")
		if err != nil {
			return err
		}
		re := regexp.MustCompile(`^\{ if p\.policy == nil \{ return (\w+) \} return p\.policy \}$`)
		m := re.FindStringSubmatch(g.ss.Src(fd.Body))
		if m == nil {
			return fmt.Errorf("ss2022.%s.Policy: unrecognised body %q", pf.typ, g.ss.Src(fd.Body))
		}
		g.l.StrDef(pf.lean+"NilDefault", m[1], "ss2022."+pf.typ+".Policy(): function returned for an omitted field")
		// the field's UnmarshalText delegates to the function type's UnmarshalText
		fu, err := g.ss.Func("*"+pf.typ, "UnmarshalText")
		if err != nil {
			return err
		}
		if !strings.HasPrefix(g.ss.Src(fu.Body), "{ if err := p.policy.UnmarshalText(text); err != nil { return err }") {
			return fmt.Errorf("ss2022.%s.UnmarshalText: unrecognised body %q", pf.typ, g.ss.Src(fu.Body))
		}
		ut, err := g.ss.Func("*"+pf.fnType, "UnmarshalText")
		if err != nil {
			return err
		}
		if len(ut.Body.List) != 2 || g.ss.Src(ut.Body.List[1]) != "return nil" {
			return fmt.Errorf("ss2022.%s.UnmarshalText: unrecognised body", pf.fnType)
		}
		sw, ok := ut.Body.List[0].(*ast.SwitchStmt)
		if !ok || g.ss.Src(sw.Tag) != "string(text)" {
			return fmt.Errorf("ss2022.%s.UnmarshalText: expected `switch string(text)`", pf.fnType)
		}
		reCase := regexp.MustCompile(`^case ((?:"[^"]*"(?:, )?)+): \*p = (\w+)$`)
		var rows []string
		for _, cc := range sw.Body.List {
			src := g.ss.Src(cc)
			if strings.HasPrefix(src, "default: return fmt.Errorf(") {
				continue
			}
			m := reCase.FindStringSubmatch(src)
			if m == nil {
				return fmt.Errorf("ss2022.%s.UnmarshalText: unrecognised clause %q", pf.fnType, src)
			}
			for _, q := range strings.Split(m[1], ", ") {
				s, err := strconv.Unquote(q)
				if err != nil {
					return err
				}
				rows = append(rows, fmt.Sprintf("(%s, %s)", gen.LeanString(s), gen.LeanString(m[2])))
			}
		}
		sort.Strings(rows)
		g.l.Raw(fmt.Sprintf("/-- ss2022.%s.UnmarshalText: accepted text -> policy function -/\ndef %sNames : List (String × String) := [%s]\n", pf.fnType, pf.lean, strings.Join(rows, ", ")))
	}
	// the call sites use .Policy()
	for _, cs := range []struct{ recv, fn, call string }{
		{"*ServerConfig", "TCPRelay", "RejectPolicy: sc.RejectPolicy.Policy()"},
		{"*ServerConfig", "UDPRelay", "sc.PaddingPolicy.Policy()"},
		{"*ClientConfig", "UDPClient", "cc.PaddingPolicy.Policy()"},
	} {
		f, err := g.svc.Func(cs.recv, cs.fn)
		if err != nil {
			return err
		}
		if !strings.Contains(g.svc.Src(f.Body), cs.call) {
			return fmt.Errorf("%s.%s: %s not found", cs.recv, cs.fn, cs.call)
		}
	}
	return nil
}

// stmtsMentioning returns the innermost simple statements / if-headers of body that mention ident.
func stmtsMentioning(p *pkg, body *ast.BlockStmt, ident string) []ast.Stmt {
	var res []ast.Stmt
	var walk func(s ast.Stmt)
	mentions := func(n ast.Node) bool { return n != nil && strings.Contains(p.Src(n), ident) }
	walkList := func(l []ast.Stmt) {
		for _, s := range l {
			walk(s)
		}
	}
	walk = func(s ast.Stmt) {
		switch t := s.(type) {
		case nil:
		case *ast.BlockStmt:
			walkList(t.List)
		case *ast.IfStmt:
			if (t.Init != nil && mentions(t.Init)) || mentions(t.Cond) {
				res = append(res, t)
				return
			}
			walk(t.Body)
			walk(t.Else)
		case *ast.SwitchStmt:
			if (t.Init != nil && mentions(t.Init)) || (t.Tag != nil && mentions(t.Tag)) {
				res = append(res, t)
				return
			}
			walk(t.Body)
		case *ast.CaseClause:
			for _, e := range t.List {
				if mentions(e) {
					res = append(res, s)
					return
				}
			}
			walkList(t.Body)
		case *ast.ForStmt:
			if mentions(t.Init) || mentions(t.Cond) || mentions(t.Post) {
				res = append(res, t)
				return
			}
			walk(t.Body)
		case *ast.RangeStmt:
			if mentions(t.X) {
				res = append(res, t)
				return
			}
			walk(t.Body)
		default:
			if mentions(s) {
				res = append(res, s)
			}
		}
	}
	walk(body)
	return res
}

// ---- F15: validation of slidingWindowFilterSize ----

var (
	reFSHelper = regexp.MustCompile(`^if err :?= ss2022\.CheckSlidingWindowFilterSize\((sc|cc)\.SlidingWindowFilterSize\); err != nil \{ return(?: err)? \}$`)
	reFSDirect = regexp.MustCompile(`^if (sc|cc)\.SlidingWindowFilterSize (>|>=) ([\w.]+) \{ return .* \}$`)
	reFSHelpFn = regexp.MustCompile(`^\{ if size (>|>=) (\w+) \{ return fmt\.Errorf\(.*\) \} return nil \}$`)
)

func (g *gctx) filterSizeSide(lean string, fns [][2]string, uses []string) error {
	max := ""
	for _, rf := range fns {
		fd, err := g.svc.Func(rf[0], rf[1])
		if err != nil {
			return err
		}
		for _, st := range stmtsMentioning(g.svc, fd.Body, "SlidingWindowFilterSize") {
			src := g.svc.Src(st)
			known := false
			for _, u := range uses {
				if strings.Contains(src, u) && !strings.HasPrefix(src, "if ") {
					known = true
				}
			}
			if known {
				continue
			}
			var bound string
			if reFSHelper.MatchString(src) {
				h, err := g.ss.Func("", "CheckSlidingWindowFilterSize")
				if err != nil {
					return err
				}
				m := reFSHelpFn.FindStringSubmatch(g.ss.Src(h.Body))
				if m == nil {
					return fmt.Errorf("ss2022.CheckSlidingWindowFilterSize: unrecognised body %q", g.ss.Src(h.Body))
				}
				v, err := intOf(g.ss, m[2])
				if err != nil {
					return err
				}
				if m[1] == ">=" {
					k, _ := strconv.ParseUint(v, 10, 64)
					if k == 0 {
						return fmt.Errorf("ss2022.CheckSlidingWindowFilterSize rejects every size")
					}
					v = strconv.FormatUint(k-1, 10)
				}
				bound = v
			} else if m := reFSDirect.FindStringSubmatch(src); m != nil {
				name := strings.TrimPrefix(m[3], "ss2022.")
				p := g.ss
				if name == m[3] {
					p = g.svc
				}
				v, err := intOf(p, name)
				if err != nil {
					return err
				}
				if m[2] == ">=" {
					k, _ := strconv.ParseUint(v, 10, 64)
					if k == 0 {
						return fmt.Errorf("%s.%s rejects every filter size", rf[0], rf[1])
					}
					v = strconv.FormatUint(k-1, 10)
				}
				bound = v
			} else {
				return fmt.Errorf("%s.%s: unrecognised statement about SlidingWindowFilterSize: %q", rf[0], rf[1], src)
			}
			if rf[1] != "Initialize" {
				return fmt.Errorf("%s.%s: filter-size validation outside Initialize is not modelled: %q", rf[0], rf[1], src)
			}
			if max != "" {
				return fmt.Errorf("%s: more than one filter-size validation", rf[0])
			}
			max = bound
		}
	}
	if max == "" {
		g.l.Raw(fmt.Sprintf("/-- %s: largest accepted slidingWindowFilterSize (`none`: the value is not validated at load) -/\ndef %s : Option Nat := none\n", fns[0][0], lean))
	} else {
		g.l.Raw(fmt.Sprintf("/-- %s: largest accepted slidingWindowFilterSize (`none`: the value is not validated at load) -/\ndef %s : Option Nat := some %s\n", fns[0][0], lean, max))
	}
	return nil
}

func (g *gctx) filterSize() error {
	if err := g.filterSizeSide("serverFilterSizeMax", [][2]string{{"*ServerConfig", "Initialize"}, {"*ServerConfig", "TCPRelay"}, {"*ServerConfig", "UDPRelay"}, {"*ServerConfig", "PostInit"}},
		[]string{"ss2022.NewUDPServer(sc.SlidingWindowFilterSize, "}); err != nil {
		return err
	}
	if err := g.filterSizeSide("clientFilterSizeMax", [][2]string{{"*ClientConfig", "Initialize"}, {"*ClientConfig", "TCPClient"}, {"*ClientConfig", "UDPClient"}},
		[]string{"cc.SlidingWindowFilterSize, cc.cipherConfig"}); err != nil {
		return err
	}
	// the constructors: default for zero, nothing else happens to the value
	for _, fn := range []string{"NewUDPServer", "NewUDPClient"} {
		fd, err := g.ss.Func("", fn)
		if err != nil {
			return err
		}
		def := 0
		for _, st := range stmtsMentioning(g.ss, fd.Body, "filterSize") {
			src := g.ss.Src(st)
			switch {
			case src == "if filterSize == 0 { filterSize = DefaultSlidingWindowFilterSize }":
				def++
			case strings.HasPrefix(src, "return &UDP") && strings.Contains(src, "filterSize: filterSize,"):
			default:
				return fmt.Errorf("ss2022.%s: unrecognised statement about filterSize: %q", fn, src)
			}
		}
		if def != 1 {
			return fmt.Errorf("ss2022.%s: default for filterSize == 0 not found", fn)
		}
	}
	return nil
}

// ---- F4: direct server, tunnelUDPTargetOnly needs an IP tunnel address ----

func (g *gctx) directTargetOnly() error {
	where := 0
	for i, fn := range []string{"Initialize", "UDPRelay"} {
		fd, err := g.svc.Func("*ServerConfig", fn)
		if err != nil {
			return err
		}
		for _, st := range stmtsMentioning(g.svc, fd.Body, "TunnelUDPTargetOnly") {
			src := g.svc.Src(st)
			switch {
			case src == "natServer = direct.NewDirectUDPNATServer(sc.TunnelRemoteAddress, sc.TunnelUDPTargetOnly)":
			case regexp.MustCompile(`^if sc\.TunnelUDPTargetOnly && !sc\.TunnelRemoteAddress\.IsIP\(\) \{ return (nil, )?(errors\.New|fmt\.Errorf)\(.*\) \}$`).MatchString(src):
				if where != 0 {
					return fmt.Errorf("ServerConfig: more than one tunnelUDPTargetOnly check")
				}
				where = i + 1
			default:
				return fmt.Errorf("ServerConfig.%s: unrecognised statement about TunnelUDPTargetOnly: %q", fn, src)
			}
		}
	}
	if where == 2 {
		// must sit in the `case "direct":` clause in front of the constructor
		fd, _ := g.svc.Func("*ServerConfig", "UDPRelay")
		ok := false
		ast.Inspect(fd.Body, func(x ast.Node) bool {
			if cc, isCC := x.(*ast.CaseClause); isCC && len(cc.List) == 1 && g.svc.Src(cc.List[0]) == `"direct"` && len(cc.Body) == 2 {
				if strings.HasPrefix(g.svc.Src(cc.Body[0]), "if sc.TunnelUDPTargetOnly") && strings.HasPrefix(g.svc.Src(cc.Body[1]), "natServer = direct.NewDirectUDPNATServer(") {
					ok = true
				}
			}
			return true
		})
		if !ok {
			return fmt.Errorf("ServerConfig.UDPRelay: tunnelUDPTargetOnly check is not the first statement of `case \"direct\"`")
		}
	}
	if where == 1 {
		return fmt.Errorf("ServerConfig.Initialize: a tunnelUDPTargetOnly check here is not modelled (expected in UDPRelay `case \"direct\"`)")
	}
	g.l.BoolDef("directTargetOnlyRequiresIP", where == 2, "ServerConfig.UDPRelay `case \"direct\"`: tunnelUDPTargetOnly with a non-IP tunnelRemoteAddress is rejected")
	return nil
}

// ---- default client when `clients` is empty ----

func (g *gctx) defaultClient() error {
	fd, err := g.svc.Func("*Config", "Manager")
	if err != nil {
		return err
	}
	var lit *ast.CompositeLit
	ast.Inspect(fd.Body, func(x ast.Node) bool {
		if is, ok := x.(*ast.IfStmt); ok && g.svc.Src(is.Cond) == "len(sc.Clients) == 0" {
			ast.Inspect(is.Body, func(y ast.Node) bool {
				if cl, ok := y.(*ast.CompositeLit); ok && cl.Type == nil && lit == nil {
					lit = cl
				}
				return true
			})
			return false
		}
		return true
	})
	if lit == nil {
		return fmt.Errorf("Config.Manager: default client literal not found")
	}
	kv := map[string]string{}
	for _, e := range lit.Elts {
		p, ok := e.(*ast.KeyValueExpr)
		if !ok {
			return fmt.Errorf("Config.Manager: default client literal is not keyed")
		}
		kv[g.svc.Src(p.Key)] = g.svc.Src(p.Value)
	}
	for _, k := range []string{"Name", "Protocol", "EnableTCP", "EnableUDP", "MTU"} {
		if _, ok := kv[k]; !ok {
			return fmt.Errorf("Config.Manager: default client has no %s", k)
		}
	}
	for k := range kv {
		switch k {
		case "Name", "Protocol", "EnableTCP", "EnableUDP", "MTU", "DialerTFO", "TCPFastOpenFallback":
		default:
			return fmt.Errorf("Config.Manager: default client sets an unmodelled field %s", k)
		}
	}
	name, err1 := strconv.Unquote(kv["Name"])
	proto, err2 := strconv.Unquote(kv["Protocol"])
	if err1 != nil || err2 != nil {
		return fmt.Errorf("Config.Manager: default client name/protocol are not literals")
	}
	g.l.StrDef("defaultClientName", name, "Config.Manager: client added when `clients` is empty")
	g.l.StrDef("defaultClientProtocol", proto, "Config.Manager: default client protocol")
	g.l.BoolDef("defaultClientTCP", kv["EnableTCP"] == "true", "Config.Manager: default client EnableTCP")
	g.l.BoolDef("defaultClientUDP", kv["EnableUDP"] == "true", "Config.Manager: default client EnableUDP")
	g.l.NatDef("defaultClientMTU", kv["MTU"], "Config.Manager: default client MTU")
	return nil
}

// norm removes white space and the trailing commas of multi-line literals.
func norm(s string) string {
	s = strings.Join(strings.Fields(s), "")
	s = strings.ReplaceAll(s, ",}", "}")
	return strings.ReplaceAll(s, ",)", ")")
}

// ---- legacy single-listener fields: Initialize appends the same listeners as Migrate ----

func (g *gctx) legacy() error {
	init, err := g.svc.Func("*ServerConfig", "Initialize")
	if err != nil {
		return err
	}
	mig, err := g.svc.Func("*Config", "Migrate")
	if err != nil {
		return err
	}
	find := func(body *ast.BlockStmt, cond string) string {
		var res string
		ast.Inspect(body, func(x ast.Node) bool {
			if is, ok := x.(*ast.IfStmt); ok && g.svc.Src(is.Cond) == cond && res == "" {
				res = g.svc.Src(is.Body)
			}
			return true
		})
		return res
	}
	for _, cond := range []string{"sc.EnableTCP", "sc.EnableUDP"} {
		a, b := find(init.Body, cond), find(mig.Body, cond)
		if a == "" || b == "" {
			return fmt.Errorf("legacy listener conversion for %s not found in Initialize/Migrate", cond)
		}
		if a != b {
			return fmt.Errorf("ServerConfig.Initialize and Config.Migrate convert %s differently: %q vs %q", cond, a, b)
		}
	}
	udp := find(init.Body, "sc.EnableUDP")
	want := `{ sc.UDPListeners = append(sc.UDPListeners, UDPListenerConfig{ListenerConfig: ListenerConfig{Network: "udp", Address: sc.Listen, Fwmark: sc.ListenerFwmark, TrafficClass: sc.ListenerTrafficClass}, UDPPerfConfig: UDPPerfConfig{BatchMode: sc.UDPBatchMode, RelayBatchSize: sc.UDPRelayBatchSize, ServerRecvBatchSize: sc.UDPServerRecvBatchSize, SendChannelCapacity: sc.UDPSendChannelCapacity}, NATTimeout: jsoncfg.Duration(time.Duration(sc.NatTimeoutSec) * time.Second)}) }`
	if norm(udp) != norm(want) {
		return fmt.Errorf("ServerConfig.Initialize: unrecognised legacy UDP listener conversion %q", udp)
	}
	tcp := find(init.Body, "sc.EnableTCP")
	wantT := `{ sc.TCPListeners = append(sc.TCPListeners, TCPListenerConfig{ListenerConfig: ListenerConfig{Network: "tcp", Address: sc.Listen, Fwmark: sc.ListenerFwmark, TrafficClass: sc.ListenerTrafficClass}, FastOpen: sc.ListenerTFO, DisableInitialPayloadWait: sc.DisableInitialPayloadWait}) }`
	if norm(tcp) != norm(wantT) {
		return fmt.Errorf("ServerConfig.Initialize: unrecognised legacy TCP listener conversion %q", tcp)
	}
	g.l.BoolDef("legacyAppendsListeners", true, "ServerConfig.Initialize / Config.Migrate: enableTCP/enableUDP append one listener built from the single-listener fields (natTimeoutSec seconds)")
	return nil
}

// ---- router: are domain set / prefix set names checked for duplicates? ----

func (g *gctx) setNames() error {
	fd, err := g.rt.Func("*Config", "Router")
	if err != nil {
		return err
	}
	for _, x := range []struct{ rng, v, m, lean, what string }{
		{"rc.DomainSets", "dsc", "domainSetMap", "domainSetNamesUnique", "domain set"},
		{"rc.PrefixSets", "psc", "prefixSetMap", "prefixSetNamesUnique", "prefix set"},
	} {
		var loop *ast.RangeStmt
		ast.Inspect(fd.Body, func(n ast.Node) bool {
			if rs, ok := n.(*ast.RangeStmt); ok && g.rt.Src(rs.X) == x.rng {
				loop = rs
			}
			return true
		})
		if loop == nil {
			return fmt.Errorf("router.Config.Router: loop over %s not found", x.rng)
		}
		checked, stored := false, false
		for i, st := range stmtsMentioning(g.rt, loop.Body, x.m) {
			src := g.rt.Src(st)
			switch {
			case regexp.MustCompile(`^if _, ok := ` + x.m + `\[` + x.v + `\.Name\]; ok \{ return nil, fmt\.Errorf\(.*\) \}$`).MatchString(src):
				if i != 0 || g.rt.Src(loop.Body.List[0]) != src {
					return fmt.Errorf("router.Config.Router: duplicate check of %s names is not the first statement of the loop", x.what)
				}
				checked = true
			case regexp.MustCompile(`^` + x.m + `\[` + x.v + `\.Name\] = \w+$`).MatchString(src):
				stored = true
			default:
				return fmt.Errorf("router.Config.Router: unrecognised statement about %s: %q", x.m, src)
			}
		}
		if !stored {
			return fmt.Errorf("router.Config.Router: %s is not filled by name", x.m)
		}
		g.l.BoolDef(x.lean, checked, "router.Config.Router: a second "+x.what+" of the same name is rejected")
	}
	return nil
}

// ---------- a syntax-only package view ----------

type pkg struct {
	dir    string
	fset   *token.FileSet
	files  []*ast.File
	consts map[string]ast.Expr
}

func loadLight(repo, dir string) (*pkg, error) {
	p := &pkg{dir: dir, fset: token.NewFileSet(), consts: map[string]ast.Expr{}}
	ents, err := os.ReadDir(filepath.Join(repo, dir))
	if err != nil {
		return nil, err
	}
	for _, e := range ents {
		n := e.Name()
		if !strings.HasSuffix(n, ".go") || strings.HasSuffix(n, "_test.go") {
			continue
		}
		f, err := parser.ParseFile(p.fset, filepath.Join(repo, dir, n), nil, parser.ParseComments|parser.SkipObjectResolution)
		if err != nil {
			return nil, err
		}
		p.files = append(p.files, f)
		for _, d := range f.Decls {
			gd, ok := d.(*ast.GenDecl)
			if !ok || gd.Tok != token.CONST {
				continue
			}
			for _, sp := range gd.Specs {
				vs := sp.(*ast.ValueSpec)
				for i, id := range vs.Names {
					if i < len(vs.Values) {
						if _, dup := p.consts[id.Name]; dup {
							p.consts[id.Name] = nil // declared in more than one (build-tagged) file: not evaluated
						} else {
							p.consts[id.Name] = vs.Values[i]
						}
					}
				}
			}
		}
	}
	return p, nil
}

func (p *pkg) Src(n ast.Node) string {
	var sb strings.Builder
	printer.Fprint(&sb, p.fset, n)
	return strings.Join(strings.Fields(sb.String()), " ")
}

func (p *pkg) Func(recv, name string) (*ast.FuncDecl, error) {
	var found *ast.FuncDecl
	for _, f := range p.files {
		for _, d := range f.Decls {
			fd, ok := d.(*ast.FuncDecl)
			if !ok || fd.Name.Name != name || fd.Body == nil {
				continue
			}
			match := recv == "" && fd.Recv == nil
			if recv != "" && fd.Recv != nil && len(fd.Recv.List) == 1 {
				match = strings.TrimPrefix(p.Src(fd.Recv.List[0].Type), "*") == strings.TrimPrefix(recv, "*")
			}
			if match {
				if found != nil {
					return nil, fmt.Errorf("%s: function %s.%s is declared more than once (build-tagged variants are not handled)", p.dir, recv, name)
				}
				found = fd
			}
		}
	}
	if found == nil {
		return nil, fmt.Errorf("%s: function %s.%s not found", p.dir, recv, name)
	}
	return found, nil
}

var timeUnits = map[string]int64{"Nanosecond": 1, "Microsecond": 1000, "Millisecond": 1000000, "Second": 1000000000, "Minute": 60000000000, "Hour": 3600000000000}

// eval evaluates an integer constant expression made of literals, constants of the same package,
// time.<Unit>, parentheses, conversions to integer/duration types and + - * / << >>.
func (p *pkg) eval(e ast.Expr, depth int) (*big.Int, error) {
	if depth > 20 {
		return nil, fmt.Errorf("constant expression too deep")
	}
	switch t := e.(type) {
	case *ast.BasicLit:
		if t.Kind == token.INT {
			v, ok := new(big.Int).SetString(strings.ReplaceAll(t.Value, "_", ""), 0)
			if ok {
				return v, nil
			}
		}
	case *ast.ParenExpr:
		return p.eval(t.X, depth+1)
	case *ast.Ident:
		if d, ok := p.consts[t.Name]; ok && d != nil {
			return p.eval(d, depth+1)
		}
	case *ast.SelectorExpr:
		if x, ok := t.X.(*ast.Ident); ok && x.Name == "time" {
			if u, ok := timeUnits[t.Sel.Name]; ok {
				return big.NewInt(u), nil
			}
		}
	case *ast.CallExpr:
		if len(t.Args) == 1 {
			switch p.Src(t.Fun) {
			case "int", "int64", "uint64", "uint", "time.Duration":
				return p.eval(t.Args[0], depth+1)
			}
		}
	case *ast.BinaryExpr:
		a, err := p.eval(t.X, depth+1)
		if err != nil {
			return nil, err
		}
		b, err := p.eval(t.Y, depth+1)
		if err != nil {
			return nil, err
		}
		switch t.Op {
		case token.ADD:
			return new(big.Int).Add(a, b), nil
		case token.SUB:
			return new(big.Int).Sub(a, b), nil
		case token.MUL:
			return new(big.Int).Mul(a, b), nil
		case token.QUO:
			if b.Sign() != 0 {
				return new(big.Int).Quo(a, b), nil
			}
		case token.SHL:
			if b.IsUint64() && b.Uint64() < 1024 {
				return new(big.Int).Lsh(a, uint(b.Uint64())), nil
			}
		case token.SHR:
			if b.IsUint64() && b.Uint64() < 1024 {
				return new(big.Int).Rsh(a, uint(b.Uint64())), nil
			}
		}
	}
	return nil, fmt.Errorf("%s: cannot evaluate constant expression %q", p.dir, p.Src(e))
}

func (p *pkg) ConstInt(name string) (string, error) {
	d, ok := p.consts[name]
	if !ok || d == nil {
		return "", fmt.Errorf("%s.%s: no such (uniquely declared) constant", p.dir, name)
	}
	v, err := p.eval(d, 0)
	if err != nil {
		return "", err
	}
	if v.Sign() < 0 {
		return "", fmt.Errorf("%s.%s: negative constant %s", p.dir, name, v)
	}
	return v.String(), nil
}

func (p *pkg) EvalInt(e ast.Expr) (string, bool) {
	v, err := p.eval(e, 0)
	if err != nil || v.Sign() < 0 {
		return "", false
	}
	return v.String(), true
}

// ---- server indices: every server gets an entry in serverIndexByName (duplicates refused); the router sizes
// ---- the fromServers bit set by the size of that map and tests the bit of the requesting server's index ----

func (g *gctx) serverIndex() error {
	fd, err := g.svc.Func("*Config", "Manager")
	if err != nil {
		return err
	}
	var loops []*ast.RangeStmt
	ast.Inspect(fd.Body, func(n ast.Node) bool {
		if rs, ok := n.(*ast.RangeStmt); ok && g.svc.Src(rs.X) == "sc.Servers" && strings.Contains(g.svc.Src(rs.Body), "serverIndexByName") {
			loops = append(loops, rs)
		}
		return true
	})
	if len(loops) != 1 {
		return fmt.Errorf("Config.Manager: expected one loop over sc.Servers filling serverIndexByName, found %d", len(loops))
	}
	lp := loops[0]
	if g.svc.Src(lp.Key) != "i" || lp.Value != nil {
		return fmt.Errorf("Config.Manager: server index loop is not `for i := range sc.Servers`")
	}
	want := []*regexp.Regexp{
		regexp.MustCompile(`^serverConfig := &sc\.Servers\[i\]$`),
		regexp.MustCompile(`^if dupIndex, ok := serverIndexByName\[serverConfig\.Name\]; ok \{ return nil, fmt\.Errorf\(.*\) \}$`),
		regexp.MustCompile(`^serverIndexByName\[serverConfig\.Name\] = i$`),
	}
	if len(lp.Body.List) != len(want) {
		return fmt.Errorf("Config.Manager: server index loop has %d statements, expected %d (every server must contribute its index; duplicates refused): %q", len(lp.Body.List), len(want), g.svc.Src(lp.Body))
	}
	for i, st := range lp.Body.List {
		if !want[i].MatchString(g.svc.Src(st)) {
			return fmt.Errorf("Config.Manager: unrecognised statement in the server index loop: %q", g.svc.Src(st))
		}
	}
	body := g.svc.Src(fd.Body)
	for _, need := range []string{"serverIndexByName := make(map[string]int, len(sc.Servers))", "udpClientMap, serverIndexByName)", "serverConfig.Initialize(tlsCertStore, listenConfigCache, statsConfig, router, logger, i)"} {
		if !strings.Contains(body, need) {
			return fmt.Errorf("Config.Manager: %q not found", need)
		}
	}
	// every other statement about the map
	for _, st := range stmtsMentioning(g.svc, fd.Body, "serverIndexByName") {
		src := g.svc.Src(st)
		switch {
		case src == "serverIndexByName := make(map[string]int, len(sc.Servers))":
		case strings.HasPrefix(src, "router, err := sc.Router.Router("):
		case strings.HasPrefix(src, "if dupIndex, ok := serverIndexByName[serverConfig.Name]; ok"), src == "serverIndexByName[serverConfig.Name] = i":
		default:
			return fmt.Errorf("Config.Manager: unrecognised statement about serverIndexByName: %q", src)
		}
	}
	rf, err := g.rt.Func("*RouteConfig", "Route")
	if err != nil {
		return err
	}
	seen := 0
	for _, st := range stmtsMentioning(g.rt, rf.Body, "serverIndexByName") {
		src := g.rt.Src(st)
		switch src {
		case "sourceServerSet := bitset.NewBitSet(uint(len(serverIndexByName)))", "index, ok := serverIndexByName[server]":
			seen++
		default:
			return fmt.Errorf("RouteConfig.Route: unrecognised statement about serverIndexByName: %q", src)
		}
	}
	mt, err := g.rt.Func("SourceServerCriterion", "Meet")
	if err != nil {
		return err
	}
	if seen != 2 || g.rt.Src(mt.Body) != "{ return bitset.BitSet(c).IsSet(uint(requestInfo.ServerIndex)), nil }" {
		return fmt.Errorf("router: fromServers bit set is not sized by len(serverIndexByName) / tested at requestInfo.ServerIndex")
	}
	g.l.BoolDef("serverIndexEveryServer", true, "Config.Manager: every server stores its index under its name (duplicate names refused); router: fromServers bit set of capacity len(serverIndexByName), tested at the requesting server's index")
	return nil
}

// ---- api.Config.NewServer: what reaches http.ServeMux.Handle (which panics on a malformed or conflicting pattern) ----

func (g *gctx) apiBlock() error {
	fd, err := g.ap.Func("*Config", "NewServer")
	if err != nil {
		return err
	}
	body := g.ap.Src(fd.Body)
	for _, need := range []string{`if len(c.Listeners) == 0 { return nil, errors.New("no listeners specified") }`,
		`if c.StaticPath != "" { mux.Handle("GET /", `, `return nil, fmt.Errorf("certificate list %q not found", lnc.CertList)`,
		`return nil, fmt.Errorf("client CA X.509 certificate pool %q not found", lnc.ClientCAs)`} {
		if !strings.Contains(body, need) {
			return fmt.Errorf("api.Config.NewServer: %q not found", need)
		}
	}
	checked, seen := false, 0
	for _, st := range stmtsMentioning(g.ap, fd.Body, "SecretPath") {
		src := g.ap.Src(st)
		switch {
		case src == `if c.SecretPath != "" { basePath = joinPatternPath(basePath, c.SecretPath) }`:
			seen++
		case regexp.MustCompile(`^if c\.SecretPath != "" \{ if strings\.ContainsAny\(c\.SecretPath, "\{\}"\) \{ return nil, fmt\.Errorf\(.*\) \} basePath = joinPatternPath\(basePath, c\.SecretPath\) \}$`).MatchString(src):
			seen++
			checked = true
		default:
			return fmt.Errorf("api.Config.NewServer: unrecognised statement about SecretPath: %q", src)
		}
	}
	if seen != 1 {
		return fmt.Errorf("api.Config.NewServer: expected one statement about SecretPath, found %d", seen)
	}
	g.l.BoolDef("apiSecretPathChecked", checked, "api.Config.NewServer: a secretPath containing '{' or '}' (ServeMux wildcard syntax) is refused with an error")
	idx := 0
	method := false
	for _, st := range stmtsMentioning(g.ap, fd.Body, "pprof.Index") {
		src := g.ap.Src(st)
		switch {
		case strings.HasPrefix(src, `mux.Handle(indexPath, realIP(`):
			idx++
		case strings.HasPrefix(src, `mux.Handle("GET "+indexPath, realIP(`):
			idx++
			method = true
		case strings.HasPrefix(src, "if c.DebugPprof {"): // the enclosing block when the walker stops there
		default:
			return fmt.Errorf("api.Config.NewServer: unrecognised registration of pprof.Index: %q", src)
		}
	}
	if idx != 1 {
		return fmt.Errorf("api.Config.NewServer: expected one registration of pprof.Index, found %d", idx)
	}
	g.l.BoolDef("apiPprofIndexHasMethod", method, "api.Config.NewServer: the pprof index pattern carries the GET method (else it conflicts with the static file pattern \"GET /\")")
	return nil
}

// ---- ClientConfig.checkAddresses: a chain of INDEPENDENT `if` statements (each enabled network is checked) ----

func (g *gctx) clientAddresses() error {
	fd, err := g.svc.Func("*ClientConfig", "checkAddresses")
	if err != nil {
		return err
	}
	want := []string{
		`if cc.Protocol == "direct" { return nil }`,
		`ev := cc.Endpoint.IsValid()`,
		`tv := cc.TCPAddress.IsValid()`,
		`uv := cc.UDPAddress.IsValid()`,
		`if ev == (tv || uv) { return errors.New("missing or conflicting proxy server address(es)") }`,
		`if ev { cc.TCPAddress = cc.Endpoint cc.UDPAddress = cc.Endpoint return nil }`,
		`if cc.EnableTCP && !tv { return errors.New("missing proxy server TCP address") }`,
		`if cc.EnableUDP && !uv { return errors.New("missing proxy server UDP address") }`,
		`return nil`,
	}
	if len(fd.Body.List) != len(want) {
		return fmt.Errorf("ClientConfig.checkAddresses: %d statements, expected the %d independent checks: %q", len(fd.Body.List), len(want), g.svc.Src(fd.Body))
	}
	for i, st := range fd.Body.List {
		if g.svc.Src(st) != want[i] {
			return fmt.Errorf("ClientConfig.checkAddresses: statement %d is %q, expected %q", i, g.svc.Src(st), want[i])
		}
	}
	in, err := g.svc.Func("*ClientConfig", "Initialize")
	if err != nil {
		return err
	}
	if !strings.Contains(g.svc.Src(in.Body), "if err = cc.checkAddresses(); err != nil { return }") {
		return fmt.Errorf("ClientConfig.Initialize: call of checkAddresses not found")
	}
	g.l.BoolDef("clientAddressChecksIndependent", true, "ClientConfig.checkAddresses: endpoint xor split form, then one independent `if` per enabled network (TCP, UDP)")
	return nil
}
