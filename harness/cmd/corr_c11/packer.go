package main

import (
	"context"
	"fmt"
	"net/netip"
	"reflect"
	"runtime"
	"strings"
	"sync"
	"sync/atomic"
	"time"

	"ssvharness/internal/common"

	"github.com/database64128/shadowsocks-go/conn"
	"github.com/database64128/shadowsocks-go/direct"
	"github.com/database64128/shadowsocks-go/ss2022"
	"github.com/database64128/shadowsocks-go/zerocopy"
)

// ---------- runtime fact: which UDPClient implementations hand out the same packer twice ----------

func samePointer(a, b any) bool {
	va, vb := reflect.ValueOf(a), reflect.ValueOf(b)
	if va.Kind() != reflect.Pointer || vb.Kind() != reflect.Pointer {
		return false // value types are copied per session
	}
	return va.Pointer() == vb.Pointer()
}

// packerIdentity calls NewSession twice on a client and reports whether Packer / Unpacker are the same instance.
func packerIdentity(c zerocopy.UDPClient) (packerShared, unpackerShared bool, err error) {
	ctx, cancel := context.WithTimeout(context.Background(), 5*time.Second)
	defer cancel()
	_, s1, err := c.NewSession(ctx)
	if err != nil {
		return false, false, err
	}
	_, s2, err := c.NewSession(ctx)
	if err != nil {
		return false, false, err
	}
	defer s1.Close()
	defer s2.Close()
	return samePointer(s1.Packer, s2.Packer), samePointer(s1.Unpacker, s2.Unpacker), nil
}

func newDirectClient(network string) *direct.DirectUDPClient {
	return direct.NewDirectUDPClient("direct", network, 1500, conn.DefaultUDPClientListenConfig)
}

func runtimeFacts(rep *common.Report) (directShared bool, err error) {
	directShared, _, err = packerIdentity(newDirectClient("ip4"))
	if err != nil {
		return false, err
	}
	rep.Count(fmt.Sprintf("fact:direct-packer-shared=%v", directShared))
	ep := conn.AddrFromIPPort(netip.MustParseAddrPort("127.0.0.1:9"))
	none := direct.NewShadowsocksNoneUDPClient("none", "ip4", ep, 1500, conn.DefaultUDPClientListenConfig)
	ps, _, err := packerIdentity(none)
	if err != nil {
		return false, err
	}
	if ps {
		rep.Fail(common.OracleFailure{Engine: "packer", Key: "shared-packer:none-client", Case: "NewSession twice", Detail: "ShadowsocksNoneUDPClient.NewSession returned the same packer instance twice"})
	}
	psk := make([]byte, 16)
	cc, err := ss2022.NewClientCipherConfig(psk, nil, true)
	if err != nil {
		return false, err
	}
	ssc := ss2022.NewUDPClient("ss", "ip4", ep, 1500, conn.DefaultUDPClientListenConfig, 0, cc, ss2022.PadPlainDNS)
	ps, us, err := packerIdentity(ssc)
	if err != nil {
		return false, err
	}
	if ps || us {
		rep.Fail(common.OracleFailure{Engine: "packer", Key: "shared-packer:ss2022-client", Case: "NewSession twice", Detail: "ss2022.UDPClient.NewSession returned the same packer/unpacker instance twice"})
	}
	return directShared, nil
}

// ---------- engine "packer": DirectPacketClientPacker of K sessions at resolver-block granularity ----------

type PackerOp struct {
	Op   string `json:"op"`             // pack | release
	S    int    `json:"s"`              // session
	Dom  int    `json:"dom,omitempty"`  // pack: domain index (>=1) or 0 = IP target
	IP   uint32 `json:"ip,omitempty"`   // pack with IP target: the address; release: the answer
	Port uint16 `json:"port,omitempty"` // pack
	Fail bool   `json:"fail,omitempty"` // release: the resolver fails
}

type PackerCase struct {
	Kind     string     `json:"kind"` // "packer"
	Sessions int        `json:"sessions"`
	Ops      []PackerOp `json:"ops"`
}

func domName(i int) string { return fmt.Sprintf("d%d.c11.test", i) }

func u32Addr(x uint32) netip.Addr {
	return netip.AddrFrom4([4]byte{byte(x >> 24), byte(x >> 16), byte(x >> 8), byte(x)})
}

func addrU32(a netip.Addr) uint32 {
	a = a.Unmap()
	if !a.Is4() {
		return 0 // the zero Addr (an unset cache field) or IPv6: never one of the harness's answers
	}
	b := a.As4()
	return uint32(b[0])<<24 | uint32(b[1])<<16 | uint32(b[2])<<8 | uint32(b[3])
}

func genPackerCase(r *common.Rng) PackerCase {
	c := PackerCase{Kind: "packer", Sessions: r.Range(1, 3)}
	n := r.Range(4, 24)
	ndom := r.Range(1, 3)
	pendingDom := map[int]int{} // session -> domain being resolved
	busyDom := map[int]bool{}
	nextIP := uint32(0x0a000001)
	for i := 0; i < n; i++ {
		s := r.Intn(c.Sessions)
		if d, ok := pendingDom[s]; ok {
			// this session is blocked: release it (or somebody else acts first)
			if r.Chance(2, 3) {
				op := PackerOp{Op: "release", S: s, IP: nextIP, Fail: r.Chance(1, 8)}
				nextIP++
				c.Ops = append(c.Ops, op)
				delete(pendingDom, s)
				delete(busyDom, d)
			}
			continue
		}
		op := PackerOp{Op: "pack", S: s, Port: uint16(r.Range(1, 65535))}
		if r.Chance(1, 5) {
			op.IP = 0x7f000001 + uint32(r.Intn(3))
		} else {
			op.Dom = 1 + r.Intn(ndom)
			if busyDom[op.Dom] {
				continue // the Go resolver merges concurrent lookups of one name (singleflight): not distinguishable here
			}
			// whether this blocks depends on the cache; the engine finds out and the generator stays conservative
			pendingDom[s] = op.Dom
			busyDom[op.Dom] = true
		}
		c.Ops = append(c.Ops, op)
		if op.Dom != 0 {
			// the generator does not know whether it was a hit; a following release for a non-blocked session is a no-op op
		}
	}
	for s := range c.Sessions {
		if _, ok := pendingDom[s]; ok {
			c.Ops = append(c.Ops, PackerOp{Op: "release", S: s, IP: nextIP})
			nextIP++
		}
	}
	return c
}

type packResult struct {
	dest       netip.AddrPort
	start, len int
	err        error
}

// runPackerCase executes the case on real packers (from NewSession of one DirectUDPClient) and returns
// the observation lines, the model script, and oracle verdicts.
func runPackerCase(c PackerCase, dns *scriptDNS, shared bool) (impl []string, script []string, fails []common.OracleFailure, err error) {
	dns.setHoldAll(true)
	defer dns.setHoldAll(false)
	defer dns.releaseAll()
	client := newDirectClient("ip4")
	ctx, cancel := context.WithCancel(context.Background())
	defer cancel()
	packers := make([]zerocopy.ClientPacker, c.Sessions)
	sh := "0"
	if shared {
		sh = "1"
	}
	script = append(script, "cfg 1024 1 1 "+sh)
	impl = append(impl, "ok")
	for s := range packers {
		_, sess, e := client.NewSession(ctx)
		if e != nil {
			return nil, nil, nil, e
		}
		packers[s] = sess.Packer
	}
	sidOf := map[int]int{} // session index -> model incarnation id (order of first use)
	type pend struct {
		ch  chan packResult
		dom int
		op  PackerOp
		pl  int
	}
	pending := map[int]*pend{}
	answers := map[int]map[uint32]bool{} // domain -> answers given by the resolver
	buf := make([]byte, 2048)
	pl := 100
	check := func(op PackerOp, res packResult, plid int) string {
		if res.err != nil {
			return "failed"
		}
		if res.start != 64 || res.len != 32 {
			fails = append(fails, common.OracleFailure{Engine: "packer", Key: "packer:payload-window-changed", Case: c, Detail: fmt.Sprintf("payload window (64,32) became (%d,%d)", res.start, res.len)})
		}
		if op.Dom == 0 {
			if addrU32(res.dest.Addr()) != op.IP || res.dest.Port() != op.Port {
				fails = append(fails, common.OracleFailure{Engine: "packer", Key: "packer:ip-target-wrong-destination", Case: c, Detail: fmt.Sprintf("target %s:%d packed towards %s", u32Addr(op.IP), op.Port, res.dest)})
			}
		} else if !answers[op.Dom][addrU32(res.dest.Addr())] || res.dest.Port() != op.Port {
			fails = append(fails, common.OracleFailure{Engine: "packer", Key: "packer:domain-target-foreign-address", Case: c,
				Detail: fmt.Sprintf("session %d: target %s:%d packed towards %s, an address the resolver never gave for that name", op.S, domName(op.Dom), op.Port, res.dest)})
		}
		return fmt.Sprintf("sent %d %d %d", addrU32(res.dest.Addr()), res.dest.Port(), plid)
	}
	for _, op := range c.Ops {
		if op.S < 0 || op.S >= c.Sessions {
			continue
		}
		switch op.Op {
		case "pack":
			if pending[op.S] != nil {
				continue // the session's uplink is a single goroutine: it is still inside PackInPlace
			}
			pl++
			var target conn.Addr
			var tline string
			if op.Dom == 0 {
				target = conn.AddrFromIPAndPort(u32Addr(op.IP), op.Port)
				tline = fmt.Sprintf("ip %d %d %d", op.IP, op.Port, pl)
			} else {
				target = conn.MustAddrFromDomainPort(domName(op.Dom), op.Port)
				tline = fmt.Sprintf("dom %d %d %d", op.Dom, op.Port, pl)
			}
			script = append(script, fmt.Sprintf("recv %d %d %s", op.S, op.S, tline))
			sid, ok := sidOf[op.S]
			if !ok {
				sid = len(sidOf)
				sidOf[op.S] = sid
				impl = append(impl, fmt.Sprintf("new %d 1", sid))
				script = append(script, fmt.Sprintf("initok %d", sid))
				impl = append(impl, "ok")
			} else {
				impl = append(impl, fmt.Sprintf("old %d 1", sid))
			}
			ch := make(chan packResult, 1)
			p := packers[op.S]
			go func() {
				d, st, ln, e := p.PackInPlace(ctx, buf, target, 64, 32)
				ch <- packResult{d, st, ln, e}
			}()
			script = append(script, fmt.Sprintf("pack %d -", sid))
			// either the call returns (IP target / cache hit) or its query reaches the resolver (miss)
			select {
			case res := <-ch:
				impl = append(impl, check(op, res, pl))
			case name := <-dns.arrived:
				if op.Dom == 0 || name != domName(op.Dom) {
					return nil, nil, nil, fmt.Errorf("unexpected DNS query %q", name)
				}
				impl = append(impl, fmt.Sprintf("blocked %d", op.Dom))
				pending[op.S] = &pend{ch: ch, dom: op.Dom, op: op, pl: pl}
			case <-time.After(10 * time.Second):
				return nil, nil, nil, fmt.Errorf("PackInPlace neither returned nor queried the resolver in 10 s")
			}
		case "release":
			p := pending[op.S]
			if p == nil {
				continue
			}
			delete(pending, op.S)
			if !op.Fail {
				if answers[p.dom] == nil {
					answers[p.dom] = map[uint32]bool{}
				}
				answers[p.dom][op.IP] = true
			}
			if !dns.release(domName(p.dom), dnsAnswer{ip: u32Addr(op.IP), fail: op.Fail}) {
				return nil, nil, nil, fmt.Errorf("no held query for %s", domName(p.dom))
			}
			var res packResult
			select {
			case res = <-p.ch:
			case <-time.After(10 * time.Second):
				return nil, nil, nil, fmt.Errorf("PackInPlace did not return 10 s after the resolver answered")
			}
			sid := sidOf[op.S]
			if op.Fail {
				script = append(script, fmt.Sprintf("resolved %d fail", sid))
				impl = append(impl, "ok")
				if res.err == nil {
					impl[len(impl)-1] = "unexpected-success"
				}
				continue
			}
			script = append(script, fmt.Sprintf("resolved %d %d", sid, op.IP), fmt.Sprintf("storeip %d", sid), fmt.Sprintf("readsend %d", sid))
			impl = append(impl, "ok", "ok", check(p.op, res, p.pl))
		}
	}
	return impl, script, fails, nil
}

func packerSig(c PackerCase) string {
	var sb strings.Builder
	fmt.Fprintf(&sb, "p%d", c.Sessions)
	for _, o := range c.Ops {
		fmt.Fprintf(&sb, " %s%d.%d.%d.%v", o.Op[:1], o.S, o.Dom, o.IP, o.Fail)
	}
	return sb.String()
}

// ---------- directed probe for F8: two sessions of one DirectUDPClient, concurrent PackInPlace ----------

type F8Case struct {
	Kind     string `json:"kind"` // "f8race"
	BudgetMs int    `json:"budget_ms"`
}

const f8Key = "F8:direct-client-shared-packer-cross-resolve"

// probeF8 lets two sessions obtained from ONE DirectUDPClient pack datagrams for two different domain
// targets concurrently (what two uplink goroutines of a relay do) and checks every returned destination
// against the address the resolver gives for that session's own target.
func probeF8(c F8Case, dns *scriptDNS) (reproduced bool, detail string, calls uint64, err error) {
	t0 := time.Now()
	defer func() {
		if detail != "" {
			detail += fmt.Sprintf(" (after %d calls, %d ms)", calls, time.Since(t0).Milliseconds())
		}
	}()
	if runtime.GOMAXPROCS(0) < 2 {
		return false, "GOMAXPROCS < 2: the race cannot be exercised", 0, nil
	}
	dns.setHoldAll(false)
	ipA, ipB := netip.MustParseAddr("127.0.0.2"), netip.MustParseAddr("127.0.0.3")
	dns.set("a.f8.c11.test", ipA)
	dns.set("b.f8.c11.test", ipB)
	client := newDirectClient("ip4")
	ctx, cancel := context.WithCancel(context.Background())
	defer cancel()
	_, sA, err := client.NewSession(ctx)
	if err != nil {
		return false, "", 0, err
	}
	_, sB, err := client.NewSession(ctx)
	if err != nil {
		return false, "", 0, err
	}
	var stop atomic.Bool
	var n atomic.Uint64
	var mu sync.Mutex
	run := func(p zerocopy.ClientPacker, name string, want netip.Addr, who string) {
		target := conn.MustAddrFromDomainPort(name, 5300)
		buf := make([]byte, 256)
		for !stop.Load() {
			d, _, _, e := p.PackInPlace(ctx, buf, target, 64, 16)
			n.Add(1)
			if e != nil {
				continue
			}
			if d.Addr() != want {
				mu.Lock()
				if detail == "" {
					detail = fmt.Sprintf("session %s packed a datagram for %s:5300 (resolves to %s) towards %s — the other session's resolved address", who, name, want, d)
				}
				mu.Unlock()
				stop.Store(true)
				return
			}
		}
	}
	var wg sync.WaitGroup
	wg.Go(func() { run(sA.Packer, "a.f8.c11.test", ipA, "A") })
	wg.Go(func() { run(sB.Packer, "b.f8.c11.test", ipB, "B") })
	deadline := time.After(time.Duration(c.BudgetMs) * time.Millisecond)
	done := make(chan struct{})
	go func() { wg.Wait(); close(done) }()
	select {
	case <-done:
	case <-deadline:
		stop.Store(true)
		<-done
	}
	return detail != "", detail, n.Load(), nil
}
