package main

import (
	"context"
	"encoding/binary"
	"io"
	"net"
	"net/netip"
	"strings"
	"sync"
	"time"

	"golang.org/x/net/dns/dnsmessage"
)

// scriptDNS is an in-process DNS server behind net.DefaultResolver (PreferGo + Dial hook), so that
// conn.ResolveIP (= net.DefaultResolver.LookupNetIP) gets scripted answers and every resolution can be
// held and released in any order. Only A queries get addresses; everything else is answered empty.
type scriptDNS struct {
	mu      sync.Mutex
	static  map[string]netip.Addr // name (no trailing dot) -> A answer
	holdAll bool                  // every A query waits for release()
	pending map[string]*pendingQ  // held queries by name
	arrived chan string           // name of every held A query, as it arrives
	queries map[string]int        // A queries seen per name
}

type pendingQ struct {
	ans chan dnsAnswer
}

type dnsAnswer struct {
	ip   netip.Addr
	fail bool
}

func installDNS() *scriptDNS {
	d := &scriptDNS{static: map[string]netip.Addr{}, pending: map[string]*pendingQ{}, arrived: make(chan string, 1024), queries: map[string]int{}}
	net.DefaultResolver = &net.Resolver{
		PreferGo: true,
		Dial: func(ctx context.Context, network, address string) (net.Conn, error) {
			c1, c2 := net.Pipe()
			go d.serve(c2)
			return c1, nil
		},
	}
	return d
}

func (d *scriptDNS) set(name string, ip netip.Addr) {
	d.mu.Lock()
	d.static[name] = ip
	d.mu.Unlock()
}

func (d *scriptDNS) setHoldAll(b bool) {
	d.mu.Lock()
	d.holdAll = b
	d.mu.Unlock()
}

func (d *scriptDNS) queryCount(name string) int {
	d.mu.Lock()
	defer d.mu.Unlock()
	return d.queries[name]
}

// release answers the held query for name. Returns false if none is pending.
func (d *scriptDNS) release(name string, a dnsAnswer) bool {
	d.mu.Lock()
	p := d.pending[name]
	delete(d.pending, name)
	d.mu.Unlock()
	if p == nil {
		return false
	}
	p.ans <- a
	return true
}

func (d *scriptDNS) releaseAll() {
	d.mu.Lock()
	ps := d.pending
	d.pending = map[string]*pendingQ{}
	st := d.static
	d.mu.Unlock()
	for n, p := range ps {
		if ip, ok := st[n]; ok {
			p.ans <- dnsAnswer{ip: ip}
		} else {
			p.ans <- dnsAnswer{fail: true}
		}
	}
}

func (d *scriptDNS) serve(c net.Conn) {
	defer c.Close()
	for {
		var lb [2]byte
		if _, err := io.ReadFull(c, lb[:]); err != nil {
			return
		}
		msg := make([]byte, binary.BigEndian.Uint16(lb[:]))
		if _, err := io.ReadFull(c, msg); err != nil {
			return
		}
		var p dnsmessage.Parser
		h, err := p.Start(msg)
		if err != nil {
			return
		}
		q, err := p.Question()
		if err != nil {
			return
		}
		name := strings.TrimSuffix(q.Name.String(), ".")
		// answer asynchronously: the pipe is unbuffered
		go func() {
			resp := dnsmessage.Message{Header: dnsmessage.Header{ID: h.ID, Response: true, RecursionAvailable: true, RecursionDesired: h.RecursionDesired}, Questions: []dnsmessage.Question{q}}
			if q.Type == dnsmessage.TypeA {
				d.mu.Lock()
				d.queries[name]++
				ip, ok := d.static[name]
				hold := d.holdAll
				var pq *pendingQ
				if hold {
					pq = &pendingQ{ans: make(chan dnsAnswer, 1)}
					d.pending[name] = pq
				}
				d.mu.Unlock()
				a := dnsAnswer{ip: ip, fail: !ok}
				if hold {
					d.arrived <- name
					select {
					case a = <-pq.ans:
					case <-time.After(20 * time.Second):
						a = dnsAnswer{fail: true}
					}
				}
				if a.fail || !a.ip.Is4() {
					resp.Header.RCode = dnsmessage.RCodeNameError
				} else {
					resp.Answers = []dnsmessage.Resource{{
						Header: dnsmessage.ResourceHeader{Name: q.Name, Type: dnsmessage.TypeA, Class: dnsmessage.ClassINET, TTL: 0},
						Body:   &dnsmessage.AResource{A: a.ip.As4()},
					}}
				}
			}
			b, err := resp.Pack()
			if err != nil {
				return
			}
			out := make([]byte, 2+len(b))
			binary.BigEndian.PutUint16(out, uint16(len(b)))
			copy(out[2:], b)
			c.SetWriteDeadline(time.Now().Add(5 * time.Second))
			c.Write(out)
		}()
	}
}
