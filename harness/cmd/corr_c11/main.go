// corr_c11: correspondence + property oracle for C11 (relayed UDP datagrams reach the named destination;
// replies return to the sender).
//
// Engines:
//
//	packer   — DirectPacketClientPacker instances obtained from DirectUDPClient.NewSession, driven at
//	           resolver-block granularity (scripted in-process DNS behind net.DefaultResolver) against the
//	           Lean model (ssv_c11); oracle: destination = the named IP / an address the resolver gave for that name.
//	f8race   — directed probe for finding F8 (two sessions of one DirectUDPClient pack concurrently).
//	udprelay — real relays started through service.Config -> Manager on loopback; harness clients, targets and
//	           upstream proxies; the monitor of every target / client socket is the property oracle; serial
//	           scripts are also compared with the model (session keying, reply routing).
package main

import (
	"bytes"
	"context"
	"encoding/json"
	"fmt"
	"os"
	"os/exec"
	"path/filepath"
	"regexp"
	"strings"
	"time"

	"ssvharness/internal/common"
)

type AnyCase struct {
	Kind string `json:"kind"`
}

func evalPacker(cases []PackerCase, dns *scriptDNS, shared bool, o *common.Options, rep *common.Report) error {
	var all []string
	type res struct {
		impl, script []string
	}
	var rs []res
	for _, c := range cases {
		impl, script, fails, err := runPackerCase(c, dns, shared)
		if err != nil {
			return fmt.Errorf("packer case %s: %w", packerSig(c), err)
		}
		blocked := 0
		for _, l := range impl {
			if strings.HasPrefix(l, "blocked") {
				blocked++
			}
		}
		rep.Case(packerSig(c), blocked > 0 && c.Sessions > 1)
		rep.Count(fmt.Sprintf("packer:sessions=%d", c.Sessions))
		rep.Sample(map[string]any{"case": c, "impl": strings.Join(impl, " | ")})
		for _, f := range fails {
			rep.Fail(f)
		}
		rs = append(rs, res{impl, script})
		all = append(all, script...)
	}
	if o.Driver == "" {
		return nil
	}
	model, err := common.RunDriverOnce(o.Driver, all)
	if err != nil {
		return err
	}
	pos := 0
	for i, r := range rs {
		mo := model[pos : pos+len(r.script)]
		pos += len(r.script)
		if strings.Join(mo, "\n") != strings.Join(r.impl, "\n") {
			rep.Diverge(common.Divergence{Engine: "packer", Case: cases[i], Impl: r.impl, Model: mo, Note: strings.Join(r.script, " ; ")})
		}
		rep.TracesValidated++
	}
	return nil
}

func runF8(c F8Case, dns *scriptDNS, rep *common.Report) error {
	ok, detail, calls, err := probeF8(c, dns)
	if err != nil {
		return err
	}
	rep.Case(fmt.Sprintf("f8race %d", c.BudgetMs), true)
	rep.Count("f8race:runs")
	rep.Note("f8race: %d PackInPlace calls in <= %d ms, cross-resolve observed: %v", calls, c.BudgetMs, ok)
	rep.FindingsProbed[f8Key] = ok
	if ok {
		rep.Fail(common.OracleFailure{Engine: "f8race", Key: f8Key, Case: c, Detail: detail})
	}
	return nil
}

// raceRun (thorough tier): build this engine with -race against the same repository, run the udprelay engine in a
// child process for a bounded time, and turn every data-race report whose stacks touch the repository's code into
// an oracle failure (key race:<function>). Races confined to the harness are reported as divergences (= fix the check).
func raceRun(o *common.Options, rep *common.Report) {
	t0 := time.Now()
	tmp, err := os.MkdirTemp("", "c11race")
	if err != nil {
		rep.Note("race: %v", err)
		return
	}
	defer os.RemoveAll(tmp)
	bin := filepath.Join(tmp, "corr_c11_race")
	args := []string{"build", "-race", "-tags", "verif", "-o", bin}
	if repo := os.Getenv("VERIF_REPO"); repo != "" && repo != "/repo" {
		tag := regexp.MustCompile(`\W+`).ReplaceAllString(repo, "_")
		args = append(args, "-modfile", "go.scratch."+tag+".mod")
	}
	args = append(args, "./cmd/corr_c11")
	ctx, cancel := context.WithTimeout(context.Background(), 170*time.Second)
	defer cancel()
	build := exec.CommandContext(ctx, "go", args...)
	env := []string{"GOFLAGS=-mod=mod", "GOPROXY=off", "GOTOOLCHAIN=auto"}
	for _, e := range os.Environ() {
		if !strings.HasPrefix(e, "GOSUMDB=") && !strings.HasPrefix(e, "GOFLAGS=") && !strings.HasPrefix(e, "GOPROXY=") {
			env = append(env, e)
		}
	}
	build.Env = env
	if out, err := build.CombinedOutput(); err != nil {
		rep.Note("race: -race build not available (%v): %s", err, strings.TrimSpace(string(out[max(0, len(out)-300):])))
		return
	}
	buildT := time.Since(t0)
	out := filepath.Join(tmp, "rep.json")
	ctx2, cancel2 := context.WithTimeout(context.Background(), 125*time.Second)
	defer cancel2()
	child := exec.CommandContext(ctx2, bin, "--tier", "quick", "--seed", fmt.Sprint(o.Seed+1000), "--out", out)
	for _, e := range os.Environ() {
		if !strings.HasPrefix(e, "C11_RACE_ONLY=") {
			child.Env = append(child.Env, e)
		}
	}
	child.Env = append(child.Env, "C11_RACE_CHILD=1", "GORACE=halt_on_error=0 exitcode=0")
	var stderr bytes.Buffer
	child.Stderr = &stderr
	child.Stdout = &stderr
	cerr := child.Run()
	rep.Count("race:child-runs")
	var cr common.Report
	if b, err := os.ReadFile(out); err == nil && json.Unmarshal(b, &cr) == nil {
		rep.Distribution["race:relay-runs"] += cr.Evaluations
		for _, f := range cr.OracleFailures {
			f.Key = "race-build:" + f.Key
			rep.Fail(f)
		}
	} else if cerr != nil {
		rep.Note("race: child ended without a report: %v", cerr)
	}
	reports := strings.Split(stderr.String(), "WARNING: DATA RACE")
	fn := regexp.MustCompile(`github\.com/database64128/shadowsocks-go/([\w/]+)\.([\w\.\(\)\*]+)`)
	seen := map[string]bool{}
	for _, r := range reports[1:] {
		if end := strings.Index(r, "=================="); end >= 0 {
			r = r[:end]
		}
		m := fn.FindStringSubmatch(r)
		if m == nil {
			if !seen["harness"] {
				seen["harness"] = true
				rep.Diverge(common.Divergence{Engine: "udprelay", Case: "race build", Impl: "data race inside the harness", Model: "none", Note: r[:min(1500, len(r))]})
			}
			continue
		}
		key := "race:" + m[1] + "." + strings.TrimSuffix(m[2], "()")
		if !seen[key] {
			seen[key] = true
			rep.Fail(common.OracleFailure{Engine: "udprelay", Key: key, Case: map[string]any{"kind": "race", "seed": o.Seed + 1000},
				Detail: "data race reported by the -race build while relaying: " + r[:min(1800, len(r))]})
		}
	}
	rep.Note("race: build %.0fs, child %.0fs, %d relay runs, %d data-race reports", buildT.Seconds(), time.Since(t0).Seconds()-buildT.Seconds(), cr.Evaluations, len(reports)-1)
}

func main() {
	o := common.ParseFlags()
	rep := common.NewReport("C11", o)
	rep.Engines = []string{"packer", "f8race", "udprelay"}
	rep.Rule = "engine packer: scripts of pack/release over 1..3 sessions of one DirectUDPClient x 1..3 domains + IP targets, every resolution held and released in script order " +
		"(non-trivial: >= 2 sessions and at least one blocked resolution; distinct by script); engine f8race: one directed probe; " +
		"engine udprelay: one case = one relay run through service.Config->Manager: server {none,socks5,ss2022,direct} x client {direct,none,socks5,ss2022} x batch {no,sendmmsg} x " +
		"script of send / reply / garbage (6 kinds, from known and never-seen addresses) / move (client address change) / burst (40 garbage datagrams, goroutine+fd accounting) / " +
		"stall (held resolution while 64+k datagrams — some to unresolvable names — fill the send queue: one uplink batch with drops inside) / " +
		"rburst (6..14 replies in ONE sendmmsg with truncated / oversize / unparsable ones inside; >= 4 per run), then an optional concurrent flood with resolutions released in random order; " +
		"non-trivial if at least two relay sessions carried datagrams in both directions; distinct by (protocols, script)"
	dns := installDNS()
	var err error
	shared, ferr := runtimeFacts(rep)
	if ferr != nil {
		err = ferr
	}
	rep.Note("runtime fact: DirectUDPClient.NewSession returns the same packer instance twice: %v", shared)
	if err == nil && o.Driver != "" {
		// the regenerated Gen fact must agree with what the running code does
		out, derr := common.RunDriverOnce(o.Driver, []string{"facts"})
		if derr != nil {
			err = derr
		} else if !strings.Contains(out[0], fmt.Sprintf("shared=%v ", shared)) {
			rep.Diverge(common.Divergence{Engine: "packer", Case: "facts", Impl: fmt.Sprintf("shared=%v", shared), Model: out[0], Note: "Gen fact packerShared (AST of NewSession) disagrees with the runtime pointer comparison"})
		} else {
			rep.Note("gen facts: %s", out[0])
		}
	}
	switch {
	case err != nil:
	case os.Getenv("C11_RACE_CHILD") != "":
		err = relayEngine(common.NewRng(o.Seed).Fork(1<<40), dns, shared, o, rep)
	case os.Getenv("C11_RACE_ONLY") != "": // maintenance: only the -race child run
		raceRun(o, rep)
	case o.Replay != "":
		var k AnyCase
		if err = common.LoadReplay(o.Replay, &k); err != nil {
			break
		}
		switch k.Kind {
		case "packer":
			var c PackerCase
			if err = common.LoadReplay(o.Replay, &c); err == nil {
				err = evalPacker([]PackerCase{c}, dns, shared, o, rep)
			}
		case "f8race":
			var c F8Case
			if err = common.LoadReplay(o.Replay, &c); err == nil {
				err = runF8(c, dns, rep)
			}
		case "udprelay":
			var c RelayCase
			if err = common.LoadReplay(o.Replay, &c); err == nil {
				err = evalRelay([]RelayCase{c}, dns, shared, o, rep)
			}
		default:
			err = fmt.Errorf("unknown case kind %q", k.Kind)
		}
	default:
		r := common.NewRng(o.Seed)
		// packer engine
		n := o.Budget(300, 6000)
		var cases []PackerCase
		for i := 0; i < n; i++ {
			cases = append(cases, genPackerCase(r.Fork(uint64(i))))
		}
		err = evalPacker(cases, dns, shared, o, rep)
		// F8 probe: long enough to be reliable when the packer is shared, short otherwise
		if err == nil {
			budget := 400
			switch {
			case shared && o.Thorough():
				budget = 15000
			case shared:
				budget = 4000
			case o.Search:
				budget = 3000
			}
			err = runF8(F8Case{Kind: "f8race", BudgetMs: budget}, dns, rep)
		}
		if err == nil {
			err = relayEngine(r.Fork(1<<40), dns, shared, o, rep)
		}
		if err == nil && o.Thorough() {
			raceRun(o, rep)
		}
	}
	if err != nil {
		fmt.Fprintln(os.Stderr, "corr_c11:", err)
		rep.Note("engine error: %v", err)
		rep.Write(o.Out)
		os.Exit(3)
	}
	if err := rep.Write(o.Out); err != nil {
		fmt.Fprintln(os.Stderr, err)
		os.Exit(3)
	}
}
