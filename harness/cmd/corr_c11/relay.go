package main

import (
	"bytes"
	"context"
	crand "crypto/rand"
	"encoding/binary"
	"errors"
	"fmt"
	"io"
	"net"
	"net/netip"
	"os"
	"runtime"
	"strings"
	"sync"
	"time"

	"ssvharness/internal/common"

	"github.com/database64128/shadowsocks-go/conn"
	"github.com/database64128/shadowsocks-go/jsoncfg"
	"github.com/database64128/shadowsocks-go/service"
	"github.com/database64128/shadowsocks-go/ss2022"
	"github.com/database64128/shadowsocks-go/zerocopy"
	"go.uber.org/zap"
	"golang.org/x/net/ipv4"
	"go.uber.org/zap/zapcore"
	"go.uber.org/zap/zaptest/observer"
)

// ---------- case ----------

type RelayOp struct {
	Op   string `json:"op"`             // send | reply | garbage | move | burst
	C    int    `json:"c,omitempty"`    // client (send, garbage, move)
	T    int    `json:"t,omitempty"`    // target (send, reply)
	Dom  bool   `json:"dom,omitempty"`  // send: address the target by name
	J    int    `json:"j,omitempty"`    // reply: to the j-th relay session seen so far (mod count)
	G    int    `json:"g,omitempty"`    // garbage kind
	Fresh bool  `json:"fresh,omitempty"` // garbage from a socket never used before
}

type RelayCase struct {
	Kind    string    `json:"kind"`   // "udprelay"
	Server  string    `json:"server"` // none | socks5 | ss2022 | direct
	Client  string    `json:"client"` // direct | none
	Batch   string    `json:"batch"`  // no | sendmmsg
	Clients int       `json:"clients"`
	Targets int       `json:"targets"`
	TunnelDom bool    `json:"tunnel_dom,omitempty"` // direct server: tunnelRemoteAddress is a domain name
	Ops     []RelayOp `json:"ops"`
	Family  string    `json:"family,omitempty"` // "" = IPv4 listener on 127.0.0.1; "wild4" = 0.0.0.0 (pktinfo); "dual" = [::] with IPv4-mapped and IPv6 clients + an IPv6 target
	Flood   int       `json:"flood,omitempty"` // concurrent phase: datagrams per client (0 = none)
	Seed    uint64    `json:"seed"`
}

var serverProtos = []string{"none", "socks5", "ss2022", "direct"}
var clientProtos = []string{"direct", "none", "socks5"}

func genRelayCase(r *common.Rng, idx int) RelayCase {
	c := RelayCase{Kind: "udprelay", Seed: r.U64()}
	c.Server = serverProtos[idx%4]
	// groups of four runs (one per server protocol): the first five groups, which a quick run reaches even on a
	// loaded machine, cover the direct client on both I/O paths and every upstream protocol
	sched := [][2]string{{"direct", "no"}, {"direct", "sendmmsg"}, {"none", "sendmmsg"}, {"ss2022", "no"}, {"socks5", "sendmmsg"},
		{"none", "no"}, {"ss2022", "sendmmsg"}, {"socks5", "no"}}
	g := sched[(idx/4)%len(sched)]
	c.Client, c.Batch = g[0], g[1]
	c.Family = []string{"", "wild4", "dual"}[(idx/4+idx/32)%3]
	c.Clients = r.Range(2, 4)
	c.Targets = r.Range(2, 3)
	c.TunnelDom = r.Bool()
	if c.Family == "dual" {
		c.Targets++ // the last target is [::1]
	}
	n := r.Range(8, 30)
	sends := 0
	for i := 0; i < n; i++ {
		x := r.Intn(100)
		switch {
		case x < 45 || sends == 0:
			c.Ops = append(c.Ops, RelayOp{Op: "send", C: r.Intn(c.Clients), T: r.Intn(c.Targets), Dom: r.Chance(1, 2)})
			sends++
		case x < 62:
			c.Ops = append(c.Ops, RelayOp{Op: "reply", T: r.Intn(c.Targets), J: r.Intn(8)})
		case x < 70:
			c.Ops = append(c.Ops, RelayOp{Op: "rburst", T: r.Intn(c.Targets), J: r.Intn(8), G: r.Intn(1 << 16)})
		case x < 85:
			c.Ops = append(c.Ops, RelayOp{Op: "garbage", C: r.Intn(c.Clients), G: r.Intn(6), Fresh: r.Chance(1, 3)})
		case x < 92:
			c.Ops = append(c.Ops, RelayOp{Op: "move", C: r.Intn(c.Clients)})
		case x < 96:
			c.Ops = append(c.Ops, RelayOp{Op: "stall", C: r.Intn(c.Clients), T: r.Intn(c.Targets), J: r.Intn(8), G: r.Intn(1 << 16)})
		default:
			c.Ops = append(c.Ops, RelayOp{Op: "burst", C: r.Intn(c.Clients)})
		}
	}
	for k := 0; k < 4; k++ {
		c.Ops = append(c.Ops, RelayOp{Op: "rburst", T: r.Intn(c.Targets), J: r.Intn(8), G: r.Intn(1 << 16)})
	}
	if r.Chance(1, 2) {
		c.Flood = r.Range(20, 120)
	}
	return c
}

func relaySig(c RelayCase) string {
	var sb strings.Builder
	fmt.Fprintf(&sb, "%s>%s/%s%s c%d t%d f%d %v", c.Server, c.Client, c.Batch, c.Family, c.Clients, c.Targets, c.Flood, c.TunnelDom)
	for _, o := range c.Ops {
		fmt.Fprintf(&sb, " %s%d.%d.%v.%d.%d.%v", o.Op[:1], o.C, o.T, o.Dom, o.J, o.G, o.Fresh)
	}
	return sb.String()
}

// ---------- sockets ----------

type dgram struct {
	sock int // index of the receiving socket in its group
	from netip.AddrPort
	data []byte
	// filled by classifyTarget: what the datagram carries after removing the upstream protocol (if any)
	inner   tAddr
	payload []byte
	perr    error
}

type sockGroup struct {
	mu    sync.Mutex
	socks []*net.UDPConn
	ch    chan dgram
	wg    sync.WaitGroup
}

func newSockGroup() *sockGroup { return &sockGroup{ch: make(chan dgram, 65536)} }

func (g *sockGroup) add(c *net.UDPConn) int {
	g.mu.Lock()
	idx := len(g.socks)
	g.socks = append(g.socks, c)
	g.mu.Unlock()
	g.wg.Go(func() {
		buf := make([]byte, 4096)
		for {
			n, from, err := c.ReadFromUDPAddrPort(buf)
			if err != nil {
				return
			}
			d := make([]byte, n)
			copy(d, buf[:n])
			g.ch <- dgram{sock: idx, from: netip.AddrPortFrom(from.Addr().Unmap(), from.Port()), data: d}
		}
	})
	return idx
}

func (g *sockGroup) get(i int) *net.UDPConn {
	g.mu.Lock()
	defer g.mu.Unlock()
	return g.socks[i]
}

func (g *sockGroup) close() {
	g.mu.Lock()
	for _, c := range g.socks {
		c.Close()
	}
	g.mu.Unlock()
	g.wg.Wait()
}

func listenLoop(ip string, port int) (*net.UDPConn, error) {
	network := "udp4"
	if strings.Contains(ip, ":") {
		network = "udp6"
	}
	return net.ListenUDP(network, &net.UDPAddr{IP: net.ParseIP(ip), Port: port})
}

// ---------- wire formats spoken by the harness (written from the protocol documents, not from the repo) ----------

type tAddr struct {
	ip   netip.Addr // valid = IP target
	name string
	port uint16
}

func (a tAddr) String() string {
	if a.ip.IsValid() {
		return netip.AddrPortFrom(a.ip, a.port).String()
	}
	return fmt.Sprintf("%s:%d", a.name, a.port)
}

func appendSocksAddr(b []byte, a tAddr) []byte {
	if a.ip.IsValid() && a.ip.Is4() {
		b = append(b, 1)
		ip4 := a.ip.As4()
		b = append(b, ip4[:]...)
	} else if a.ip.IsValid() {
		b = append(b, 4)
		ip16 := a.ip.As16()
		b = append(b, ip16[:]...)
	} else {
		b = append(b, 3, byte(len(a.name)))
		b = append(b, a.name...)
	}
	return binary.BigEndian.AppendUint16(b, a.port)
}

func parseSocksAddr(b []byte) (tAddr, int, error) {
	if len(b) < 1 {
		return tAddr{}, 0, errors.New("empty")
	}
	switch b[0] {
	case 1:
		if len(b) < 7 {
			return tAddr{}, 0, errors.New("short v4")
		}
		return tAddr{ip: netip.AddrFrom4([4]byte(b[1:5])), port: binary.BigEndian.Uint16(b[5:7])}, 7, nil
	case 4:
		if len(b) < 19 {
			return tAddr{}, 0, errors.New("short v6")
		}
		return tAddr{ip: netip.AddrFrom16([16]byte(b[1:17])).Unmap(), port: binary.BigEndian.Uint16(b[17:19])}, 19, nil
	case 3:
		if len(b) < 2 || len(b) < 2+int(b[1])+2 {
			return tAddr{}, 0, errors.New("short domain")
		}
		n := int(b[1])
		return tAddr{name: string(b[2 : 2+n]), port: binary.BigEndian.Uint16(b[2+n : 4+n])}, 4 + n, nil
	}
	return tAddr{}, 0, fmt.Errorf("atyp %d", b[0])
}

// Every payload of a relay run is: 8-byte identity, the run's 8-byte random nonce, filler. Loopback is shared with
// other processes (and with earlier cases of this process, whose ports get reused): a datagram that cannot be
// attributed to THIS run — neither by its source (a socket of this run's relay) nor by the nonce — is counted as
// foreign traffic and ignored; one that is attributable and unexpected stays an oracle failure.
func (x *relayRun) payloadBytes(id int, fill int) []byte {
	b := binary.BigEndian.AppendUint64(nil, uint64(id))
	b = append(b, x.nonce[:]...)
	return append(b, x.r.Bytes(fill)...)
}

var (
	pastNonceMu sync.Mutex
	pastNonces  = map[[8]byte]bool{}
)

// whose classifies a payload by its nonce: "mine", "late" (an earlier case of this process) or "foreign".
func (x *relayRun) whose(b []byte) string {
	if len(b) < 16 {
		return "foreign"
	}
	n := [8]byte(b[8:16])
	if n == x.nonce {
		return "mine"
	}
	pastNonceMu.Lock()
	defer pastNonceMu.Unlock()
	if pastNonces[n] {
		return "late"
	}
	return "foreign"
}

func (x *relayRun) skip(kind string) {
	if kind == "late" {
		x.lateN++
	} else {
		x.foreignN++
	}
}

// classifyTarget: does a datagram that arrived at a target / upstream socket belong to this run? Attribution by
// source (a NAT socket of this run's relay already seen) or by nonce; fills d.inner / d.payload / d.perr.
func (x *relayRun) classifyTarget(d *dgram) bool {
	_, known := x.portSid[d.from.Port()]
	if x.viaUpstream() && d.sock == len(x.taddrs) {
		a, payload, err := x.parseUpstream(d.data, d.from)
		if err != nil {
			if known {
				d.perr = err
				return true
			}
			x.skip("foreign")
			return false
		}
		d.inner, d.payload = a, payload
	} else {
		d.payload = d.data
	}
	if known {
		return true
	}
	if w := x.whose(d.payload); w != "mine" {
		x.skip(w)
		return false
	}
	return true
}

// classifyClient: a datagram at a client socket belongs to this run iff it comes from this run's relay listener.
func (x *relayRun) classifyClient(d *dgram) bool {
	a := d.from.Addr()
	if d.from.Port() == x.relay.addr.Port() && a.IsLoopback() {
		return true
	}
	x.skip("foreign")
	return false
}

// relayedForeign: a reply that this run's relay delivered correctly but that did not originate in this run: a
// full-cone NAT session forwards whatever reaches its NAT socket, also datagrams of other processes on the shared
// loopback. It is recognised by BOTH a source that is none of this run's targets and a payload without the nonce.
func (x *relayRun) relayedForeign(src string, payload []byte) bool {
	if x.whose(payload) == "mine" {
		return false
	}
	if ap, err := netip.ParseAddrPort(src); err == nil && ap.Port() == x.tport {
		for _, a := range x.taddrs {
			if a == ap.Addr().Unmap() {
				return false // claims to come from one of this run's targets: must be one of their payloads
			}
		}
	}
	x.skip(x.whose(payload))
	return true
}

// ownerOf: the client whose socket (current or earlier) received the datagram.
func (x *relayRun) ownerOf(d dgram) *hClient {
	if ci, ok := x.sockOwner[d.sock]; ok {
		return x.clients[ci]
	}
	return nil
}

// cgRecvDecoded: the next reply of THIS run at a client socket, decoded with the session of the client chosen by
// hcFor. A datagram from this run's relay that does not decode is returned with derr (a failure of the relay).
func (x *relayRun) cgRecvDecoded(hcFor func(dgram) *hClient, wait time.Duration) (d dgram, src string, payload []byte, derr error, ok bool) {
	deadline := time.Now().Add(wait)
	for {
		left := time.Until(deadline)
		if left <= 0 {
			left = time.Millisecond
		}
		var got bool
		if d, got = x.cgRecv(left); !got {
			return d, "", nil, nil, false
		}
		hc := hcFor(d)
		if hc == nil {
			return d, "", nil, errors.New("no client owns this socket"), true
		}
		src, payload, derr = x.decode(hc, d)
		if derr != nil {
			return d, "", nil, derr, true
		}
		if x.relayedForeign(src, payload) {
			if time.Now().After(deadline) {
				return d, "", nil, nil, false
			}
			continue
		}
		return d, src, payload, nil, true
	}
}

// tgRecv / cgRecv: the next datagram of THIS run at a target (upstream) / client socket, within wait (0 = poll).
func (x *relayRun) tgRecv(wait time.Duration) (dgram, bool) {
	deadline := time.Now().Add(wait)
	for {
		var d dgram
		if wait == 0 {
			select {
			case d = <-x.tg.ch:
			default:
				return dgram{}, false
			}
		} else {
			select {
			case d = <-x.tg.ch:
			case <-time.After(time.Until(deadline)):
				return dgram{}, false
			}
		}
		if x.classifyTarget(&d) {
			return d, true
		}
	}
}

func (x *relayRun) cgRecv(wait time.Duration) (dgram, bool) {
	deadline := time.Now().Add(wait)
	for {
		var d dgram
		if wait == 0 {
			select {
			case d = <-x.cg.ch:
			default:
				return dgram{}, false
			}
		} else {
			select {
			case d = <-x.cg.ch:
			case <-time.After(time.Until(deadline)):
				return dgram{}, false
			}
		}
		if x.classifyClient(&d) {
			return d, true
		}
	}
}

// payload generates and remembers the payload with identity id (so that every observation can be checked byte for byte).
func (x *relayRun) payload(id int) []byte {
	b := x.payloadBytes(id, 8+x.r.Intn(24))
	x.plData[id] = b
	return b
}

func (x *relayRun) payloadN(id, n int) []byte {
	b := x.payloadBytes(id, n-16)
	x.plData[id] = b
	return b
}

// intact: the bytes are exactly a payload the harness generated.
func (x *relayRun) intact(b []byte) bool {
	want, ok := x.plData[payloadID(b)]
	return ok && bytes.Equal(want, b)
}

func payloadID(b []byte) int {
	if len(b) < 8 {
		return -1
	}
	return int(binary.BigEndian.Uint64(b))
}

// ---------- a relay started through service.Config -> Manager ----------

type relayProc struct {
	cancel context.CancelFunc
	done   chan struct{}
	addr   netip.AddrPort
	logs   *observer.ObservedLogs
}

var testPSK = []byte("0123456789abcdef")

var upstreamPSK = []byte("fedcba9876543210")

// relayCap is the configured sendChannelCapacity (the smallest value the configuration accepts).
const relayCap = 64

func startRelay(c RelayCase, tunnel conn.Addr, upstream, upstreamTCP netip.AddrPort) (*relayProc, error) {
	lnNet, lnAddr := "udp4", "127.0.0.1:0"
	switch c.Family {
	case "wild4":
		lnAddr = "0.0.0.0:0"
	case "dual":
		lnNet, lnAddr = "udp", "[::]:0"
	}
	sc := service.ServerConfig{
		Name: "s",
		MTU:  1500,
		UDPListeners: []service.UDPListenerConfig{{
			ListenerConfig: service.ListenerConfig{Network: lnNet, Address: lnAddr},
			UDPPerfConfig:  service.UDPPerfConfig{BatchMode: c.Batch, SendChannelCapacity: relayCap},
			NATTimeout:     jsoncfg.Duration(5 * time.Minute),
		}},
	}
	switch c.Server {
	case "none", "socks5":
		sc.Protocol = c.Server
	case "ss2022":
		sc.Protocol = "2022-blake3-aes-128-gcm"
		sc.PSK = testPSK
	case "direct":
		sc.Protocol = "direct"
		sc.TunnelRemoteAddress = tunnel
	default:
		return nil, fmt.Errorf("server protocol %q", c.Server)
	}
	cc := service.ClientConfig{Name: "c", Protocol: "direct", Network: "ip4", EnableUDP: true, MTU: 1500}
	switch c.Client {
	case "direct":
	case "none":
		cc.Protocol = "none"
		cc.UDPAddress = conn.AddrFromIPPort(upstream)
	case "ss2022":
		cc.Protocol = "2022-blake3-aes-128-gcm"
		cc.PSK = upstreamPSK
		cc.UDPAddress = conn.AddrFromIPPort(upstream)
	case "socks5":
		cc.Protocol = "socks5"
		cc.UDPAddress = conn.AddrFromIPPort(upstreamTCP) // the SOCKS5 server's TCP address; the UDP address comes from UDP ASSOCIATE
	default:
		return nil, fmt.Errorf("client protocol %q", c.Client)
	}
	cfg := service.Config{Servers: []service.ServerConfig{sc}, Clients: []service.ClientConfig{cc}}
	core, logs := observer.New(zapcore.InfoLevel)
	mgr, err := cfg.Manager(zap.New(core))
	if err != nil {
		return nil, fmt.Errorf("manager: %w", err)
	}
	ctx, cancel := context.WithCancel(context.Background())
	p := &relayProc{cancel: cancel, done: make(chan struct{}), logs: logs}
	go func() {
		mgr.Run(ctx)
		mgr.Close()
		close(p.done)
	}()
	deadline := time.Now().Add(10 * time.Second)
	for {
		for _, e := range logs.All() {
			switch {
			case strings.HasPrefix(e.Message, "Started UDP") && strings.HasSuffix(e.Message, "relay service listener"):
				if v, ok := e.ContextMap()["listenAddress"].(string); ok {
					ap, err := netip.ParseAddrPort(v)
					if err != nil {
						p.stop()
						return nil, err
					}
					p.addr = ap
					return p, nil
				}
			case e.Message == "Failed to start service":
				p.stop()
				return nil, fmt.Errorf("service failed to start: %v", e.ContextMap())
			}
		}
		if time.Now().After(deadline) {
			p.stop()
			return nil, errors.New("relay did not start in 10 s")
		}
		time.Sleep(time.Millisecond)
	}
}

func (p *relayProc) stop() bool {
	p.cancel()
	select {
	case <-p.done:
		return true
	case <-time.After(8 * time.Second):
		return false
	}
}

// ---------- harness clients ----------

type hClient struct {
	sock int // current socket (index into the client group = the model's Addr)
	// ss2022
	packer   zerocopy.ClientPacker
	unpacker zerocopy.ClientUnpacker
	front    int
	lastPkt  []byte // last valid wire packet (for replay garbage)
}

type relayRun struct {
	c        RelayCase
	r        *common.Rng
	dns      *scriptDNS
	relay    *relayProc
	clients  []*hClient
	cg, tg   *sockGroup // client sockets, target (or upstream) sockets
	tport    uint16
	taddrs   []netip.Addr
	upstream netip.AddrPort
	upstreamTCP netip.AddrPort
	tcpLn    net.Listener
	upSrv    *ss2022.UDPServer                  // ss2022 upstream: the harness decodes with the repository's server codec
	upUnp    map[uint64]zerocopy.ServerUnpacker // by client session id of the relay's upstream session
	upPk     map[uint16]zerocopy.ServerPacker   // by relay NAT port

	script []string
	impl   []string
	fails  []common.OracleFailure

	nextPl    int
	plTarget  map[int]int    // payload id -> intended target
	plClient  map[int]int    // payload id -> sending client
	plSockets map[int][]int  // reply payload id -> sockets allowed to receive it
	portSid   map[uint16]int // relay NAT port -> observed session number
	sidPort   []uint16
	sidClient []int // observed session -> owning client
	sidSock   []int // observed session -> socket its latest accepted datagram came from
	sockOwner map[int]int
	sockRelay map[int]netip.AddrPort
	plData    map[int][]byte
	keyToSid  map[int]int
	stallN    int
	keySid    map[int]bool
	modelSids int
	twoWay    map[int]bool
	stopHung  bool
	rbursts   int
	nonce     [8]byte
	foreignN  int
	lateN     int
}

func tname(i int) string { return fmt.Sprintf("t%d.c11.test", i) }

func (x *relayRun) fail(key, detail string) {
	x.fails = append(x.fails, common.OracleFailure{Engine: "udprelay", Key: "udprelay:" + x.c.Server + ">" + x.c.Client + ":" + key, Case: x.c, Detail: detail})
}

// clientV6: in the dual-stack family every second client is an IPv6 client (the others reach the [::] listener
// over IPv4 and appear there as IPv4-mapped addresses).
func (x *relayRun) clientV6(ci int) bool { return x.c.Family == "dual" && ci%2 == 1 }

// relayAddrFor: the local address of the relay that client ci speaks to. With a wildcard listener every client
// uses a different one, and the relay must answer FROM it (pktinfo).
func (x *relayRun) relayAddrFor(ci int) netip.AddrPort {
	port := x.relay.addr.Port()
	switch {
	case x.clientV6(ci):
		return netip.AddrPortFrom(netip.MustParseAddr("::1"), port)
	case x.c.Family != "":
		return netip.AddrPortFrom(netip.AddrFrom4([4]byte{127, 0, 0, byte(40 + ci)}), port)
	}
	return x.relay.addr
}

func (x *relayRun) newClientSocket(ci int) (int, error) {
	ip := "127.0.0.1"
	if x.clientV6(ci) {
		ip = "::1"
	}
	s, err := listenLoop(ip, 0)
	if err != nil {
		return 0, err
	}
	idx := x.cg.add(s)
	x.sockRelay[idx] = x.relayAddrFor(ci)
	return idx, nil
}

// checkReplyFrom: the reply comes from the relay address the client sent to (the code stores the received
// IP_PKTINFO / IPV6_PKTINFO control message and attaches it to every reply).
func (x *relayRun) checkReplyFrom(d dgram) {
	if want, ok := x.sockRelay[d.sock]; ok && d.from != want {
		x.fail("reply-from-wrong-local-address", fmt.Sprintf("reply at client socket %d came from %s, the client speaks to %s", d.sock, d.from, want))
	}
}

func (x *relayRun) setup() error {
	x.cg, x.tg = newSockGroup(), newSockGroup()
	x.plTarget, x.plClient, x.plSockets = map[int]int{}, map[int]int{}, map[int][]int{}
	x.portSid, x.keySid, x.twoWay = map[uint16]int{}, map[int]bool{}, map[int]bool{}
	x.sockOwner = map[int]int{}
	x.keyToSid = map[int]int{}
	x.plData = map[int][]byte{}
	x.sockRelay = map[int]netip.AddrPort{}
	if _, err := crand.Read(x.nonce[:]); err != nil {
		return err
	}
	x.nextPl = 1000
	// targets: same port on 127.0.0.(20+i), so that a datagram sent to another session's resolved
	// address still lands on a monitored socket
	for attempt := 0; ; attempt++ {
		first, err := listenLoop("127.0.0.20", 0)
		if err != nil {
			return err
		}
		port := first.LocalAddr().(*net.UDPAddr).Port
		socks := []*net.UDPConn{first}
		ok := true
		nt := x.c.Targets
		if x.c.Family == "dual" {
			nt-- // the last one is the IPv6 target
		}
		for i := 1; i < nt; i++ {
			s, err := listenLoop(fmt.Sprintf("127.0.0.%d", 20+i), port)
			if err != nil {
				ok = false
				break
			}
			socks = append(socks, s)
		}
		var s6 *net.UDPConn
		if ok && x.c.Family == "dual" {
			if s6, err = listenLoop("::1", port); err != nil {
				ok = false
			}
		}
		if ok {
			x.tport = uint16(port)
			for i, s := range socks {
				x.tg.add(s)
				a := netip.MustParseAddr(fmt.Sprintf("127.0.0.%d", 20+i))
				x.taddrs = append(x.taddrs, a)
				x.dns.set(tname(i), a)
			}
			if s6 != nil {
				x.tg.add(s6)
				x.taddrs = append(x.taddrs, netip.MustParseAddr("::1"))
			}
			break
		}
		for _, s := range socks {
			s.Close()
		}
		if attempt > 20 {
			return errors.New("could not bind the target sockets on one port")
		}
	}
	if x.viaUpstream() {
		// the harness plays the upstream proxy (Shadowsocks none / SOCKS5): one more monitored socket
		u, err := listenLoop("127.0.0.1", 0)
		if err != nil {
			return err
		}
		x.tg.add(u)
		x.upstream = u.LocalAddr().(*net.UDPAddr).AddrPort()
	}
	if x.c.Client == "ss2022" {
		ucc, err := ss2022.NewUserCipherConfig(upstreamPSK, true)
		if err != nil {
			return err
		}
		x.upSrv = ss2022.NewUDPServer(0, ucc, ss2022.ServerIdentityCipherConfig{}, ss2022.PadPlainDNS)
		x.upUnp, x.upPk = map[uint64]zerocopy.ServerUnpacker{}, map[uint16]zerocopy.ServerPacker{}
	}
	if x.c.Client == "socks5" {
		ln, err := net.Listen("tcp4", "127.0.0.1:0")
		if err != nil {
			return err
		}
		x.tcpLn = ln
		x.upstreamTCP = ln.Addr().(*net.TCPAddr).AddrPort()
		go x.serveSocks5TCP(ln)
	}
	tunnel := conn.AddrFromIPAndPort(x.taddrs[0], x.tport)
	if x.c.TunnelDom {
		tunnel = conn.MustAddrFromDomainPort(tname(0), x.tport)
	}
	var err error
	x.relay, err = startRelay(x.c, tunnel, x.upstream, x.upstreamTCP)
	if err != nil {
		return err
	}
	for i := 0; i < x.c.Clients; i++ {
		s, err := x.newClientSocket(i)
		if err != nil {
			return err
		}
		hc := &hClient{sock: s}
		x.sockOwner[s] = i
		if x.c.Server == "ss2022" {
			cc, err := ss2022.NewClientCipherConfig(testPSK, nil, true)
			if err != nil {
				return err
			}
			uc := ss2022.NewUDPClient("h", "ip4", conn.AddrFromIPPort(x.relayAddrFor(i)), 1500, conn.DefaultUDPClientListenConfig, 0, cc, ss2022.PadPlainDNS)
			info, sess, err := uc.NewSession(context.Background())
			if err != nil {
				return err
			}
			hc.packer, hc.unpacker, hc.front = sess.Packer, sess.Unpacker, info.PackerHeadroom.Front
		}
		x.clients = append(x.clients, hc)
	}
	return nil
}

func (x *relayRun) viaUpstream() bool { return x.c.Client != "direct" }

// upPrefix is what precedes the SOCKS address in a datagram exchanged with the upstream proxy.
func (x *relayRun) upPrefix() []byte {
	if x.c.Client == "socks5" {
		return []byte{0, 0, 0}
	}
	return nil
}

// parseUpstream splits a datagram that arrived at the upstream proxy into (address inside, payload).
func (x *relayRun) parseUpstream(b []byte, from netip.AddrPort) (tAddr, []byte, error) {
	if x.c.Client == "ss2022" {
		b = append([]byte(nil), b...)
		csid, err := x.upSrv.SessionInfo(b)
		if err != nil {
			return tAddr{}, nil, err
		}
		unp := x.upUnp[csid]
		if unp == nil {
			if unp, _, err = x.upSrv.NewUnpacker(b, csid); err != nil {
				return tAddr{}, nil, err
			}
		}
		ta, ps, pl, err := unp.UnpackInPlace(b, from, 0, len(b))
		if err != nil {
			return tAddr{}, nil, err
		}
		if x.upUnp[csid] == nil {
			x.upUnp[csid] = unp
			pk, err := unp.NewPacker()
			if err != nil {
				return tAddr{}, nil, err
			}
			x.upPk[from.Port()] = pk
		}
		if ta.IsIP() {
			return tAddr{ip: ta.IP().Unmap(), port: ta.Port()}, b[ps : ps+pl], nil
		}
		return tAddr{name: ta.Domain(), port: ta.Port()}, b[ps : ps+pl], nil
	}
	if x.c.Client == "socks5" {
		if len(b) < 3 || b[0] != 0 || b[1] != 0 || b[2] != 0 {
			return tAddr{}, nil, errors.New("bad SOCKS5 UDP header")
		}
		b = b[3:]
	}
	a, n, err := parseSocksAddr(b)
	if err != nil {
		return tAddr{}, nil, err
	}
	return a, b[n:], nil
}

// upstreamReply builds the datagram the upstream proxy sends back: (true source inside, payload).
func (x *relayRun) upstreamReply(src netip.AddrPort, payload []byte, relayPort uint16) ([]byte, error) {
	if x.c.Client == "ss2022" {
		pk := x.upPk[relayPort]
		if pk == nil {
			return nil, fmt.Errorf("no upstream session for relay port %d", relayPort)
		}
		front := pk.ServerPackerInfo().Headroom.Front
		b := make([]byte, front+len(payload)+64)
		copy(b[front:], payload)
		ps, pl, err := pk.PackInPlace(b, src, front, len(payload), 1452)
		if err != nil {
			return nil, err
		}
		return b[ps : ps+pl], nil
	}
	return append(appendSocksAddr(x.upPrefix(), tAddr{ip: src.Addr(), port: src.Port()}), payload...), nil
}

// serveSocks5TCP: the TCP side of the harness's SOCKS5 server (RFC 1928): no authentication, UDP ASSOCIATE
// answered with the harness's upstream UDP socket; the connection stays open until the relay closes it.
func (x *relayRun) serveSocks5TCP(ln net.Listener) {
	for {
		c, err := ln.Accept()
		if err != nil {
			return
		}
		go func() {
			defer c.Close()
			c.SetDeadline(time.Now().Add(10 * time.Minute))
			hdr := make([]byte, 2)
			if _, err := io.ReadFull(c, hdr); err != nil || hdr[0] != 5 {
				return
			}
			if _, err := io.ReadFull(c, make([]byte, hdr[1])); err != nil {
				return
			}
			c.Write([]byte{5, 0})
			req := make([]byte, 4)
			if _, err := io.ReadFull(c, req); err != nil || req[1] != 3 {
				return
			}
			var alen int
			switch req[3] {
			case 1:
				alen = 4 + 2
			case 4:
				alen = 16 + 2
			case 3:
				l := make([]byte, 1)
				if _, err := io.ReadFull(c, l); err != nil {
					return
				}
				alen = int(l[0]) + 2
			}
			if _, err := io.ReadFull(c, make([]byte, alen)); err != nil {
				return
			}
			ip := x.upstream.Addr().As4()
			rep := append([]byte{5, 0, 0, 1}, ip[:]...)
			rep = binary.BigEndian.AppendUint16(rep, x.upstream.Port())
			c.Write(rep)
			io.Copy(io.Discard, c)
		}()
	}
}

func (x *relayRun) teardown() {
	if x.tcpLn != nil {
		x.tcpLn.Close()
	}
	if x.relay != nil {
		if !x.relay.stop() {
			x.stopHung = true // session shutdown is C12's subject; only noted here
		}
	}
	if x.cg != nil {
		x.cg.close()
	}
	if x.tg != nil {
		x.tg.close()
	}
}

func (x *relayRun) targetAddr(t int, dom bool) tAddr {
	if x.c.Server == "direct" {
		t, dom = 0, x.c.TunnelDom
	}
	if dom && x.taddrs[t].Is4() { // the harness's DNS has A records only: the IPv6 target is always named by address
		return tAddr{name: tname(t), port: x.tport}
	}
	return tAddr{ip: x.taddrs[t], port: x.tport}
}

// encode builds the datagram a client of the server protocol sends for (target, payload).
func (x *relayRun) encode(hc *hClient, ta tAddr, payload []byte) ([]byte, error) {
	switch x.c.Server {
	case "none":
		return append(appendSocksAddr(nil, ta), payload...), nil
	case "socks5":
		return append(appendSocksAddr([]byte{0, 0, 0}, ta), payload...), nil
	case "direct":
		return payload, nil
	case "ss2022":
		var a conn.Addr
		if ta.ip.IsValid() {
			a = conn.AddrFromIPAndPort(ta.ip, ta.port)
		} else {
			a = conn.MustAddrFromDomainPort(ta.name, ta.port)
		}
		b := make([]byte, hc.front+len(payload)+64)
		copy(b[hc.front:], payload)
		_, ps, pl, err := hc.packer.PackInPlace(context.Background(), b, a, hc.front, len(payload))
		if err != nil {
			return nil, err
		}
		return b[ps : ps+pl], nil
	}
	return nil, errors.New("protocol")
}

// decode parses a datagram that arrived at a client socket: attached source ("-" if the protocol has none) + payload.
func (x *relayRun) decode(hc *hClient, d dgram) (src string, payload []byte, err error) {
	switch x.c.Server {
	case "none":
		a, n, err := parseSocksAddr(d.data)
		if err != nil {
			return "", nil, err
		}
		return a.String(), d.data[n:], nil
	case "socks5":
		if len(d.data) < 3 || d.data[2] != 0 {
			return "", nil, errors.New("bad socks5 udp header")
		}
		a, n, err := parseSocksAddr(d.data[3:])
		if err != nil {
			return "", nil, err
		}
		return a.String(), d.data[3+n:], nil
	case "direct":
		return "-", d.data, nil
	case "ss2022":
		b := make([]byte, len(d.data))
		copy(b, d.data)
		sa, ps, pl, err := hc.unpacker.UnpackInPlace(b, d.from, 0, len(b))
		if err != nil {
			return "", nil, err
		}
		return netip.AddrPortFrom(sa.Addr().Unmap(), sa.Port()).String(), b[ps : ps+pl], nil
	}
	return "", nil, errors.New("protocol")
}

const waitDatagram = 5 * time.Second

// ipNat: the model's name of an address (IPv4: its 32 bits; IPv6 loopback-style addresses: 6000000000 + last byte).
func ipNat(a netip.Addr) uint64 {
	a = a.Unmap()
	if a.Is4() {
		return uint64(addrU32(a))
	}
	b := a.As16()
	return 6000000000 + uint64(b[15])
}

func (x *relayRun) clientKey(ci int) int {
	if x.c.Server == "ss2022" {
		return 1000 + ci // the client session id
	}
	return x.clients[ci].sock // NAT relays: the client address
}

func (x *relayRun) byAddr() bool { return x.c.Server != "ss2022" }

func (x *relayRun) cfgLine(shared bool) string {
	b := func(v bool) string {
		if v {
			return "1"
		}
		return "0"
	}
	l := fmt.Sprintf("cfg %d %s %s %s", relayCap, b(x.byAddr()), b(x.c.Server != "direct"), b(shared))
	if x.viaUpstream() {
		l += fmt.Sprintf(" %d %d", ipNat(x.upstream.Addr()), x.upstream.Port())
	}
	return l
}

// observeAtTargets waits for one datagram at a target / upstream socket and classifies it.
// Returns (target index it is FOR, relay port, payload id, inner-domain flag).
func (x *relayRun) nextAtTargets() (t int, from netip.AddrPort, plid int, innerDom bool, ok bool) {
	d, got := x.tgRecv(waitDatagram)
	if !got {
		return 0, netip.AddrPort{}, 0, false, false
	}
	if x.viaUpstream() && d.sock == len(x.taddrs) {
		if d.perr != nil {
			x.fail("upstream-unparsable", fmt.Sprintf("datagram from a relay session at the upstream proxy does not parse: %v", d.perr))
			return -1, d.from, -1, false, true
		}
		a, payload := d.inner, d.payload
		t = -1
		for i := range x.taddrs {
			if a.port == x.tport && (a.ip == x.taddrs[i] || a.name == tname(i)) {
				t = i
			}
		}
		if !x.intact(payload) {
			x.fail("payload-altered", fmt.Sprintf("datagram at the upstream proxy carries bytes no client sent (id %d, %d bytes)", payloadID(payload), len(payload)))
		}
		return t, d.from, payloadID(payload), !a.ip.IsValid(), true
	}
	if x.viaUpstream() {
		x.fail("bypassed-upstream", fmt.Sprintf("datagram (payload %d) of this run arrived directly at target %d although the client protocol goes through the upstream proxy", payloadID(d.data), d.sock))
	}
	if !x.intact(d.data) {
		x.fail("payload-altered", fmt.Sprintf("datagram at target %d carries bytes no client sent (id %d, %d bytes)", d.sock, payloadID(d.data), len(d.data)))
	}
	return d.sock, d.from, payloadID(d.data), false, true
}

func (x *relayRun) opSend(o RelayOp) {
	hc := x.clients[o.C]
	ta := x.targetAddr(o.T, o.Dom)
	t := o.T
	if x.c.Server == "direct" {
		t = 0
	}
	x.nextPl++
	pl := x.nextPl
	x.plTarget[pl], x.plClient[pl] = t, o.C
	wire, err := x.encode(hc, ta, x.payload(pl))
	if err != nil {
		x.fail("harness-encode", err.Error())
		return
	}
	hc.lastPkt = wire
	key := x.clientKey(o.C)
	var tl string
	isDom := !ta.ip.IsValid()
	if isDom {
		tl = fmt.Sprintf("dom %d %d %d", t+1, x.tport, pl)
	} else {
		tl = fmt.Sprintf("ip %d %d %d", ipNat(ta.ip), x.tport, pl)
	}
	x.script = append(x.script, fmt.Sprintf("recv %d %d %s", key, hc.sock, tl))
	if _, err := x.cg.get(hc.sock).WriteToUDPAddrPort(wire, x.sockRelay[hc.sock]); err != nil {
		x.fail("harness-write", err.Error())
	}
	gotT, from, gotPl, innerDom, ok := x.nextAtTargets()
	if !ok {
		x.impl = append(x.impl, "lost")
		x.fail("datagram-lost", fmt.Sprintf("datagram %d from client %d for %s did not arrive within %s", pl, o.C, ta, waitDatagram))
		return
	}
	// oracle: a datagram seen at T carries a payload some client addressed to T
	if want, known := x.plTarget[gotPl]; !known || want != gotT {
		x.fail("wrong-destination", fmt.Sprintf("payload %d addressed to target %d (%s) arrived at target %d", gotPl, x.plTarget[gotPl], ta, gotT))
	}
	sid, seen := x.portSid[from.Port()]
	verdict := "old"
	if !seen {
		sid = len(x.sidPort)
		x.portSid[from.Port()] = sid
		x.sidPort = append(x.sidPort, from.Port())
		x.sidClient = append(x.sidClient, o.C)
		x.sidSock = append(x.sidSock, hc.sock)
		verdict = "new"
	}
	x.sidSock[sid] = hc.sock
	x.keyToSid[key] = sid
	x.impl = append(x.impl, fmt.Sprintf("%s %d 1", verdict, sid))
	if verdict == "new" {
		x.script = append(x.script, fmt.Sprintf("initok %d", sid))
		x.impl = append(x.impl, "ok")
	}
	// the model's uplink: a direct client resolves (the harness's DNS answer is an input of the model);
	// with an upstream proxy the datagram goes to the proxy with the target inside (checked by the oracle above)
	if x.viaUpstream() {
		x.script = append(x.script, fmt.Sprintf("pack %d -", sid))
		x.impl = append(x.impl, fmt.Sprintf("sent %d %d %d", ipNat(x.upstream.Addr()), x.upstream.Port(), gotPl))
		_ = innerDom
		return
	}
	ans := "-"
	obsIP := uint64(0)
	if gotT >= 0 {
		obsIP = ipNat(x.taddrs[gotT])
	}
	if isDom {
		ans = fmt.Sprint(ipNat(x.taddrs[t]))
	}
	x.script = append(x.script, fmt.Sprintf("pack %d %s", sid, ans))
	x.impl = append(x.impl, fmt.Sprintf("sent %d %d %d", obsIP, x.tport, gotPl))
}

func (x *relayRun) opReply(o RelayOp) {
	if len(x.sidPort) == 0 {
		return
	}
	sid := o.J % len(x.sidPort)
	if x.sidPort[sid] == 0 {
		return
	}
	x.nextPl++
	pl := x.nextPl
	owner := x.sidClient[sid]
	data := x.payload(pl)
	src := netip.AddrPortFrom(x.taddrs[o.T], x.tport)
	dst := netip.AddrPortFrom(netip.MustParseAddr("127.0.0.1"), x.sidPort[sid])
	if !x.viaUpstream() && !x.taddrs[o.T].Is4() {
		dst = netip.AddrPortFrom(netip.MustParseAddr("::1"), x.sidPort[sid])
	}
	if x.viaUpstream() {
		// the upstream proxy answers with the source inside
		var err error
		if data, err = x.upstreamReply(src, data, x.sidPort[sid]); err != nil {
			x.fail("harness-upstream-encode", err.Error())
			return
		}
		if _, err := x.tg.get(len(x.taddrs)).WriteToUDPAddrPort(data, dst); err != nil {
			x.fail("harness-write", err.Error())
		}
	} else if _, err := x.tg.get(o.T).WriteToUDPAddrPort(data, dst); err != nil {
		x.fail("harness-write", err.Error())
	}
	x.script = append(x.script, fmt.Sprintf("down %d %d %d %d", sid, ipNat(src.Addr()), src.Port(), pl))
	if d, s, payload, err, got := x.cgRecvDecoded(x.ownerOf, waitDatagram); got {
		x.checkReplyFrom(d)
		if err != nil {
			x.impl = append(x.impl, "undecodable")
			x.fail("reply-undecodable", fmt.Sprintf("reply at client socket %d does not decode with the owner's session: %v", d.sock, err))
			return
		}
		// oracle: the reply reaches the client that owns the session, at its latest address, with the true source
		if d.sock != x.sidSock[sid] {
			x.fail("reply-to-wrong-address", fmt.Sprintf("reply %d for session %d of client %d arrived at socket %d; the session's latest datagram came from socket %d", pl, sid, owner, d.sock, x.sidSock[sid]))
		}
		if payloadID(payload) != pl || !x.intact(payload) {
			x.fail("reply-payload", fmt.Sprintf("reply payload id %d (%d bytes, intact=%v), expected %d", payloadID(payload), len(payload), x.intact(payload), pl))
		}
		want := src.String()
		if x.c.Server == "direct" {
			want = "-"
		}
		if s != want {
			x.fail("reply-source", fmt.Sprintf("reply %d names source %s, true source %s", pl, s, want))
		}
		srcField := "-"
		if s != "-" {
			ap, _ := netip.ParseAddrPort(s)
			srcField = fmt.Sprintf("%d:%d", ipNat(ap.Addr()), ap.Port())
		}
		x.impl = append(x.impl, fmt.Sprintf("reply %d %s %d", d.sock, srcField, payloadID(payload)))
		x.twoWay[sid] = true
	} else {
		x.impl = append(x.impl, "lost")
		x.fail("reply-lost", fmt.Sprintf("reply %d from %s to session %d did not arrive within %s", pl, src, sid, waitDatagram))
	}
}

// opReplyBurst: one target (or the upstream proxy) sends a burst of replies to one relay session in a single
// sendmmsg call, so that the relay's downlink reads several of them in one batch; some of them must be
// DROPPED by the relay (truncated on receive, too big for the client's path once the reply header is added,
// unparsable from the upstream proxy). Every good reply must arrive, in order, intact, with its true source;
// nothing else may arrive.
func (x *relayRun) opReplyBurst(o RelayOp) {
	if len(x.sidPort) == 0 {
		return
	}
	sid := o.J % len(x.sidPort)
	if x.sidPort[sid] == 0 {
		return
	}
	if !x.viaUpstream() && !x.taddrs[o.T].Is4() {
		return // the burst is written with the IPv4 batch API
	}
	owner := x.sidClient[sid]
	src := netip.AddrPortFrom(x.taddrs[o.T], x.tport)
	dst := &net.UDPAddr{IP: net.IPv4(127, 0, 0, 1), Port: int(x.sidPort[sid])}
	sock := x.tg.get(o.T)
	if x.viaUpstream() {
		sock = x.tg.get(len(x.taddrs))
	}
	rr := common.NewRng(uint64(o.G)*2654435761 + 17)
	n := rr.Range(6, 14)
	type el struct {
		pl   int
		good bool
	}
	var els []el
	var msgs []ipv4.Message
	for i := 0; i < n; i++ {
		x.nextPl++
		pl := x.nextPl
		kind := rr.Intn(10)
		var wire []byte
		good := true
		switch {
		case kind < 2: // longer than the relay's receive buffer: truncated, dropped
			wire, good = x.payloadN(pl, 1600+rr.Intn(200)), false
		case kind < 4 && x.c.Client == "direct" && x.c.Server != "direct":
			// fits the NAT socket's receive buffer, too big for the client once the source header is added
			wire, good = x.payloadN(pl, 1470), false
		case kind < 4 && x.viaUpstream():
			// not a reply of the upstream protocol at all
			wire, good = append([]byte{9, 9, 9, 9}, x.payloadN(pl, 40)...), false
			if x.c.Client == "ss2022" {
				wire = x.payloadN(pl, 80)
			}
		case kind < 6:
			wire = x.payloadN(pl, 900+rr.Intn(400))
		default:
			wire = x.payload(pl)
		}
		if good || kind < 2 {
			if x.viaUpstream() {
				var err error
				body := wire
				if !good {
					body = body[:1300] // keep the inner payload encodable; the padding below makes the datagram too long
				}
				if wire, err = x.upstreamReply(src, body, x.sidPort[sid]); err != nil {
					x.fail("harness-upstream-encode", err.Error())
					return
				}
				if !good {
					wire = append(wire, make([]byte, 400)...)
				}
			}
		}
		els = append(els, el{pl, good})
		msgs = append(msgs, ipv4.Message{Buffers: [][]byte{wire}, Addr: dst})
		if good {
			x.script = append(x.script, fmt.Sprintf("down %d %d %d %d", sid, ipNat(src.Addr()), src.Port(), pl))
		} else {
			x.script = append(x.script, fmt.Sprintf("down %d none", sid))
		}
	}
	pc := ipv4.NewPacketConn(sock)
	for sent := 0; sent < len(msgs); {
		k, err := pc.WriteBatch(msgs[sent:], 0)
		if err != nil {
			x.fail("harness-write", err.Error())
			return
		}
		sent += k
	}
	x.rbursts++
	// arrivals at the client sockets, in order
	goods := 0
	for _, e := range els {
		if e.good {
			goods++
		}
	}
	var got []string
	want := src.String()
	if x.c.Server == "direct" {
		want = "-"
	}
	for len(got) < goods {
		wait := 400 * time.Millisecond
		if len(got) == 0 {
			wait = waitDatagram
		}
		d, s, payload, err, have := x.cgRecvDecoded(x.ownerOf, wait)
		if !have {
			break
		}
		x.checkReplyFrom(d)
		if err != nil {
			x.fail("reply-undecodable", fmt.Sprintf("reply burst: datagram at client socket %d does not decode with the owner's session: %v", d.sock, err))
			got = append(got, "undecodable")
			continue
		}
		if !x.intact(payload) {
			x.fail("reply-payload", fmt.Sprintf("reply burst: client %d received %d bytes (id %d) that no target sent", owner, len(payload), payloadID(payload)))
		}
		if d.sock != x.sidSock[sid] {
			x.fail("reply-to-wrong-address", fmt.Sprintf("reply burst: reply %d for session %d arrived at socket %d, expected socket %d", payloadID(payload), sid, d.sock, x.sidSock[sid]))
		}
		if s != want {
			x.fail("reply-source", fmt.Sprintf("reply burst: reply %d names source %s, true source %s", payloadID(payload), s, want))
		}
		srcField := "-"
		if s != "-" {
			ap, _ := netip.ParseAddrPort(s)
			srcField = fmt.Sprintf("%d:%d", ipNat(ap.Addr()), ap.Port())
		}
		got = append(got, fmt.Sprintf("reply %d %s %d", d.sock, srcField, payloadID(payload)))
	}
	k := 0
	for _, e := range els {
		switch {
		case !e.good:
			x.impl = append(x.impl, "noop")
		case k < len(got):
			x.impl = append(x.impl, got[k])
			k++
		default:
			x.impl = append(x.impl, "lost")
			x.fail("reply-lost", fmt.Sprintf("reply burst: good reply %d from %s to session %d never arrived (burst of %d with drops inside)", e.pl, src, sid, len(els)))
		}
	}
	if goods > 0 && len(got) == goods {
		x.twoWay[sid] = true
	}
}

func (x *relayRun) garbageBytes(hc *hClient, kind int) []byte {
	switch x.c.Server {
	case "none":
		switch kind % 4 {
		case 0:
			return []byte{}
		case 1:
			return append([]byte{9}, x.r.Bytes(20)...) // unknown ATYP
		case 2:
			return []byte{3, 200, 'a', 'b'} // domain length beyond the datagram
		default:
			return []byte{1, 127, 0}
		}
	case "socks5":
		switch kind % 4 {
		case 0:
			return []byte{0, 0}
		case 1:
			return append([]byte{0, 0, 1, 1, 127, 0, 0, 20, 0, 53}, x.r.Bytes(8)...) // FRAG != 0
		case 2:
			return append([]byte{0, 0, 0, 9}, x.r.Bytes(12)...)
		default:
			return []byte{0, 0, 0, 3, 99, 'x'}
		}
	case "ss2022":
		switch kind % 4 {
		case 0:
			return x.r.Bytes(x.r.Range(0, 15))
		case 1:
			return x.r.Bytes(x.r.Range(16, 200))
		case 2:
			if hc.lastPkt != nil { // a genuine packet with one byte flipped
				b := append([]byte(nil), hc.lastPkt...)
				b[x.r.Intn(len(b))] ^= 0x40
				return b
			}
			return x.r.Bytes(64)
		default:
			if hc.lastPkt != nil { // a replay of a genuine packet
				return append([]byte(nil), hc.lastPkt...)
			}
			return x.r.Bytes(48)
		}
	}
	return nil
}

func (x *relayRun) opGarbage(o RelayOp) {
	if x.c.Server == "direct" {
		return // every datagram is a valid payload for the tunnel
	}
	hc := x.clients[o.C]
	g := x.garbageBytes(hc, o.G)
	if o.Fresh {
		// the client moves to a socket the relay has never seen: the garbage is the first thing from that address,
		// and the client's next genuine datagram comes from there too
		x.opMove(o)
	}
	sock := hc.sock
	// the key the relay derives: the address (NAT) / whatever session id the bytes decrypt to (ss2022: the
	// owner's id for a flipped or replayed genuine packet, an unknown one otherwise)
	key := sock
	if x.c.Server == "ss2022" {
		key = 900000 + sock
		if o.G%4 >= 2 && hc.lastPkt != nil {
			key = x.clientKey(o.C)
		}
	}
	x.script = append(x.script, fmt.Sprintf("recv %d %d none", key, sock))
	x.impl = append(x.impl, "noop")
	if _, err := x.cg.get(sock).WriteToUDPAddrPort(g, x.sockRelay[sock]); err != nil {
		x.fail("harness-write", err.Error())
	}
}

// foreignSessionSince: did the relay start a session for a client address that is none of this run's sockets?
func (x *relayRun) foreignSessionSince(mark int) bool {
	mine := map[string]bool{}
	x.cg.mu.Lock()
	for _, c := range x.cg.socks {
		ap := c.LocalAddr().(*net.UDPAddr).AddrPort()
		mine[netip.AddrPortFrom(ap.Addr().Unmap(), ap.Port()).String()] = true
	}
	x.cg.mu.Unlock()
	all := x.relay.logs.All()
	for _, e := range all[min(mark, len(all)):] {
		if !strings.HasSuffix(e.Message, "relay started") {
			continue
		}
		ca := fmt.Sprint(e.ContextMap()["clientAddress"])
		if ap, err := netip.ParseAddrPort(ca); err == nil {
			ca = netip.AddrPortFrom(ap.Addr().Unmap(), ap.Port()).String()
		}
		if !mine[ca] {
			return true
		}
	}
	return false
}

func countFDs() int {
	ents, err := os.ReadDir("/proc/self/fd")
	if err != nil {
		return -1
	}
	return len(ents)
}

// opBurst: goroutine and fd counts are unchanged by a burst of garbage (barrier: a valid datagram of an
// existing session, processed by the same receive loop after the garbage).
func (x *relayRun) opBurst(o RelayOp) {
	if x.c.Server == "direct" || len(x.sidPort) == 0 {
		return
	}
	// find a client with an existing session on its current socket: send a barrier first so that it exists
	x.opSend(RelayOp{Op: "send", C: o.C, T: 0})
	time.Sleep(20 * time.Millisecond)
	g0, f0 := runtime.NumGoroutine(), countFDs()
	logMark := x.relay.logs.Len()
	hc := x.clients[o.C]
	fresh, err := x.newClientSocket(o.C) // +1 fd, +1 goroutine of the harness itself
	if err != nil {
		return
	}
	g0, f0 = g0+1, f0+1
	for i := 0; i < 40; i++ {
		g := x.garbageBytes(hc, i)
		sock := hc.sock
		if i%2 == 1 {
			sock = fresh
		}
		key := sock
		if x.c.Server == "ss2022" {
			key = 900000 + sock
			if i%4 >= 2 && hc.lastPkt != nil {
				key = x.clientKey(o.C)
			}
		}
		x.script = append(x.script, fmt.Sprintf("recv %d %d none", key, sock))
		x.impl = append(x.impl, "noop")
		x.cg.get(sock).WriteToUDPAddrPort(g, x.sockRelay[sock])
	}
	x.opSend(RelayOp{Op: "send", C: o.C, T: 0})
	deadline := time.Now().Add(3 * time.Second)
	for {
		g1, f1 := runtime.NumGoroutine(), countFDs()
		if g1 <= g0 && f1 <= f0 {
			return
		}
		if time.Now().After(deadline) {
			if x.foreignSessionSince(logMark) {
				x.skip("foreign") // another process's datagram opened a session in this relay meanwhile: not attributable
				return
			}
			x.fail("garbage-created-goroutines-or-fds", fmt.Sprintf("after 40 garbage datagrams: goroutines %d -> %d, fds %d -> %d", g0, g1, f0, f1))
			return
		}
		time.Sleep(10 * time.Millisecond)
	}
}

// opStall: the session's resolution is held while the client keeps sending: the uplink is inside
// PackInPlace, the send channel fills up to its capacity and the rest is dropped; after the release
// exactly the packet in flight plus the queued ones leave, in order, to the resolved address.
func (x *relayRun) opStall(o RelayOp) {
	if x.c.Client != "direct" || x.c.Server == "direct" || len(x.clients) < 2 || !x.taddrs[o.T].Is4() {
		return
	}
	hc := x.clients[o.C]
	x.stallN++
	name := fmt.Sprintf("s%d.c11.test", x.stallN)
	dom := 100 + x.stallN
	x.dns.set(name, x.taddrs[o.T])
	x.dns.setHoldAll(true)
	defer x.dns.setHoldAll(false)
	ta := tAddr{name: name, port: x.tport}
	key := x.clientKey(o.C)
	sid, known := x.keyToSid[key]
	if !known {
		// the relay will create the session at the first datagram; its NAT port is learnt when datagrams arrive
		sid = len(x.sidPort)
		x.sidPort = append(x.sidPort, 0)
		x.sidClient = append(x.sidClient, o.C)
		x.sidSock = append(x.sidSock, hc.sock)
		x.keyToSid[key] = sid
	}
	extra := 1 + o.J%5
	var pls []int
	var kinds []int // 0 = the stalled name, 1 = a name that does not resolve (dropped by the uplink), 2 = IP target
	nxName := fmt.Sprintf("nx%d.c11.test", x.stallN)
	nxDom := 9000 + x.stallN
	sendKind := func(kind int) bool {
		x.nextPl++
		pl := x.nextPl
		pls = append(pls, pl)
		kinds = append(kinds, kind)
		x.plTarget[pl], x.plClient[pl] = o.T, o.C
		a, tl := ta, fmt.Sprintf("dom %d %d %d", dom, x.tport, pl)
		switch kind {
		case 1:
			a, tl = tAddr{name: nxName, port: x.tport}, fmt.Sprintf("dom %d %d %d", nxDom, x.tport, pl)
			x.plTarget[pl] = -2 // must never arrive anywhere
		case 2:
			a, tl = tAddr{ip: x.taddrs[o.T], port: x.tport}, fmt.Sprintf("ip %d %d %d", ipNat(x.taddrs[o.T]), x.tport, pl)
		}
		wire, err := x.encode(hc, a, x.payload(pl))
		if err != nil {
			x.fail("harness-encode", err.Error())
			return false
		}
		hc.lastPkt = wire
		x.script = append(x.script, fmt.Sprintf("recv %d %d %s", key, hc.sock, tl))
		x.impl = append(x.impl, "*")
		x.cg.get(hc.sock).WriteToUDPAddrPort(wire, x.sockRelay[hc.sock])
		return true
	}
	sendOne := func() bool { return sendKind(0) }
	kr := common.NewRng(uint64(o.G)*0x9e3779b97f4a7c15 + 3)
	if !sendOne() {
		return
	}
	if !known {
		x.script = append(x.script, fmt.Sprintf("initok %d", sid))
		x.impl = append(x.impl, "*")
	}
	x.script = append(x.script, fmt.Sprintf("pack %d -", sid))
	select {
	case n := <-x.dns.arrived:
		if n != name {
			x.fail("harness-dns", "unexpected query "+n)
			x.dns.releaseAll()
			return
		}
		x.impl = append(x.impl, fmt.Sprintf("blocked %d", dom))
	case <-time.After(waitDatagram):
		x.impl = append(x.impl, "no-resolution")
		x.fail("stall-no-resolution", fmt.Sprintf("no resolution of %s was started within %s", name, waitDatagram))
		return
	}
	for i := 0; i < relayCap+extra; i++ {
		// drops INSIDE the batch the uplink will send after the release (mmsg path: one sendmmsg vector)
		kind := 0
		switch v := kr.Intn(10); {
		case v >= 8:
			kind = 1
		case v >= 6:
			kind = 2
		}
		if !sendKind(kind) {
			break
		}
		if i%16 == 15 {
			time.Sleep(300 * time.Microsecond)
		}
	}
	// barrier through the same receive loop: another client, IP target
	other := (o.C + 1) % len(x.clients)
	x.opSend(RelayOp{Op: "send", C: other, T: o.T})
	ipn := ipNat(x.taddrs[o.T])
	x.script = append(x.script, fmt.Sprintf("resolved %d %d", sid, ipn), fmt.Sprintf("storeip %d", sid), fmt.Sprintf("readsend %d", sid))
	x.impl = append(x.impl, "ok", "ok")
	x.dns.setHoldAll(false) // the names that do not resolve are answered (NXDOMAIN) at once
	x.dns.release(name, dnsAnswer{ip: x.taddrs[o.T]})
	// arrivals, in order
	var got []string
	want := map[int]bool{}
	for i, p := range pls {
		want[p] = kinds[i] != 1
	}
	var relayPort uint16
	quiet := 300 * time.Millisecond
	for len(got) < len(pls) {
		wait := quiet
		if len(got) == 0 {
			wait = waitDatagram
		}
		d, have := x.tgRecv(wait)
		if !have {
			break
		}
		pl := payloadID(d.data)
		if !want[pl] || d.sock != o.T {
			x.fail("wrong-destination", fmt.Sprintf("after a held resolution: payload %d (target %d) arrived at target %d", pl, x.plTarget[pl], d.sock))
		}
		if !x.intact(d.data) {
			x.fail("payload-altered", fmt.Sprintf("after a held resolution: payload %d arrived altered (%d bytes) at target %d", pl, len(d.data), d.sock))
		}
		relayPort = d.from.Port()
		got = append(got, fmt.Sprintf("sent %d %d %d", ipNat(x.taddrs[d.sock]), x.tport, pl))
	}
	// oracle: the datagram in flight and the next `sendChannelCapacity` ones were queued (the uplink was blocked, the
	// queue empty); every one of them that names a resolvable target must have left towards it
	arrivedPl := map[int]bool{}
	for _, g := range got {
		var a, b, c int
		fmt.Sscanf(g, "sent %d %d %d", &a, &b, &c)
		arrivedPl[c] = true
	}
	for i, p := range pls {
		if i <= relayCap && kinds[i] != 1 && !arrivedPl[p] {
			x.fail("queued-datagram-lost", fmt.Sprintf("held resolution: datagram %d (position %d of the batch, target resolvable) was queued but never left the relay", p, i))
			break
		}
	}
	k := 0
	for i := range pls {
		if i > 0 {
			if kinds[i] == 1 {
				x.script = append(x.script, fmt.Sprintf("pack %d fail", sid))
				x.impl = append(x.impl, "*") // a dropped datagram is not observable (its absence is: see `want`)
				continue
			}
			x.script = append(x.script, fmt.Sprintf("pack %d -", sid))
		}
		if k < len(got) {
			x.impl = append(x.impl, got[k])
			k++
		} else {
			x.impl = append(x.impl, "noop")
		}
	}
	if len(got) > 0 {
		if old, seen := x.portSid[relayPort]; seen != known || (seen && old != sid) {
			x.fail("session-keying", fmt.Sprintf("stalled session: relay port %d seen-before=%v, expected known=%v (session %d)", relayPort, seen, known, sid))
		}
		if !known {
			x.portSid[relayPort] = sid
			x.sidPort[sid] = relayPort
		}
		x.sidSock[sid] = hc.sock
	}
}

func (x *relayRun) opMove(o RelayOp) {
	s, err := x.newClientSocket(o.C)
	if err != nil {
		x.fail("harness-socket", err.Error())
		return
	}
	x.clients[o.C].sock = s
	x.sockOwner[s] = o.C
}

// drainUnexpected: after the serial script nothing may be left at any socket.
func (x *relayRun) drainUnexpected() {
	time.Sleep(50 * time.Millisecond)
	for {
		d, ok := x.tgRecv(0)
		if !ok {
			break
		}
		x.fail("unexpected-datagram-at-target", fmt.Sprintf("unsolicited datagram of this run (payload %d) at target socket %d from %s", payloadID(d.payload), d.sock, d.from))
	}
	for {
		d, ok := x.cgRecv(0)
		if !ok {
			break
		}
		if ci, known := x.sockOwner[d.sock]; known {
			if src, payload, err := x.decode(x.clients[ci], d); err == nil && x.relayedForeign(src, payload) {
				continue
			}
		}
		x.fail("unexpected-datagram-at-client", fmt.Sprintf("unsolicited datagram (%d bytes) from this run's relay at client socket %d", len(d.data), d.sock))
	}
}

// flood: all clients send concurrently to their own targets (IP and domain) while resolutions are held and
// released in random order; targets echo. Oracle only (sets): every datagram at T was addressed to T; every reply
// at a client socket answers one of that client's datagrams and names the target it was sent to.
func (x *relayRun) flood() (sent, arrived, echoed int) {
	n := x.c.Flood
	if n == 0 || x.c.Server == "direct" {
		return
	}
	x.dns.setHoldAll(x.c.Client == "direct")
	stopRel := make(chan struct{})
	var relWG sync.WaitGroup
	rr := x.r.Fork(77) // forked before the goroutine starts: x.r itself stays with this goroutine
	relWG.Go(func() {
		var held []string
		for {
			select {
			case name := <-x.dns.arrived:
				held = append(held, name)
				if len(held) < 2 && rr.Chance(1, 2) {
					continue
				}
			case <-stopRel:
				x.dns.setHoldAll(false)
				x.dns.releaseAll()
				return
			case <-time.After(5 * time.Millisecond):
			}
			if len(held) > 0 {
				i := rr.Intn(len(held))
				x.dns.release(held[i], dnsAnswer{ip: x.dns.static[held[i]]})
				held = append(held[:i], held[i+1:]...)
			}
		}
	})
	base := x.nextPl + 1
	type fl struct{ client, target int }
	info := map[int]fl{}
	var wires [][]byte
	var socks []int
	for i := 0; i < n; i++ {
		for ci, hc := range x.clients {
			t := ci % len(x.taddrs)
			x.nextPl++
			info[x.nextPl] = fl{ci, t}
			w, err := x.encode(hc, x.targetAddr(t, i%2 == 0), x.payload(x.nextPl))
			if err != nil {
				continue
			}
			wires = append(wires, w)
			socks = append(socks, hc.sock)
		}
	}
	for i, w := range wires {
		x.cg.get(socks[i]).WriteToUDPAddrPort(w, x.sockRelay[socks[i]])
		sent++
		if i%16 == 15 {
			time.Sleep(200 * time.Microsecond)
		}
	}
	// collect until quiet
	quiet := time.NewTimer(400 * time.Millisecond)
	hard := time.After(6 * time.Second)
	up := len(x.taddrs)
loop:
	for {
		select {
		case d := <-x.tg.ch:
			if !x.classifyTarget(&d) {
				continue // not a datagram of this run
			}
			quiet.Reset(400 * time.Millisecond)
			var t, pl int
			var echo, pbytes []byte
			if x.viaUpstream() && d.sock != up {
				x.fail("bypassed-upstream", fmt.Sprintf("under concurrency: datagram (payload %d) of this run arrived directly at target %d", payloadID(d.data), d.sock))
				continue
			}
			if x.viaUpstream() {
				a, payload, err := d.inner, d.payload, d.perr
				pbytes = payload
				if err != nil {
					x.fail("upstream-unparsable", err.Error())
					continue
				}
				t = -1
				for i := range x.taddrs {
					if a.port == x.tport && (a.ip == x.taddrs[i] || a.name == tname(i)) {
						t = i
					}
				}
				pl = payloadID(payload)
				if t >= 0 {
					if echo, err = x.upstreamReply(netip.AddrPortFrom(x.taddrs[t], x.tport), payload, d.from.Port()); err != nil {
						x.fail("harness-upstream-encode", err.Error())
						continue
					}
				}
			} else {
				t, pl, echo, pbytes = d.sock, payloadID(d.data), d.data, d.data
			}
			f, ok := info[pl]
			if ok && !x.intact(pbytes) {
				x.fail("payload-altered", fmt.Sprintf("under concurrency: payload %d arrived altered at target %d", pl, t))
				continue
			}
			if !ok || pl < base {
				x.fail("flood-unknown-payload", fmt.Sprintf("datagram with unknown payload %d at target %d", pl, t))
				continue
			}
			arrived++
			if f.target != t {
				x.fail("wrong-destination", fmt.Sprintf("under concurrency: payload %d of client %d addressed to target %d arrived at target %d", pl, f.client, f.target, t))
				continue
			}
			if x.viaUpstream() {
				x.tg.get(up).WriteToUDPAddrPort(echo, d.from)
			} else {
				x.tg.get(t).WriteToUDPAddrPort(echo, d.from)
			}
		case d := <-x.cg.ch:
			if !x.classifyClient(&d) {
				continue
			}
			quiet.Reset(400 * time.Millisecond)
			// the socket's owner
			owner, known := x.sockOwner[d.sock]
			if !known {
				x.fail("reply-to-wrong-address", fmt.Sprintf("under concurrency: reply at socket %d, which belongs to no client", d.sock))
				continue
			}
			x.checkReplyFrom(d)
			s, payload, err := x.decode(x.clients[owner], d)
			if err == nil && x.relayedForeign(s, payload) {
				continue
			}
			if x.clients[owner].sock != d.sock {
				// in the flood every client sends from its current socket only
				x.fail("reply-to-wrong-address", fmt.Sprintf("under concurrency: reply at socket %d, which is not the address any flooding client sends from", d.sock))
				continue
			}
			if err != nil {
				x.fail("reply-undecodable", fmt.Sprintf("under concurrency: reply at client %d does not decode: %v", owner, err))
				continue
			}
			f, ok := info[payloadID(payload)]
			if ok && !x.intact(payload) {
				x.fail("reply-payload", fmt.Sprintf("under concurrency: echo of payload %d arrived altered at client %d", payloadID(payload), owner))
				continue
			}
			if !ok || f.client != owner {
				x.fail("reply-to-wrong-client", fmt.Sprintf("under concurrency: client %d received the echo of payload %d, which client %d sent", owner, payloadID(payload), f.client))
				continue
			}
			if want := netip.AddrPortFrom(x.taddrs[f.target], x.tport).String(); s != want {
				x.fail("reply-source", fmt.Sprintf("under concurrency: echo of payload %d names source %s, true source %s", payloadID(payload), s, want))
			}
			echoed++
		case <-quiet.C:
			break loop
		case <-hard:
			break loop
		}
	}
	close(stopRel)
	relWG.Wait()
	return
}

type relayResult struct {
	foreign, late int
	script, impl []string
	fails        []common.OracleFailure
	sessions     int
	twoWay       int
	floodSent    int
	floodArrived int
	floodEchoed  int
}

func runRelayCase(c RelayCase, dns *scriptDNS, shared bool) (res relayResult, err error) {
	x := &relayRun{c: c, r: common.NewRng(c.Seed), dns: dns}
	dns.setHoldAll(false)
	defer func() {
		x.teardown()
		res.script, res.impl, res.fails = x.script, x.impl, x.fails
		res.foreign, res.late = x.foreignN, x.lateN
		pastNonceMu.Lock()
		pastNonces[x.nonce] = true
		pastNonceMu.Unlock()
		res.sessions, res.twoWay = len(x.sidPort), len(x.twoWay)
	}()
	if err = x.setup(); err != nil {
		return
	}
	x.script = append(x.script, x.cfgLine(shared))
	x.impl = append(x.impl, "ok")
	for _, o := range c.Ops {
		if o.C < 0 || o.C >= len(x.clients) || o.T < 0 || o.T >= len(x.taddrs) {
			continue
		}
		switch o.Op {
		case "send":
			x.opSend(o)
		case "reply":
			x.opReply(o)
		case "garbage":
			x.opGarbage(o)
		case "move":
			x.opMove(o)
		case "burst":
			x.opBurst(o)
		case "stall":
			x.opStall(o)
		case "rburst":
			x.opReplyBurst(o)
		}
	}
	// barrier + quiescence: nothing unsolicited anywhere
	if len(c.Ops) > 0 {
		x.opSend(RelayOp{Op: "send", C: 0, T: 0})
	}
	x.drainUnexpected()
	res.floodSent, res.floodArrived, res.floodEchoed = x.flood()
	return
}

func evalRelay(cases []RelayCase, dns *scriptDNS, shared bool, o *common.Options, rep *common.Report) error {
	for _, c := range cases {
		res, err := runRelayCase(c, dns, shared)
		if err != nil {
			return fmt.Errorf("udprelay %s>%s/%s: %w", c.Server, c.Client, c.Batch, err)
		}
		rep.Case(relaySig(c), res.twoWay >= 2)
		if res.foreign > 0 {
			rep.Distribution["udprelay:foreign-traffic"] += res.foreign
		}
		if res.late > 0 {
			rep.Distribution["udprelay:late-previous-case"] += res.late
		}
		rep.Count(fmt.Sprintf("udprelay:%s>%s/%s%s", c.Server, c.Client, c.Batch, map[string]string{"": "", "wild4": "+wild4", "dual": "+dual"}[c.Family]))
		if c.Flood > 0 && c.Server != "direct" {
			rep.Count("udprelay:flood-runs")
			rep.Distribution["udprelay:flood-sent"] += res.floodSent
			rep.Distribution["udprelay:flood-arrived"] += res.floodArrived
			rep.Distribution["udprelay:flood-echoed"] += res.floodEchoed
		}
		rep.Sample(map[string]any{"case": fmt.Sprintf("%s>%s/%s %d ops", c.Server, c.Client, c.Batch, len(c.Ops)), "impl": strings.Join(res.impl, " | ")})
		for _, f := range res.fails {
			rep.Fail(f)
		}
		if o.Driver != "" {
			model, err := common.RunDriverOnce(o.Driver, res.script)
			if err != nil {
				return err
			}
			if !sameLines(model, res.impl) {
				rep.Diverge(common.Divergence{Engine: "udprelay", Case: c, Impl: res.impl, Model: model, Note: strings.Join(res.script, " ; ")})
			}
			rep.TracesValidated++
		}
	}
	return nil
}

// sameLines compares model output with the observation; "*" marks a step the harness cannot observe
// (what the receive loop did with a datagram while the uplink was stalled).
func sameLines(model, impl []string) bool {
	if len(model) != len(impl) {
		return false
	}
	for i := range model {
		if impl[i] != "*" && impl[i] != model[i] {
			return false
		}
	}
	return true
}

func relayEngine(r *common.Rng, dns *scriptDNS, shared bool, o *common.Options, rep *common.Report) error {
	n := o.Budget(32, 480)
	t0 := time.Now()
	limit := 45 * time.Second
	if o.Thorough() {
		limit = 11 * time.Minute
	}
	if o.Search {
		limit = 3 * time.Minute
	}
	if os.Getenv("C11_RACE_CHILD") != "" {
		limit = 70 * time.Second // -race child: the whole item is budgeted to 5 minutes including the build
		n = 200
	}
	for i := 0; i < n; i++ {
		if time.Since(t0) > limit {
			rep.Note("udprelay: time budget reached after %d of %d runs", i, n)
			break
		}
		if err := evalRelay([]RelayCase{genRelayCase(r.Fork(uint64(i)), i)}, dns, shared, o, rep); err != nil {
			return err
		}
	}
	return nil
}
