package main

import (
	"ssvharness/internal/common"
)

type RelayCase struct {
	Kind string `json:"kind"`
}

func evalRelay(cases []RelayCase, dns *scriptDNS, shared bool, o *common.Options, rep *common.Report) error {
	return nil
}

func relayEngine(r *common.Rng, dns *scriptDNS, shared bool, o *common.Options, rep *common.Report) error {
	return nil
}
