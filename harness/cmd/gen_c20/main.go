// gen_c20: regenerates lean/SSV/Gen/C20.lean from /repo's cred/manager.go:
//
//   - saveProg: the file-system calls of (*ManagedServer).saveToFile as a guarded program
//     (os.WriteFile is expanded into open(O_TRUNC) / write / close as in the standard library);
//   - dequeueProg: the control-flow graph of (*ManagedServer).dequeueSave (select nodes, save, return);
//   - facts the debounce model relies on: queue capacity, non-blocking enqueue, Start/Stop shape,
//     every API mutator calls enqueueSave before acknowledging.
//
// Any statement the extractors do not recognise aborts the generation (GEN-BROKEN): nothing is skipped.
package main

import (
	"fmt"
	"go/ast"
	"go/token"
	"strings"

	"ssvharness/internal/gen"
)

type saveX struct {
	p      *gen.Pkg
	recv   string // receiver name (s)
	doc    string // variable holding the document
	tmp    string // variable holding the temporary *os.File
	stmts  [][]string
	prevPu bool // previous statement assigned err from a pure call
}

func (x *saveX) emit(f ...string) { x.stmts = append(x.stmts, f) }

var pureCalls = map[string]bool{
	"make": true, "len": true, "append": true, "json.MarshalIndent": true, "json.Marshal": true,
	"unsafe.String": true, "unsafe.SliceData": true, "filepath.Dir": true, "filepath.Base": true,
	"os.FileMode": true, "string": true,
}

func (x *saveX) callName(c *ast.CallExpr) string { return x.p.Src(c.Fun) }

// isPure: the expression contains only calls of the pure list (and `.Mode().Perm()` / `.Name()` accessors).
func (x *saveX) isPure(n ast.Node) (ok bool, bad string) {
	ok = true
	ast.Inspect(n, func(m ast.Node) bool {
		c, is := m.(*ast.CallExpr)
		if !is {
			return true
		}
		name := x.callName(c)
		if pureCalls[name] || strings.HasSuffix(name, ".Mode") || strings.HasSuffix(name, ".Mode().Perm") || strings.HasSuffix(name, ".Name") {
			return true
		}
		ok, bad = false, name
		return false
	})
	return
}

// fsCall classifies a call expression as one file-system operation of the model.
func (x *saveX) fsCall(e ast.Expr) (op string, err error) {
	c, ok := e.(*ast.CallExpr)
	if !ok {
		return "", fmt.Errorf("not a call: %s", x.p.Src(e))
	}
	arg := func(i int) string {
		if i < len(c.Args) {
			return x.p.Src(c.Args[i])
		}
		return ""
	}
	path := x.recv + ".path"
	name := x.callName(c)
	switch {
	case name == "os.Stat" && arg(0) == path:
		return "statTarget", nil
	case name == "os.CreateTemp":
		if arg(0) != "filepath.Dir("+path+")" {
			return "", fmt.Errorf("os.CreateTemp not in the directory of %s: %s", path, x.p.Src(c))
		}
		// temp-name freshness: only a pattern with `*` makes os.CreateTemp pick a name that is not in the directory
		if !strings.Contains(arg(1), "*") {
			return "", fmt.Errorf("os.CreateTemp pattern without `*`: %s", x.p.Src(c))
		}
		return "createTemp", nil
	case name == "os.OpenFile" && len(c.Args) == 3 && strings.HasPrefix(strings.ReplaceAll(arg(0), " ", ""), path+"+\"") &&
		strings.Contains(arg(1), "os.O_EXCL") && strings.Contains(arg(1), "os.O_CREATE") && strings.Contains(arg(1), "os.O_WRONLY") &&
		!strings.Contains(arg(1), "O_TRUNC") && !strings.Contains(arg(1), "O_APPEND"):
		// one fixed temporary name next to the store, exclusive create
		return "createExcl", nil
	case name == "os.Rename" && x.tmp != "" && arg(0) == x.tmp+".Name()" && arg(1) == path:
		return "renameTmpToTarget", nil
	case name == "os.Remove" && x.tmp != "" && arg(0) == x.tmp+".Name()":
		return "removeTmp", nil
	case x.tmp != "" && name == x.tmp+".Write" && arg(0) == x.doc && len(c.Args) == 1:
		return "write", nil
	case x.tmp != "" && name == x.tmp+".Chmod":
		return "chmod", nil
	case x.tmp != "" && name == x.tmp+".Sync" && len(c.Args) == 0:
		return "sync", nil
	case x.tmp != "" && name == x.tmp+".Close" && len(c.Args) == 0:
		return "close", nil
	}
	return "", fmt.Errorf("unrecognised call %s", x.p.Src(c))
}

func isIdent(e ast.Expr, name string) bool {
	id, ok := e.(*ast.Ident)
	return ok && id.Name == name
}

// cond classifies `err != nil` / `err == nil`.
func condErr(e ast.Expr) string {
	b, ok := e.(*ast.BinaryExpr)
	if !ok || !isIdent(b.X, "err") || !isIdent(b.Y, "nil") {
		return ""
	}
	switch b.Op {
	case token.NEQ:
		return "ne"
	case token.EQL:
		return "eq"
	}
	return ""
}

func isReturnErr(s ast.Stmt) bool {
	r, ok := s.(*ast.ReturnStmt)
	return ok && len(r.Results) == 1 && isIdent(r.Results[0], "err")
}

// assignsErrFrom: `…, err :=/= CALL` (err is the last left-hand side) -> the call.
func assignsErrFrom(s ast.Stmt) (*ast.AssignStmt, ast.Expr) {
	a, ok := s.(*ast.AssignStmt)
	if !ok || len(a.Rhs) != 1 || len(a.Lhs) == 0 || !isIdent(a.Lhs[len(a.Lhs)-1], "err") {
		return nil, nil
	}
	if _, ok := a.Rhs[0].(*ast.CallExpr); !ok {
		return nil, nil
	}
	return a, a.Rhs[0]
}

func (x *saveX) stmt(s ast.Stmt) error {
	src := x.p.Src(s)
	wasPure := x.prevPu
	x.prevPu = false
	switch t := s.(type) {
	case *ast.AssignStmt:
		if a, call := assignsErrFrom(s); a != nil {
			name := x.callName(call.(*ast.CallExpr))
			if pureCalls[name] {
				if name == "json.MarshalIndent" || name == "json.Marshal" {
					if id, ok := a.Lhs[0].(*ast.Ident); ok {
						x.doc = id.Name
					}
				}
				x.prevPu = true
				return nil
			}
			if name == "os.CreateTemp" || name == "os.OpenFile" {
				if id, ok := a.Lhs[0].(*ast.Ident); ok && len(a.Lhs) == 2 {
					x.tmp = id.Name
				} else {
					return fmt.Errorf("unrecognised use of %s: %s", name, src)
				}
			}
			op, err := x.fsCall(call)
			if err != nil {
				return err
			}
			x.emit("op", "always", "rec", op)
			return nil
		}
		if ok, bad := x.isPure(s); !ok {
			return fmt.Errorf("call %s in unrecognised statement: %s", bad, src)
		}
		return nil
	case *ast.RangeStmt, *ast.DeclStmt:
		if ok, bad := x.isPure(s); !ok {
			return fmt.Errorf("call %s in unrecognised statement: %s", bad, src)
		}
		return nil
	case *ast.ReturnStmt:
		if len(t.Results) == 1 && isIdent(t.Results[0], "nil") {
			return nil
		}
		return fmt.Errorf("unrecognised return: %s", src)
	case *ast.IfStmt:
		if t.Else != nil {
			return fmt.Errorf("unrecognised if/else: %s", src)
		}
		c := condErr(t.Cond)
		switch {
		case t.Init == nil && c == "ne":
			// failure path: optional cleanup calls whose errors are discarded, then `return err`
			body := t.Body.List
			if len(body) == 0 || !isReturnErr(body[len(body)-1]) {
				return fmt.Errorf("unrecognised failure path: %s", src)
			}
			if len(body) == 1 && wasPure {
				return nil // error check of a pure call (json.MarshalIndent): not a file-system event
			}
			for _, b := range body[:len(body)-1] {
				var call ast.Expr
				switch bt := b.(type) {
				case *ast.ExprStmt:
					call = bt.X
				case *ast.AssignStmt:
					if len(bt.Lhs) == 1 && isIdent(bt.Lhs[0], "_") && len(bt.Rhs) == 1 {
						call = bt.Rhs[0]
					}
				}
				if call == nil {
					return fmt.Errorf("unrecognised cleanup statement: %s", x.p.Src(b))
				}
				op, err := x.fsCall(call)
				if err != nil {
					return err
				}
				x.emit("op", "ifErr", "norec", op)
			}
			x.emit("retIfErr")
			return nil
		case t.Init == nil && c == "eq":
			// `if err == nil { err = CALL }`
			if len(t.Body.List) != 1 {
				return fmt.Errorf("unrecognised guarded block: %s", src)
			}
			// `if err == nil { if err = os.Rename(path, path+"…"); errors.Is(err, os.ErrNotExist) { err = nil } }`:
			// the store path is renamed away (a missing store is not an error)
			if inner, ok := t.Body.List[0].(*ast.IfStmt); ok && inner.Init != nil && inner.Else == nil &&
				x.p.Src(inner.Cond) == "errors.Is(err, os.ErrNotExist)" && len(inner.Body.List) == 1 && x.p.Src(inner.Body.List[0]) == "err = nil" {
				if a, call := assignsErrFrom(inner.Init); a != nil && len(a.Lhs) == 1 && a.Tok == token.ASSIGN {
					ce := call.(*ast.CallExpr)
					path := x.recv + ".path"
					if x.callName(ce) == "os.Rename" && len(ce.Args) == 2 && x.p.Src(ce.Args[0]) == path &&
						strings.HasPrefix(strings.ReplaceAll(x.p.Src(ce.Args[1]), " ", ""), path+"+\"") {
						x.emit("op", "ifOk", "rec", "renameTargetAway")
						return nil
					}
				}
				return fmt.Errorf("unrecognised guarded statement: %s", src)
			}
			a, call := assignsErrFrom(t.Body.List[0])
			if a == nil || len(a.Lhs) != 1 || a.Tok != token.ASSIGN {
				return fmt.Errorf("unrecognised guarded statement: %s", src)
			}
			op, err := x.fsCall(call)
			if err != nil {
				return err
			}
			x.emit("op", "ifOk", "rec", op)
			return nil
		case t.Init != nil && c == "ne":
			// `if err = os.WriteFile(path, doc, perm); err != nil { return err }`
			a, call := assignsErrFrom(t.Init)
			if a == nil || len(t.Body.List) != 1 || !isReturnErr(t.Body.List[0]) {
				return fmt.Errorf("unrecognised statement: %s", src)
			}
			ce := call.(*ast.CallExpr)
			if x.callName(ce) == "os.WriteFile" && len(ce.Args) == 3 && x.p.Src(ce.Args[0]) == x.recv+".path" && x.p.Src(ce.Args[1]) == x.doc && x.doc != "" {
				// os.WriteFile (go/src/os/file.go): OpenFile(name, O_WRONLY|O_CREATE|O_TRUNC, perm); return on error;
				// f.Write(data); f.Close() always; return the first error.
				x.emit("op", "always", "rec", "openTrunc")
				x.emit("retIfErr")
				x.emit("op", "always", "rec", "write")
				x.emit("op", "always", "rec", "close")
				x.emit("retIfErr")
				return nil
			}
			op, err := x.fsCall(call)
			if err != nil {
				return err
			}
			x.emit("op", "always", "rec", op)
			x.emit("retIfErr")
			return nil
		case t.Init != nil && c == "eq":
			// `if cerr := f.Close(); err == nil { err = cerr }`  or  `if fi, err := os.Stat(path); err == nil { perm = … }`
			ia, ok := t.Init.(*ast.AssignStmt)
			if !ok || ia.Tok != token.DEFINE || len(ia.Rhs) != 1 {
				return fmt.Errorf("unrecognised statement: %s", src)
			}
			op, err := x.fsCall(ia.Rhs[0])
			if err != nil {
				return err
			}
			last := ia.Lhs[len(ia.Lhs)-1]
			if isIdent(last, "err") {
				// the call's own error is a new variable scoped to the if: never stored in the function's err
				if ok, bad := x.isPure(t.Body); !ok {
					return fmt.Errorf("call %s in unrecognised statement: %s", bad, src)
				}
				x.emit("op", "always", "norec", op)
				return nil
			}
			v, ok := last.(*ast.Ident)
			if !ok || len(ia.Lhs) != 1 || len(t.Body.List) != 1 || x.p.Src(t.Body.List[0]) != "err = "+v.Name {
				return fmt.Errorf("unrecognised statement: %s", src)
			}
			x.emit("op", "always", "rec", op)
			return nil
		}
		return fmt.Errorf("unrecognised if: %s", src)
	}
	return fmt.Errorf("unrecognised statement: %s", src)
}

func recvName(fd *ast.FuncDecl) string {
	if fd.Recv != nil && len(fd.Recv.List) == 1 && len(fd.Recv.List[0].Names) == 1 {
		return fd.Recv.List[0].Names[0].Name
	}
	return ""
}

func extractSave(p *gen.Pkg) ([][]string, error) {
	fd, err := p.Func("*ManagedServer", "saveToFile")
	if err != nil {
		return nil, err
	}
	x := &saveX{p: p, recv: recvName(fd)}
	for _, s := range fd.Body.List {
		if err := x.stmt(s); err != nil {
			return nil, fmt.Errorf("saveToFile: %w", err)
		}
	}
	n := 0
	for _, s := range x.stmts {
		if len(s) == 4 && s[3] == "write" {
			n++
		}
	}
	if n != 1 {
		return nil, fmt.Errorf("saveToFile: %d write calls of the document (expected exactly one)", n)
	}
	return x.stmts, nil
}

// ---------- dequeueSave ----------

type deqX struct {
	p        *gen.Pkg
	recv     string
	nodes    [][]string
	retNode  int
	cooldown string
}

func (x *deqX) guard(cc *ast.CommClause) (string, error) {
	if cc.Comm == nil {
		return "dflt", nil
	}
	es, ok := cc.Comm.(*ast.ExprStmt)
	if !ok {
		return "", fmt.Errorf("unrecognised select case: %s", x.p.Src(cc.Comm))
	}
	u, ok := es.X.(*ast.UnaryExpr)
	if !ok || u.Op != token.ARROW {
		return "", fmt.Errorf("unrecognised select case: %s", x.p.Src(cc.Comm))
	}
	src := x.p.Src(u.X)
	switch {
	case src == x.recv+".saveQueue":
		return "queue", nil
	case src == "ctx.Done()":
		return "ctx", nil
	case strings.HasPrefix(src, "time.After("):
		c := u.X.(*ast.CallExpr)
		v, ok := x.p.EvalInt(c.Args[0])
		if !ok {
			return "", fmt.Errorf("cool-down is not a constant: %s", src)
		}
		if x.cooldown != "" && x.cooldown != v {
			return "", fmt.Errorf("two different cool-downs")
		}
		x.cooldown = v
		return "timer", nil
	}
	return "", fmt.Errorf("unrecognised select case: %s", x.p.Src(cc.Comm))
}

// sel fills node `id` from a select statement; `next` is the node after the (outermost) select.
func (x *deqX) sel(id int, s *ast.SelectStmt, next int) error {
	var f []string
	f = append(f, "sel")
	for _, c := range s.Body.List {
		cc := c.(*ast.CommClause)
		g, err := x.guard(cc)
		if err != nil {
			return err
		}
		tgt := next
		switch {
		case len(cc.Body) == 0:
		case len(cc.Body) == 1:
			switch b := cc.Body[0].(type) {
			case *ast.ReturnStmt:
				if len(b.Results) != 0 {
					return fmt.Errorf("unrecognised return in select")
				}
				tgt = x.retNode
			case *ast.SelectStmt:
				x.nodes = append(x.nodes, nil)
				tgt = len(x.nodes) - 1
				if err := x.sel(tgt, b, next); err != nil {
					return err
				}
			default:
				return fmt.Errorf("unrecognised statement in select case: %s", x.p.Src(b))
			}
		default:
			return fmt.Errorf("unrecognised select case body: %s", x.p.Src(cc))
		}
		f = append(f, g, fmt.Sprint(tgt))
	}
	x.nodes[id] = f
	return nil
}

func extractDequeue(p *gen.Pkg) ([][]string, string, error) {
	fd, err := p.Func("*ManagedServer", "dequeueSave")
	if err != nil {
		return nil, "", err
	}
	x := &deqX{p: p, recv: recvName(fd)}
	if len(fd.Body.List) != 1 {
		return nil, "", fmt.Errorf("dequeueSave: body is not a single for loop")
	}
	loop, ok := fd.Body.List[0].(*ast.ForStmt)
	if !ok || loop.Init != nil || loop.Cond != nil || loop.Post != nil {
		return nil, "", fmt.Errorf("dequeueSave: body is not `for { … }`")
	}
	// group top-level statements: selects, and the RLock / saveToFile / RUnlock triple
	type top struct {
		sel *ast.SelectStmt
	}
	var tops []top
	body := loop.Body.List
	r := x.recv
	for i := 0; i < len(body); i++ {
		if s, ok := body[i].(*ast.SelectStmt); ok {
			tops = append(tops, top{sel: s})
			continue
		}
		if x.p.Src(body[i]) == r+".mu.RLock()" && i+2 < len(body) && x.p.Src(body[i+2]) == r+".mu.RUnlock()" {
			ifs, ok := body[i+1].(*ast.IfStmt)
			if ok && ifs.Init != nil && x.p.Src(ifs.Init) == "err := "+r+".saveToFile()" && condErr(ifs.Cond) == "ne" && ifs.Else == nil &&
				len(ifs.Body.List) == 1 && strings.HasPrefix(x.p.Src(ifs.Body.List[0]), r+".logger.Error(") {
				tops = append(tops, top{})
				i += 2
				continue
			}
		}
		return nil, "", fmt.Errorf("dequeueSave: unrecognised statement: %s", x.p.Src(body[i]))
	}
	x.nodes = make([][]string, len(tops)+1)
	x.retNode = len(tops)
	x.nodes[x.retNode] = []string{"ret"}
	for i, t := range tops {
		next := (i + 1) % len(tops) // the loop: after the last statement comes the first
		if t.sel == nil {
			x.nodes[i] = []string{"save", fmt.Sprint(next)}
			continue
		}
		if err := x.sel(i, t.sel, next); err != nil {
			return nil, "", fmt.Errorf("dequeueSave: %w", err)
		}
	}
	if x.cooldown == "" {
		x.cooldown = "0"
	}
	return x.nodes, x.cooldown, nil
}

// ---------- facts ----------

func bodySrc(p *gen.Pkg, recv, name string) (string, *ast.FuncDecl, error) {
	fd, err := p.Func(recv, name)
	if err != nil {
		return "", nil, err
	}
	var parts []string
	for _, s := range fd.Body.List {
		parts = append(parts, p.Src(s))
	}
	return strings.Join(parts, " ; "), fd, nil
}

func facts(p *gen.Pkg, l *gen.Lean) error {
	// Stop waits for the saver goroutine, Start launches exactly dequeueSave under the wait group.
	s, fd, err := bodySrc(p, "*ManagedServer", "Stop")
	if err != nil {
		return err
	}
	if s != recvName(fd)+".wg.Wait()" {
		return fmt.Errorf("Stop: unrecognised body: %s", s)
	}
	s, fd, err = bodySrc(p, "*ManagedServer", "Start")
	if err != nil {
		return err
	}
	r := recvName(fd)
	if s != r+".wg.Go(func() { "+r+".dequeueSave(ctx) })" {
		return fmt.Errorf("Start: unrecognised body: %s", s)
	}
	// enqueueSave: non-blocking send
	s, fd, err = bodySrc(p, "*ManagedServer", "enqueueSave")
	if err != nil {
		return err
	}
	r = recvName(fd)
	if s != "select { case "+r+".saveQueue <- struct{}{}: default: }" {
		return fmt.Errorf("enqueueSave: unrecognised body: %s", s)
	}
	// queue capacity in RegisterServer
	fd, err = p.Func("*Manager", "RegisterServer")
	if err != nil {
		return err
	}
	capv := ""
	ast.Inspect(fd, func(n ast.Node) bool {
		kv, ok := n.(*ast.KeyValueExpr)
		if !ok || !isIdent(kv.Key, "saveQueue") {
			return true
		}
		if c, ok := kv.Value.(*ast.CallExpr); ok && p.Src(c.Fun) == "make" && len(c.Args) == 2 {
			if v, ok := p.EvalInt(c.Args[1]); ok {
				capv = v
			}
		} else if ok && len(c.Args) == 1 {
			capv = "0"
		}
		return true
	})
	if capv == "" {
		return fmt.Errorf("RegisterServer: saveQueue capacity not found")
	}
	l.NatDef("queueCap", capv, "cred.(*Manager).RegisterServer: cap(saveQueue)")
	// every API mutator: the only `return nil` is the last statement and a top-level enqueueSave precedes it
	for _, name := range []string{"AddCredential", "UpdateCredential", "DeleteCredential"} {
		fd, err := p.Func("*ManagedServer", name)
		if err != nil {
			return err
		}
		r := recvName(fd)
		list := fd.Body.List
		nilReturns := 0
		ast.Inspect(fd.Body, func(n ast.Node) bool {
			if _, isLit := n.(*ast.FuncLit); isLit {
				return false
			}
			if rs, ok := n.(*ast.ReturnStmt); ok && len(rs.Results) == 1 && isIdent(rs.Results[0], "nil") {
				nilReturns++
			}
			return true
		})
		last, ok := list[len(list)-1].(*ast.ReturnStmt)
		if !ok || nilReturns != 1 || len(last.Results) != 1 || !isIdent(last.Results[0], "nil") {
			return fmt.Errorf("%s: success path is not a single final `return nil`", name)
		}
		found := false
		for _, st := range list {
			if src := p.Src(st); src == r+".enqueueSave()" || src == "defer "+r+".enqueueSave()" {
				found = true
			}
		}
		if !found {
			return fmt.Errorf("%s: no top-level %s.enqueueSave() before the acknowledgement", name, r)
		}
	}
	l.BoolDef("mutatorsEnqueue", true, "Add/Update/DeleteCredential each call enqueueSave on their only success path")
	return nil
}

func leanProg(rows [][]string) string {
	var sb strings.Builder
	sb.WriteString("[\n")
	for i, r := range rows {
		sb.WriteString("  " + gen.LeanStrList(r))
		if i+1 < len(rows) {
			sb.WriteString(",")
		}
		sb.WriteString("\n")
	}
	sb.WriteString("]")
	return sb.String()
}

// leanNodes renders ["sel","queue","1","ctx","4"] as ("sel", [("queue", 1), ("ctx", 4)]), ["save","0"] as ("save", [("next", 0)]).
func leanNodes(rows [][]string) string {
	var sb strings.Builder
	sb.WriteString("[\n")
	for i, r := range rows {
		var alts []string
		switch r[0] {
		case "save":
			alts = append(alts, fmt.Sprintf("(\"next\", %s)", r[1]))
		case "sel":
			for k := 1; k+1 < len(r); k += 2 {
				alts = append(alts, fmt.Sprintf("(%s, %s)", gen.LeanString(r[k]), r[k+1]))
			}
		}
		sb.WriteString(fmt.Sprintf("  (%s, [%s])", gen.LeanString(r[0]), strings.Join(alts, ", ")))
		if i+1 < len(rows) {
			sb.WriteString(",")
		}
		sb.WriteString("\n")
	}
	sb.WriteString("]")
	return sb.String()
}

func main() {
	gen.Main("C20", func(c *gen.Ctx, l *gen.Lean) error {
		p, err := c.Load("cred")
		if err != nil {
			return err
		}
		sp, err := extractSave(p)
		if err != nil {
			return err
		}
		dp, cool, err := extractDequeue(p)
		if err != nil {
			return err
		}
		l.Raw("/-- cred.(*ManagedServer).saveToFile: file-system calls in source order -/\ndef saveProg : List (List String) := " + leanProg(sp) + "\n")
		l.Raw("/-- cred.(*ManagedServer).dequeueSave: control-flow graph (node = position in the list; select alternatives with the node that follows) -/\ndef dequeueProg : List (String × List (String × Nat)) := " + leanNodes(dp) + "\n")
		l.NatDef("cooldownNs", cool, "cred.(*ManagedServer).dequeueSave: time.After argument")
		return facts(p, l)
	})
}
