// gen_c04: regenerates lean/SSV/Gen/C04.lean from /repo: the constants the C04 theorems depend on
// and the order of the property-relevant events in the two UDP UnpackInPlace functions
// (IsOk guard -> AEAD open -> header parse/validate -> lazy filter creation -> MustAdd -> state writes).
// A statement that mentions one of the tracked calls or writes receiver state in a shape the
// extractor does not recognise aborts the generation (GEN-BROKEN): the tie is broken, nothing is skipped.
package main

import (
	"fmt"
	"go/ast"
	"go/token"
	"strings"

	"ssvharness/internal/gen"
)

func main() {
	gen.Main("C04", func(c *gen.Ctx, l *gen.Lean) error {
		p, err := c.Load("ss2022")
		if err != nil {
			return err
		}
		if err := l.Consts(p, "swfBlockBits", "DefaultSlidingWindowFilterSize", "MaxEpochDiff", "ReplayWindowDuration",
			"HeaderTypeClientPacket", "HeaderTypeServerPacket", "UDPSeparateHeaderLength",
			"UDPClientMessageHeaderFixedLength", "UDPServerMessageHeaderFixedLength"); err != nil {
			return err
		}
		srv, err := p.Func("*ShadowPacketServerUnpacker", "UnpackInPlace")
		if err != nil {
			return err
		}
		cli, err := p.Func("*ShadowPacketClientUnpacker", "UnpackInPlace")
		if err != nil {
			return err
		}
		so, _, err := unpackOrder(p, srv)
		if err != nil {
			return fmt.Errorf("ShadowPacketServerUnpacker.UnpackInPlace: %w", err)
		}
		co, minute, err := unpackOrder(p, cli)
		if err != nil {
			return fmt.Errorf("ShadowPacketClientUnpacker.UnpackInPlace: %w", err)
		}
		if minute == "" {
			return fmt.Errorf("ShadowPacketClientUnpacker.UnpackInPlace: no `time.Since(p.oldServerSessionLastSeenTime) < <const>` case found")
		}
		l.NatDef("clientSessionChangeMinInterval", minute, "ss2022/packet.go: time.Since(p.oldServerSessionLastSeenTime) < time.Minute (nanoseconds)")
		// the timestamp validation shared by both UDP header parsers: body fingerprint + call sites + check order
		vt, err := p.Func("", "ValidateUnixEpochTimestamp")
		if err != nil {
			return err
		}
		l.StrDef("srcValidateTimestamp", p.Src(vt.Body), "body of ss2022.ValidateUnixEpochTimestamp")
		l.Raw("/-- the checks a UDP message header parser makes: fixed-length part present, type byte, timestamp,\nclient session id, padding fits, SOCKS address parses -/\ninductive HdrCheck where | len | typ | ts | csid | pad | addr\nderiving Repr, DecidableEq\n")
		for _, it := range [][2]string{{"udpClientHeaderChecks", "ParseUDPClientMessageHeader"}, {"udpServerHeaderChecks", "ParseUDPServerMessageHeader"}} {
			fd, err := p.Func("", it[1])
			if err != nil {
				return err
			}
			ch, err := headerChecks(p, fd)
			if err != nil {
				return fmt.Errorf("%s: %w", it[1], err)
			}
			l.Raw("/-- the error-producing statements of ss2022." + it[1] + ", in order -/\n")
			l.Raw("def " + it[0] + " : List String := " + gen.LeanStrList(ch) + "\n")
			kinds, err := checkKinds(ch)
			if err != nil {
				return fmt.Errorf("%s: %w", it[1], err)
			}
			l.Raw("/-- the same as a program of checks the model executes in this order -/\n")
			l.Raw("def " + strings.Replace(it[0], "Checks", "Order", 1) + " : List HdrCheck := [" + strings.Join(kinds, ", ") + "]\n")
		}
		// the arithmetic on peer-controlled packet ids: body fingerprints of the filter functions the model mirrors
		for _, it := range [][3]string{{"srcSwfNew", "", "NewSlidingWindowFilter"}, {"srcSwfIsOk", "*SlidingWindowFilter", "IsOk"},
			{"srcSwfMustAdd", "*SlidingWindowFilter", "MustAdd"}, {"srcSwfAdd", "*SlidingWindowFilter", "Add"}, {"srcSwfReset", "*SlidingWindowFilter", "Reset"},
			{"srcSwfBlockIndex", "*SlidingWindowFilter", "blockIndex"}, {"srcSwfUnmaskedBlockIndex", "*SlidingWindowFilter", "unmaskedBlockIndex"},
			{"srcSwfBitIndex", "*SlidingWindowFilter", "bitIndex"}} {
			fd, err := p.Func(it[1], it[2])
			if err != nil {
				return err
			}
			l.StrDef(it[0], p.Src(fd.Body), "body of ss2022 "+it[1]+" "+it[2])
		}
		l.Raw("/-- order of the property-relevant statements of ShadowPacketServerUnpacker.UnpackInPlace -/\n")
		l.Raw("def serverUnpackOrder : List String := " + gen.LeanStrList(so) + "\n")
		l.Raw("/-- order of the property-relevant statements of ShadowPacketClientUnpacker.UnpackInPlace -/\n")
		l.Raw("def clientUnpackOrder : List String := " + gen.LeanStrList(co) + "\n")
		return nil
	})
}

// headerChecks lists, in source order, every top-level statement of a UDP header parser that can end the parse with
// an error: `if <cond> { ...; return }` guards, the `err = ValidateUnixEpochTimestamp(...)` call (with its argument
// text) and any other call whose error is returned. Anything else that mentions `err` or returns aborts.
func headerChecks(p *gen.Pkg, fd *ast.FuncDecl) ([]string, error) {
	var out []string
	n := len(fd.Body.List)
	for i, st := range fd.Body.List {
		src := p.Src(st)
		switch s := st.(type) {
		case *ast.IfStmt:
			if s.Init != nil || s.Else != nil {
				return nil, fmt.Errorf("unrecognised statement shape (if with init/else): %s", src)
			}
			cond := p.Src(s.Cond)
			if !hasReturn(s) {
				if strings.Contains(src, "err") {
					return nil, fmt.Errorf("unrecognised statement shape (err without return): %s", src)
				}
				continue
			}
			if !endsWithReturn(s.Body) {
				return nil, fmt.Errorf("unrecognised statement shape (guard): %s", src)
			}
			if cond == "err != nil" {
				out = append(out, "ret-if-err")
			} else {
				out = append(out, "if "+cond)
			}
		case *ast.AssignStmt:
			mentionsErr := false
			for _, e := range s.Lhs {
				if p.Src(e) == "err" {
					mentionsErr = true
				}
			}
			if mentionsErr {
				if len(s.Rhs) != 1 {
					return nil, fmt.Errorf("unrecognised statement shape (err assignment): %s", src)
				}
				if _, ok := s.Rhs[0].(*ast.CallExpr); !ok {
					return nil, fmt.Errorf("unrecognised statement shape (err assignment): %s", src)
				}
				out = append(out, "err<-"+p.Src(s.Rhs[0]))
			} else if strings.Contains(src, "ValidateUnixEpochTimestamp") {
				return nil, fmt.Errorf("unrecognised statement shape (timestamp validation result not in err): %s", src)
			}
		case *ast.ReturnStmt:
			if i != n-1 {
				return nil, fmt.Errorf("unrecognised statement shape (early return): %s", src)
			}
		case *ast.DeclStmt, *ast.IncDecStmt:
		default:
			return nil, fmt.Errorf("unrecognised statement shape (statement kind): %s", src)
		}
	}
	return out, nil
}

// checkKinds turns the error-producing statements of a header parser into the program of checks of the model.
func checkKinds(ch []string) ([]string, error) {
	var out []string
	for i := 0; i < len(ch); i++ {
		c := ch[i]
		follows := i+1 < len(ch) && ch[i+1] == "ret-if-err"
		switch {
		case c == "if len(b) < UDPClientMessageHeaderFixedLength" || c == "if len(b) < UDPServerMessageHeaderFixedLength":
			out = append(out, ".len")
		case c == "if b[0] != HeaderTypeClientPacket" || c == "if b[0] != HeaderTypeServerPacket":
			out = append(out, ".typ")
		case c == "err<-ValidateUnixEpochTimestamp(b[1:1+8], now)" && follows:
			out = append(out, ".ts")
			i++
		case c == "if pcsid != csid":
			out = append(out, ".csid")
		case c == "if payloadStart > len(b)":
			out = append(out, ".pad")
		case (c == "err<-domainCache.ConnAddrFromSlice(b[payloadStart:])" || c == "err<-socks5.AddrPortFromSlice(b[payloadStart:])") && follows:
			out = append(out, ".addr")
			i++
		default:
			return nil, fmt.Errorf("unrecognised header check: %s", c)
		}
	}
	return out, nil
}

var trackedCalls = map[string]bool{"IsOk": true, "MustAdd": true, "Add": true, "Reset": true, "Open": true,
	"NewSlidingWindowFilter": true, "ParseUDPClientMessageHeader": true, "ParseUDPServerMessageHeader": true}

// tracked returns the tracked calls inside n, in source order.
func tracked(n ast.Node) []string {
	var res []string
	ast.Inspect(n, func(x ast.Node) bool {
		if c, ok := x.(*ast.CallExpr); ok {
			switch f := c.Fun.(type) {
			case *ast.SelectorExpr:
				if trackedCalls[f.Sel.Name] {
					res = append(res, f.Sel.Name)
				}
			case *ast.Ident:
				if trackedCalls[f.Name] {
					res = append(res, f.Name)
				}
			}
		}
		return true
	})
	return res
}

// writes returns the receiver fields assigned inside n (recv.X = ..., recv.X op= ..., recv.X++), in source order.
func writes(n ast.Node, recv string) []string {
	var res []string
	lhs := func(e ast.Expr) {
		for {
			switch x := e.(type) {
			case *ast.SelectorExpr:
				if id, ok := x.X.(*ast.Ident); ok && id.Name == recv {
					res = append(res, x.Sel.Name)
					return
				}
				e = x.X
			case *ast.IndexExpr:
				e = x.X
			case *ast.StarExpr:
				e = x.X
			case *ast.ParenExpr:
				e = x.X
			default:
				return
			}
		}
	}
	ast.Inspect(n, func(x ast.Node) bool {
		switch s := x.(type) {
		case *ast.AssignStmt:
			for _, e := range s.Lhs {
				lhs(e)
			}
		case *ast.IncDecStmt:
			lhs(s.X)
		}
		return true
	})
	return res
}

func hasReturn(n ast.Node) bool {
	found := false
	ast.Inspect(n, func(x ast.Node) bool {
		if _, ok := x.(*ast.ReturnStmt); ok {
			found = true
		}
		if _, ok := x.(*ast.FuncLit); ok {
			return false
		}
		return true
	})
	return found
}

func endsWithReturn(b *ast.BlockStmt) bool {
	if len(b.List) == 0 {
		return false
	}
	_, ok := b.List[len(b.List)-1].(*ast.ReturnStmt)
	return ok
}

func eq(a, b []string) bool { return strings.Join(a, ",") == strings.Join(b, ",") }

// unpackOrder classifies every top-level statement of an UnpackInPlace body.
func unpackOrder(p *gen.Pkg, fd *ast.FuncDecl) (events []string, minute string, err error) {
	if fd.Recv == nil || len(fd.Recv.List) != 1 || len(fd.Recv.List[0].Names) != 1 {
		return nil, "", fmt.Errorf("unexpected receiver")
	}
	recv := fd.Recv.List[0].Names[0].Name
	for _, st := range fd.Body.List {
		tr := tracked(st)
		wr := writes(st, recv)
		src := p.Src(st)
		bad := func(why string) error {
			return fmt.Errorf("unrecognised statement shape (%s): %s", why, src)
		}
		switch s := st.(type) {
		case *ast.IfStmt:
			cond := p.Src(s.Cond)
			switch {
			case s.Init != nil || s.Else != nil:
				if len(tr) > 0 || len(wr) > 0 || hasReturn(s) {
					return nil, "", bad("if with init/else")
				}
			case eq(tr, []string{"IsOk"}):
				// <f> != nil && !<f>.IsOk(<id>)  { err = &ShadowPacketReplayError{...}; return }
				parts := strings.Split(cond, " && ")
				if len(parts) != 2 || !strings.HasSuffix(parts[0], " != nil") || !strings.HasPrefix(parts[1], "!"+strings.TrimSuffix(parts[0], " != nil")+".IsOk(") {
					return nil, "", bad("IsOk guard condition")
				}
				if len(wr) > 0 || len(s.Body.List) != 2 || !endsWithReturn(s.Body) || !strings.Contains(p.Src(s.Body.List[0]), "ShadowPacketReplayError") {
					return nil, "", bad("IsOk guard body")
				}
				events = append(events, "isok-guard")
			case eq(tr, []string{"NewSlidingWindowFilter"}):
				// if <first-valid-packet condition> { <filter> = NewSlidingWindowFilter(p.filterSize) }
				if len(s.Body.List) != 1 || hasReturn(s) {
					return nil, "", bad("filter creation body")
				}
				as, ok := s.Body.List[0].(*ast.AssignStmt)
				if !ok || len(as.Lhs) != 1 || as.Tok != token.ASSIGN || p.Src(as.Rhs[0]) != "NewSlidingWindowFilter("+recv+".filterSize)" {
					return nil, "", bad("filter creation assignment")
				}
				events = append(events, "create["+cond+"]")
			case len(tr) > 0:
				return nil, "", bad("tracked call in if")
			case cond == "err != nil":
				if len(wr) > 0 || len(s.Body.List) != 1 || !endsWithReturn(s.Body) {
					return nil, "", bad("err guard body")
				}
				events = append(events, "ret-if-err")
			case hasReturn(s):
				if len(wr) > 0 || !endsWithReturn(s.Body) {
					return nil, "", bad("guard")
				}
				events = append(events, "guard")
			case len(wr) > 0:
				return nil, "", bad("state write in if")
			}
		case *ast.AssignStmt:
			switch {
			case eq(tr, []string{"Open"}):
				if len(wr) > 0 || len(s.Lhs) != 2 || p.Src(s.Lhs[1]) != "err" {
					return nil, "", bad("AEAD open")
				}
				events = append(events, "open")
			case eq(tr, []string{"ParseUDPClientMessageHeader"}) || eq(tr, []string{"ParseUDPServerMessageHeader"}):
				if len(wr) > 0 || len(s.Lhs) != 4 || p.Src(s.Lhs[3]) != "err" {
					return nil, "", bad("header parse")
				}
				events = append(events, "parse")
			case len(tr) > 0:
				return nil, "", bad("tracked call in assignment")
			case len(wr) > 0:
				for _, w := range wr {
					events = append(events, "write:"+w)
				}
			}
		case *ast.ExprStmt:
			switch {
			case eq(tr, []string{"MustAdd"}):
				c, ok := s.X.(*ast.CallExpr)
				if !ok || len(c.Args) != 1 {
					return nil, "", bad("MustAdd")
				}
				events = append(events, "mustadd")
			case len(tr) > 0:
				return nil, "", bad("tracked call in expression statement")
			}
		case *ast.SwitchStmt:
			if len(tr) > 0 || s.Init != nil {
				return nil, "", bad("tracked call in switch")
			}
			var cases []string
			for _, cc := range s.Body.List {
				cl := cc.(*ast.CaseClause)
				var label []string
				for _, e := range cl.List {
					label = append(label, p.Src(e))
					if be, ok := e.(*ast.BinaryExpr); ok && be.Op == token.LSS && strings.HasPrefix(p.Src(be.X), "time.Since(") {
						if p.Src(be.X) != "time.Since("+recv+".oldServerSessionLastSeenTime)" {
							return nil, "", bad("time.Since operand")
						}
						v, ok := p.EvalInt(be.Y)
						if !ok || minute != "" {
							return nil, "", bad("session change interval")
						}
						minute = v
					}
				}
				if cl.List == nil {
					label = []string{"default"}
				}
				var w []string
				for _, b := range cl.Body {
					w = append(w, writes(b, recv)...)
				}
				ret := false
				for _, b := range cl.Body {
					if hasReturn(b) {
						ret = true
					}
				}
				item := strings.Join(label, "|")
				if len(w) > 0 {
					item += ":write:" + strings.Join(w, "+")
				}
				if ret {
					item += ":may-return"
				}
				cases = append(cases, item)
			}
			events = append(events, "switch["+strings.Join(cases, "; ")+"]")
		case *ast.ReturnStmt:
			events = append(events, "return")
		case *ast.DeclStmt:
			if len(tr) > 0 {
				return nil, "", bad("tracked call in declaration")
			}
		case *ast.IncDecStmt:
			for _, w := range wr {
				events = append(events, "write:"+w)
			}
		default:
			return nil, "", bad("statement kind")
		}
	}
	return events, minute, nil
}
