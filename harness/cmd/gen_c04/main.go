// gen_c04: regenerates lean/SSV/Gen/C04.lean from /repo (constants the C04 theorems depend on).
package main

import "ssvharness/internal/gen"

func main() {
	gen.Main("C04", func(c *gen.Ctx, l *gen.Lean) error {
		p, err := c.Load("ss2022")
		if err != nil {
			return err
		}
		return l.Consts(p, "swfBlockBits", "DefaultSlidingWindowFilterSize", "MaxEpochDiff", "ReplayWindowDuration")
	})
}
