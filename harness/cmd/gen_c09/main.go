// gen_c09: regenerates lean/SSV/Gen/C09.lean from /repo (router/route.go, router/router.go):
//   - the literals of the two `switch portCount` blocks of RouteConfig.Route (single / all / max ranges),
//   - whether the two *PortSetCriterion.Meet methods guard port 0 before PortSet.Contains (finding F3),
//   - the string literals of RouteConfig.Route that the model uses ("reject", network names, bad route names),
//   - the order in which criteria are appended (top-level order, order inside every OR group, the pairing of each
//     criterion type with its invert flag) and the order of the pre-checks,
//   - the source text of the small control-flow functions the model mirrors statement by statement.
//
// Every extractor aborts (GEN-BROKEN) on a shape it does not recognise.
package main

import (
	"fmt"
	"go/ast"
	"go/parser"
	"go/printer"
	"go/token"
	"path/filepath"
	"strconv"
	"strings"

	"ssvharness/internal/gen"
)

// gen_c09 is purely syntactic (go/parser + go/printer on router/route.go, router/router.go and
// domainset/matcher_domain.go): it does not type-check, so it does not need the source importer (which runs
// `go list` for every transitive import of package router and takes minutes on a loaded machine).
// Integer facts must therefore be plain integer literals in the source; anything else is GEN-BROKEN.

type pkg struct {
	fset  *token.FileSet
	files []*ast.File
	dir   string
}

func load(repo, dir string, names ...string) (*pkg, error) {
	p := &pkg{fset: token.NewFileSet(), dir: dir}
	for _, n := range names {
		f, err := parser.ParseFile(p.fset, filepath.Join(repo, dir, n), nil, parser.ParseComments|parser.SkipObjectResolution)
		if err != nil {
			return nil, err
		}
		p.files = append(p.files, f)
	}
	return p, nil
}

// Src prints an AST node as source text on one line (canonical gofmt form).
func (p *pkg) Src(n ast.Node) string {
	var sb strings.Builder
	printer.Fprint(&sb, p.fset, n)
	return strings.Join(strings.Fields(sb.String()), " ")
}

// Func finds a function or method declaration: Func("", "f") or Func("*T", "M") / Func("T", "M").
func (p *pkg) Func(recv, name string) (*ast.FuncDecl, error) {
	for _, f := range p.files {
		for _, d := range f.Decls {
			fd, ok := d.(*ast.FuncDecl)
			if !ok || fd.Name.Name != name {
				continue
			}
			if recv == "" && fd.Recv == nil {
				return fd, nil
			}
			if recv != "" && fd.Recv != nil && len(fd.Recv.List) == 1 {
				if strings.TrimPrefix(p.Src(fd.Recv.List[0].Type), "*") == strings.TrimPrefix(recv, "*") {
					return fd, nil
				}
			}
		}
	}
	return nil, fmt.Errorf("%s: function %s.%s not found", p.dir, recv, name)
}

// EvalInt accepts a decimal integer literal only.
func (p *pkg) EvalInt(e ast.Expr) (string, bool) {
	lit, ok := e.(*ast.BasicLit)
	if !ok || lit.Kind != token.INT {
		return "", false
	}
	v, err := strconv.ParseUint(lit.Value, 10, 64)
	if err != nil {
		return "", false
	}
	return strconv.FormatUint(v, 10), true
}

// ConstInt finds `const name = <integer literal>` at package level.
func (p *pkg) ConstInt(name string) (string, error) {
	for _, f := range p.files {
		for _, d := range f.Decls {
			gd, ok := d.(*ast.GenDecl)
			if !ok || gd.Tok != token.CONST {
				continue
			}
			for _, sp := range gd.Specs {
				vs := sp.(*ast.ValueSpec)
				for i, n := range vs.Names {
					if n.Name == name && i < len(vs.Values) {
						if v, ok := p.EvalInt(vs.Values[i]); ok {
							return v, nil
						}
						return "", fmt.Errorf("%s.%s is not an integer literal: %s", p.dir, name, p.Src(vs.Values[i]))
					}
				}
			}
		}
	}
	return "", fmt.Errorf("%s.%s: no such constant", p.dir, name)
}

func main() {
	gen.Main("C09", func(c *gen.Ctx, l *gen.Lean) error {
		p, err := load(c.Repo, "router", "route.go", "router.go")
		if err != nil {
			return err
		}
		fd, err := p.Func("*RouteConfig", "Route")
		if err != nil {
			return err
		}
		if err := routeFacts(p, fd, l); err != nil {
			return fmt.Errorf("RouteConfig.Route: %w", err)
		}
		for _, side := range []struct{ typ, lean, portExpr string }{
			{"SourcePortSetCriterion", "srcPortSetGuardsZero", "requestInfo.SourceAddrPort.Port()"},
			{"DestPortSetCriterion", "dstPortSetGuardsZero", "requestInfo.TargetAddr.Port()"},
		} {
			m, err := p.Func("*"+side.typ, "Meet")
			if err != nil {
				return err
			}
			g, err := guardsZero(p, m, side.portExpr)
			if err != nil {
				return fmt.Errorf("%s.Meet: %w", side.typ, err)
			}
			l.BoolDef(side.lean, g, fmt.Sprintf("router/route.go (*%s).Meet returns (false, nil) for port 0 before calling PortSet.Contains", side.typ))
		}
		// control-flow functions mirrored by the model, as canonical source text
		for _, f := range []struct{ recv, name, lean string }{
			{"*Route", "Match", "srcRouteMatch"},
			{"InvertedCriterion", "Meet", "srcInvertedMeet"},
			{"CriterionGroupOR", "Meet", "srcGroupMeet"},
			{"CriterionGroupOR", "Criterion", "srcGroupCriterion"},
			{"CriterionGroupOR", "AppendTo", "srcGroupAppendTo"},
			{"DestDomainExpectedIPCriterion", "Meet", "srcDomainExpectedMeet"},
			{"", "lookup", "srcLookup"},
			{"*Router", "match", "srcRouterMatch"},
			{"*Route", "TCPClient", "srcRouteTCPClient"},
			{"*Route", "UDPClient", "srcRouteUDPClient"},
		} {
			d, err := p.Func(f.recv, f.name)
			if err != nil {
				return err
			}
			l.StrDef(f.lean, p.Src(d.Body), "router: body of "+strings.TrimPrefix(f.recv+".", ".")+f.name)
		}
		// service/service.go: how the two resolver arguments of Config.Router are built
		sv, err := load(c.Repo, "service", "service.go")
		if err != nil {
			return err
		}
		loop, err := serviceResolverLoop(sv)
		if err != nil {
			return fmt.Errorf("service.Config.Manager: %w", err)
		}
		l.StrDef("srcServiceResolverLoop", loop, "service/service.go: the loop that fills `resolvers` and `resolverMap` (same object in both, duplicate names refused)")
		ds, err := load(c.Repo, "domainset", "matcher_domain.go")
		if err != nil {
			return err
		}
		v, err := ds.ConstInt("MaxLinearDomains")
		if err != nil {
			return err
		}
		l.NatDef("MaxLinearDomains", v, "domainset.MaxLinearDomains")
		return nil
	})
}

// serviceResolverLoop finds, in service.go, the `for i := range sc.DNS` loop and checks its shape: a duplicate-name
// check on resolverMap, one NewSimpleResolver call, `resolvers[i] = resolver`, `resolverMap[resolverConfig.Name] = resolver`;
// and that exactly these two variables are what Config.Router receives. Returns the loop's source text.
func serviceResolverLoop(p *pkg) (string, error) {
	var loop *ast.RangeStmt
	routerCall := ""
	for _, f := range p.files {
		ast.Inspect(f, func(n ast.Node) bool {
			switch x := n.(type) {
			case *ast.RangeStmt:
				if p.Src(x.X) == "sc.DNS" {
					if loop != nil {
						loop = nil
						return false
					}
					loop = x
				}
			case *ast.CallExpr:
				if p.Src(x.Fun) == "sc.Router.Router" {
					routerCall = p.Src(x)
				}
			}
			return true
		})
	}
	if loop == nil {
		return "", fmt.Errorf("no (single) `range sc.DNS` loop")
	}
	if !strings.HasPrefix(routerCall, "sc.Router.Router(logger, resolvers, resolverMap, ") {
		return "", fmt.Errorf("unrecognised router construction: %s", routerCall)
	}
	b := loop.Body.List
	if p.Src(loop.Key) != "i" || len(b) != 6 {
		return "", fmt.Errorf("unrecognised loop: %.200s", p.Src(loop))
	}
	want := []string{
		"resolverConfig := &sc.DNS[i]",
		"if _, ok := resolverMap[resolverConfig.Name]; ok { return nil, fmt.Errorf(",
		"resolver, err := resolverConfig.NewSimpleResolver(",
		"if err != nil { return nil, fmt.Errorf(",
		"resolvers[i] = resolver",
		"resolverMap[resolverConfig.Name] = resolver",
	}
	for i, w := range want {
		got := p.Src(b[i])
		if got != w && !(strings.HasSuffix(w, "(") && strings.HasPrefix(got, w)) {
			return "", fmt.Errorf("loop statement %d: %.160s", i, got)
		}
	}
	return p.Src(loop), nil
}

// ---------- (*XPortSetCriterion).Meet ----------

func guardsZero(p *pkg, m *ast.FuncDecl, portExpr string) (bool, error) {
	b := m.Body.List
	switch len(b) {
	case 1:
		// return (*portset.PortSet)(c).Contains(<portExpr>), nil
		if p.Src(b[0]) == "return (*portset.PortSet)(c).Contains("+portExpr+"), nil" {
			return false, nil
		}
	case 3:
		if p.Src(b[0]) == "port := "+portExpr &&
			strings.HasPrefix(p.Src(b[1]), "if port == 0 {") && ifReturnsFalseNil(p, b[1]) &&
			p.Src(b[2]) == "return (*portset.PortSet)(c).Contains(port), nil" {
			return true, nil
		}
	}
	return false, fmt.Errorf("unrecognised body: %s", p.Src(m.Body))
}

func ifReturnsFalseNil(p *pkg, s ast.Stmt) bool {
	is, ok := s.(*ast.IfStmt)
	if !ok || is.Else != nil || is.Init != nil || len(is.Body.List) != 1 {
		return false
	}
	return p.Src(is.Body.List[0]) == "return false, nil"
}

// ---------- RouteConfig.Route ----------

type addCall struct{ recv, typ, invert string }

// criterionType names the criterion constructed by the first argument of an AddCriterion call.
func criterionType(p *pkg, e ast.Expr, locals map[string]string) (string, error) {
	switch x := e.(type) {
	case *ast.CompositeLit:
		return p.Src(x.Type), nil
	case *ast.CallExpr: // conversion T(x) or (*T)(x)
		f := x.Fun
		if pe, ok := f.(*ast.ParenExpr); ok {
			f = pe.X
		}
		if se, ok := f.(*ast.StarExpr); ok {
			f = se.X
		}
		if id, ok := f.(*ast.Ident); ok && len(x.Args) == 1 {
			return id.Name, nil
		}
	case *ast.UnaryExpr: // &localVar
		if id, ok := x.X.(*ast.Ident); ok && x.Op == token.AND {
			if t, ok := locals[id.Name]; ok {
				return t, nil
			}
		}
	}
	return "", fmt.Errorf("unrecognised criterion expression %s", p.Src(e))
}

// collect walks one top-level statement and returns, in source order, every AddCriterion call and every
// `route.criteria = <group>.AppendTo(route.criteria)`; it also returns the conditions under which
// criterion-valued expressions are chosen (only if/else and switch are expected on the way).
func collect(p *pkg, s ast.Stmt) (calls []addCall, appendTo []string, err error) {
	locals := map[string]string{}
	ast.Inspect(s, func(n ast.Node) bool {
		if err != nil {
			return false
		}
		switch x := n.(type) {
		case *ast.AssignStmt:
			// xCriterion := T(portSet)
			if x.Tok == token.DEFINE && len(x.Lhs) == 1 && len(x.Rhs) == 1 {
				if id, ok := x.Lhs[0].(*ast.Ident); ok {
					if ce, ok := x.Rhs[0].(*ast.CallExpr); ok {
						if f, ok := ce.Fun.(*ast.Ident); ok && strings.HasSuffix(f.Name, "Criterion") {
							locals[id.Name] = f.Name
						}
					}
				}
			}
			// route.criteria = group.AppendTo(route.criteria)
			if x.Tok == token.ASSIGN && len(x.Lhs) == 1 && p.Src(x.Lhs[0]) == "route.criteria" {
				src := p.Src(x.Rhs[0])
				if strings.HasSuffix(src, ".AppendTo(route.criteria)") {
					appendTo = append(appendTo, strings.TrimSuffix(src, ".AppendTo(route.criteria)"))
				} else {
					err = fmt.Errorf("unrecognised assignment to route.criteria: %s", p.Src(x))
				}
			}
		case *ast.CallExpr:
			if se, ok := x.Fun.(*ast.SelectorExpr); ok && se.Sel.Name == "AddCriterion" {
				if len(x.Args) != 2 {
					err = fmt.Errorf("AddCriterion with %d arguments", len(x.Args))
					return false
				}
				t, e := criterionType(p, x.Args[0], locals)
				if e != nil {
					err = e
					return false
				}
				calls = append(calls, addCall{p.Src(se.X), t, p.Src(x.Args[1])})
			}
		}
		return true
	})
	return
}

var sectionOf = map[string]string{
	"NetworkTCPCriterion": "network", "NetworkUDPCriterion": "network",
	"SourceServerCriterion": "fromServers",
	"SourceUserCriterion":   "fromUsers",
	"SourcePortCriterion":   "fromPorts", "SourcePortRangeSetCriterion": "fromPorts", "SourcePortSetCriterion": "fromPorts",
	"SourceIPCriterion": "fromAddr", "SourceGeoIPCountryCriterion": "fromAddr",
	"DestPortCriterion": "toPorts", "DestPortRangeSetCriterion": "toPorts", "DestPortSetCriterion": "toPorts",
	"DestDomainCriterion": "toAddr", "DestDomainExpectedIPCriterion": "toAddr", "DestIPCriterion": "toAddr",
	"DestResolvedIPCriterion": "toAddr", "DestGeoIPCountryCriterion": "toAddr", "DestResolvedGeoIPCountryCriterion": "toAddr",
}

func routeFacts(p *pkg, fd *ast.FuncDecl, l *gen.Lean) error {
	var (
		order, prechecks []string
		allCalls         []addCall
		strs             = map[string]string{}
	)
	for _, s := range fd.Body.List {
		src := p.Src(s)
		calls, appendTo, err := collect(p, s)
		if err != nil {
			return err
		}
		if len(calls) == 0 {
			switch {
			case strings.HasPrefix(src, "switch rc.Name {"):
				prechecks = append(prechecks, "name")
				names, err := caseStrings(p, s.(*ast.SwitchStmt), 0)
				if err != nil {
					return err
				}
				strs["badRouteNames"] = gen.LeanStrList(names)
			case strings.HasPrefix(src, "if geoip == nil && ("):
				prechecks = append(prechecks, "geoip")
			case strings.HasPrefix(src, "if len(resolvers) == 0 && ("):
				prechecks = append(prechecks, "resolvers")
			case strings.HasPrefix(src, "if len(rc.ToDomains) == 0 && len(rc.ToDomainSets) == 0 && ("):
				prechecks = append(prechecks, "domainCriteria")
			case strings.HasPrefix(src, "if rc.Resolver != \"\" {"):
				prechecks = append(prechecks, "resolver")
			case src == "route := Route{name: rc.Name}":
			case strings.HasPrefix(src, "if rc.Client != "):
				is := s.(*ast.IfStmt)
				be, ok := is.Cond.(*ast.BinaryExpr)
				if !ok || be.Op != token.NEQ {
					return fmt.Errorf("unrecognised client condition %s", p.Src(is.Cond))
				}
				lit, ok := be.Y.(*ast.BasicLit)
				if !ok || lit.Kind != token.STRING {
					return fmt.Errorf("unrecognised client condition %s", p.Src(is.Cond))
				}
				v, _ := strconv.Unquote(lit.Value)
				strs["rejectName"] = gen.LeanString(v)
			case src == "return route, nil":
			default:
				return fmt.Errorf("unrecognised statement: %.120s", src)
			}
			continue
		}
		sec := ""
		for _, c := range calls {
			s2, ok := sectionOf[c.typ]
			if !ok {
				return fmt.Errorf("unknown criterion type %s", c.typ)
			}
			if sec != "" && s2 != sec {
				return fmt.Errorf("one statement builds criteria of two sections (%s, %s)", sec, s2)
			}
			sec = s2
		}
		grouped := sec == "fromAddr" || sec == "toAddr"
		if grouped != (len(appendTo) == 1) {
			return fmt.Errorf("section %s: unexpected use of CriterionGroupOR.AppendTo (%v)", sec, appendTo)
		}
		if sec == "network" {
			sw, ok := s.(*ast.SwitchStmt)
			if !ok || p.Src(sw.Tag) != "rc.Network" {
				return fmt.Errorf("unrecognised network statement: %.120s", src)
			}
			var names []string
			for i := 0; i < 3; i++ {
				ns, err := caseStrings(p, sw, i)
				if err != nil {
					return err
				}
				if len(ns) != 1 {
					return fmt.Errorf("network switch: case %d has %d values", i, len(ns))
				}
				names = append(names, ns[0])
			}
			// the three cases must be: nothing, TCP criterion, UDP criterion — in this order
			if len(calls) != 2 || calls[0].typ != "NetworkTCPCriterion" || calls[1].typ != "NetworkUDPCriterion" ||
				len(sw.Body.List) != 4 || len(sw.Body.List[0].(*ast.CaseClause).Body) != 0 {
				return fmt.Errorf("unrecognised network switch: %.160s", src)
			}
			strs["networkNames"] = gen.LeanStrList(names)
		}
		if sec == "fromPorts" || sec == "toPorts" {
			single, all, maxr, err := portSwitch(p, s)
			if err != nil {
				return fmt.Errorf("%s: %w", sec, err)
			}
			pre := map[string]string{"fromPorts": "srcPort", "toPorts": "dstPort"}[sec]
			l.NatDef(pre+"SingleCount", single, "router/route.go RouteConfig.Route: "+sec+" switch, single-port case")
			l.NatDef(pre+"AllCount", all, "router/route.go RouteConfig.Route: "+sec+" switch, all-ports case")
			l.NatDef(pre+"MaxRanges", maxr, "router/route.go RouteConfig.Route: "+sec+" `portRangeCount <= N`")
		}
		order = append(order, sec)
		allCalls = append(allCalls, calls...)
	}
	for _, k := range []string{"rejectName", "badRouteNames", "networkNames"} {
		if _, ok := strs[k]; !ok {
			return fmt.Errorf("literal %s not found", k)
		}
	}
	l.Raw("/-- router/route.go RouteConfig.Route: client name that means reject -/\ndef rejectName : String := " + strs["rejectName"] + "\n")
	l.Raw("/-- router/route.go RouteConfig.Route: forbidden route names -/\ndef badRouteNames : List String := " + strs["badRouteNames"] + "\n")
	l.Raw("/-- router/route.go RouteConfig.Route: network names (no criterion, TCP criterion, UDP criterion) -/\ndef networkNames : List String := " + strs["networkNames"] + "\n")
	l.Raw("/-- router/route.go RouteConfig.Route: order of the pre-checks (the first failing one is the load error) -/\ndef precheckOrder : List String := " + gen.LeanStrList(prechecks) + "\n")
	l.Raw("/-- router/route.go RouteConfig.Route: order in which the sections append criteria to the route -/\ndef criteriaOrder : List String := " + gen.LeanStrList(order) + "\n")
	var sb strings.Builder
	sb.WriteString("/-- router/route.go RouteConfig.Route: every AddCriterion call in source order: (receiver, criterion type, invert argument) -/\ndef addCriterionCalls : List (String × String × String) := [")
	for i, c := range allCalls {
		if i > 0 {
			sb.WriteString(",")
		}
		sb.WriteString("\n  (" + gen.LeanString(c.recv) + ", " + gen.LeanString(c.typ) + ", " + gen.LeanString(c.invert) + ")")
	}
	sb.WriteString("]\n")
	l.Raw(sb.String())
	return nil
}

func caseStrings(p *pkg, sw *ast.SwitchStmt, i int) ([]string, error) {
	if i >= len(sw.Body.List) {
		return nil, fmt.Errorf("switch %s has no case %d", p.Src(sw.Tag), i)
	}
	cc := sw.Body.List[i].(*ast.CaseClause)
	var out []string
	for _, e := range cc.List {
		lit, ok := e.(*ast.BasicLit)
		if !ok || lit.Kind != token.STRING {
			return nil, fmt.Errorf("switch %s: case value %s is not a string literal", p.Src(sw.Tag), p.Src(e))
		}
		v, err := strconv.Unquote(lit.Value)
		if err != nil {
			return nil, err
		}
		out = append(out, v)
	}
	return out, nil
}

// portSwitch recognises, inside the statement, exactly:
//
//	switch portCount { case 0: panic(...) case S: AddCriterion(XPortCriterion(portSet.First()), inv)
//	case A: return Route{}, ... default: portRangeCount := portSet.RangeCount()
//	  if portRangeCount <= N { AddCriterion(XPortRangeSetCriterion(portSet.RangeSet()), inv) } else { v := XPortSetCriterion(portSet); AddCriterion(&v, inv) } }
func portSwitch(p *pkg, s ast.Stmt) (single, all, maxr string, err error) {
	var sw *ast.SwitchStmt
	ast.Inspect(s, func(n ast.Node) bool {
		if x, ok := n.(*ast.SwitchStmt); ok && p.Src(x.Tag) == "portCount" {
			sw = x
			return false
		}
		return true
	})
	if sw == nil {
		return "", "", "", fmt.Errorf("no `switch portCount`")
	}
	if len(sw.Body.List) != 4 {
		return "", "", "", fmt.Errorf("switch portCount has %d clauses", len(sw.Body.List))
	}
	lit := func(i int) (string, error) {
		cc := sw.Body.List[i].(*ast.CaseClause)
		if len(cc.List) != 1 {
			return "", fmt.Errorf("clause %d has %d values", i, len(cc.List))
		}
		v, ok := p.EvalInt(cc.List[0])
		if !ok {
			return "", fmt.Errorf("clause %d: %s is not a constant", i, p.Src(cc.List[0]))
		}
		return v, nil
	}
	zero, e := lit(0)
	if e != nil || zero != "0" {
		return "", "", "", fmt.Errorf("first clause is not `case 0` (%v)", e)
	}
	c0 := sw.Body.List[0].(*ast.CaseClause)
	if len(c0.Body) != 1 || !strings.HasPrefix(p.Src(c0.Body[0]), "panic(") {
		return "", "", "", fmt.Errorf("case 0 is not a panic")
	}
	if single, e = lit(1); e != nil {
		return "", "", "", e
	}
	c1 := sw.Body.List[1].(*ast.CaseClause)
	if len(c1.Body) != 1 || !strings.Contains(p.Src(c1.Body[0]), "PortCriterion(portSet.First())") {
		return "", "", "", fmt.Errorf("single-port clause unrecognised: %s", p.Src(c1))
	}
	if all, e = lit(2); e != nil {
		return "", "", "", e
	}
	c2 := sw.Body.List[2].(*ast.CaseClause)
	if len(c2.Body) != 1 || !strings.HasPrefix(p.Src(c2.Body[0]), "return Route{}, ") {
		return "", "", "", fmt.Errorf("all-ports clause unrecognised: %s", p.Src(c2))
	}
	cd := sw.Body.List[3].(*ast.CaseClause)
	if cd.List != nil || len(cd.Body) != 2 || p.Src(cd.Body[0]) != "portRangeCount := portSet.RangeCount()" {
		return "", "", "", fmt.Errorf("default clause unrecognised: %s", p.Src(cd))
	}
	is, ok := cd.Body[1].(*ast.IfStmt)
	if !ok || is.Else == nil {
		return "", "", "", fmt.Errorf("default clause: no if/else")
	}
	be, ok := is.Cond.(*ast.BinaryExpr)
	if !ok || be.Op != token.LEQ || p.Src(be.X) != "portRangeCount" {
		return "", "", "", fmt.Errorf("default clause: condition %s", p.Src(is.Cond))
	}
	if maxr, ok = p.EvalInt(be.Y); !ok {
		return "", "", "", fmt.Errorf("default clause: bound %s is not a constant", p.Src(be.Y))
	}
	if len(is.Body.List) != 1 || !strings.Contains(p.Src(is.Body.List[0]), "PortRangeSetCriterion(portSet.RangeSet())") {
		return "", "", "", fmt.Errorf("range-set branch unrecognised: %s", p.Src(is.Body))
	}
	eb, ok := is.Else.(*ast.BlockStmt)
	if !ok || len(eb.List) != 2 || !strings.Contains(p.Src(eb.List[0]), "PortSetCriterion(portSet)") {
		return "", "", "", fmt.Errorf("bit-set branch unrecognised: %s", p.Src(is.Else))
	}
	return single, all, maxr, nil
}
