package main

import (
	"context"
	"encoding/hex"
	"errors"
	"fmt"
	"net/netip"
	"strings"
	"sync"
	"testing"
	"testing/synctest"
	"time"

	"ssvharness/internal/common"

	"github.com/database64128/shadowsocks-go/conn"
	"github.com/database64128/shadowsocks-go/dns"
	"github.com/database64128/shadowsocks-go/netio"
	"go.uber.org/zap"
)

// Engine "dnsconc": CONCURRENT lookups on one resolver with a small bounded cache, under synctest.
// A controller starts lookups (each in its own goroutine), holds their upstream answers and releases
// them in a scripted order; after every step synctest.Wait() lets all goroutines settle, so the
// interleaving of the locked cache probe / unlocked round trip / locked store is the scripted one.
// Compared with the Lean model's two-phase actions (`conc probe` / `conc finish`); the oracle is the
// statement's: every address returned for a name was sent by upstream in an answer to a query for
// that very name.

type ConcStep struct {
	Op   string `json:"op"` // start | release | sleep
	L    int    `json:"l"`  // lookup number (start: defines it; release: refers to it)
	Name string `json:"name,omitempty"`
	Ns   int64  `json:"ns,omitempty"`
	Kind string `json:"kind,omitempty"` // release: ok | fail
	TTL  uint32 `json:"ttl,omitempty"`
}

type ConcCase struct {
	Engine string     `json:"engine"`
	Cap    int        `json:"cap"`
	Steps  []ConcStep `json:"steps"`
}

type relSpec struct {
	kind string
	ttl  uint32
}

type concLookup struct {
	idx      int
	name     string
	start    int64
	dials    int
	release  chan relSpec
	finished bool
	line     string
	a, aaaa  []string
	err      string
	relAt    int64
	rel      relSpec
	badQuery string
}

type heldClient struct {
	mu    sync.Mutex
	epoch time.Time
	cur   *concLookup
	wg    sync.WaitGroup
}

func (c *heldClient) NewStreamDialer() (netio.StreamDialer, netio.StreamDialerInfo) {
	return c, netio.StreamDialerInfo{Name: "c17conc", NativeInitialPayload: true}
}

func concAddrs(l int) ([]byte, []byte) {
	return []byte{10, 77, byte(l >> 8), byte(l)}, []byte{0xfd, 0x77, 0, 0, 0, 0, 0, 0, 0, 0, 0, 0, 0, 0, byte(l >> 8), byte(l)}
}

func (c *heldClient) DialStream(ctx context.Context, addr conn.Addr, payload []byte) (netio.Conn, error) {
	c.mu.Lock()
	l := c.cur
	var qname string
	if qs, err := parseTCPQueries(payload); err != nil || len(qs) == 0 {
		if l != nil {
			l.badQuery = fmt.Sprint("unparsable query: ", err)
		}
	} else {
		qname = strings.TrimSuffix(qs[0].Name, ".")
	}
	if l == nil || qname != l.name {
		c.mu.Unlock()
		return nil, errors.New("dial from an unexpected lookup")
	}
	l.dials++
	n := l.dials
	c.mu.Unlock()
	if n > 1 {
		return nil, errors.New("scripted dial failure (retry)")
	}
	pl, pr := netio.NewPipe()
	c.wg.Add(1)
	go func() {
		defer c.wg.Done()
		defer pr.Close()
		buf := make([]byte, 8192)
		if _, err := pr.Read(buf); err != nil {
			return
		}
		spec := <-l.release
		if spec.kind != "ok" {
			return // clean close without an answer
		}
		a4, a6 := concAddrs(l.idx)
		m4 := buildMsg(l.name, MsgSpec{ID: 4, Resp: true, RA: true, QType: 1, Answers: []RRSpec{{Kind: "A", TTL: spec.ttl, Addr: a4}}})
		m6 := buildMsg(l.name, MsgSpec{ID: 6, Resp: true, RA: true, QType: 28, Answers: []RRSpec{{Kind: "AAAA", TTL: spec.ttl, Addr: a6}}})
		for _, m := range [][]byte{m4, m6} {
			if _, err := pr.Write(append([]byte{byte(len(m) >> 8), byte(len(m))}, m...)); err != nil {
				return
			}
		}
	}()
	if _, err := netio.ConnWriteContext(ctx, pl, payload); err != nil {
		pl.Close()
		return nil, err
	}
	return pl, nil
}

type concObs struct {
	lines   []string // per step
	lookups []*concLookup
	stuck   string
}

func runConcImpl(t *testing.T, c ConcCase) (obs concObs, panicked any) {
	synctest.Test(t, func(t *testing.T) {
		panicked = common.Safely(func() {
			epoch := time.Now()
			cl := &heldClient{epoch: epoch}
			r := dns.NewResolver("c17conc", c.Cap, netip.AddrPortFrom(netip.IPv6Loopback(), 53), cl, nil, zap.NewNop())
			byIdx := map[int]*concLookup{}
			var all []*concLookup
			resLine := func(l *concLookup) string { return l.line }
			for _, st := range c.Steps {
				switch st.Op {
				case "sleep":
					time.Sleep(time.Duration(st.Ns))
					obs.lines = append(obs.lines, "slept")
				case "start":
					if _, dup := byIdx[st.L]; dup {
						obs.lines = append(obs.lines, "noop")
						continue
					}
					l := &concLookup{idx: st.L, name: st.Name, start: int64(time.Since(epoch)), release: make(chan relSpec, 1)}
					byIdx[st.L] = l
					all = append(all, l)
					cl.mu.Lock()
					cl.cur = l
					cl.mu.Unlock()
					go func() {
						res, err := r.Lookup(context.Background(), l.name)
						cl.mu.Lock()
						defer cl.mu.Unlock()
						if err != nil {
							l.err = err.Error()
							l.line = "fail a=- aaaa=- exp=zero"
						} else {
							for a := range res.A() {
								b := a.As4()
								l.a = append(l.a, hex.EncodeToString(b[:]))
							}
							for a := range res.AAAA() {
								b := a.As16()
								l.aaaa = append(l.aaaa, hex.EncodeToString(b[:]))
							}
							l.line = fmt.Sprintf("ok a=%s aaaa=%s exp=%s", showList(l.a), showList(l.aaaa), readExpiry(&res, epoch))
						}
						l.finished = true
					}()
					synctest.Wait()
					cl.mu.Lock()
					if l.finished {
						obs.lines = append(obs.lines, resLine(l))
					} else {
						obs.lines = append(obs.lines, "pending")
					}
					cl.mu.Unlock()
				case "release":
					l := byIdx[st.L]
					cl.mu.Lock()
					ok := l != nil && !l.finished && l.relAt == 0 && l.dials > 0
					if ok {
						l.relAt = int64(time.Since(epoch))
						if l.relAt == 0 {
							l.relAt = 1 // (marks "released"; the instant itself is read from the clock by the model line builder)
						}
						l.rel = relSpec{st.Kind, st.TTL}
						cl.cur = l
					}
					cl.mu.Unlock()
					if !ok {
						obs.lines = append(obs.lines, "noop")
						continue
					}
					l.release <- l.rel
					synctest.Wait()
					cl.mu.Lock()
					if l.finished {
						obs.lines = append(obs.lines, resLine(l))
					} else {
						obs.lines = append(obs.lines, "stuck")
						obs.stuck = fmt.Sprintf("lookup %d (%s) did not return after its upstream answer was released", l.idx, l.name)
					}
					cl.mu.Unlock()
				}
			}
			// let everything still in flight fail so that the bubble can end
			for _, l := range all {
				cl.mu.Lock()
				open := !l.finished && l.relAt == 0
				if open {
					l.relAt = -1
					cl.cur = l
				}
				cl.mu.Unlock()
				if open {
					l.release <- relSpec{kind: "fail"}
					synctest.Wait()
				}
			}
			cl.wg.Wait()
			obs.lookups = all
		})
	})
	return
}

// lines for the Lean driver: the same actions at the same instants.
func (c ConcCase) lines(obs concObs) []string {
	ls := []string{fmt.Sprintf("conc new %d", c.Cap)}
	now := int64(0)
	started := map[int]int64{}
	released := map[int]bool{}
	for _, st := range c.Steps {
		switch st.Op {
		case "sleep":
			now += st.Ns
			ls = append(ls, "lru len") // placeholder keeping one line per step (answer ignored)
		case "start":
			if _, dup := started[st.L]; dup {
				ls = append(ls, "lru len")
				continue
			}
			started[st.L] = now
			ls = append(ls, fmt.Sprintf("conc probe %d %s %d", st.L, st.Name, now))
		case "release":
			t0, ok := started[st.L]
			if !ok || released[st.L] {
				ls = append(ls, "lru len")
				continue
			}
			released[st.L] = true
			var name string
			for _, s2 := range c.Steps {
				if s2.Op == "start" && s2.L == st.L {
					name = s2.Name
					break
				}
			}
			if st.Kind == "ok" {
				a4, a6 := concAddrs(st.L)
				m4 := buildMsg(name, MsgSpec{ID: 4, Resp: true, RA: true, QType: 1, Answers: []RRSpec{{Kind: "A", TTL: st.TTL, Addr: a4}}})
				m6 := buildMsg(name, MsgSpec{ID: 6, Resp: true, RA: true, QType: 28, Answers: []RRSpec{{Kind: "AAAA", TTL: st.TTL, Addr: a6}}})
				ls = append(ls, fmt.Sprintf("conc finish %d C f:%d:%s f:0:%s E:c:0", st.L, now-t0, describe(m4).wireToken(), describe(m6).wireToken()))
			} else {
				ls = append(ls, fmt.Sprintf("conc finish %d C E:c:%d C D", st.L, now-t0))
			}
		}
	}
	return ls
}

func canonConc(s string) string {
	f := strings.Fields(s)
	if len(f) == 4 {
		switch f[0] {
		case "hit", "fresh", "stale":
			f[0] = "ok"
		}
		return strings.Join(f, " ")
	}
	return s
}

// oracle: every address returned for name X was sent by upstream in an answer to a query for X.
func concOracle(c ConcCase, obs concObs) (string, string) {
	if obs.stuck != "" {
		return "conc:lookup-stuck", obs.stuck
	}
	sent := map[string]map[string]bool{}
	for _, l := range obs.lookups {
		if l.badQuery != "" {
			return "conc:bad-query", l.badQuery
		}
		if l.rel.kind == "ok" && l.relAt > 0 {
			a4, a6 := concAddrs(l.idx)
			if sent[l.name] == nil {
				sent[l.name] = map[string]bool{}
			}
			sent[l.name][hex.EncodeToString(a4)] = true
			sent[l.name][hex.EncodeToString(a6)] = true
		}
	}
	for _, l := range obs.lookups {
		for _, a := range append(append([]string{}, l.a...), l.aaaa...) {
			if !sent[l.name][a] {
				owner := "nobody"
				for n, m := range sent {
					if m[a] {
						owner = n
					}
				}
				return "conc:foreign-address", fmt.Sprintf("lookup %d of %s returned %s, an address upstream only ever gave for %s", l.idx, l.name, a, owner)
			}
		}
		if l.rel.kind == "ok" && l.relAt > 0 && l.err != "" {
			return "conc:failure-despite-both-answers", fmt.Sprintf("lookup %d of %s: upstream answered both queries, Lookup reported %s", l.idx, l.name, l.err)
		}
	}
	return "", ""
}

// evictionRace: name A cached and expired; A's refresh in flight; `fill` new names are looked up and
// answered meanwhile (evicting A when fill >= cap); then A's refresh is answered; then every name is
// looked up again.
func evictionRace(capN, fill int, ttlA, ttlB uint32, gap int64) ConcCase {
	c := ConcCase{Engine: "dnsconc", Cap: capN}
	n := 0
	add := func(s ConcStep) { c.Steps = append(c.Steps, s) }
	add(ConcStep{Op: "start", L: n, Name: "a.test"})
	add(ConcStep{Op: "release", L: n, Kind: "ok", TTL: ttlA})
	n++
	add(ConcStep{Op: "sleep", Ns: int64(ttlA)*1e9 + gap})
	refresh := n
	add(ConcStep{Op: "start", L: n, Name: "a.test"})
	n++
	for j := 0; j < fill; j++ {
		add(ConcStep{Op: "start", L: n, Name: fmt.Sprintf("b%d.test", j)})
		add(ConcStep{Op: "release", L: n, Kind: "ok", TTL: ttlB})
		n++
	}
	add(ConcStep{Op: "release", L: refresh, Kind: "ok", TTL: ttlB})
	for j := fill - 1; j >= 0; j-- {
		add(ConcStep{Op: "start", L: n, Name: fmt.Sprintf("b%d.test", j)})
		add(ConcStep{Op: "release", L: n, Kind: "ok", TTL: ttlB})
		n++
	}
	add(ConcStep{Op: "start", L: n, Name: "a.test"})
	add(ConcStep{Op: "release", L: n, Kind: "ok", TTL: ttlB})
	return c
}

func genConcCase(r *common.Rng) ConcCase {
	capN := 1 + r.Intn(3)
	if r.Chance(1, 3) {
		return evictionRace(capN, capN+r.Intn(2)-r.Intn(2)*r.Intn(2), common.Pick(r, []uint32{0, 1, 2}), common.Pick(r, []uint32{1, 5, 60}), common.Pick(r, []int64{1, 1e9}))
	}
	c := ConcCase{Engine: "dnsconc", Cap: capN}
	names := capN + 1 + r.Intn(2)
	n := 0
	var open []int
	slept := int64(0)
	steps := 6 + r.Intn(14)
	for i := 0; i < steps; i++ {
		switch x := r.Intn(10); {
		case x < 4 && len(open) < 5:
			c.Steps = append(c.Steps, ConcStep{Op: "start", L: n, Name: fmt.Sprintf("n%d.test", r.Intn(names))})
			open = append(open, n)
			n++
		case x < 8 && len(open) > 0:
			j := r.Intn(len(open))
			kind := "ok"
			if r.Chance(1, 5) {
				kind = "fail"
			}
			c.Steps = append(c.Steps, ConcStep{Op: "release", L: open[j], Kind: kind, TTL: common.Pick(r, []uint32{0, 1, 1, 2, 5, 60})})
			open = append(open[:j], open[j+1:]...)
		default:
			d := common.Pick(r, []int64{1, 1e9, 1e9 + 1, 2e9, 3e9})
			if slept+d < 18e9 { // every in-flight lookup stays below the 20 s lookup timeout
				slept += d
				c.Steps = append(c.Steps, ConcStep{Op: "sleep", Ns: d})
			}
		}
	}
	return c
}

func evalConcCase(t *testing.T, c ConcCase, o *common.Options, rep *common.Report, drv *common.Driver) error {
	obs, pan := runConcImpl(t, c)
	inflight := 0
	maxInflight := 0
	for _, st := range c.Steps {
		switch st.Op {
		case "start":
			inflight++
		case "release":
			inflight--
		}
		maxInflight = max(maxInflight, inflight)
	}
	rep.Case("conc "+strings.Join(obs.lines, ";"), maxInflight >= 2)
	rep.Count(fmt.Sprintf("conc cap=%d", c.Cap))
	rep.Count(fmt.Sprintf("conc max-in-flight=%d", min(maxInflight, 5)))
	if pan != nil {
		rep.Fail(common.OracleFailure{Engine: "dnsconc", Key: "conc:resolver-panic", Case: c, Detail: fmt.Sprint(pan)})
		return nil
	}
	if drv != nil {
		lines := c.lines(obs)
		mo, err := drv.Batch(lines)
		if err != nil {
			return err
		}
		var impl, model []string
		for i, st := range c.Steps {
			m := mo[i+1]
			im := obs.lines[i]
			if st.Op == "sleep" || strings.HasPrefix(lines[i+1], "lru ") {
				continue
			}
			impl = append(impl, im)
			model = append(model, canonConc(m))
		}
		if strings.Join(impl, "\n") != strings.Join(model, "\n") {
			rep.Diverge(common.Divergence{Engine: "dnsconc", Case: c, Impl: impl, Model: model})
		}
	}
	if k, d := concOracle(c, obs); k != "" {
		rep.Fail(common.OracleFailure{Engine: "dnsconc", Key: k, Case: c, Detail: d})
	}
	rep.TracesValidated++
	return nil
}
