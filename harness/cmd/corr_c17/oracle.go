package main

import (
	"fmt"
	"os"
	"regexp"
	"slices"
	"strconv"
	"strings"
)

// The property oracle for lookup histories, written from the statement of C17 (not from the model):
//
//  * a lookup returns only A/AAAA addresses contained in responses (QR=1, usable) to its own two
//    queries; when both queries were answered it does not report failure, and when they were not it
//    reports failure or serves the entry it had;
//  * a cached result is reused only until the smallest TTL (or the failure caching time, or, when
//    only that applies, the negative caching time) has elapsed; afterwards upstream is asked again;
//    it is not asked before any of those instants;
//  * a stale entry is served only if asking upstream failed;
//  * malformed responses do not crash the resolver and do not leak into later results.
//
// What upstream actually delivered (bytes, receive instants) is ground truth recorded by the fake
// server. Where the statement leaves room (which of two duplicate responses is "the" answer, a
// malformed authority section) the oracle accepts every reading.

var failureCachingNs = int64(30e9)

func init() {
	// the failure caching time is a number of the implementation (RFC 9520 allows 1 s .. 5 min)
	repo := os.Getenv("VERIF_REPO")
	if repo == "" {
		repo = "/repo"
	}
	b, err := os.ReadFile(repo + "/dns/dns.go")
	if err != nil {
		return
	}
	if m := regexp.MustCompile(`rcodeFailureCachingDuration\s*=\s*(\d+)\s*\*\s*time\.Second`).FindSubmatch(b); m != nil {
		if n, err := strconv.Atoi(string(m[1])); err == nil && n >= 1 && n <= 300 {
			failureCachingNs = int64(n) * 1e9
		}
	}
}

type oEntry struct {
	addrs      string // canonical a|aaaa as returned when populated
	lo, hi     int64
	failBound  int64 // >0: a used response had a failure rcode; the latest recv + failure caching time
	populateAt int
}

type oracleFail struct{ key, detail string }

func addrsKey(o *lookupObs) string { return showList(o.A) + "|" + showList(o.AAAA) }

func oracleDNS(c DNSCase, obs []*lookupObs) []oracleFail {
	var fails []oracleFail
	fail := func(key, format string, a ...any) {
		fails = append(fails, oracleFail{key, fmt.Sprintf(format, a...)})
	}
	capN := c.Cap
	if capN <= 0 {
		capN = int(^uint(0) >> 1)
	}
	entries := map[string]*oEntry{}
	var order []string // least recently used first
	touch := func(name string) {
		if i := slices.Index(order, name); i >= 0 {
			order = append(append(order[:i:i], order[i+1:]...), name)
		}
	}
	for i, o := range obs {
		l := c.Lookups[i]
		name := l.Name
		e := entries[name]
		touch(name)
		contacted := len(o.Dials) > 0
		if o.BadQuery != "" {
			fail("bad-query", "lookup %d: a query written upstream does not parse: %s", i, o.BadQuery)
		}
		for _, d := range o.Dials {
			for _, q := range d {
				okType := (q.ID == 4 && q.Type == 1) || (q.ID == 6 && q.Type == 28)
				if !okType || q.Name != name+"." || !q.RD {
					fail("bad-query", "lookup %d (%s): unexpected query id=%d type=%d name=%s rd=%v", i, name, q.ID, q.Type, q.Name, q.RD)
				}
			}
		}
		if e != nil {
			if contacted && o.Start < e.lo {
				fail("requery-before-ttl", "lookup %d (%s) at %d ns asked upstream although every TTL of the cached entry (lookup %d) runs until at least %d ns", i, name, o.Start, e.populateAt, e.lo)
			}
			if !contacted && o.Start > e.hi {
				key := "reuse-after-expiry"
				if e.failBound > e.hi && o.Start <= e.failBound {
					key = "F11:servfail-overrides-smaller-ttl"
				}
				fail(key, "lookup %d (%s) at %d ns was served from the cache without asking upstream, but the smallest TTL of the entry (lookup %d) ran out at %d ns", i, name, o.Start, e.populateAt, e.hi)
			}
		}
		if !contacted {
			switch {
			case e == nil:
				fail("answer-from-nowhere", "lookup %d (%s): no cached entry and upstream not asked; result err=%q %s", i, name, o.Err, addrsKey(o))
			case o.Err != "":
				fail("cached-result-altered", "lookup %d (%s): cache hit reported an error: %s", i, name, o.Err)
			case addrsKey(o) != e.addrs:
				fail("cached-result-altered", "lookup %d (%s): cache hit returned %s, entry was %s", i, name, addrsKey(o), e.addrs)
			}
			continue
		}
		// ---- upstream was asked: what did it deliver? ----
		type umsg struct {
			d        Desc
			recv     int64
			accepted bool
		}
		var ms []umsg
		ambiguous := false
		universe := map[string]bool{}
		var used [2]*umsg // family 4, family 6
		var allBounds, usedBounds []int64
		usedHasAnyBound := false
		failBound := int64(0)
		for _, dv := range o.Delivered {
			d := describe(dv.Msg)
			if d.Garbage || (d.ID != 4 && d.ID != 6) {
				continue
			}
			m := umsg{d: d, recv: dv.Recv}
			m.accepted = d.Resp && d.RA && d.RCode >= 0 && d.RCode <= 5 && d.QOk && d.AnsEnd == "d"
			fam := 0
			if d.ID == 6 {
				fam = 1
			}
			if used[fam] != nil {
				continue // a duplicate after the answer: nothing the resolver may use any more
			}
			for _, b := range ttlBounds([]delivered{dv}) {
				allBounds = append(allBounds, b)
			}
			if d.AnsEnd == "b" {
				allBounds = append(allBounds, dv.Recv+int64(d.AnsEndTT)*1e9)
			}
			if d.AuthEnd == "s" && d.AuthEndS {
				allBounds = append(allBounds, dv.Recv+int64(d.AuthEndT)*1e9)
			}
			if m.accepted {
				if d.AuthEnd != "d" {
					ambiguous = true // whether the authority section is looked at is not the statement's business
				}
				for _, a := range d.Answers {
					if a.Type == 1 || a.Type == 28 {
						universe[a.Addr] = true
					}
				}
				ms = append(ms, m)
				if d.AuthEnd == "d" { // over TCP a truncated response is still the answer
					mm := m
					used[fam] = &mm
					for _, a := range d.Answers {
						usedBounds = append(usedBounds, dv.Recv+int64(a.TTL)*1e9)
						usedHasAnyBound = true
					}
					if isFailureRCode(d.RCode) {
						usedBounds = append(usedBounds, dv.Recv+failureCachingNs)
						usedHasAnyBound = true
						failBound = max(failBound, dv.Recv+failureCachingNs)
					}
					for _, a := range d.Auths {
						if a.SOA {
							usedHasAnyBound = true
						}
					}
				}
			}
		}
		usedBoth := used[0] != nil && used[1] != nil
		populated := false
		switch {
		case ambiguous:
			// accept either outcome; after a success the oracle no longer knows which TTLs the entry
			// carries (fresh or stale): its bounds are opened completely below
			populated = o.Err == ""
			for _, a := range append(append([]string{}, o.A...), o.AAAA...) {
				if !universe[a] && (e == nil || !strings.Contains(e.addrs, a)) {
					fail("foreign-address", "lookup %d (%s): returned address %s is in no usable response to this lookup's queries", i, name, a)
				}
			}
		case usedBoth:
			if o.Err != "" {
				fail("failure-despite-both-answers", "lookup %d (%s): upstream answered both queries, Lookup reported %q", i, name, o.Err)
				break
			}
			populated = true
			for _, a := range append(append([]string{}, o.A...), o.AAAA...) {
				if !universe[a] {
					key := "foreign-address"
					if e != nil && strings.Contains(e.addrs, a) {
						key = "stale-despite-success"
					}
					fail(key, "lookup %d (%s): returned address %s is in no usable response to this lookup's queries", i, name, a)
				}
			}
			// exactness on tidy exchanges: exactly two relevant responses, A records only under id 4, AAAA only under id 6
			if len(ms) == 2 {
				var wa, w6 []string
				tidy := true
				for _, a := range used[0].d.Answers {
					if a.Type == 1 {
						wa = append(wa, a.Addr)
					} else if a.Type == 28 {
						tidy = false
					}
				}
				for _, a := range used[1].d.Answers {
					if a.Type == 28 {
						w6 = append(w6, a.Addr)
					} else if a.Type == 1 {
						tidy = false
					}
				}
				if tidy && (showList(wa) != showList(o.A) || showList(w6) != showList(o.AAAA)) {
					fail("answers-not-returned", "lookup %d (%s): upstream answered A=%s AAAA=%s, Lookup returned %s", i, name, showList(wa), showList(w6), addrsKey(o))
				}
			}
		default: // upstream did not answer both queries
			switch {
			case o.Err == "":
				if e == nil {
					fail("success-without-both-answers", "lookup %d (%s): upstream did not answer both queries and nothing was cached, Lookup returned %s", i, name, addrsKey(o))
				} else if addrsKey(o) != e.addrs {
					fail("fresh-result-without-both-answers", "lookup %d (%s): upstream did not answer both queries; Lookup returned %s, the cached entry was %s", i, name, addrsKey(o), e.addrs)
				}
			}
		}
		if populated {
			ne := &oEntry{addrs: addrsKey(o), populateAt: i}
			switch {
			case ambiguous:
				ne.lo, ne.hi = 0, 1<<62
			default:
				if len(usedBounds) > 0 {
					ne.hi = slices.Min(usedBounds)
				} else if len(allBounds) > 0 {
					ne.hi = slices.Max(allBounds)
				} else {
					ne.hi = 0
				}
				if usedHasAnyBound && len(allBounds) > 0 {
					ne.lo = slices.Min(allBounds)
				}
				ne.failBound = failBound
			}
			if e == nil {
				if len(order) == capN {
					delete(entries, order[0])
					order = order[1:]
				}
				order = append(order, name)
			}
			entries[name] = ne
		}
	}
	return fails
}
