package main

import (
	"encoding/hex"
	"fmt"
	"strings"

	"golang.org/x/net/dns/dnsmessage"
)

// Desc is the harness-side description of a received byte string: the outcomes of the
// dnsmessage.Parser calls a response parser makes on it (header, questions, answer records
// with type/TTL/address, authority records), up to the first error. It is computed with the
// real parser and handed to the Lean model (`Wire`) and to the property oracle.
type Desc struct {
	Garbage  bool
	ID       uint16
	Resp     bool
	RA       bool
	TC       bool
	RCode    int
	QOk      bool
	Answers  []DAns
	AnsEnd   string // d | h | b
	AnsEndTT uint32
	Auths    []DAuth
	AuthEnd  string // d | h | s
	AuthEndS bool
	AuthEndT uint32
}

type DAns struct {
	Type uint16
	TTL  uint32
	Addr string // hex of the address for A/AAAA, "-" otherwise
}

type DAuth struct {
	SOA bool
	TTL uint32
}

func describe(msg []byte) Desc {
	var p dnsmessage.Parser
	h, err := p.Start(msg)
	if err != nil {
		return Desc{Garbage: true}
	}
	d := Desc{ID: h.ID, Resp: h.Response, RA: h.RecursionAvailable, TC: h.Truncated, RCode: int(h.RCode), AnsEnd: "d", AuthEnd: "d"}
	if err := p.SkipAllQuestions(); err != nil {
		return d
	}
	d.QOk = true
	for {
		ah, err := p.AnswerHeader()
		if err != nil {
			if err == dnsmessage.ErrSectionDone {
				break
			}
			d.AnsEnd = "h"
			return d
		}
		switch ah.Type {
		case dnsmessage.TypeA:
			r, err := p.AResource()
			if err != nil {
				d.AnsEnd, d.AnsEndTT = "b", ah.TTL
				return d
			}
			d.Answers = append(d.Answers, DAns{uint16(ah.Type), ah.TTL, hex.EncodeToString(r.A[:])})
		case dnsmessage.TypeAAAA:
			r, err := p.AAAAResource()
			if err != nil {
				d.AnsEnd, d.AnsEndTT = "b", ah.TTL
				return d
			}
			d.Answers = append(d.Answers, DAns{uint16(ah.Type), ah.TTL, hex.EncodeToString(r.AAAA[:])})
		default:
			if err := p.SkipAnswer(); err != nil {
				d.AnsEnd, d.AnsEndTT = "b", ah.TTL
				return d
			}
			d.Answers = append(d.Answers, DAns{uint16(ah.Type), ah.TTL, "-"})
		}
	}
	for {
		ah, err := p.AuthorityHeader()
		if err != nil {
			if err == dnsmessage.ErrSectionDone {
				break
			}
			d.AuthEnd = "h"
			return d
		}
		if err := p.SkipAuthority(); err != nil {
			d.AuthEnd, d.AuthEndS, d.AuthEndT = "s", ah.Type == dnsmessage.TypeSOA, ah.TTL
			return d
		}
		d.Auths = append(d.Auths, DAuth{ah.Type == dnsmessage.TypeSOA, ah.TTL})
	}
	return d
}

func b01(b bool) string {
	if b {
		return "1"
	}
	return "0"
}

// wireToken renders the description in the driver's line protocol.
func (d Desc) wireToken() string {
	if d.Garbage {
		return "g"
	}
	ans := "-"
	if len(d.Answers) > 0 {
		var xs []string
		for _, a := range d.Answers {
			xs = append(xs, fmt.Sprintf("%d,%d,%s", a.Type, a.TTL, a.Addr))
		}
		ans = strings.Join(xs, ";")
	}
	ae := d.AnsEnd
	if ae == "b" {
		ae = fmt.Sprintf("b,%d", d.AnsEndTT)
	}
	au := "-"
	if len(d.Auths) > 0 {
		var xs []string
		for _, a := range d.Auths {
			xs = append(xs, fmt.Sprintf("%s,%d", b01(a.SOA), a.TTL))
		}
		au = strings.Join(xs, ";")
	}
	aue := d.AuthEnd
	if aue == "s" {
		aue = fmt.Sprintf("s,%s,%d", b01(d.AuthEndS), d.AuthEndT)
	}
	return fmt.Sprintf("m/%d/%s/%s/%s/%d/%s/%s/%s/%s/%s", d.ID, b01(d.Resp), b01(d.RA), b01(d.TC), d.RCode, b01(d.QOk), ans, ae, au, aue)
}

// ---------- message construction ----------

type RRSpec struct {
	Kind string // A | AAAA | CNAME | TXT | BADA (type A with 5 data bytes) | SOA | NS
	TTL  uint32
	Addr []byte
}

type MsgSpec struct {
	ID      uint16
	Resp    bool
	RA      bool
	TC      bool
	RCode   int
	QType   dnsmessage.Type
	NoQ     bool
	Answers []RRSpec
	Auth    []RRSpec
	Extra   bool // an OPT record in the additional section
}

func buildMsg(name string, s MsgSpec) []byte {
	n := dnsmessage.MustNewName(name + ".")
	m := dnsmessage.Message{Header: dnsmessage.Header{ID: s.ID, Response: s.Resp, RecursionDesired: true, RecursionAvailable: s.RA, Truncated: s.TC, RCode: dnsmessage.RCode(s.RCode)}}
	if !s.NoQ {
		m.Questions = []dnsmessage.Question{{Name: n, Type: s.QType, Class: dnsmessage.ClassINET}}
	}
	mk := func(r RRSpec) dnsmessage.Resource {
		h := dnsmessage.ResourceHeader{Name: n, Class: dnsmessage.ClassINET, TTL: r.TTL}
		switch r.Kind {
		case "A":
			var a [4]byte
			copy(a[:], r.Addr)
			return dnsmessage.Resource{Header: h, Body: &dnsmessage.AResource{A: a}}
		case "AAAA":
			var a [16]byte
			copy(a[:], r.Addr)
			return dnsmessage.Resource{Header: h, Body: &dnsmessage.AAAAResource{AAAA: a}}
		case "CNAME":
			return dnsmessage.Resource{Header: h, Body: &dnsmessage.CNAMEResource{CNAME: dnsmessage.MustNewName("alias.test.")}}
		case "BADA":
			return dnsmessage.Resource{Header: h, Body: &dnsmessage.UnknownResource{Type: dnsmessage.TypeA, Data: []byte{1, 2, 3, 4, 5}}}
		case "BADAAAA":
			return dnsmessage.Resource{Header: h, Body: &dnsmessage.UnknownResource{Type: dnsmessage.TypeAAAA, Data: []byte{1, 2, 3, 4}}}
		case "SOA":
			return dnsmessage.Resource{Header: h, Body: &dnsmessage.SOAResource{NS: dnsmessage.MustNewName("ns.test."), MBox: dnsmessage.MustNewName("m.test."), Serial: 1, Refresh: 2, Retry: 3, Expire: 4, MinTTL: 77}}
		case "NS":
			return dnsmessage.Resource{Header: h, Body: &dnsmessage.NSResource{NS: dnsmessage.MustNewName("ns.test.")}}
		default:
			return dnsmessage.Resource{Header: h, Body: &dnsmessage.TXTResource{TXT: []string{"x"}}}
		}
	}
	for _, r := range s.Answers {
		m.Answers = append(m.Answers, mk(r))
	}
	for _, r := range s.Auth {
		m.Authorities = append(m.Authorities, mk(r))
	}
	if s.Extra {
		var rh dnsmessage.ResourceHeader
		_ = rh.SetEDNS0(1232, dnsmessage.RCodeSuccess, false)
		m.Additionals = []dnsmessage.Resource{{Header: rh, Body: &dnsmessage.OPTResource{}}}
	}
	b, err := m.Pack()
	if err != nil {
		panic(err)
	}
	return b
}

// parseQueries splits a TCP payload (length-prefixed) or takes one datagram and returns, per query,
// "4"/"6"-style tokens derived from the *question type* (A -> id of the A query ...), plus any defect.
type seenQuery struct {
	ID   uint16
	Type dnsmessage.Type
	Name string
	RD   bool
}

func parseQueryMsg(b []byte) (seenQuery, error) {
	var m dnsmessage.Message
	if err := m.Unpack(b); err != nil {
		return seenQuery{}, err
	}
	if len(m.Questions) != 1 || m.Response {
		return seenQuery{}, fmt.Errorf("query with %d questions / response bit %v", len(m.Questions), m.Response)
	}
	return seenQuery{m.ID, m.Questions[0].Type, m.Questions[0].Name.String(), m.RecursionDesired}, nil
}

func parseTCPQueries(b []byte) ([]seenQuery, error) {
	var qs []seenQuery
	for len(b) > 0 {
		if len(b) < 2 {
			return qs, fmt.Errorf("dangling byte in query stream")
		}
		n := int(b[0])<<8 | int(b[1])
		if len(b) < 2+n {
			return qs, fmt.Errorf("short query frame")
		}
		q, err := parseQueryMsg(b[2 : 2+n])
		if err != nil {
			return qs, err
		}
		qs = append(qs, q)
		b = b[2+n:]
	}
	return qs, nil
}
