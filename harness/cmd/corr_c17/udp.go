package main

import (
	"ssvharness/internal/common"
)

// placeholder until the real-time UDP engine is written
type UDPCase struct {
	Engine string `json:"engine"`
}

func genUDPCase(r *common.Rng) UDPCase { return UDPCase{Engine: "dnsudp"} }

func evalUDPCase(c UDPCase, o *common.Options, rep *common.Report, drv *common.Driver) error {
	return nil
}
