package main

import (
	"context"
	"encoding/hex"
	"fmt"
	"net"
	"net/netip"
	"strings"
	"sync"
	"time"

	"ssvharness/internal/common"

	"github.com/database64128/shadowsocks-go/conn"
	"github.com/database64128/shadowsocks-go/direct"
	"github.com/database64128/shadowsocks-go/dns"
	"go.uber.org/zap"
)

// Engine "dnsudp": the UDP path of the resolver on loopback, in real time. A fake server owns two
// sockets: the configured server address and another one ("wrong source"). When it has seen both
// queries it sends the scripted datagrams in order, from either socket. Scripts are built so that
// the receive loop either ends by itself (both answered / truncated / unusable response: class A,
// generous 8 s context) or cannot end but by the timeout (only wrong-source datagrams and at most one
// family answered: class B, 1.5 s context; class C = the real 20 s lookup timeout, thorough tier).
// Compared with the model: ok/fail, addresses, and which queries each TCP attempt carried. A
// mismatch is re-run once before it counts (real time).

type UDPEvSpec struct {
	From string `json:"from"` // server | other
	Hex  string `json:"hex"`
}

type UDPCase struct {
	Engine    string      `json:"engine"`
	Class     string      `json:"class"` // A | B | C
	Name      string      `json:"name"`
	Events    []UDPEvSpec `json:"events"`
	Conns     []ConnSpec  `json:"conns"`
	TimeoutMs int         `json:"timeout_ms"`
	Starved   bool        `json:"starved,omitempty"` // the directed "UDP silent for the whole lookupTimeout, TCP answers" case
}

type udpObs struct {
	line     string
	a, aaaa  []string
	queries  []seenQuery
	badQuery string
}

func runUDPImpl(c UDPCase) (o udpObs, panicked any) {
	panicked = common.Safely(func() {
		s1, err := net.ListenUDP("udp4", &net.UDPAddr{IP: net.IPv4(127, 0, 0, 1)})
		if err != nil {
			panic(err)
		}
		defer s1.Close()
		s2, err := net.ListenUDP("udp4", &net.UDPAddr{IP: net.IPv4(127, 0, 0, 1)})
		if err != nil {
			panic(err)
		}
		defer s2.Close()
		var mu sync.Mutex
		var wg sync.WaitGroup
		wg.Add(1)
		go func() {
			defer wg.Done()
			buf := make([]byte, 4096)
			seen := map[uint16]bool{}
			var client *net.UDPAddr
			s1.SetReadDeadline(time.Now().Add(3 * time.Second))
			for !(seen[4] && seen[6]) {
				n, addr, err := s1.ReadFromUDP(buf)
				if err != nil {
					break
				}
				q, err := parseQueryMsg(buf[:n])
				mu.Lock()
				if err != nil {
					o.badQuery = err.Error()
				} else if !seen[q.ID] {
					o.queries = append(o.queries, q)
				}
				mu.Unlock()
				seen[q.ID] = true
				client = addr
			}
			if client == nil {
				return
			}
			for _, ev := range c.Events {
				b, _ := hex.DecodeString(ev.Hex)
				if ev.From == "server" {
					s1.WriteToUDP(b, client)
				} else {
					s2.WriteToUDP(b, client)
				}
				time.Sleep(2 * time.Millisecond)
			}
			s1.SetReadDeadline(time.Time{})
			for { // swallow resends until the socket is closed
				if _, _, err := s1.ReadFromUDP(buf); err != nil {
					return
				}
			}
		}()
		lobs := &lookupObs{}
		tcp := &scriptClient{epoch: time.Now(), conns: c.Conns, obs: lobs}
		udpClient := direct.NewDirectUDPClient("c17udp", "ip", 1500, conn.DefaultUDPClientListenConfig)
		server := s1.LocalAddr().(*net.UDPAddr).AddrPort()
		server = netip.AddrPortFrom(server.Addr().Unmap(), server.Port())
		r := dns.NewResolver("c17udp", 4, server, tcp, udpClient, zap.NewNop())
		ctx := context.Background()
		if c.TimeoutMs > 0 {
			var cancel context.CancelFunc
			ctx, cancel = context.WithTimeout(ctx, time.Duration(c.TimeoutMs)*time.Millisecond)
			defer cancel()
		}
		res, err := r.Lookup(ctx, c.Name)
		s1.Close()
		s2.Close()
		wg.Wait()
		tcp.wg.Wait()
		st := "ok"
		if err != nil {
			st = "fail"
		} else {
			for a := range res.A() {
				b := a.As4()
				o.a = append(o.a, hex.EncodeToString(b[:]))
			}
			for a := range res.AAAA() {
				b := a.As16()
				o.aaaa = append(o.aaaa, hex.EncodeToString(b[:]))
			}
		}
		q := "-"
		tcp.mu.Lock()
		if len(lobs.Dials) > 0 {
			var xs []string
			for _, d := range lobs.Dials {
				s := ""
				for _, x := range d {
					s += fmt.Sprint(x.ID)
				}
				xs = append(xs, s)
			}
			q = strings.Join(xs, "/")
		}
		if lobs.BadQuery != "" {
			o.badQuery = lobs.BadQuery
		}
		tcp.mu.Unlock()
		o.line = fmt.Sprintf("%s a=%s aaaa=%s q=%s", st, showList(o.a), showList(o.aaaa), q)
	})
	return
}

func (c UDPCase) modelLines() []string {
	var sb strings.Builder
	fmt.Fprintf(&sb, "dns lookup 0 %s", c.Name)
	for _, ev := range c.Events {
		b, _ := hex.DecodeString(ev.Hex)
		from := "0"
		if ev.From == "server" {
			from = "1"
		}
		fmt.Fprintf(&sb, " ud:0:%s:%s", from, describe(b).wireToken())
	}
	sb.WriteString(" us")
	if c.Class == "B" {
		sb.WriteString(" C D") // the context has expired when TCP is tried: the dial fails
	} else {
		dc := DNSCase{Lookups: []LookupSpec{{Name: c.Name, Conns: c.Conns}}}
		l := dc.lines(nil)[1]
		if i := strings.Index(l, " C"); i >= 0 {
			sb.WriteString(l[i:])
		}
	}
	return []string{"dns new 4 1 1", sb.String()}
}

func canonUDPModel(s string) string {
	f := strings.Fields(s)
	if len(f) < 6 {
		return s
	}
	switch f[0] {
	case "hit", "fresh", "stale":
		f[0] = "ok"
	}
	return strings.Join([]string{f[0], f[1], f[2], f[5]}, " ")
}

func genUDPCase(r *common.Rng, class string) UDPCase {
	g := &genCtx{r: r, name: "u.test"}
	c := UDPCase{Engine: "dnsudp", Class: class, Name: g.name}
	f1, f2 := uint16(4), uint16(6)
	if r.Bool() {
		f1, f2 = 6, 4
	}
	ev := func(from string, b []byte) { c.Events = append(c.Events, UDPEvSpec{from, hex.EncodeToString(b)}) }
	wrong := func() {
		for n := r.Intn(3); n > 0; n-- {
			if r.Chance(2, 3) {
				ev("other", g.goodMsg(common.Pick(r, []uint16{4, 6}))) // a perfectly valid answer, from the wrong address
			} else {
				ev("other", g.oddMsg())
			}
		}
	}
	rejected := func(fam uint16) []byte { // rejected by any resolver while family `fam` is open
		s := MsgSpec{ID: fam, Resp: true, RA: true, QType: 1, Answers: g.answers(fam, false)}
		if fam == 6 {
			s.QType = 28
		}
		switch r.Intn(6) {
		case 0:
			s.ID = common.Pick(r, []uint16{0, 5, 7, 0x0400, 65535})
		case 1:
			s.Resp = false
		case 2:
			s.RA = false
		case 3:
			s.RCode = common.Pick(r, []int{6, 9, 15})
		case 4:
			return r.Bytes(common.Pick(r, []int{1, 5, 11}))
		default:
			b := buildMsg(g.name, s)
			return b[:12+r.Intn(8)] // header only / cut inside the question
		}
		return buildMsg(g.name, s)
	}
	truncated := func(fam uint16) []byte {
		s := MsgSpec{ID: fam, Resp: true, RA: true, TC: true, QType: 1, Answers: g.answers(fam, false)}
		if fam == 6 {
			s.QType = 28
		}
		return buildMsg(g.name, s)
	}
	wrong()
	first := r.Chance(2, 3)
	if first {
		ev("server", g.goodMsg(f1))
		wrong()
	}
	tcpOK := []ConnSpec{{Frames: []FrameSpec{{Hex: hex.EncodeToString(g.goodMsg(4))}, {Hex: hex.EncodeToString(g.goodMsg(6))}}, End: "close"}}
	switch class {
	case "A":
		c.TimeoutMs = 8000
		switch r.Intn(3) {
		case 0:
			if !first {
				ev("server", g.goodMsg(f1))
			}
			ev("server", g.goodMsg(f2)) // done over UDP
			c.Conns = tcpOK
		case 1:
			ev("server", truncated(f2))
			c.Conns = tcpOK
		default:
			ev("server", rejected(f2))
			c.Conns = tcpOK
		}
		if r.Chance(1, 5) {
			c.Conns = []ConnSpec{{DialFail: true}}
		}
		wrong() // after the loop has ended: never seen
	case "B":
		c.TimeoutMs = 1500
	case "C":
		c.Conns = tcpOK
	}
	return c
}

// starvedCase: upstream is silent over UDP for the WHOLE lookup timeout (only a valid answer from a
// wrong source address shows up), TCP answers both queries; the caller sets no deadline.
func starvedCase() UDPCase {
	g := &genCtx{name: "starved.test"}
	c := UDPCase{Engine: "dnsudp", Class: "C", Name: g.name, Starved: true}
	wrong := buildMsg(g.name, MsgSpec{ID: 4, Resp: true, RA: true, QType: 1, Answers: []RRSpec{{Kind: "A", TTL: 60, Addr: g.addr4()}}})
	c.Events = []UDPEvSpec{{From: "other", Hex: hex.EncodeToString(wrong)}}
	a := buildMsg(g.name, MsgSpec{ID: 4, Resp: true, RA: true, QType: 1, Answers: []RRSpec{{Kind: "A", TTL: 60, Addr: g.addr4()}}})
	b := buildMsg(g.name, MsgSpec{ID: 6, Resp: true, RA: true, QType: 28, Answers: []RRSpec{{Kind: "AAAA", TTL: 60, Addr: g.addr6()}}})
	c.Conns = []ConnSpec{{Frames: []FrameSpec{{Hex: hex.EncodeToString(a)}, {Hex: hex.EncodeToString(b)}}, End: "close"}}
	return c
}

func evalUDPCase(c UDPCase, o *common.Options, rep *common.Report, drv *common.Driver) error {
	return evalUDPCases([]UDPCase{c}, o, rep, drv)
}

// evalUDPCases: model answers first (one driver), implementations in parallel (real time), report in order.
func evalUDPCases(cases []UDPCase, o *common.Options, rep *common.Report, drv *common.Driver) error {
	models := make([]string, len(cases))
	if drv != nil {
		for i, c := range cases {
			mo, err := drv.Batch(c.modelLines())
			if err != nil {
				return err
			}
			models[i] = canonUDPModel(mo[1])
		}
	}
	obss := make([]udpObs, len(cases))
	pans := make([]any, len(cases))
	sem := make(chan struct{}, 8)
	var wg sync.WaitGroup
	for i := range cases {
		wg.Add(1)
		sem <- struct{}{}
		go func(i int) {
			defer wg.Done()
			defer func() { <-sem }()
			for attempt := 0; attempt < 2; attempt++ {
				obss[i], pans[i] = runUDPImpl(cases[i])
				if pans[i] != nil || models[i] == "" || obss[i].line == models[i] {
					break
				}
			}
		}(i)
	}
	wg.Wait()
	for i, c := range cases {
		reportUDP(c, obss[i], pans[i], models[i], rep)
	}
	return nil
}

func reportUDP(c UDPCase, obs udpObs, pan any, model string, rep *common.Report) {
	rep.Case("udp "+obs.line+" "+fmt.Sprint(len(c.Events)), true)
	rep.Count("udp class=" + c.Class)
	if pan != nil {
		rep.Fail(common.OracleFailure{Engine: "dnsudp", Key: "udp:resolver-panic", Case: c, Detail: fmt.Sprint(pan)})
		return
	}
	if model != "" && obs.line != model {
		rep.Diverge(common.Divergence{Engine: "dnsudp", Case: c, Impl: obs.line, Model: model, Note: "twice in a row"})
	}
	// oracle: addresses only from datagrams of the configured server (ids 4/6, responses) or the TCP frames
	legit, wrongOnly := map[string]bool{}, map[string]bool{}
	collect := func(b []byte, into map[string]bool) {
		d := describe(b)
		if d.Garbage || (d.ID != 4 && d.ID != 6) || !d.Resp {
			return
		}
		for _, a := range d.Answers {
			if a.Type == 1 || a.Type == 28 {
				into[a.Addr] = true
			}
		}
	}
	for _, ev := range c.Events {
		b, _ := hex.DecodeString(ev.Hex)
		if ev.From == "server" {
			collect(b, legit)
		} else {
			collect(b, wrongOnly)
		}
	}
	for _, cs := range c.Conns {
		for _, f := range cs.Frames {
			b, _ := hex.DecodeString(f.Hex)
			collect(b, legit)
		}
	}
	for _, a := range append(append([]string{}, obs.a...), obs.aaaa...) {
		if !legit[a] {
			key := "udp:foreign-address"
			if wrongOnly[a] {
				key = "udp:wrong-source-used"
			}
			rep.Fail(common.OracleFailure{Engine: "dnsudp", Key: key, Case: c, Detail: fmt.Sprintf("returned address %s never came from the configured server: %s", a, obs.line)})
			break
		}
	}
	// whenever UDP was truncated / unusable / unanswered and the TCP upstream answers both queries, the lookup succeeds
	if (c.Class == "A" || c.Class == "C") && len(c.Conns) == 1 && !c.Conns[0].DialFail && strings.HasPrefix(obs.line, "fail") {
		key := "udp:failure-despite-answers"
		if c.Class == "C" {
			key = "tcp-fallback-starved-after-udp-timeout"
		}
		rep.Fail(common.OracleFailure{Engine: "dnsudp", Key: key, Case: c, Detail: "upstream answers both queries (over UDP, or over TCP after a truncated/unusable/missing UDP answer), Lookup failed: " + obs.line})
	}
	if obs.badQuery != "" {
		rep.Fail(common.OracleFailure{Engine: "dnsudp", Key: "udp:bad-query", Case: c, Detail: obs.badQuery})
	}
	for _, q := range obs.queries {
		if !((q.ID == 4 && q.Type == 1) || (q.ID == 6 && q.Type == 28)) || q.Name != c.Name+"." || !q.RD {
			rep.Fail(common.OracleFailure{Engine: "dnsudp", Key: "udp:bad-query", Case: c, Detail: fmt.Sprintf("unexpected UDP query %+v", q)})
		}
	}
	rep.TracesValidated++
}
