// corr_c17: correspondence + property oracle for C17 (DNS resolver and its LRU cache).
//
// Engines:
//
//	lru        cache.BoundedCache vs the pointer-level Lean model (SSV.Model.Lru) vs a reference map
//	dnslookup  dns.Resolver with a scripted TCP upstream over netio.NewPipe under testing/synctest
//	           (fake clock) vs SSV.Model.Dns vs the statement oracle (oracle.go)
//	dnsconc    concurrent lookups with held upstream answers under synctest vs the two-phase Lean model
//	dnsudp     the UDP path on loopback in real time (wrong source, wrong id, silence, truncation -> TCP)
package main

import (
	"encoding/json"
	"fmt"
	"os"
	"strings"
	"testing"

	"ssvharness/internal/common"
)

func evalDNSCase(t *testing.T, c DNSCase, o *common.Options, rep *common.Report, drv *common.Driver) error {
	obs, pan := runDNSImpl(t, c)
	nOK, nFail, nHit := 0, 0, 0
	var impl []string
	for _, ob := range obs {
		impl = append(impl, ob.line())
		if ob.Err != "" {
			nFail++
		} else if len(ob.Dials) == 0 {
			nHit++
		} else {
			nOK++
		}
	}
	rep.Case("dns "+strings.Join(impl, ";"), nOK > 0 && (nHit > 0 || nFail > 0))
	rep.Count(fmt.Sprintf("dns cap=%d", c.Cap))
	for _, ob := range obs {
		switch {
		case ob.Err != "":
			rep.Count("dns lookup=fail")
		case len(ob.Dials) == 0:
			rep.Count("dns lookup=cache-hit")
		case len(ob.Dials) == 1:
			rep.Count("dns lookup=upstream-1-conn")
		default:
			rep.Count("dns lookup=upstream-2-conns")
		}
	}
	if len(rep.Samples) < 5 {
		rep.Sample(map[string]any{"engine": "dnslookup", "cap": c.Cap, "lookups": len(c.Lookups), "impl": impl})
	}
	if pan != nil {
		rep.Fail(common.OracleFailure{Engine: "dnslookup", Key: "resolver-panic", Case: c, Detail: fmt.Sprint(pan)})
		return nil
	}
	if len(obs) != len(c.Lookups) {
		rep.Fail(common.OracleFailure{Engine: "dnslookup", Key: "resolver-stuck", Case: c, Detail: fmt.Sprintf("only %d of %d lookups returned", len(obs), len(c.Lookups))})
		return nil
	}
	if drv != nil {
		lines := c.lines(obs)
		mo, err := drv.Batch(lines)
		if err != nil {
			return err
		}
		var model []string
		for _, m := range mo[1:] {
			model = append(model, canonModel(m))
		}
		cmpImpl := impl
		if strings.Contains(strings.Join(impl, " "), "exp=?") { // the expiry field could not be read: compare without it
			rep.Note("dns.Result.expiresAt not readable: expiry compared through behaviour only")
			strip := func(xs []string) []string {
				var r []string
				for _, x := range xs {
					f := strings.Fields(x)
					r = append(r, strings.Join(append(f[:3:3], f[4:]...), " "))
				}
				return r
			}
			cmpImpl, model = strip(impl), strip(model)
		}
		if strings.Join(cmpImpl, "\n") != strings.Join(model, "\n") {
			first := 0
			for first < len(model) && first < len(cmpImpl) && model[first] == cmpImpl[first] {
				first++
			}
			rep.Diverge(common.Divergence{Engine: "dnslookup", Case: c, Impl: cmpImpl, Model: model, Note: fmt.Sprintf("first difference at lookup %d; driver line: %s", first, lines[min(first+1, len(lines)-1)])})
		}
	}
	for _, f := range oracleDNS(c, obs) {
		rep.Fail(common.OracleFailure{Engine: "dnslookup", Key: f.key, Case: c, Detail: f.detail})
		if c.Probe == "F11" && strings.HasPrefix(f.key, "F11:") {
			rep.FindingsProbed[f.key] = true
		}
	}
	rep.TracesValidated++
	return nil
}

func run(t *testing.T, o *common.Options, rep *common.Report) error {
	var drv *common.Driver
	if o.Driver != "" {
		var err error
		if drv, err = common.StartDriver(o.Driver); err != nil {
			return err
		}
		defer drv.Close()
	}
	if o.Replay != "" {
		var probe struct {
			Engine string `json:"engine"`
		}
		if err := common.LoadReplay(o.Replay, &probe); err != nil {
			return err
		}
		switch probe.Engine {
		case "lru":
			var c LruCase
			if err := common.LoadReplay(o.Replay, &c); err != nil {
				return err
			}
			return evalLruCases([]LruCase{c}, o, rep)
		case "dnsconc":
			var c ConcCase
			if err := common.LoadReplay(o.Replay, &c); err != nil {
				return err
			}
			return evalConcCase(t, c, o, rep, drv)
		case "dnsudp":
			var c UDPCase
			if err := common.LoadReplay(o.Replay, &c); err != nil {
				return err
			}
			return evalUDPCase(c, o, rep, drv)
		default:
			var c DNSCase
			if err := common.LoadReplay(o.Replay, &c); err != nil {
				return err
			}
			return evalDNSCase(t, c, o, rep, drv)
		}
	}
	r := common.NewRng(o.Seed)
	// ---- the real 20 s lookup timeout: UDP silent throughout, TCP answers; no caller deadline. Started now,
	// runs beside the other engines (it only sleeps), collected at the end.
	starved := starvedCase()
	var starvedModel string
	if drv != nil {
		mo, err := drv.Batch(starved.modelLines())
		if err != nil {
			return err
		}
		starvedModel = canonUDPModel(mo[1])
	}
	type starvedRes struct {
		obs udpObs
		pan any
	}
	starvedCh := make(chan starvedRes, 1)
	go func() {
		ob, pan := runUDPImpl(starved)
		starvedCh <- starvedRes{ob, pan}
	}()
	defer func() {
		sr := <-starvedCh
		reportUDP(starved, sr.obs, sr.pan, starvedModel, rep)
	}()
	// ---- known finding F11: directed probe, every run ----
	rep.FindingsProbed["F11:servfail-overrides-smaller-ttl"] = false
	if err := evalDNSCase(t, f11Probe(), o, rep, drv); err != nil {
		return err
	}
	// ---- lru ----
	n := o.Budget(5000, 100000)
	var batch []LruCase
	for i := 0; i < n; i++ {
		batch = append(batch, genLruCase(r.Fork(uint64(i)), 40))
		if len(batch) == 2500 || i == n-1 {
			if err := evalLruCases(batch, o, rep); err != nil {
				return err
			}
			batch = batch[:0]
		}
	}
	// ---- dnslookup ----
	n = o.Budget(1500, 20000)
	for i := 0; i < n; i++ {
		if err := evalDNSCase(t, genDNSCase(r.Fork(1<<32+uint64(i))), o, rep, drv); err != nil {
			return err
		}
	}
	// ---- dnsconc: directed eviction races for every capacity, then random interleavings ----
	for capN := 1; capN <= 3; capN++ {
		for fill := capN; fill <= capN+1; fill++ {
			if err := evalConcCase(t, evictionRace(capN, fill, 1, 60, 1e9), o, rep, drv); err != nil {
				return err
			}
		}
	}
	n = o.Budget(600, 10000)
	for i := 0; i < n; i++ {
		if err := evalConcCase(t, genConcCase(r.Fork(3<<32+uint64(i))), o, rep, drv); err != nil {
			return err
		}
	}
	// ---- dnsudp: loopback, real time ----
	var ucs []UDPCase
	n = o.Budget(40, 400)
	for i := 0; i < n; i++ {
		class := "A"
		if i%4 == 3 {
			class = "B"
		}
		ucs = append(ucs, genUDPCase(r.Fork(2<<32+uint64(i)), class))
	}
	if o.Thorough() { // the real 20 s lookup timeout, then TCP
		for i := 0; i < 6; i++ {
			ucs = append(ucs, genUDPCase(r.Fork(5<<32+uint64(i)), "C"))
		}
	}
	return evalUDPCases(ucs, o, rep, drv)
}

func main() {
	o := common.ParseFlags()
	rep := common.NewReport("C17", o)
	rep.Engines = []string{"lru", "dnslookup", "dnsconc", "dnsudp"}
	rep.Rule = "lru: op sequences (get/set/insert/remove/contains/len/all/backward, <= 43 ops) over key sets just above the capacity, capacities {1,2,3,4,5,8,unbounded}; non-trivial = at least one hit and one miss. " +
		"dnsconc: 2..5 concurrent lookups on one resolver (capacity 1..3) with held/released upstream answers in scripted orders under synctest, incl. directed 'refresh in flight while other names evict the entry' races for every capacity; non-trivial = at least 2 lookups in flight at once. " +
		"dnsudp: real-time loopback runs of the UDP path: valid answers from a wrong source address, wrong id / not-a-response / RA=0 / garbage, truncation, silence (short context; the real 20 s timeout in thorough), then TCP fallback; compared: result, addresses, queries per TCP attempt. " +
		"dnslookup: histories of 3..10 lookups over 1..4 names, cache capacity 1..4 (sometimes unbounded), scripted TCP upstream per lookup (valid / NXDOMAIN+SOA / NODATA / SERVFAIL.. / truncated / wrong id / not-a-response / RA=0 / unknown rcode / garbage / cut messages / bad record bodies / zero length / close mid-message / hang / dial failure), lookup instants placed +-1 ns around the TTL instants of the cached entry under a fake clock; non-trivial = at least one upstream success and one cache hit or failure; distinct by full observable history. "
	exit := 0
	testing.Main(func(pat, str string) (bool, error) { return true, nil }, []testing.InternalTest{{Name: "corr_c17", F: func(t *testing.T) {
		err := run(t, o, rep)
		if err != nil {
			fmt.Fprintln(os.Stderr, "corr_c17:", err)
			rep.Note("engine error: %v", err)
			exit = 3
		}
		if werr := rep.Write(o.Out); werr != nil {
			fmt.Fprintln(os.Stderr, werr)
			exit = 3
		}
		os.Stdout.Sync()
		os.Exit(exit)
	}}}, nil, nil)
}

var _ = json.Marshal
