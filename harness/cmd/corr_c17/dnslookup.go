package main

import (
	"context"
	"encoding/hex"
	"errors"
	"fmt"
	"net/netip"
	"reflect"
	"strings"
	"sync"
	"testing"
	"testing/synctest"
	"time"
	"unsafe"

	"ssvharness/internal/common"

	"github.com/database64128/shadowsocks-go/conn"
	"github.com/database64128/shadowsocks-go/dns"
	"github.com/database64128/shadowsocks-go/netio"
	"go.uber.org/zap"
)

// Engine "dnslookup": the real dns.Resolver with a scripted upstream over netio.NewPipe inside a
// synctest bubble (fake clock), against the Lean model (SSV.Model.Dns) and the property oracle.

type FrameSpec struct {
	Dt   int64  `json:"dt"`            // ns to wait before writing
	Hex  string `json:"hex,omitempty"` // message bytes; the frame is len16 ++ bytes
	Zero bool   `json:"zero,omitempty"`
}

type ConnSpec struct {
	DialFail bool        `json:"dial_fail,omitempty"`
	Frames   []FrameSpec `json:"frames,omitempty"`
	End      string      `json:"end,omitempty"` // close | mid | hang
	EndDt    int64       `json:"end_dt,omitempty"`
	Partial  string      `json:"partial,omitempty"` // bytes written before a "mid" close (>= 1 byte)
}

type GapSpec struct {
	Ns    int64 `json:"ns"`
	Rel   bool  `json:"rel,omitempty"` // relative to a TTL bound of the entry cached for the name
	Idx   int   `json:"idx,omitempty"`
	Delta int64 `json:"delta,omitempty"`
}

type LookupSpec struct {
	Name  string     `json:"name"`
	Gap   GapSpec    `json:"gap"`
	Conns []ConnSpec `json:"conns"`
}

type DNSCase struct {
	Engine  string       `json:"engine"`
	Cap     int          `json:"cap"`
	Lookups []LookupSpec `json:"lookups"`
	Probe   string       `json:"probe,omitempty"`
}

// ---------- observations ----------

type delivered struct {
	Conn int
	Recv int64 // ns since the bubble's epoch
	Msg  []byte
}

type lookupObs struct {
	Start, End int64
	Gap        int64
	Err        string
	A, AAAA    []string
	Exp        string // "zero" or ns since epoch; "?" if the field could not be read
	Dials      [][]seenQuery
	BadQuery   string
	Delivered  []delivered
	ServerSaw  []string // hex of what each accepted connection read
	DialBytes  []string
}

// ---------- scripted TCP client ----------

type scriptClient struct {
	mu    sync.Mutex
	epoch time.Time
	conns []ConnSpec
	next  int
	obs   *lookupObs
	wg    sync.WaitGroup
}

func (c *scriptClient) NewStreamDialer() (netio.StreamDialer, netio.StreamDialerInfo) {
	return c, netio.StreamDialerInfo{Name: "c17", NativeInitialPayload: true}
}

func (c *scriptClient) DialStream(ctx context.Context, addr conn.Addr, payload []byte) (netio.Conn, error) {
	c.mu.Lock()
	idx := c.next
	c.next++
	obs := c.obs
	qs, err := parseTCPQueries(payload)
	if err != nil && obs.BadQuery == "" {
		obs.BadQuery = err.Error()
	}
	obs.Dials = append(obs.Dials, qs)
	obs.DialBytes = append(obs.DialBytes, hex.EncodeToString(payload))
	var spec ConnSpec
	if idx < len(c.conns) {
		spec = c.conns[idx]
	} else {
		spec = ConnSpec{DialFail: true}
	}
	c.mu.Unlock()
	if spec.DialFail {
		return nil, errors.New("scripted dial failure")
	}
	pl, pr := netio.NewPipe()
	c.wg.Add(1)
	go c.serve(idx, spec, pr, obs)
	if len(payload) > 0 {
		if _, err := netio.ConnWriteContext(ctx, pl, payload); err != nil {
			pl.Close()
			return nil, err
		}
	}
	return pl, nil
}

func (c *scriptClient) serve(idx int, spec ConnSpec, pr *netio.PipeConn, obs *lookupObs) {
	defer c.wg.Done()
	defer pr.Close()
	buf := make([]byte, 8192)
	n, err := pr.Read(buf)
	if err != nil {
		return
	}
	c.mu.Lock()
	obs.ServerSaw = append(obs.ServerSaw, hex.EncodeToString(buf[:n]))
	c.mu.Unlock()
	for _, f := range spec.Frames {
		time.Sleep(time.Duration(f.Dt))
		var b []byte
		var msg []byte
		if f.Zero {
			b = []byte{0, 0}
		} else {
			msg, _ = hex.DecodeString(f.Hex)
			b = append([]byte{byte(len(msg) >> 8), byte(len(msg))}, msg...)
		}
		now := int64(time.Since(c.epoch))
		if _, err := pr.Write(b); err != nil {
			return
		}
		if !f.Zero {
			c.mu.Lock()
			obs.Delivered = append(obs.Delivered, delivered{idx, now, msg})
			c.mu.Unlock()
		}
	}
	switch spec.End {
	case "mid":
		time.Sleep(time.Duration(spec.EndDt))
		p, _ := hex.DecodeString(spec.Partial)
		if len(p) == 0 {
			p = []byte{0}
		}
		pr.Write(p)
	case "hang":
		for {
			if _, err := pr.Read(buf); err != nil {
				return
			}
		}
	default:
		time.Sleep(time.Duration(spec.EndDt))
	}
}

func readExpiry(res *dns.Result, epoch time.Time) string {
	rv := reflect.ValueOf(res).Elem().FieldByName("expiresAt")
	if !rv.IsValid() || rv.Type() != reflect.TypeOf(time.Time{}) {
		return "?"
	}
	t := *(*time.Time)(unsafe.Pointer(rv.UnsafeAddr()))
	if t.IsZero() {
		return "zero"
	}
	return fmt.Sprint(int64(t.Sub(epoch)))
}

// ttlBounds returns the instants (ns since epoch) recv+ttl of every answer / SOA record and
// recv+failure-caching of every failure rcode in the delivered responses (generator aid + oracle).
func ttlBounds(ds []delivered) []int64 {
	var bs []int64
	for _, d := range ds {
		x := describe(d.Msg)
		if x.Garbage {
			continue
		}
		for _, a := range x.Answers {
			bs = append(bs, d.Recv+int64(a.TTL)*1e9)
		}
		for _, a := range x.Auths {
			if a.SOA {
				bs = append(bs, d.Recv+int64(a.TTL)*1e9)
			}
		}
		if isFailureRCode(x.RCode) {
			bs = append(bs, d.Recv+failureCachingNs)
		}
	}
	return bs
}

func isFailureRCode(rc int) bool { return rc == 1 || rc == 2 || rc == 4 || rc == 5 }

// runDNSImpl runs the history on the real resolver in a synctest bubble.
func runDNSImpl(t *testing.T, c DNSCase) (obs []*lookupObs, panicked any) {
	synctest.Test(t, func(t *testing.T) {
		panicked = common.Safely(func() {
			epoch := time.Now()
			cl := &scriptClient{epoch: epoch}
			serverAddrPort := netip.AddrPortFrom(netip.IPv6Loopback(), 53)
			r := dns.NewResolver("c17", c.Cap, serverAddrPort, cl, nil, zap.NewNop())
			lastBounds := map[string][]int64{}
			ctx := context.Background()
			for _, l := range c.Lookups {
				now := int64(time.Since(epoch))
				gap := l.Gap.Ns
				if l.Gap.Rel {
					if bs := lastBounds[l.Name]; len(bs) > 0 {
						gap = bs[l.Gap.Idx%len(bs)] + l.Gap.Delta - now
					}
				}
				if gap < 0 {
					gap = 0
				}
				if gap > maxGapNs { // (a sleep that overflows the runtime's timer range crashes go1.26.0's synctest)
					gap = l.Gap.Ns
				}
				time.Sleep(time.Duration(gap))
				o := &lookupObs{Gap: gap, Start: int64(time.Since(epoch))}
				cl.mu.Lock()
				cl.conns, cl.next, cl.obs = l.Conns, 0, o
				cl.mu.Unlock()
				res, err := r.Lookup(ctx, l.Name)
				o.End = int64(time.Since(epoch))
				if err != nil {
					o.Err = err.Error()
					o.Exp = "zero"
				} else {
					for a := range res.A() {
						b := a.As4()
						o.A = append(o.A, hex.EncodeToString(b[:]))
					}
					for a := range res.AAAA() {
						b := a.As16()
						o.AAAA = append(o.AAAA, hex.EncodeToString(b[:]))
					}
					o.Exp = readExpiry(&res, epoch)
				}
				// let the scripted servers of this lookup finish (they only sleep / fail to write from here on)
				cl.wg.Wait()
				cl.mu.Lock()
				if len(o.Dials) > 0 && err == nil {
					lastBounds[l.Name] = ttlBounds(o.Delivered)
				}
				cl.mu.Unlock()
				obs = append(obs, o)
			}
		})
	})
	return
}

func showList(xs []string) string {
	if len(xs) == 0 {
		return "-"
	}
	return strings.Join(xs, ",")
}

func (o *lookupObs) line() string {
	st := "ok"
	if o.Err != "" {
		st = "fail"
	}
	q := "-"
	if len(o.Dials) > 0 {
		var xs []string
		for _, d := range o.Dials {
			s := ""
			for _, x := range d {
				s += fmt.Sprint(x.ID)
			}
			if s == "" {
				s = "empty"
			}
			xs = append(xs, s)
		}
		q = strings.Join(xs, "/")
	}
	return fmt.Sprintf("%s a=%s aaaa=%s exp=%s t=%d q=%s", st, showList(o.A), showList(o.AAAA), o.Exp, o.End, q)
}

// canonModel maps the driver's answer to the observable part.
func canonModel(s string) string {
	f := strings.Fields(s)
	if len(f) < 6 {
		return s
	}
	switch f[0] {
	case "hit", "fresh", "stale":
		f[0] = "ok"
	}
	return strings.Join(f[:6], " ")
}

func (c DNSCase) lines(obs []*lookupObs) []string {
	ls := []string{fmt.Sprintf("dns new %d 0 1", c.Cap)}
	for i, l := range c.Lookups {
		var sb strings.Builder
		gap := int64(0)
		if i < len(obs) {
			gap = obs[i].Gap
			// the model's clock stands at the end of the previous lookup; the harness waited for the
			// scripted servers to finish before sleeping, which does not move the resolver's state
			if i > 0 {
				gap = obs[i].Start - obs[i-1].End
			} else {
				gap = obs[i].Start
			}
		}
		fmt.Fprintf(&sb, "dns lookup %d %s", gap, l.Name)
		for _, cs := range l.Conns {
			sb.WriteString(" C")
			if cs.DialFail {
				sb.WriteString(" D")
				continue
			}
			for _, f := range cs.Frames {
				if f.Zero {
					fmt.Fprintf(&sb, " z:%d", f.Dt)
				} else {
					b, _ := hex.DecodeString(f.Hex)
					fmt.Fprintf(&sb, " f:%d:%s", f.Dt, describe(b).wireToken())
				}
			}
			switch cs.End {
			case "mid":
				fmt.Fprintf(&sb, " E:m:%d", cs.EndDt)
			case "hang":
				sb.WriteString(" E:h")
			default:
				fmt.Fprintf(&sb, " E:c:%d", cs.EndDt)
			}
		}
		ls = append(ls, sb.String())
	}
	return ls
}

// ---------- generator ----------

const maxGapNs = int64(4000e9)
const lookupTimeoutNs = int64(20e9)

// avoidDeadlineTie: an event that arrives in the very nanosecond the 20 s lookup timeout fires is a race
// in the implementation (timer vs pipe); the generator never produces it (the model would say "received").
func avoidDeadlineTie(l *LookupSpec) {
	cum := int64(0)
	bump := func(dt *int64) {
		cum += *dt
		if cum == lookupTimeoutNs {
			*dt++
			cum++
		}
	}
	for ci := range l.Conns {
		for fi := range l.Conns[ci].Frames {
			bump(&l.Conns[ci].Frames[fi].Dt)
		}
		bump(&l.Conns[ci].EndDt)
	}
}

var ttlSet = []uint32{0, 1, 2, 5, 10, 10, 29, 30, 31, 60, 300}
var dtSet = []int64{0, 0, 0, 1, 1e6, 1e9, 3e9, 7e9}

type genCtx struct {
	r    *common.Rng
	ctr  int
	name string
}

func (g *genCtx) addr4() []byte {
	g.ctr++
	return []byte{10, byte(g.ctr >> 16), byte(g.ctr >> 8), byte(g.ctr)}
}
func (g *genCtx) addr6() []byte {
	g.ctr++
	return []byte{0xfd, 0, 0, 0, 0, 0, 0, 0, 0, 0, 0, 0, 0, byte(g.ctr >> 16), byte(g.ctr >> 8), byte(g.ctr)}
}

func (g *genCtx) answers(fam uint16, allowMixed bool) []RRSpec {
	r := g.r
	var rs []RRSpec
	n := r.Intn(4)
	for i := 0; i < n; i++ {
		k := "A"
		if fam == 6 {
			k = "AAAA"
		}
		switch x := r.Intn(12); {
		case x == 0:
			k = "CNAME"
		case x == 1:
			k = "TXT"
		case x == 2 && allowMixed:
			if k == "A" {
				k = "AAAA"
			} else {
				k = "A"
			}
		}
		rr := RRSpec{Kind: k, TTL: common.Pick(r, ttlSet)}
		if r.Chance(1, 40) {
			rr.TTL = 4294967295
		}
		switch k {
		case "A":
			rr.Addr = g.addr4()
		case "AAAA":
			rr.Addr = g.addr6()
		}
		rs = append(rs, rr)
	}
	return rs
}

// goodMsg: a response a resolver should accept for family fam (4 or 6).
func (g *genCtx) goodMsg(fam uint16) []byte {
	r := g.r
	s := MsgSpec{ID: fam, Resp: true, RA: true, Extra: r.Bool()}
	s.QType = 1
	if fam == 6 {
		s.QType = 28
	}
	switch x := r.Intn(10); {
	case x < 5: // valid answers
		s.Answers = g.answers(fam, r.Chance(1, 6))
		if r.Chance(1, 4) {
			s.Auth = []RRSpec{{Kind: "NS", TTL: common.Pick(r, ttlSet)}}
		}
	case x < 7: // NXDOMAIN / NODATA with SOA
		if r.Bool() {
			s.RCode = 3
		}
		na := r.Intn(3)
		for i := 0; i < na; i++ {
			k := "SOA"
			if r.Chance(1, 4) {
				k = "NS"
			}
			s.Auth = append(s.Auth, RRSpec{Kind: k, TTL: common.Pick(r, ttlSet)})
		}
	default: // failure rcodes
		s.RCode = common.Pick(r, []int{2, 2, 2, 5, 1, 4})
		if r.Chance(1, 5) {
			s.Answers = g.answers(fam, false)
		}
		if r.Chance(1, 5) {
			s.Auth = []RRSpec{{Kind: "SOA", TTL: common.Pick(r, ttlSet)}}
		}
	}
	return buildMsg(g.name, s)
}

// oddMsg: wrong id, not a response, RA=0, unknown rcode, truncated, garbage, cut, bad record bodies.
func (g *genCtx) oddMsg() []byte {
	r := g.r
	fam := uint16(4)
	if r.Bool() {
		fam = 6
	}
	s := MsgSpec{ID: fam, Resp: true, RA: true, QType: 1, Answers: g.answers(fam, true)}
	if fam == 6 {
		s.QType = 28
	}
	switch r.Intn(11) {
	case 0:
		s.ID = common.Pick(r, []uint16{0, 5, 7, 0x0400, 0x0600, 65535})
	case 1:
		s.Resp = false
	case 2:
		s.RA = false
	case 3:
		s.RCode = common.Pick(r, []int{6, 9, 15})
	case 4:
		s.TC = true
	case 5:
		n := common.Pick(r, []int{1, 5, 11, 12, 13, 40})
		b := r.Bytes(n)
		if r.Bool() && n >= 2 {
			b[0], b[1] = 0, byte(fam) // plausible id in front of noise
		}
		return b
	case 6, 7:
		b := buildMsg(g.name, s)
		if r.Bool() {
			s.Auth = []RRSpec{{Kind: "SOA", TTL: 5}, {Kind: "NS", TTL: 7}}
			s.Answers = nil
			b = buildMsg(g.name, s)
		}
		cut := 1 + r.Intn(len(b)-1)
		if r.Chance(2, 3) && len(b) > 14 {
			cut = 12 + r.Intn(len(b)-12)
		}
		return b[:cut]
	case 8:
		k := "BADA"
		if r.Bool() {
			k = "BADAAAA"
		}
		s.Answers = append(s.Answers, RRSpec{Kind: k, TTL: common.Pick(r, ttlSet)})
	case 9:
		s.NoQ = true
	case 10:
		// a well-formed message for the family, sent twice by the caller's luck (duplicate)
		return g.goodMsg(fam)
	}
	return buildMsg(g.name, s)
}

func (g *genCtx) frame(b []byte) FrameSpec {
	return FrameSpec{Dt: common.Pick(g.r, dtSet), Hex: hex.EncodeToString(b)}
}

func (g *genCtx) end() (string, int64, string) {
	r := g.r
	switch r.Intn(8) {
	case 0:
		return "hang", 0, ""
	case 1:
		p := common.Pick(r, []string{"00", "0040aabbcc", "ffff00", "000100"})
		if p == "000100" { // a complete 1-byte frame would be a message, keep it partial
			p = "0002aa"
		}
		return "mid", common.Pick(r, dtSet), p
	default:
		return "close", common.Pick(r, dtSet), ""
	}
}

func genLookup(g *genCtx, name string) LookupSpec {
	r := g.r
	g.name = name
	l := LookupSpec{Name: name}
	mkConn := func(frames []FrameSpec) ConnSpec {
		e, dt, p := g.end()
		return ConnSpec{Frames: frames, End: e, EndDt: dt, Partial: p}
	}
	fams := []uint16{4, 6}
	if r.Bool() {
		fams = []uint16{6, 4}
	}
	switch x := r.Intn(20); {
	case x < 9: // clean: both answers on the first connection
		l.Conns = []ConnSpec{mkConn([]FrameSpec{g.frame(g.goodMsg(fams[0])), g.frame(g.goodMsg(fams[1]))})}
	case x < 11: // one answer, clean close, the other on the retry
		c1 := ConnSpec{Frames: []FrameSpec{g.frame(g.goodMsg(fams[0]))}, End: "close", EndDt: common.Pick(r, dtSet)}
		var f2 []FrameSpec
		if r.Chance(1, 3) {
			f2 = append(f2, g.frame(g.goodMsg(fams[0]))) // answer nobody asked for again
		}
		f2 = append(f2, g.frame(g.goodMsg(fams[1])))
		l.Conns = []ConnSpec{c1, mkConn(f2)}
	case x < 16: // noisy
		nc := 1 + r.Intn(2)
		for ci := 0; ci < nc; ci++ {
			var fr []FrameSpec
			nf := r.Intn(5)
			for i := 0; i < nf; i++ {
				switch y := r.Intn(10); {
				case y < 4:
					fr = append(fr, g.frame(g.oddMsg()))
				case y < 9:
					fr = append(fr, g.frame(g.goodMsg(common.Pick(r, fams))))
				default:
					fr = append(fr, FrameSpec{Dt: common.Pick(r, dtSet), Zero: true})
				}
			}
			l.Conns = append(l.Conns, mkConn(fr))
		}
	default: // upstream down in one of several ways
		switch r.Intn(5) {
		case 0:
			l.Conns = []ConnSpec{{DialFail: true}}
		case 1:
			l.Conns = nil
		case 2:
			l.Conns = []ConnSpec{{End: "hang"}}
		case 3:
			l.Conns = []ConnSpec{{End: "close"}, {End: "close", EndDt: 1e9}}
		default:
			l.Conns = []ConnSpec{{Frames: []FrameSpec{g.frame(g.goodMsg(fams[0]))}, End: "mid", Partial: "00"}}
		}
	}
	// long delays: cross the 20 s lookup timeout now and then (never exactly on it)
	if r.Chance(1, 12) && len(l.Conns) > 0 && len(l.Conns[0].Frames) > 0 {
		i := r.Intn(len(l.Conns[0].Frames))
		l.Conns[0].Frames[i].Dt = common.Pick(r, []int64{19e9, 20e9 - 1, 20e9 + 1, 25e9})
	}
	return l
}

func genGap(r *common.Rng) GapSpec {
	if r.Chance(3, 5) {
		return GapSpec{Rel: true, Idx: r.Intn(8), Delta: common.Pick(r, []int64{-1, 0, 0, 1, 1, -1e9, 1e9}), Ns: common.Pick(r, []int64{0, 1e9, 31e9})}
	}
	return GapSpec{Ns: common.Pick(r, []int64{0, 0, 1, 1e9, 7e9, 11e9, 31e9, 61e9, 301e9})}
}

func genDNSCase(r *common.Rng) DNSCase {
	c := DNSCase{Engine: "dnslookup", Cap: 1 + r.Intn(4)}
	if r.Chance(1, 10) {
		c.Cap = common.Pick(r, []int{0, -1, 1024})
	}
	nn := 1 + r.Intn(3)
	if c.Cap > 0 && c.Cap < 4 && r.Bool() {
		nn = c.Cap + 1
	}
	g := &genCtx{r: r}
	n := 3 + r.Intn(8)
	for i := 0; i < n; i++ {
		name := fmt.Sprintf("n%d.test", r.Intn(nn))
		l := genLookup(g, name)
		l.Gap = genGap(r)
		avoidDeadlineTie(&l)
		c.Lookups = append(c.Lookups, l)
	}
	return c
}

// f11Probe: A answer with TTL 10 s, AAAA query answered SERVFAIL; second lookup 11 s later.
func f11Probe() DNSCase {
	g := &genCtx{name: "f11.test"}
	a := buildMsg(g.name, MsgSpec{ID: 4, Resp: true, RA: true, QType: 1, Answers: []RRSpec{{Kind: "A", TTL: 10, Addr: []byte{192, 0, 2, 1}}}})
	sf := buildMsg(g.name, MsgSpec{ID: 6, Resp: true, RA: true, QType: 28, RCode: 2})
	a2 := buildMsg(g.name, MsgSpec{ID: 4, Resp: true, RA: true, QType: 1, Answers: []RRSpec{{Kind: "A", TTL: 10, Addr: []byte{192, 0, 2, 2}}}})
	ok6 := buildMsg(g.name, MsgSpec{ID: 6, Resp: true, RA: true, QType: 28, Answers: []RRSpec{{Kind: "AAAA", TTL: 10, Addr: g.addr6()}}})
	return DNSCase{Engine: "dnslookup", Cap: 4, Probe: "F11", Lookups: []LookupSpec{
		{Name: g.name, Conns: []ConnSpec{{Frames: []FrameSpec{{Hex: hex.EncodeToString(a)}, {Hex: hex.EncodeToString(sf)}}, End: "close"}}},
		{Name: g.name, Gap: GapSpec{Ns: 11e9}, Conns: []ConnSpec{{Frames: []FrameSpec{{Hex: hex.EncodeToString(a2)}, {Hex: hex.EncodeToString(ok6)}}, End: "close"}}},
	}}
}
