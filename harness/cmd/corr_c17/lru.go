package main

import (
	"fmt"
	"strconv"
	"strings"

	"ssvharness/internal/common"

	"github.com/database64128/shadowsocks-go/cache"
)

// Engine "lru": cache.BoundedCache against the pointer-level Lean model and against a
// reference written from the statement ("a map restricted to the cap most recently used keys").

type LruOp struct {
	Op string `json:"op"` // get set insert remove contains len all backward
	K  int    `json:"k"`
	V  int    `json:"v"`
}

type LruCase struct {
	Engine string  `json:"engine"`
	Cap    int     `json:"cap"`
	Ops    []LruOp `json:"ops"`
}

func (c LruCase) lines() []string {
	ls := []string{"lru new " + strconv.Itoa(c.Cap)}
	for _, o := range c.Ops {
		switch o.Op {
		case "set", "insert":
			ls = append(ls, fmt.Sprintf("lru %s %d %d", o.Op, o.K, o.V))
		case "get", "remove", "contains":
			ls = append(ls, fmt.Sprintf("lru %s %d", o.Op, o.K))
		default:
			ls = append(ls, "lru "+o.Op)
		}
	}
	return ls
}

func showKV(ks, vs []int) string {
	if len(ks) == 0 {
		return "-"
	}
	var xs []string
	for i := range ks {
		xs = append(xs, fmt.Sprintf("%d=%d", ks[i], vs[i]))
	}
	return strings.Join(xs, ",")
}

func runLruImpl(c LruCase) (out []string, panicked any) {
	panicked = common.Safely(func() {
		bc := cache.NewBoundedCache[int, int](c.Cap)
		out = append(out, "ok")
		for _, o := range c.Ops {
			switch o.Op {
			case "get":
				v, ok := bc.Get(o.K)
				if ok {
					out = append(out, fmt.Sprintf("some %d", v))
				} else {
					out = append(out, "none")
				}
			case "set":
				bc.Set(o.K, o.V)
				out = append(out, "ok")
			case "insert":
				out = append(out, b01(bc.Insert(o.K, o.V)))
			case "remove":
				out = append(out, b01(bc.Remove(o.K)))
			case "contains":
				out = append(out, b01(bc.Contains(o.K)))
			case "len":
				out = append(out, strconv.Itoa(bc.Len()))
			case "all":
				var ks, vs []int
				for k, v := range bc.All() {
					ks, vs = append(ks, k), append(vs, v)
					if len(ks) > 10000 {
						panic("All() does not terminate")
					}
				}
				out = append(out, showKV(ks, vs))
			case "backward":
				var ks, vs []int
				for k, v := range bc.Backward() {
					ks, vs = append(ks, k), append(vs, v)
					if len(ks) > 10000 {
						panic("Backward() does not terminate")
					}
				}
				out = append(out, showKV(ks, vs))
			}
		}
	})
	return
}

// lruOracle: the statement. State = recency-ordered (oldest first) list of distinct keys with values,
// never longer than cap; a use (hit Get, Set, successful Insert) makes the key the most recent;
// adding to a full map drops the least recently used key.
func lruOracle(c LruCase, out []string) (string, string) {
	capN := c.Cap
	if capN <= 0 {
		capN = int(^uint(0) >> 1)
	}
	type kv struct{ k, v int }
	var st []kv
	find := func(k int) int {
		for i, e := range st {
			if e.k == k {
				return i
			}
		}
		return -1
	}
	touch := func(i int, v int) {
		e := st[i]
		e.v = v
		st = append(append(st[:i:i], st[i+1:]...), e)
	}
	add := func(k, v int) {
		if len(st) == capN {
			st = st[1:]
		}
		st = append(st, kv{k, v})
	}
	for i, o := range c.Ops {
		got := out[i+1]
		var want string
		switch o.Op {
		case "get":
			if j := find(o.K); j >= 0 {
				want = fmt.Sprintf("some %d", st[j].v)
				touch(j, st[j].v)
			} else {
				want = "none"
			}
		case "set":
			if j := find(o.K); j >= 0 {
				touch(j, o.V)
			} else {
				add(o.K, o.V)
			}
			want = "ok"
		case "insert":
			if find(o.K) >= 0 {
				want = "0"
			} else {
				add(o.K, o.V)
				want = "1"
			}
		case "remove":
			if j := find(o.K); j >= 0 {
				st = append(st[:j:j], st[j+1:]...)
				want = "1"
			} else {
				want = "0"
			}
		case "contains":
			want = b01(find(o.K) >= 0)
		case "len":
			want = strconv.Itoa(len(st))
		case "all", "backward":
			var ks, vs []int
			for _, e := range st {
				ks, vs = append(ks, e.k), append(vs, e.v)
			}
			if o.Op == "backward" {
				for a, b := 0, len(ks)-1; a < b; a, b = a+1, b-1 {
					ks[a], ks[b] = ks[b], ks[a]
					vs[a], vs[b] = vs[b], vs[a]
				}
			}
			want = showKV(ks, vs)
		}
		if got != want {
			return "lru:" + o.Op + "-wrong", fmt.Sprintf("op %d (%s %d %d): cache answered %q, a map restricted to the %d most recently used keys answers %q", i, o.Op, o.K, o.V, got, capN, want)
		}
	}
	return "", ""
}

func genLruCase(r *common.Rng, maxOps int) LruCase {
	caps := []int{1, 1, 2, 2, 3, 3, 4, 5, 8, 0, -1}
	c := LruCase{Engine: "lru", Cap: common.Pick(r, caps)}
	nk := 2 + r.Intn(6)
	if c.Cap > 0 && r.Chance(1, 2) {
		nk = c.Cap + 1 + r.Intn(2) // just above the capacity: eviction boundary
	}
	n := r.Range(1, maxOps)
	for i := 0; i < n; i++ {
		k := r.Intn(nk)
		var op string
		switch x := r.Intn(20); {
		case x < 5:
			op = "get"
		case x < 10:
			op = "set"
		case x < 12:
			op = "insert"
		case x < 14:
			op = "remove"
		case x < 15:
			op = "contains"
		case x < 16:
			op = "len"
		case x < 18:
			op = "all"
		default:
			op = "backward"
		}
		c.Ops = append(c.Ops, LruOp{Op: op, K: k, V: 100 + i})
	}
	c.Ops = append(c.Ops, LruOp{Op: "all"}, LruOp{Op: "backward"}, LruOp{Op: "len"})
	return c
}

func lruSig(c LruCase) string {
	var sb strings.Builder
	sb.WriteString(strconv.Itoa(c.Cap))
	for _, o := range c.Ops {
		sb.WriteByte(' ')
		sb.WriteString(o.Op[:1])
		sb.WriteString(strconv.Itoa(o.K))
	}
	return sb.String()
}

func evalLruCases(cases []LruCase, o *common.Options, rep *common.Report) error {
	var model []string
	if o.Driver != "" {
		var lines []string
		for _, c := range cases {
			lines = append(lines, c.lines()...)
		}
		var err error
		model, err = common.RunDriverOnce(o.Driver, lines)
		if err != nil {
			return err
		}
	}
	pos := 0
	for _, c := range cases {
		n := len(c.Ops) + 1
		impl, pan := runLruImpl(c)
		evict, hit := false, false
		for i, v := range impl {
			if strings.HasPrefix(v, "some") {
				hit = true
			}
			if v == "none" && i > 0 {
				evict = true
			}
		}
		rep.Case("lru "+lruSig(c), hit && evict)
		rep.Count(fmt.Sprintf("lru cap=%d", c.Cap))
		if len(rep.Samples) < 2 {
			rep.Sample(map[string]any{"case": c, "impl": impl})
		}
		if pan != nil {
			rep.Fail(common.OracleFailure{Engine: "lru", Key: "lru:panic", Case: c, Detail: fmt.Sprint(pan)})
			pos += n
			continue
		}
		if model != nil {
			mo := model[pos : pos+n]
			if strings.Join(impl, "|") != strings.Join(mo, "|") {
				rep.Diverge(common.Divergence{Engine: "lru", Case: c, Impl: impl, Model: mo})
			}
		}
		pos += n
		if k, d := lruOracle(c, impl); k != "" {
			rep.Fail(common.OracleFailure{Engine: "lru", Key: k, Case: c, Detail: d})
		}
		rep.TracesValidated++
	}
	return nil
}
