package main

// The child process: runs ONE life-cycle scenario against a real relay started through
// service.Config -> Manager on loopback, and prints a JSON Result on stdout.
// A panic of a relay goroutine or a wedge kills / times out only this process.

import (
	"context"
	"encoding/base64"
	"encoding/json"
	"errors"
	"fmt"
	"io"
	"net"
	"net/netip"
	"os"
	"os/signal"
	"runtime"
	"strings"
	"sync"
	"sync/atomic"
	"syscall"
	"time"

	"github.com/database64128/shadowsocks-go/conn"
	"github.com/database64128/shadowsocks-go/service"
	"github.com/database64128/shadowsocks-go/ss2022"
	"github.com/database64128/shadowsocks-go/zerocopy"
	"go.uber.org/zap"
	"go.uber.org/zap/zaptest/observer"
)

type Scenario struct {
	Kind      string `json:"kind"`     // evict | evict-unpackable | stop-idle | stop-flood | stop-init | init-fail
	Unpack    string `json:"unpack,omitempty"` // evict-unpackable: "oversize" (fits the server MTU, exceeds the client MTU 1400) | "domain" (unresolvable domain target, socks5 server)
	Server    string `json:"server"`   // direct | socks5 | ss2022
	Batch     string `json:"batch"`    // no | sendmmsg
	NatMs     int    `json:"nat_ms"`   // configured NAT timeout
	Clients   int    `json:"clients"`  // client sockets (= sessions)
	FloodMs   int    `json:"flood_ms"` // stop-flood: flood for this long before Stop (the flood continues through Stop)
	Echo      bool   `json:"echo"`     // the target answers every datagram (keeps the downlink busy too)
	Upstream  string `json:"upstream"` // direct | socks5-hold | reject | unresolvable | refused
	ReleaseOK bool   `json:"release_ok"`
	ReleaseMs int    `json:"release_ms"` // stop-init: the held handshake is released this long after Stop was called (negative: before)
	PayLen    int    `json:"pay_len"`
	Procs     int    `json:"procs,omitempty"` // GOMAXPROCS of the child (default 4); 1 makes "a goroutine was spawned but has not run yet" windows wide
	Seed      uint64 `json:"seed"`
}

type Result struct {
	Err           string   `json:"err,omitempty"` // harness-level failure (not a verdict)
	Addr          string   `json:"addr,omitempty"`
	StopReturned  bool     `json:"stop_returned"`
	StopMs        int64    `json:"stop_ms"` // Stop latency from the moment nothing but in-flight work remains
	Quiescent     bool     `json:"quiescent"`
	TimerWait     bool     `json:"timer_wait"` // Stop not returned, relay quiescent: only the NAT timer can end the wait
	BusyPolls     int      `json:"busy_polls"`
	CtrlEstablished         int    `json:"ctrl_established"`          // SOCKS5 associations the harness server completed
	CtrlOpen                int    `json:"ctrl_open"`                 // of those: control connections the client has not closed 5 s (effective) after Stop
	ClientSessionGoroutines int    `json:"client_session_goroutines"` // keep-alive goroutines of client sessions still alive then
	ClientSessionDump       string `json:"client_session_dump,omitempty"`
	StallMs       int64    `json:"stall_ms"` // scheduling stall of this process during the Stop measurement (heartbeat, x4), subtracted from stop_ms // inspections past the limit that found runnable (starved) relay goroutines
	WaitDump      string   `json:"wait_dump,omitempty"`
	G0, G1, G2    int      `json:"-"`
	GBase         int      `json:"g_base"`
	GRun          int      `json:"g_run"`
	GAfterEvict   int      `json:"g_after_evict"`
	GEnd          int      `json:"g_end"`
	FBase         int      `json:"f_base"`
	FRun          int      `json:"f_run"`
	FAfterEvict   int      `json:"f_after_evict"`
	FEnd          int      `json:"f_end"`
	FirstReply    bool     `json:"first_reply"`
	Evicted       bool     `json:"evicted"`
	ReplyAfter    bool     `json:"reply_after"`
	PackFailures  int      `json:"pack_failures"`
	StartedAfter  int      `json:"started_after"`
	Started       int      `json:"started"`
	UpFinished    int      `json:"up_finished"`
	DownFinished  int      `json:"down_finished"`
	InitFailures  int      `json:"init_failures"`
	RecvFinished  int      `json:"recv_finished"`
	Sent          int64    `json:"sent"`
	Replies       int64    `json:"replies"`
	LeakDump      string   `json:"leak_dump,omitempty"`
	Events        []string `json:"events,omitempty"`
	RunOK         bool     `json:"run_ok"`
}

func countFds() int {
	ents, err := os.ReadDir("/proc/self/fd")
	if err != nil {
		return -1
	}
	n := 0
	for _, e := range ents {
		t, err := os.Readlink("/proc/self/fd/" + e.Name())
		if err == nil && strings.HasPrefix(t, "socket:") {
			n++
		}
	}
	return n
}

func stacks() string {
	b := make([]byte, 1<<20)
	return string(b[:runtime.Stack(b, true)])
}

// heartbeat measures how badly this process is being scheduled: a goroutine that sleeps 5 ms at a time and adds up
// every millisecond it was woken late.  All deadlines of the harness are counted in EFFECTIVE time = wall time minus
// a multiple of that stall, so that a starved child extends its own deadlines (up to a hard cap).
type heartbeat struct{ stallNs atomic.Int64 }

var hb = &heartbeat{}

func (h *heartbeat) start() {
	go func() {
		const tick = 5 * time.Millisecond
		last := time.Now()
		for {
			time.Sleep(tick)
			now := time.Now()
			if d := now.Sub(last) - tick; d > 2*time.Millisecond {
				h.stallNs.Add(int64(d))
			}
			last = now
		}
	}()
}

func (h *heartbeat) stall() time.Duration { return time.Duration(h.stallNs.Load()) }

// stallFactor: the heartbeat only sleeps; goroutines that also need CPU are delayed more than it is.
const stallFactor = 4

// clock counts effective time from its creation.
type clock struct {
	t0 time.Time
	s0 time.Duration
}

func newClock() clock { return clock{time.Now(), hb.stall()} }
func clockAt(t time.Time) clock { return clock{t, hb.stall()} }

func (c clock) wall() time.Duration { return time.Since(c.t0) }
func (c clock) stalled() time.Duration { return stallFactor * (hb.stall() - c.s0) }
func (c clock) effective() time.Duration {
	e := c.wall() - c.stalled()
	if e < 0 {
		e = 0
	}
	return e
}

// patient polls cond until it holds, or `base` of effective time has passed, or the hard cap (base + 30 s of wall time).
func patient(base time.Duration, cond func() bool) bool {
	c := newClock()
	for {
		if cond() {
			return true
		}
		if c.effective() >= base || c.wall() >= base+30*time.Second {
			return cond()
		}
		time.Sleep(10 * time.Millisecond)
	}
}

// settle polls until goroutine and socket counts are back to at most (g, f); it gives up after 5 s of effective time
// (at most 35 s of wall time) and returns what it saw last.
func settle(g, f int, _ time.Duration) (int, int) {
	var cg, cf int
	patient(5*time.Second, func() bool {
		cg, cf = runtime.NumGoroutine(), countFds()
		return cg <= g && cf <= f
	})
	return cg, cf
}

type logWatch struct {
	logs *observer.ObservedLogs
}

func (w *logWatch) count(sub string) int {
	n := 0
	for _, e := range w.logs.All() {
		if strings.Contains(e.Message, sub) {
			n++
		}
	}
	return n
}

func (w *logWatch) wait(sub string, n int, d time.Duration) bool {
	return patient(d, func() bool { return w.count(sub) >= n })
}

func (w *logWatch) listenAddr(d time.Duration) string {
	end := time.Now().Add(d)
	for {
		for _, e := range w.logs.All() {
			if strings.HasPrefix(e.Message, "Started UDP") {
				for _, f := range e.Context {
					if f.Key == "listenAddress" {
						return f.String
					}
				}
			}
		}
		if time.Now().After(end) {
			return ""
		}
		time.Sleep(2 * time.Millisecond)
	}
}

// client is one harness client socket with its packet framing.
type client struct {
	uc      *net.UDPConn
	relay   netip.AddrPort
	server  string
	target  netip.AddrPort
	packer  zerocopy.ClientPacker
	front   int
	rear    int
	payload []byte
}

func (c *client) send(seq uint32) error { return c.sendKind(seq, "") }

// sendKind sends a normal datagram (unpack == "") or one the relay's outgoing client cannot pack.
func (c *client) sendKind(seq uint32, unpack string) error {
	p := append([]byte(nil), c.payload...)
	if unpack == "oversize" {
		n := 1400
		if c.server == "socks5" {
			n = 1390
		}
		p = make([]byte, n)
	}
	if len(p) >= 4 {
		p[0], p[1], p[2], p[3] = byte(seq>>24), byte(seq>>16), byte(seq>>8), byte(seq)
	}
	var pkt []byte
	switch c.server {
	case "direct":
		pkt = p
	case "socks5":
		if unpack == "domain" {
			d := "nonexistent.invalid"
			pkt = append([]byte{0, 0, 0, 3, byte(len(d))}, d...)
			pkt = append(pkt, byte(c.target.Port()>>8), byte(c.target.Port()))
			pkt = append(pkt, p...)
			break
		}
		a := c.target.Addr().As4()
		pkt = append([]byte{0, 0, 0, 1, a[0], a[1], a[2], a[3], byte(c.target.Port() >> 8), byte(c.target.Port())}, p...)
	case "ss2022":
		b := make([]byte, c.front+len(p)+c.rear)
		copy(b[c.front:], p)
		_, ps, pl, err := c.packer.PackInPlace(context.Background(), b, conn.AddrFromIPPort(c.target), c.front, len(p))
		if err != nil {
			return err
		}
		pkt = b[ps : ps+pl]
	}
	_, err := c.uc.WriteToUDPAddrPort(pkt, c.relay)
	return err
}

// recvAny waits for a datagram FROM THE RELAY on the client socket.  Other tests on the same machine use ephemeral
// loopback ports too: a datagram still in flight towards a port this socket has just been given is not a reply.
func (c *client) recvAny(d time.Duration) bool {
	b := make([]byte, 2048)
	end := time.Now().Add(d)
	for {
		c.uc.SetReadDeadline(end)
		n, from, err := c.uc.ReadFromUDPAddrPort(b)
		if err != nil {
			return false
		}
		if n > 0 && from == c.relay {
			return true
		}
	}
}

func runChild(sc Scenario) (res Result) {
	res.StopMs = -1
	hb.start() // before any baseline: the heartbeat goroutine is part of every count
	// signal.Notify starts a runtime goroutine that never exits: start it before the baseline.
	sigc := make(chan os.Signal, 1)
	signal.Notify(sigc, syscall.SIGUSR2)
	signal.Stop(sigc)
	// name resolution must not leave the process
	net.DefaultResolver = &net.Resolver{PreferGo: true, Dial: func(ctx context.Context, network, address string) (net.Conn, error) {
		return nil, errors.New("no DNS in the harness")
	}}

	// ---- harness side: target, optional held SOCKS5 upstream ----
	tgt, err := net.ListenUDP("udp4", &net.UDPAddr{IP: net.IPv4(127, 0, 0, 1)})
	if err != nil {
		res.Err = err.Error()
		return
	}
	tgtAddr := tgt.LocalAddr().(*net.UDPAddr).AddrPort()
	var tgtWG sync.WaitGroup
	tgtWG.Add(1)
	go func() {
		defer tgtWG.Done()
		b := make([]byte, 2048)
		for {
			n, from, err := tgt.ReadFromUDPAddrPort(b)
			if err != nil {
				return
			}
			if sc.Echo {
				tgt.WriteToUDPAddrPort(b[:n], from)
			}
		}
	}()

	var (
		holdLn      *net.TCPListener
		holdConns   = make(chan *net.TCPConn, 64)
		holdRelease = make(chan struct{})
		holdWG      sync.WaitGroup
		// control connections of established SOCKS5 UDP associations, as the harness server sees them
		ctrlEstablished, ctrlClosed atomic.Int64
	)
	upstreamAddr := ""
	switch sc.Upstream {
	case "socks5-hold":
		holdLn, err = net.ListenTCP("tcp4", &net.TCPAddr{IP: net.IPv4(127, 0, 0, 1)})
		if err != nil {
			res.Err = err.Error()
			return
		}
		upstreamAddr = holdLn.Addr().String()
		holdWG.Add(1)
		go func() {
			defer holdWG.Done()
			for {
				tc, err := holdLn.AcceptTCP()
				if err != nil {
					return
				}
				holdWG.Add(1)
				go func() {
					defer holdWG.Done()
					defer tc.Close()
					b := make([]byte, 512)
					if _, err := io.ReadFull(tc, b[:3]); err != nil {
						return
					}
					holdConns <- tc
					<-holdRelease
					if !sc.ReleaseOK {
						return
					}
					tc.Write([]byte{5, 0})
					tc.SetReadDeadline(time.Now().Add(2 * time.Second))
					if _, err := tc.Read(b); err != nil {
						return
					}
					p := tgtAddr.Port()
					if _, err := tc.Write([]byte{5, 0, 0, 1, 127, 0, 0, 1, byte(p >> 8), byte(p)}); err != nil {
						return
					}
					// The association is established: from here on the CLIENT SESSION owns the control connection.
					// Never close it first: session Close wakes the client session's keep-alive goroutine, which closes the
					// TCP connection.  If the harness closed it, a client session leaked on an init-abort or tear-down path
					// (goroutine + control connection) would be cleaned up by the harness and stay invisible.
					ctrlEstablished.Add(1)
					tc.SetReadDeadline(time.Time{})
					for {
						if _, err := tc.Read(b); err != nil {
							break // closed by the client (or by the harness at the very end of the run)
						}
					}
					ctrlClosed.Add(1)
				}()
			}
		}()
	case "refused":
		l, err := net.ListenTCP("tcp4", &net.TCPAddr{IP: net.IPv4(127, 0, 0, 1)})
		if err != nil {
			res.Err = err.Error()
			return
		}
		upstreamAddr = l.Addr().String()
		l.Close()
	}

	psk := make([]byte, 16)
	for i := range psk {
		psk[i] = byte(sc.Seed>>uint(i%8*8)) ^ byte(i*37)
	}
	psk64 := base64.StdEncoding.EncodeToString(psk)

	// ---- configuration ----
	srv := map[string]any{
		"name": "s", "mtu": 1500,
		"udpListeners": []any{map[string]any{"network": "udp4", "address": "127.0.0.1:0", "batchMode": sc.Batch,
			"natTimeout": (time.Duration(sc.NatMs) * time.Millisecond).String()}},
	}
	switch sc.Server {
	case "direct":
		srv["protocol"] = "direct"
		srv["tunnelRemoteAddress"] = tgtAddr.String()
	case "socks5":
		srv["protocol"] = "socks5"
	case "ss2022":
		srv["protocol"] = "2022-blake3-aes-128-gcm"
		srv["psk"] = psk64
	default:
		res.Err = "unknown server " + sc.Server
		return
	}
	cfgm := map[string]any{"servers": []any{srv}}
	switch sc.Upstream {
	case "direct", "":
		if sc.Unpack == "oversize" {
			// the outgoing client's path MTU is smaller than the server's
			cfgm["clients"] = []any{map[string]any{"name": "up", "protocol": "direct", "enableUDP": true, "mtu": 1400}}
		}
	case "socks5-hold", "refused":
		cfgm["clients"] = []any{map[string]any{"name": "up", "protocol": "socks5", "network": "ip4", "endpoint": upstreamAddr, "enableUDP": true, "mtu": 1500}}
	case "unresolvable":
		cfgm["clients"] = []any{map[string]any{"name": "up", "protocol": "none", "network": "ip4", "endpoint": "nonexistent.invalid:9", "enableUDP": true, "mtu": 1500}}
	case "reject":
		cfgm["router"] = map[string]any{"routes": []any{map[string]any{"name": "r", "client": "reject"}}}
	default:
		res.Err = "unknown upstream " + sc.Upstream
		return
	}
	cj, _ := json.Marshal(cfgm)
	var cfg service.Config
	if err := json.Unmarshal(cj, &cfg); err != nil {
		res.Err = "config: " + err.Error()
		return
	}

	core, logs := observer.New(zap.InfoLevel)
	logger := zap.New(core)
	watch := &logWatch{logs}

	res.GBase, res.FBase = runtime.NumGoroutine(), countFds()

	m, err := cfg.Manager(logger)
	if err != nil {
		res.Err = "manager: " + err.Error()
		return
	}
	ctx, cancel := context.WithCancel(context.Background())
	defer cancel()
	done := make(chan struct{})
	go func() {
		res.RunOK = m.Run(ctx)
		close(done)
	}()
	addr := watch.listenAddr(20 * time.Second)
	if addr == "" {
		res.Err = "relay did not start"
		return
	}
	res.Addr = addr
	relay := netip.MustParseAddrPort(addr)
	time.Sleep(20 * time.Millisecond)
	res.GRun, res.FRun = runtime.NumGoroutine(), countFds()

	// ---- clients ----
	if sc.Clients < 1 {
		sc.Clients = 1
	}
	if sc.PayLen < 8 {
		sc.PayLen = 8
	}
	var clients []*client
	var ssClient *ss2022.UDPClient
	if sc.Server == "ss2022" {
		cc, err := ss2022.NewClientCipherConfig(psk, nil, true)
		if err != nil {
			res.Err = err.Error()
			return
		}
		ssClient = ss2022.NewUDPClient("h", "ip4", conn.AddrFromIPPort(relay), 1500, conn.ListenConfig{}, 0, cc, ss2022.NoPadding)
	}
	for i := 0; i < sc.Clients; i++ {
		uc, err := net.ListenUDP("udp4", &net.UDPAddr{IP: net.IPv4(127, 0, 0, 1)})
		if err != nil {
			res.Err = err.Error()
			return
		}
		c := &client{uc: uc, relay: relay, server: sc.Server, target: tgtAddr, payload: make([]byte, sc.PayLen)}
		for j := range c.payload {
			c.payload[j] = byte(i + j)
		}
		if ssClient != nil {
			info, sess, err := ssClient.NewSession(context.Background())
			if err != nil {
				res.Err = err.Error()
				return
			}
			c.packer, c.front, c.rear = sess.Packer, info.PackerHeadroom.Front, info.PackerHeadroom.Rear
		}
		clients = append(clients, c)
	}
	// client sockets belong to the harness: include them in every baseline
	res.FBase += len(clients)
	nc := len(clients)

	var seq uint32
	sendAll := func() {
		for _, c := range clients {
			seq++
			if c.send(seq) == nil {
				res.Sent++
			}
		}
	}
	firstReplies := func() bool {
		ok := true
		for _, c := range clients {
			got := false
			ck := newClock()
			for !got && ck.effective() < 6*time.Second && ck.wall() < 30*time.Second {
				got = c.recvAny(time.Second)
				if !got {
					seq++
					c.send(seq)
				}
			}
			ok = ok && got
		}
		return ok
	}

	natTimeout := time.Duration(sc.NatMs) * time.Millisecond
	watchAt := natTimeout / 2
	if watchAt > 4*time.Second {
		watchAt = 4 * time.Second
	}
	if watchAt < 2*time.Second {
		watchAt = 2 * time.Second
	}
	maxWait := natTimeout + 2*time.Second
	if maxWait > 11*time.Second {
		maxWait = watchAt + 500*time.Millisecond
	}

	// stop calls cancel (Manager.Run then calls Stop on every service) and measures until Run returns.
	// `from` is the instant from which only in-flight work remains.  From natTimeout/2 (at most 4 s) after that
	// instant the relay's goroutines are inspected every 250 ms while Stop has not returned: if Stop is parked in
	// wg.Wait, a downlink is parked in the net poller and no relay goroutine is runnable or running, no in-flight work
	// is left and only the NAT timer can end the wait (TimerWait).  Goroutines that are runnable but starved (loaded
	// machine) are in-flight work: the run goes on until Stop returns, the relay becomes quiescent, or maxWait passes.
	stop := func(from func() time.Time) {
		cancel()
		t0 := from()
		if d := time.Until(t0); d > 0 { // in-flight work ends later (held initialisation)
			select {
			case <-done:
			case <-time.After(d):
			}
		}
		ck := clockAt(t0)
		// Stop latency is counted in effective time: what the heartbeat shows this process was not running is subtracted
	wait:
		for ck.effective() < watchAt {
			select {
			case <-done:
				break wait
			case <-time.After(20 * time.Millisecond):
			}
		}
		returned := func() bool {
			select {
			case <-done:
				return true
			default:
				return false
			}
		}
		for !returned() {
			dump, q := classifyDump(stacks())
			if q {
				// look twice: a goroutine woken between two states is not quiescence
				time.Sleep(100 * time.Millisecond)
				if returned() {
					break
				}
				_, q = classifyDump(stacks())
			}
			if q {
				res.WaitDump, res.Quiescent, res.TimerWait = dump, true, true
				for !returned() && ck.effective() < maxWait && ck.wall() < maxWait+30*time.Second {
					time.Sleep(20 * time.Millisecond)
				}
				res.StopReturned = returned()
				res.StopMs = ck.effective().Milliseconds()
				res.StallMs = ck.stalled().Milliseconds()
				return
			}
			res.WaitDump = dump
			res.BusyPolls++
			if ck.effective() > maxWait+10*time.Second || ck.wall() > maxWait+60*time.Second {
				res.StopMs = ck.effective().Milliseconds()
				res.StallMs = ck.stalled().Milliseconds()
				return
			}
			select {
			case <-done:
			case <-time.After(250 * time.Millisecond):
			}
		}
		res.StopReturned = true
		res.StopMs = ck.effective().Milliseconds()
		res.StallMs = ck.stalled().Milliseconds()
	}
	now := func() time.Time { return time.Now() }

	switch sc.Kind {
	case "evict":
		sendAll()
		res.FirstReply = !sc.Echo || firstReplies()
		// idle: nothing is sent; the session must be torn down after natTimeout
		res.Evicted = watch.wait("Finished relay serverConn -> natConn", nc, natTimeout+3*time.Second)
		res.GAfterEvict, res.FAfterEvict = settle(res.GRun, res.FRun+nc, 2*time.Second)
		if res.GAfterEvict > res.GRun || res.FAfterEvict > res.FRun+nc {
			res.LeakDump = trimDump(stacks())
		}
		started := watch.count("relay started")
		sendAll()
		if sc.Echo {
			res.ReplyAfter = firstReplies()
		} else {
			res.ReplyAfter = watch.wait("relay started", started+nc, 2*time.Second)
		}
		stop(now)
	case "evict-unpackable":
		// the first and only datagram(s) of the session cannot be packed by the outgoing client: nothing is ever sent
		for _, c := range clients {
			seq++
			if c.sendKind(seq, sc.Unpack) == nil {
				res.Sent++
			}
		}
		res.FirstReply = watch.wait("relay started", nc, 2*time.Second) // the session exists
		res.PackFailures = 0
		res.Evicted = watch.wait("Finished relay serverConn -> natConn", nc, natTimeout+3*time.Second)
		res.PackFailures = watch.count("Failed to pack packet")
		res.GAfterEvict, res.FAfterEvict = settle(res.GRun, res.FRun+nc, 2*time.Second)
		if res.GAfterEvict > res.GRun || res.FAfterEvict > res.FRun+nc {
			res.LeakDump = trimDump(stacks())
		}
		// a normal datagram of the same client must round-trip through a fresh session
		sendAll()
		res.ReplyAfter = firstReplies()
		watch.wait("relay started", 2*nc, 2*time.Second)
		res.StartedAfter = watch.count("relay started")
		stop(now)
	case "stop-idle":
		sendAll()
		res.FirstReply = !sc.Echo || firstReplies()
		if !sc.Echo {
			watch.wait("relay started", nc, 2*time.Second)
		}
		time.Sleep(50 * time.Millisecond)
		stop(now)
	case "stop-flood":
		sendAll()
		res.FirstReply = !sc.Echo || firstReplies()
		var fl sync.WaitGroup
		var halt atomic.Bool
		for _, c := range clients {
			fl.Add(1)
			go func(c *client) {
				defer fl.Done()
				var s uint32 = 1 << 20
				var n int64
				for !halt.Load() {
					s++
					if c.send(s) == nil {
						n++
					}
					if n%64 == 0 {
						runtime.Gosched()
					}
				}
				atomic.AddInt64(&res.Sent, n)
			}(c)
			if sc.Echo {
				fl.Add(1)
				go func(c *client) { // drain replies so that the downlink's writes keep flowing
					defer fl.Done()
					b := make([]byte, 2048)
					for !halt.Load() {
						c.uc.SetReadDeadline(time.Now().Add(50 * time.Millisecond))
						if _, from, err := c.uc.ReadFromUDPAddrPort(b); err == nil && from == c.relay {
							atomic.AddInt64(&res.Replies, 1)
						}
					}
				}(c)
			}
		}
		time.Sleep(time.Duration(sc.FloodMs) * time.Millisecond)
		// the flood continues while Stop runs; it ends when Run returned or the watchdog gave up
		go func() {
			select {
			case <-done:
			case <-time.After(watchAt - 200*time.Millisecond):
			}
			halt.Store(true)
		}()
		stop(now)
		halt.Store(true)
		fl.Wait()
	case "stop-init":
		sendAll()
		held := 0
		to := time.After(15 * time.Second)
	waitHeld:
		for held < nc {
			select {
			case <-holdConns:
				held++
			case <-to:
				break waitHeld
			}
		}
		if held < nc {
			res.Err = fmt.Sprintf("only %d of %d initialisers reached the held handshake", held, nc)
		}
		var releasedAt time.Time
		if sc.ReleaseMs < 0 {
			close(holdRelease)
			releasedAt = time.Now()
			time.Sleep(time.Duration(-sc.ReleaseMs) * time.Millisecond / 10) // tenths of ms before Stop
			stop(now)
		} else {
			var mu sync.Mutex
			go func() {
				time.Sleep(time.Duration(sc.ReleaseMs) * time.Millisecond)
				mu.Lock()
				releasedAt = time.Now()
				mu.Unlock()
				close(holdRelease)
			}()
			stop(func() time.Time {
				// in-flight work ends when the held handshake is released
				return time.Now().Add(time.Duration(sc.ReleaseMs) * time.Millisecond)
			})
			mu.Lock()
			_ = releasedAt
			mu.Unlock()
		}
	case "init-fail":
		for k := 0; k < 3; k++ {
			sendAll()
			time.Sleep(40 * time.Millisecond)
		}
		for _, c := range clients {
			if c.recvAny(100 * time.Millisecond) {
				res.Replies++
			}
		}
		res.GAfterEvict, res.FAfterEvict = settle(res.GRun, res.FRun+nc, 2*time.Second)
		if res.GAfterEvict > res.GRun || res.FAfterEvict > res.FRun+nc {
			res.LeakDump = trimDump(stacks())
		}
		stop(now)
	default:
		res.Err = "unknown kind " + sc.Kind
	}

	if res.StopReturned {
		m.Close()
		res.GEnd, res.FEnd = settle(res.GBase, res.FBase, 2*time.Second)
		if sc.Upstream == "socks5-hold" {
			// resources owned by the upstream client session: the harness SOCKS5 server's view of the control connections
			// (every established association must have been closed BY THE CLIENT) and the child's goroutine dump
			patient(5*time.Second, func() bool { return ctrlClosed.Load() >= ctrlEstablished.Load() })
			res.CtrlEstablished = int(ctrlEstablished.Load())
			res.CtrlOpen = int(ctrlEstablished.Load() - ctrlClosed.Load())
			d := stacks()
			for _, g := range strings.Split(d, "\n\n") {
				if strings.Contains(g, "Socks5UDPClient).newSession") {
					res.ClientSessionGoroutines++
					head, _, _ := strings.Cut(g, "\n")
					if len(res.ClientSessionDump) < 600 {
						res.ClientSessionDump += head + " direct.(*Socks5UDPClient).newSession.func1; "
					}
				}
			}
		}
		if res.GEnd > res.GBase || res.FEnd > res.FBase {
			res.LeakDump = trimDump(stacks())
		}
	}
	res.Started = watch.count("relay started")
	res.UpFinished = watch.count("Finished relay serverConn -> natConn")
	res.DownFinished = watch.count("Finished relay serverConn <- natConn")
	res.RecvFinished = watch.count("Finished receiving from serverConn")
	res.InitFailures = watch.count("Failed to get UDP client") + watch.count("Failed to create new UDP client session") +
		watch.count("Failed to create UDP socket") + watch.count("Failed to create packer")
	for _, e := range logs.All() {
		if len(res.Events) < 40 && (strings.Contains(e.Message, "relay") || strings.Contains(e.Message, "Finished") || strings.Contains(e.Message, "Stopped") || strings.Contains(e.Message, "Failed")) {
			res.Events = append(res.Events, e.Message)
		}
	}
	for _, c := range clients {
		c.uc.Close()
	}
	tgt.Close()
	if holdLn != nil {
		holdLn.Close()
		select {
		case <-holdRelease:
		default:
			close(holdRelease)
		}
	}
	return
}

// classifyDump extracts the relay goroutines from a full goroutine dump and decides whether the relay is quiescent:
// Stop is parked in a WaitGroup, and every other relay goroutine is parked in the net poller or on a channel receive.
func classifyDump(d string) (string, bool) {
	var keep []string
	stopWaiting, downBlocked, busy := false, 0, 0
	for _, g := range strings.Split(d, "\n\n") {
		if !strings.Contains(g, "shadowsocks-go/service.") {
			continue
		}
		head, _, _ := strings.Cut(g, "\n")
		var fn string
		for _, l := range strings.Split(g, "\n") {
			if strings.Contains(l, "shadowsocks-go/service.(") {
				fn = strings.TrimSpace(l)
				if i := strings.Index(fn, "("); i >= 0 {
					fn = fn[strings.LastIndex(fn[:strings.LastIndex(fn, "(")], "/")+1:]
				}
				break
			}
		}
		keep = append(keep, head+" "+fn)
		parked := strings.Contains(head, "[IO wait") || strings.Contains(head, "[chan receive") || strings.Contains(head, "[sync.WaitGroup.Wait") || strings.Contains(head, "[semacquire") || strings.Contains(head, "[select")
		switch {
		case strings.Contains(g, ").Stop"):
			stopWaiting = strings.Contains(head, "WaitGroup") || strings.Contains(head, "semacquire")
		case strings.Contains(g, "relayNatConnToServerConn") && strings.Contains(head, "[IO wait"):
			downBlocked++
		case !parked:
			busy++
		}
	}
	return strings.Join(keep, " | "), stopWaiting && downBlocked > 0 && busy == 0
}

func trimDump(d string) string {
	var keep []string
	for _, g := range strings.Split(d, "\n\n") {
		if strings.Contains(g, "shadowsocks-go/") && !strings.Contains(g, "corr_c12") || strings.Contains(g, "shadowsocks-go/service.") {
			ls := strings.Split(g, "\n")
			if len(ls) > 7 {
				ls = ls[:7]
			}
			keep = append(keep, strings.Join(ls, "\n"))
		}
	}
	s := strings.Join(keep, "\n\n")
	if len(s) > 3000 {
		s = s[:3000]
	}
	return s
}
