// corr_c12: correspondence + property oracle for C12 (UDP sessions end cleanly).
//
// Engine "udplife": real relays (service.Config -> Manager) on loopback, one child process per life-cycle run
// (see child.go).  Scenarios: idle eviction then a new packet, Stop while idle, Stop under flood, Stop during a
// held initialisation (released with success or failure, before or after Stop), initialisation failures
// (router reject, unresolvable upstream, refused upstream).  Measured per run: Stop latency against the NAT
// timeout, goroutine and socket counts against the baselines, reply after eviction, panics.
//
// The property oracle is written from the statement (oracle()); the correspondence compares the abstract outcome
// of each run with the set of outcomes the Lean model allows for that scenario and relay file
// (driver op `explore <variant> <scenario>`: exhaustive exploration of the executable model).
package main

import (
	"bytes"
	"context"
	"encoding/json"
	"fmt"
	"os"
	"os/exec"
	"sort"
	"strings"
	"sync"
	"time"

	"ssvharness/internal/common"

	"github.com/database64128/shadowsocks-go/ss2022"
)

const f9Key = "F9:stop-under-flood-waits-nat-timeout"

type runOut struct {
	Sc      Scenario `json:"scenario"`
	Res     Result   `json:"result"`
	Crash   string   `json:"crash,omitempty"`
	Timeout bool     `json:"timeout,omitempty"`
	WallMs  int64    `json:"wall_ms"`
}

func runOne(sc Scenario, limitFactor int) runOut {
	out := runOut{Sc: sc}
	exe, err := os.Executable()
	if err != nil {
		out.Res.Err = err.Error()
		return out
	}
	js, _ := json.Marshal(sc)
	limit := time.Duration(sc.NatMs)*time.Millisecond*2 + 30*time.Second
	if limit > 120*time.Second && sc.Kind != "evict" {
		limit = 120 * time.Second
	}
	limit += 60 * time.Second // the child's own waits are counted in effective time and may stretch on a loaded machine
	limit *= time.Duration(limitFactor)
	ctx, cancel := context.WithTimeout(context.Background(), limit)
	defer cancel()
	cmd := exec.CommandContext(ctx, exe, "--child", string(js))
	var so, se bytes.Buffer
	cmd.Stdout, cmd.Stderr = &so, &se
	procs := sc.Procs
	if procs <= 0 {
		procs = 4
	}
	cmd.Env = append(os.Environ(), fmt.Sprintf("GOMAXPROCS=%d", procs))
	t0 := time.Now()
	err = cmd.Run()
	out.WallMs = time.Since(t0).Milliseconds()
	if ctx.Err() != nil {
		out.Timeout = true
		out.Crash = "child exceeded " + limit.String()
		return out
	}
	if err != nil {
		tail := se.String()
		if i := strings.Index(tail, "panic:"); i >= 0 {
			tail = tail[i:]
		} else if i := strings.Index(tail, "fatal error:"); i >= 0 {
			tail = tail[i:]
		}
		if len(tail) > 1500 {
			tail = tail[:1500]
		}
		out.Crash = fmt.Sprintf("%v: %s", err, tail)
		return out
	}
	if err := json.Unmarshal(so.Bytes(), &out.Res); err != nil {
		out.Res.Err = "child output: " + err.Error()
	}
	return out
}

// confirmable: verdicts read off goroutine/socket counts, log events and replies after a wait, or a child that did not
// finish: a starved machine can produce them, so they need the confirmation run.  Not confirmable (evidence by
// themselves): a quiescent relay waiting for the NAT timer (F9 class), a panic.
func confirmable(key string) bool {
	for _, p := range []string{"goroutine-leak", "socket-leak", "not-evicted", "never-evicted", "no-restart-after-eviction", "session-not-working", "wedged", "stop-not-returning"} {
		if strings.HasPrefix(key, p) {
			return true
		}
	}
	return false
}

func variantOf(sc Scenario) string {
	v := "nat"
	if sc.Server == "ss2022" {
		v = "session"
	}
	if sc.Batch == "no" {
		return v + "Generic"
	}
	return v + "Mmsg"
}

// watchMs: the Stop latency from which a run counts as "waited for the NAT timer": natTimeout/2, at most 4 s.
// Stop latency is judged in the runs configured with a long NAT timeout (8-10 s, 60 s for ss2022); the eviction runs
// need a 1-1.6 s timeout, where half of it is within scheduling noise of a loaded machine: they are not used to
// judge Stop latency (floor 2 s, above their whole NAT timeout).
func watchMs(sc Scenario) int64 {
	w := int64(sc.NatMs) / 2
	if w > 4000 {
		w = 4000
	}
	if w < 2000 {
		w = 2000
	}
	return w
}

type failure struct{ key, detail string }

// oracle: the property statement evaluated on what the run showed.
func oracle(o runOut) (fs []failure) {
	sc, r := o.Sc, o.Res
	tag := fmt.Sprintf("%s/%s", sc.Server, sc.Batch)
	if o.Crash != "" {
		if o.Timeout {
			return []failure{{"wedged:" + sc.Kind, tag + ": " + o.Crash}}
		}
		return []failure{{"panic:" + sc.Kind, tag + ": " + o.Crash}}
	}
	if r.Err != "" {
		return nil // harness-level problem, handled by the caller
	}
	// stop returns promptly: bounded by in-flight work, not by the NAT timeout.
	// Violated when, natTimeout/2 (at most 4 s) after only in-flight work was left, Stop has not returned although the
	// relay is quiescent (Stop parked in wg.Wait, downlink parked in the poller, nothing runnable): only the NAT timer
	// can end that wait.  Runnable-but-starved goroutines (loaded machine) are in-flight work.
	if r.TimerWait {
		key := "stop-waits-nat-timeout:" + sc.Kind
		if sc.Kind == "stop-flood" {
			key = f9Key
		}
		fs = append(fs, failure{key, fmt.Sprintf("%s natTimeout=%dms: Stop had not returned %d ms after only in-flight work was left and the relay was quiescent; it returned=%v after %d ms of effective time (%d ms of measured scheduling stall subtracted); relay goroutines then: %s",
			tag, sc.NatMs, watchMs(sc), r.StopReturned, r.StopMs, r.StallMs, r.WaitDump)})
	} else if !r.StopReturned {
		fs = append(fs, failure{"stop-not-returning:" + sc.Kind, fmt.Sprintf("%s natTimeout=%dms: Stop has not returned after %d ms, relay goroutines still busy: %s", tag, sc.NatMs, r.StopMs, r.WaitDump)})
	}
	// resources owned by the upstream client session (keep-alive goroutine, TCP control connection) are released on
	// every init-abort and tear-down path: seen from the harness SOCKS5 server (a control connection it never closes
	// is still open 5 s of effective time after Stop returned) and in the child's goroutine dump
	if r.StopReturned && (r.CtrlOpen > 0 || r.ClientSessionGoroutines > 0) {
		fs = append(fs, failure{"client-session-leak:" + sc.Kind, fmt.Sprintf("%s upstream=%s GOMAXPROCS=%d release ok=%v at %+d ms: after Stop returned %d of %d SOCKS5 control connections were never closed by the relay, %d client-session goroutines alive: %s",
			tag, sc.Upstream, sc.Procs, sc.ReleaseOK, sc.ReleaseMs, r.CtrlOpen, r.CtrlEstablished, r.ClientSessionGoroutines, r.ClientSessionDump)})
	}
	// neither goroutines nor sockets leak
	if r.StopReturned {
		if r.GEnd > r.GBase {
			fs = append(fs, failure{"goroutine-leak:" + sc.Kind, fmt.Sprintf("%s: %d goroutines before Start, %d after Stop\n%s", tag, r.GBase, r.GEnd, r.LeakDump)})
		}
		if r.FEnd > r.FBase {
			fs = append(fs, failure{"socket-leak:" + sc.Kind, fmt.Sprintf("%s: %d sockets before Start, %d after Stop", tag, r.FBase, r.FEnd)})
		}
	}
	nc := sc.Clients
	switch sc.Kind {
	case "evict":
		if sc.Echo && !r.FirstReply {
			fs = append(fs, failure{"session-not-working", tag + ": no reply to the first packet"})
		}
		if !r.Evicted {
			fs = append(fs, failure{"not-evicted", fmt.Sprintf("%s: session still alive %d ms + 3 s after its last packet", tag, sc.NatMs)})
		} else {
			if r.GAfterEvict > r.GRun {
				fs = append(fs, failure{"goroutine-leak:after-eviction", fmt.Sprintf("%s: %d goroutines with no session, %d after eviction\n%s", tag, r.GRun, r.GAfterEvict, r.LeakDump)})
			}
			if r.FAfterEvict > r.FRun+nc {
				fs = append(fs, failure{"socket-leak:after-eviction", fmt.Sprintf("%s: %d sockets with no session, %d after eviction", tag, r.FRun+nc, r.FAfterEvict)})
			}
			if !r.ReplyAfter {
				fs = append(fs, failure{"no-restart-after-eviction", tag + ": a packet from the same client after eviction did not start a working session"})
			}
		}
	case "evict-unpackable":
		// eviction must not depend on a successful send
		if !r.FirstReply {
			break // the session was never created: nothing to evict (reported as setup problem by the caller)
		}
		if !r.Evicted {
			fs = append(fs, failure{"never-evicted:unpackable", fmt.Sprintf("%s (%s): a session whose only datagram could not be packed (%d pack failures logged) is still alive %d ms + 3 s after its last client packet; goroutines %d (idle %d), sockets %d (idle %d)",
				tag, sc.Unpack, r.PackFailures, sc.NatMs, r.GAfterEvict, r.GRun, r.FAfterEvict, r.FRun+nc)})
		} else {
			if r.GAfterEvict > r.GRun {
				fs = append(fs, failure{"goroutine-leak:after-eviction:unpackable", fmt.Sprintf("%s: %d goroutines with no session, %d after eviction\n%s", tag, r.GRun, r.GAfterEvict, r.LeakDump)})
			}
			if r.FAfterEvict > r.FRun+nc {
				fs = append(fs, failure{"socket-leak:after-eviction:unpackable", fmt.Sprintf("%s: %d sockets with no session, %d after eviction", tag, r.FRun+nc, r.FAfterEvict)})
			}
			if !r.ReplyAfter || r.StartedAfter < 2*nc {
				fs = append(fs, failure{"no-restart-after-eviction:unpackable", fmt.Sprintf("%s: a normal packet after the eviction did not round-trip through a fresh session (reply=%v, sessions started=%d); events: %s", tag, r.ReplyAfter, r.StartedAfter, strings.Join(r.Events, " | "))})
			}
		}
	case "init-fail":
		if r.GAfterEvict > r.GRun {
			fs = append(fs, failure{"goroutine-leak:init-fail:" + sc.Upstream, fmt.Sprintf("%s: %d goroutines idle, %d after failed initialisations\n%s", tag, r.GRun, r.GAfterEvict, r.LeakDump)})
		}
		if r.FAfterEvict > r.FRun+nc {
			fs = append(fs, failure{"socket-leak:init-fail:" + sc.Upstream, fmt.Sprintf("%s: %d sockets idle, %d after failed initialisations", tag, r.FRun+nc, r.FAfterEvict)})
		}
	}
	return
}

// observe maps a run to the abstract outcome compared with the model.
func observe(o runOut) map[string]string {
	r := o.Res
	m := map[string]string{"panic": "no", "stop": "prompt", "leak": "no"}
	if o.Crash != "" {
		m["panic"] = "yes"
		return m
	}
	if r.TimerWait || !r.StopReturned {
		m["stop"] = "timer"
	} else if r.GEnd > r.GBase || r.FEnd > r.FBase {
		m["leak"] = "yes"
	}
	if o.Sc.Kind == "evict" || (o.Sc.Kind == "evict-unpackable" && r.FirstReply) {
		m["evict"] = yn(r.Evicted)
		if r.Evicted {
			m["restart"] = yn(r.ReplyAfter && (o.Sc.Kind == "evict" || r.StartedAfter >= 2*o.Sc.Clients))
			if r.GAfterEvict > r.GRun || r.FAfterEvict > r.FRun+o.Sc.Clients {
				m["leak"] = "yes"
			}
		}
	}
	if o.Sc.Kind == "init-fail" && (r.GAfterEvict > r.GRun || r.FAfterEvict > r.FRun+o.Sc.Clients) {
		m["leak"] = "yes"
	}
	return m
}

func yn(b bool) string {
	if b {
		return "yes"
	}
	return "no"
}

func modelScenario(sc Scenario) string {
	switch sc.Kind {
	case "stop-init":
		if sc.ReleaseOK {
			return "stop-init-ok"
		}
		return "stop-init-fail"
	}
	return sc.Kind
}

// parseAllowed: "stop=prompt,timer leak=no panic=no" -> map key -> set
func parseAllowed(line string) map[string]map[string]bool {
	res := map[string]map[string]bool{}
	for _, f := range strings.Fields(line) {
		k, v, ok := strings.Cut(f, "=")
		if !ok {
			continue
		}
		res[k] = map[string]bool{}
		for _, x := range strings.Split(v, ",") {
			res[k][x] = true
		}
	}
	return res
}

type engine struct {
	o       *common.Options
	rep     *common.Report
	drv     *common.Driver
	allowed map[string]string
	mu      sync.Mutex
}

func (e *engine) modelAllowed(sc Scenario) (string, error) {
	if e.drv == nil {
		return "", nil
	}
	q := "explore " + variantOf(sc) + " " + modelScenario(sc)
	if a, ok := e.allowed[q]; ok {
		return a, nil
	}
	a, err := e.drv.Ask(q)
	if err != nil {
		return "", err
	}
	e.allowed[q] = a
	return a, nil
}

func (e *engine) evaluate(o runOut, fails []failure) error {
	e.mu.Lock()
	defer e.mu.Unlock()
	sc, rep := o.Sc, e.rep
	obs := observe(o)
	var ks []string
	for k := range obs {
		ks = append(ks, k+"="+obs[k])
	}
	sort.Strings(ks)
	sig := fmt.Sprintf("%s%s %s/%s/%s nat=%d c=%d echo=%v rel=%v@%d p=%d | %s", sc.Kind, sc.Unpack, sc.Server, sc.Batch, sc.Upstream, sc.NatMs, sc.Clients, sc.Echo, sc.ReleaseOK, sc.ReleaseMs, sc.Procs, strings.Join(ks, " "))
	nontrivial := o.Crash == "" && o.Res.Err == "" && (o.Res.Started > 0 || o.Res.InitFailures > 0)
	rep.Case(sig, nontrivial)
	rep.Count("kind=" + sc.Kind)
	rep.Count("variant=" + variantOf(sc))
	rep.Count("stop=" + obs["stop"])
	if o.Res.BusyPolls > 0 && !o.Res.TimerWait {
		rep.Count("stop-slow-but-busy(starved)")
	}
	if sc.Upstream != "direct" {
		rep.Count("upstream=" + sc.Upstream)
	}
	rep.Sample(map[string]any{"scenario": sc, "observed": strings.Join(ks, " "), "stop_ms": o.Res.StopMs, "started": o.Res.Started,
		"goroutines": []int{o.Res.GBase, o.Res.GRun, o.Res.GEnd}, "sockets": []int{o.Res.FBase, o.Res.FRun, o.Res.FEnd}, "sent": o.Res.Sent})
	if o.Crash == "" && o.Res.Err == "" && sc.Kind == "evict-unpackable" && !o.Res.FirstReply {
		rep.Count("setup:unpackable-session-not-created")
	}
	if o.Crash == "" && o.Res.Err == "" && sc.Echo && !o.Res.FirstReply && sc.Kind != "evict" && sc.Kind != "evict-unpackable" && sc.Kind != "stop-init" && sc.Kind != "init-fail" {
		rep.Count("setup:no-first-reply")
	}
	if o.Crash == "" && o.Res.Err != "" {
		rep.Note("harness: %s %s/%s: %s", sc.Kind, sc.Server, sc.Batch, o.Res.Err)
		rep.Count("harness-error")
		return nil
	}
	for _, f := range fails {
		rep.Fail(common.OracleFailure{Engine: "udplife", Key: f.key, Case: sc, Detail: f.detail})
	}
	if sc.Kind == "stop-flood" && sc.Batch == "no" && sc.Server != "ss2022" {
		if obs["stop"] == "timer" {
			rep.FindingsProbed[f9Key] = true
		} else if _, ok := rep.FindingsProbed[f9Key]; !ok {
			rep.FindingsProbed[f9Key] = false
		}
	}
	allowed, err := e.modelAllowed(sc)
	if err != nil {
		return err
	}
	if allowed != "" {
		am := parseAllowed(allowed)
		var bad []string
		for k, v := range obs {
			if set, ok := am[k]; ok && !set[v] {
				bad = append(bad, k+"="+v)
			}
		}
		if len(bad) > 0 {
			sort.Strings(bad)
			rep.Diverge(common.Divergence{Engine: "udplife", Case: sc, Impl: strings.Join(ks, " "), Model: allowed,
				Note: "the run shows an outcome the model excludes: " + strings.Join(bad, " ")})
		}
		rep.TracesValidated++
	}
	return nil
}

type variant struct{ server, batch string }

var natVariants = []variant{{"direct", "no"}, {"direct", "sendmmsg"}, {"socks5", "no"}, {"socks5", "sendmmsg"}}
var sessVariants = []variant{{"ss2022", "no"}, {"ss2022", "sendmmsg"}}

func natMsFor(v variant, kind string, r *common.Rng) int {
	if v.server == "ss2022" {
		return int(ss2022.ReplayWindowDuration / time.Millisecond) // the replay window is the minimum NAT timeout of ss2022
	}
	if kind == "evict" {
		return r.Range(10, 16) * 100
	}
	return r.Range(8, 10) * 1000
}

// generate builds the scenario list of one tier; i-th scenario derives from r.Fork(i).
func generate(r *common.Rng, n int, search bool, thorough bool) []Scenario {
	var scs []Scenario
	add := func(sc Scenario) {
		sc.Seed = r.Fork(uint64(len(scs))).U64()
		if sc.Clients == 0 {
			sc.Clients = 1
		}
		if sc.Upstream == "" {
			sc.Upstream = "direct"
		}
		if sc.PayLen == 0 {
			sc.PayLen = 64
		}
		scs = append(scs, sc)
	}
	all := append(append([]variant{}, natVariants...), sessVariants...)
	round := 0
	for len(scs) < n {
		rr := r.Fork(uint64(1000 + round))
		// the directed probe of F9 first: flood on the generic NAT path (the recipe that reproduced it 3/6)
		for k := 0; k < 6; k++ {
			v := natVariants[(k%2)*2] // direct/no, socks5/no
			add(Scenario{Kind: "stop-flood", Server: v.server, Batch: "no", NatMs: 8000, Clients: 1 + k%3, FloodMs: rr.Range(150, 450), Echo: k%2 == 0})
		}
		if search {
			for k := 0; k < 10; k++ {
				v := common.Pick(rr, all)
				add(Scenario{Kind: "stop-flood", Server: v.server, Batch: v.batch, NatMs: natMsFor(v, "stop-flood", rr), Clients: rr.Range(1, 4), FloodMs: rr.Range(100, 600), Echo: rr.Bool()})
			}
		}
		for _, v := range all {
			add(Scenario{Kind: "stop-flood", Server: v.server, Batch: v.batch, NatMs: natMsFor(v, "stop-flood", rr), Clients: rr.Range(1, 3), FloodMs: rr.Range(150, 500), Echo: rr.Bool()})
			add(Scenario{Kind: "stop-idle", Server: v.server, Batch: v.batch, NatMs: natMsFor(v, "stop-idle", rr), Clients: rr.Range(1, 3), Echo: true})
		}
		for _, v := range natVariants {
			add(Scenario{Kind: "evict", Server: v.server, Batch: v.batch, NatMs: natMsFor(v, "evict", rr), Clients: rr.Range(1, 2), Echo: true})
			// sessions whose uplink never sends: every datagram fails to pack
			up := "oversize"
			if v.server == "socks5" && (round%2 == 0) {
				up = "domain"
			}
			add(Scenario{Kind: "evict-unpackable", Unpack: up, Server: v.server, Batch: v.batch, NatMs: natMsFor(v, "evict", rr), Clients: rr.Range(1, 2), Echo: true})
		}
		for i, v := range all {
			// held initialisation released with success AFTER Stop was called: the initialiser's swap finds serverConn
			// (early return that owns the socket); and, alternating, released before Stop (race of the two swaps) or with failure
			after := []int{1, 5, 150}
			any := []int{-20, -5, 0, 1, 5, 150}
			add(Scenario{Kind: "stop-init", Server: v.server, Batch: v.batch, NatMs: natMsFor(v, "stop-init", rr), Upstream: "socks5-hold", ReleaseOK: true, ReleaseMs: after[rr.Intn(3)], Clients: rr.Range(1, 2)})
			// the same on one P: a goroutine the client session has just spawned has not run yet when the init-abort path closes the session
			add(Scenario{Kind: "stop-init", Server: v.server, Batch: v.batch, NatMs: natMsFor(v, "stop-init", rr), Upstream: "socks5-hold", ReleaseOK: true, ReleaseMs: after[rr.Intn(3)], Clients: rr.Range(1, 3), Procs: 1})
			if (i+round)%2 == 0 {
				add(Scenario{Kind: "stop-init", Server: v.server, Batch: v.batch, NatMs: natMsFor(v, "stop-init", rr), Upstream: "socks5-hold", ReleaseOK: true, ReleaseMs: []int{-20, -5, 0}[rr.Intn(3)], Clients: rr.Range(1, 2)})
			} else {
				add(Scenario{Kind: "stop-init", Server: v.server, Batch: v.batch, NatMs: natMsFor(v, "stop-init", rr), Upstream: "socks5-hold", ReleaseOK: false, ReleaseMs: any[rr.Intn(6)], Clients: rr.Range(1, 2)})
			}
			up := []string{"reject", "unresolvable", "refused"}[(i+round)%3]
			add(Scenario{Kind: "init-fail", Server: v.server, Batch: v.batch, NatMs: natMsFor(v, "init-fail", rr), Upstream: up, Clients: rr.Range(1, 2)})
		}
		round++
	}
	if thorough {
		// one real ss2022 eviction (its minimum NAT timeout is the replay window)
		add(Scenario{Kind: "evict", Server: "ss2022", Batch: "no", NatMs: int(ss2022.ReplayWindowDuration / time.Millisecond), Echo: true})
		add(Scenario{Kind: "evict", Server: "ss2022", Batch: "sendmmsg", NatMs: int(ss2022.ReplayWindowDuration / time.Millisecond), Echo: true})
	}
	return scs
}

func main() {
	if len(os.Args) >= 3 && os.Args[1] == "--child" {
		var sc Scenario
		if err := json.Unmarshal([]byte(os.Args[2]), &sc); err != nil {
			fmt.Fprintln(os.Stderr, err)
			os.Exit(3)
		}
		res := runChild(sc)
		b, _ := json.Marshal(res)
		os.Stdout.Write(b)
		os.Exit(0)
	}
	o := common.ParseFlags()
	rep := common.NewReport("C12", o)
	rep.Engines = []string{"udplife"}
	rep.Rule = "engine udplife: one child process per life-cycle run of a real relay (service.Config -> Manager) on loopback; " +
		"scenario = kind {evict, evict-unpackable (the session's only datagrams cannot be packed: oversize for the client MTU / unresolvable domain), stop-idle, stop-flood, stop-init (held SOCKS5 handshake released ok/fail before/after Stop), init-fail (reject/unresolvable/refused)} x " +
		"relay file {NAT, session} x {generic, mmsg} x server protocol x clients x echo; a run is non-trivial if at least one session was started or failed to initialise; " +
		"distinct by scenario parameters and abstract outcome (stop prompt/timer, leak, evicted, restarted, panic); stop=timer iff Stop has not returned natTimeout/2 (<= 4 s, >= 2 s) after only in-flight work was left while the relay is quiescent (Stop in wg.Wait, downlink in the poller, nothing runnable)"
	e := &engine{o: o, rep: rep, allowed: map[string]string{}}
	var err error
	if o.Driver != "" {
		e.drv, err = common.StartDriver(o.Driver)
		if err != nil {
			fmt.Fprintln(os.Stderr, "corr_c12:", err)
			os.Exit(3)
		}
		defer e.drv.Close()
	}
	var scs []Scenario
	if o.Replay != "" {
		var sc Scenario
		if err = common.LoadReplay(o.Replay, &sc); err == nil {
			// schedule-dependent: the same scenario is run several times
			for i := 0; i < 8; i++ {
				scs = append(scs, sc)
			}
		}
	} else {
		scs = generate(common.NewRng(o.Seed), o.Budget(50, 600), o.Search, o.Thorough())
	}
	if err == nil {
		par := 5
		sem := make(chan struct{}, par)
		var wg sync.WaitGroup
		var emu sync.Mutex
		var excl sync.RWMutex
		for _, sc := range scs {
			wg.Add(1)
			sem <- struct{}{}
			go func(sc Scenario) {
				defer wg.Done()
				defer func() { <-sem }()
				// first run: in parallel with up to par-1 other runs
				excl.RLock()
				out := runOne(sc, 1)
				excl.RUnlock()
				fails := oracle(out)
				// A verdict that can be produced by a starved machine (leak / eviction / restart counts, a wedged or
				// failed child) counts only if a second run of the same case, ALONE on the harness (nothing else in
				// parallel, doubled wall limit), shows it again.  Stop-latency verdicts (quiescent relay waiting for the
				// NAT timer) and panics are evidence by themselves.
				for attempt := 0; attempt < 2; attempt++ {
					need := out.Timeout || (out.Crash == "" && out.Res.Err != "")
					var keep []failure
					pending := map[string]bool{}
					for _, f := range fails {
						if confirmable(f.key) {
							pending[f.key] = true
						} else {
							keep = append(keep, f)
						}
					}
					if !need && len(pending) == 0 {
						break
					}
					excl.Lock()
					out2 := runOne(sc, 2)
					excl.Unlock()
					fails2 := oracle(out2)
					e.mu.Lock()
					for k := range pending {
						e.rep.Count("rerun-alone:" + strings.SplitN(k, ":", 2)[0])
					}
					if need {
						e.rep.Count("rerun-alone:child-timeout-or-error")
					}
					e.mu.Unlock()
					if out.Timeout && out2.Timeout {
						out, fails = out2, fails2 // wedged twice, the second time alone with a doubled limit
						break
					}
					if need {
						out, fails = out2, fails2 // the second run is the run; its own count verdicts need confirmation again
						continue
					}
					// confirmed = shown again by the run alone
					confirmed := keep
					for _, f := range fails2 {
						if pending[f.key] {
							f.detail += " [confirmed by a second run of the same case alone]"
							confirmed = append(confirmed, f)
						} else if !confirmable(f.key) {
							confirmed = append(confirmed, f)
						}
					}
					for k := range pending {
						found := false
						for _, f := range fails2 {
							found = found || f.key == k
						}
						if !found {
							e.mu.Lock()
							e.rep.Count("unconfirmed:" + k)
							e.mu.Unlock()
						}
					}
					out, fails = out2, confirmed
					break
				}
				if er := e.evaluate(out, fails); er != nil {
					emu.Lock()
					err = er
					emu.Unlock()
				}
			}(sc)
		}
		wg.Wait()
	}
	if err != nil {
		fmt.Fprintln(os.Stderr, "corr_c12:", err)
		rep.Note("engine error: %v", err)
		rep.Write(o.Out)
		os.Exit(3)
	}
	if rep.Distribution["harness-error"] > len(scs)/10 {
		rep.Note("too many harness-level errors (%d of %d runs)", rep.Distribution["harness-error"], len(scs))
		rep.Write(o.Out)
		os.Exit(3)
	}
	if err := rep.Write(o.Out); err != nil {
		fmt.Fprintln(os.Stderr, err)
		os.Exit(3)
	}
}
