// Engine "udpsess", side "eih": a multi-user Shadowsocks 2022 UDP server (identity headers, user lookup, per-user
// session keys) behind a session table kept the way service/udp_session.go keeps it (SessionInfo -> table lookup ->
// NewUnpacker for an unknown client session id -> UnpackInPlace -> the entry is stored only if that first packet
// unpacked), against SSV.Model.UdpMulti. Datagrams come from real EIH client packers (NewUDPClient with one iPSK)
// and from a crafter that holds all keys: any (identity-header user | unknown user, key user, client session id,
// packet id, header fields), replayed, bit-flipped, truncated.
//
// Oracle (from the statement, per (user, client session)): a (session id, packet id) is delivered at most once; a
// datagram sealed under another user's key than the session's, or whose identity header names no known user when
// its session does not exist yet, or otherwise invalid, is never delivered; a valid datagram with a fresh id is
// delivered; the username the server attributes to a session is the identity header's user.
package main

import (
	"context"
	"crypto/cipher"
	"encoding/binary"
	"errors"
	"fmt"
	"net/netip"
	"strconv"
	"strings"
	"time"

	"ssvharness/internal/common"

	"github.com/database64128/shadowsocks-go/conn"
	"github.com/database64128/shadowsocks-go/ss2022"
	"github.com/database64128/shadowsocks-go/zerocopy"
)

const eihUsers = 4

type eihKeys struct {
	iblock cipher.Block // AES(iPSK): separate header + identity header
	upsk   [][]byte
	ucc    []ss2022.UserCipherConfig
	hash   [][ss2022.IdentityHeaderLength]byte
}

func (k *eihKeys) aead(u int, sid uint64) cipher.AEAD {
	a, err := k.ucc[u].AEAD(be64(sid))
	if err != nil {
		panic(err)
	}
	return a
}

// craft: identity header names user eu (eu < 0: a hash no user has), body sealed under user ku's session key.
func (k *eihKeys) craft(eu, ku int, sid, pid uint64, typ int, ts int64, pad int, cut string, payload []byte, unknown [16]byte) []byte {
	var plain []byte
	plain = append(plain, byte(typ))
	plain = append(plain, be64(uint64(ts))...)
	tail := append(make([]byte, pad), 1, 1, 2, 3, 4, 0, 53)
	tail = append(tail, payload...)
	if cut == "pad" {
		plain = append(plain, byte((len(tail)+5)>>8), byte(len(tail)+5))
	} else {
		plain = append(plain, byte(pad>>8), byte(pad))
	}
	if cut == "addr" {
		tail[pad] = 9
	}
	plain = append(plain, tail...)
	if cut == "hdr" {
		plain = plain[:10-int(pid%3)]
	}
	hdr := append(be64(sid), be64(pid)...)
	ct := k.aead(ku, sid).Seal(nil, hdr[4:16], plain, nil)
	h := unknown
	if eu >= 0 {
		h = k.hash[eu]
	}
	id := make([]byte, 16)
	for i := range id {
		id[i] = h[i] ^ hdr[i]
	}
	k.iblock.Encrypt(id, id)
	enc := make([]byte, 16)
	k.iblock.Encrypt(enc, hdr)
	return append(append(enc, id...), ct...)
}

// etruth: what the multi-user server can observe of a datagram.
type etruth struct {
	sep, eih         bool
	eihUser, keyUser int // -1 = none
	tr               truth
}

func (k *eihKeys) decode(pkt []byte) (et etruth) {
	et.eihUser, et.keyUser = -1, -1
	et.sep = len(pkt) >= 16
	et.eih = len(pkt) >= 32
	et.tr.long = len(pkt) >= 48
	if !et.sep {
		return
	}
	hdr := make([]byte, 16)
	k.iblock.Decrypt(hdr, pkt[:16])
	et.tr.sid, et.tr.pid = binary.BigEndian.Uint64(hdr), binary.BigEndian.Uint64(hdr[8:])
	if !et.eih {
		return
	}
	id := make([]byte, 16)
	k.iblock.Decrypt(id, pkt[16:32])
	for i := range id {
		id[i] ^= hdr[i]
	}
	for u := range k.hash {
		if string(id) == string(k.hash[u][:]) {
			et.eihUser = u
		}
	}
	if !et.tr.long {
		return
	}
	for u := range k.ucc {
		plain, err := k.aead(u, et.tr.sid).Open(nil, hdr[4:16], pkt[32:], nil)
		if err != nil {
			continue
		}
		et.keyUser = u
		et.tr.auth = true
		if len(plain) < 11 {
			break
		}
		et.tr.hdr = true
		et.tr.typ = int(plain[0])
		et.tr.ts = int64(binary.BigEndian.Uint64(plain[1:]))
		p := int(binary.BigEndian.Uint16(plain[9:]))
		rest := plain[11:]
		et.tr.pad = p <= len(rest)
		et.tr.addr = et.tr.pad && len(rest)-p >= 7 && rest[p] == 1
		break
	}
	return
}

func optS(i int) string {
	if i < 0 {
		return "-"
	}
	return strconv.Itoa(i)
}

func classifyE(err error) string {
	if errors.Is(err, ss2022.ErrIdentityHeaderUserPSKNotFound) {
		return "user-not-found"
	}
	return classify(err)
}

func runEih(c UCase, res *uResult) {
	r := common.NewRng(c.Seed)
	ipsk := r.Bytes(c.PSKLen)
	k := &eihKeys{}
	icc, err := ss2022.NewServerIdentityCipherConfig(ipsk, true)
	if err != nil {
		res.setup = err.Error()
		return
	}
	k.iblock = icc.UDP()
	ulm := make(ss2022.UserLookupMap, eihUsers)
	for u := 0; u < eihUsers; u++ {
		psk := r.Bytes(c.PSKLen)
		ucc, err := ss2022.NewUserCipherConfig(psk, true)
		if err != nil {
			res.setup = err.Error()
			return
		}
		sc, err := ss2022.NewServerUserCipherConfig(strconv.Itoa(u), psk, true)
		if err != nil {
			res.setup = err.Error()
			return
		}
		k.upsk = append(k.upsk, psk)
		k.ucc = append(k.ucc, ucc)
		k.hash = append(k.hash, ss2022.PSKHash(psk))
		ulm[ss2022.PSKHash(psk)] = sc
	}
	var unknown [16]byte
	copy(unknown[:], r.Bytes(16))
	srv := ss2022.NewUDPServer(c.Size, ss2022.UserCipherConfig{}, icc, ss2022.NoPadding)
	srv.ReplaceUserLookupMap(ulm)
	start := time.Now()
	ctx := context.Background()

	// two real EIH clients (users 0 and 1), each with one client session
	type realClient struct {
		sess  zerocopy.UDPClientSession
		front int
		rear  int
		pid   uint64
		csid  uint64
		user  int
	}
	var reals []*realClient
	for u := 0; u < 2; u++ {
		ccc, err := ss2022.NewClientCipherConfig(k.upsk[u], [][]byte{ipsk}, true)
		if err != nil {
			res.setup = err.Error()
			return
		}
		cl := ss2022.NewUDPClient("c04", "ip", conn.AddrFromIPPort(netip.AddrPortFrom(netip.AddrFrom4([4]byte{127, 0, 0, 1}), 1080)), 1500, conn.DefaultUDPClientListenConfig, c.Size, ccc, ss2022.NoPadding)
		info, sess, err := cl.NewSession(ctx)
		if err != nil {
			res.setup = err.Error()
			return
		}
		reals = append(reals, &realClient{sess: sess, front: info.PackerHeadroom.Front + 64, rear: info.PackerHeadroom.Rear, user: u})
	}
	sids := make([]uint64, 5)
	for i := range sids {
		sids[i] = r.U64()
	}
	tableSid := func(i int) uint64 { return sids[((i%len(sids))+len(sids))%len(sids)] }

	type entry struct {
		unp  zerocopy.ServerUnpacker
		user string
	}
	table := map[uint64]*entry{}
	res.lines = append(res.lines, "eih new "+strconv.FormatUint(c.Size, 10))
	res.impl = append(res.impl, "ok")
	n := len(c.Events)
	bytesOf := make([][]byte, n)
	res.truths = make([]truth, n)
	res.nows = make([]int64, n)
	res.ran = make([]bool, n)
	ets := make([]etruth, n)
	for i, e := range c.Events {
		if e.Skip {
			continue
		}
		if d := time.Duration(e.At) - time.Since(start); d > 0 {
			time.Sleep(d)
		}
		now := time.Now()
		payload := []byte{byte(i), byte(i >> 8), 0xC0, 0x04}
		var pkt []byte
		switch e.Kind {
		case "real":
			rc := reals[((e.KU%2)+2)%2]
			b := make([]byte, rc.front+len(payload)+rc.rear)
			copy(b[rc.front:], payload)
			_, ps, pl, err := rc.sess.Packer.PackInPlace(ctx, b, conn.AddrFromIPPort(tgtAddr), rc.front, len(payload))
			if err != nil {
				panic(err)
			}
			pkt = append([]byte(nil), b[ps:ps+pl]...)
		case "craft":
			ts := now.Unix() + e.Skew
			if e.AbsT {
				ts = e.Skew
			}
			ku := ((e.KU % eihUsers) + eihUsers) % eihUsers
			eu := ku
			switch {
			case e.EU == 9:
				eu = -1
			case e.EU > 0:
				eu = (e.EU - 1) % eihUsers
			}
			pkt = k.craft(eu, ku, tableSid(e.Sess), e.Pid, e.Typ, ts, e.Pad, e.Cut, payload, unknown)
		case "replay", "flip", "trunc":
			if e.Ref < 0 || e.Ref >= i || bytesOf[e.Ref] == nil {
				continue
			}
			pkt = append([]byte(nil), bytesOf[e.Ref]...)
			switch e.Kind {
			case "flip":
				bit := ((e.Bit % (len(pkt) * 8)) + len(pkt)*8) % (len(pkt) * 8)
				pkt[bit/8] ^= 1 << (bit % 8)
			case "trunc":
				cut := 1 + ((e.Bit%len(pkt))+len(pkt))%len(pkt)
				pkt = pkt[:len(pkt)-cut]
			}
		case "short":
			pkt = common.NewRng(c.Seed ^ uint64(i)).Bytes(((e.Bit % 48) + 48) % 48)
		default:
			panic("unknown event kind " + e.Kind)
		}
		et := k.decode(pkt)
		if e.Kind == "real" && (et.eihUser != reals[((e.KU%2)+2)%2].user || et.keyUser != et.eihUser || !et.tr.addr) {
			panic(fmt.Sprintf("harness self-check: real EIH packet decodes as %+v", et))
		}
		bytesOf[i] = append([]byte(nil), pkt...)
		ets[i] = et
		res.truths[i] = et.tr
		res.ran[i] = true
		nowNs := time.Now().UnixNano()
		res.nows[i] = nowNs
		res.lines = append(res.lines, fmt.Sprintf("eih pkt %d %s %s %s %s %s %d %d %s %d %d %s %s", nowNs, b01(et.sep), b01(et.eih), optS(et.eihUser), optS(et.keyUser),
			b01(et.tr.long), et.tr.sid, et.tr.pid, b01(et.tr.hdr), et.tr.typ, uint64(et.tr.ts), b01(et.tr.pad), b01(et.tr.addr)))

		// the relay's receive path (service/udp_session.go)
		buf := append([]byte(nil), pkt...)
		var out string
		csid, err := srv.SessionInfo(buf)
		if err != nil {
			out = classifyE(err)
		} else {
			ent, ok := table[csid]
			if !ok {
				ent = &entry{}
				ent.unp, ent.user, err = srv.NewUnpacker(buf, csid)
			}
			if err != nil {
				out = classifyE(err)
			} else {
				_, ps, pl, err := ent.unp.UnpackInPlace(buf, srcAddr, 0, len(buf))
				out = classifyE(err)
				if err == nil {
					if string(buf[ps:ps+pl]) != string(payloadOf(nil, c.Events, i)) {
						out = "ok-wrong-payload"
					}
					if !ok {
						table[csid] = ent
					}
				}
			}
		}
		who := "-"
		if et.sep {
			if ent, ok := table[et.tr.sid]; ok {
				who = ent.user
			}
		}
		res.impl = append(res.impl, out+" "+who)
	}
	res.ets = ets
}

// oracleEih: the statement, per (user, client session).
func oracleEih(c UCase, res *uResult) (key, detail string) {
	size := effSize(c.Size)
	ets := res.ets
	type sessO struct {
		user int
		log  *sessLog
	}
	sessions := map[uint64]*sessO{}
	li := 0
	for i, e := range c.Events {
		if !res.ran[i] {
			continue
		}
		li++
		f := strings.Fields(res.impl[li])
		out := f[0]
		et := ets[i]
		ok := out == "ok"
		if strings.HasPrefix(out, "ok-") {
			return "wrong-payload:eih", fmt.Sprintf("event %d (%s): delivered payload differs from the packed one", i, e.Kind)
		}
		hv, why := et.tr.valid("server", 0, res.nows[i], 0) // header-level validity given that the body opens
		s := sessions[et.tr.sid]
		// who must have sealed it
		must := -1
		if s != nil {
			must = s.user
		} else if et.eih {
			must = et.eihUser
		}
		valid := et.sep && et.eih && must >= 0 && et.keyUser == must && hv
		if ok && !valid {
			switch {
			case must < 0:
				why = "unknown-user"
			case et.keyUser != must:
				why = "foreign-user-key"
			}
			return "junk-delivered:eih:" + why, fmt.Sprintf("event %d (%s): %s datagram was delivered (session user %d, identity header user %d, key user %d)", i, e.Kind, why, must, et.eihUser, et.keyUser)
		}
		if ok && s != nil && s.log.delivered[et.tr.pid] {
			return "double-delivery:eih", fmt.Sprintf("event %d: client session %d packet id %d delivered a second time", i, et.tr.sid, et.tr.pid)
		}
		fresh := s == nil || s.log.fresh(et.tr.pid, size)
		if valid && fresh && !ok {
			return "fresh-refused:eih", fmt.Sprintf("event %d: fresh packet id %d of user %d's session %d refused with %s", i, et.tr.pid, must, et.tr.sid, out)
		}
		if ok {
			if s == nil {
				s = &sessO{user: must, log: &sessLog{delivered: map[uint64]bool{}}}
				sessions[et.tr.sid] = s
			}
			s.log.add(et.tr.pid)
			if len(f) > 1 && f[1] != strconv.Itoa(s.user) {
				return "wrong-user-attribution:eih", fmt.Sprintf("event %d: session of user %d is attributed to %q", i, s.user, f[1])
			}
		}
	}
	return "", ""
}

// isJunkEih: never deliverable whatever the table holds: forged under every user's key, or an invalid header.
func isJunkEih(res *uResult, i int) bool {
	et := res.ets[i]
	hv, _ := et.tr.valid("server", 0, res.nows[i], 0)
	return !et.sep || !et.eih || et.keyUser < 0 || !hv
}
