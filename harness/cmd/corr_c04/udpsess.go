// Engine "udpsess": the real ss2022 UDP unpackers (ShadowPacketServerUnpacker / ShadowPacketClientUnpacker,
// obtained through NewUDPServer / NewUDPClient as the relays do) against the Lean model
// SSV.Model.UdpSession, inside a testing/synctest bubble (fake clock: timestamps, the one-minute rule).
//
// Packets come from the real packers and from a crafter that holds the keys (so that every header field,
// packet id and session id can be chosen); histories mix in-order, reordered, duplicated, forged
// (bit-flipped), truncated, stale, wrong-type, foreign-session and old/new server-session packets.
// The harness tells the model what the unpacker can observe of each packet (ids after block decryption,
// whether the AEAD opens, header fields) and the clock reading; compared per packet: result class,
// existence of the filter (server) / current and old server session ids (client).
//
// Oracle (from the property statement, independent of the model): per session every (session id, packet id)
// is delivered at most once, also across current/old/dropped server sessions; a valid packet whose id is
// fresh in its session is delivered; junk is never delivered; no two server-session changes within a
// minute; removing the junk events from the history does not change any other verdict.
package main

import (
	"context"
	"crypto/cipher"
	"encoding/binary"
	"errors"
	"fmt"
	"net/netip"
	"reflect"
	"strconv"
	"strings"
	"testing"
	"testing/synctest"
	"time"

	"ssvharness/internal/common"

	"github.com/database64128/shadowsocks-go/conn"
	"github.com/database64128/shadowsocks-go/ss2022"
	"github.com/database64128/shadowsocks-go/zerocopy"
)

type UEvent struct {
	At   int64  `json:"at"`             // nanoseconds since the start of the case (non-decreasing)
	Kind string `json:"kind"`           // real | craft | replay | flip | trunc | short
	Sess int    `json:"sess,omitempty"` // session index: 0 = the session under test (server) / server session table index (client); server side >0 = foreign client session
	Pid  uint64 `json:"pid,omitempty"`
	Skew int64  `json:"skew,omitempty"` // header timestamp = unix seconds at delivery + skew
	AbsT bool   `json:"abs_ts,omitempty"`
	Typ  int    `json:"typ"`              // header type byte
	Csid int    `json:"csid,omitempty"`   // client side: 0 = this client's session id, 1 = another client's
	Pad  int    `json:"pad,omitempty"`    // padding length
	Cut  string `json:"cut,omitempty"`    // "" | hdr (plaintext shorter than the fixed header) | pad (padding overruns) | addr (bad ATYP)
	Ref  int    `json:"ref,omitempty"`    // replay/flip/trunc: index of the earlier event whose bytes are reused
	Bit  int    `json:"bit,omitempty"`    // flip: bit position (mod length); trunc: bytes to cut; short: length
	KU   int    `json:"ku,omitempty"`     // eih: user whose key seals the body
	EU   int    `json:"eu,omitempty"`     // eih: identity header user: 0 = same as ku, k>0 = user k-1, 9 = no known user
	Skip bool   `json:"skip,omitempty"`   // not executed (used by the junk-removal oracle and the shrinker)
}

type UCase struct {
	Side   string   `json:"side"` // server | client
	Size   uint64   `json:"size"` // configured filter size (0 = default)
	PSKLen int      `json:"psk_len"`
	Eih    bool     `json:"eih,omitempty"` // side client: the client is configured with one identity header (iPSK)
	Seed   uint64   `json:"seed"`
	Events []UEvent `json:"events"`
}

// truth is what the unpacker can observe of a packet once the separate header is decrypted.
type truth struct {
	long     bool
	sid, pid uint64
	auth     bool
	hdr      bool
	typ      int
	ts       int64
	csid     uint64
	pad      bool // padding length fits
	addr     bool // SOCKS address parses
}

type keys struct {
	ucc   ss2022.UserCipherConfig
	block cipher.Block
}

func be64(x uint64) []byte { b := make([]byte, 8); binary.BigEndian.PutUint64(b, x); return b }

func (k *keys) aead(sid uint64) cipher.AEAD {
	a, err := k.ucc.AEAD(be64(sid))
	if err != nil {
		panic(err)
	}
	return a
}

// craft builds an authentic packet with the given fields. server=true: server message (has a csid field).
func (k *keys) craft(server bool, sid, pid uint64, typ int, ts int64, csid uint64, pad int, cut string, payload []byte) []byte {
	var plain []byte
	plain = append(plain, byte(typ))
	plain = append(plain, be64(uint64(ts))...)
	if server {
		plain = append(plain, be64(csid)...)
	}
	tail := append(make([]byte, pad), 1, 1, 2, 3, 4, 0, 53) // padding, ATYP IPv4 1.2.3.4:53
	tail = append(tail, payload...)
	switch cut {
	case "pad":
		plain = append(plain, byte((len(tail)+5)>>8), byte(len(tail)+5))
	default:
		plain = append(plain, byte(pad>>8), byte(pad))
	}
	if cut == "addr" {
		tail[pad] = 9
	}
	plain = append(plain, tail...)
	if cut == "hdr" {
		n := 10
		if server {
			n = 18
		}
		plain = plain[:n-int(pid%3)]
	}
	hdr := append(be64(sid), be64(pid)...)
	ct := k.aead(sid).Seal(nil, hdr[4:16], plain, nil)
	enc := make([]byte, 16)
	k.block.Encrypt(enc, hdr)
	return append(enc, ct...)
}

// decode is the harness-side view of a datagram (it holds the keys): what the unpacker can observe of it.
// ownSid != nil: server side, the AEAD key is the one of the session under test.
func (k *keys) decode(pkt []byte, server bool, ownSid *uint64) (tr truth) {
	tr.long = len(pkt) >= 32
	if len(pkt) < 16 {
		return
	}
	hdr := make([]byte, 16)
	k.block.Decrypt(hdr, pkt[:16])
	tr.sid, tr.pid = binary.BigEndian.Uint64(hdr), binary.BigEndian.Uint64(hdr[8:])
	if !tr.long {
		return
	}
	keySid := tr.sid
	if ownSid != nil {
		keySid = *ownSid
	}
	plain, err := k.aead(keySid).Open(nil, hdr[4:16], pkt[16:], nil)
	if err != nil {
		return
	}
	tr.auth = true
	fixed := 11
	if server {
		fixed = 19
	}
	if len(plain) < fixed {
		return
	}
	tr.hdr = true
	tr.typ = int(plain[0])
	tr.ts = int64(binary.BigEndian.Uint64(plain[1:]))
	if server {
		tr.csid = binary.BigEndian.Uint64(plain[9:])
	}
	pad := int(binary.BigEndian.Uint16(plain[fixed-2:]))
	rest := plain[fixed:]
	tr.pad = pad <= len(rest)
	tr.addr = tr.pad && len(rest)-pad >= 7 && rest[pad] == 1
	return
}

func classify(err error) string {
	switch {
	case err == nil:
		return "ok"
	case errors.Is(err, zerocopy.ErrPacketTooSmall):
		return "too-small"
	case errors.Is(err, ss2022.ErrReplay):
		return "replay"
	case errors.Is(err, ss2022.ErrTooManyServerSessions):
		return "too-many-sessions"
	case errors.Is(err, ss2022.ErrTypeMismatch):
		return "type"
	case errors.Is(err, ss2022.ErrBadTimestamp):
		return "timestamp"
	case errors.Is(err, ss2022.ErrClientSessionIDMismatch):
		return "csid"
	case errors.Is(err, ss2022.ErrPacketIncompleteHeader): // fixed-length part missing, or padding overruns
		return "incomplete"
	case err.Error() == "cipher: message authentication failed":
		return "auth"
	case strings.HasPrefix(err.Error(), "addr length") || strings.HasPrefix(err.Error(), "invalid ATYP"):
		return "addr"
	}
	return "other:" + err.Error()
}

// canonModel maps the model's result names onto the classes the implementation's errors can be told apart into.
func canonModel(s string) string {
	f := strings.Fields(s)
	return strings.Join(f, " ")
}

type uResult struct {
	lines  []string // driver script
	impl   []string // implementation output, one per line of the script
	truths []truth  // per event (zero value for skipped events)
	nows   []int64  // unix nanoseconds at delivery, per event
	ran    []bool
	panic  any
	setup  string
	ets    []etruth // side eih
}

var (
	srcAddr = netip.AddrPortFrom(netip.AddrFrom4([4]byte{127, 0, 0, 1}), 10800)
	tgtAddr = netip.AddrPortFrom(netip.AddrFrom4([4]byte{1, 2, 3, 4}), 53)
)

func b01(b bool) string {
	if b {
		return "1"
	}
	return "0"
}

// runU executes the case on the real unpackers inside a synctest bubble.
func runU(t *testing.T, c UCase) (res uResult) {
	synctest.Test(t, func(t *testing.T) {
		res.panic = common.Safely(func() {
			if c.Side == "eih" {
				runEih(c, &res)
			} else {
				runUInner(c, &res)
			}
		})
	})
	return
}

func reflField(x any, name string) reflect.Value {
	v := reflect.ValueOf(x).Elem().FieldByName(name)
	if !v.IsValid() {
		panic("field " + name + " no longer exists in " + reflect.TypeOf(x).String())
	}
	return v
}

func runUInner(c UCase, res *uResult) {
	r := common.NewRng(c.Seed)
	psk := r.Bytes(c.PSKLen)
	ucc, err := ss2022.NewUserCipherConfig(psk, true)
	if err != nil {
		res.setup = err.Error()
		return
	}
	var ipsks [][]byte
	sepBlock := ucc.Block() // the block cipher of the separate header of client packets
	if c.Eih && c.Side == "client" {
		ipsk := r.Bytes(c.PSKLen)
		icc, err := ss2022.NewServerIdentityCipherConfig(ipsk, true)
		if err != nil {
			res.setup = err.Error()
			return
		}
		ipsks, sepBlock = [][]byte{ipsk}, icc.UDP()
	}
	ccc, err := ss2022.NewClientCipherConfig(psk, ipsks, true)
	if err != nil {
		res.setup = err.Error()
		return
	}
	k := &keys{ucc: ucc, block: ucc.Block()}
	start := time.Now()
	ctx := context.Background()

	// the real client (packer + client unpacker) and the real server
	cl := ss2022.NewUDPClient("c04", "ip", conn.AddrFromIPPort(netip.AddrPortFrom(netip.AddrFrom4([4]byte{127, 0, 0, 1}), 1080)), 1500, conn.DefaultUDPClientListenConfig, c.Size, ccc, ss2022.NoPadding)
	info, sess, err := cl.NewSession(ctx)
	if err != nil {
		res.setup = err.Error()
		return
	}
	srv := ss2022.NewUDPServer(c.Size, ucc, ss2022.ServerIdentityCipherConfig{}, ss2022.NoPadding)
	front := info.PackerHeadroom.Front + 64
	packClient := func(payload []byte) []byte {
		b := make([]byte, front+len(payload)+info.PackerHeadroom.Rear)
		copy(b[front:], payload)
		_, ps, pl, err := sess.Packer.PackInPlace(ctx, b, conn.AddrFromIPPort(tgtAddr), front, len(payload))
		if err != nil {
			panic(err)
		}
		return append([]byte(nil), b[ps:ps+pl]...)
	}
	// learn the real client session id from a packed packet (the harness holds the keys)
	probe := packClient([]byte("probe"))
	hdr := make([]byte, 16)
	sepBlock.Decrypt(hdr, probe[:16])
	csid := binary.BigEndian.Uint64(hdr)
	realPid := uint64(1) // next packet id of the real client packer

	// session id tables
	sids := make([]uint64, 6)
	for i := range sids {
		sids[i] = r.U64()
	}
	var sunp zerocopy.ServerUnpacker
	var cunp zerocopy.ClientUnpacker
	realServerPackers := map[int]zerocopy.ServerPacker{}
	realSsid := map[int]uint64{}
	realSpid := map[int]uint64{}
	if c.Side == "server" {
		sids[0] = csid
		h := append(be64(csid), be64(0)...)
		sunp, _, err = srv.NewUnpacker(h, csid)
		if err != nil {
			res.setup = err.Error()
			return
		}
		res.lines = append(res.lines, "srv new "+strconv.FormatUint(c.Size, 10))
	} else {
		if r.Chance(1, 4) {
			sids[1] = 0 // the zero value of currentServerSessionID
		}
		cunp = sess.Unpacker
		res.lines = append(res.lines, "cli new "+strconv.FormatUint(c.Size, 10)+" "+strconv.FormatUint(csid, 10))
	}
	res.impl = append(res.impl, "ok")
	foreignCsid := csid ^ 0x5555

	n := len(c.Events)
	bytesOf := make([][]byte, n)
	res.truths = make([]truth, n)
	res.nows = make([]int64, n)
	res.ran = make([]bool, n)
	tableSid := func(i int) uint64 { return sids[((i%len(sids))+len(sids))%len(sids)] }

	var own *uint64
	if c.Side == "server" {
		own = &csid
	}
	for i, e := range c.Events {
		if e.Skip {
			continue
		}
		if d := time.Duration(e.At) - time.Since(start); d > 0 {
			time.Sleep(d)
		}
		now := time.Now()
		var pkt []byte
		var tr truth
		payload := []byte{byte(i), byte(i >> 8), 0xC0, 0x04}
		switch e.Kind {
		case "real":
			if c.Side == "server" {
				pkt = packClient(payload)
				tr = truth{long: true, sid: csid, pid: realPid, auth: true, hdr: true, typ: ss2022.HeaderTypeClientPacket, ts: now.Unix(), pad: true, addr: true}
				realPid++
			} else {
				idx := e.Sess % 2 // two real server sessions at most
				sp, ok := realServerPackers[idx]
				if !ok {
					h := append(be64(csid), be64(0)...)
					su, _, err := srv.NewUnpacker(h, csid)
					if err != nil {
						panic(err)
					}
					sp, err = su.NewPacker()
					if err != nil {
						panic(err)
					}
					realServerPackers[idx] = sp
				}
				b := make([]byte, ss2022.ShadowPacketServerMessageHeadroom.Front+64+len(payload)+16)
				ps0 := ss2022.ShadowPacketServerMessageHeadroom.Front + 64
				copy(b[ps0:], payload)
				ps, pl, err := sp.PackInPlace(b, tgtAddr, ps0, len(payload), 1452)
				if err != nil {
					panic(err)
				}
				pkt = append([]byte(nil), b[ps:ps+pl]...)
				if _, ok := realSsid[idx]; !ok {
					k.block.Decrypt(hdr, pkt[:16])
					realSsid[idx] = binary.BigEndian.Uint64(hdr)
				}
				tr = truth{long: true, sid: realSsid[idx], pid: realSpid[idx], auth: true, hdr: true, typ: ss2022.HeaderTypeServerPacket, ts: now.Unix(), csid: csid, pad: true, addr: true}
				realSpid[idx]++
			}
		case "craft":
			ts := now.Unix() + e.Skew
			if e.AbsT {
				ts = e.Skew
			}
			sid := tableSid(e.Sess)
			pc := csid
			if e.Csid != 0 {
				pc = foreignCsid
			}
			pkt = k.craft(c.Side == "client", sid, e.Pid, e.Typ, ts, pc, e.Pad, e.Cut, payload)
			tr = truth{long: true, sid: sid, pid: e.Pid, auth: true, hdr: e.Cut != "hdr", typ: e.Typ, ts: ts, csid: pc, pad: e.Cut != "pad", addr: e.Cut != "pad" && e.Cut != "addr"}
			if c.Side == "server" && sid != csid {
				tr.auth = false // sealed with another client session's key
			}
		case "replay", "flip", "trunc":
			ref := e.Ref
			if ref < 0 || ref >= i || bytesOf[ref] == nil {
				continue // the referenced event was not executed
			}
			pkt = append([]byte(nil), bytesOf[ref]...)
			switch e.Kind {
			case "flip":
				bit := ((e.Bit % (len(pkt) * 8)) + len(pkt)*8) % (len(pkt) * 8)
				pkt[bit/8] ^= 1 << (bit % 8)
			case "trunc":
				cut := 1 + ((e.Bit%len(pkt))+len(pkt))%len(pkt)
				pkt = pkt[:len(pkt)-cut]
			}
			tr = k.decode(pkt, c.Side == "client", own)
		case "short":
			pkt = common.NewRng(c.Seed ^ uint64(i)).Bytes(((e.Bit % 32) + 32) % 32)
			tr = k.decode(pkt, c.Side == "client", own)
		default:
			panic("unknown event kind " + e.Kind)
		}
		if e.Kind == "real" || e.Kind == "craft" { // self-check of the harness: construction and decoder agree
			d := k.decode(pkt, c.Side == "client", own)
			if d.sid != tr.sid || d.pid != tr.pid || d.auth != tr.auth || d.long != tr.long || (d.auth && d.hdr != tr.hdr) ||
				(d.auth && d.hdr && (d.typ != tr.typ || d.ts != tr.ts || d.pad != tr.pad || d.addr != tr.addr || (c.Side == "client" && d.csid != tr.csid))) {
				panic(fmt.Sprintf("harness self-check: event %d constructed as %+v but decodes as %+v", i, tr, d))
			}
			tr = d
		}
		bytesOf[i] = append([]byte(nil), pkt...)
		res.truths[i] = tr
		res.ran[i] = true
		nowNs := time.Now().UnixNano()
		res.nows[i] = nowNs
		buf := append([]byte(nil), pkt...)
		if c.Side == "server" {
			res.lines = append(res.lines, fmt.Sprintf("srv pkt %d %s %d %s %s %d %d %s %s", nowNs, b01(tr.long), tr.pid, b01(tr.auth), b01(tr.hdr), tr.typ, uint64(tr.ts), b01(tr.pad), b01(tr.addr)))
			var out string
			if len(buf) < 16 {
				_, err := srv.SessionInfo(buf)
				out = classify(err)
			} else {
				if _, err := srv.SessionInfo(buf); err != nil { // the relay decrypts the separate header first
					out = classify(err)
				} else {
					_, ps, pl, err := sunp.UnpackInPlace(buf, srcAddr, 0, len(buf))
					out = classify(err)
					if err == nil && string(buf[ps:ps+pl]) != string(payloadOf(bytesOf, c.Events, i)) {
						out = "ok-wrong-payload"
					}
				}
			}
			if reflField(sunp, "filter").IsNil() {
				out += " nofilter"
			} else {
				out += " filter"
			}
			res.impl = append(res.impl, out)
		} else {
			res.lines = append(res.lines, fmt.Sprintf("cli pkt %d %s %d %d %s %s %d %d %d %s %s", nowNs, b01(tr.long), tr.sid, tr.pid, b01(tr.auth), b01(tr.hdr), tr.typ, uint64(tr.ts), tr.csid, b01(tr.pad), b01(tr.addr)))
			_, ps, pl, err := cunp.UnpackInPlace(buf, srcAddr, 0, len(buf))
			out := classify(err)
			if err == nil && string(buf[ps:ps+pl]) != string(payloadOf(bytesOf, c.Events, i)) {
				out = "ok-wrong-payload"
			}
			sidOf := func(idField, aeadField string) string {
				if reflField(cunp, aeadField).IsNil() {
					return "-"
				}
				return strconv.FormatUint(reflField(cunp, idField).Uint(), 10)
			}
			out += " " + sidOf("currentServerSessionID", "currentServerSessionAEAD") + " " + sidOf("oldServerSessionID", "oldServerSessionAEAD")
			res.impl = append(res.impl, out)
		}
	}
}

// payloadOf returns the payload the original of event i carried (replays carry the payload of their source).
func payloadOf(_ [][]byte, evs []UEvent, i int) []byte {
	for evs[i].Kind == "replay" || evs[i].Kind == "flip" || evs[i].Kind == "trunc" { // a flipped bit outside the AEAD-covered part
		i = evs[i].Ref // (identity header of an established session) leaves the payload of the source
	}
	return []byte{byte(i), byte(i >> 8), 0xC0, 0x04}
}

// ---------- oracle ----------

func (tr truth) valid(side string, csid uint64, nowNs int64, ownSid uint64) (bool, string) {
	sec := nowNs / 1e9
	switch {
	case !tr.long:
		return false, "short"
	case !tr.auth:
		return false, "forged"
	case !tr.hdr:
		return false, "malformed"
	case side == "server" && tr.typ != ss2022.HeaderTypeClientPacket, side == "client" && tr.typ != ss2022.HeaderTypeServerPacket:
		return false, "wrong-type"
	case tr.ts > sec+ss2022.MaxEpochDiff || tr.ts < sec-ss2022.MaxEpochDiff: // no overflow: sec is a sane clock reading
		return false, "stale"
	case side == "client" && tr.csid != csid:
		return false, "foreign-csid"
	case !tr.pad || !tr.addr:
		return false, "malformed"
	}
	return true, ""
}

type sessLog struct {
	delivered map[uint64]bool
	newest    uint64
	have      bool
}

func (s *sessLog) fresh(pid, size uint64) bool {
	return !s.delivered[pid] && (!s.have || pid > s.newest || s.newest-pid < size)
}
func (s *sessLog) add(pid uint64) {
	s.delivered[pid] = true
	if !s.have || pid > s.newest {
		s.newest, s.have = pid, true
	}
}

func effSize(n uint64) uint64 {
	if n == 0 {
		return ss2022.DefaultSlidingWindowFilterSize
	}
	return n
}

// oracleU evaluates the property statement on the implementation's per-packet results.
func oracleU(c UCase, res *uResult) (key, detail string) {
	if c.Side == "eih" {
		return oracleEih(c, res)
	}
	size := effSize(c.Size)
	var csid uint64
	if f := strings.Fields(res.lines[0]); c.Side == "client" {
		csid, _ = strconv.ParseUint(f[3], 10, 64)
	}
	everDelivered := map[int]string{} // root event index -> where it was delivered
	var cur, old *sessLog
	var curSid, oldSid uint64
	var lastChange int64
	haveChange := false
	srvLog := &sessLog{delivered: map[uint64]bool{}}
	li := 0
	for i, e := range c.Events {
		if !res.ran[i] {
			continue
		}
		li++
		out := strings.Fields(res.impl[li])[0]
		tr := res.truths[i]
		ok := out == "ok"
		if strings.HasPrefix(out, "ok-") {
			return "wrong-payload", fmt.Sprintf("event %d (%s): delivered payload differs from the packed one", i, e.Kind)
		}
		valid, why := tr.valid(c.Side, csid, res.nows[i], 0)
		if ok && !valid {
			return "junk-delivered:" + why, fmt.Sprintf("event %d (%s): %s packet was delivered", i, e.Kind, why)
		}
		if c.Side == "server" {
			if ok && srvLog.delivered[tr.pid] {
				return "double-delivery:server", fmt.Sprintf("event %d: packet id %d delivered a second time", i, tr.pid)
			}
			if valid && srvLog.fresh(tr.pid, size) && !ok {
				return "fresh-refused:server", fmt.Sprintf("event %d: fresh packet id %d refused with %s (newest %d, size %d)", i, tr.pid, out, srvLog.newest, size)
			}
			if ok {
				srvLog.add(tr.pid)
			}
			continue
		}
		// client: the very same packet (same bytes: a replay of an earlier event) is never delivered twice, whatever
		// happened to its session in between; within one life of a session no packet id is delivered twice.
		root := i
		for c.Events[root].Kind == "replay" {
			root = c.Events[root].Ref
		}
		if ok {
			if where, dup := everDelivered[root]; dup {
				loc := "dropped-session"
				if cur != nil && tr.sid == curSid {
					loc = "current-session"
				} else if old != nil && tr.sid == oldSid {
					loc = "old-session"
				}
				return "double-delivery:client:" + loc, fmt.Sprintf("event %d: the packet of event %d (server session %d, packet id %d) delivered a second time (first: %s)", i, root, tr.sid, tr.pid, where)
			}
			if cur != nil && tr.sid == curSid && cur.delivered[tr.pid] {
				return "double-delivery:client:same-id-current", fmt.Sprintf("event %d: packet id %d of the current server session delivered a second time", i, tr.pid)
			}
			if old != nil && tr.sid == oldSid && !(cur != nil && tr.sid == curSid) && old.delivered[tr.pid] {
				return "double-delivery:client:same-id-old", fmt.Sprintf("event %d: packet id %d of the old server session delivered a second time", i, tr.pid)
			}
		}
		switch {
		case cur != nil && tr.sid == curSid:
			if valid && cur.fresh(tr.pid, size) && !ok {
				return "fresh-refused:client:current", fmt.Sprintf("event %d: fresh packet id %d of the current server session refused with %s", i, tr.pid, out)
			}
			if ok {
				cur.add(tr.pid)
			}
		case old != nil && tr.sid == oldSid:
			if valid && old.fresh(tr.pid, size) && !ok {
				return "fresh-refused:client:old", fmt.Sprintf("event %d: fresh packet id %d of the old server session refused with %s", i, tr.pid, out)
			}
			if ok {
				old.add(tr.pid)
			}
		default:
			if ok { // a server session change
				if haveChange && res.nows[i]-lastChange < int64(time.Minute) {
					return "two-session-changes-within-a-minute", fmt.Sprintf("event %d: server session changed to %d only %v after the previous change", i, tr.sid, time.Duration(res.nows[i]-lastChange))
				}
				haveChange, lastChange = true, res.nows[i]
				old, oldSid = cur, curSid
				cur, curSid = &sessLog{delivered: map[uint64]bool{}}, tr.sid
				cur.add(tr.pid)
			}
		}
		if ok {
			everDelivered[root] = fmt.Sprintf("event %d", i)
		}
	}
	return "", ""
}

// isJunk: forged / stale / wrong-type / foreign-session / malformed / short, at its delivery time.
func isJunk(c UCase, res *uResult, i int) bool {
	if c.Side == "eih" {
		return isJunkEih(res, i)
	}
	var csid uint64
	if f := strings.Fields(res.lines[0]); c.Side == "client" {
		csid, _ = strconv.ParseUint(f[3], 10, 64)
	}
	v, _ := res.truths[i].valid(c.Side, csid, res.nows[i], 0)
	return !v
}

// ---------- generator ----------

var uSizes = []uint64{0, 1, 2, 63, 64, 65, 128, 256, 1000}

var gaps = []int64{0, 0, 0, 1e6, 1e9, 1e9, 2e9, 29e9, 30e9, 31e9, 59e9, 60e9 - 1, 60e9, 60e9 + 1, 61e9, 90e9, 121e9}

func genU(r *common.Rng, maxEv int) UCase {
	c := UCase{Side: "server", Size: common.Pick(r, uSizes), PSKLen: 16, Seed: r.U64()}
	switch r.Intn(5) {
	case 0, 1:
		c.Side = "client"
	case 2:
		c.Side = "eih"
	}
	if r.Bool() {
		c.PSKLen = 32
	}
	if c.Side == "client" && r.Bool() {
		c.Eih = true
	}
	size := effSize(c.Size)
	al := alphabet(size, r)
	n := r.Range(2, maxEv)
	var at int64
	goodTyp := ss2022.HeaderTypeClientPacket
	if c.Side == "client" {
		goodTyp = ss2022.HeaderTypeServerPacket
	}
	curPid := map[int]uint64{}
	curSess := 0 // client: index of the server session the "server" currently uses
	calm := r.Chance(1, 3)
	for i := 0; i < n; i++ {
		if calm {
			at += common.Pick(r, gaps[:7])
		} else {
			at += common.Pick(r, gaps)
		}
		e := UEvent{At: at, Kind: "craft", Typ: goodTyp}
		if c.Side == "client" {
			switch r.Intn(10) {
			case 0:
				curSess++ // the server restarts: new session
			case 1:
				e.Sess = curSess - 1 // a late packet of the previous session
			case 2:
				e.Sess = curSess - 2
			}
			if e.Sess == 0 {
				e.Sess = curSess
			}
			if e.Sess < 0 {
				e.Sess = 0
			}
		}
		if c.Side == "eih" {
			e.Sess = r.Intn(3)
			if r.Chance(1, 8) {
				e.Sess = 3 + r.Intn(2)
			}
			e.KU = e.Sess % eihUsers // a session normally belongs to one user
			switch r.Intn(12) {
			case 0:
				e.KU = r.Intn(eihUsers) // another user's key on this session id
			case 1:
				e.EU = 1 + r.Intn(eihUsers) // identity header of (possibly) another user
			case 2:
				e.EU = 9 // identity header of no known user
			}
		}
		cp := curPid[e.Sess]
		switch r.Intn(7) {
		case 0, 1:
			e.Pid = common.Pick(r, al)
		case 2:
			e.Pid = cp + uint64(r.Range(0, 130)) - 65
		case 3:
			e.Pid = cp - size + uint64(r.Range(0, 2)) - 1
		default:
			e.Pid = cp + uint64(r.Range(1, 3))
		}
		switch k := r.Intn(40); {
		case k < 4:
			e.Kind = "real"
		case k < 11 && i > 0:
			e.Kind, e.Ref = "replay", r.Intn(i)
		case k < 14 && i > 0:
			e.Kind, e.Ref, e.Bit = "flip", r.Intn(i), r.Intn(4096)
			if r.Bool() {
				e.Bit = r.Intn(128) // inside the separate header
			}
		case k < 15 && i > 0:
			e.Kind, e.Ref, e.Bit = "trunc", r.Intn(i), r.Intn(64)
		case k < 16:
			e.Kind, e.Bit = "short", r.Intn(48)
		case k < 19: // timestamp boundary / stale
			e.Skew = common.Pick(r, []int64{-31, -30, -29, 29, 30, 31, 40, -40, 3600})
		case k < 20: // every 64-bit timestamp value is peer-controlled: offsets whose products / differences wrap
			kk := int64(r.Range(1, 4))
			e.Skew = common.Pick(r, []int64{kk << 55, -(kk << 55), 1 << 62, -(1 << 62), -(1 << 63), 1 << 32, -(1 << 32), 1 << 31,
				1 << 33, 1 << 34, 1 << 53, 1 << 54, 1 << 56, 1 << 61, 1<<63 - 1, 9223372037, -9223372037, 18446744074, -18446744074})
			e.Skew += common.Pick(r, []int64{0, 0, 0, 1, -1, 30, -30, 31, -31}) // int64 wrap intended: now + 2^63 etc.
		case k < 21: // absolute timestamp words: 0, 2^31, 2^32, 2^62, 2^63-1, 2^63, 2^64-1
			e.AbsT, e.Skew = true, common.Pick(r, []int64{0, -1, 1 << 31, 1 << 32, 1 << 62, -(1 << 62), 1<<63 - 1, -(1 << 63), 946684800 + (1 << 32), 946684800 + (1 << 55)})
		case k < 23:
			e.Typ = 1 - goodTyp
			if r.Chance(1, 4) {
				e.Typ = 2 + r.Intn(254)
			}
			if r.Bool() {
				e.Skew = 31 // two faults: the type check comes first
			}
		case k < 25:
			if c.Side == "client" {
				e.Csid = 1
				if r.Bool() {
					e.Skew = -31
				}
			} else {
				e.Sess = 1 + r.Intn(3) // another client session's key
			}
		case k < 27:
			e.Cut = common.Pick(r, []string{"hdr", "pad", "addr"})
		}
		if e.Kind == "craft" && r.Chance(1, 5) {
			e.Pad = r.Range(1, 40)
		}
		if e.Kind == "craft" && r.Chance(1, 12) { // several faults at once: the first failing check of the parser decides
			if r.Bool() {
				e.Typ = 1 - goodTyp
			}
			if r.Bool() {
				e.Skew = common.Pick(r, []int64{31, -31, 1 << 55})
			}
			if r.Bool() && c.Side == "client" {
				e.Csid = 1
			}
			if r.Bool() {
				e.Cut = common.Pick(r, []string{"pad", "addr", "hdr"})
			}
		}
		c.Events = append(c.Events, e)
		if e.Kind == "craft" && e.Pid > curPid[e.Sess] && e.Cut == "" && e.Typ == goodTyp && e.Csid == 0 && !e.AbsT && e.Skew >= -30 && e.Skew <= 30 {
			curPid[e.Sess] = e.Pid
		}
	}
	return c
}

// tsProbeCases: directed, seed-independent histories for the "stale timestamp" clause over the whole 64-bit range:
// between two ordinary packets, one authentic packet per boundary timestamp (clock ± 30/31, 0, 2^31, 2^32,
// clock ± k·2^55 (± 30/31) for k = 1..4, clock + 2^62, 2^63-1, 2^63, 2^64-1, clock + 2^63, clock ± 2^32, ± 9223372037 s
// = the first second count whose nanoseconds overflow int64), in both directions.
func tsProbeCases() []UCase {
	var cases []UCase
	for _, side := range []string{"server", "client"} {
		typ := ss2022.HeaderTypeClientPacket
		if side == "client" {
			typ = ss2022.HeaderTypeServerPacket
		}
		c := UCase{Side: side, Size: 256, PSKLen: 32, Seed: 0xC04 + uint64(len(cases))}
		pid := uint64(0)
		add := func(skew int64, abs bool) {
			pid++
			c.Events = append(c.Events, UEvent{At: int64(pid) * 1e6, Kind: "craft", Typ: typ, Pid: pid, Skew: skew, AbsT: abs})
		}
		add(0, false)
		for _, d := range []int64{30, -30, 31, -31} {
			add(d, false)
		}
		for _, a := range []int64{0, 1 << 31, 1 << 32, 1 << 62, 1<<63 - 1, -(1 << 63), -1} {
			add(a, true)
		}
		for k := int64(1); k <= 4; k++ {
			for _, d := range []int64{0, 30, -30, 31, -31} {
				add(k<<55+d, false)
				add(-(k<<55)+d, false)
			}
		}
		for _, o := range []int64{1 << 62, -(1 << 62), -(1 << 63), 1 << 32, -(1 << 32), 9223372037, -9223372037, 18446744074, 1 << 56, 1 << 61} {
			add(o, false)
		}
		add(1, false)
		cases = append(cases, c)
	}
	return cases
}

func sigU(c UCase) string {
	var sb strings.Builder
	fmt.Fprintf(&sb, "%s %d", c.Side, c.Size)
	for _, e := range c.Events {
		if e.Skip {
			continue
		}
		fmt.Fprintf(&sb, " %d%s%d.%x.%d.%d%s%d", e.At/1e6, e.Kind[:2], e.Sess, e.Pid, e.Skew, e.Typ, e.Cut, e.Ref)
	}
	return sb.String()
}

// ---------- evaluation ----------

type uOutcome struct {
	failKey, failDetail string
	diverged            bool
	impl, model         []string
}

var udrv *common.Driver

// askDriver keeps one driver process for the whole engine (every case starts with `srv new` / `cli new`).
func askDriver(o *common.Options, lines []string) ([]string, error) {
	if udrv == nil {
		d, err := common.StartDriver(o.Driver)
		if err != nil {
			return nil, err
		}
		udrv = d
	}
	return udrv.Batch(lines)
}

// renameSids replaces session ids in an output line by their order of first appearance (the real packers draw
// random session ids, which differ between two runs of the same case).
func renameSids(l string, names map[string]string) string {
	f := strings.Fields(l)
	for i := 1; i < len(f); i++ {
		if f[i] == "-" || f[i] == "filter" || f[i] == "nofilter" {
			continue
		}
		if _, ok := names[f[i]]; !ok {
			names[f[i]] = fmt.Sprintf("s%d", len(names)+1)
		}
		f[i] = names[f[i]]
	}
	return strings.Join(f, " ")
}

// checkU runs one case on implementation, model and oracle.
func checkU(t *testing.T, c UCase, o *common.Options, full bool) (res uResult, out uOutcome, err error) {
	res = runU(t, c)
	if res.setup != "" {
		return res, out, fmt.Errorf("udpsess setup: %s", res.setup)
	}
	if res.panic != nil {
		out.failKey, out.failDetail = "panic:udpsess", fmt.Sprint(res.panic)
		return
	}
	out.impl = res.impl
	if o.Driver != "" {
		model, derr := askDriver(o, res.lines)
		if derr != nil {
			return res, out, derr
		}
		for i := range model {
			model[i] = canonModel(model[i])
		}
		out.model = model
		out.diverged = strings.Join(model, "|") != strings.Join(res.impl, "|")
	}
	out.failKey, out.failDetail = oracleU(c, &res)
	if out.failKey == "" && full {
		// junk-removal oracle: the same history without the junk events must give the same verdicts elsewhere
		c2 := c
		c2.Events = append([]UEvent(nil), c.Events...)
		removed := 0
		for i := range c2.Events {
			if res.ran[i] && isJunk(c, &res, i) && c2.Events[i].Kind != "real" && !referenced(c.Events, i) {
				c2.Events[i].Skip = true
				removed++
			}
		}
		if removed > 0 {
			res2 := runU(t, c2)
			if res2.panic != nil {
				out.failKey, out.failDetail = "panic:udpsess", fmt.Sprint(res2.panic)
				return
			}
			l1, l2 := 0, 0
			n1, n2 := map[string]string{}, map[string]string{}
			for i := range c.Events {
				if res.ran[i] {
					l1++
				}
				if res2.ran[i] {
					l2++
				}
				if res.ran[i] && res2.ran[i] {
					a, b := renameSids(res.impl[l1], n1), renameSids(res2.impl[l2], n2)
					if a != b {
						out.failKey = "junk-changed-verdicts"
						out.failDetail = fmt.Sprintf("event %d: %q with the junk events present, %q without them", i, a, b)
						return
					}
				}
			}
		}
	}
	return
}

func referenced(evs []UEvent, i int) bool {
	for j := i + 1; j < len(evs); j++ {
		if (evs[j].Kind == "replay" || evs[j].Kind == "flip" || evs[j].Kind == "trunc") && evs[j].Ref == i {
			return true
		}
	}
	return false
}

// shrinkU delta-debugs the event list (by skipping events) while `bad` keeps holding, then compacts it.
func shrinkU(c UCase, bad func(UCase) bool) UCase {
	evs := append([]UEvent(nil), c.Events...)
	all := live0(evs)
	withKept := func(keep []int) UCase {
		ks := map[int]bool{}
		for _, i := range keep {
			ks[i] = true
		}
		c2 := c
		c2.Events = append([]UEvent(nil), evs...)
		for i := range c2.Events {
			if !ks[i] {
				c2.Events[i].Skip = true
			}
		}
		return c2
	}
	kept := ddmin(all, func(keep []int) bool { return bad(withKept(keep)) })
	skipForm := withKept(kept)
	// compact: drop skipped events, remap references (an event whose source was dropped is dropped too)
	remap := map[int]int{}
	var outEv []UEvent
	for i, e := range skipForm.Events {
		if e.Skip {
			continue
		}
		if e.Kind == "replay" || e.Kind == "flip" || e.Kind == "trunc" {
			nr, ok := remap[e.Ref]
			if !ok {
				continue
			}
			e.Ref = nr
		}
		remap[i] = len(outEv)
		outEv = append(outEv, e)
	}
	c2 := c
	c2.Events = outEv
	if bad(c2) {
		return c2
	}
	return skipForm // compaction changed the behaviour: keep the skip form
}

func live0(evs []UEvent) []int {
	var l []int
	for i, e := range evs {
		if !e.Skip {
			l = append(l, i)
		}
	}
	return l
}

// ddmin: classic delta debugging on a list of kept indices; test(keep) = "still failing".
func ddmin(items []int, test func(keep []int) bool) []int {
	n := 2
	budget := 200
	for len(items) >= 2 && budget > 0 {
		chunk := (len(items) + n - 1) / n
		reduced := false
		for s := 0; s < len(items) && budget > 0; s += chunk {
			e := s + chunk
			if e > len(items) {
				e = len(items)
			}
			comp := append(append([]int(nil), items[:s]...), items[e:]...)
			budget--
			if len(comp) > 0 && test(comp) {
				items = comp
				if n > 2 {
					n--
				}
				reduced = true
				break
			}
		}
		if !reduced {
			if n >= len(items) {
				break
			}
			n *= 2
			if n > len(items) {
				n = len(items)
			}
		}
	}
	return items
}

func evalU(t *testing.T, c UCase, o *common.Options, rep *common.Report, shrink bool) error {
	res, out, err := checkU(t, c, o, true)
	if err != nil {
		return err
	}
	classes := map[string]bool{}
	for _, l := range res.impl[1:] {
		cl := strings.Fields(l)[0]
		if strings.HasPrefix(cl, "other:") {
			cl = "other"
		}
		classes[cl] = true
		rep.Count("udpsess:" + c.Side + ":" + cl)
	}
	for i, e := range c.Events {
		if res.ran != nil && i < len(res.ran) && res.ran[i] {
			rep.Count("udpsess:kind=" + e.Kind)
		}
	}
	rep.Case("U "+sigU(c), classes["ok"] && len(classes) >= 3)
	rep.Count("udpsess:side=" + c.Side)
	if rep.Distribution["udpsess:samples"] < 2 {
		rep.Count("udpsess:samples")
		rep.Sample(map[string]any{"engine": "udpsess", "case": c, "impl": res.impl})
	}
	if out.failKey != "" {
		if shrink {
			key := out.failKey
			c = shrinkU(c, func(c2 UCase) bool {
				_, o2, e2 := checkU(t, c2, o, key == "junk-changed-verdicts")
				return e2 == nil && o2.failKey == key
			})
			_, out, _ = checkU(t, c, o, true)
		}
		rep.Fail(common.OracleFailure{Engine: "udpsess", Key: out.failKey, Case: c, Detail: out.failDetail})
	}
	if out.diverged {
		if shrink && out.failKey == "" {
			c = shrinkU(c, func(c2 UCase) bool {
				_, o2, e2 := checkU(t, c2, o, false)
				return e2 == nil && o2.diverged
			})
			_, out, _ = checkU(t, c, o, false)
		}
		rep.Diverge(common.Divergence{Engine: "udpsess", Case: c, Impl: out.impl, Model: out.model})
	}
	rep.TracesValidated++
	return nil
}
